# Per-property driver configuration is one JSON file per property under checks.d/:
#   pkg, jobs[{flavour, sections, shards, shards_thorough, gomaxprocs, nondeterministic, ulimit_v_kb}],
#   timeout_quick, timeout_thorough, probe_timeout, assumptions[], manifest{technique, level, design_ref, note}
import glob, json, os
_ROOT = os.path.dirname(os.path.abspath(__file__))
PROPS = {}
for _p in sorted(glob.glob(os.path.join(_ROOT, "checks.d", "C*.json"))):
    PROPS[os.path.basename(_p)[:-5]] = json.load(open(_p, encoding="utf-8"))
