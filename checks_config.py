# Per-property driver configuration: Go package, jobs (binary flavour, sections, shard counts), caps.
PROPS = {
    "C12": {
        "pkg": "c12",
        "jobs": [
            {"flavour": "plain", "sections": "enum,enum3,seq,script", "shards": 8, "shards_thorough": 16},
            {"flavour": "race", "sections": "conc", "shards": 4, "shards_thorough": 8, "gomaxprocs": 4, "nondeterministic": True},
        ],
        "assumptions": [
            "the reference is Go's built-in map[string]int applied to the same operation sequence",
            "porcupine v1.3.0 decides linearizability of the recorded concurrent histories; the Go race detector and scheduler sample interleavings, they do not enumerate them",
            "Range/Length issued while other goroutines run are held only to the documented sync.Map contract, not to atomic-snapshot semantics",
        ],
    },
}
