# Words for MANIFEST.json, per property.
HOOK_COMMITS = ["12109f0"]

TEXTS = {
    "C12": {
        "technique": "model-based property testing: exhaustive short operation sequences and rapid random sequences against a Go map; generated concurrent histories checked for linearizability (porcupine) under the race detector",
        "level": "Exploration. Every sequence of 5 (quick) / 6 (thorough) operations over 2 keys x 2 values is executed against a reference map (exhaustive within that bound), plus tens of thousands of random sequences up to 200 operations and script-level dict histories; concurrent behaviour is sampled: thousands of generated multi-goroutine histories are checked for linearizability and for data races. The history-dependent read/dirty/expunged states are reached by short sequences, which is why bounded enumeration is the right tool; schedules are sampled, not enumerated.",
        "design_ref": "DESIGN.md §3 C12",
        "note": "Trusted: Go's built-in map as reference, porcupine v1.3.0, the Go race detector; interleavings are whatever the Go scheduler produced in this run.",
    },
}
