# Words for MANIFEST.json come from checks.d/<ID>.json ("manifest" key).
from checks_config import PROPS
HOOK_COMMITS = ["12109f0", "433c040"]
TEXTS = {pid: cfg["manifest"] for pid, cfg in PROPS.items() if "manifest" in cfg}
