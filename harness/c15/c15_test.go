// C15 — min-mode and max-mode evaluation bracket every roll.
//
// Sections:
//
//	rollfn  the exported roll functions (Roll, RollCommon, RollCoC, RollFate) called directly with mode -1 / 0 / +1
//	term    one dice term through the VM under DiceMinMode, DiceMaxMode and seeded random mode
//	expr    sums / products / quotients of terms and non-negative constants, also behind computed values and functions
//	enum    every small XdY term with every modifier combination (bounded exhaustive over the syntax)
//
// Oracles (shared by the property and by replay):
//
//	randomness  GetCurSeed / the PCG state is bit-identical before and after a min-mode or max-mode evaluation
//	bracket     min-mode result <= every seeded random result <= max-mode result
//	attained    for expressions made only of XdY terms: min-mode == kept x clamp(1), max-mode == kept x clamp(Y),
//	            computed from the AST without the VM
package c15

import (
	"encoding/json"
	"fmt"
	"math"
	"strconv"
	"strings"
	"testing"

	ds "github.com/sealdice/dicescript"
	"golang.org/x/exp/rand"
	"pgregory.net/rapid"

	"verif/harness/rt"
)

const avoidPenalty = "coc_penalty_minmode"

// ---------------------------------------------------------------------------
// AST of the generated domain

// Num is a numeric operand of a dice term (grammar: nos <- number / sub).
type Num struct {
	V int64 `json:"v"`
	P int   `json:"p,omitempty"` // 0: 12   1: (12)   2: (5+7)
	T *Term `json:"t,omitempty"` // parenthesised nested XdY term instead of a constant
}

type Link struct {
	Upper  bool   `json:"upper,omitempty"`
	Y      Num    `json:"y"`
	Mod    string `json:"mod,omitempty"`
	ModN   *Num   `json:"modn,omitempty"`
	Clamp  string `json:"clamp,omitempty"`
	ClampN *Num   `json:"clampn,omitempty"`
}

type Term struct {
	Kind  string `json:"kind"` // xdy | fate | coc | wod | dc (the last two only in non-exploding configurations)
	Upper bool   `json:"upper,omitempty"`
	// xdy: X and/or Y may be omitted (dY, Xd, d)
	X      *Num   `json:"x,omitempty"`
	Y      *Num   `json:"y,omitempty"`
	Mod    string `json:"mod,omitempty"` // k K kh q Q kl dh dl | 优势 優勢 劣势 劣勢
	ModN   *Num   `json:"modn,omitempty"`
	Clamp  string `json:"clamp,omitempty"` // min | max
	ClampN *Num   `json:"clampn,omitempty"`
	Chain  []Link `json:"chain,omitempty"` // 2d6d8: the value so far is the number of dice of the next link
	// coc
	Bonus bool `json:"bonus,omitempty"`
	N     int  `json:"n,omitempty"` // -1: omitted (means 1)
	// wod XaAmYkK / dc XcAmY: X pool, A add-dice line (0 or above the number of sides: no further rounds), Y sides, K success line (>=)
	A      int64 `json:"a,omitempty"`
	K      *Num  `json:"k,omitempty"`
	KFirst bool  `json:"kfirst,omitempty"`
}

type Expr struct {
	Op  string `json:"op"` // term const + * / ref paren
	T   *Term  `json:"t,omitempty"`
	C   int64  `json:"c,omitempty"`
	L   *Expr  `json:"l,omitempty"`
	R   *Expr  `json:"r,omitempty"`
	Ref int    `json:"ref,omitempty"`
	Sp  int    `json:"sp,omitempty"` // whitespace style around the operator
}

type Def struct {
	Kind string `json:"kind"` // computed | func | func-noreturn
	Body *Expr  `json:"body"`
}

type Case struct {
	Defs         []Def    `json:"defs,omitempty"`
	Main         *Expr    `json:"main"`
	DefaultSides string   `json:"default_sides,omitempty"`
	Seeds        []uint64 `json:"seeds"`
	Unseeded     bool     `json:"unseeded,omitempty"` // min/max runs on an unseeded VM (global source must stay untouched)
	Src          string   `json:"src,omitempty"`      // informational; the oracle prints the AST itself
	// Late: 0 = Run under the mode; 1 = Parse with no mode set, then the mode is switched on, then RunAfterParsed;
	// 2 = Parse and RunAfterParsed under the opposite fixed mode first, then the mode is switched, then RunAfterParsed
	// again (a host that shows the bounds of one parsed expression): the mode in force when the code runs decides
	Late int `json:"late,omitempty"`
	// Both: the min-mode evaluations run with DiceMaxMode switched on as well (a host that forgot to clear it): still a
	// fixed mode that consumes no randomness, and by the code's precedence still the lower bound
	Both bool `json:"both,omitempty"`
}

// default-sides expressions and the value each yields under (min, max) mode
var defaultSides = map[string][2]int64{
	"":      {100, 100},
	"20":    {20, 20},
	"6":     {6, 6},
	"d6":    {1, 6},
	"2d4+1": {3, 9},
}
var defaultSidesKeys = []string{"", "", "", "20", "6", "d6", "2d4+1"}

// ---------------------------------------------------------------------------
// printer

func (n *Num) print(sb *strings.Builder) {
	switch {
	case n.T != nil:
		sb.WriteString("(")
		n.T.print(sb)
		sb.WriteString(")")
	case n.P == 1:
		fmt.Fprintf(sb, "(%d)", n.V)
	case n.P == 2:
		fmt.Fprintf(sb, "(%d+%d)", n.V/2, n.V-n.V/2)
	default:
		fmt.Fprintf(sb, "%d", n.V)
	}
}

func printMods(sb *strings.Builder, mod string, modN *Num, clamp string, clampN *Num) {
	sb.WriteString(mod)
	if modN != nil {
		modN.print(sb)
	}
	if clamp != "" {
		sb.WriteString(clamp)
		clampN.print(sb)
	}
}

func (t *Term) print(sb *strings.Builder) {
	switch t.Kind {
	case "fate":
		if t.Upper {
			sb.WriteString("F")
		} else {
			sb.WriteString("f")
		}
	case "coc":
		l := "p"
		if t.Bonus {
			l = "b"
		}
		if t.Upper {
			l = strings.ToUpper(l)
		}
		sb.WriteString(l)
		if t.N >= 0 {
			fmt.Fprintf(sb, "%d", t.N)
		}
	case "wod", "dc":
		up := func(l string) string {
			if t.Upper {
				return strings.ToUpper(l)
			}
			return l
		}
		if t.X != nil {
			t.X.print(sb)
		}
		if t.Kind == "dc" {
			sb.WriteString(up("c"))
		} else {
			sb.WriteString(up("a"))
		}
		fmt.Fprintf(sb, "%d", t.A)
		if t.K != nil && t.KFirst {
			sb.WriteString(up("k"))
			t.K.print(sb)
		}
		if t.Y != nil {
			sb.WriteString(up("m"))
			t.Y.print(sb)
		}
		if t.K != nil && !t.KFirst {
			sb.WriteString(up("k"))
			t.K.print(sb)
		}
	default:
		if t.X != nil {
			t.X.print(sb)
		}
		if t.Upper {
			sb.WriteString("D")
		} else {
			sb.WriteString("d")
		}
		if t.Y != nil {
			t.Y.print(sb)
		}
		printMods(sb, t.Mod, t.ModN, t.Clamp, t.ClampN)
		for i := range t.Chain {
			l := &t.Chain[i]
			if l.Upper {
				sb.WriteString("D")
			} else {
				sb.WriteString("d")
			}
			l.Y.print(sb)
			printMods(sb, l.Mod, l.ModN, l.Clamp, l.ClampN)
		}
	}
}

func prec(op string) int {
	switch op {
	case "+":
		return 1
	case "*", "/":
		return 2
	}
	return 3
}

var spStyles = [][2]string{{"", ""}, {" ", " "}, {"", " "}, {" ", ""}, {"\t", " "}, {"  ", "  "}}

func (e *Expr) print(sb *strings.Builder, names []string) {
	switch e.Op {
	case "term":
		e.T.print(sb)
	case "const":
		fmt.Fprintf(sb, "%d", e.C)
	case "ref":
		sb.WriteString(names[e.Ref])
	case "paren":
		sb.WriteString("(")
		e.L.print(sb, names)
		sb.WriteString(")")
	default:
		p := prec(e.Op)
		if prec(e.L.Op) < p {
			sb.WriteString("(")
			e.L.print(sb, names)
			sb.WriteString(")")
		} else {
			e.L.print(sb, names)
		}
		st := spStyles[e.Sp%len(spStyles)]
		sb.WriteString(st[0])
		sb.WriteString(e.Op)
		sb.WriteString(st[1])
		if prec(e.R.Op) <= p {
			sb.WriteString("(")
			e.R.print(sb, names)
			sb.WriteString(")")
		} else {
			e.R.print(sb, names)
		}
	}
}

func printCase(c *Case) string {
	var sb strings.Builder
	names := make([]string, len(c.Defs))
	for i, d := range c.Defs {
		switch d.Kind {
		case "computed":
			names[i] = fmt.Sprintf("x%d", i)
			fmt.Fprintf(&sb, "&x%d = ", i)
			d.Body.print(&sb, names)
			sb.WriteString("; ")
		case "func":
			names[i] = fmt.Sprintf("g%d()", i)
			fmt.Fprintf(&sb, "func g%d() { return ", i)
			d.Body.print(&sb, names)
			sb.WriteString(" }; ")
		default:
			names[i] = fmt.Sprintf("g%d()", i)
			fmt.Fprintf(&sb, "func g%d() { ", i)
			d.Body.print(&sb, names)
			sb.WriteString(" }; ")
		}
	}
	c.Main.print(&sb, names)
	return sb.String()
}

// ---------------------------------------------------------------------------
// reference: what min-mode / max-mode must yield for expressions made of XdY terms only
// (GUIDE "骰子算符": kh/k keep highest n (default 1), kl/q keep lowest, dh/dl drop, min/max clamp every die,
// 优势 = 2dYkh, 劣势 = 2dYkl; under min mode every die shows 1, under max mode its number of sides)

type refCtx struct {
	mode int // -1 | +1
	def  [2]int64
	defs []Def
}

func (r *refCtx) num(n *Num) (int64, bool) {
	if n.T != nil {
		return r.term(n.T)
	}
	return n.V, true
}

func kept(times int64, mod string, n int64) int64 {
	switch mod {
	case "":
		return times
	case "k", "K", "kh", "q", "Q", "kl":
		if n > times {
			return times
		}
		return n
	case "dh", "dl":
		if times-n < 0 {
			return 0
		}
		return times - n
	}
	return times
}

func (r *refCtx) roll(times, sides int64, mod string, modN *Num, clamp string, clampN *Num) (int64, bool) {
	switch mod {
	case "优势", "優勢", "劣势", "劣勢":
		times = 2
		mod = "k"
	}
	n := int64(1)
	if modN != nil {
		var ok bool
		if n, ok = r.num(modN); !ok {
			return 0, false
		}
	}
	die := int64(1)
	if r.mode > 0 {
		die = sides
	}
	if clamp != "" {
		cv, ok := r.num(clampN)
		if !ok {
			return 0, false
		}
		if clamp == "max" && die > cv {
			die = cv
		}
		if clamp == "min" && die < cv {
			die = cv
		}
	}
	return kept(times, mod, n) * die, true
}

func (r *refCtx) term(t *Term) (int64, bool) {
	if t.Kind != "xdy" {
		return 0, false
	}
	times := int64(1)
	if t.X != nil {
		var ok bool
		if times, ok = r.num(t.X); !ok {
			return 0, false
		}
	}
	sides := r.def[0]
	if r.mode > 0 {
		sides = r.def[1]
	}
	if t.Y != nil {
		var ok bool
		if sides, ok = r.num(t.Y); !ok {
			return 0, false
		}
	}
	v, ok := r.roll(times, sides, t.Mod, t.ModN, t.Clamp, t.ClampN)
	if !ok {
		return 0, false
	}
	for i := range t.Chain {
		l := &t.Chain[i]
		y, ok := r.num(&l.Y)
		if !ok {
			return 0, false
		}
		if v, ok = r.roll(v, y, l.Mod, l.ModN, l.Clamp, l.ClampN); !ok {
			return 0, false
		}
	}
	return v, true
}

func (r *refCtx) expr(e *Expr) (int64, bool) {
	switch e.Op {
	case "term":
		return r.term(e.T)
	case "const":
		return e.C, true
	case "ref":
		return r.expr(r.defs[e.Ref].Body)
	case "paren":
		return r.expr(e.L)
	}
	a, ok := r.expr(e.L)
	if !ok {
		return 0, false
	}
	b, ok := r.expr(e.R)
	if !ok {
		return 0, false
	}
	switch e.Op {
	case "+":
		return a + b, true
	case "*":
		return a * b, true
	case "/":
		if b == 0 {
			return 0, false
		}
		return a / b, true
	}
	return 0, false
}

// walkTerms visits every term of the case (nested operands included).
func walkTerms(c *Case, fn func(t *Term)) {
	var wt func(t *Term)
	wn := func(n *Num) {
		if n != nil && n.T != nil {
			wt(n.T)
		}
	}
	wt = func(t *Term) {
		fn(t)
		wn(t.X)
		wn(t.Y)
		wn(t.ModN)
		wn(t.ClampN)
		for i := range t.Chain {
			wn(&t.Chain[i].Y)
			wn(t.Chain[i].ModN)
			wn(t.Chain[i].ClampN)
		}
	}
	var we func(e *Expr)
	we = func(e *Expr) {
		if e == nil {
			return
		}
		if e.Op == "term" {
			wt(e.T)
		}
		we(e.L)
		we(e.R)
	}
	for _, d := range c.Defs {
		we(d.Body)
	}
	we(c.Main)
}

func hasPenalty(c *Case) bool {
	found := false
	walkTerms(c, func(t *Term) {
		if t.Kind == "coc" && !t.Bonus && t.N != 0 {
			found = true
		}
	})
	return found
}

// ---------------------------------------------------------------------------
// the oracle for VM cases

func seedBytes(x uint64) []byte {
	b := make([]byte, 16)
	a, c := rt.Mix(x), rt.Mix(x^0x5851f42d4c957f2d)
	for i := 0; i < 8; i++ {
		b[i] = byte(a >> (8 * i))
		b[8+i] = byte(c >> (8 * i))
	}
	return b
}

type runOut struct {
	val      int64
	isInt    bool
	text     string
	err      string
	pi       *rt.PanicInfo
	rest     string
	seedSame bool
	detail   string
}

func runVM(c *Case, src string, mode int, seed uint64, unseeded bool) runOut {
	var vm *ds.Context
	if unseeded {
		vm = ds.NewVM()
	} else {
		vm = &ds.Context{Seed: seedBytes(seed)}
		vm.Init()
	}
	vm.Config.EnableDiceCoC = true
	vm.Config.EnableDiceFate = true
	vm.Config.EnableDiceWoD = true
	vm.Config.EnableDiceDoubleCross = true
	vm.Config.OpCountLimit = 1000000
	vm.Config.DefaultDiceSideExpr = c.DefaultSides
	setMode := func(m int) {
		vm.Config.DiceMinMode = m < 0
		vm.Config.DiceMaxMode = m > 0 || (m < 0 && c.Both)
	}
	var out runOut
	var err error
	late := c.Late
	if late == 2 {
		other := -1
		if mode < 0 {
			other = 1
		}
		setMode(other)
		var e0 error
		if pi := rt.Guard(func() {
			if e0 = vm.Parse(src); e0 == nil {
				e0 = vm.RunAfterParsed()
			}
		}); pi != nil || e0 != nil {
			late = 1 // the other mode does not get through: parse afresh
		}
	}
	if late == 1 {
		setMode(0)
		out.pi = rt.Guard(func() { err = vm.Parse(src) })
		if out.pi != nil {
			return out
		}
		if err != nil {
			out.err = err.Error()
			return out
		}
	}
	setMode(mode)
	before, _ := vm.GetCurSeed()
	if late == 0 {
		out.pi = rt.Guard(func() { err = vm.Run(src) })
	} else {
		out.pi = rt.Guard(func() { err = vm.RunAfterParsed() })
	}
	after, _ := vm.GetCurSeed()
	out.seedSame = string(before) == string(after)
	if out.pi != nil {
		return out
	}
	if err != nil {
		out.err = err.Error()
		return out
	}
	out.rest = vm.RestInput
	if vm.Ret != nil {
		out.text = vm.Ret.ToString()
		if vm.Ret.TypeId == ds.VMTypeInt {
			v, _ := vm.Ret.ReadInt()
			out.val, out.isInt = int64(v), true
		}
	}
	out.detail = vm.GetDetailText()
	return out
}

func modeName(m int) string {
	switch {
	case m < 0:
		return "min"
	case m > 0:
		return "max"
	}
	return "random"
}

// basic well-formedness of one run; every generated program is a valid expression of the documented dice
// syntax with positive counts and sides, so an error, a panic or unparsed rest is a failure of its own kind.
func runProblem(c *Case, s *rt.Section, src string, o runOut, mode int) *rt.Failure {
	m := modeName(mode)
	if o.pi == nil && strings.Contains(o.err, "算力上限") {
		// the configured operation budget (a net, 1e6) was hit: not a subject of this property
		return &rt.Failure{Signature: discardOpLimit}
	}
	if o.pi != nil {
		return s.NewFailure("no-panic", o.pi.Sig(), c, fmt.Sprintf("%s mode, %q: panic %s", m, src, o.pi.Value), "a value")
	}
	if o.err != "" {
		return s.NewFailure("evaluates", "error:"+m, c, fmt.Sprintf("%s mode, %q: error %s", m, src, o.err), "an integer (the term is valid: positive counts and sides)")
	}
	if o.rest != "" {
		return s.NewFailure("evaluates", "unparsed-rest", c, fmt.Sprintf("%s mode, %q: rest %q", m, src, o.rest), "whole text consumed")
	}
	if !o.isInt {
		return s.NewFailure("evaluates", "not-int:"+m, c, fmt.Sprintf("%s mode, %q = %s", m, src, o.text), "an integer")
	}
	return nil
}

const discardOpLimit = "discard:op-count-limit"

// checkCase is the oracle; a returned failure whose signature is discardOpLimit means "case not judged".
func checkCase(c *Case, s *rt.Section, skipPenaltyLow bool) *rt.Failure {
	src := printCase(c)
	seed0 := uint64(1)
	if len(c.Seeds) > 0 {
		seed0 = c.Seeds[0]
	}
	lo := runVM(c, src, -1, seed0, c.Unseeded)
	if f := runProblem(c, s, src, lo, -1); f != nil {
		return f
	}
	hi := runVM(c, src, +1, seed0, c.Unseeded)
	if f := runProblem(c, s, src, hi, +1); f != nil {
		return f
	}
	if !lo.seedSame {
		return s.NewFailure("randomness", "randomness:min-mode", c, fmt.Sprintf("%q under DiceMinMode changed the state of the random source (unseeded VM: %v)", src, c.Unseeded), "GetCurSeed identical before and after")
	}
	if !hi.seedSame {
		return s.NewFailure("randomness", "randomness:max-mode", c, fmt.Sprintf("%q under DiceMaxMode changed the state of the random source (unseeded VM: %v)", src, c.Unseeded), "GetCurSeed identical before and after")
	}
	if lo.val > hi.val {
		return s.NewFailure("bracket", "bracket:min>max", c, fmt.Sprintf("%q: min-mode %d > max-mode %d", src, lo.val, hi.val), "min <= max")
	}
	// attained bounds for XdY-only expressions
	def := defaultSides[c.DefaultSides]
	if want, ok := (&refCtx{mode: -1, def: def, defs: c.Defs}).expr(c.Main); ok && want != lo.val {
		return s.NewFailure("attained", "attained:min", c, fmt.Sprintf("%q min-mode = %d  [%s]", src, lo.val, lo.detail), fmt.Sprintf("%d (every die at its lowest face, then min/max clamp, then keep/drop)", want))
	}
	if want, ok := (&refCtx{mode: +1, def: def, defs: c.Defs}).expr(c.Main); ok && want != hi.val {
		return s.NewFailure("attained", "attained:max", c, fmt.Sprintf("%q max-mode = %d  [%s]", src, hi.val, hi.detail), fmt.Sprintf("%d (every die at its highest face, then min/max clamp, then keep/drop)", want))
	}
	pen := hasPenalty(c)
	for _, sd := range c.Seeds {
		r := runVM(c, src, 0, sd, false)
		if f := runProblem(c, s, src, r, 0); f != nil {
			return f
		}
		if r.val < lo.val {
			if pen && skipPenaltyLow {
				continue
			}
			sig := "bracket-low"
			if pen {
				sig = "bracket-low:coc-penalty"
			}
			return s.NewFailure("bracket", sig, c, fmt.Sprintf("%q: seeded roll %d [%s] < min-mode %d [%s] (seed %d)", src, r.val, r.detail, lo.val, lo.detail, sd), "min-mode <= every roll")
		}
		if r.val > hi.val {
			return s.NewFailure("bracket", "bracket-high", c, fmt.Sprintf("%q: seeded roll %d [%s] > max-mode %d [%s] (seed %d)", src, r.val, r.detail, hi.val, hi.detail, sd), "every roll <= max-mode")
		}
	}
	return nil
}

// ---------------------------------------------------------------------------
// generators (VM sections)

type genOpts struct {
	allowDefault bool // Xd / d forms (default sides) — not inside function/computed bodies
	nonNeg       bool // no Fate
	nested       bool // operands may be nested terms
}

func genNumRange(t *rapid.T, label string, lo, hi int64) *Num {
	n := &Num{V: rapid.Int64Range(lo, hi).Draw(t, label)}
	switch rapid.IntRange(0, 9).Draw(t, label+"-style") {
	case 8:
		n.P = 1
	case 9:
		n.P = 2
	}
	return n
}

// small nested term whose value is always >= 1: AdB or AdBk[n]
func genNested(t *rapid.T, label string) *Num {
	tt := &Term{Kind: "xdy", N: -1}
	tt.X = &Num{V: rapid.Int64Range(1, 3).Draw(t, label+"-nx")}
	tt.Y = &Num{V: rapid.Int64Range(1, 4).Draw(t, label+"-ny")}
	if rapid.IntRange(0, 2).Draw(t, label+"-nk") == 2 {
		tt.Mod = rapid.SampledFrom([]string{"k", "q", "kh", "kl"}).Draw(t, label+"-nmod")
		if rapid.Bool().Draw(t, label+"-nn") {
			tt.ModN = &Num{V: rapid.Int64Range(1, 3).Draw(t, label+"-nmodn")}
		}
	}
	return &Num{T: tt}
}

var keepMods = []string{"k", "K", "kh", "q", "Q", "kl"}
var dropMods = []string{"dh", "dl"}
var pearMods = []string{"优势", "優勢", "劣势", "劣勢"}

func genSides(t *rapid.T, label string) int64 {
	switch rapid.IntRange(0, 11).Draw(t, label+"-class") {
	case 0, 1, 2, 3:
		return rapid.SampledFrom([]int64{1, 2, 3, 4, 6, 8, 10, 12, 20, 100}).Draw(t, label)
	case 4:
		return rapid.Int64Range(1000, 2_000_000_000).Draw(t, label)
	case 5:
		// sizes at the seams of the generator's word sizes
		return rapid.SampledFrom([]int64{2147483646, 2147483647, 2147483648, 4294967295, 4294967296, 65535, 65536, 65537}).Draw(t, label)
	default:
		return rapid.Int64Range(1, 30).Draw(t, label)
	}
}

func genXdY(t *rapid.T, o genOpts) *Term {
	tt := &Term{Kind: "xdy", N: -1}
	tt.Upper = rapid.IntRange(0, 5).Draw(t, "upperD") == 5
	form := rapid.SampledFrom([]string{"XdY", "XdY", "XdY", "XdY", "XdY", "dY", "dY", "Xd", "d"}).Draw(t, "form")
	if !o.allowDefault && (form == "Xd" || form == "d") {
		form = "XdY"
	}
	times := int64(1)
	if form == "XdY" || form == "Xd" {
		if o.nested && rapid.IntRange(0, 11).Draw(t, "x-nested") == 11 {
			tt.X = genNested(t, "x")
			times = 12
		} else {
			hi := int64(8)
			if rapid.IntRange(0, 7).Draw(t, "x-big") == 7 {
				hi = 60
			}
			tt.X = genNumRange(t, "x", 1, hi)
			times = tt.X.V
		}
	}
	sides := int64(100)
	if form == "XdY" || form == "dY" {
		if o.nested && rapid.IntRange(0, 11).Draw(t, "y-nested") == 11 {
			tt.Y = genNested(t, "y")
			sides = 12
		} else {
			tt.Y = &Num{V: genSides(t, "y")}
			if rapid.IntRange(0, 9).Draw(t, "y-paren") == 9 {
				tt.Y.P = rapid.IntRange(1, 2).Draw(t, "y-style")
			}
			sides = tt.Y.V
		}
	}
	chain := 0
	if (form == "XdY" || form == "dY") && times*sides <= 60 && rapid.IntRange(0, 7).Draw(t, "chain") == 7 {
		chain = rapid.IntRange(1, 2).Draw(t, "chain-len")
	}
	genMods := func(label string, times, sides int64, pear, bare, last bool) (mod string, modN *Num, clamp string, clampN *Num) {
		if !bare {
			k := rapid.IntRange(0, 9).Draw(t, label+"mod-class")
			switch {
			case k <= 1:
			case pear && k <= 3:
				mod = rapid.SampledFrom(pearMods).Draw(t, label+"pear")
			case k <= 6 || !last:
				mod = rapid.SampledFrom(keepMods).Draw(t, label+"keep")
			default:
				mod = rapid.SampledFrom(dropMods).Draw(t, label+"drop")
			}
			if mod != "" && !strings.ContainsAny(mod, "优優劣") && rapid.IntRange(0, 3).Draw(t, label+"modn-given") != 0 {
				hi := times + 2
				if hi > 12 {
					hi = 12
				}
				modN = genNumRange(t, label+"modn", 1, hi)
			}
		} else if pear && rapid.Bool().Draw(t, label+"pear-on") {
			mod = rapid.SampledFrom(pearMods).Draw(t, label+"pear")
		}
		if (!bare || mod != "") && rapid.IntRange(0, 9).Draw(t, label+"clamp-class") < 4 {
			clamp = rapid.SampledFrom([]string{"min", "max"}).Draw(t, label+"clamp")
			lo := int64(0)
			if !last {
				lo = 1
			}
			hi := sides + 2
			if hi > 40 && rapid.Bool().Draw(t, label+"clamp-small") {
				hi = 40
			}
			clampN = genNumRange(t, label+"clampn", lo, hi)
		}
		return
	}
	tt.Mod, tt.ModN, tt.Clamp, tt.ClampN = genMods("", times, sides, form == "dY" || form == "d", form == "d", chain == 0)
	cur := times * sides
	for i := 0; i < chain; i++ {
		l := Link{Upper: rapid.IntRange(0, 5).Draw(t, "l-upper") == 5}
		y := rapid.Int64Range(1, 8).Draw(t, "l-y")
		l.Y = Num{V: y}
		l.Mod, l.ModN, l.Clamp, l.ClampN = genMods(fmt.Sprintf("l%d-", i), cur, y, false, false, i == chain-1)
		cur *= y
		tt.Chain = append(tt.Chain, l)
		if cur > 400 {
			break
		}
	}
	return tt
}

// genPool: WoD / Double Cross in the configurations that cannot add dice (documented: "若Y=0则不加骰"; an add line
// above the number of sides is never reached) and that are monotone in their dice (success line k, never q).
func genPool(t *rapid.T) *Term {
	tt := &Term{N: -1, Upper: rapid.IntRange(0, 4).Draw(t, "upperP") == 4}
	sides := int64(10)
	if rapid.Bool().Draw(t, "m-given") {
		sides = rapid.Int64Range(1, 12).Draw(t, "m")
		tt.Y = &Num{V: sides}
	}
	if rapid.Bool().Draw(t, "dc") {
		tt.Kind = "dc"
		tt.X = &Num{V: rapid.Int64Range(1, 12).Draw(t, "pool")}
		tt.A = sides + rapid.Int64Range(1, 3).Draw(t, "above")
		if tt.A < 2 {
			tt.A = 2
		}
		return tt
	}
	tt.Kind = "wod"
	if rapid.IntRange(0, 3).Draw(t, "pool-given") != 0 {
		tt.X = &Num{V: rapid.Int64Range(1, 12).Draw(t, "pool")}
	}
	if rapid.Bool().Draw(t, "a-zero") {
		tt.A = 0
	} else {
		tt.A = sides + rapid.Int64Range(1, 3).Draw(t, "above")
		if tt.A < 2 {
			tt.A = 2
		}
	}
	if rapid.IntRange(0, 2).Draw(t, "k-given") != 0 {
		tt.K = &Num{V: rapid.Int64Range(1, sides+1).Draw(t, "k")}
		tt.KFirst = rapid.Bool().Draw(t, "k-first")
	}
	return tt
}

func genTerm(t *rapid.T, o genOpts) *Term {
	k := rapid.IntRange(0, 10).Draw(t, "term-kind")
	switch {
	case k == 10:
		return genPool(t)
	case k == 0 && !o.nonNeg:
		return &Term{Kind: "fate", N: -1, Upper: rapid.IntRange(0, 3).Draw(t, "upperF") == 3}
	case k <= 2:
		tt := &Term{Kind: "coc", Bonus: rapid.Bool().Draw(t, "bonus"), Upper: rapid.IntRange(0, 4).Draw(t, "upperC") == 4}
		switch n := rapid.IntRange(-1, 7).Draw(t, "coc-n"); {
		case n == 6:
			tt.N = -1
		case n == 7:
			tt.N = 9
		default:
			tt.N = n
		}
		return tt
	}
	return genXdY(t, o)
}

// maxAbs: a bound of |value| in any mode (overflow guard of the generator).
func termMax(t *Term) float64 {
	switch t.Kind {
	case "fate":
		return 4
	case "coc":
		return 100
	case "wod", "dc":
		return 20
	}
	nv := func(n *Num, d float64) float64 {
		if n == nil {
			return d
		}
		if n.T != nil {
			return termMax(n.T)
		}
		return float64(n.V)
	}
	v := nv(t.X, 1)
	if strings.ContainsAny(t.Mod, "优優劣") {
		v = 2
	}
	face := math.Max(nv(t.Y, 100), nv(t.ClampN, 0))
	v *= face
	for i := range t.Chain {
		v *= math.Max(float64(t.Chain[i].Y.V), nv(t.Chain[i].ClampN, 0))
	}
	return v
}

func exprMax(e *Expr, defs []Def) float64 {
	switch e.Op {
	case "term":
		return termMax(e.T)
	case "const":
		return float64(e.C)
	case "ref":
		return exprMax(defs[e.Ref].Body, defs)
	case "paren":
		return exprMax(e.L, defs)
	case "+":
		return exprMax(e.L, defs) + exprMax(e.R, defs)
	case "*":
		return exprMax(e.L, defs) * exprMax(e.R, defs)
	case "/":
		return exprMax(e.L, defs)
	}
	return 0
}

// nonNeg: can the value never be negative (then it may be a factor of a product of two dice expressions)
func nonNeg(e *Expr, defs []Def) bool {
	switch e.Op {
	case "term":
		return e.T.Kind != "fate"
	case "const":
		return true
	case "ref":
		return nonNeg(defs[e.Ref].Body, defs)
	case "paren":
		return nonNeg(e.L, defs)
	case "/":
		return nonNeg(e.L, defs)
	}
	return nonNeg(e.L, defs) && nonNeg(e.R, defs)
}

type exprGen struct {
	t     *rapid.T
	defs  []Def
	terms int
	o     genOpts
}

func (g *exprGen) leaf(nonNegOnly bool) *Expr {
	if len(g.defs) > 0 && rapid.IntRange(0, 2).Draw(g.t, "use-ref") == 0 {
		i := rapid.IntRange(0, len(g.defs)-1).Draw(g.t, "ref")
		if !nonNegOnly || nonNeg(g.defs[i].Body, g.defs) {
			g.terms++
			return &Expr{Op: "ref", Ref: i}
		}
	}
	o := g.o
	o.nonNeg = o.nonNeg || nonNegOnly
	g.terms++
	return &Expr{Op: "term", T: genTerm(g.t, o)}
}

func (g *exprGen) konst() *Expr {
	c := rapid.Int64Range(0, 12).Draw(g.t, "const")
	if rapid.IntRange(0, 9).Draw(g.t, "const-big") == 9 {
		c = rapid.Int64Range(13, 1000).Draw(g.t, "const-large")
	}
	return &Expr{Op: "const", C: c}
}

func (g *exprGen) gen(depth int, nonNegOnly bool) *Expr {
	if depth <= 0 || g.terms >= 4 {
		return g.leaf(nonNegOnly)
	}
	sp := rapid.IntRange(0, len(spStyles)-1).Draw(g.t, "sp")
	switch rapid.IntRange(0, 11).Draw(g.t, "node") {
	case 0, 1:
		return g.leaf(nonNegOnly)
	case 2, 3, 4:
		l := g.gen(depth-1, nonNegOnly)
		var r *Expr
		if rapid.IntRange(0, 2).Draw(g.t, "add-const") == 0 {
			r = g.konst()
		} else {
			r = g.gen(depth-1, nonNegOnly)
		}
		if rapid.Bool().Draw(g.t, "swap") {
			l, r = r, l
		}
		return &Expr{Op: "+", L: l, R: r, Sp: sp}
	case 5, 6:
		// constant factor: the other side may be of either sign
		l, r := g.gen(depth-1, nonNegOnly), g.konst()
		if rapid.Bool().Draw(g.t, "swap") {
			l, r = r, l
		}
		return &Expr{Op: "*", L: l, R: r, Sp: sp}
	case 7, 8:
		// product of two dice expressions: monotone only when neither can be negative
		return &Expr{Op: "*", L: g.gen(depth-1, true), R: g.gen(depth-1, true), Sp: sp}
	case 9:
		d := rapid.Int64Range(1, 9).Draw(g.t, "divisor")
		return &Expr{Op: "/", L: g.gen(depth-1, nonNegOnly), R: &Expr{Op: "const", C: d}, Sp: sp}
	default:
		return &Expr{Op: "paren", L: g.gen(depth-1, nonNegOnly)}
	}
}

func drawSeeds(t *rapid.T, lo, hi int) []uint64 {
	n := rapid.IntRange(lo, hi).Draw(t, "nseeds")
	out := make([]uint64, n)
	for i := range out {
		out[i] = rapid.Uint64().Draw(t, "seed")
	}
	return out
}

func drawTermCase(t *rapid.T) *Case {
	c := &Case{}
	c.DefaultSides = rapid.SampledFrom(defaultSidesKeys).Draw(t, "default-sides")
	c.Main = &Expr{Op: "term", T: genTerm(t, genOpts{allowDefault: true, nested: true})}
	c.Seeds = drawSeeds(t, 2, 6)
	c.Unseeded = rapid.IntRange(0, 6).Draw(t, "unseeded") == 6
	c.Late = rapid.SampledFrom([]int{0, 0, 0, 1, 2}).Draw(t, "late")
	c.Both = rapid.IntRange(0, 5).Draw(t, "both") == 0
	c.Src = printCase(c)
	return c
}

func drawExprCase(t *rapid.T) *Case {
	c := &Case{}
	c.DefaultSides = rapid.SampledFrom(defaultSidesKeys).Draw(t, "default-sides")
	nd := rapid.SampledFrom([]int{0, 0, 0, 1, 1, 2}).Draw(t, "ndefs")
	for i := 0; i < nd; i++ {
		g := &exprGen{t: t, defs: c.Defs, o: genOpts{allowDefault: false, nested: true}}
		body := g.gen(rapid.IntRange(0, 2).Draw(t, "body-depth"), false)
		kind := rapid.SampledFrom([]string{"computed", "computed", "func", "func-noreturn"}).Draw(t, "def-kind")
		c.Defs = append(c.Defs, Def{Kind: kind, Body: body})
	}
	g := &exprGen{t: t, defs: c.Defs, o: genOpts{allowDefault: true, nested: true}}
	c.Main = g.gen(rapid.IntRange(1, 3).Draw(t, "depth"), false)
	c.Seeds = drawSeeds(t, 2, 5)
	c.Unseeded = rapid.IntRange(0, 6).Draw(t, "unseeded") == 6
	c.Late = rapid.SampledFrom([]int{0, 0, 0, 1, 2}).Draw(t, "late")
	c.Both = rapid.IntRange(0, 5).Draw(t, "both") == 0
	c.Src = printCase(c)
	return c
}

func classify(c *Case, s *rt.Section) (nonTrivial bool) {
	walkTerms(c, func(t *Term) {
		switch t.Kind {
		case "fate":
			s.Class("term:fate")
			nonTrivial = true
		case "coc":
			if t.Bonus {
				s.Class("term:coc-bonus")
			} else {
				s.Class("term:coc-penalty")
			}
			nonTrivial = true
		case "wod":
			s.Class("term:wod-no-add-dice")
			nonTrivial = true
		case "dc":
			s.Class("term:dc-no-add-dice")
			nonTrivial = true
		default:
			form := "XdY"
			switch {
			case t.X == nil && t.Y == nil:
				form = "d"
			case t.X == nil:
				form = "dY"
			case t.Y == nil:
				form = "Xd"
			}
			s.Class("form:" + form)
			mods := func(mod, clamp string) {
				if mod != "" {
					s.Class("mod:" + mod)
					nonTrivial = true
				}
				if clamp != "" {
					s.Class("clamp:" + clamp)
					nonTrivial = true
				}
			}
			mods(t.Mod, t.Clamp)
			if t.Mod == "" && t.Clamp == "" && len(t.Chain) == 0 {
				s.Class("mod:none")
			}
			if len(t.Chain) > 0 {
				s.Class("chain")
				nonTrivial = true
				for _, l := range t.Chain {
					mods(l.Mod, l.Clamp)
				}
			}
			if (t.X != nil && t.X.T != nil) || (t.Y != nil && t.Y.T != nil) {
				s.Class("nested-operand")
			}
			if t.Y != nil && t.Y.T == nil && t.Y.V >= 1000 {
				s.Class("sides>=1000")
			}
		}
	})
	for _, d := range c.Defs {
		s.Class("def:" + d.Kind)
	}
	if c.Unseeded {
		s.Class("unseeded-vm")
	}
	if c.DefaultSides != "" {
		s.Class("default-sides-set")
	}
	return
}

func hasOperator(e *Expr) bool {
	if e == nil {
		return false
	}
	switch e.Op {
	case "+", "*", "/":
		return true
	}
	return hasOperator(e.L) || hasOperator(e.R)
}

// ---------------------------------------------------------------------------
// rollfn: the exported roll functions

type FnCase struct {
	Kind    string `json:"kind"` // roll | common | coc | fate
	Times   int64  `json:"times,omitempty"`
	Sides   int64  `json:"sides,omitempty"`
	HasMin  bool   `json:"has_min,omitempty"`
	Min     int64  `json:"min,omitempty"`
	HasMax  bool   `json:"has_max,omitempty"`
	Max     int64  `json:"max,omitempty"`
	Keep    int    `json:"keep,omitempty"` // 0 none, 1 keep low, 2 keep high, 3 drop low, 4 drop high (RollCommon's isKeepLH)
	N       int64  `json:"n,omitempty"`
	Bonus   bool   `json:"bonus,omitempty"`
	DiceNum int64  `json:"dice_num,omitempty"`
	Seed    uint64 `json:"seed"`
	Rolls   int    `json:"rolls"`
}

func (c *FnCase) call(src *rand.PCGSource, mode int) int64 {
	switch c.Kind {
	case "roll":
		return int64(ds.Roll(src, ds.IntType(c.Sides), mode))
	case "coc":
		v, _ := ds.RollCoC(src, c.Bonus, ds.IntType(c.DiceNum), mode)
		return int64(v)
	case "fate":
		v, _ := ds.RollFate(src, mode)
		return int64(v)
	}
	var pmin, pmax *ds.IntType
	if c.HasMin {
		v := ds.IntType(c.Min)
		pmin = &v
	}
	if c.HasMax {
		v := ds.IntType(c.Max)
		pmax = &v
	}
	var lowN, highN ds.IntType
	switch c.Keep {
	case 1, 3:
		lowN = ds.IntType(c.N)
	case 2, 4:
		highN = ds.IntType(c.N)
	}
	v, _ := ds.RollCommon(src, ds.IntType(c.Times), ds.IntType(c.Sides), pmin, pmax, ds.IntType(c.Keep), lowN, highN, mode)
	return int64(v)
}

func (c *FnCase) String() string {
	switch c.Kind {
	case "roll":
		return fmt.Sprintf("Roll(sides=%d)", c.Sides)
	case "coc":
		return fmt.Sprintf("RollCoC(bonus=%v, n=%d)", c.Bonus, c.DiceNum)
	case "fate":
		return "RollFate()"
	}
	s := fmt.Sprintf("RollCommon(times=%d, sides=%d", c.Times, c.Sides)
	if c.HasMin {
		s += ", min=" + strconv.FormatInt(c.Min, 10)
	}
	if c.HasMax {
		s += ", max=" + strconv.FormatInt(c.Max, 10)
	}
	if c.Keep != 0 {
		s += fmt.Sprintf(", %s %d", []string{"", "keep-low", "keep-high", "drop-low", "drop-high"}[c.Keep], c.N)
	}
	return s + ")"
}

func checkFn(c *FnCase, s *rt.Section, skipPenaltyLow bool) *rt.Failure {
	src := &rand.PCGSource{}
	src.Seed(c.Seed)
	var fail *rt.Failure
	pi := rt.Guard(func() {
		before, _ := src.MarshalBinary()
		lo := c.call(src, -1)
		mid, _ := src.MarshalBinary()
		hi := c.call(src, +1)
		after, _ := src.MarshalBinary()
		if string(before) != string(mid) {
			fail = s.NewFailure("randomness", "randomness:min-mode", c, c.String()+" with mode -1 advanced the source", "source untouched")
			return
		}
		if string(mid) != string(after) {
			fail = s.NewFailure("randomness", "randomness:max-mode", c, c.String()+" with mode +1 advanced the source", "source untouched")
			return
		}
		if lo > hi {
			fail = s.NewFailure("bracket", "bracket:min>max", c, fmt.Sprintf("%s: mode -1 gives %d, mode +1 gives %d", c, lo, hi), "min <= max")
			return
		}
		switch c.Kind {
		case "roll":
			if lo != 1 || hi != c.Sides {
				fail = s.NewFailure("attained", "attained:roll", c, fmt.Sprintf("%s: mode -1 gives %d, mode +1 gives %d", c, lo, hi), fmt.Sprintf("1 and %d", c.Sides))
				return
			}
		case "common":
			clamp := func(d int64) int64 {
				if c.HasMax && d > c.Max {
					d = c.Max
				}
				if c.HasMin && d < c.Min {
					d = c.Min
				}
				return d
			}
			k := c.Times
			switch c.Keep {
			case 1, 2:
				k = kept(c.Times, "k", c.N)
			case 3, 4:
				k = kept(c.Times, "dl", c.N)
			}
			if wl, wh := k*clamp(1), k*clamp(c.Sides); lo != wl || hi != wh {
				sig := "attained:max"
				if lo != wl {
					sig = "attained:min"
				}
				fail = s.NewFailure("attained", sig, c, fmt.Sprintf("%s: mode -1 gives %d, mode +1 gives %d", c, lo, hi), fmt.Sprintf("%d and %d (kept dice x clamped extreme face)", wl, wh))
				return
			}
		}
		pen := c.Kind == "coc" && !c.Bonus && c.DiceNum > 0
		for i := 0; i < c.Rolls; i++ {
			r := c.call(src, 0)
			if r < lo {
				if pen && skipPenaltyLow {
					continue
				}
				sig := "bracket-low"
				if pen {
					sig = "bracket-low:coc-penalty"
				}
				fail = s.NewFailure("bracket", sig, c, fmt.Sprintf("%s: roll #%d = %d < mode -1 result %d", c, i, r, lo), "min-mode <= every roll")
				return
			}
			if r > hi {
				fail = s.NewFailure("bracket", "bracket-high", c, fmt.Sprintf("%s: roll #%d = %d > mode +1 result %d", c, i, r, hi), "every roll <= max-mode")
				return
			}
		}
	})
	if pi != nil {
		return s.NewFailure("no-panic", pi.Sig(), c, pi.Value, "no panic")
	}
	return fail
}

func drawFnCase(t *rapid.T) *FnCase {
	c := &FnCase{Seed: rapid.Uint64().Draw(t, "seed")}
	switch k := rapid.IntRange(0, 9).Draw(t, "kind"); {
	case k == 0:
		c.Kind = "roll"
		c.Sides = genSides(t, "sides")
		if rapid.IntRange(0, 4).Draw(t, "huge") == 4 {
			c.Sides = rapid.Int64Range(1, math.MaxInt64-1).Draw(t, "sides-huge")
		}
		c.Rolls = rapid.IntRange(1, 32).Draw(t, "rolls")
	case k == 1:
		c.Kind = "fate"
		c.Rolls = rapid.IntRange(1, 64).Draw(t, "rolls")
	case k <= 4:
		c.Kind = "coc"
		c.Bonus = rapid.Bool().Draw(t, "bonus")
		c.DiceNum = rapid.Int64Range(0, 6).Draw(t, "dice-num")
		c.Rolls = rapid.IntRange(1, 200).Draw(t, "rolls")
	default:
		c.Kind = "common"
		c.Times = rapid.Int64Range(1, 12).Draw(t, "times")
		if rapid.IntRange(0, 9).Draw(t, "times-big") == 9 {
			c.Times = rapid.Int64Range(13, 300).Draw(t, "times-large")
		}
		c.Sides = genSides(t, "sides")
		c.Keep = rapid.SampledFrom([]int{0, 0, 1, 2, 3, 4}).Draw(t, "keep")
		if c.Keep != 0 {
			c.N = rapid.Int64Range(1, c.Times+2).Draw(t, "n")
		}
		hiFace := c.Sides + 2
		if hiFace > 40 && rapid.Bool().Draw(t, "clamp-small") {
			hiFace = 40
		}
		switch rapid.IntRange(0, 5).Draw(t, "clamps") {
		case 0, 1:
		case 2:
			c.HasMin, c.Min = true, rapid.Int64Range(0, hiFace).Draw(t, "min")
		case 3:
			c.HasMax, c.Max = true, rapid.Int64Range(0, hiFace).Draw(t, "max")
		default:
			c.HasMin, c.Min = true, rapid.Int64Range(0, hiFace).Draw(t, "min")
			c.HasMax, c.Max = true, rapid.Int64Range(c.Min, hiFace+1).Draw(t, "max")
		}
		c.Rolls = rapid.IntRange(1, 24).Draw(t, "rolls")
	}
	return c
}

// ---------------------------------------------------------------------------
// enum: every small XdY term

type enumSpace struct {
	xs, ys, ns, cs []int64
	seeds          int
}

func (sp enumSpace) bounds() string {
	return fmt.Sprintf("XdY with X in %v, Y in %v, modifier in {none} u {k,kh,q,kl,dh,dl} x {count omitted, %v}, clamp in {none} u {min,max} x %v; plus dY with 优势/劣势 and the same clamps; each under min mode, max mode and %d seeds",
		sp.xs, sp.ys, sp.ns, sp.cs, sp.seeds)
}

func enumerate(s *rt.Section, run *rt.Run, sp enumSpace, skipPenaltyLow bool) {
	type mc struct {
		mod string
		n   int64 // 0: omitted
	}
	mods := []mc{{"", 0}}
	for _, m := range []string{"k", "kh", "q", "kl", "dh", "dl"} {
		mods = append(mods, mc{m, 0})
		for _, n := range sp.ns {
			mods = append(mods, mc{m, n})
		}
	}
	type cc struct {
		clamp string
		v     int64
	}
	clamps := []cc{{"", 0}}
	for _, cl := range []string{"min", "max"} {
		for _, v := range sp.cs {
			clamps = append(clamps, cc{cl, v})
		}
	}
	idx := 0
	do := func(tt *Term) bool {
		idx++
		if idx%run.Env.NShards != run.Env.Shard {
			return false
		}
		c := &Case{Main: &Expr{Op: "term", T: tt}}
		for i := 0; i < sp.seeds; i++ {
			c.Seeds = append(c.Seeds, rt.Mix(run.Env.Seed^rt.Mix(uint64(idx)*131+uint64(i))))
		}
		c.Src = printCase(c)
		s.Eval()
		if tt.Mod != "" || tt.Clamp != "" {
			s.NonTrivial(rt.Hash(c.Src))
		}
		if idx%97 == 1 {
			s.Sample(rt.Hash(c.Src), c.Src)
		}
		s.Crumb(c)
		return s.Report(nil, judged(s, checkCase(c, s, skipPenaltyLow)))
	}
	for _, x := range sp.xs {
		for _, y := range sp.ys {
			for _, m := range mods {
				for _, cl := range clamps {
					tt := &Term{Kind: "xdy", N: -1, X: &Num{V: x}, Y: &Num{V: y}, Mod: m.mod, Clamp: cl.clamp}
					if m.n > 0 {
						tt.ModN = &Num{V: m.n}
					}
					if cl.clamp != "" {
						tt.ClampN = &Num{V: cl.v}
					}
					if do(tt) {
						return
					}
				}
			}
		}
	}
	for _, y := range sp.ys {
		for _, p := range []string{"优势", "劣势"} {
			for _, cl := range clamps {
				tt := &Term{Kind: "xdy", N: -1, Y: &Num{V: y}, Mod: p, Clamp: cl.clamp}
				if cl.clamp != "" {
					tt.ClampN = &Num{V: cl.v}
				}
				if do(tt) {
					return
				}
			}
		}
	}
}

// ---------------------------------------------------------------------------

// judged turns the "not judged" marker of checkCase into a counted discard.
func judged(s *rt.Section, f *rt.Failure) *rt.Failure {
	if f != nil && f.Signature == discardOpLimit {
		s.Discard("op-count-limit")
		return nil
	}
	return f
}

func TestProp(t *testing.T) {
	run := rt.Begin(t, "C15")
	defer run.Finish()

	run.Check("rollfn", 800000, 12000000,
		"direct calls of the exported roll functions with a seeded PCG source: Roll(sides), RollCommon(times 1..300, sides 1..2e9, optional min<=max clamps, keep-low/keep-high/drop-low/drop-high n>=1), RollCoC(bonus|penalty, 0..6 extra dice), RollFate; mode -1 and +1 must leave the source untouched, equal kept x clamp(1) / kept x clamp(sides) for RollCommon (1 / sides for Roll), and bracket 1..200 mode-0 rolls; non-trivial = RollCommon with a keep/drop or clamp, or CoC/Fate; distinct by parameters",
		func(t *rapid.T, s *rt.Section) {
			c := drawFnCase(t)
			skip := false
			if c.Kind == "coc" && !c.Bonus && c.DiceNum > 0 {
				skip = s.Avoid(avoidPenalty)
			}
			s.Eval()
			s.Class("kind:" + c.Kind)
			key := fmt.Sprintf("%s|%d|%d|%v|%d|%v|%d|%d|%d|%v|%d", c.Kind, c.Times, c.Sides, c.HasMin, c.Min, c.HasMax, c.Max, c.Keep, c.N, c.Bonus, c.DiceNum)
			h := rt.Hash(key)
			switch c.Kind {
			case "coc", "fate":
				s.NonTrivial(h)
			case "common":
				if c.Keep != 0 {
					s.Class(fmt.Sprintf("keep:%d", c.Keep))
				}
				if c.HasMin && c.HasMax {
					s.Class("clamp:min+max")
				} else if c.HasMin || c.HasMax {
					s.Class("clamp:one")
				}
				if c.Keep != 0 || c.HasMin || c.HasMax {
					s.NonTrivial(h)
				}
			}
			s.Sample(h, c)
			s.Report(t, checkFn(c, s, skip))
		})

	run.Check("term", 24000, 200000,
		"one dice term run as a whole program on three VMs (DiceMinMode, DiceMaxMode, 2..6 seeded random runs; 1 in 7 min/max runs on an unseeded VM): XdY / dY / Xd / d (DefaultDiceSideExpr unset, a number or a dice expression), operands plain, parenthesised, (a+b) or a nested small XdY, modifiers k K kh q Q kl dh dl with or without count, 优势/劣势, min/max clamp, chains AdBdC, Fate f/F, CoC b/p with 0..9 dice, and the configurations of WoD XaYmZkN (Y = 0 or above the sides) and Double Cross XcYmZ (Y above the sides) that cannot add dice; non-trivial = the term has a modifier, a chain, or is not XdY; distinct by source text",
		func(t *rapid.T, s *rt.Section) {
			c := drawTermCase(t)
			skip := false
			if hasPenalty(c) {
				skip = s.Avoid(avoidPenalty)
			}
			s.Eval()
			h := rt.Hash(c.Src, c.DefaultSides)
			if classify(c, s) {
				s.NonTrivial(h)
			}
			s.Sample(h, c.Src)
			s.Crumb(c)
			s.Report(t, judged(s, checkCase(c, s, skip)))
		})

	run.Check("expr", 16000, 120000,
		"expressions monotone in their dice: sums, products with a non-negative constant, products of two non-negative dice expressions, quotients by a positive constant, redundant parentheses, over 1..4 terms of the term section, optionally through 1..2 computed values (&x = e) or functions (with and without return) whose bodies are evaluated in sub-VMs (bodies use only XdY/dY forms: default-sides dice inside a body crash today, which is not this property); same three-VM oracle (attained bounds when every term is XdY); cases whose magnitude could exceed 1e15 are discarded; non-trivial = an operator or definition is present and some term has a modifier or is CoC/Fate; distinct by source text",
		func(t *rapid.T, s *rt.Section) {
			c := drawExprCase(t)
			if exprMax(c.Main, c.Defs) > 1e15 {
				s.Discard("overflow-guard")
				return
			}
			skip := false
			if hasPenalty(c) {
				skip = s.Avoid(avoidPenalty)
			}
			s.Eval()
			h := rt.Hash(c.Src, c.DefaultSides)
			nt := classify(c, s)
			if hasOperator(c.Main) {
				s.Class("has-operator")
			}
			if nt && (hasOperator(c.Main) || len(c.Defs) > 0) {
				s.NonTrivial(h)
			}
			if _, pure := (&refCtx{mode: 1, def: defaultSides[c.DefaultSides], defs: c.Defs}).expr(c.Main); pure {
				s.Class("attained-oracle-applies")
			}
			s.Sample(h, c.Src)
			s.Crumb(c)
			s.Report(t, judged(s, checkCase(c, s, skip)))
		})

	sp := enumSpace{xs: []int64{1, 2, 3}, ys: []int64{1, 2, 4, 6}, ns: []int64{1, 2, 3, 4}, cs: []int64{0, 1, 2, 3, 7}, seeds: 3}
	if run.Env.Thorough() {
		sp = enumSpace{xs: []int64{1, 2, 3, 4, 5}, ys: []int64{1, 2, 3, 4, 5, 6, 8}, ns: []int64{1, 2, 3, 4, 5, 6}, cs: []int64{0, 1, 2, 3, 4, 5, 6, 7, 9}, seeds: 10}
	}
	run.Enum("enum", "every XdY term of the bounded syntax space (all modifier x clamp combinations) under min mode, max mode and a fixed number of seeds; attained bounds checked for each; non-trivial = has a modifier or clamp; distinct by source text",
		func(s *rt.Section) {
			s.Exhaustive = true
			s.Bounds = sp.bounds()
			enumerate(s, run, sp, false)
		})
}

func TestReplay(t *testing.T) {
	vmCase := func(b []byte, s *rt.Section) *rt.Failure {
		var c Case
		if err := json.Unmarshal(b, &c); err != nil || c.Main == nil {
			return s.NewFailure("replay", "replay:bad-case", nil, fmt.Sprint(err), "")
		}
		return judged(s, checkCase(&c, s, false))
	}
	rt.Replay(t, "C15", map[string]rt.ReplayFunc{
		"term": vmCase, "expr": vmCase, "enum": vmCase,
		"rollfn": func(b []byte, s *rt.Section) *rt.Failure {
			var c FnCase
			if err := json.Unmarshal(b, &c); err != nil {
				return s.NewFailure("replay", "replay:bad-case", nil, err.Error(), "")
			}
			return checkFn(&c, s, false)
		},
	})
}
