package rt

import (
	"fmt"
	"os"
	"runtime"
	"strings"
	"sync"
)

// PanicInfo describes a recovered panic by the innermost frame that lies in
// the package under test, keyed by function name and the *text* of that source
// line (stable under line-number drift, changes exactly when the line is edited).
type PanicInfo struct {
	Value string
	Class string // type-assertion | index | nil | slice | makeslice | divide | custom | other
	Func  string
	Line  string
	File  string
	LineN int
	Stack string
	Raw   any `json:"-"` // the recovered value itself
}

func (p *PanicInfo) Sig() string {
	return "panic:" + p.Func + "|" + p.Line
}

const pkgPrefix = "github.com/sealdice/dicescript."

var (
	srcMu    sync.Mutex
	srcCache = map[string][]string{}
)

func sourceLine(file string, n int) string {
	srcMu.Lock()
	defer srcMu.Unlock()
	lines, ok := srcCache[file]
	if !ok {
		b, err := os.ReadFile(file)
		if err == nil {
			lines = strings.Split(string(b), "\n")
		}
		srcCache[file] = lines
	}
	if n >= 1 && n <= len(lines) {
		return strings.Join(strings.Fields(lines[n-1]), " ")
	}
	return fmt.Sprintf("line %d", n)
}

func classify(v any) string {
	s := fmt.Sprint(v)
	switch {
	case strings.Contains(s, "interface conversion"):
		return "type-assertion"
	case strings.Contains(s, "index out of range"):
		return "index"
	case strings.Contains(s, "slice bounds out of range"):
		return "slice"
	case strings.Contains(s, "nil pointer dereference"), strings.Contains(s, "nil map"):
		return "nil"
	case strings.Contains(s, "makeslice"):
		return "makeslice"
	case strings.Contains(s, "divide by zero"):
		return "divide"
	}
	if _, ok := v.(runtime.Error); ok {
		return "other"
	}
	return "custom"
}

// Guard runs fn and converts a panic into a PanicInfo (nil when fn returns normally).
func Guard(fn func()) (pi *PanicInfo) {
	defer func() {
		if r := recover(); r != nil {
			pi = describePanic(r)
		}
	}()
	fn()
	return nil
}

func describePanic(r any) *PanicInfo {
	pcs := make([]uintptr, 64)
	n := runtime.Callers(3, pcs)
	frames := runtime.CallersFrames(pcs[:n])
	pi := &PanicInfo{Value: clip(fmt.Sprint(r), 300), Class: classify(r), Raw: r}
	var sb strings.Builder
	found := false
	for {
		fr, more := frames.Next()
		fmt.Fprintf(&sb, "%s\n\t%s:%d\n", fr.Function, fr.File, fr.Line)
		if !found && strings.HasPrefix(fr.Function, pkgPrefix) {
			found = true
			pi.Func = strings.TrimPrefix(fr.Function, pkgPrefix)
			pi.File = fr.File
			pi.LineN = fr.Line
			pi.Line = sourceLine(fr.File, fr.Line)
		}
		if !more {
			break
		}
	}
	if !found {
		pi.Func = "outside-dicescript"
		pi.Line = pi.Value
	}
	pi.Stack = clip(sb.String(), 6000)
	return pi
}
