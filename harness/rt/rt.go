// Package rt is the run-time plumbing shared by every property package of the
// verification harness: tier/seed/shard handling, classification counters,
// failure records (the replay files), panic signatures, known-finding lookup
// and the per-shard result file that the ./check driver turns into evidence.
//
// A property package follows one shape:
//
//	func TestProp(t *testing.T) {
//	    run := rt.Begin(t, "C12")
//	    defer run.Finish()
//	    run.Check("seq", 20000, 400000, "rule text", func(t *rapid.T, s *rt.Section) {
//	        c := drawCase(t)            // every random choice is a rapid draw
//	        s.Eval(c)                   // counts + crumb
//	        if f := checkCase(c, s); f != nil { s.Fail(t, f) }
//	    })
//	}
//	func TestReplay(t *testing.T) { rt.Replay(t, "C12", map[string]rt.ReplayFunc{"seq": ...}) }
package rt

import (
	"bufio"
	"encoding/json"
	"flag"
	"fmt"
	"hash/fnv"
	"os"
	"path/filepath"
	"runtime"
	"sort"
	"strconv"
	"strings"
	"sync"
	"testing"
	"time"

	"pgregory.net/rapid"
)

// ---------------------------------------------------------------------------
// environment

type Env struct {
	Tier     string // quick | thorough
	Seed     uint64 // VERIF_SEED (0 remapped to 1)
	Shard    int
	NShards  int
	Root     string // /verif
	Out      string // /verif/out
	Scale    float64
	avoidAll bool
}

func getenv(k, d string) string {
	if v, ok := os.LookupEnv(k); ok && v != "" {
		return v
	}
	return d
}

func LoadEnv() Env {
	e := Env{}
	e.Tier = getenv("VERIF_TIER", "quick")
	if e.Tier != "thorough" {
		e.Tier = "quick"
	}
	s, _ := strconv.ParseUint(getenv("VERIF_SEED", "1"), 10, 64)
	if s == 0 {
		s = 1
	}
	e.Seed = s
	e.NShards = 1
	if sh := os.Getenv("VERIF_SHARD"); sh != "" {
		parts := strings.SplitN(sh, "/", 2)
		if len(parts) == 2 {
			e.Shard, _ = strconv.Atoi(parts[0])
			e.NShards, _ = strconv.Atoi(parts[1])
			if e.NShards < 1 {
				e.NShards = 1
			}
		}
	}
	e.Root = getenv("VERIF_ROOT", "/verif")
	e.Out = getenv("VERIF_OUT", filepath.Join(e.Root, "out"))
	e.Scale = 1
	if sc := os.Getenv("VERIF_SCALE"); sc != "" {
		if f, err := strconv.ParseFloat(sc, 64); err == nil && f > 0 {
			e.Scale = f
		}
	}
	return e
}

func (e Env) Thorough() bool { return e.Tier == "thorough" }

// SplitMix64 step; used to derive independent seeds.
func Mix(x uint64) uint64 {
	x += 0x9e3779b97f4a7c15
	z := x
	z = (z ^ (z >> 30)) * 0xbf58476d1ce4e5b9
	z = (z ^ (z >> 27)) * 0x94d049bb133111eb
	return z ^ (z >> 31)
}

func Hash(parts ...string) uint64 {
	h := fnv.New64a()
	for _, p := range parts {
		h.Write([]byte(p))
		h.Write([]byte{0})
	}
	return h.Sum64()
}

func HashBytes(b []byte) uint64 {
	h := fnv.New64a()
	h.Write(b)
	return h.Sum64()
}

// ---------------------------------------------------------------------------
// known findings

type Finding struct {
	State    string // open | fixed
	Property string
	ID       string
	Key      string
	Avoid    string
	Probe    string
	Text     string
}

var (
	findingsOnce sync.Once
	findings     []Finding
)

// ParseFindings reads KNOWN_FINDINGS.txt.  Line format:
//
//	open: property=C01 id=C01-F01 key=<sig> avoid=<switch> probe=<path> :: words
//	fixed: property=C12 <commit> words
func ParseFindings(path string) []Finding {
	f, err := os.Open(path)
	if err != nil {
		return nil
	}
	defer f.Close()
	var out []Finding
	sc := bufio.NewScanner(f)
	sc.Buffer(make([]byte, 1<<20), 1<<20)
	for sc.Scan() {
		line := strings.TrimSpace(sc.Text())
		if line == "" || strings.HasPrefix(line, "#") {
			continue
		}
		var fd Finding
		switch {
		case strings.HasPrefix(line, "open:"):
			fd.State = "open"
			line = strings.TrimSpace(line[5:])
		case strings.HasPrefix(line, "fixed:"):
			fd.State = "fixed"
			line = strings.TrimSpace(line[6:])
		default:
			continue
		}
		head := line
		if i := strings.Index(line, " :: "); i >= 0 {
			head = line[:i]
			fd.Text = strings.TrimSpace(line[i+4:])
		}
		// key= may contain spaces; it runs until " avoid=" / " probe=" / end
		for _, kv := range splitKV(head) {
			switch kv[0] {
			case "property":
				fd.Property = kv[1]
			case "id":
				fd.ID = kv[1]
			case "key":
				fd.Key = kv[1]
			case "avoid":
				fd.Avoid = kv[1]
			case "probe":
				fd.Probe = kv[1]
			}
		}
		if fd.State == "fixed" && fd.Text == "" {
			fd.Text = head
		}
		out = append(out, fd)
	}
	return out
}

func splitKV(s string) [][2]string {
	keys := []string{"property=", "id=", "key=", "avoid=", "probe="}
	type pos struct {
		k string
		i int
	}
	var ps []pos
	for _, k := range keys {
		idx := 0
		for {
			j := strings.Index(s[idx:], k)
			if j < 0 {
				break
			}
			j += idx
			if j == 0 || s[j-1] == ' ' {
				ps = append(ps, pos{k, j})
				break
			}
			idx = j + 1
		}
	}
	sort.Slice(ps, func(a, b int) bool { return ps[a].i < ps[b].i })
	var out [][2]string
	for n, p := range ps {
		end := len(s)
		if n+1 < len(ps) {
			end = ps[n+1].i
		}
		v := strings.TrimSpace(s[p.i+len(p.k) : end])
		out = append(out, [2]string{strings.TrimSuffix(p.k, "="), v})
	}
	return out
}

func Findings() []Finding {
	findingsOnce.Do(func() {
		e := LoadEnv()
		findings = ParseFindings(filepath.Join(e.Root, "KNOWN_FINDINGS.txt"))
		extra, _ := filepath.Glob(filepath.Join(e.Root, "KNOWN_FINDINGS.d", "*.txt"))
		sort.Strings(extra)
		for _, p := range extra {
			findings = append(findings, ParseFindings(p)...)
		}
	})
	return findings
}

// ---------------------------------------------------------------------------
// sections (one per sub-check of a property)

type Failure struct {
	Property  string          `json:"property"`
	Section   string          `json:"section"`
	Oracle    string          `json:"oracle"`
	Signature string          `json:"signature"`
	Case      json.RawMessage `json:"case"`
	Observed  string          `json:"observed"`
	Expected  string          `json:"expected"`
	Tier      string          `json:"tier,omitempty"`
	Seed      uint64          `json:"verif_seed,omitempty"`
	Stack     string          `json:"stack,omitempty"`
}

type Section struct {
	Name        string
	Rule        string
	Requested   int
	Passed      int
	Exhaustive  bool
	Bounds      string
	Evaluations int64
	nontrivial  map[uint64]struct{}
	Classes     map[string]int64
	Discards    map[string]int64
	Excluded    map[string]int64
	KnownHits   map[string]int64
	samples     []sample
	firstN      []any
	mu          sync.Mutex
	run         *Run
	last        *Failure
	crumbPath   string
	crumbOn     bool
}

type sample struct {
	h uint64
	v any
}

func (s *Section) lock()   { s.mu.Lock() }
func (s *Section) unlock() { s.mu.Unlock() }

// Eval counts one executed case.
func (s *Section) Eval() {
	s.lock()
	s.Evaluations++
	s.unlock()
}

func (s *Section) EvalN(n int64) {
	s.lock()
	s.Evaluations += n
	s.unlock()
}

// NonTrivial records the hash of a case that satisfies the section's stated rule.
func (s *Section) NonTrivial(h uint64) {
	s.lock()
	if len(s.nontrivial) < 4_000_000 {
		s.nontrivial[h] = struct{}{}
	}
	s.unlock()
}

func (s *Section) Class(label string) {
	s.lock()
	s.Classes[label]++
	s.unlock()
}

func (s *Section) ClassN(label string, n int64) {
	s.lock()
	s.Classes[label] += n
	s.unlock()
}

func (s *Section) Discard(reason string) {
	s.lock()
	s.Discards[reason]++
	s.unlock()
}

func (s *Section) Exclude(switchName string) {
	s.lock()
	s.Excluded[switchName]++
	s.unlock()
}

func (s *Section) KnownHit(sig string) {
	s.lock()
	s.KnownHits[sig]++
	s.unlock()
}

// Sample offers a case for the evidence file; a deterministic subset is kept.
func (s *Section) Sample(h uint64, v any) {
	s.lock()
	defer s.unlock()
	if len(s.firstN) < 2 {
		s.firstN = append(s.firstN, v)
		return
	}
	const k = 5
	if len(s.samples) < k {
		s.samples = append(s.samples, sample{h, v})
		return
	}
	// keep the k smallest hashes
	mi := 0
	for i := range s.samples {
		if s.samples[i].h > s.samples[mi].h {
			mi = i
		}
	}
	if h < s.samples[mi].h {
		s.samples[mi] = sample{h, v}
	}
}

// Crumb persists the case about to run so that a process death can be attributed.
func (s *Section) Crumb(c any) {
	if !s.crumbOn {
		return
	}
	b, err := json.Marshal(c)
	if err != nil {
		return
	}
	rec, _ := json.Marshal(Failure{Property: s.run.ID, Section: s.Name, Oracle: "crumb", Case: b})
	_ = os.WriteFile(s.crumbPath, rec, 0o644)
}

// Avoid reports whether an open finding asked generators to stay away from a feature.
func (s *Section) Avoid(switchName string) bool {
	if s.run.avoid[switchName] {
		s.Exclude(switchName)
		return true
	}
	return false
}

// NewFailure builds a failure record for this section.
func (s *Section) NewFailure(oracle, sig string, c any, observed, expected string) *Failure {
	b, _ := json.Marshal(c)
	return &Failure{Property: s.run.ID, Section: s.Name, Oracle: oracle, Signature: sig, Case: b,
		Observed: observed, Expected: expected, Tier: s.run.Env.Tier, Seed: s.run.Env.Seed}
}

// Known reports whether a signature is listed as an open finding for this property.
func (s *Section) Known(sig string) bool { return s.run.Known(sig) }

// Report handles an oracle failure: an open known finding is counted and the
// search goes on (returns false); anything else is recorded as the failing
// case of the section and fails the rapid test (does not return in that case
// when t != nil).
func (s *Section) Report(t FatalT, f *Failure) bool {
	if f == nil {
		return false
	}
	if s.run.Known(f.Signature) {
		s.KnownHit(f.Signature)
		return false
	}
	s.lock()
	s.last = f
	s.unlock()
	if t != nil {
		t.Fatalf("%s/%s oracle=%s sig=%s\nobserved: %s\nexpected: %s\ncase: %s", f.Property, f.Section, f.Oracle,
			f.Signature, clip(f.Observed, 2000), clip(f.Expected, 2000), clip(string(f.Case), 4000))
	}
	return true
}

type FatalT interface {
	Fatalf(format string, args ...any)
}

func clip(s string, n int) string {
	if len(s) > n {
		return s[:n] + "…"
	}
	return s
}

// ---------------------------------------------------------------------------
// run

type Run struct {
	ID       string
	Env      Env
	T        *testing.T
	Sections []*Section
	Failures []*Failure
	avoid    map[string]bool
	known    map[string]bool
	start    time.Time
	Notes    []string
}

func Begin(t *testing.T, id string) *Run {
	r := &Run{ID: id, Env: LoadEnv(), T: t, start: time.Now(), avoid: map[string]bool{}, known: map[string]bool{}}
	for _, f := range Findings() {
		if f.Property != id || f.State != "open" {
			continue
		}
		if f.Key != "" {
			r.known[f.Key] = true
		}
		if f.Avoid != "" && os.Getenv("VERIF_NOAVOID") == "" {
			for _, a := range strings.Split(f.Avoid, ",") {
				r.avoid[strings.TrimSpace(a)] = true
			}
		}
	}
	// the driver may cancel avoid switches whose probe passed
	for _, a := range strings.Split(os.Getenv("VERIF_UNAVOID"), ",") {
		delete(r.avoid, strings.TrimSpace(a))
	}
	return r
}

func (r *Run) Known(sig string) bool {
	if sig == "" {
		return false
	}
	return r.known[sig]
}

func (r *Run) AvoidOn(name string) bool { return r.avoid[name] }

func (r *Run) newSection(name, rule string) *Section {
	s := &Section{Name: name, Rule: rule, run: r, nontrivial: map[uint64]struct{}{}, Classes: map[string]int64{},
		Discards: map[string]int64{}, Excluded: map[string]int64{}, KnownHits: map[string]int64{}}
	s.crumbPath = filepath.Join(r.Env.Out, fmt.Sprintf("%s.%d.crumb", r.ID, r.Env.Shard))
	s.crumbOn = os.Getenv("VERIF_CRUMB") != "0"
	r.Sections = append(r.Sections, s)
	return s
}

// only runs sections selected by VERIF_SECTIONS (comma list) when set.
func (r *Run) selected(name string) bool {
	sel := os.Getenv("VERIF_SECTIONS")
	if sel == "" {
		return true
	}
	for _, s := range strings.Split(sel, ",") {
		if strings.TrimSpace(s) == name {
			return true
		}
	}
	return false
}

// PerShard converts a total case count for the tier into this shard's share.
func (r *Run) PerShard(quick, thorough int) int {
	n := quick
	if r.Env.Thorough() {
		n = thorough
	}
	n = int(float64(n) * r.Env.Scale)
	per := (n + r.Env.NShards - 1) / r.Env.NShards
	if per < 1 {
		per = 1
	}
	return per
}

// Check runs one rapid property as a section.
func (r *Run) Check(name string, quick, thorough int, rule string, prop func(t *rapid.T, s *Section)) *Section {
	s := r.newSection(name, rule)
	if !r.selected(name) {
		return s
	}
	per := r.PerShard(quick, thorough)
	s.Requested = per
	seed := Mix(r.Env.Seed ^ Mix(uint64(r.Env.Shard)+1) ^ Hash(r.ID, name))
	if seed == 0 {
		seed = 1
	}
	_ = flag.Set("rapid.checks", strconv.Itoa(per))
	_ = flag.Set("rapid.seed", strconv.FormatUint(seed, 10))
	_ = flag.Set("rapid.nofailfile", "true")
	if os.Getenv("VERIF_SHRINKTIME") != "" {
		_ = flag.Set("rapid.shrinktime", os.Getenv("VERIF_SHRINKTIME"))
	} else {
		_ = flag.Set("rapid.shrinktime", "20s")
	}
	ok := r.T.Run(name, func(t *testing.T) {
		rapid.Check(t, func(rt *rapid.T) {
			prop(rt, s)
			s.lock()
			s.Passed++
			s.unlock()
		})
	})
	if !ok {
		r.collectFailure(s, "rapid property failed without a recorded case")
	}
	return s
}

// Enum runs a deterministic (non-rapid) enumeration as a section.  fn must
// call s.Report(nil, f) for failures and may stop early.
func (r *Run) Enum(name, rule string, fn func(s *Section)) *Section {
	s := r.newSection(name, rule)
	if !r.selected(name) {
		return s
	}
	ok := r.T.Run(name, func(t *testing.T) {
		fn(s)
		if s.last != nil {
			t.Errorf("%s/%s oracle=%s sig=%s\nobserved: %s\nexpected: %s\ncase: %s", s.last.Property, s.last.Section,
				s.last.Oracle, s.last.Signature, clip(s.last.Observed, 2000), clip(s.last.Expected, 2000), clip(string(s.last.Case), 4000))
		}
	})
	if !ok {
		r.collectFailure(s, "enumeration failed without a recorded case")
	}
	return s
}

func (r *Run) collectFailure(s *Section, fallback string) {
	f := s.last
	if f == nil {
		f = &Failure{Property: r.ID, Section: s.Name, Oracle: "harness", Signature: "harness:" + fallback, Observed: fallback}
	}
	r.Failures = append(r.Failures, f)
}

func (r *Run) Note(format string, args ...any) {
	r.Notes = append(r.Notes, fmt.Sprintf(format, args...))
}

type sectionOut struct {
	Name        string           `json:"name"`
	Rule        string           `json:"rule"`
	Requested   int              `json:"requested"`
	Passed      int              `json:"passed"`
	Exhaustive  bool             `json:"exhaustive"`
	Bounds      string           `json:"bounds,omitempty"`
	Evaluations int64            `json:"evaluations"`
	NonTrivial  []uint64         `json:"nontrivial_hashes"`
	Classes     map[string]int64 `json:"classes"`
	Discards    map[string]int64 `json:"discards"`
	Excluded    map[string]int64 `json:"excluded_by_finding"`
	KnownHits   map[string]int64 `json:"known_hits"`
	Samples     []any            `json:"samples"`
}

type resultOut struct {
	Property string       `json:"property"`
	Tier     string       `json:"tier"`
	Seed     uint64       `json:"seed"`
	Shard    int          `json:"shard"`
	NShards  int          `json:"nshards"`
	WallS    float64      `json:"wall_s"`
	Sections []sectionOut `json:"sections"`
	Failures []*Failure   `json:"failures"`
	Notes    []string     `json:"notes"`
	GoVer    string       `json:"go_version"`
}

// Finish writes out/<ID>.<shard>.json and the failure files.
func (r *Run) Finish() {
	_ = os.MkdirAll(r.Env.Out, 0o755)
	out := resultOut{Property: r.ID, Tier: r.Env.Tier, Seed: r.Env.Seed, Shard: r.Env.Shard, NShards: r.Env.NShards,
		WallS: time.Since(r.start).Seconds(), Failures: r.Failures, Notes: r.Notes, GoVer: runtime.Version()}
	for _, s := range r.Sections {
		so := sectionOut{Name: s.Name, Rule: s.Rule, Requested: s.Requested, Passed: s.Passed, Exhaustive: s.Exhaustive,
			Bounds: s.Bounds, Evaluations: s.Evaluations, Classes: s.Classes, Discards: s.Discards, Excluded: s.Excluded, KnownHits: s.KnownHits}
		// cap the number of hashes shipped to the driver
		n := 0
		for h := range s.nontrivial {
			so.NonTrivial = append(so.NonTrivial, h)
			n++
			if n >= 400_000 {
				break
			}
		}
		so.Samples = append(so.Samples, s.firstN...)
		for _, sm := range s.samples {
			so.Samples = append(so.Samples, sm.v)
		}
		out.Sections = append(out.Sections, so)
	}
	b, err := json.Marshal(out)
	if err != nil {
		r.T.Logf("rt: cannot marshal result: %v", err)
		return
	}
	path := filepath.Join(r.Env.Out, fmt.Sprintf("%s.%d.json", r.ID, r.Env.Shard))
	if err := os.WriteFile(path, b, 0o644); err != nil {
		r.T.Logf("rt: cannot write %s: %v", path, err)
	}
	if len(r.Failures) > 0 {
		dir := filepath.Join(r.Env.Out, "failures", r.ID)
		_ = os.MkdirAll(dir, 0o755)
		for i, f := range r.Failures {
			fb, _ := json.MarshalIndent(f, "", " ")
			_ = os.WriteFile(filepath.Join(dir, fmt.Sprintf("%s-s%d-%d.json", f.Section, r.Env.Shard, i)), fb, 0o644)
		}
	}
	_ = os.Remove(filepath.Join(r.Env.Out, fmt.Sprintf("%s.%d.crumb", r.ID, r.Env.Shard)))
}

// ---------------------------------------------------------------------------
// replay

// ReplayFunc re-executes one saved case through the same oracle and returns
// the failure (nil when the case passes now).
type ReplayFunc func(caseJSON []byte, s *Section) *Failure

// Replay implements TestReplay: VERIF_REPLAY names the file.  The outcome is
// written to VERIF_REPLAY_OUT (JSON: {"failed":bool,"signature":..,"observed":..}).
func Replay(t *testing.T, id string, funcs map[string]ReplayFunc) {
	path := os.Getenv("VERIF_REPLAY")
	if path == "" {
		t.Skip("VERIF_REPLAY not set")
	}
	b, err := os.ReadFile(path)
	if err != nil {
		t.Fatalf("replay: %v", err)
	}
	var f Failure
	if err := json.Unmarshal(b, &f); err != nil {
		t.Fatalf("replay: bad file %s: %v", path, err)
	}
	fn, ok := funcs[f.Section]
	if !ok {
		t.Fatalf("replay: unknown section %q for %s", f.Section, id)
	}
	r := &Run{ID: id, Env: LoadEnv(), T: t, start: time.Now(), avoid: map[string]bool{}, known: map[string]bool{}}
	s := r.newSection(f.Section, "replay")
	s.crumbOn = false
	res := fn(f.Case, s)
	type outT struct {
		Failed    bool   `json:"failed"`
		Signature string `json:"signature"`
		Oracle    string `json:"oracle"`
		Observed  string `json:"observed"`
		Expected  string `json:"expected"`
	}
	o := outT{}
	if res != nil {
		o = outT{true, res.Signature, res.Oracle, clip(res.Observed, 4000), clip(res.Expected, 4000)}
	}
	if op := os.Getenv("VERIF_REPLAY_OUT"); op != "" {
		ob, _ := json.Marshal(o)
		_ = os.WriteFile(op, ob, 0o644)
	}
	if res != nil {
		t.Errorf("REPLAY-FAIL sig=%s oracle=%s\nobserved: %s\nexpected: %s", res.Signature, res.Oracle, clip(res.Observed, 2000), clip(res.Expected, 2000))
	}
}

// ---------------------------------------------------------------------------
// native fuzzing support (thorough tier): the oracle runs inside the fuzz
// target; a failure that is not an open finding is saved as a replay file in
// VERIF_OUT before the target fails, so the driver can confirm and report it.

// FuzzRun prepares a pseudo run for use inside a fuzz target.
func FuzzRun(id, section string) (*Run, *Section) {
	r := &Run{ID: id, Env: LoadEnv(), start: time.Now(), avoid: map[string]bool{}, known: map[string]bool{}}
	for _, f := range Findings() {
		if f.Property == id && f.State == "open" && f.Key != "" {
			r.known[f.Key] = true
		}
	}
	s := r.newSection(section, "native fuzz")
	s.crumbOn = false
	return r, s
}

// FuzzReport saves f (unless it is a known finding) and reports whether the target must fail.
func (s *Section) FuzzReport(f *Failure) bool {
	if f == nil || s.run.Known(f.Signature) {
		return false
	}
	dir := filepath.Join(s.run.Env.Out, "fuzzfail")
	_ = os.MkdirAll(dir, 0o755)
	b, _ := json.MarshalIndent(f, "", " ")
	name := fmt.Sprintf("%s-%016x.json", f.Section, HashBytes(b))
	_ = os.WriteFile(filepath.Join(dir, name), b, 0o644)
	return true
}
