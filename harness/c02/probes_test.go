package c02

import (
	"encoding/json"
	"os"
	"path/filepath"
	"testing"

	"verif/harness/gen"
	"verif/harness/rt"
	"verif/harness/vmx"
)

// Hand-made minimal cases: the pinned probes of the open findings (findings/C02-*.json) and the committed
// regression cases (replays/C02/*.json).  TestMakeProbes rewrites the files; it is a development aid
// (C02_MKPROBES=1) and is never part of a check run.

func one(p *gen.Node) Case {
	return Case{Cfg: vmx.Cfg{Mode: "min", OpLimit: 30000}, Steps: []Step{{Prog: p, Src: gen.Print(p)}}}
}

func loopN(ctr string, n int64, body ...*gen.Node) []*gen.Node {
	b := gen.Block(append([]*gen.Node{gen.Set(ctr, gen.Bin("+", gen.Var(ctr), gen.Int(1)))}, body...)...)
	return []*gen.Node{gen.Set(ctr, gen.Int(0)), gen.N("while", gen.Bin("<", gen.Var(ctr), gen.Int(n)), b)}
}

func probeCases() map[string]Case {
	m := map[string]Case{}
	// C02-F01  this.x = 5; x
	m["findings/C02-F01.json"] = one(gen.Prog(&gen.Node{K: "setthis", S: "x", Kids: []*gen.Node{gen.Int(5)}}, gen.Var("x")))
	// C02-F02  x = 'abc'; x[5]
	m["findings/C02-F02.json"] = one(gen.Prog(gen.Set("x", gen.Str("abc", 0)), gen.N("idx", gen.Var("x"), gen.Int(5))))
	// C02-F02b  32-character string indexed at 32
	m["findings/C02-F02b.json"] = one(gen.Prog(gen.N("idx", gen.Str("abcdefghijklmnopqrstuvwxyzabcdef", 0), gen.Int(32))))
	// C02-F07  i=0; while i<2 { i=i+1; &w = this.x ?? 7; r = w; &w.x = 5 }; r
	m["findings/C02-F07.json"] = one(gen.Prog(append(loopN("i", 2,
		&gen.Node{K: "setc", S: "w", Kids: []*gen.Node{gen.Bin("??", &gen.Node{K: "this", S: "x"}, gen.Int(7))}},
		gen.Set("r", gen.Var("w")),
		&gen.Node{K: "setca", S: "w", Names: []string{"x"}, Kids: []*gen.Node{gen.Int(5)}}), gen.Var("r"))...))
	// C02-F08  [4611686018427387905].sum()
	m["findings/C02-F08.json"] = one(gen.Prog(gen.MCall(gen.N("arr", gen.Int(4611686018427387905)), "sum")))
	return m
}

// replayCases: regression cases of defects already repaired in /repo (they must pass) and a few guide programs.
func replayCases() map[string]Case {
	i, v := gen.Int, gen.Var
	m := map[string]Case{}
	// (1 || 0) != 2  — a parenthesised operand followed by != lost the rest of the expression
	m["replays/C02/paren-then-ne.json"] = one(gen.Prog(gen.Bin("!=", gen.Bin("||", i(1), i(0)), i(2))))
	// (3 - 1) ＊ 3  — … or by a full-width operator
	fw := gen.Bin("*", gen.Bin("-", i(3), i(1)), i(3))
	fw.Q = 1
	m["replays/C02/paren-then-fullwidth.json"] = one(gen.Prog(fw))
	// (y = 'abc')[1:2]  — … or by a slice
	m["replays/C02/paren-then-slice.json"] = one(gen.Prog(gen.N("slice", gen.Set("y", gen.Str("abc", 0)), i(1), i(2))))
	// x = [1]; x[0] == 1  — an index followed by == was taken for the start of an assignment
	m["replays/C02/index-then-eq.json"] = one(gen.Prog(gen.Set("x", gen.N("arr", i(1))), gen.Bin("==", gen.N("idx", v("x"), i(0)), i(1))))
	// [(1 ? 2), 3] and [(0 ? 2), 3]  — else-less ternary inside a list
	m["replays/C02/chain-in-list.json"] = one(gen.Prog(gen.N("arr", gen.N("arr", gen.N("chain", i(1), i(2)), i(3)), gen.N("arr", gen.N("chain", i(0), i(2)), i(3)))))
	// 1 * [0][-1:]  — array literal followed by a slice kept the code of the abandoned index attempt
	m["replays/C02/array-literal-then-slice.json"] = one(gen.Prog(gen.N("slice", gen.Bin("*", i(1), gen.N("arr", i(0))), i(-1), gen.None())))
	// dict equality after both dicts were iterated
	m["replays/C02/dict-eq-after-iteration.json"] = one(gen.Prog(
		gen.Set("x", gen.N("dict", gen.Str("u", 0), i(1))),
		gen.Set("y", gen.N("dict", gen.Str("u", 0), i(1), gen.Str("v", 0), i(2))),
		gen.MCall(gen.MCall(v("x"), "keys"), "len"), gen.MCall(gen.MCall(v("y"), "values"), "len"),
		gen.N("arr", gen.Bin("==", v("x"), v("y")), gen.Bin("!=", v("x"), v("y")), gen.Bin("==", v("y"), v("x")))))
	// 2^62 * [1, 2]  — element count overflow (was C02-F03, repaired in /repo 02fb354)
	m["replays/C02/array-repeat-overflow.json"] = one(gen.Prog(gen.Bin("*", gen.Int(1<<62), gen.N("arr", i(1), i(2)))))
	// '1' + ('xy')[0][0:] and x=[[1,2]]; [5] + x[0][1:]  — a slice suffix after an index inside a larger
	// expression compiled in the wrong order (was C02-F04, repaired in /repo 6177a5c)
	m["replays/C02/index-then-slice.json"] = one(gen.Prog(
		gen.Set("x", gen.N("arr", gen.N("arr", i(1), i(2)))),
		gen.N("arr",
			gen.N("slice", gen.Bin("+", gen.Str("1", 0), gen.N("idx", gen.Str("xy", 0), i(0))), i(0), gen.None()),
			gen.N("slice", gen.Bin("+", gen.N("arr", i(5)), gen.N("idx", v("x"), i(0))), i(1), gen.None()))))
	// i=0; while i<25 { i=i+1; if 1 { continue } }; i  — break/continue inside an if leaked one block-stack
	// slot per jump (was C02-F05, repaired in /repo 2d5495a); also nested ifs and break
	m["replays/C02/break-in-if.json"] = one(gen.Prog(append(loopN("i", 25, gen.N("if", i(1), gen.Block(gen.N("continue")), gen.None())), v("i"))...))
	m["replays/C02/break-in-nested-if.json"] = one(gen.Prog(append(append([]*gen.Node{gen.Set("n", i(0))}, loopN("i", 60,
		gen.N("if", gen.Bin(">", v("i"), i(3)), gen.Block(
			gen.N("if", gen.Bin("%", v("i"), i(2)), gen.Block(gen.Set("n", gen.Bin("+", v("n"), i(1))), gen.N("continue")),
				gen.Block(gen.N("if", gen.Bin(">", v("i"), i(50)), gen.Block(gen.N("break")), gen.None())))), gen.None()),
		gen.Set("n", gen.Bin("+", v("n"), i(100))))...), gen.N("arr", v("i"), v("n")))...))
	// GUIDE: variables of a function live in their own space → [10, 2]
	m["replays/C02/guide-function-scope.json"] = one(gen.Prog(gen.Set("x", i(2)),
		&gen.Node{K: "func", S: "g1", Kids: []*gen.Node{gen.Block(gen.Set("x", i(10)), gen.N("ret", v("x")))}},
		gen.N("arr", gen.Call(v("g1")), v("x"))))
	// GUIDE: &w = this.x + 1; &w.x = 5; w → 6
	m["replays/C02/guide-computed-attr.json"] = one(gen.Prog(&gen.Node{K: "setc", S: "w", Kids: []*gen.Node{gen.Bin("+", &gen.Node{K: "this", S: "x"}, i(1))}},
		&gen.Node{K: "setca", S: "w", Names: []string{"x"}, Kids: []*gen.Node{i(5)}}, v("w")))
	return m
}

func TestMakeProbes(t *testing.T) {
	if os.Getenv("C02_MKPROBES") == "" {
		t.Skip("development aid; set C02_MKPROBES=1")
	}
	env := rt.LoadEnv()
	run := rt.Begin(t, "C02-probes") // no known findings under this id: every failure is reported raw
	_ = run
	for rel, c := range probeCases() {
		var got *rt.Failure
		run.Enum(filepath.Base(rel), "probe", func(s *rt.Section) { got = checkCase(c, s) })
		path := filepath.Join(env.Root, rel)
		if got == nil {
			t.Errorf("%s: the case passes, no probe written", rel)
			continue
		}
		got.Property = "C02"
		got.Section = "seq"
		got.Tier, got.Seed, got.Stack = "", 0, ""
		b, _ := json.MarshalIndent(got, "", " ")
		if err := os.WriteFile(path, append(b, '\n'), 0o644); err != nil {
			t.Fatal(err)
		}
		t.Logf("%s: %s", rel, got.Signature)
	}
	for rel, c := range replayCases() {
		var got *rt.Failure
		run.Enum(filepath.Base(rel), "replay", func(s *rt.Section) { got = checkCase(c, s) })
		if got != nil {
			t.Errorf("%s: regression case fails: %s / %s", rel, got.Signature, got.Observed)
			continue
		}
		cb, _ := json.Marshal(c)
		rec := rt.Failure{Property: "C02", Section: "seq", Oracle: "regression", Signature: "regression", Case: cb,
			Expected: "passes: " + c.Steps[0].Src}
		b, _ := json.MarshalIndent(rec, "", " ")
		path := filepath.Join(env.Root, rel)
		_ = os.MkdirAll(filepath.Dir(path), 0o755)
		if err := os.WriteFile(path, append(b, '\n'), 0o644); err != nil {
			t.Fatal(err)
		}
	}
}
