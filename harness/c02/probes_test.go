package c02

import (
	"encoding/json"
	"os"
	"path/filepath"
	"testing"

	"verif/harness/gen"
	"verif/harness/rt"
	"verif/harness/vmx"
)

// Hand-made minimal cases: the pinned probes of the open findings (findings/C02-*.json) and the committed
// regression cases (replays/C02/*.json).  TestMakeProbes rewrites the files; it is a development aid
// (C02_MKPROBES=1) and is never part of a check run.

func one(p *gen.Node) Case {
	return Case{Cfg: vmx.Cfg{Mode: "min", OpLimit: 30000}, Steps: []Step{{Prog: p, Src: gen.Print(p)}}}
}

func loopN(ctr string, n int64, body ...*gen.Node) []*gen.Node {
	b := gen.Block(append([]*gen.Node{gen.Set(ctr, gen.Bin("+", gen.Var(ctr), gen.Int(1)))}, body...)...)
	return []*gen.Node{gen.Set(ctr, gen.Int(0)), gen.N("while", gen.Bin("<", gen.Var(ctr), gen.Int(n)), b)}
}

func probeCases() map[string]Case {
	return map[string]Case{} // no open finding at present
}

// diceTailCase: &j6 = 2d(+7) ; j6 — noise [0 0 7] prints the blank in front of the separator that matters.
func diceTailCase() Case {
	c := one(gen.Prog(&gen.Node{K: "setc", S: "j6", Kids: []*gen.Node{
		{K: "dice", Kids: []*gen.Node{gen.Int(2), gen.N("pos", gen.Int(7)), gen.None(), gen.None(), gen.None()}}}}, gen.Var("j6")))
	c.Steps[0].Noise = []int{0, 0, 7}
	c.Steps[0].Src, _ = gen.PrintNoisy(c.Steps[0].Prog, &gen.Noise{Vals: c.Steps[0].Noise})
	return c
}

// replayCases: regression cases of defects already repaired in /repo (they must pass) and a few guide programs.
func replayCases() map[string]Case {
	i, v := gen.Int, gen.Var
	m := map[string]Case{}
	// (1 || 0) != 2  — a parenthesised operand followed by != lost the rest of the expression
	m["replays/C02/paren-then-ne.json"] = one(gen.Prog(gen.Bin("!=", gen.Bin("||", i(1), i(0)), i(2))))
	// (3 - 1) ＊ 3  — … or by a full-width operator
	fw := gen.Bin("*", gen.Bin("-", i(3), i(1)), i(3))
	fw.Q = 1
	m["replays/C02/paren-then-fullwidth.json"] = one(gen.Prog(fw))
	// (y = 'abc')[1:2]  — … or by a slice
	m["replays/C02/paren-then-slice.json"] = one(gen.Prog(gen.N("slice", gen.Set("y", gen.Str("abc", 0)), i(1), i(2))))
	// x = [1]; x[0] == 1  — an index followed by == was taken for the start of an assignment
	m["replays/C02/index-then-eq.json"] = one(gen.Prog(gen.Set("x", gen.N("arr", i(1))), gen.Bin("==", gen.N("idx", v("x"), i(0)), i(1))))
	// [(1 ? 2), 3] and [(0 ? 2), 3]  — else-less ternary inside a list
	m["replays/C02/chain-in-list.json"] = one(gen.Prog(gen.N("arr", gen.N("arr", gen.N("chain", i(1), i(2)), i(3)), gen.N("arr", gen.N("chain", i(0), i(2)), i(3)))))
	// 1 * [0][-1:]  — array literal followed by a slice kept the code of the abandoned index attempt
	m["replays/C02/array-literal-then-slice.json"] = one(gen.Prog(gen.N("slice", gen.Bin("*", i(1), gen.N("arr", i(0))), i(-1), gen.None())))
	// dict equality after both dicts were iterated
	m["replays/C02/dict-eq-after-iteration.json"] = one(gen.Prog(
		gen.Set("x", gen.N("dict", gen.Str("u", 0), i(1))),
		gen.Set("y", gen.N("dict", gen.Str("u", 0), i(1), gen.Str("v", 0), i(2))),
		gen.MCall(gen.MCall(v("x"), "keys"), "len"), gen.MCall(gen.MCall(v("y"), "values"), "len"),
		gen.N("arr", gen.Bin("==", v("x"), v("y")), gen.Bin("!=", v("x"), v("y")), gen.Bin("==", v("y"), v("x")))))
	// 2^62 * [1, 2]  — element count overflow (was C02-F03, repaired in /repo 02fb354)
	m["replays/C02/array-repeat-overflow.json"] = one(gen.Prog(gen.Bin("*", gen.Int(1<<62), gen.N("arr", i(1), i(2)))))
	// '1' + ('xy')[0][0:] and x=[[1,2]]; [5] + x[0][1:]  — a slice suffix after an index inside a larger
	// expression compiled in the wrong order (was C02-F04, repaired in /repo 6177a5c)
	m["replays/C02/index-then-slice.json"] = one(gen.Prog(
		gen.Set("x", gen.N("arr", gen.N("arr", i(1), i(2)))),
		gen.N("arr",
			gen.N("slice", gen.Bin("+", gen.Str("1", 0), gen.N("idx", gen.Str("xy", 0), i(0))), i(0), gen.None()),
			gen.N("slice", gen.Bin("+", gen.N("arr", i(5)), gen.N("idx", v("x"), i(0))), i(1), gen.None()))))
	// i=0; while i<25 { i=i+1; if 1 { continue } }; i  — break/continue inside an if leaked one block-stack
	// slot per jump (was C02-F05, repaired in /repo 2d5495a); also nested ifs and break
	m["replays/C02/break-in-if.json"] = one(gen.Prog(append(loopN("i", 25, gen.N("if", i(1), gen.Block(gen.N("continue")), gen.None())), v("i"))...))
	m["replays/C02/break-in-nested-if.json"] = one(gen.Prog(append(append([]*gen.Node{gen.Set("n", i(0))}, loopN("i", 60,
		gen.N("if", gen.Bin(">", v("i"), i(3)), gen.Block(
			gen.N("if", gen.Bin("%", v("i"), i(2)), gen.Block(gen.Set("n", gen.Bin("+", v("n"), i(1))), gen.N("continue")),
				gen.Block(gen.N("if", gen.Bin(">", v("i"), i(50)), gen.Block(gen.N("break")), gen.None())))), gen.None()),
		gen.Set("n", gen.Bin("+", v("n"), i(100))))...), gen.N("arr", v("i"), v("n")))...))
	// this.x = 5; x  — store.local had no VM case (was C02-F01, repaired in /repo dd03001)
	m["replays/C02/this-assign.json"] = one(gen.Prog(&gen.Node{K: "setthis", S: "x", Kids: []*gen.Node{i(5)}}, v("x"),
		&gen.Node{K: "func", S: "g2", Kids: []*gen.Node{gen.Block(&gen.Node{K: "setthis", S: "y", Kids: []*gen.Node{i(3)}}, gen.Bin("+", v("y"), i(1)))}},
		gen.N("arr", gen.Call(v("g2")), v("y"))))
	// x = 'abc'; x[5] / ('abc')[-7] / 32-character string at 32  — string index clamped (was C02-F02, 5db9ef5)
	m["replays/C02/string-index-range.json"] = one(gen.Prog(gen.Set("x", gen.Str("abc", 0)), gen.N("idx", v("x"), i(5))))
	m["replays/C02/string-index-negative.json"] = one(gen.Prog(gen.N("idx", gen.Str("abc", 0), i(-7))))
	m["replays/C02/string-index-at-length-32.json"] = one(gen.Prog(gen.N("idx", gen.Str("abcdefghijklmnopqrstuvwxyzabcdef", 0), i(32))))
	// a computed definition executed twice starts from an empty attribute space (was C02-F07, 6518ec3)
	m["replays/C02/computed-redefinition.json"] = one(gen.Prog(append(loopN("i", 2,
		&gen.Node{K: "setc", S: "w", Kids: []*gen.Node{gen.Bin("??", &gen.Node{K: "this", S: "x"}, i(7))}},
		gen.Set("r", v("w")),
		&gen.Node{K: "setca", S: "w", Names: []string{"x"}, Kids: []*gen.Node{i(5)}}), v("r"))...))
	// [4611686018427387905].sum() and kh/kl beyond 2^53 (was C02-F08, 6c8dda2)
	m["replays/C02/int-sum-exact.json"] = one(gen.Prog(gen.N("arr",
		gen.MCall(gen.N("arr", gen.Int(4611686018427387905)), "sum"),
		gen.MCall(gen.N("arr", gen.Int(4611686018427387905), i(3)), "kh"),
		gen.MCall(gen.N("arr", gen.Int(4611686018427387905), gen.Int(4611686018427387907)), "kl"))))
	// every assignment form yields the assigned value (e1a4753)
	m["replays/C02/assignment-values.json"] = one(gen.Prog(gen.Set("x", gen.N("arr", i(0), i(1))), gen.Set("z", gen.N("dict")),
		&gen.Node{K: "setc", S: "w", Kids: []*gen.Node{i(1)}},
		gen.N("arr",
			gen.N("setidx", v("x"), i(0), i(7)),
			&gen.Node{K: "setattr", S: "z", Names: []string{"k"}, Kids: []*gen.Node{i(2)}},
			&gen.Node{K: "setca", S: "w", Names: []string{"x"}, Kids: []*gen.Node{i(3)}},
			gen.N("setslice", v("x"), i(0), i(1), gen.N("arr", i(9))),
			&gen.Node{K: "setthis", S: "u", Kids: []*gen.Node{i(4)}},
			v("x"), v("u"))))
	// &j6 = 2d(+7) ; j6  — detail span of a trailing dice term reached behind the trimmed text of a computed
	// value (was C02-F09, repaired in /repo c83230d)
	m["replays/C02/computed-dice-trailing-blank.json"] = diceTailCase()
	// GUIDE: variables of a function live in their own space → [10, 2]
	m["replays/C02/guide-function-scope.json"] = one(gen.Prog(gen.Set("x", i(2)),
		&gen.Node{K: "func", S: "g1", Kids: []*gen.Node{gen.Block(gen.Set("x", i(10)), gen.N("ret", v("x")))}},
		gen.N("arr", gen.Call(v("g1")), v("x"))))
	// GUIDE: &w = this.x + 1; &w.x = 5; w → 6
	m["replays/C02/guide-computed-attr.json"] = one(gen.Prog(&gen.Node{K: "setc", S: "w", Kids: []*gen.Node{gen.Bin("+", &gen.Node{K: "this", S: "x"}, i(1))}},
		&gen.Node{K: "setca", S: "w", Names: []string{"x"}, Kids: []*gen.Node{i(5)}}, v("w")))
	return m
}

func TestMakeProbes(t *testing.T) {
	if os.Getenv("C02_MKPROBES") == "" {
		t.Skip("development aid; set C02_MKPROBES=1")
	}
	env := rt.LoadEnv()
	run := rt.Begin(t, "C02-probes") // no known findings under this id: every failure is reported raw
	_ = run
	for rel, c := range probeCases() {
		var got *rt.Failure
		run.Enum(filepath.Base(rel), "probe", func(s *rt.Section) { got = checkCase(c, s) })
		path := filepath.Join(env.Root, rel)
		if got == nil {
			t.Errorf("%s: the case passes, no probe written", rel)
			continue
		}
		got.Property = "C02"
		got.Section = "seq"
		got.Tier, got.Seed, got.Stack = "", 0, ""
		b, _ := json.MarshalIndent(got, "", " ")
		if err := os.WriteFile(path, append(b, '\n'), 0o644); err != nil {
			t.Fatal(err)
		}
		t.Logf("%s: %s", rel, got.Signature)
	}
	for rel, c := range replayCases() {
		var got *rt.Failure
		run.Enum(filepath.Base(rel), "replay", func(s *rt.Section) { got = checkCase(c, s) })
		if got != nil {
			t.Errorf("%s: regression case fails: %s / %s", rel, got.Signature, got.Observed)
			continue
		}
		cb, _ := json.Marshal(c)
		rec := rt.Failure{Property: "C02", Section: "seq", Oracle: "regression", Signature: "regression", Case: cb,
			Expected: "passes: " + c.Steps[0].Src}
		b, _ := json.MarshalIndent(rec, "", " ")
		path := filepath.Join(env.Root, rel)
		_ = os.MkdirAll(filepath.Dir(path), 0o755)
		if err := os.WriteFile(path, append(b, '\n'), 0o644); err != nil {
			t.Fatal(err)
		}
	}
}
