// C02 — evaluation agrees with the language's definitional semantics.
//
// Sections:
//
//	seq    sequences of 1..4 generated programs (gen.Program) sharing one VM, printed with whitespace /
//	       parenthesis noise, min or max dice mode x IgnoreDiv0 x dice-family flags
//	prec   one deep operator expression (all unary / binary / ternary / chain / logical operators over
//	       number, string and null leaves) printed with minimal parentheses plus noise
//	ops    bounded exhaustive: every binary operator x every ordered pair of representative operand values,
//	       every unary operator x every value, ternary / chain / || / && / ?? truth tables
//
// One oracle, shared by the property and by replay: the reference interpreter verif/harness/defsem run
// on the same ASTs with the same starting store —
//
//	error    the VM returns an error exactly when the reference prescribes one
//	rest     on success the whole text was consumed (RestInput blank)
//	ret      on success Ret equals the reference value (structural, floats by bit pattern, dicts as maps)
//	attrs    after every program, failed ones included, vm.Attrs equals the reference top-level store
//	no-panic no call panics
//
// A program the reference refuses (defsem.Unsupported) or that hits the VM's work budget ends the case:
// it is discarded and counted, never judged.
package c02

import (
	"encoding/json"
	"fmt"
	"strings"
	"testing"

	ds "github.com/sealdice/dicescript"
	"pgregory.net/rapid"

	"verif/harness/defsem"
	"verif/harness/gen"
	"verif/harness/rt"
	"verif/harness/vmx"
)

// avoid switches of open findings that the generator honours (none at present)
var genSwitches = []string{}

type Step struct {
	Prog  *gen.Node `json:"prog"`
	Noise []int     `json:"noise,omitempty"`
	Src   string    `json:"src,omitempty"` // informational: the oracle prints the AST itself
}

type Case struct {
	Cfg   vmx.Cfg `json:"cfg"`
	Steps []Step  `json:"steps"`
}

func (c *Case) sources() []string {
	var out []string
	for _, st := range c.Steps {
		src, _ := gen.PrintNoisy(st.Prog, &gen.Noise{Vals: st.Noise})
		out = append(out, src)
	}
	return out
}

// ---------------------------------------------------------------------------
// features of a program that matter for signatures and classes

// nonTrivial: >= 2 statements and at least one of control flow, user function, computed value, container
// mutation through an alias, template with a hole, ternary chain.
func nonTrivial(p *gen.Node) bool {
	if p == nil || len(p.Kids) < 2 {
		return false
	}
	if p.Has("if", "while", "func", "setc", "setca", "hole", "chain", "break", "continue", "ret") {
		return true
	}
	// alias: `x = y` with y a variable, plus a mutation somewhere
	alias := false
	p.Walk(func(n *gen.Node) {
		if n.K == "set" && len(n.Kids) == 1 && n.Kids[0].K == "var" {
			alias = true
		}
	})
	return alias && p.Has("setidx", "setattr", "setslice", "mcall")
}

// ---------------------------------------------------------------------------
// the oracle

const budgetText = "允许算力上限"
const stackText = "执行栈到达溢出线"

func refCfg(c vmx.Cfg, s *rt.Section) defsem.Config {
	return defsem.Config{IgnoreDiv0: c.IgnoreDiv0, Mode: c.Mode, Fate: c.Fate}
}

// srcOf builds the lookup "text this setc expression / func body was written as" from the printer's spans.
func srcOf(src string, spans []gen.Span) func(*gen.Node) string {
	at := map[*gen.Node]gen.Span{}
	for _, sp := range spans {
		at[sp.Node] = sp
	}
	text := func(n *gen.Node) (string, bool) {
		sp, ok := at[n]
		if !ok || sp.Begin < 0 || sp.End > len(src) || sp.Begin > sp.End {
			return "", false
		}
		return src[sp.Begin:sp.End], true
	}
	return func(n *gen.Node) string {
		whole, ok := text(n)
		if !ok {
			return ""
		}
		switch n.K {
		case "setc":
			head := strings.TrimLeft(whole, "( \t\r\n")
			if !strings.HasPrefix(head, "&"+n.S) {
				return ""
			}
			child, ok := text(n.Kids[0])
			if !ok || !strings.Contains(whole, child) {
				return ""
			}
			return child
		case "func":
			if !strings.HasPrefix(whole, "func") {
				return ""
			}
			i := strings.Index(whole, ")")
			if i < 0 {
				return ""
			}
			j := strings.Index(whole[i:], "{")
			k := strings.LastIndex(whole, "}")
			if j < 0 || k < i+j {
				return ""
			}
			return whole[i+j+1 : k]
		}
		return ""
	}
}

type stepOut struct {
	Src     string `json:"src"`
	VMErr   string `json:"vm_err,omitempty"`
	VMRet   string `json:"vm_ret,omitempty"`
	VMRest  string `json:"vm_rest,omitempty"`
	VMAttrs string `json:"vm_attrs,omitempty"`
	RefErr  string `json:"ref_err,omitempty"`
	RefRet  string `json:"ref_ret,omitempty"`
	RefVars string `json:"ref_vars,omitempty"`
}

func errClass(msg string) string {
	// strip digits and quoted fragments so that the class names the kind of error, not the instance
	var sb strings.Builder
	for _, r := range msg {
		if r >= '0' && r <= '9' {
			continue
		}
		if r == '\n' {
			break
		}
		sb.WriteRune(r)
	}
	out := sb.String()
	if len(out) > 60 {
		out = out[:60]
	}
	return strings.TrimSpace(out)
}

func whyClass(why string) string {
	// "vars["x"][2]: int 3, want 4" -> "int"
	i := strings.Index(why, ": ")
	if i < 0 {
		return "?"
	}
	rest := why[i+2:]
	for _, k := range []string{"type", "int", "float", "string", "array length", "keys", "function name", "function params",
		"function body text", "computed text", "computed attributes", "native", "key", "unreadable", "VM value is nil"} {
		if strings.HasPrefix(rest, k) {
			return strings.ReplaceAll(k, " ", "-")
		}
	}
	return "?"
}

// checkCase is the oracle: a pure function of the case and of /repo's code.
func checkCase(c Case, s *rt.Section) *rt.Failure {
	vm := c.Cfg.NewVM()
	in := defsem.New(refCfg(c.Cfg, s))
	in.Trace = func(ev string) { s.Class(ev) }
	var outs []stepOut
	for i, st := range c.Steps {
		z := &gen.Noise{Vals: st.Noise}
		src, spans := gen.PrintNoisy(st.Prog, z)
		in.SrcOf = srcOf(src, spans)
		so := stepOut{Src: src}
		outs = append(outs, so)
		cur := &outs[len(outs)-1]
		mkFail := func(oracle, sig, observed, expected string) *rt.Failure {
			ob, _ := json.Marshal(outs)
			return s.NewFailure(oracle, sig, c, fmt.Sprintf("step %d: %s\nsteps: %s", i, observed, ob), expected)
		}

		ref, rerr := in.Run(st.Prog)
		if u, ok := rerr.(*defsem.Unsupported); ok {
			if u.Corner != "" {
				s.Exclude(u.Corner)
			}
			s.Discard("ref: " + unsupportedClass(u.Why))
			return nil
		}
		var verr error
		pi := rt.Guard(func() { verr = vm.Run(src) })
		if pi != nil {
			f := mkFail("no-panic", pi.Sig(), "panic: "+pi.Value, "a value or an error")
			f.Stack = pi.Stack
			return f
		}
		if verr != nil && (strings.Contains(verr.Error(), budgetText) || strings.Contains(verr.Error(), stackText)) {
			s.Discard("vm: work budget or stack capacity")
			return nil
		}
		// canonical renderings are only needed for a report: built on demand
		fill := func() {
			cur.VMAttrs = vmx.AttrsRepr(vm)
			cur.RefVars = defsem.StoreRepr(in.Store)
			if verr != nil {
				cur.VMErr = verr.Error()
			} else {
				cur.VMRet = vmx.Repr(vm.Ret)
				cur.VMRest = vm.RestInput
			}
			if rerr != nil {
				cur.RefErr = rerr.Error()
			} else {
				cur.RefRet = defsem.Repr(ref)
			}
		}
		switch {
		case rerr != nil && verr == nil:
			fill()
			if strings.TrimSpace(vm.RestInput) != "" {
				// the parser stopped early: the error the reference prescribes lies in text that was never run
				return mkFail("rest", "rest:unconsumed", fmt.Sprintf("VM stopped before %q and returned %s", vm.RestInput, cur.VMRet),
					"the whole program is consumed (reference: "+rerr.Error()+")")
			}
			return mkFail("error", "error:missing:"+errClass(rerr.Error()), "VM returned "+cur.VMRet, rerr.Error())
		case rerr == nil && verr != nil:
			fill()
			return mkFail("error", "error:unexpected:"+errClass(verr.Error()), "VM error: "+verr.Error(), "value "+cur.RefRet)
		case rerr == nil && verr == nil:
			if strings.TrimSpace(vm.RestInput) != "" {
				fill()
				return mkFail("rest", "rest:unconsumed", fmt.Sprintf("VM stopped before %q and returned %s", vm.RestInput, cur.VMRet),
					"the whole program is consumed; value "+cur.RefRet)
			}
			if ok, why := defsem.EqualVM(ref, vm.Ret); !ok {
				fill()
				return mkFail("ret", "ret:"+whyClass(why), why+"; VM returned "+cur.VMRet, "value "+cur.RefRet)
			}
		}
		if ok, why := defsem.EqualStore(in.Store, vm.Attrs); !ok {
			kind := "after-success"
			if rerr != nil {
				kind = "after-error"
			}
			fill()
			return mkFail("attrs", "attrs:"+kind+":"+whyClass(why), why+"; VM variables "+cur.VMAttrs, "variables "+cur.RefVars)
		}
		if rerr != nil {
			s.Class("step:error")
		} else {
			s.Class("step:ok")
		}
	}
	for ev := range in.Events {
		s.Class("corner:" + ev)
	}
	return nil
}

func unsupportedClass(why string) string {
	if i := strings.Index(why, "("); i > 0 {
		why = why[:i]
	}
	var sb strings.Builder
	for _, r := range why {
		if r >= '0' && r <= '9' || r == '"' {
			continue
		}
		sb.WriteRune(r)
	}
	out := strings.TrimSpace(sb.String())
	if len(out) > 70 {
		out = out[:70]
	}
	return out
}

// ---------------------------------------------------------------------------
// generation

func drawNoise(t *rapid.T) []int {
	switch rapid.IntRange(0, 5).Draw(t, "noiseKind") {
	case 0:
		return nil // canonical print
	case 1:
		return rapid.SliceOfN(rapid.IntRange(0, 6), 1, 8).Draw(t, "noiseLow") // mostly default choices
	}
	return rapid.SliceOfN(rapid.IntRange(0, 1000), 1, 40).Draw(t, "noise")
}

func drawCfg(t *rapid.T) vmx.Cfg {
	return vmx.Cfg{
		CoC:        rapid.Bool().Draw(t, "coc"),
		WoD:        rapid.Bool().Draw(t, "wod"),
		Fate:       rapid.Bool().Draw(t, "fate"),
		DC:         rapid.Bool().Draw(t, "dc"),
		IgnoreDiv0: rapid.IntRange(0, 3).Draw(t, "ignDiv0") == 0,
		Mode:       rapid.SampledFrom([]string{"min", "max"}).Draw(t, "mode"),
		OpLimit:    30000,
	}
}

func seqOpts(cfg vmx.Cfg, s *rt.Section, thorough bool) gen.Opts {
	o := gen.DefaultOpts()
	o.Dice = true
	o.Extra = true
	o.Fate = cfg.Fate
	// CoC / WoD / DC terms are not part of the reference (their min/max-mode value is C15's and C04's subject)
	o.CoC, o.WoD, o.DC = false, false, false
	o.MaxStmts = 7
	o.MaxDepth = 3
	if thorough {
		o.MaxStmts = 10
		o.MaxDepth = 4
	}
	// open findings: generate without the feature (one exclusion counted per case)
	av := map[string]bool{}
	for _, name := range genSwitches {
		if s.Avoid(name) {
			av[name] = true
		}
	}
	o.Avoid = func(name string) bool { return av[name] }
	return o
}

func drawSeq(t *rapid.T, s *rt.Section, thorough bool) Case {
	c := Case{Cfg: drawCfg(t)}
	o := seqOpts(c.Cfg, s, thorough)
	env := &gen.Env{}
	k := rapid.SampledFrom([]int{1, 1, 2, 2, 3, 4}).Draw(t, "nProgs")
	for i := 0; i < k; i++ {
		g := gen.NewG(t, o, env)
		p := g.Program()
		st := Step{Prog: p, Noise: drawNoise(t)}
		st.Src, _ = gen.PrintNoisy(p, &gen.Noise{Vals: st.Noise})
		c.Steps = append(c.Steps, st)
	}
	return c
}

func classify(c Case, s *rt.Section) (nt bool) {
	if len(c.Steps) > 1 {
		s.Class("multi-program")
	}
	for _, st := range c.Steps {
		for _, d := range gen.Describe(st.Prog) {
			s.Class("has:" + d)
		}
		if nonTrivial(st.Prog) {
			nt = true
		}
		switch {
		case len(st.Noise) == 0:
			s.Class("noise:none")
		case len(st.Noise) <= 8:
			s.Class("noise:light")
		default:
			s.Class("noise:heavy")
		}
		if strings.Contains(st.Src, "\n") {
			s.Class("noise:newline")
		}
		if strings.Contains(st.Src, "(") {
			s.Class("noise:paren-or-call")
		}
	}
	return nt
}

func TestProp(t *testing.T) {
	run := rt.Begin(t, "C02")
	defer run.Finish()
	thorough := run.Env.Thorough()

	run.Check("seq", 20000, 200000,
		"sequences of 1..4 generated programs (<= 7 statements + nested blocks, depth <= 3; thorough 10 / 4) on one VM, printed with rapid-drawn whitespace/parenthesis noise, min|max dice mode x IgnoreDiv0 x family flags, compared with the reference interpreter after every program (error<=>error, whole text consumed, Ret, Attrs); non-trivial = some program has >= 2 statements and uses control flow, a user function, a computed value, mutation through an alias, a template hole or a ternary chain; distinct by the printed sources",
		func(t *rapid.T, s *rt.Section) {
			c := drawSeq(t, s, thorough)
			s.Eval()
			nt := classify(c, s)
			h := rt.Hash(c.sources()...)
			if nt {
				s.NonTrivial(h)
			}
			s.Sample(h, c)
			s.Crumb(c)
			s.Report(t, checkCase(c, s))
		})

	run.Check("prec", 12000, 300000,
		"one operator expression of depth 2..4 (thorough ..6) over + - * / % ** ^ ?? || && | & comparisons, unary - +, ternary and else-less chains, leaves small ints / floats / strings / null / true / false / an undefined name, ASCII and full-width spellings, printed with the minimal parentheses of the published grammar plus rapid-drawn redundant parentheses and whitespace, as a statement, an assignment or an array element; reference value computed on the tree; non-trivial = at least three operators of at least two kinds; distinct by printed source",
		func(t *rapid.T, s *rt.Section) {
			c := drawPrec(t, thorough)
			s.Eval()
			ops, kinds := opCount(c.Steps[0].Prog)
			for k := range kinds {
				s.Class("has:" + k)
			}
			s.Class(fmt.Sprintf("ops:%d", min(ops, 12)))
			h := rt.Hash(c.Steps[0].Src)
			if ops >= 3 && len(kinds) >= 2 {
				s.NonTrivial(h)
			}
			s.Sample(h, c)
			s.Crumb(c)
			s.Report(t, checkCase(c, s))
		})

	run.Enum("ops", "every binary operator x every ordered pair of 29 representative operand values (ints incl. 2^31 and 2^62, floats, strings, null, true, arrays, dicts), / and % also with IgnoreDiv0; unary - + on every value; every value as the condition of ?: / else-less chain / if, as left operand of || && ?? with a right operand that must not run; conversion built-ins, index, slice, methods and attribute on every value (thorough: all three-operand shapes over 13 operators); non-trivial = every case (each is a distinct operator/operand combination); distinct by source",
		func(s *rt.Section) {
			s.Exhaustive = true
			s.Bounds = "18 binary operators x 29 x 29 operand values (+ IgnoreDiv0 for / %), 2 unary x 29, 43 condition / conversion / index / slice / method forms x 29 values"
			if thorough {
				s.Bounds += "; 13 x 13 operator pairs x 2 association shapes x {plain, negated} over the ints 2, 3, 7"
			}
			failed := false
			opsCases(thorough, func(i int, c Case) {
				if i%run.Env.NShards != run.Env.Shard || failed {
					return
				}
				s.Eval()
				h := rt.Hash(c.Steps[0].Src)
				s.NonTrivial(h)
				if i%97 == 0 {
					s.Sample(h, c)
				}
				if s.Report(nil, checkCase(c, s)) {
					failed = true
				}
			})
		})
}

// ---------------------------------------------------------------------------
// prec: deep operator expressions

var precOps = []string{"+", "+", "+", "-", "-", "-", "*", "*", "*", "/", "%", "**", "^", "??", "??", "||", "&&", "|", "&", "<", "<=", "==", "!=", ">=", ">"}

func precLeaf(t *rapid.T) *gen.Node {
	switch rapid.IntRange(0, 79).Draw(t, "leafKind") {
	case 0, 1, 2:
		return gen.Int(0)
	case 3, 4:
		return gen.Flt(rapid.SampledFrom([]string{"1.5", "2.0", ".5", "0.25", "3.0"}).Draw(t, "leafFlt"))
	case 5:
		return gen.N("null")
	case 6:
		return gen.Str(rapid.SampledFrom([]string{"", "a", "ab"}).Draw(t, "leafStr"), rapid.IntRange(0, 1).Draw(t, "leafQ"))
	case 7, 8, 9, 10:
		return gen.N(rapid.SampledFrom([]string{"true", "false"}).Draw(t, "leafBool"))
	case 11:
		return gen.Var("无0") // undefined: null
	}
	return gen.Int(int64(rapid.IntRange(1, 9).Draw(t, "leafInt")))
}

func precTree(t *rapid.T, d, top int) *gen.Node {
	if d <= 0 || (d < top && rapid.IntRange(0, 5).Draw(t, "leafHere") == 0) {
		return precLeaf(t)
	}
	switch rapid.IntRange(0, 19).Draw(t, "nodeKind") {
	case 0, 1:
		return gen.N(rapid.SampledFrom([]string{"neg", "neg", "pos"}).Draw(t, "unary"), precTree(t, d-1, top))
	case 2, 3:
		return gen.N("tern", precTree(t, d-1, top), precTree(t, d-1, top), precTree(t, d-1, top))
	case 4:
		n := gen.N("chain")
		for i := rapid.IntRange(1, 3).Draw(t, "arms"); i > 0; i-- {
			n.Kids = append(n.Kids, precTree(t, d-1, top), precTree(t, d-1, top))
		}
		return n
	}
	op := rapid.SampledFrom(precOps).Draw(t, "op")
	l := precTree(t, d-1, top)
	if op == "??" && rapid.Bool().Draw(t, "nullLeft") {
		l = rapid.SampledFrom([]*gen.Node{gen.N("null"), gen.Var("无0")}).Draw(t, "nullLeaf").Clone()
	}
	n := gen.Bin(op, l, precTree(t, d-1, top))
	if (op == "+" || op == "-" || op == "*" || op == "/") && rapid.IntRange(0, 7).Draw(t, "fullWidth") == 0 {
		n.Q = 1
	}
	return n
}

func drawPrec(t *rapid.T, thorough bool) Case {
	c := Case{Cfg: vmx.Cfg{IgnoreDiv0: rapid.IntRange(0, 3).Draw(t, "ignDiv0") == 0, Mode: "min", OpLimit: 30000}}
	d := rapid.IntRange(2, 4).Draw(t, "depth")
	if thorough {
		d = rapid.IntRange(2, 6).Draw(t, "depthT")
	}
	e := precTree(t, d, d)
	var p *gen.Node
	switch rapid.IntRange(0, 3).Draw(t, "wrap") {
	case 0:
		p = gen.Prog(gen.Set("r", e), gen.Var("r"))
	case 1:
		p = gen.Prog(gen.N("arr", e, gen.Int(1)))
	default:
		p = gen.Prog(e)
	}
	st := Step{Prog: p, Noise: drawNoise(t)}
	st.Src, _ = gen.PrintNoisy(p, &gen.Noise{Vals: st.Noise})
	c.Steps = []Step{st}
	return c
}

func opCount(n *gen.Node) (ops int, kinds map[string]bool) {
	kinds = map[string]bool{}
	n.Walk(func(m *gen.Node) {
		switch m.K {
		case "bin":
			ops++
			kinds[m.S] = true
		case "neg", "pos", "tern", "chain":
			ops++
			kinds[m.K] = true
		}
	})
	return
}

// ---------------------------------------------------------------------------
// ops: bounded exhaustive operator x operand-value table

func opValues() []*gen.Node {
	arr := func(k ...*gen.Node) *gen.Node { return gen.N("arr", k...) }
	dict := func(k ...*gen.Node) *gen.Node { return gen.N("dict", k...) }
	return []*gen.Node{
		gen.Int(0), gen.Int(1), gen.Int(-1), gen.Int(2), gen.Int(7), gen.Int(-3), gen.Int(1 << 31), gen.Int(1 << 62),
		gen.Flt("0.0"), gen.Flt("1.5"), gen.N("neg", gen.Flt("2.5")), gen.Flt("2.0"), gen.Flt(".5"),
		gen.Str("", 0), gen.Str("a", 1), gen.Str("ab", 0), gen.Str("12", 0),
		gen.N("null"), gen.N("true"),
		arr(), arr(gen.Int(1)), arr(gen.Int(1), gen.Int(2)), arr(arr(gen.Int(1))), arr(gen.Str("a", 0)), arr(gen.Flt("1.0")),
		dict(), dict(gen.Str("x", 0), gen.Int(1)), dict(gen.Str("x", 0), gen.Int(1), gen.Str("y", 0), gen.Int(2)),
		dict(gen.Str("x", 0), gen.Flt("1.0")),
	}
}

var allBinOps = []string{"||", "&&", "|", "&", "<", "<=", "==", "!=", ">=", ">", "+", "-", "*", "/", "%", "??", "**", "^"}

// opsCases enumerates the table; every case is one single-statement program.
func opsCases(thorough bool, visit func(i int, c Case)) int {
	vals := opValues()
	i := 0
	emit := func(e *gen.Node, div0 bool) {
		p := gen.Prog(e)
		c := Case{Cfg: vmx.Cfg{IgnoreDiv0: div0, Mode: "min", OpLimit: 30000}, Steps: []Step{{Prog: p, Src: gen.Print(p)}}}
		visit(i, c)
		i++
	}
	for _, op := range allBinOps {
		for _, l := range vals {
			for _, r := range vals {
				emit(gen.Bin(op, l.Clone(), r.Clone()), false)
				if op == "/" || op == "%" {
					emit(gen.Bin(op, l.Clone(), r.Clone()), true)
				}
			}
		}
	}
	for _, u := range []string{"neg", "pos"} {
		for _, v := range vals {
			emit(gen.N(u, v.Clone()), false)
		}
	}
	// truthiness of every value through each conditional form; the untaken arm would fail if evaluated
	boom := func() *gen.Node { return gen.Bin("/", gen.Int(1), gen.Int(0)) }
	for _, v := range vals {
		emit(gen.N("tern", v.Clone(), gen.Int(1), boom()), false)
		emit(gen.N("tern", v.Clone(), boom(), gen.Int(2)), false)
		emit(gen.N("chain", v.Clone(), gen.Int(1)), false)
		emit(gen.N("chain", v.Clone(), gen.Int(1), gen.Int(1), gen.Int(2)), false)
		emit(gen.N("chain", v.Clone(), boom(), v.Clone(), gen.Int(2)), false)
		emit(gen.Bin("||", v.Clone(), boom()), false)
		emit(gen.Bin("&&", v.Clone(), boom()), false)
		emit(gen.Bin("??", v.Clone(), boom()), false)
		emit(gen.Prog(gen.N("if", v.Clone(), gen.Block(gen.Set("r", gen.Int(1))), gen.Block(gen.Set("r", gen.Int(2)))), gen.Var("r")).Kids[0], false)
		emit(gen.Call(gen.Var("toBool"), v.Clone()), false)
		emit(gen.Call(gen.Var("typeId"), v.Clone()), false)
		emit(gen.Call(gen.Var("toStr"), v.Clone()), false)
		emit(gen.Call(gen.Var("repr"), v.Clone()), false)
		for _, f := range []string{"toInt", "toFloat", "abs", "ceil", "floor", "round"} {
			emit(gen.Call(gen.Var(f), v.Clone()), false)
		}
		// indexing and slicing every value
		for _, ix := range []*gen.Node{gen.Int(0), gen.Int(-1), gen.Int(1), gen.Str("x", 0), gen.N("null"), gen.Flt("1.0")} {
			emit(gen.N("idx", v.Clone(), ix.Clone()), false)
		}
		for _, b := range [][2]*gen.Node{{gen.None(), gen.None()}, {gen.Int(1), gen.None()}, {gen.None(), gen.Int(1)}, {gen.Int(-1), gen.Int(5)}, {gen.Int(2), gen.Int(1)}, {gen.Str("a", 0), gen.None()}} {
			emit(gen.N("slice", v.Clone(), b[0].Clone(), b[1].Clone()), false)
		}
		for _, m := range []string{"len", "sum", "kh", "kl", "pop", "shift", "keys", "values", "items", "nosuch"} {
			emit(gen.MCall(v.Clone(), m), false)
		}
		emit(gen.NS("attr", "x", v.Clone()), false)
	}
	if thorough {
		// three-operand chains of the arithmetic / comparison operators over small ints: associativity and level order
		small := []*gen.Node{gen.Int(2), gen.Int(3), gen.Int(7)}
		ops := []string{"+", "-", "*", "/", "%", "**", "??", "<", "==", "|", "&", "||", "&&"}
		for _, o1 := range ops {
			for _, o2 := range ops {
				for _, shape := range []int{0, 1} {
					var e *gen.Node
					if shape == 0 {
						e = gen.Bin(o2, gen.Bin(o1, small[0].Clone(), small[1].Clone()), small[2].Clone())
					} else {
						e = gen.Bin(o1, small[0].Clone(), gen.Bin(o2, small[1].Clone(), small[2].Clone()))
					}
					emit(e, false)
					emit(gen.N("neg", e.Clone()), false)
				}
			}
		}
	}
	return i
}

func TestReplay(t *testing.T) {
	seq := func(b []byte, s *rt.Section) *rt.Failure {
		var c Case
		if err := json.Unmarshal(b, &c); err != nil {
			return s.NewFailure("replay", "replay:bad-case", nil, err.Error(), "")
		}
		return checkCase(c, s)
	}
	rt.Replay(t, "C02", map[string]rt.ReplayFunc{"seq": seq, "prec": seq, "ops": seq})
}

var _ = ds.NewVM
