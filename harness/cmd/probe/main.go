// probe: run each argument (or stdin line) as a program and print the outcome. Development helper.
package main

import (
	"bufio"
	"fmt"
	"os"
	"strings"

	ds "github.com/sealdice/dicescript"
)

func run(vm *ds.Context, src string) {
	defer func() {
		if r := recover(); r != nil {
			fmt.Printf("%q => PANIC %v\n", src, r)
		}
	}()
	err := vm.Run(src)
	if err != nil {
		fmt.Printf("%q => ERR %s\n", src, strings.ReplaceAll(err.Error(), "\n", " | "))
		return
	}
	fmt.Printf("%q => %s  matched=%q rest=%q detail=%q\n", src, vm.Ret.ToRepr(), vm.Matched, vm.RestInput, vm.GetDetailText())
}

func main() {
	vm := ds.NewVM()
	vm.Config.EnableDiceWoD = true
	vm.Config.EnableDiceCoC = true
	vm.Config.EnableDiceFate = true
	vm.Config.EnableDiceDoubleCross = true
	vm.Config.OpCountLimit = 30000
	if os.Getenv("MINMODE") != "" {
		vm.Config.DiceMinMode = true
	}
	if len(os.Args) > 1 {
		for _, a := range os.Args[1:] {
			run(vm, a)
		}
		return
	}
	sc := bufio.NewScanner(os.Stdin)
	for sc.Scan() {
		run(vm, strings.ReplaceAll(sc.Text(), `\n`, "\n"))
	}
}
