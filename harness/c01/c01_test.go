// C01 — the public API is total: no panic, no fatal error, no hang.
package c01

import (
	"encoding/json"
	"fmt"
	"strings"
	"testing"

	ds "github.com/sealdice/dicescript"
	"pgregory.net/rapid"

	"verif/harness/gen"
	"verif/harness/rt"
	"verif/harness/vmx"
)

type Step struct {
	Call string `json:"call"` // Run | ParseRun | ParseRunRun | ParseOnly | RunExpr
	Src  string `json:"src"`
	Flag bool   `json:"flag,omitempty"` // RunExpr: useUpCtxLocal
}

type Case struct {
	Cfg   vmx.Cfg  `json:"cfg"`
	Steps []Step   `json:"steps"`
	Kinds []string `json:"kinds,omitempty"` // informational: how each source was generated
}

func ceilingFor(cfg vmx.Cfg) int64 {
	if cfg.OpLimit > 0 {
		return 200*int64(cfg.OpLimit) + 200_000
	}
	return 20_000_000
}

// observe calls every observer the property names; each under its own guard so a failure is attributed.
func observe(vm *ds.Context, where string, c Case, s *rt.Section) *rt.Failure {
	type ob struct {
		name string
		fn   func()
	}
	var d1, d2 string
	obs := []ob{
		{"Ret.ToString", func() {
			if vm.Ret != nil {
				_ = vm.Ret.ToString()
			}
		}},
		{"Ret.ToRepr", func() {
			if vm.Ret != nil {
				_ = vm.Ret.ToRepr()
			}
		}},
		{"Ret.ToJSON", func() {
			// the JSON form of a value is a tree: shared sub-containers are written once per path, so a
			// DAG of depth n has 2^n nodes (design limit, DESIGN.md §6.2) — only values whose tree is small are serialised
			if vm.Ret != nil && treeNodes(vm.Ret, 200_000) < 200_000 {
				_, _ = vm.Ret.ToJSON()
			}
		}},
		{"GetDetailText", func() { d1 = vm.GetDetailText() }},
		{"GetDetailText#2", func() { d2 = vm.GetDetailText() }},
		{"GetAsmText", func() { _ = vm.GetAsmText() }},
		{"Matched/RestInput", func() { _ = vm.Matched + vm.RestInput }},
		{"GetErrorText", func() { _ = vm.GetErrorText() }},
		{"IsCalculateExists", func() { _ = vm.IsCalculateExists() }},
		{"Attrs.ToJSON", func() {
			if vm.Attrs != nil {
				n := 0
				vm.Attrs.Range(func(_ string, v *ds.VMValue) bool {
					n += treeNodes(v, 200_000-n)
					return n < 200_000
				})
				if n < 200_000 {
					_, _ = vm.Attrs.ToJSON()
				}
			}
		}},
	}
	for _, o := range obs {
		ds.VerifMeterReset(ceilingFor(c.Cfg))
		pi := rt.Guard(o.fn)
		ds.VerifMeterReset(0)
		if pi != nil {
			return s.NewFailure("observer:"+o.name, pi.Sig(), c, fmt.Sprintf("%s after %s panics: %s\n%s", o.name, where, pi.Value, pi.Stack), "returns normally")
		}
	}
	_ = d1
	_ = d2
	return nil
}

// treeNodes counts the nodes of v's tree unfolding (every path to a shared container counts), stopping at limit.
func treeNodes(v *ds.VMValue, limit int) int {
	if v == nil || limit <= 0 {
		return 1
	}
	n := 1
	switch v.TypeId {
	case ds.VMTypeArray:
		if ad, ok := v.ReadArray(); ok && ad != nil {
			for _, e := range ad.List {
				n += treeNodesPath(e, limit-n, 1)
				if n >= limit {
					return n
				}
			}
		}
	case ds.VMTypeDict:
		if dd, ok := v.ReadDictData(); ok && dd != nil && dd.Dict != nil {
			dd.Dict.Range(func(_ string, e *ds.VMValue) bool {
				n += treeNodesPath(e, limit-n, 1)
				return n < limit
			})
		}
	case ds.VMTypeComputedValue:
		if cd, ok := v.ReadComputed(); ok && cd != nil && cd.Attrs != nil {
			cd.Attrs.Range(func(_ string, e *ds.VMValue) bool {
				n += treeNodesPath(e, limit-n, 1)
				return n < limit
			})
		}
	}
	return n
}

func treeNodesPath(v *ds.VMValue, limit, depth int) int {
	if depth > 200 {
		return limit // a cycle or a very deep value: treated as large
	}
	if v == nil || limit <= 0 {
		return 1
	}
	n := 1
	each := func(e *ds.VMValue) bool {
		n += treeNodesPath(e, limit-n, depth+1)
		return n < limit
	}
	switch v.TypeId {
	case ds.VMTypeArray:
		if ad, ok := v.ReadArray(); ok && ad != nil {
			for _, e := range ad.List {
				if !each(e) {
					return n
				}
			}
		}
	case ds.VMTypeDict:
		if dd, ok := v.ReadDictData(); ok && dd != nil && dd.Dict != nil {
			dd.Dict.Range(func(_ string, e *ds.VMValue) bool { return each(e) })
		}
	case ds.VMTypeComputedValue:
		if cd, ok := v.ReadComputed(); ok && cd != nil && cd.Attrs != nil {
			cd.Attrs.Range(func(_ string, e *ds.VMValue) bool { return each(e) })
		}
	}
	return n
}

func checkCase(c Case, s *rt.Section) *rt.Failure {
	vm := c.Cfg.NewVM()
	vm.Config.CallbackSt = func(_type string, name string, val *ds.VMValue, extra *ds.VMValue, op string, detail string) {}
	ceiling := ceilingFor(c.Cfg)
	everParsed := false // some earlier step left a compiled program on the VM
	for i, st := range c.Steps {
		where := fmt.Sprintf("step %d %s(%q)", i, st.Call, clip(st.Src, 120))
		var err error
		var exprVal *ds.VMValue
		parsed := false
		call := func(what string, fn func()) *rt.Failure {
			ds.VerifMeterReset(ceiling)
			pi := rt.Guard(fn)
			ops, rolls := ds.VerifOpsDone.Load(), ds.VerifRollsDone.Load()
			ds.VerifMeterReset(0)
			if pi == nil {
				return nil
			}
			if _, hit := pi.Raw.(ds.VerifCeilingHit); hit {
				if c.Cfg.OpLimit > 0 {
					return s.NewFailure("bounded-work", "work:unbounded|"+what, c,
						fmt.Sprintf("%s %s: more than %d dispatches+rolls (ops=%d rolls=%d) under OpCountLimit=%d", where, what, ceiling, ops, rolls, c.Cfg.OpLimit),
						"work proportional to the configured budget")
				}
				s.Discard("work-ceiling-without-budget")
				return &rt.Failure{Signature: "stop"}
			}
			return s.NewFailure("no-panic", pi.Sig(), c, fmt.Sprintf("%s %s panics: %s\n%s", where, what, pi.Value, pi.Stack), "a value or an error")
		}
		var f *rt.Failure
		switch st.Call {
		case "Run":
			f = call("Run", func() { err = vm.Run(st.Src) })
			if f == nil && err == nil {
				everParsed = true
			}
			if f == nil && err == nil && vm.Ret == nil {
				f = s.NewFailure("value-or-error", "c01:nil-ret", c, where+": Run returned nil error and Ret is nil", "a value")
			}
		case "ParseRun", "ParseRunRun", "ParseOnly", "ParseRunAnyway":
			f = call("Parse", func() { err = vm.Parse(st.Src) })
			if f == nil && err == nil {
				parsed = true
				everParsed = true
			}
			if f == nil && !parsed && everParsed && st.Call == "ParseRunAnyway" {
				// a host that does not look at Parse's verdict and runs: an error (the parse error) or a value, and the
				// observers stay total
				var err2 error
				f = call("RunAfterParsed after a rejected Parse", func() { err2 = vm.RunAfterParsed() })
				if err2 == nil && f == nil {
					s.Class("run-after-rejected-parse-returned-no-error")
				}
			}
			if f == nil && parsed && st.Call != "ParseOnly" {
				f = call("RunAfterParsed", func() { err = vm.RunAfterParsed() })
				if f == nil && st.Call == "ParseRunRun" {
					if f = observe(vm, where+" (between re-runs)", c, s); f == nil {
						f = call("RunAfterParsed#2", func() { err = vm.RunAfterParsed() })
					}
				}
				if f == nil && err == nil && vm.Ret == nil {
					f = s.NewFailure("value-or-error", "c01:nil-ret", c, where+": RunAfterParsed returned nil error and Ret is nil", "a value")
				}
			}
		case "RunExpr":
			f = call("RunExpr", func() { exprVal, err = vm.RunExpr(st.Src, st.Flag) })
			if f == nil && err == nil && exprVal == nil {
				f = s.NewFailure("value-or-error", "c01:nil-runexpr", c, where+": RunExpr returned nil value and nil error", "a value or an error")
			}
			if f == nil && exprVal != nil {
				f = call("RunExpr value printing", func() { _ = exprVal.ToString(); _ = exprVal.ToRepr() })
			}
		}
		if f != nil {
			if f.Signature == "stop" {
				return nil
			}
			return f
		}
		if err != nil {
			s.Class("step-error")
			if st.Call != "RunExpr" && vm.GetErrorText() == "" {
				return s.NewFailure("value-or-error", "c01:error-without-text", c, where+": error returned but GetErrorText is empty: "+err.Error(), "error text")
			}
		} else {
			s.Class("step-ok")
		}
		if f := observe(vm, where, c, s); f != nil {
			return f
		}
	}
	return nil
}

func clip(s string, n int) string {
	if len(s) > n {
		return s[:n] + "…"
	}
	return s
}

var defSides = []string{"", "", "", "6", "面数 ?? 50", "1/0", "d", "'x'", "2d6", "[1]"}

func drawCfg(t *rapid.T) vmx.Cfg {
	c := vmx.DrawCfg(t, rapid.Bool().Draw(t, "seeded"))
	c.NoStmts = rapid.IntRange(0, 5).Draw(t, "nostmt") == 0
	c.NoNDice = rapid.IntRange(0, 5).Draw(t, "nondice") == 0
	c.NoBitwise = rapid.IntRange(0, 5).Draw(t, "nobit") == 0
	c.DefSide = rapid.SampledFrom(defSides).Draw(t, "defside")
	c.OpLimit = rapid.SampledFrom([]int{200, 30000, 30000}).Draw(t, "oplimit")
	c.ParseLimit = rapid.SampledFrom([]uint64{0, 0, 0, 300, 700, 1000, 1500, 2000, 3000, 5000, 10000, 10_000_000}).Draw(t, "parselimit")
	c.Lang = rapid.IntRange(0, 2).Draw(t, "lang")
	return c
}

var loopish = []string{"while", "func", "&", "(", "load", ".compute"}

func drawSource(t *rapid.T, cfg vmx.Cfg, env *gen.Env, s *rt.Section, prev string) (string, string) {
	o := gen.DefaultOpts()
	o.Dice, o.CoC, o.WoD, o.Fate, o.DC = true, true, true, true, true
	o.MaxStmts, o.MaxDepth = 4, 3
	o.AssignExprAll = true
	o.Avoid = s.Avoid
	g := gen.NewG(t, o, env)
	switch rapid.IntRange(0, 19).Draw(t, "srcKind") {
	case 0, 1, 2, 3, 4, 5, 6, 7:
		src, _ := g.Hostile()
		return src, "hostile-template"
	case 8, 9, 10, 11:
		z := &gen.Noise{Vals: rapid.SliceOfN(rapid.IntRange(0, 1000), 0, 10).Draw(t, "noise")}
		p, _ := gen.PrintNoisy(g.Program(), z)
		tail, _ := g.Tail()
		return p + tail, "program+tail"
	case 12, 13, 14:
		g.O.Hostile = 0.3
		g.O.MaxStmts = 3
		return gen.Print(g.Program()), "hostile-typed-program"
	case 15, 16:
		base := prev
		if base == "" {
			base, _ = g.Hostile()
		}
		return g.MutateBytes(base, 1+rapid.IntRange(0, 3).Draw(t, "nmut")), "byte-mutation"
	case 17:
		a, _ := g.Hostile()
		b, _ := g.Hostile()
		sep := rapid.SampledFrom([]string{";", "\n", " ", " + ", ", ", ""}).Draw(t, "joinSep")
		return a + sep + b, "two-templates"
	default:
		return string(rapid.SliceOfN(rapid.Byte(), 0, 40).Draw(t, "raw")), "raw-bytes"
	}
}

func TestProp(t *testing.T) {
	run := rt.Begin(t, "C01")
	defer run.Finish()
	rule := "histories of 1..4 steps on one VM (Run | Parse+RunAfterParsed once or twice | Parse only | RunExpr | Parse then RunAfterParsed whatever Parse said, once the VM has a program), every observer (Ret printing/repr/JSON, GetDetailText twice, GetAsmText, Matched/RestInput, GetErrorText, IsCalculateExists, Attrs.ToJSON) after every step; sources: hostile-typing templates (any value as any operand of every operator/dice modifier/method/built-in, extreme counts, nesting 1..400 around the capacities), generated program + broken tail, hostile-typed generated programs, byte mutations, raw bytes; all family flags x DisableStmts/NDice/Bitwise x IgnoreDiv0 x random/min/max x DefaultDiceSideExpr x OpCountLimit {200,30000} x ParseExprLimit {0,2000,1e7}. Oracle: no panic escapes, dispatches+rolls stay under 200*budget+2e5, a call yields a value or an error. Non-trivial = some step parsed successfully and (a later step ran on the state it left, or a step ended in a run-time error); distinct by configuration+sources"
	run.Check("history", 40000, 300000, rule, func(t *rapid.T, s *rt.Section) {
		c := Case{Cfg: drawCfg(t)}
		n := rapid.IntRange(1, 4).Draw(t, "nsteps")
		env := &gen.Env{}
		prev := ""
		for i := 0; i < n; i++ {
			src, kind := drawSource(t, c.Cfg, env, s, prev)
			if len(src) > 6000 && !strings.Contains(kind, "template") {
				src = src[:6000]
			}
			prev = src
			call := rapid.SampledFrom([]string{"Run", "Run", "Run", "ParseRun", "ParseRunRun", "ParseOnly", "RunExpr", "ParseRunAnyway"}).Draw(t, "call")
			c.Steps = append(c.Steps, Step{Call: call, Src: src, Flag: rapid.Bool().Draw(t, "flag")})
			c.Kinds = append(c.Kinds, kind)
			s.Class("src:" + kind)
			s.Class("call:" + call)
		}
		s.Eval()
		s.Crumb(c)
		f := checkCase(c, s)
		if f == nil {
			// non-triviality is measured on a second, cheap pass over the recorded classes: a case with >= 2 steps
			// whose first step parsed, or any case with a run-time error, qualifies; approximated by step outcome below.
			vm := c.Cfg.NewVM()
			okParse, rtErr := 0, false
			for _, st := range c.Steps {
				ds.VerifMeterReset(ceilingFor(c.Cfg))
				pi := rt.Guard(func() {
					if perr := vm.Parse(st.Src); perr == nil {
						okParse++
						if rerr := vm.RunAfterParsed(); rerr != nil {
							rtErr = true
						}
					}
				})
				ds.VerifMeterReset(0)
				if pi != nil {
					break
				}
			}
			if okParse >= 1 && (len(c.Steps) >= 2 || rtErr) {
				b, _ := json.Marshal(c)
				h := rt.HashBytes(b)
				s.NonTrivial(h)
				if len(b) < 400 {
					s.Sample(h, c)
				}
			}
		}
		s.Report(t, f)
	})
}

func TestReplay(t *testing.T) {
	rt.Replay(t, "C01", map[string]rt.ReplayFunc{
		"history": func(b []byte, s *rt.Section) *rt.Failure {
			var c Case
			if err := json.Unmarshal(b, &c); err != nil {
				return s.NewFailure("replay", "replay:bad-case", nil, err.Error(), "")
			}
			return checkCase(c, s)
		},
	})
}

// FuzzC01 (thorough tier): coverage-guided search over raw bytes: byte 0-1 configuration, byte 2 call kind, rest source;
// a 0x00 byte splits the rest into up to three steps on the same VM.
func FuzzC01(f *testing.F) {
	seeds := []string{"2d6", "b(1.5)", "[].rand()", "x='abc'; x[5]", "[1,2].kh('a')", "-3*[1,2,3]", "1 || ", "func g() { d }; g()", "&a = 2d; a",
		"x={}; x.a=x; x", "`{% if 1 { x = `{1}` } %}`", "i=0; while i<25 { i=i+1; if 1 { continue } }", "^st力量60敏捷70", "[x,2]\n[x,2]", "1 ? 2,{'a", "3a2m100", "3c6", "99999999999999999999d6"}
	for _, sd := range seeds {
		f.Add([]byte("\xff\x00\x00" + sd))
		f.Add([]byte("\x0f\x01\x01" + sd + "\x00" + sd))
	}
	_, s := rt.FuzzRun("C01", "history")
	f.Fuzz(func(t *testing.T, data []byte) {
		if len(data) < 4 || len(data) > 600 {
			return
		}
		b0, b1, b2 := data[0], data[1], data[2]
		c := Case{Cfg: vmx.Cfg{CoC: b0&1 != 0, WoD: b0&2 != 0, Fate: b0&4 != 0, DC: b0&8 != 0, IgnoreDiv0: b0&16 != 0,
			NoStmts: b0&32 != 0, NoNDice: b0&64 != 0, NoBitwise: b0&128 != 0, OpLimit: 30000, SeedHex: "000102030405060708090a0b0c0d0e0f"}}
		switch b1 % 3 {
		case 1:
			c.Cfg.Mode = "min"
		case 2:
			c.Cfg.Mode = "max"
		}
		if b1&4 != 0 {
			c.Cfg.OpLimit = 200
		}
		if b1&8 != 0 {
			c.Cfg.ParseLimit = 2000
		}
		c.Cfg.DefSide = defSides[int(b1>>4)%len(defSides)]
		calls := []string{"Run", "ParseRun", "ParseRunRun", "ParseOnly", "RunExpr"}
		parts := strings.SplitN(string(data[3:]), "\x00", 3)
		for i, p := range parts {
			c.Steps = append(c.Steps, Step{Call: calls[(int(b2)+i)%len(calls)], Src: p, Flag: b2&16 != 0})
		}
		if fl := checkCase(c, s); fl != nil && s.FuzzReport(fl) {
			t.Fatalf("C01 %s\nobserved: %s\ncase: %s", fl.Signature, fl.Observed, fl.Case)
		}
	})
}
