// Package defsem is the definitional semantics of the documented DiceScript
// core language: a direct interpreter over the generator's AST (gen.Node).
//
// It is the oracle of property C02 ("evaluation agrees with the language's
// definitional semantics") and is written from /repo/docs/GUIDE.md, the
// operator tables of types.go and DESIGN.md §2.2 — with no bytecode, no jump
// offsets, no operand stack and no parser, i.e. none of the things the
// property says might be wrong in the implementation.
//
// Every rule below names its grounding.  "GUIDE" is /repo/docs/GUIDE.md.
// Where the guide is silent the rule is the one the only implementation
// defines ("by code", with the file it was read from); where neither gives a
// rule a reader could rely on, the interpreter refuses to decide and returns
// *Unsupported: the caller discards and counts the case, it is never judged.
package defsem

import (
	"fmt"
	"math"
	"sort"
	"strconv"
	"strings"

	"verif/harness/gen"
)

// Kind of a reference value.  GUIDE "类型": int, float, string, null, array,
// dict, function, computed; native functions and bound methods are what
// built-in names and `obj.method` evaluate to (types.go:31-50).
type Kind int

const (
	KInt Kind = iota
	KFlt
	KStr
	KNull
	KArr
	KDict
	KFunc
	KComp
	KNative
)

func (k Kind) String() string {
	return [...]string{"int", "float", "str", "null", "array", "dict", "function", "computed", "nfunction"}[k]
}

// Value is immutable for scalar kinds; arrays, dicts and computed values are
// references: assignment, argument passing and storing into a container share
// the payload (GUIDE "数组"/"字典" examples mutate through names; by code every
// copy of a VMValue keeps the *ArrayData / *DictData / *ComputedData pointer).
type Value struct {
	K    Kind
	I    int64
	F    float64
	S    string
	Arr  *Array
	Dict *Dict
	Fn   *Func
	Comp *Comp
	Nat  *Native
}

// Array: Unordered marks the result of Dict.keys/values/items of a dict with several
// entries — its element order is unspecified, so only order-insensitive uses
// (len, integer sum/kh/kl, comparison with the VM as a multiset) are decided.
type Array struct {
	List      []*Value
	Unordered bool
}

func (a *Array) orderMatters() bool { return a.Unordered && len(a.List) > 1 }

func needOrder(v *Value, what string) {
	if v.K == KArr && v.Arr.orderMatters() {
		panic(&Unsupported{Why: what + " of an array whose order is unspecified (dict keys/values/items)"})
	}
}

// Dict keys are strings; numeric keys are stringified (GUIDE "字典": "字典的键必须为字符串，
// 实际操作中也允许数字类型，但是会自动转换为字符串").  Iteration order is unspecified.
type Dict struct{ M map[string]*Value }

type Func struct {
	Name   string
	Params []string
	Body   *gen.Node // block
	Src    string    // body text as written, "" when unknown
}

// Comp is a computed value: an expression plus its own persistent attribute
// space (GUIDE "计算类型": "这里的this是指该变量内部的一个空间").
type Comp struct {
	Expr  *gen.Node
	Attrs map[string]*Value
	Src   string // expression text as written, "" when unknown
}

type Native struct {
	Name string // "ceil", "Array.len", …
	Self *Value // bound receiver for methods
}

var (
	nullV = &Value{K: KNull}
)

func Int(i int64) *Value     { return &Value{K: KInt, I: i} }
func Flt(f float64) *Value   { return &Value{K: KFlt, F: f} }
func Str(s string) *Value    { return &Value{K: KStr, S: s} }
func Null() *Value           { return nullV }
func Arr(l []*Value) *Value  { return &Value{K: KArr, Arr: &Array{List: l}} }
func NewDict() *Value        { return &Value{K: KDict, Dict: &Dict{M: map[string]*Value{}}} }
func boolV(b bool) *Value {
	if b {
		return Int(1)
	}
	return Int(0)
}

// Truthy: 0, 0.0, "", null, empty array, empty dict are false; functions are
// true; a computed value is true when its expression is non-empty (always).
// GUIDE "逻辑算符" speaks of "能被转换为 false"; the table is AsBool (types.go:509-533).
func (v *Value) Truthy() bool {
	switch v.K {
	case KInt:
		return v.I != 0
	case KFlt:
		return v.F != 0
	case KStr:
		return v.S != ""
	case KNull:
		return false
	case KArr:
		return len(v.Arr.List) != 0
	case KDict:
		return len(v.Dict.M) != 0
	}
	return true
}

// TypeId is the number typeId() reports (types.go:35-45).
func (v *Value) TypeId() int64 {
	switch v.K {
	case KInt:
		return 0
	case KFlt:
		return 1
	case KStr:
		return 2
	case KNull:
		return 4
	case KComp:
		return 5
	case KArr:
		return 6
	case KDict:
		return 7
	case KFunc:
		return 8
	}
	return 9
}

// ---------------------------------------------------------------------------
// string forms (types.go:539-633): ints decimal; floats shortest 'f' form;
// strings verbatim (repr: wrapped in ' without escaping); null "null"; arrays
// "[a, b]" with the repr of the elements; dicts "{'k': v, …}" in an unspecified
// order (so a dict with two or more entries has no defined string form);
// functions "function name", natives "nfunction name".

type strState struct {
	onPath   map[any]bool
	seen     map[any]bool
	onShared func() // called when a container is met a second time outside a cycle
}

// ToStr returns the toStr() form and "" — or a reason why the form is not defined.
// onShared (may be nil) is told when a container is reachable twice without a
// cycle; the interpreter refuses such texts (undocumented), a nil callback
// writes the container twice.
func ToStr(v *Value, onShared func()) (string, string) {
	st := &strState{onPath: map[any]bool{}, seen: map[any]bool{}, onShared: onShared}
	var sb strings.Builder
	why := st.str(&sb, v, false)
	return sb.String(), why
}

// ToRepr returns the repr() form.
func ToRepr(v *Value, onShared func()) (string, string) {
	st := &strState{onPath: map[any]bool{}, seen: map[any]bool{}, onShared: onShared}
	var sb strings.Builder
	why := st.str(&sb, v, true)
	return sb.String(), why
}

func (st *strState) str(sb *strings.Builder, v *Value, repr bool) string {
	switch v.K {
	case KInt:
		sb.WriteString(strconv.FormatInt(v.I, 10))
	case KFlt:
		sb.WriteString(strconv.FormatFloat(v.F, 'f', -1, 64))
	case KStr:
		if repr {
			sb.WriteString("'" + v.S + "'")
		} else {
			sb.WriteString(v.S)
		}
	case KNull:
		sb.WriteString("null")
	case KArr:
		if st.onPath[v.Arr] {
			return "string form of a self-containing array"
		}
		if st.seen[v.Arr] && st.onShared != nil {
			st.onShared()
		}
		if v.Arr.orderMatters() {
			return "string form of an array whose order is unspecified"
		}
		st.onPath[v.Arr] = true
		st.seen[v.Arr] = true
		sb.WriteString("[")
		for i, e := range v.Arr.List {
			if i > 0 {
				sb.WriteString(", ")
			}
			if why := st.str(sb, e, true); why != "" {
				return why
			}
		}
		sb.WriteString("]")
		delete(st.onPath, v.Arr)
	case KDict:
		if st.onPath[v.Dict] {
			return "string form of a self-containing dict"
		}
		if st.seen[v.Dict] && st.onShared != nil {
			st.onShared()
		}
		st.onPath[v.Dict] = true
		st.seen[v.Dict] = true
		sb.WriteString("{")
		// entries in ascending key order (by code since fix 6269628: a dict's text is a function of its contents)
		keys := make([]string, 0, len(v.Dict.M))
		for k := range v.Dict.M {
			keys = append(keys, k)
		}
		sort.Strings(keys)
		for i, k := range keys {
			if i > 0 {
				sb.WriteString(", ")
			}
			sb.WriteString("'" + k + "': ")
			if why := st.str(sb, v.Dict.M[k], true); why != "" {
				return why
			}
		}
		sb.WriteString("}")
		delete(st.onPath, v.Dict)
	case KFunc:
		sb.WriteString("function " + v.Fn.Name)
	case KNative:
		sb.WriteString("nfunction " + v.Nat.Name)
	case KComp:
		return "string form of a computed value (its source text)"
	}
	return ""
}

// DictKey: str, int and float keys are accepted and stringified, anything else
// is an error (GUIDE "字典"; AsDictKey types.go:1636).
func DictKey(v *Value) (string, bool) {
	switch v.K {
	case KStr:
		return v.S, true
	case KInt:
		return strconv.FormatInt(v.I, 10), true
	case KFlt:
		return strconv.FormatFloat(v.F, 'f', -1, 64), true
	}
	return "", false
}

// ---------------------------------------------------------------------------
// canonical rendering for reports — same shape as vmx.Repr so that observed and
// expected texts can be compared by eye.

func Repr(v *Value) string {
	var sb strings.Builder
	reprInto(&sb, v, 0, map[any]bool{})
	return sb.String()
}

func reprInto(sb *strings.Builder, v *Value, depth int, seen map[any]bool) {
	if v == nil {
		sb.WriteString("<nil>")
		return
	}
	if depth > 40 {
		sb.WriteString("<deep>")
		return
	}
	switch v.K {
	case KInt:
		sb.WriteString("i" + strconv.FormatInt(v.I, 10))
	case KFlt:
		sb.WriteString("f" + strconv.FormatFloat(v.F, 'g', -1, 64))
	case KStr:
		sb.WriteString("s" + strconv.Quote(v.S))
	case KNull:
		sb.WriteString("null")
	case KArr:
		if seen[v.Arr] {
			sb.WriteString("[...]")
			return
		}
		seen[v.Arr] = true
		sb.WriteString("[")
		for i, e := range v.Arr.List {
			if i > 0 {
				sb.WriteString(",")
			}
			reprInto(sb, e, depth+1, seen)
		}
		sb.WriteString("]")
		delete(seen, v.Arr)
	case KDict:
		if seen[v.Dict] {
			sb.WriteString("{...}")
			return
		}
		seen[v.Dict] = true
		sb.WriteString(mapRepr(v.Dict.M, depth, seen))
		delete(seen, v.Dict)
	case KComp:
		src := v.Comp.Src
		if src == "" {
			src = gen.Print(v.Comp.Expr)
		}
		sb.WriteString("&(" + src + ")")
		if len(v.Comp.Attrs) > 0 {
			sb.WriteString(mapRepr(v.Comp.Attrs, depth, seen))
		}
	case KFunc:
		src := v.Fn.Src
		if src == "" {
			src = "…"
		}
		fmt.Fprintf(sb, "func %s(%s){%s}", v.Fn.Name, strings.Join(v.Fn.Params, ","), src)
	case KNative:
		sb.WriteString("nfunc " + v.Nat.Name)
		if v.Nat.Self != nil {
			sb.WriteString(" bound")
		}
	}
}

func mapRepr(m map[string]*Value, depth int, seen map[any]bool) string {
	keys := make([]string, 0, len(m))
	for k := range m {
		keys = append(keys, k)
	}
	sort.Strings(keys)
	var sb strings.Builder
	sb.WriteString("{")
	for i, k := range keys {
		if i > 0 {
			sb.WriteString(",")
		}
		sb.WriteString(strconv.Quote(k) + ":")
		reprInto(&sb, m[k], depth+1, seen)
	}
	sb.WriteString("}")
	return sb.String()
}

// StoreRepr renders a variable store canonically (sorted by name).
func StoreRepr(m map[string]*Value) string {
	return mapRepr(m, 0, map[any]bool{})
}

func finite(f float64) bool { return !math.IsNaN(f) && !math.IsInf(f, 0) }
