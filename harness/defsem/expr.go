package defsem

import (
	"math"
	"strconv"
	"strings"

	"verif/harness/gen"
)

// eval evaluates an expression.  Evaluation order is left to right: operands
// before the operator, callee before arguments before the call, container
// before index, condition before the chosen arm (GUIDE "逻辑算符" for the
// short-circuit of ||; the rest is the written order).
func (in *Interp) eval(a *act, n *gen.Node) *Value {
	in.tick()
	switch n.K {
	case "int":
		return Int(n.I)
	case "flt":
		// GUIDE "数字": 3.14159, .0314159
		f, err := strconv.ParseFloat(n.S, 64)
		if err != nil {
			refuse("float literal %q", n.S)
		}
		return Flt(f)
	case "str":
		return Str(n.S)
	case "true":
		// GUIDE "数字": true的值为整数1，false的值为整数0
		return Int(1)
	case "false":
		return Int(0)
	case "null":
		return Null()
	case "tmpl":
		return in.evalTmpl(a, n)
	case "arr":
		// GUIDE "数组": [1,2,3,4,5]
		l := make([]*Value, 0, len(n.Kids))
		for _, k := range n.Kids {
			l = append(l, in.eval(a, k))
		}
		return Arr(l)
	case "range":
		return in.evalRange(in.eval(a, n.Kids[0]), in.eval(a, n.Kids[1]))
	case "dict":
		// GUIDE "字典": { 'v1': 1, 'v2': '测试', 1: 'test' }; a bare identifier key is a
		// variable read whose value is the key (roll.peg dict_item / value_id_without_colon)
		type kv struct{ k, v *Value }
		var items []kv
		for i := 0; i+1 < len(n.Kids); i += 2 {
			k := in.eval(a, n.Kids[i])
			v := in.eval(a, n.Kids[i+1])
			items = append(items, kv{k, v})
		}
		d := NewDict()
		for _, it := range items {
			key, ok := DictKey(it.k)
			if !ok {
				fail("dict key must be str or number, not %s", it.k.K)
			}
			d.Dict.M[key] = it.v
		}
		return d
	case "var":
		return in.lookup(a, n.S, false)
	case "raw":
		// &name: read without evaluating (GUIDE loadRaw / "&a.x")
		return in.lookup(a, n.S, true)
	case "this":
		return in.lookupLocal(a, n.S)
	case "idx":
		obj := in.eval(a, n.Kids[0])
		idx := in.eval(a, n.Kids[1])
		return in.getItem(obj, idx)
	case "slice":
		obj := in.eval(a, n.Kids[0])
		lo := in.evalOpt(a, n.Kids[1])
		hi := in.evalOpt(a, n.Kids[2])
		return in.getSlice(obj, lo, hi)
	case "attr":
		obj := in.eval(a, n.Kids[0])
		return in.getAttr(obj, n.S)
	case "call":
		fn := in.eval(a, n.Kids[0])
		args := in.evalArgs(a, n.Kids[1:])
		return in.invoke(a, fn, args)
	case "mcall":
		obj := in.eval(a, n.Kids[0])
		fn := in.getAttr(obj, n.S)
		args := in.evalArgs(a, n.Kids[1:])
		return in.invoke(a, fn, args)
	case "neg", "pos":
		// GUIDE "数字": -5678, -12.34; other types: error (OpNegation/OpPositive types.go:1055-1073)
		v := in.eval(a, n.Kids[0])
		switch v.K {
		case KInt:
			if n.K == "neg" {
				return Int(-v.I)
			}
			return Int(v.I)
		case KFlt:
			if n.K == "neg" {
				return Flt(-v.F)
			}
			return Flt(v.F)
		}
		fail("unary %s on %s", n.K, v.K)
	case "bin":
		return in.evalBin(a, n)
	case "tern":
		// GUIDE "三目运算符": cond ? a : b — only the chosen arm is evaluated
		if in.eval(a, n.Kids[0]).Truthy() {
			return in.eval(a, n.Kids[1])
		}
		return in.eval(a, n.Kids[2])
	case "chain":
		// GUIDE "多重条件运算符": c1 ? v1, c2 ? v2 … first true arm; '' when none is
		// (roll.peg exprTernaryType2 pushes "" as the default)
		for i := 0; i+1 < len(n.Kids); i += 2 {
			if in.eval(a, n.Kids[i]).Truthy() {
				return in.eval(a, n.Kids[i+1])
			}
		}
		return Str("")
	case "set":
		// GUIDE "变量"/"换行规则": `a = 2;a` — an assignment is an expression whose value
		// is the assigned value ("输出2，即赋值后的a值")
		v := in.eval(a, n.Kids[0])
		a.vars[n.S] = v
		return v
	case "setc":
		// GUIDE "计算类型": &砍一刀 = D20 + 4 stores the expression
		// every execution creates a new computed value with an empty attribute space
		c := &Value{K: KComp, Comp: &Comp{Expr: n.Kids[0], Attrs: map[string]*Value{}}}
		if in.SrcOf != nil {
			c.Comp.Src = in.SrcOf(n)
		}
		for _, prev := range in.compRuns[n] {
			if len(prev.Attrs) > 0 {
				in.corner(CornerCompRedef, "computed definition executed again after an earlier instance received attributes")
				break
			}
		}
		in.compRuns[n] = append(in.compRuns[n], c.Comp)
		in.compDef[c.Comp] = n
		a.vars[n.S] = c
		return c
	case "setidx", "setattr", "setca", "setslice", "setthis":
		return in.assign(a, n)
	case "dice":
		return in.evalDice(a, n)
	case "fate":
		// GUIDE "f 命运骰": 骰4次，每骰结果可能是-1 0 1
		if !in.Cfg.Fate {
			refuse("fate die while the fate syntax is disabled")
		}
		switch in.Cfg.Mode {
		case "min":
			return Int(-4)
		case "max":
			return Int(4)
		}
		refuse("random fate die")
	case "coc", "wod", "dc":
		refuse("%s dice are not modelled", n.K)
	case "none":
		refuse("missing operand")
	}
	refuse("node kind %q as expression", n.K)
	return nil
}

func (in *Interp) evalArgs(a *act, kids []*gen.Node) []*Value {
	args := make([]*Value, 0, len(kids))
	for _, k := range kids {
		args = append(args, in.eval(a, k))
	}
	return args
}

// evalTmpl: concatenation of the literal parts and toStr of each hole; a hole
// is a statement list whose value is that of its last expression, '' when
// there is none (GUIDE "字符串": "{} / {% %} 段落会返回里面最后一个表达式的值，如果没有值会自动补空字符串").
func (in *Interp) evalTmpl(a *act, n *gen.Node) *Value {
	var sb strings.Builder
	for _, k := range n.Kids {
		switch k.K {
		case "part":
			sb.WriteString(k.S)
		case "hole":
			a.hole++
			res := in.execList(a, k.Kids)
			a.hole--
			if res.c != ctlNone {
				if res.c == ctlReturn {
					refuse("return leaving a template hole")
				}
				panic(&holeJump{c: res.c, ret: res.ret})
			}
			v := res.last
			if v == nil {
				v = Str("")
			}
			s, why := ToStr(v, in.onSharedText)
			if why != "" {
				refuse("%s", why)
			}
			sb.WriteString(s)
		default:
			refuse("template part kind %q", k.K)
		}
	}
	return Str(sb.String())
}

// evalRange: [a..b] inclusive, either direction, at most 512 elements
// (GUIDE "数组": [1..5] / [5..1]; the limit by code rollvm.go typePushRange).
func (in *Interp) evalRange(lo, hi *Value) *Value {
	if lo.K != KInt || hi.K != KInt {
		fail("range bounds must be int")
	}
	step := int64(1)
	span := uint64(hi.I) - uint64(lo.I)
	if hi.I < lo.I {
		step, span = -1, uint64(lo.I)-uint64(hi.I)
	}
	if span >= 512 {
		fail("range too long")
	}
	l := make([]*Value, 0, span+1)
	for i := lo.I; ; i += step {
		l = append(l, Int(i))
		if i == hi.I {
			break
		}
	}
	return Arr(l)
}

// getItem (GUIDE "数组" a[0], a[3][1]; "字典" d['v1']): arrays need an int index,
// negative counts from the end, out of range is an error; dicts give the value
// or null; strings index by character like arrays (by code ItemGet
// types.go:1178; an index outside the string is an error as for arrays).
func (in *Interp) getItem(obj, idx *Value) *Value {
	switch obj.K {
	case KArr:
		if idx.K != KInt {
			fail("array index must be int")
		}
		i, ok := realIndex(idx.I, int64(len(obj.Arr.List)))
		if !ok {
			fail("index out of range")
		}
		needOrder(obj, "index")
		return obj.Arr.List[i]
	case KDict:
		k, ok := DictKey(idx)
		if !ok {
			fail("dict key must be str or number")
		}
		if v, ok := obj.Dict.M[k]; ok {
			return v
		}
		return Null()
	case KStr:
		if idx.K != KInt {
			fail("string index must be int")
		}
		r := []rune(obj.S)
		i, ok := realIndex(idx.I, int64(len(r)))
		if !ok {
			in.Events[CornerStrIndex] = true
			fail("string index out of range")
		}
		return Str(string(r[i : i+1]))
	}
	fail("cannot index %s", obj.K)
	return nil
}

// getSlice (GUIDE "字符串": '12345'[2:4] → 34, "写法同python，暂不支持步长"; "数组":
// [1,2,3,4,5][2:4] → [3,4]): omitted (or null) bounds default to the ends,
// bounds clamp, a reversed range is empty.
func (in *Interp) getSlice(obj, lo, hi *Value) *Value {
	var n int64
	switch obj.K {
	case KArr:
		n = int64(len(obj.Arr.List))
	case KStr:
		n = int64(len([]rune(obj.S)))
	default:
		fail("cannot slice %s", obj.K)
	}
	if lo.K == KNull {
		lo = Int(0)
	}
	if hi.K == KNull {
		hi = Int(n)
	}
	if lo.K != KInt || hi.K != KInt {
		fail("slice bounds must be int")
	}
	x, y := clampIndex(lo.I, n), clampIndex(hi.I, n)
	if x > y {
		x = y
	}
	needOrder(obj, "slice")
	if obj.K == KStr {
		return Str(string([]rune(obj.S)[x:y]))
	}
	return Arr(append([]*Value(nil), obj.Arr.List[x:y]...))
}

var arrayMethods = map[string]bool{"kh": true, "kl": true, "sum": true, "len": true, "shuffle": true, "rand": true,
	"randSize": true, "pop": true, "shift": true, "push": true}
var dictMethods = map[string]bool{"keys": true, "values": true, "items": true, "len": true}

// getAttr (GUIDE "字典": d.v1; "数组函数": [1,2,3].sum()): a dict entry wins over a
// method of the same name, a missing dict entry is null; a computed value (read
// raw) gives its attribute or null; numbers, strings and null have no
// attributes (error); anything else unknown is null (by code AttrGet types.go:1098).
func (in *Interp) getAttr(obj *Value, name string) *Value {
	switch obj.K {
	case KComp:
		if v, ok := obj.Comp.Attrs[name]; ok {
			return v
		}
		return Null()
	case KDict:
		if v, ok := obj.Dict.M[name]; ok {
			return v
		}
		if _, has := obj.Dict.M["__proto__"]; has {
			refuse("dict with a __proto__ entry")
		}
		if dictMethods[name] {
			return &Value{K: KNative, Nat: &Native{Name: "Dict." + name, Self: obj}}
		}
		return Null()
	case KArr:
		if arrayMethods[name] {
			return &Value{K: KNative, Nat: &Native{Name: "Array." + name, Self: obj}}
		}
		return Null()
	case KInt, KFlt, KStr, KNull:
		fail("%s has no attributes", obj.K)
	}
	return Null()
}

func (in *Interp) invoke(a *act, fn *Value, args []*Value) *Value {
	if in.Trace != nil {
		if fn.K == KNative {
			in.Trace("call:" + fn.Nat.Name)
		} else {
			in.Trace("call:" + fn.K.String())
		}
	}
	switch fn.K {
	case KFunc:
		return in.callFunc(a, fn.Fn, args)
	case KNative:
		return in.callNative(a, fn.Nat, args)
	}
	fail("%s is not callable", fn.K)
	return nil
}

// ---------------------------------------------------------------------------
// binary operators

func (in *Interp) evalBin(a *act, n *gen.Node) *Value {
	op := n.S
	switch op {
	case "||":
		// GUIDE "逻辑算符": 如果 expr1 能被转换为 true，那么返回 expr1；否则，返回expr2 — and
		// "只要有一个条件满足，后面的就不会执行"
		l := in.eval(a, n.Kids[0])
		if l.Truthy() {
			return l
		}
		return in.eval(a, n.Kids[1])
	case "&&":
		// GUIDE: 如果 expr1 能被转换为 false，那么返回 expr1；否则，返回expr2.  Both operands are
		// evaluated (by code typeLogicAnd; the guide does not promise short-circuit for &&).
		l := in.eval(a, n.Kids[0])
		r := in.eval(a, n.Kids[1])
		if !l.Truthy() {
			return l
		}
		return r
	}
	l := in.eval(a, n.Kids[0])
	r := in.eval(a, n.Kids[1])
	return in.binop(op, l, r)
}

func isNum(v *Value) bool { return v.K == KInt || v.K == KFlt }

func asF(v *Value) float64 {
	if v.K == KInt {
		return float64(v.I)
	}
	return v.F
}

func fltResult(f float64) *Value {
	if !finite(f) {
		refuse("non-finite float result")
	}
	return Flt(f)
}

// binop: GUIDE "数字": "任何int与float运算的操作都会使得结果成为float"; "字符串可以使用加号连接";
// "数组": [1]*2+[2]*3; operator × type table by code types.go:728-1053 — every
// pair not listed there is an error.
func (in *Interp) binop(op string, l, r *Value) *Value {
	if in.Trace != nil {
		in.Trace("op:" + op + ":" + l.K.String() + "," + r.K.String())
	}
	switch op {
	case "+":
		switch {
		case l.K == KInt && r.K == KInt:
			return Int(l.I + r.I)
		case isNum(l) && isNum(r):
			return fltResult(asF(l) + asF(r))
		case l.K == KStr && r.K == KStr:
			return Str(l.S + r.S)
		case l.K == KArr && r.K == KArr:
			if len(l.Arr.List)+len(r.Arr.List) > 512 {
				fail("array too long")
			}
			out := append([]*Value(nil), l.Arr.List...)
			res := Arr(append(out, r.Arr.List...))
			res.Arr.Unordered = l.Arr.orderMatters() || r.Arr.orderMatters()
			return res
		}
	case "-":
		switch {
		case l.K == KInt && r.K == KInt:
			return Int(l.I - r.I)
		case isNum(l) && isNum(r):
			return fltResult(asF(l) - asF(r))
		}
	case "*":
		switch {
		case l.K == KInt && r.K == KInt:
			return Int(l.I * r.I)
		case isNum(l) && isNum(r):
			return fltResult(asF(l) * asF(r))
		case l.K == KArr && r.K == KInt:
			return repeat(l, r.I)
		case l.K == KInt && r.K == KArr:
			return repeat(r, l.I)
		}
	case "/":
		if isNum(l) && isNum(r) {
			if (r.K == KInt && r.I == 0) || (r.K == KFlt && r.F == 0) {
				if in.Cfg.IgnoreDiv0 {
					return l // by code OpDivide: the dividend is returned
				}
				fail("division by zero")
			}
			if l.K == KInt && r.K == KInt {
				return Int(l.I / r.I) // truncating
			}
			return fltResult(asF(l) / asF(r))
		}
	case "%":
		if l.K == KInt && r.K == KInt {
			if r.I == 0 {
				// by code OpModulus: IgnoreDiv0 ("当div0时暂不报错") covers division only, the remainder by zero is
				// an error under every configuration (no document says otherwise)
				fail("modulo by zero")
			}
			return Int(l.I % r.I)
		}
	case "**", "^":
		if isNum(l) && isNum(r) {
			f := math.Pow(asF(l), asF(r))
			if l.K == KInt && r.K == KInt {
				// GUIDE "乘方": 2 ** 3 即2的3次方; int operands give an int.  Results that are
				// not integers, or too large for the float round trip, are implementation-defined.
				if !finite(f) || math.Abs(f) >= (1<<53) || f != math.Trunc(f) {
					refuse("integer power outside the exactly representable range")
				}
				return Int(int64(f))
			}
			return fltResult(f)
		}
	case "??":
		// GUIDE "空值合并算符": 当 expr1 不为 null 时取 expr1，为空时取 expr2
		if l.K == KNull {
			return r
		}
		return l
	case "<", "<=", ">=", ">":
		if isNum(l) && isNum(r) {
			if l.K == KInt && r.K == KInt {
				switch op {
				case "<":
					return boolV(l.I < r.I)
				case "<=":
					return boolV(l.I <= r.I)
				case ">=":
					return boolV(l.I >= r.I)
				}
				return boolV(l.I > r.I)
			}
			x, y := asF(l), asF(r)
			switch op {
			case "<":
				return boolV(x < y)
			case "<=":
				return boolV(x <= y)
			case ">=":
				return boolV(x >= y)
			}
			return boolV(x > y)
		}
	case "==":
		return boolV(in.equal(l, r, 0))
	case "!=":
		return boolV(!in.equal(l, r, 0))
	case "&":
		if l.K == KInt && r.K == KInt {
			return Int(l.I & r.I)
		}
	case "|":
		if l.K == KInt && r.K == KInt {
			return Int(l.I | r.I)
		}
	default:
		refuse("operator %q", op)
	}
	fail("operator %s on %s, %s", op, l.K, r.K)
	return nil
}

// repeat: [1] * 10 (GUIDE "数组"), at most 512 elements; a negative count is an
// error (by code ArrayRepeatTimesEx types.go:1424).
func repeat(arr *Value, times int64) *Value {
	if times < 0 {
		fail("array repeated a negative number of times")
	}
	n := int64(len(arr.Arr.List))
	if n == 0 {
		return Arr(nil)
	}
	if times > 512 {
		fail("array too long")
	}
	if n*times > 512 {
		fail("array too long")
	}
	needOrder(arr, "repetition")
	out := make([]*Value, 0, n*times)
	for i := int64(0); i < times; i++ {
		out = append(out, arr.Arr.List...)
	}
	return Arr(out)
}

// equal: structural; int and float compare numerically; different types are
// unequal; dicts are equal when they have the same keys with equal values
// (GUIDE "逻辑算符" ==; by code ValueEqual types.go:1644-1710).
func (in *Interp) equal(a, b *Value, depth int) bool {
	return in.equalRec(a, b, map[[2]any]int{})
}

// equalRec: state 1 = this pair of containers is being compared further up (the values
// contain themselves: refused, the implementation recurses without end), 2 = found equal.
func (in *Interp) equalRec(a, b *Value, st map[[2]any]int) bool {
	in.tick()
	if a.K != b.K {
		if a.K == KInt && b.K == KFlt {
			return float64(a.I) == b.F
		}
		if a.K == KFlt && b.K == KInt {
			return a.F == float64(b.I)
		}
		return false
	}
	switch a.K {
	case KInt:
		return a.I == b.I
	case KFlt:
		return a.F == b.F
	case KStr:
		return a.S == b.S
	case KNull:
		return true
	case KArr:
		if a.Arr == b.Arr {
			return true
		}
		if len(a.Arr.List) != len(b.Arr.List) {
			return false
		}
		needOrder(a, "equality")
		needOrder(b, "equality")
		k := [2]any{a.Arr, b.Arr}
		switch st[k] {
		case 1:
			refuse("equality of self-containing values")
		case 2:
			return true
		}
		st[k] = 1
		for i := range a.Arr.List {
			if !in.equalRec(a.Arr.List[i], b.Arr.List[i], st) {
				delete(st, k)
				return false
			}
		}
		st[k] = 2
		return true
	case KDict:
		if a.Dict == b.Dict {
			return true
		}
		if len(a.Dict.M) != len(b.Dict.M) {
			return false
		}
		k := [2]any{a.Dict, b.Dict}
		switch st[k] {
		case 1:
			refuse("equality of self-containing values")
		case 2:
			return true
		}
		st[k] = 1
		// equality has no side effects, so the answer does not depend on the order of the keys
		for key, v := range a.Dict.M {
			w, ok := b.Dict.M[key]
			if !ok || !in.equalRec(v, w, st) {
				delete(st, k)
				return false
			}
		}
		st[k] = 2
		return true
	case KFunc:
		if a.Fn == b.Fn {
			return true
		}
		// by code two function values are equal when they come from the same `func`
		// statement (one shared definition object), which no document promises
		refuse("equality of two function values")
	case KComp:
		if a.Comp == b.Comp {
			return true
		}
		refuse("equality of two computed values (compares source text)")
	case KNative:
		return a.Nat.Name == b.Nat.Name
	}
	return false
}
