package defsem

import (
	"testing"

	"verif/harness/gen"
)

// The GUIDE's own examples, written as ASTs, must evaluate to the values the guide states.
// (A self-check of the reference; the property check lives in harness/c02.)

func run(t *testing.T, in *Interp, p *gen.Node) *Value {
	t.Helper()
	v, err := in.Run(p)
	if err != nil {
		t.Fatalf("%s: %v", gen.Print(p), err)
	}
	return v
}

func TestGuideExamples(t *testing.T) {
	v := gen.Var
	i := gen.Int
	type ex struct {
		p    *gen.Node
		want string
	}
	fib := &gen.Node{K: "func", S: "fib", Names: []string{"n"}, Kids: []*gen.Node{gen.Block(
		gen.N("chain",
			gen.Bin("==", &gen.Node{K: "this", S: "n"}, i(0)), i(0),
			gen.Bin("==", &gen.Node{K: "this", S: "n"}, i(1)), i(1),
			gen.Bin("==", &gen.Node{K: "this", S: "n"}, i(2)), i(1),
			i(1), gen.Bin("+", gen.Call(v("fib"), gen.Bin("-", &gen.Node{K: "this", S: "n"}, i(1))), gen.Call(v("fib"), gen.Bin("-", &gen.Node{K: "this", S: "n"}, i(2))))),
	)}}
	exs := []ex{
		// 变量: 函数中的变量有单独的变量空间 → [10, 2]
		{gen.Prog(gen.Set("x", i(2)),
			&gen.Node{K: "func", S: "g1", Kids: []*gen.Node{gen.Block(gen.Set("x", i(10)), gen.N("ret", v("x")))}},
			gen.N("arr", gen.Call(v("g1")), v("x"))), "[i10,i2]"},
		// 数组: a=[1]*2+[2]*3 → [1, 1, 2, 2, 2]
		{gen.Prog(gen.Bin("+", gen.Bin("*", gen.N("arr", i(1)), i(2)), gen.Bin("*", gen.N("arr", i(2)), i(3)))), "[i1,i1,i2,i2,i2]"},
		// 分片: [1,2,3,4,5][2:4] → [3,4];  '12345'[2:4] → 34
		{gen.Prog(gen.N("slice", gen.N("arr", i(1), i(2), i(3), i(4), i(5)), i(2), i(4))), "[i3,i4]"},
		{gen.Prog(gen.N("slice", gen.Str("12345", 0), i(2), i(4))), `s"34"`},
		// a = [1,2,3]; a[2:3] = [4,5,6] → [1, 2, 4, 5, 6]
		{gen.Prog(gen.Set("y", gen.N("arr", i(1), i(2), i(3))), gen.N("setslice", v("y"), i(2), i(3), gen.N("arr", i(4), i(5), i(6))), v("y")), "[i1,i2,i4,i5,i6]"},
		// [1,2,3].kl(2) → 3; .kh(2) → 5; .sum() → 6; [5..1]
		{gen.Prog(gen.MCall(gen.N("arr", i(1), i(2), i(3)), "kl", i(2))), "i3"},
		{gen.Prog(gen.MCall(gen.N("arr", i(1), i(2), i(3)), "kh", i(2))), "i5"},
		{gen.Prog(gen.MCall(gen.N("arr", i(1), i(2), i(3)), "sum")), "i6"},
		{gen.Prog(gen.N("range", i(5), i(1))), "[i5,i4,i3,i2,i1]"},
		// 字典: d.v1, d['v1'], 数字键转字符串
		{gen.Prog(gen.Set("z", gen.N("dict", gen.Str("v1", 0), i(1), i(1), gen.Str("test", 0))), gen.N("arr", gen.NS("attr", "v1", v("z")), gen.N("idx", v("z"), gen.Str("1", 0)))), `[i1,s"test"]`},
		// 函数: test(11) → 12;  fib(11) → 89
		{gen.Prog(&gen.Node{K: "func", S: "test", Names: []string{"n"}, Kids: []*gen.Node{gen.Block(gen.N("ret", gen.Bin("+", v("n"), i(1))))}}, gen.Call(v("test"), i(11))), "i12"},
		{gen.Prog(fib, gen.Call(v("fib"), i(11))), "i89"},
		// 计算类型: &a = this.x + 1; &a.x = 5; a → 6
		{gen.Prog(&gen.Node{K: "setc", S: "w", Kids: []*gen.Node{gen.Bin("+", &gen.Node{K: "this", S: "x"}, i(1))}},
			&gen.Node{K: "setca", S: "w", Names: []string{"x"}, Kids: []*gen.Node{i(5)}}, v("w")), "i6"},
		// 逻辑算符: '' || 'OK' || a.push(4) does not push
		{gen.Prog(gen.Set("u", gen.N("arr", i(1), i(2), i(3))),
			gen.N("if", gen.Bin("||", gen.Bin("||", gen.Str("", 0), gen.Str("OK", 0)), gen.MCall(v("u"), "push", i(4))), gen.Block(), gen.None()),
			v("u")), "[i1,i2,i3]"},
		// 空值合并: 0 ?? 1 为 0; null ?? 1 为 1
		{gen.Prog(gen.N("arr", gen.Bin("??", i(0), i(1)), gen.Bin("??", gen.N("null"), i(1)))), "[i0,i1]"},
		// 三目 / 多重条件
		{gen.Prog(gen.Set("s", i(55)), gen.N("chain", gen.Bin(">=", v("s"), i(80)), gen.Str("a", 0), gen.Bin(">=", v("s"), i(50)), gen.Str("b", 0), gen.Bin(">=", v("s"), i(0)), gen.Str("c", 0))), `s"b"`},
		// 模板: `Hello, {name1} & {name2}`
		{gen.Prog(gen.Set("n1", gen.Str("Alice", 0)), &gen.Node{K: "tmpl", Q: 2, Kids: []*gen.Node{{K: "part", S: "Hello, "}, {K: "hole", Kids: []*gen.Node{v("n1")}}, {K: "part", S: "!"}}}), `s"Hello, Alice!"`},
		// {% if … %}: 最后一项非语句块内容会被输出
		{gen.Prog(gen.Set("hp", i(1)), &gen.Node{K: "tmpl", Q: 2, Kids: []*gen.Node{{K: "hole", Q: 1, Kids: []*gen.Node{
			gen.N("if", gen.Bin("<", v("hp"), i(3)), gen.Block(gen.Set("st", gen.Str("low", 0))), gen.Block(gen.Set("st", gen.Str("ok", 0)))), v("st")}}}}), `s"low"`},
		// 流程控制
		{gen.Prog(gen.Set("t1", i(0)), gen.N("while", gen.Bin("<", v("t1"), i(10)), gen.Block(gen.Set("t1", gen.Bin("+", v("t1"), i(1))))), v("t1")), "i10"},
		// 2 ** 3 / 2 ^ 3
		{gen.Prog(gen.N("arr", gen.Bin("**", i(2), i(3)), gen.Bin("^", i(2), i(3)))), "[i8,i8]"},
	}
	for _, e := range exs {
		in := New(Config{Mode: "min"})
		got := Repr(run(t, in, e.p))
		if got != e.want {
			t.Errorf("%s = %s, want %s", gen.Print(e.p), got, e.want)
		}
	}
}

func TestStatePersistsAfterError(t *testing.T) {
	in := New(Config{})
	_, err := in.Run(gen.Prog(gen.Set("x", gen.Int(3)), gen.Bin("/", gen.Int(1), gen.Int(0))))
	if _, ok := err.(*ScriptError); !ok {
		t.Fatalf("want script error, got %v", err)
	}
	v := run(t, in, gen.Prog(gen.Var("x")))
	if Repr(v) != "i3" {
		t.Fatalf("x = %s after a failed program", Repr(v))
	}
	if _, err := in.Run(gen.Prog(gen.N("coc"))); err == nil {
		t.Fatal("coc dice must be refused")
	} else if _, ok := err.(*Unsupported); !ok {
		t.Fatalf("want Unsupported, got %v", err)
	}
}
