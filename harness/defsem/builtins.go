package defsem

import (
	"math"
	"sort"
	"strconv"

	"verif/harness/gen"
)

func arity(name string, args []*Value, want int) {
	if len(args) != want {
		fail("%s: arity want %d got %d", name, want, len(args))
	}
}

// toIntExact converts a float the way toInt/floor/ceil/round do; values outside
// the exactly convertible range are implementation-defined.
func toIntExact(f float64) *Value {
	if !finite(f) || math.Abs(f) >= (1<<62) {
		refuse("float to int conversion out of range")
	}
	return Int(int64(f))
}

// callNative: GUIDE "内置函数" and "数组函数"; the registered names are those of
// builtin_functions.go / types_methods.go (the guide's int()/float()/str()/bool()
// spellings are not registered; toInt/toFloat/toStr/toBool are).
func (in *Interp) callNative(a *act, nat *Native, args []*Value) *Value {
	switch nat.Name {
	case "ceil", "floor", "round":
		// GUIDE: 对int/float类型向下取整 / 向上取整 / 四舍五入
		arity(nat.Name, args, 1)
		v := args[0]
		switch v.K {
		case KInt:
			return v
		case KFlt:
			switch nat.Name {
			case "ceil":
				return toIntExact(math.Ceil(v.F))
			case "floor":
				return toIntExact(math.Floor(v.F))
			}
			return toIntExact(math.Round(v.F)) // half away from zero
		}
		fail("%s: number expected", nat.Name)
	case "abs":
		arity(nat.Name, args, 1)
		v := args[0]
		switch v.K {
		case KInt:
			if v.I < 0 {
				return Int(-v.I)
			}
			return v
		case KFlt:
			if v.F < 0 {
				return Flt(-v.F)
			}
			return v
		}
		fail("abs: number expected")
	case "toInt":
		// GUIDE int(num): 转化为int类型 (truncation for floats; base-10 strings by code funcToInt)
		arity(nat.Name, args, 1)
		v := args[0]
		switch v.K {
		case KInt:
			return v
		case KFlt:
			return toIntExact(v.F)
		case KStr:
			i, err := strconv.ParseInt(v.S, 10, 64)
			if err != nil {
				fail("toInt: cannot convert %q", v.S)
			}
			return Int(i)
		}
		fail("toInt: bad type")
	case "toFloat":
		arity(nat.Name, args, 1)
		v := args[0]
		switch v.K {
		case KInt:
			return Flt(float64(v.I))
		case KFlt:
			return v
		case KStr:
			f, err := strconv.ParseFloat(v.S, 64)
			if err != nil {
				fail("toFloat: cannot convert %q", v.S)
			}
			return fltResult(f)
		}
		fail("toFloat: bad type")
	case "toStr":
		arity(nat.Name, args, 1)
		s, why := ToStr(args[0], in.onSharedText)
		if why != "" {
			refuse("%s", why)
		}
		return Str(s)
	case "repr":
		// GUIDE: 将对象转化为供解释器读取的形式
		arity(nat.Name, args, 1)
		s, why := ToRepr(args[0], in.onSharedText)
		if why != "" {
			refuse("%s", why)
		}
		return Str(s)
	case "toBool":
		// GUIDE bool(obj): 将对象二值化，结果为0或1
		arity(nat.Name, args, 1)
		return boolV(args[0].Truthy())
	case "typeId":
		arity(nat.Name, args, 1)
		return Int(args[0].TypeId())
	case "load", "loadRaw":
		// GUIDE: load(name) 读取变量名为name的变量; loadRaw 不会返回计算后结果
		arity(nat.Name, args, 1)
		if args[0].K != KStr {
			fail("%s: name must be a string", nat.Name)
		}
		return in.lookup(a, args[0].S, nat.Name == "loadRaw")
	case "store":
		// by code funcStore: writes the caller's local space, returns the value
		arity(nat.Name, args, 2)
		if args[0].K != KStr {
			fail("store: name must be a string")
		}
		a.vars[args[0].S] = args[1]
		return args[1]
	case "dir":
		arity(nat.Name, args, 1)
		refuse("dir() (order of the method list is unspecified)")

	case "Array.len":
		arity(nat.Name, args, 0)
		return Int(int64(len(nat.Self.Arr.List)))
	case "Array.sum":
		// GUIDE: [1,2,3].sum() 加和 6
		arity(nat.Name, args, 0)
		return in.keepSum(nat.Self.Arr, int64(len(nat.Self.Arr.List)), 0)
	case "Array.kh", "Array.kl":
		// GUIDE: .kl() 取最低的1个值; .kl(2) 取最低的2个值并相加; kh likewise
		n := int64(1)
		if len(args) > 1 {
			fail("%s: arity", nat.Name)
		}
		if len(args) == 1 {
			if args[0].K != KInt {
				fail("%s: count must be an int", nat.Name) // by code funcArrayKeepLow/High
			}
			n = args[0].I
		}
		if n <= 0 {
			refuse("%s with a count <= 0", nat.Name)
		}
		order := 1
		if nat.Name == "Array.kl" {
			order = -1
		}
		return in.keepSum(nat.Self.Arr, n, order)
	case "Array.push":
		// GUIDE: [1,2,3].push(4) 加入一个值 → [1,2,3,4] (the array itself)
		arity(nat.Name, args, 1)
		nat.Self.Arr.List = append(nat.Self.Arr.List, args[0])
		return nat.Self
	case "Array.pop":
		// GUIDE: 取最后方的一个值，并将其弹出数组; an empty array gives null (by code funcArrayPop)
		arity(nat.Name, args, 0)
		needOrder(nat.Self, "pop")
		l := nat.Self.Arr.List
		if len(l) == 0 {
			return Null()
		}
		v := l[len(l)-1]
		nat.Self.Arr.List = l[:len(l)-1]
		return v
	case "Array.shift":
		arity(nat.Name, args, 0)
		needOrder(nat.Self, "shift")
		l := nat.Self.Arr.List
		if len(l) == 0 {
			return Null()
		}
		v := l[0]
		nat.Self.Arr.List = append([]*Value(nil), l[1:]...)
		return v
	case "Array.shuffle", "Array.rand", "Array.randSize":
		refuse("random array method %s", nat.Name)

	case "Dict.len":
		arity(nat.Name, args, 0)
		return Int(int64(len(nat.Self.Dict.M)))
	case "Dict.keys", "Dict.values", "Dict.items":
		// GUIDE does not list the dict methods; they are registered in types_methods.go.  The
		// entries come in ascending key order (by code since fix 6269628).
		arity(nat.Name, args, 0)
		var out []*Value
		keys := make([]string, 0, len(nat.Self.Dict.M))
		for k := range nat.Self.Dict.M {
			keys = append(keys, k)
		}
		sort.Strings(keys)
		for _, k := range keys {
			v := nat.Self.Dict.M[k]
			switch nat.Name {
			case "Dict.keys":
				out = append(out, Str(k))
			case "Dict.values":
				out = append(out, v)
			default:
				out = append(out, Arr([]*Value{Str(k), v}))
			}
		}
		return Arr(out)
	}
	refuse("native function %q", nat.Name)
	return nil
}

// keepSum adds the n highest (order 1), lowest (order -1) or all (order 0)
// elements (GUIDE "数组函数": sum 加和; kl(2) 取最低的2个值并相加).  All-int arrays
// give the int sum; a float element makes the result a float (every element
// converted, added in list / sorted order).  Non-numeric elements are refused
// (the implementation skips them; the guide shows only numbers).
func (in *Interp) keepSum(arr *Array, n int64, order int) *Value {
	list := arr.List
	allInt := true
	for _, e := range list {
		switch e.K {
		case KInt:
		case KFlt:
			allInt = false
		default:
			refuse("sum/kh/kl over a non-numeric element")
		}
	}
	if allInt {
		ints := make([]int64, 0, len(list))
		for _, e := range list {
			ints = append(ints, e.I)
		}
		switch order {
		case 1:
			sort.Slice(ints, func(i, j int) bool { return ints[i] > ints[j] })
		case -1:
			sort.Slice(ints, func(i, j int) bool { return ints[i] < ints[j] })
		}
		var sum int64
		big := false
		for _, x := range ints {
			if x > 1<<53 || x < -(1<<53) {
				big = true
			}
		}
		for i := int64(0); i < n && i < int64(len(ints)); i++ {
			sum += ints[i]
			if sum > 1<<53 || sum < -(1<<53) {
				big = true
			}
		}
		if big {
			in.corner(CornerBigSum, "sum/kh/kl of integers beyond 2^53")
		}
		return Int(sum)
	}
	nums := make([]float64, 0, len(list))
	for _, e := range list {
		if e.K == KInt {
			if e.I > 1<<53 || e.I < -(1<<53) {
				refuse("float sum over an integer beyond 2^53")
			}
			nums = append(nums, float64(e.I))
		} else {
			nums = append(nums, e.F)
		}
	}
	if arr.orderMatters() {
		refuse("float sum over an array whose order is unspecified")
	}
	switch order {
	case 1:
		sort.SliceStable(nums, func(i, j int) bool { return nums[i] > nums[j] })
	case -1:
		sort.SliceStable(nums, func(i, j int) bool { return nums[i] < nums[j] })
	}
	sum := 0.0
	for i := int64(0); i < n && i < int64(len(nums)); i++ {
		sum += nums[i]
	}
	return fltResult(sum)
}

// evalDice: XdY with modifiers, decided only where the outcome is fixed — min
// mode (every die 1), max mode (every die Y) or one-sided dice.  GUIDE "骰子算符":
// kl/q keep lowest, kh/k keep highest, dl/dh drop, min/max clamp each die,
// 优势 = 2dYkh, 劣势 = 2dYkl.  Count and sides must be positive integers, a keep /
// drop count must be positive (errors by code rollvm.go typeDiceSetTimes/typeDice).
func (in *Interp) evalDice(a *act, n *gen.Node) *Value {
	kid := func(i int) *gen.Node {
		if i < len(n.Kids) {
			return n.Kids[i]
		}
		return nil
	}
	times := int64(1)
	if c := kid(0); !c.IsNone() {
		v := in.eval(a, c)
		if v.K != KInt || v.I <= 0 {
			fail("dice count must be a positive int")
		}
		times = v.I
	}
	if kid(1).IsNone() {
		refuse("dice without sides (default sides expression)")
	}
	sides := in.eval(a, kid(1))
	mod := n.S
	keep := int64(1)
	if m := kid(2); !m.IsNone() {
		v := in.eval(a, m)
		if v.K != KInt {
			refuse("non-int keep/drop count")
		}
		keep = v.I
	}
	var lo, hi *int64
	if m := kid(3); !m.IsNone() {
		v := in.eval(a, m)
		if v.K != KInt {
			refuse("non-int min")
		}
		lo = &v.I
	}
	if m := kid(4); !m.IsNone() {
		v := in.eval(a, m)
		if v.K != KInt {
			refuse("non-int max")
		}
		hi = &v.I
	}
	if mod == "adv" || mod == "dis" {
		if !kid(0).IsNone() {
			refuse("优势/劣势 after a dice count")
		}
		times, keep = 2, 1
	}
	if sides.K != KInt || sides.I <= 0 {
		fail("dice sides must be a positive int")
	}
	if mod != "" && keep <= 0 {
		fail("keep/drop count must be positive")
	}
	if times > 5000 {
		refuse("dice count beyond the work budget")
	}
	var die int64
	switch {
	case in.Cfg.Mode == "min" || sides.I == 1:
		die = 1
	case in.Cfg.Mode == "max":
		die = sides.I
	default:
		refuse("random dice")
	}
	if hi != nil && die > *hi {
		die = *hi
	}
	if lo != nil && die < *lo {
		die = *lo
	}
	pick := times
	switch mod {
	case "k", "kh", "q", "kl", "adv", "dis":
		pick = keep
	case "dh", "dl":
		pick = times - keep
	case "":
	default:
		refuse("dice modifier %q", mod)
	}
	if pick < 0 {
		pick = 0
	}
	if pick > times {
		pick = times
	}
	return Int(pick * die)
}
