package defsem

import (
	"fmt"
	"math"
	"sort"
	"strings"

	ds "github.com/sealdice/dicescript"
)

// EqualVM compares a reference value with a VM value through the public
// accessors only (DESIGN §2.3): ints and strings exactly, floats by bit
// pattern, arrays element-wise, dicts as key→value maps (never through
// ToString), functions by name / parameters / body text, computed values by
// expression text and attribute map, natives by name and boundness.
func EqualVM(ref *Value, got *ds.VMValue) (bool, string) {
	return equalVM(ref, got, "", 0, visited{})
}

// visited holds the (reference container, VM container) pairs already under comparison or
// compared: a pair met again is taken as equal (shared and self-containing values would
// otherwise be walked exponentially often or for ever).
type visited map[[2]any]bool

func (v visited) seen(ref, got any) bool {
	k := [2]any{ref, got}
	if v[k] {
		return true
	}
	v[k] = true
	return false
}

func equalVM(ref *Value, got *ds.VMValue, path string, depth int, vis visited) (bool, string) {
	if path == "" {
		path = "value"
	}
	if got == nil {
		return false, path + ": VM value is nil"
	}
	if ref == nil {
		return false, path + ": reference value is nil"
	}
	if depth > 200 {
		return true, "" // absurdly deep: stop
	}
	if got.TypeId != ds.VMValueType(ref.TypeId()) {
		return false, fmt.Sprintf("%s: type %d, want %s", path, got.TypeId, ref.K)
	}
	switch ref.K {
	case KInt:
		i, ok := got.ReadInt()
		if !ok || int64(i) != ref.I {
			return false, fmt.Sprintf("%s: int %d, want %d", path, i, ref.I)
		}
	case KFlt:
		f, ok := got.ReadFloat()
		if !ok || math.Float64bits(f) != math.Float64bits(ref.F) {
			return false, fmt.Sprintf("%s: float %v (%#x), want %v (%#x)", path, f, math.Float64bits(f), ref.F, math.Float64bits(ref.F))
		}
	case KStr:
		s, ok := got.ReadString()
		if !ok || s != ref.S {
			return false, fmt.Sprintf("%s: string %q, want %q", path, s, ref.S)
		}
	case KNull:
	case KArr:
		ad, ok := got.ReadArray()
		if !ok || ad == nil {
			return false, path + ": unreadable array"
		}
		if len(ad.List) != len(ref.Arr.List) {
			return false, fmt.Sprintf("%s: array length %d, want %d", path, len(ad.List), len(ref.Arr.List))
		}
		if vis.seen(ref.Arr, ad) {
			return true, ""
		}
		if ref.Arr.orderMatters() {
			// order unspecified: every reference element must match a distinct VM element
			used := make([]bool, len(ad.List))
			for i, e := range ref.Arr.List {
				found := false
				for j, g := range ad.List {
					if used[j] {
						continue
					}
					if ok, _ := equalVM(e, g, path, depth+1, visited{}); ok {
						used[j], found = true, true
						break
					}
				}
				if !found {
					return false, fmt.Sprintf("%s: array (any order) lacks element %d = %s", path, i, Repr(e))
				}
			}
			return true, ""
		}
		for i := range ad.List {
			if ok, why := equalVM(ref.Arr.List[i], ad.List[i], fmt.Sprintf("%s[%d]", path, i), depth+1, vis); !ok {
				return false, why
			}
		}
	case KDict:
		dd, ok := got.ReadDictData()
		if !ok || dd == nil || dd.Dict == nil {
			return false, path + ": unreadable dict"
		}
		if vis.seen(ref.Dict, dd) {
			return true, ""
		}
		return equalMap(ref.Dict.M, dd.Dict, path, depth, vis)
	case KFunc:
		fd, ok := got.ReadFunctionData()
		if !ok || fd == nil {
			return false, path + ": unreadable function"
		}
		if fd.Name != ref.Fn.Name {
			return false, fmt.Sprintf("%s: function name %q, want %q", path, fd.Name, ref.Fn.Name)
		}
		if strings.Join(fd.Params, ",") != strings.Join(ref.Fn.Params, ",") {
			return false, fmt.Sprintf("%s: function params %v, want %v", path, fd.Params, ref.Fn.Params)
		}
		if ref.Fn.Src != "" && strings.TrimSpace(fd.Expr) != strings.TrimSpace(ref.Fn.Src) {
			return false, fmt.Sprintf("%s: function body text %q, want %q", path, fd.Expr, ref.Fn.Src)
		}
	case KComp:
		cd, ok := got.ReadComputed()
		if !ok || cd == nil {
			return false, path + ": unreadable computed value"
		}
		if ref.Comp.Src != "" && strings.TrimSpace(cd.Expr) != strings.TrimSpace(ref.Comp.Src) {
			return false, fmt.Sprintf("%s: computed text %q, want %q", path, cd.Expr, ref.Comp.Src)
		}
		if cd.Attrs == nil {
			if len(ref.Comp.Attrs) != 0 {
				return false, fmt.Sprintf("%s: computed attributes missing, want %s", path, StoreRepr(ref.Comp.Attrs))
			}
			return true, ""
		}
		if vis.seen(ref.Comp, cd) {
			return true, ""
		}
		return equalMap(ref.Comp.Attrs, cd.Attrs, path+".&", depth, vis)
	case KNative:
		nd, ok := got.ReadNativeFunctionData()
		if !ok || nd == nil {
			return false, path + ": unreadable native function"
		}
		if nd.Name != ref.Nat.Name {
			return false, fmt.Sprintf("%s: native %q, want %q", path, nd.Name, ref.Nat.Name)
		}
		if (nd.Self != nil) != (ref.Nat.Self != nil) {
			return false, fmt.Sprintf("%s: native boundness differs", path)
		}
	}
	return true, ""
}

func equalMap(ref map[string]*Value, got *ds.ValueMap, path string, depth int, vis visited) (bool, string) {
	seen := map[string]*ds.VMValue{}
	dup := ""
	got.Range(func(k string, v *ds.VMValue) bool {
		if _, ok := seen[k]; ok {
			dup = k
		}
		seen[k] = v
		return true
	})
	if dup != "" {
		return false, fmt.Sprintf("%s: key %q reported twice", path, dup)
	}
	var missing, extra []string
	for k := range ref {
		if _, ok := seen[k]; !ok {
			missing = append(missing, k)
		}
	}
	for k := range seen {
		if _, ok := ref[k]; !ok {
			extra = append(extra, k)
		}
	}
	sort.Strings(missing)
	sort.Strings(extra)
	if len(missing)+len(extra) > 0 {
		return false, fmt.Sprintf("%s: keys missing %q, unexpected %q", path, missing, extra)
	}
	keys := make([]string, 0, len(ref))
	for k := range ref {
		keys = append(keys, k)
	}
	sort.Strings(keys)
	for _, k := range keys {
		if ok, why := equalVM(ref[k], seen[k], fmt.Sprintf("%s[%q]", path, k), depth+1, vis); !ok {
			return false, why
		}
	}
	return true, ""
}

// EqualStore compares the reference top-level store with a VM's Attrs.
func EqualStore(ref map[string]*Value, got *ds.ValueMap) (bool, string) {
	if got == nil {
		if len(ref) == 0 {
			return true, ""
		}
		return false, "VM has no attribute map"
	}
	return equalMap(ref, got, "vars", 0, visited{})
}
