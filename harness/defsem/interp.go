package defsem

import (
	"fmt"

	"verif/harness/gen"
)

// Config is the part of the VM configuration that changes documented results.
type Config struct {
	IgnoreDiv0 bool   // RollConfig.IgnoreDiv0: "当div0时暂不报错"
	Mode       string // "min" | "max" | "" — under "" only one-sided dice have a fixed value
	Fate       bool   // EnableDiceFate: `f` is a fate die (otherwise the identifier f)

	// Refuse names corners the caller wants kept out of judgement (open findings):
	// when one is met the program is refused instead of decided.  Without the
	// entry the corner is decided and recorded in Interp.Events.
	//   computed_redefinition   a `&name = expr` statement executed again after an instance it
	//                           created earlier received attributes, or an attribute written to an
	//                           instance of a statement that has run more than once
	//   big_int_sum             sum/kh/kl of an all-int array with an element or partial sum beyond 2^53
	Refuse map[string]bool
}

const (
	CornerCompRedef = "computed_redefinition"
	CornerBigSum    = "big_int_sum"
	// CornerStrIndex is only ever recorded (never refused): a string indexed outside its length,
	// for which the reference prescribes an error like for arrays.
	CornerStrIndex = "str_index_oob"
)

// ScriptError is an error the language prescribes (type error, bad index,
// arity, division by zero …).  Only its presence is ever compared, never its text.
type ScriptError struct{ Msg string }

func (e *ScriptError) Error() string { return "script error: " + e.Msg }

// Unsupported means the reference refuses to decide this program: a construct
// outside the documented core language, an undocumented corner, an
// implementation-defined conversion or an exhausted step budget.
type Unsupported struct {
	Why    string
	Corner string // set when the refusal was requested through Config.Refuse
}

func (e *Unsupported) Error() string { return "unsupported: " + e.Why }

// Interp keeps the top-level variable store across programs (sequences on one
// VM, including after failed ones: effects performed before an error persist).
type Interp struct {
	Store map[string]*Value
	Cfg   Config
	// SrcOf, when set, returns the text a `setc` expression or a `func` body was
	// written as ("" = unknown); it is only used to compare stored source text.
	SrcOf func(n *gen.Node) string

	// Events records the corners (see Config.Refuse) met since the interpreter was created.
	Events map[string]bool

	// instances of computed values per defining statement (for CornerCompRedef)
	compRuns map[*gen.Node][]*Comp
	compDef  map[*Comp]*gen.Node

	// Trace, when set, receives classification events ("op:+:int,float", "call:func", …).
	Trace func(event string)

	MaxSteps int // node evaluations per Run (default 200000)
	MaxDepth int // nested calls / computed evaluations (default 320)

	steps int
	depth int
}

func New(cfg Config) *Interp {
	return &Interp{Store: map[string]*Value{}, Cfg: cfg, Events: map[string]bool{},
		compRuns: map[*gen.Node][]*Comp{}, compDef: map[*Comp]*gen.Node{}}
}

// corner: a situation an open finding is about.  Refused when the caller asked for that, else recorded.
func (in *Interp) corner(name, why string) {
	if in.Cfg.Refuse[name] {
		panic(&Unsupported{Why: why, Corner: name})
	}
	in.Events[name] = true
}

// onSharedText: the text of a container that holds the same array or dict twice is not
// documented (the implementation abbreviates the second occurrence as "[...]" like a cycle;
// writing it out in full would be the other reading): refused, never judged.
func (in *Interp) onSharedText() {
	refuse("string form of a container that holds the same array or dict twice")
}

// act is one activation: the top-level program, a function call or the
// evaluation of a computed value.  Reads fall back local → caller chain →
// built-ins; writes are always local (GUIDE "变量": "函数中的变量有单独的变量空间";
// the fallback chain is by code, LoadNameWithDetail types.go:345-377: UpCtx is
// the *calling* context, i.e. scoping is dynamic).
type act struct {
	vars   map[string]*Value
	up     *act
	isFunc bool
	hole   int // > 0 while inside a template hole of this activation
}

type ctl int

const (
	ctlNone ctl = iota
	ctlBreak
	ctlContinue
	ctlReturn
)

type listResult struct {
	c    ctl
	ret  *Value // ctlReturn
	last *Value // value of the last statement executed that produced one, nil if none
}

func fail(format string, args ...any) {
	panic(&ScriptError{Msg: fmt.Sprintf(format, args...)})
}

func refuse(format string, args ...any) {
	panic(&Unsupported{Why: fmt.Sprintf(format, args...)})
}

// Run evaluates one program against the persistent store.
//
// Program value (GUIDE "一点说明": "vm.Ret 即是表达式的最终结果"): the value of
// the last statement executed — an expression or any assignment form yields its
// value, a func statement the function, an if / while statement null.
func (in *Interp) Run(prog *gen.Node) (val *Value, err error) {
	if in.MaxSteps == 0 {
		in.MaxSteps = 200000
	}
	if in.MaxDepth == 0 {
		in.MaxDepth = 320
	}
	in.steps, in.depth = 0, 0
	defer func() {
		if r := recover(); r != nil {
			switch e := r.(type) {
			case *ScriptError:
				val, err = nil, e
			case *Unsupported:
				val, err = nil, e
			default:
				panic(r)
			}
		}
	}()
	if prog == nil || prog.K != "prog" {
		refuse("not a program node")
	}
	top := &act{vars: in.Store}
	res := in.execList(top, prog.Kids)
	switch res.c {
	case ctlReturn:
		refuse("return outside a function")
	case ctlBreak, ctlContinue:
		refuse("break/continue outside a loop")
	}
	if res.last == nil {
		return Null(), nil
	}
	return res.last, nil
}

func (in *Interp) tick() {
	in.steps++
	if in.steps > in.MaxSteps {
		refuse("step budget")
	}
}

func (in *Interp) execList(a *act, list []*gen.Node) listResult {
	var res listResult
	for _, s := range list {
		c, ret, v := in.execStmtCatch(a, s)
		if v != nil {
			res.last = v
		}
		if c != ctlNone {
			res.c, res.ret = c, ret
			return res
		}
	}
	return res
}

// holeJump carries a break / continue / return out of a template hole: the statement that was assembling the
// template is abandoned and the jump takes effect as if it had been written at statement level (by code since fix
// 2f57d30: the compiler closes the holes a break/continue leaves).
type holeJump struct {
	c   ctl
	ret *Value
}

func (in *Interp) execStmtCatch(a *act, n *gen.Node) (c ctl, ret *Value, v *Value) {
	hole := a.hole
	defer func() {
		if r := recover(); r != nil {
			hj, ok := r.(*holeJump)
			if !ok {
				panic(r)
			}
			a.hole = hole
			c, ret, v = hj.c, hj.ret, nil
		}
	}()
	return in.execStmt(a, n)
}

// blockValue: an if / while statement yields null, and '' inside a template
// hole (GUIDE "流程控制"; CHANGELOG 2024.8.8; by code typeBlockPop).
func (a *act) blockValue() *Value {
	if a.hole > 0 {
		return Str("")
	}
	return Null()
}

// execStmt returns the control signal, the return value (ctlReturn) and the
// value the statement produced (nil for statements that produce none).
func (in *Interp) execStmt(a *act, n *gen.Node) (ctl, *Value, *Value) {
	in.tick()
	switch n.K {
	case "if":
		// GUIDE "if else": 在条件为真时，执行语句块内语句；在条件为假时，执行else内语句
		cond := in.eval(a, n.Kids[0])
		var res listResult
		if cond.Truthy() {
			res = in.execList(a, n.Kids[1].Kids)
		} else if len(n.Kids) > 2 && !n.Kids[2].IsNone() {
			el := n.Kids[2]
			if el.K == "if" {
				c, ret, _ := in.execStmt(a, el)
				res = listResult{c: c, ret: ret}
			} else {
				res = in.execList(a, el.Kids)
			}
		}
		if res.c != ctlNone {
			return res.c, res.ret, nil
		}
		return ctlNone, nil, a.blockValue()
	case "while":
		// GUIDE "循环": 在条件为真时，执行语句块内语句，并再次判断条件是否为真
		for {
			in.tick()
			if !in.eval(a, n.Kids[0]).Truthy() {
				break
			}
			res := in.execList(a, n.Kids[1].Kids)
			if res.c == ctlBreak {
				break
			}
			if res.c == ctlReturn {
				return res.c, res.ret, nil
			}
		}
		return ctlNone, nil, a.blockValue()
	case "break":
		return ctlBreak, nil, nil
	case "continue":
		return ctlContinue, nil, nil
	case "ret":
		// GUIDE "函数": return n + 1
		if !a.isFunc {
			refuse("return outside a function body")
		}
		if len(n.Kids) == 0 || n.Kids[0].IsNone() {
			return ctlReturn, Null(), nil
		}
		return ctlReturn, in.eval(a, n.Kids[0]), nil
	case "func":
		// GUIDE "函数": func test(n) { … } defines a variable holding the function
		f := &Value{K: KFunc, Fn: &Func{Name: n.S, Params: append([]string(nil), n.Names...), Body: n.Kids[0]}}
		if in.SrcOf != nil {
			f.Fn.Src = in.SrcOf(n)
		}
		a.vars[n.S] = f
		return ctlNone, nil, f
	case "block", "prog":
		refuse("bare block statement")
	}
	return ctlNone, nil, in.eval(a, n)
}

// ---------------------------------------------------------------------------
// variables

var builtinNames = map[string]bool{
	"ceil": true, "floor": true, "round": true, "abs": true, "toInt": true, "toFloat": true, "toStr": true,
	"toBool": true, "repr": true, "load": true, "loadRaw": true, "store": true, "dir": true, "typeId": true,
}

// lookup implements a variable read.  A local holding null counts as absent;
// a computed value found on the way is evaluated with the activation it was
// found in as its caller (by code: LoadNameLocalWithDetail is called on curCtx,
// types.go:358-361), unless the read is raw (&name, loadRaw).
func (in *Interp) lookup(a *act, name string, raw bool) *Value {
	for cur := a; cur != nil; cur = cur.up {
		v, ok := cur.vars[name]
		if !ok || v == nil {
			continue
		}
		if v.K == KComp && !raw {
			v = in.evalComputed(cur, v)
		}
		if v.K != KNull {
			return v
		}
	}
	if builtinNames[name] {
		return &Value{K: KNative, Nat: &Native{Name: name}}
	}
	return Null()
}

// lookupLocal is `this.name`: the activation's own space only (GUIDE "计算类型":
// "这里的this是指该变量内部的一个空间 … 可以理解为函数的内部变量").
func (in *Interp) lookupLocal(a *act, name string) *Value {
	v, ok := a.vars[name]
	if !ok || v == nil {
		return Null()
	}
	if v.K == KComp {
		v = in.evalComputed(a, v)
	}
	return v
}

// evalComputed: every read evaluates the expression in the value's own
// persistent attribute space (GUIDE "计算类型": "每次调用时会动态计算一遍").
func (in *Interp) evalComputed(caller *act, c *Value) *Value {
	in.depth++
	if in.depth > in.MaxDepth {
		refuse("call depth budget")
	}
	defer func() { in.depth-- }()
	na := &act{vars: c.Comp.Attrs, up: caller}
	return in.eval(na, c.Comp.Expr)
}

func (in *Interp) callFunc(caller *act, f *Func, args []*Value) *Value {
	// GUIDE "函数"; arity mismatch is an error (by code FuncInvokeRaw types.go:1547)
	if len(args) != len(f.Params) {
		fail("arity: want %d got %d", len(f.Params), len(args))
	}
	in.depth++
	if in.depth > in.MaxDepth {
		refuse("call depth budget")
	}
	defer func() { in.depth-- }()
	na := &act{vars: map[string]*Value{}, up: caller, isFunc: true}
	for i, p := range f.Params {
		na.vars[p] = args[i]
	}
	res := in.execList(na, f.Body.Kids)
	switch res.c {
	case ctlReturn:
		return res.ret
	case ctlBreak, ctlContinue:
		refuse("break/continue leaving a function body")
	}
	// no return: the value of the last statement, null when there is none
	// (GUIDE "函数" fib examples end in an expression / an if statement)
	if res.last == nil {
		return Null()
	}
	return res.last
}

// ---------------------------------------------------------------------------
// the assignment forms other than `name = e` and `&name = e`.  Like a plain
// assignment (GUIDE "换行规则": `a = 2;a` "输出2，即赋值后的a值") each is an expression
// whose value is the assigned value (by code since e1a4753: typeItemSet /
// typeAttrSet / typeSliceSet / store.local leave the value on the stack).

func (in *Interp) assign(a *act, n *gen.Node) *Value {
	switch n.K {
	case "setthis":
		// this.name = e : writes the activation's own space (GUIDE "计算类型"/"函数": this)
		v := in.eval(a, n.Kids[0])
		a.vars[n.S] = v
		return v
	case "setattr":
		// obj.attr = e (GUIDE "字典": d.v3 = 4).  The value is evaluated first, then the
		// object is read (by code AddAttrSet parser.go:354).
		v := in.eval(a, n.Kids[0])
		obj := in.lookup(a, n.S, false)
		in.setAttr(obj, n.Names[0], v)
		return v
	case "setca":
		// &name.attr = e (GUIDE "计算类型": &a.x = 5): raw read of the object
		v := in.eval(a, n.Kids[0])
		obj := in.lookup(a, n.S, true)
		in.setAttr(obj, n.Names[0], v)
		return v
	case "setidx":
		// a[i] = e (GUIDE "字典": d['v4'] = 5): container, index, value
		obj := in.eval(a, n.Kids[0])
		idx := in.eval(a, n.Kids[1])
		v := in.eval(a, n.Kids[2])
		in.setItem(obj, idx, v)
		return v
	case "setslice":
		// a[x:y] = list (GUIDE "数组": a[2:3] = [4,5,6])
		obj := in.eval(a, n.Kids[0])
		lo := in.evalOpt(a, n.Kids[1])
		hi := in.evalOpt(a, n.Kids[2])
		v := in.eval(a, n.Kids[3])
		in.setSlice(obj, lo, hi, v)
		return v
	}
	refuse("assignment kind %q", n.K)
	return nil
}

func (in *Interp) evalOpt(a *act, n *gen.Node) *Value {
	if n.IsNone() {
		return Null()
	}
	return in.eval(a, n)
}

func (in *Interp) setAttr(obj *Value, name string, v *Value) {
	switch obj.K {
	case KComp:
		if def := in.compDef[obj.Comp]; def != nil && len(in.compRuns[def]) > 1 {
			in.corner(CornerCompRedef, "attribute written to a computed value whose defining statement has run more than once")
		}
		obj.Comp.Attrs[name] = v
	case KDict:
		obj.Dict.M[name] = v
	default:
		fail("cannot set attribute on %s", obj.K)
	}
}

func (in *Interp) setItem(obj, idx, v *Value) {
	switch obj.K {
	case KArr:
		if idx.K != KInt {
			fail("array index must be int")
		}
		i, ok := realIndex(idx.I, int64(len(obj.Arr.List)))
		if !ok {
			fail("index out of range")
		}
		needOrder(obj, "item assignment")
		obj.Arr.List[i] = v
	case KDict:
		k, ok := DictKey(idx)
		if !ok {
			fail("dict key must be str or number")
		}
		obj.Dict.M[k] = v
	default:
		fail("cannot assign item of %s", obj.K)
	}
}

// realIndex: negative indices count from the end; outside → not ok
// (GUIDE "数组" a[0]; by code getRealIndex types.go:1247).
func realIndex(i, n int64) (int64, bool) {
	if i < 0 {
		i += n
	}
	if i < 0 || i >= n {
		return 0, false
	}
	return i, true
}

// clampIndex: slice bounds clamp like Python (GUIDE "分片语法 … 写法同python").
func clampIndex(i, n int64) int64 {
	if i < 0 {
		i += n
	}
	if i < 0 {
		i = 0
	}
	if i > n {
		i = n
	}
	return i
}

func (in *Interp) setSlice(obj, lo, hi, v *Value) {
	if obj.K != KArr {
		fail("cannot assign slice of %s", obj.K)
	}
	n := int64(len(obj.Arr.List))
	if lo.K == KNull {
		lo = Int(0)
	}
	if hi.K == KNull {
		hi = Int(n)
	}
	if lo.K != KInt || hi.K != KInt {
		fail("slice bounds must be int")
	}
	if v.K != KArr {
		fail("slice assignment needs an array")
	}
	x, y := clampIndex(lo.I, n), clampIndex(hi.I, n)
	if x > y {
		// Python inserts at x, the implementation at y; the guide shows neither
		refuse("slice assignment with reversed bounds")
	}
	needOrder(obj, "slice assignment")
	needOrder(v, "slice assignment")
	src := append([]*Value(nil), v.Arr.List...)
	out := make([]*Value, 0, int(n)+len(src))
	out = append(out, obj.Arr.List[:x]...)
	out = append(out, src...)
	out = append(out, obj.Arr.List[y:]...)
	obj.Arr.List = out
}
