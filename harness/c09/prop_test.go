package c09

import (
	"encoding/json"
	"fmt"
	"strconv"
	"strings"
	"testing"

	ds "github.com/sealdice/dicescript"
	"pgregory.net/rapid"

	"verif/harness/rt"
	"verif/harness/vmx"
)

func classify(s *rt.Section, c Case, in info) {
	if !in.judged {
		s.Class("not-judged")
		return
	}
	if in.expectErr != "" {
		s.Class("unrepresentable:" + in.expectErr + "->error")
		return
	}
	s.Class("mode:" + strings.SplitN(c.Mode, ":", 2)[0])
	switch {
	case in.depth >= 3:
		s.Class("nesting>=3")
	case in.depth == 2:
		s.Class("nesting=2")
	default:
		s.Class(fmt.Sprintf("nesting=%d", in.depth))
	}
	if in.funcs > 0 {
		s.Class("snapshot-has-function")
	}
	if in.comps > 0 {
		s.Class("snapshot-has-computed")
	}
	if in.evaluated {
		s.Class("follow-up-evaluates-restored-function/computed")
	}
	if in.sharedRead {
		s.Class("shared-sub-container(read-only follow-ups)")
	}
	if in.followups == 0 {
		s.Class("no-follow-up(structural only)")
	}
	if in.errFollow > 0 {
		s.Class("follow-up-errors-on-both")
	}
	if c.Cut == 0 {
		s.Class("snapshot-of-empty-store")
	}
}

func TestProp(t *testing.T) {
	run := rt.Begin(t, "C09")
	defer run.Finish()

	snapRule := "a generated program (shared generator: all statement kinds, seeded dice of every enabled family, functions incl. recursive, computed values with attributes; plus C09's value trees: nested/mixed containers, extreme ints, long-fraction floats, Unicode/control characters in strings and keys, empty containers, functions and computed values inside containers) is cut into 1..5 segments; after a prefix the store of VM_A is serialised (ValueMap.ToJSON, or VMValue.ToJSON per variable) and decoded into a fresh VM_B with the same configuration and A's current generator state; oracle: restored store structurally equal, second round trip identical up to key order, and every remaining segment gives equal error-ness, Ret, Matched/RestInput, process text, variables, generator state and operation count on A and B. Aliasing between variables is excluded by construction and by a dynamic check (open finding). Non-trivial = a function/computed value of the snapshot is lazily compiled by a follow-up, or the snapshot holds a container nested >= 2 deep; distinct by segments+cut+mode"
	run.Check("snap", 12000, 100000, snapRule, func(t *rapid.T, s *rt.Section) {
		c := drawSnap(t, run.AvoidOn(avoidAlias))
		s.Eval()
		s.Crumb(c)
		f, in := checkCase(c, s)
		classify(s, c, in)
		for _, k := range c.Kinds {
			for _, kk := range strings.Split(k, "+") {
				s.Class("seg:" + kk)
			}
		}
		h := rt.Hash(strings.Join(c.Segs, "\x00"), fmt.Sprint(c.Cut), c.Mode, c.Cfg.SeedHex)
		if (f == nil || s.Known(f.Signature)) && in.judged && in.expectErr == "" && (in.evaluated || in.depth >= 2) {
			s.NonTrivial(h)
			if len(strings.Join(c.Segs, "")) < 200 {
				s.Sample(h, c)
			}
		}
		s.Report(t, f)
	})

	valRule := "one variable x holding a deep value: tree (depth 2..4, mixed containers, all leaf kinds incl. functions), computed value whose attributes hold trees, DAG (a sub-container used 2-4 times inside x, sharing depth <= 2), reference cycle (array in itself, dict in itself, cycle through array+dict, computed value in its own attributes), or a non-finite float (+Inf, -Inf, NaN) at a leaf; VMValue.ToJSON -> VMValueFromJSON (or the whole store) and 0..3 read-only follow-ups (path reads, calls of contained functions, computed reads, comparison with the literal, text). Oracle: cycles and non-finite floats give an error and leave the VM usable; everything else round-trips structurally, re-encodes identically and behaves identically. Non-trivial = error case confirmed, or nesting >= 2, or a restored function/computed evaluated; distinct by program text"
	run.Check("values", 5000, 60000, valRule, func(t *rapid.T, s *rt.Section) {
		c := drawValue(t, func() bool { return s.Avoid(avoidDag) })
		s.Eval()
		s.Crumb(c)
		f, in := checkCase(c, s)
		classify(s, c, in)
		s.Class("kind:" + c.Kinds[0])
		h := rt.Hash(strings.Join(c.Segs, "\x00"), fmt.Sprint(c.Cut), c.Mode, c.Cfg.SeedHex)
		if (f == nil || s.Known(f.Signature)) && in.judged && (in.expectErr != "" || in.evaluated || in.depth >= 2) {
			s.NonTrivial(h)
			if len(strings.Join(c.Segs, "")) < 160 {
				s.Sample(h, c)
			}
		}
		s.Report(t, f)
	})

	run.Enum("capacity", "bodies whose compiled code sits at the instruction capacity (8192 per code block): a function `func capf() { -1+1+…+1 }` and a computed value `&capc = -1+1+…+1` with 4080..4100 terms, defined (when the VM accepts the definition), snapshot of the whole store, restore, then called / read on both VMs: same value or same error; every case is non-trivial (within 16 instructions of the capacity); distinct by form and term count",
		func(s *rt.Section) {
			s.Exhaustive = true
			s.Bounds = "2 forms x term counts 4080..4100"
			idx := 0
			for k := 4080; k <= 4100; k++ {
				for _, form := range []string{"func", "computed"} {
					idx++
					if idx%run.Env.NShards != run.Env.Shard {
						continue
					}
					c := capacityCase(form, k)
					s.Eval()
					s.Crumb(c)
					s.NonTrivial(rt.Hash(form, strconv.Itoa(k)))
					f, _ := checkCase(c, s)
					if f != nil && s.Report(nil, f) {
						return
					}
				}
			}
		})

	run.Enum("enum", "every value literal of container depth <= 2 over a fixed leaf alphabet (ints incl. the largest, floats, strings with quotes/control/Unicode, null, a function, a computed value with an attribute), arrays of 0..2 elements and dicts of 0..2 keys; ToJSON -> FromJSON structurally equal and re-encoded identically, alternating VMValue and ValueMap entry points; non-trivial = nesting >= 2 or holds a function/computed value; distinct by literal",
		func(s *rt.Section) { enumerate(s, run) })
}

// capacityCase: a definition whose body has k "+1" terms behind a leading -1 (2k+2 instructions), then its use.
func capacityCase(form string, k int) Case {
	body := "-1" + strings.Repeat("+1", k)
	c := Case{Cfg: vmx.Cfg{OpLimit: 200000, SeedHex: "000102030405060708090a0b0c0d0e0f"}, Cut: 1, Mode: "map"}
	if form == "func" {
		c.Segs = []string{"func capf() { " + body + " }", "capf()", "capf() + 1"}
	} else {
		c.Segs = []string{"&capc = " + body, "capc", "capc + 1"}
	}
	return c
}

// ---------------------------------------------------------------------------
// bounded exhaustive enumeration

const enumSetup = "func f(a) { return a * 2 + 1 }; &c = 1 + (this.hp ?? 2); &c.hp = 5"

var enumLeavesQuick = []string{"0", "-7", "9223372036854775807", "0.1", "'é\"\\n力'", "''", "null", "f", "&c"}
var enumLeavesThorough = []string{"0", "-7", "9223372036854775807", "0.1", "'é\"\\n力'", "''", "null", "f", "&c", "'\x00<&>'"}

type enumCase struct {
	Lit  string `json:"lit"`
	Mode string `json:"mode"`
}

func (e enumCase) toCase() Case {
	return Case{Cfg: vmx.Cfg{OpLimit: 30000, SeedHex: "000102030405060708090a0b0c0d0e0f"}, Segs: []string{enumSetup, "x = " + e.Lit}, Cut: 2, Mode: e.Mode, ReadOnly: true}
}

func replayEnum(b []byte, s *rt.Section) *rt.Failure {
	var e enumCase
	if err := json.Unmarshal(b, &e); err != nil || e.Lit == "" {
		return replayCase(b, s)
	}
	f, _ := checkCase(e.toCase(), s)
	if f != nil {
		f.Case = b
	}
	return f
}

// spec is one enumerated value: a leaf of the alphabet or a container of specs.
type spec struct {
	leaf int // index into the leaf alphabet, -1 for containers
	dict bool
	kids []*spec
}

var enumKeys = []string{"a", "力 b", "0"}

func (sp *spec) text(leaves []string) string {
	if sp.leaf >= 0 {
		return leaves[sp.leaf]
	}
	var parts []string
	for i, k := range sp.kids {
		if sp.dict {
			parts = append(parts, "'"+enumKeys[i]+"': "+k.text(leaves))
		} else {
			parts = append(parts, k.text(leaves))
		}
	}
	if sp.dict {
		return "{" + strings.Join(parts, ", ") + "}"
	}
	return "[" + strings.Join(parts, ", ") + "]"
}

// build constructs the value with the constructors the VM itself uses for literals (push.arr -> NewArrayVal,
// push.dict -> NewDictValWithArray); leaves are clones of values a script produced.
func (sp *spec) build(leafVals []*ds.VMValue) *ds.VMValue {
	if sp.leaf >= 0 {
		return leafVals[sp.leaf].Clone()
	}
	var items []*ds.VMValue
	for i, k := range sp.kids {
		if sp.dict {
			items = append(items, ds.NewStrVal(enumKeys[i]))
		}
		items = append(items, k.build(leafVals))
	}
	if sp.dict {
		d, err := ds.NewDictValWithArray(items...)
		if err != nil {
			return nil
		}
		return d.V()
	}
	return ds.NewArrayVal(items...)
}

// forEachContainer calls fn for every array and dict of 0..maxLen children drawn from pool (minLen..maxLen).
func forEachContainer(pool []*spec, minLen, maxLen int, fn func(*spec) bool) bool {
	idx := make([]int, maxLen)
	for n := minLen; n <= maxLen; n++ {
		for i := range idx {
			idx[i] = 0
		}
		for {
			kids := make([]*spec, n)
			for i := 0; i < n; i++ {
				kids[i] = pool[idx[i]]
			}
			if !fn(&spec{leaf: -1, kids: kids}) || !fn(&spec{leaf: -1, dict: true, kids: kids}) {
				return false
			}
			p := n - 1
			for p >= 0 {
				idx[p]++
				if idx[p] < len(pool) {
					break
				}
				idx[p] = 0
				p--
			}
			if p < 0 {
				break
			}
		}
	}
	return true
}

func enumerate(s *rt.Section, run *rt.Run) {
	leaves := enumLeavesQuick
	len1, len2 := 2, 2
	if run.Env.Thorough() {
		leaves = enumLeavesThorough
		len1 = 3
	}
	s.Exhaustive = true
	s.Bounds = fmt.Sprintf("%d leaves %q (script-built); level 1 = arrays and dicts of 0..%d leaves; level 2 = arrays and dicts of 1..%d values of level <= 1; dict keys %q in order", len(leaves), leaves, len1, len2, enumKeys)
	vm := vmx.Cfg{OpLimit: 30000, SeedHex: "000102030405060708090a0b0c0d0e0f"}.NewVM()
	if err := vm.Run(enumSetup); err != nil {
		s.Report(nil, s.NewFailure("harness", "harness:enum-setup", nil, err.Error(), "setup runs"))
		return
	}
	var leafVals []*ds.VMValue
	var pool []*spec
	for i, l := range leaves {
		if err := vm.Run("x = " + l); err != nil || strings.TrimSpace(vm.RestInput) != "" {
			s.Report(nil, s.NewFailure("harness", "harness:enum-leaf", l, fmt.Sprint(err, vm.RestInput), "leaf evaluates"))
			return
		}
		v, _ := vm.Attrs.Load("x")
		leafVals = append(leafVals, v.Clone())
		pool = append(pool, &spec{leaf: i})
	}
	nLeaves := len(pool)
	forEachContainer(pool[:nLeaves], 0, len1, func(sp *spec) bool {
		pool = append(pool, sp)
		return true
	})
	var total, index int64
	stop := false
	visit := func(sp *spec, level int) bool {
		index++
		if int(index)%run.Env.NShards != run.Env.Shard {
			return true
		}
		total++
		mode := "value:x"
		if index%3 == 1 {
			mode = "map"
		}
		v := sp.build(leafVals)
		fnOrComp := false
		var walk func(*spec)
		walk = func(q *spec) {
			if q.leaf >= 0 && (leaves[q.leaf] == "f" || leaves[q.leaf] == "&c") {
				fnOrComp = true
			}
			for _, k := range q.kids {
				walk(k)
			}
		}
		walk(sp)
		viaScript := total%499 == 1
		if level >= 2 || fnOrComp {
			s.NonTrivial(uint64(index)*0x9e3779b97f4a7c15 + uint64(len(leaves)))
		}
		ok := v != nil && quickValue(v, mode)
		var lit string
		if ok && viaScript {
			// the constructed value is the value the script builds
			lit = sp.text(leaves)
			ok = false
			if err := vm.Run("x = " + lit); err == nil && strings.TrimSpace(vm.RestInput) == "" {
				sv, _ := vm.Attrs.Load("x")
				ok = vmx.Repr(sv) == vmx.Repr(v) && quickValue(sv, mode)
			}
			s.Class("also-built-by-script")
			s.Sample(rt.Hash(lit), enumCase{Lit: lit, Mode: mode})
		}
		if ok {
			return true
		}
		lit = sp.text(leaves)
		ec := enumCase{Lit: lit, Mode: mode}
		f, _ := checkCase(ec.toCase(), s)
		if f == nil {
			f = s.NewFailure("harness", "harness:enum-disagrees-with-oracle", ec, "the constructed value fails the round trip, the script-built one passes the full oracle", "agreement")
		} else {
			b, _ := json.Marshal(ec)
			f.Case = b
		}
		if s.Report(nil, f) {
			stop = true
			return false
		}
		return true
	}
	for i, sp := range pool {
		lv := 1
		if i < nLeaves {
			lv = 0
		}
		if !visit(sp, lv) {
			break
		}
	}
	if !stop {
		forEachContainer(pool, 1, len2, func(sp *spec) bool { return visit(sp, 2) })
	}
	s.EvalN(total)
}

// quickValue: the value round-trips structurally and re-encodes to the same document up to key order.
func quickValue(v *ds.VMValue, mode string) bool {
	ok := false
	pi := rt.Guard(func() {
		want := vmx.Repr(v)
		if mode == "map" {
			src := &ds.ValueMap{}
			src.Store("x", v)
			b, err := src.ToJSON()
			if err != nil {
				return
			}
			m := &ds.ValueMap{}
			if err := json.Unmarshal(b, m); err != nil {
				return
			}
			v2, _ := m.Load("x")
			b2, err := m.ToJSON()
			if err != nil || vmx.Repr(v2) != want {
				return
			}
			c1, _ := canonJSON(b)
			c2, _ := canonJSON(b2)
			ok = c1 == c2 && c1 != ""
			return
		}
		b, err := v.ToJSON()
		if err != nil {
			return
		}
		v2, err := ds.VMValueFromJSON(b)
		if err != nil || vmx.Repr(v2) != want {
			return
		}
		b2, err := v2.ToJSON()
		c1, _ := canonJSON(b)
		c2, _ := canonJSON(b2)
		ok = err == nil && c1 == c2 && c1 != ""
	})
	return pi == nil && ok
}
