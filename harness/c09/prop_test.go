package c09

import (
	"encoding/json"
	"fmt"
	"strings"
	"testing"

	ds "github.com/sealdice/dicescript"
	"pgregory.net/rapid"

	"verif/harness/rt"
	"verif/harness/vmx"
)

func classify(s *rt.Section, c Case, in info) {
	if !in.judged {
		s.Class("not-judged")
		return
	}
	if in.expectErr != "" {
		s.Class("unrepresentable:" + in.expectErr + "->error")
		return
	}
	s.Class("mode:" + strings.SplitN(c.Mode, ":", 2)[0])
	switch {
	case in.depth >= 3:
		s.Class("nesting>=3")
	case in.depth == 2:
		s.Class("nesting=2")
	default:
		s.Class(fmt.Sprintf("nesting=%d", in.depth))
	}
	if in.funcs > 0 {
		s.Class("snapshot-has-function")
	}
	if in.comps > 0 {
		s.Class("snapshot-has-computed")
	}
	if in.evaluated {
		s.Class("follow-up-evaluates-restored-function/computed")
	}
	if in.sharedRead {
		s.Class("shared-sub-container(read-only follow-ups)")
	}
	if in.followups == 0 {
		s.Class("no-follow-up(structural only)")
	}
	if in.errFollow > 0 {
		s.Class("follow-up-errors-on-both")
	}
	if c.Cut == 0 {
		s.Class("snapshot-of-empty-store")
	}
}

func TestProp(t *testing.T) {
	run := rt.Begin(t, "C09")
	defer run.Finish()

	snapRule := "a generated program (shared generator: all statement kinds, seeded dice of every enabled family, functions incl. recursive, computed values with attributes; plus C09's value trees: nested/mixed containers, extreme ints, long-fraction floats, Unicode/control characters in strings and keys, empty containers, functions and computed values inside containers) is cut into 1..5 segments; after a prefix the store of VM_A is serialised (ValueMap.ToJSON, or VMValue.ToJSON per variable) and decoded into a fresh VM_B with the same configuration and A's current generator state; oracle: restored store structurally equal, second round trip identical up to key order, and every remaining segment gives equal error-ness, Ret, Matched/RestInput, process text, variables, generator state and operation count on A and B. Aliasing between variables is excluded by construction and by a dynamic check (open finding). Non-trivial = a function/computed value of the snapshot is lazily compiled by a follow-up, or the snapshot holds a container nested >= 2 deep; distinct by segments+cut+mode"
	run.Check("snap", 20000, 300000, snapRule, func(t *rapid.T, s *rt.Section) {
		c := drawSnap(t, run.AvoidOn(avoidAlias))
		s.Eval()
		s.Crumb(c)
		f, in := checkCase(c, s)
		classify(s, c, in)
		for _, k := range c.Kinds {
			for _, kk := range strings.Split(k, "+") {
				s.Class("seg:" + kk)
			}
		}
		h := rt.Hash(strings.Join(c.Segs, "\x00"), fmt.Sprint(c.Cut), c.Mode, c.Cfg.SeedHex)
		if f == nil && in.judged && in.expectErr == "" && (in.evaluated || in.depth >= 2) {
			s.NonTrivial(h)
			if len(strings.Join(c.Segs, "")) < 200 {
				s.Sample(h, c)
			}
		}
		s.Report(t, f)
	})

	valRule := "one variable x holding a deep value: tree (depth 2..4, mixed containers, all leaf kinds incl. functions), computed value whose attributes hold trees, DAG (a sub-container used 2-4 times inside x, sharing depth <= 2), reference cycle (array in itself, dict in itself, cycle through array+dict, computed value in its own attributes), or a non-finite float (+Inf, -Inf, NaN) at a leaf; VMValue.ToJSON -> VMValueFromJSON (or the whole store) and 0..3 read-only follow-ups (path reads, calls of contained functions, computed reads, comparison with the literal, text). Oracle: cycles and non-finite floats give an error and leave the VM usable; everything else round-trips structurally, re-encodes identically and behaves identically. Non-trivial = error case confirmed, or nesting >= 2, or a restored function/computed evaluated; distinct by program text"
	run.Check("values", 8000, 120000, valRule, func(t *rapid.T, s *rt.Section) {
		c := drawValue(t, func() bool { return s.Avoid(avoidDag) })
		s.Eval()
		s.Crumb(c)
		f, in := checkCase(c, s)
		classify(s, c, in)
		s.Class("kind:" + c.Kinds[0])
		h := rt.Hash(strings.Join(c.Segs, "\x00"), fmt.Sprint(c.Cut), c.Mode, c.Cfg.SeedHex)
		if f == nil && in.judged && (in.expectErr != "" || in.evaluated || in.depth >= 2) {
			s.NonTrivial(h)
			if len(strings.Join(c.Segs, "")) < 160 {
				s.Sample(h, c)
			}
		}
		s.Report(t, f)
	})

	run.Enum("enum", "every value literal of container depth <= 2 over a fixed leaf alphabet (ints incl. the largest, floats, strings with quotes/control/Unicode, null, a function, a computed value with an attribute), arrays of 0..2 elements and dicts of 0..2 keys; ToJSON -> FromJSON structurally equal and re-encoded identically, alternating VMValue and ValueMap entry points; non-trivial = nesting >= 2 or holds a function/computed value; distinct by literal",
		func(s *rt.Section) { enumerate(s, run) })
}

// ---------------------------------------------------------------------------
// bounded exhaustive enumeration

const enumSetup = "func f(a) { return a * 2 + 1 }; &c = 1 + (this.hp ?? 2); &c.hp = 5"

var enumLeavesQuick = []string{"0", "-7", "9223372036854775807", "0.1", "'é\"\\n力'", "''", "null", "f", "&c"}
var enumLeavesThorough = []string{"0", "-7", "9223372036854775807", "0.1", "'é\"\\n力'", "''", "null", "f", "&c", "123456789.123456789", "'\x00<&>'", "true"}

type enumCase struct {
	Lit  string `json:"lit"`
	Mode string `json:"mode"`
}

func (e enumCase) toCase() Case {
	return Case{Cfg: vmx.Cfg{OpLimit: 30000, SeedHex: "000102030405060708090a0b0c0d0e0f"}, Segs: []string{enumSetup, "x = " + e.Lit}, Cut: 2, Mode: e.Mode, ReadOnly: true}
}

func replayEnum(b []byte, s *rt.Section) *rt.Failure {
	var e enumCase
	if err := json.Unmarshal(b, &e); err != nil || e.Lit == "" {
		return replayCase(b, s)
	}
	f, _ := checkCase(e.toCase(), s)
	if f != nil {
		f.Case = b
	}
	return f
}

func containers(children []string, maxLen int) []string {
	var out []string
	keys := []string{"'a'", "'力 b'", "'0'"}
	var rec func(prefix []string, n int)
	rec = func(prefix []string, n int) {
		if len(prefix) == n {
			out = append(out, "["+strings.Join(prefix, ", ")+"]")
			var kv []string
			for i, p := range prefix {
				kv = append(kv, keys[i]+": "+p)
			}
			out = append(out, "{"+strings.Join(kv, ", ")+"}")
			return
		}
		for _, c := range children {
			rec(append(prefix, c), n)
		}
	}
	for n := 0; n <= maxLen; n++ {
		rec(nil, n)
	}
	return out
}

func enumerate(s *rt.Section, run *rt.Run) {
	leaves := enumLeavesQuick
	if run.Env.Thorough() {
		leaves = enumLeavesThorough
	}
	s.Exhaustive = true
	s.Bounds = fmt.Sprintf("%d leaves %v; level 1 = arrays/dicts of 0..2 leaves; level 2 = arrays/dicts of 1..2 values of level <= 1", len(leaves), leaves)
	level1 := containers(leaves, 2)
	upTo1 := append(append([]string{}, leaves...), level1...)
	level2 := containers(upTo1, 2)
	all := append(append([]string{}, upTo1...), level2...)
	if run.Env.Thorough() {
		s.Bounds += "; level 3 = arrays/dicts of exactly 1 value of level 2"
		for _, v := range level2 {
			all = append(all, "["+v+"]", "{'a': "+v+"}")
		}
	}
	vm := vmx.Cfg{OpLimit: 30000, SeedHex: "000102030405060708090a0b0c0d0e0f"}.NewVM()
	if err := vm.Run(enumSetup); err != nil {
		s.Report(nil, s.NewFailure("harness", "harness:enum-setup", nil, err.Error(), "setup runs"))
		return
	}
	var total int64
	for i, lit := range all {
		if i%run.Env.NShards != run.Env.Shard {
			continue
		}
		total++
		mode := "value:x"
		if i%3 == 1 {
			mode = "map"
		}
		ec := enumCase{Lit: lit, Mode: mode}
		nested := i >= len(upTo1)
		if nested || strings.Contains(lit, "f") || strings.Contains(lit, "&c") {
			s.NonTrivial(rt.Hash(lit))
		}
		if total%9973 == 1 {
			s.Sample(rt.Hash(lit), ec)
		}
		if quickLiteral(vm, lit, mode) {
			continue
		}
		f, _ := checkCase(ec.toCase(), s)
		if f == nil {
			f = s.NewFailure("harness", "harness:enum-disagrees-with-oracle", ec, "the fast path rejects the literal, the full oracle accepts it", "agreement")
		} else {
			b, _ := json.Marshal(ec)
			f.Case = b
		}
		if s.Report(nil, f) {
			break
		}
	}
	s.EvalN(total)
}

// quickLiteral is the fast path of the enumeration on a long-lived VM: true when the literal round-trips.
func quickLiteral(vm *ds.Context, lit string, mode string) bool {
	ok := false
	pi := rt.Guard(func() {
		if err := vm.Run("x = " + lit); err != nil || strings.TrimSpace(vm.RestInput) != "" {
			return
		}
		v, _ := vm.Attrs.Load("x")
		want := vmx.Repr(v)
		if mode == "map" {
			b, err := vm.Attrs.ToJSON()
			if err != nil {
				return
			}
			m := &ds.ValueMap{}
			if err := json.Unmarshal(b, m); err != nil {
				return
			}
			v2, _ := m.Load("x")
			b2, err := m.ToJSON()
			if err != nil || vmx.Repr(v2) != want {
				return
			}
			c1, _ := canonJSON(b)
			c2, _ := canonJSON(b2)
			ok = c1 == c2 && c1 != ""
			return
		}
		b, err := v.ToJSON()
		if err != nil {
			return
		}
		v2, err := ds.VMValueFromJSON(b)
		if err != nil || vmx.Repr(v2) != want {
			return
		}
		b2, err := v2.ToJSON()
		c1, _ := canonJSON(b)
		c2, _ := canonJSON(b2)
		ok = err == nil && c1 == c2 && c1 != ""
	})
	return pi == nil && ok
}
