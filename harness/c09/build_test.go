package c09

import (
	"math"
	"strconv"

	"pgregory.net/rapid"

	"verif/harness/gen"
	"verif/harness/vmx"
)

// ---------------------------------------------------------------------------
// value trees: literals with nested / mixed containers, long fractions, Unicode and control characters in strings
// and keys, empty containers, functions and (through a temporary that is overwritten afterwards) computed values

type fnInfo struct {
	Name  string
	Arity int
}

type treeVar struct {
	Name    string
	Lit     *gen.Node
	HasFn   bool
	HasComp bool
}

type builder struct {
	t        *rapid.T
	g        *gen.G
	fns      []fnInfo
	comps    []string
	trees    []treeVar
	multiKey bool // dicts may have several keys (then nothing textual is generated from them)
	kinds    []string
}

func (b *builder) intn(n int, label string) int {
	if n <= 1 {
		return 0
	}
	return rapid.IntRange(0, n-1).Draw(b.t, label)
}

var strAlphabet = []string{"a", "Z", "0", " ", "\u00e9", "\u529b", "\u91cf", "\U0001F3B2", "\u2028", "\u00a0", "\t", "\n", "\r", "\x00", "\x01", "\x1f", "\x7f",
	"\"", "'", "\\", "/", "<", ">", "&", "{", "}", "[", "]", ":", ",", "\ufeff", "\ufffd", "\U0010ffff", "e\u0301", "\u0085", "\\u0041", "%"}

var keyPool = []string{"a", "k", "x", "y", "hp", "力量", "a b", "", "0", "1.5", "\n", "\"q\"", "t", "v", "list", "dict", "expr", "attrs", "\U0001F3B2", "A", "a.b", "_x", "\x00", "e\u0301"}

var fltPool = []string{"0.1", "0.5", "1.0", "3.141592653589793", "2.718281828459045", "123456789.123456789", "0.000001", ".5", "100000000000000000000.0",
	"0.30000000000000004", "1.7976931348623157", "4.9406564584124654", "9007199254740993.0", "0.1000000000000000055511151231257827", "12345678901234567890123.0", "0.0"}

func (b *builder) strText() string {
	n := b.intn(7, "sLen")
	s := ""
	for i := 0; i < n; i++ {
		s += strAlphabet[b.intn(len(strAlphabet), "sCh")]
	}
	return s
}

func (b *builder) intLeaf() *gen.Node {
	switch b.intn(10, "iKind") {
	case 0:
		return gen.Int(math.MaxInt64)
	case 1:
		return gen.Int(-math.MaxInt64)
	case 2:
		return gen.Bin("-", gen.Int(-math.MaxInt64), gen.Int(1)) // the smallest integer
	case 3:
		return gen.Int(int64(1)<<53 + 1)
	case 4:
		return gen.Int(-(int64(1)<<31 + int64(b.intn(3, "i31"))))
	case 5:
		return gen.Int(0)
	}
	return gen.Int(int64(b.intn(200, "iSmall")) - 50)
}

func (b *builder) fltLeaf() *gen.Node {
	switch b.intn(8, "fKind") {
	case 0:
		return gen.Bin("+", gen.Flt("0.1"), gen.Flt("0.2"))
	case 1:
		return gen.Bin("/", gen.Flt("1.0"), gen.Int(int64(3+b.intn(5, "fDiv"))))
	case 2:
		return gen.Bin("*", gen.Flt("0.0"), gen.Int(-1)) // negative zero
	case 3:
		return gen.Call(gen.Var("toFloat"), gen.Int(int64(b.intn(100, "fInt"))))
	case 4:
		return gen.N("neg", gen.Flt(fltPool[b.intn(len(fltPool), "fPool")]))
	}
	return gen.Flt(fltPool[b.intn(len(fltPool), "fPool")])
}

// leaf returns a scalar (or empty container, or function) literal.
func (b *builder) leaf() *gen.Node {
	k := b.intn(16, "leafKind")
	switch k {
	case 0, 1, 2:
		return b.intLeaf()
	case 3, 4, 5:
		return b.fltLeaf()
	case 6, 7, 8:
		return gen.Str(b.strText(), b.intn(4, "sQ"))
	case 9:
		return gen.N("null")
	case 10:
		return gen.N([]string{"true", "false"}[b.intn(2, "bool")])
	case 11:
		return gen.N("arr")
	case 12:
		return gen.N("dict")
	case 13, 14:
		if len(b.fns) > 0 {
			return gen.Var(b.fns[b.intn(len(b.fns), "leafFn")].Name)
		}
		return b.intLeaf()
	}
	// a computed scalar: the result of evaluating an expression
	t := []gen.T{gen.TInt, gen.TFlt, gen.TStr}[b.intn(3, "exprT")]
	return b.g.Expr(t, 1)
}

func (b *builder) tree(d int) *gen.Node {
	if d <= 0 || b.intn(4, "treeLeaf") == 0 {
		return b.leaf()
	}
	if b.intn(2, "treeKind") == 0 {
		a := gen.N("arr")
		n := b.intn(4, "arrN")
		for i := 0; i < n; i++ {
			a.Kids = append(a.Kids, b.tree(d-1))
		}
		return a
	}
	dn := gen.N("dict")
	n := b.intn(4, "dictN")
	if !b.multiKey && n > 1 {
		n = 1
	}
	used := map[string]bool{}
	for i := 0; i < n; i++ {
		k := keyPool[b.intn(len(keyPool), "dictK")]
		if used[k] {
			continue
		}
		used[k] = true
		dn.Kids = append(dn.Kids, gen.Str(k, b.intn(2, "kQ")), b.tree(d-1))
	}
	if len(dn.Kids) > 0 && b.intn(5, "dictTrail") == 0 {
		dn.Q = 1
	}
	return dn
}

func hasKind(n *gen.Node, fnNames map[string]bool) (fn bool, comp bool) {
	n.Walk(func(m *gen.Node) {
		if m.K == "var" && fnNames[m.S] {
			fn = true
		}
		if m.K == "raw" {
			comp = true
		}
	})
	return
}

func (b *builder) fnNames() map[string]bool {
	m := map[string]bool{}
	for _, f := range b.fns {
		m[f.Name] = true
	}
	return m
}

// ---------------------------------------------------------------------------
// statement groups that define things

// defTree: name = <tree>.  The variable is registered with the shared generator as an opaque value.
func (b *builder) defTree(d int) []*gen.Node {
	name := b.g.FreshName()
	lit := b.tree(d)
	fn, _ := hasKind(lit, b.fnNames())
	b.g.Env.Put(&gen.VarInfo{Name: name, T: gen.TAny, Len: -1})
	b.g.Reserve(name)
	b.trees = append(b.trees, treeVar{Name: name, Lit: lit, HasFn: fn})
	return []*gen.Node{gen.Set(name, lit)}
}

// defCompInTree: &tmp = e; [&tmp.hp = v;] name = [ …, &tmp, … ]; tmp = 0 — a computed value that lives inside a
// container only (the temporary is overwritten, so the computed value is reachable from one place).
func (b *builder) defCompInTree() []*gen.Node {
	tmp := b.g.FreshName()
	name := b.g.FreshName()
	saveSide := b.g.O.SideFx
	b.g.O.SideFx = false
	body := b.g.Expr(gen.TInt, 2)
	b.g.O.SideFx = saveSide
	out := []*gen.Node{{K: "setc", S: tmp, Kids: []*gen.Node{body}}}
	if b.intn(2, "citAttr") == 0 {
		out = append(out, &gen.Node{K: "setca", S: tmp, Names: []string{[]string{"x", "y", "hp"}[b.intn(3, "citAttrN")]}, Kids: []*gen.Node{b.attrValue()}})
	}
	raw := &gen.Node{K: "raw", S: tmp}
	var lit *gen.Node
	switch b.intn(3, "citShape") {
	case 0:
		lit = gen.N("arr", b.leaf(), raw)
	case 1:
		lit = gen.N("dict", gen.Str("k", 0), raw)
	default:
		lit = gen.N("arr", gen.N("dict", gen.Str("x", 0), gen.N("arr", raw)))
	}
	fn, _ := hasKind(lit, b.fnNames())
	b.g.Env.Put(&gen.VarInfo{Name: name, T: gen.TAny, Len: -1})
	b.g.Reserve(name)
	b.g.Env.Put(&gen.VarInfo{Name: tmp, T: gen.TInt, Len: -1})
	b.trees = append(b.trees, treeVar{Name: name, Lit: lit, HasFn: fn, HasComp: true})
	return append(out, gen.Set(name, lit), gen.Set(tmp, gen.Int(0)))
}

// defFnBox: a container that certainly holds a function (defined first when there is none yet).
func (b *builder) defFnBox() []*gen.Node {
	var out []*gen.Node
	if len(b.fns) == 0 || b.intn(3, "boxNewFn") == 0 {
		out = append(out, b.defFunc(3)...)
	}
	if len(b.fns) == 0 {
		return append(out, b.defTree(2)...)
	}
	f := gen.Var(b.fns[b.intn(len(b.fns), "boxFn")].Name)
	var lit *gen.Node
	switch b.intn(4, "boxShape") {
	case 0:
		lit = gen.N("arr", b.leaf(), f)
	case 1:
		lit = gen.N("dict", gen.Str([]string{"k", "x", "a b"}[b.intn(3, "boxKey")], 0), f)
	case 2:
		lit = gen.N("arr", gen.N("dict", gen.Str("hp", 0), gen.N("arr", f, b.leaf())), b.tree(1))
	default:
		lit = gen.N("dict", gen.Str("y", 0), gen.N("arr", b.tree(1), f))
	}
	name := b.g.FreshName()
	b.g.Env.Put(&gen.VarInfo{Name: name, T: gen.TAny, Len: -1})
	b.g.Reserve(name)
	b.trees = append(b.trees, treeVar{Name: name, Lit: lit, HasFn: true})
	return append(out, gen.Set(name, lit))
}

// attrValue: what a computed value's attribute may hold (scalars mostly, sometimes a small container).
func (b *builder) attrValue() *gen.Node {
	if b.intn(4, "attrTree") == 0 {
		return b.tree(1)
	}
	return gen.Int(int64(b.intn(20, "attrInt")))
}

// defFunc defines a function through the shared generator and remembers it.
func (b *builder) defFunc(d int) []*gen.Node {
	st := b.g.FuncStmt(d)
	for _, n := range st {
		if n.K == "func" && len(n.Kids) == 1 && b.intn(8, "emptyBody") == 0 {
			n.Kids[0] = gen.Block() // func f(…) {}: does nothing, gives null
		}
		if n.K == "func" {
			b.fns = append(b.fns, fnInfo{Name: n.S, Arity: len(n.Names)})
		}
	}
	return st
}

// defComp defines a computed value (or writes an attribute of an existing one) through the shared generator.
func (b *builder) defComp(d int) []*gen.Node {
	st := b.g.ComputedStmt(d)
	for _, n := range st {
		if n.K == "setc" {
			b.comps = append(b.comps, n.S)
			if b.intn(2, "compAttrNow") == 0 {
				st = append(st, &gen.Node{K: "setca", S: n.S, Names: []string{[]string{"x", "y", "hp"}[b.intn(3, "compAttrN")]}, Kids: []*gen.Node{b.attrValue()}})
			}
			if b.intn(3, "compThis") == 0 {
				// a second computed value that reads its own attribute space
				name := b.g.FreshName()
				attr := []string{"x", "y", "hp"}[b.intn(3, "thisAttr")]
				body := gen.Bin("+", gen.Bin("??", &gen.Node{K: "this", S: attr}, gen.Int(int64(b.intn(9, "thisDflt")))), gen.Int(int64(b.intn(9, "thisAdd"))))
				b.g.Env.Put(&gen.VarInfo{Name: name, T: gen.TComp, Ret: gen.TInt, Len: -1})
				b.comps = append(b.comps, name)
				st = append(st, &gen.Node{K: "setc", S: name, Kids: []*gen.Node{body}},
					&gen.Node{K: "setca", S: name, Names: []string{attr}, Kids: []*gen.Node{gen.Int(int64(b.intn(50, "thisVal")))}})
			}
			break
		}
	}
	return st
}

// ---------------------------------------------------------------------------
// statements that use what the snapshot holds

func plainKey(k string) bool {
	if k == "" {
		return false
	}
	for _, c := range k {
		if !(c == '_' || c == 'x' || c == 'y' || c == 'k' || c == 'h' || c == 'v') {
			return false
		}
	}
	return true
}

// pickPath walks the literal shape of a tree variable and returns an access expression and the literal node it denotes.
// want: "" any node, "arr", "dict", "fn", "leaf".
func (b *builder) pickPath(tv treeVar, stopP int) (*gen.Node, *gen.Node) {
	expr := gen.Var(tv.Name)
	node := tv.Lit
	for steps := 0; steps < 6; steps++ {
		switch node.K {
		case "arr":
			if len(node.Kids) == 0 || b.intn(stopP, "pathStop") == 0 {
				return expr, node
			}
			i := b.intn(len(node.Kids), "pathIdx")
			if b.intn(4, "pathNeg") == 0 {
				expr = gen.N("idx", expr, gen.Int(int64(i-len(node.Kids))))
			} else {
				expr = gen.N("idx", expr, gen.Int(int64(i)))
			}
			node = node.Kids[i]
		case "dict":
			if len(node.Kids) < 2 || b.intn(stopP, "pathStop") == 0 {
				return expr, node
			}
			j := b.intn(len(node.Kids)/2, "pathKey")
			k := node.Kids[2*j].S
			child := node.Kids[2*j+1]
			leafish := child.K != "arr" && child.K != "dict"
			if plainKey(k) && leafish && b.intn(2, "pathAttr") == 0 {
				expr = gen.NS("attr", k, expr)
			} else {
				expr = gen.N("idx", expr, gen.Str(k, b.intn(2, "kQ")))
			}
			node = child
		default:
			return expr, node
		}
	}
	return expr, node
}

func (b *builder) fnArity(name string) int {
	for _, f := range b.fns {
		if f.Name == name {
			return f.Arity
		}
	}
	return 0
}

func (b *builder) args(n int) []*gen.Node {
	var out []*gen.Node
	for i := 0; i < n; i++ {
		if b.intn(4, "argExpr") == 0 {
			out = append(out, b.g.Expr(gen.TInt, 1))
		} else {
			out = append(out, gen.Int(int64(b.intn(7, "argLit"))))
		}
	}
	return out
}

// use returns one follow-up statement; readOnly excludes everything that mutates a container of the snapshot.
func (b *builder) use(readOnly bool) (*gen.Node, string) {
	for try := 0; try < 4; try++ {
		switch b.intn(14, "useKind") {
		case 0, 1:
			if len(b.fns) == 0 {
				continue
			}
			f := b.fns[b.intn(len(b.fns), "useFn")]
			return gen.Call(gen.Var(f.Name), b.args(f.Arity)...), "call-fn"
		case 2, 3:
			if len(b.comps) == 0 {
				continue
			}
			c := b.comps[b.intn(len(b.comps), "useComp")]
			switch b.intn(4, "useCompForm") {
			case 0:
				return gen.Var(c), "read-computed"
			case 1:
				return gen.Bin("+", gen.Var(c), gen.Int(int64(b.intn(5, "cAdd")))), "read-computed"
			case 2:
				return gen.Bin("??", gen.NS("attr", []string{"x", "y", "hp"}[b.intn(3, "cAttr")], &gen.Node{K: "raw", S: c}), gen.Int(0)), "read-computed-attr"
			}
			if readOnly {
				return gen.Var(c), "read-computed"
			}
			return &gen.Node{K: "setca", S: c, Names: []string{[]string{"x", "y", "hp"}[b.intn(3, "cAttr")]}, Kids: []*gen.Node{gen.Int(int64(b.intn(30, "cVal")))}}, "write-computed-attr"
		}
		if len(b.trees) == 0 {
			continue
		}
		tv := b.trees[b.intn(len(b.trees), "useTree")]
		switch b.intn(11, "useTreeKind") {
		case 0:
			return gen.Var(tv.Name), "read-whole"
		case 1, 2:
			e, n := b.pickPath(tv, 5)
			switch {
			case n.K == "var" && b.fnNames()[n.S]:
				return gen.Call(e, b.args(b.fnArity(n.S))...), "call-fn-in-container"
			case n.K == "int":
				return gen.Bin("+", e, gen.Int(1)), "read-path"
			}
			return e, "read-path"
		case 3:
			// call a function that sits in a container
			if !tv.HasFn {
				continue
			}
			for i := 0; i < 6; i++ {
				e, n := b.pickPath(tv, 9)
				if n.K == "var" && b.fnNames()[n.S] {
					return gen.Call(e, b.args(b.fnArity(n.S))...), "call-fn-in-container"
				}
			}
			continue
		case 4:
			e, n := b.pickPath(tv, 3)
			if n.K == "arr" || n.K == "dict" {
				return gen.MCall(e, "len"), "len"
			}
			return gen.Call(gen.Var("typeId"), e), "typeId"
		case 5:
			if tv.HasFn {
				continue // function values compare by identity, which is not documented
			}
			return gen.Bin([]string{"==", "!="}[b.intn(2, "eqOp")], gen.Var(tv.Name), tv.Lit.Clone()), "compare-with-literal"
		case 6:
			if b.multiKey {
				continue
			}
			switch b.intn(3, "textForm") {
			case 0:
				return gen.Call(gen.Var("toStr"), gen.Var(tv.Name)), "text"
			case 1:
				return gen.Call(gen.Var("repr"), gen.Var(tv.Name)), "text"
			}
			return &gen.Node{K: "tmpl", Q: 2, Kids: []*gen.Node{{K: "part", S: "v="}, {K: "hole", Kids: []*gen.Node{gen.Var(tv.Name)}}}}, "text"
		case 7, 8:
			if readOnly {
				continue
			}
			e, n := b.pickPath(tv, 3)
			switch n.K {
			case "arr":
				if len(n.Kids) > 0 && b.intn(2, "mutSet") == 0 {
					return gen.N("setidx", e, gen.Int(int64(b.intn(len(n.Kids), "mutIdx"))), b.tree(1)), "mutate-path"
				}
				return gen.MCall(e, "push", b.tree(1)), "mutate-path"
			case "dict":
				k := keyPool[b.intn(len(keyPool), "mutKey")]
				if !b.multiKey {
					// keep every dict at one key: its text form must not depend on Go map order
					k = "k"
					if len(n.Kids) >= 2 {
						k = n.Kids[0].S
					}
				}
				return gen.N("setidx", e, gen.Str(k, 0), b.tree(1)), "mutate-path"
			}
			continue
		case 9:
			if readOnly {
				continue
			}
			e, n := b.pickPath(tv, 3)
			if n.K == "arr" && len(n.Kids) > 0 {
				return gen.MCall(e, []string{"pop", "shift"}[b.intn(2, "popShift")]), "mutate-path"
			}
			continue
		default:
			// copy a sub-tree out (a new alias is created after the snapshot, which both VMs do alike)
			if readOnly {
				continue
			}
			e, _ := b.pickPath(tv, 3)
			name := b.g.FreshName()
			b.g.Env.Put(&gen.VarInfo{Name: name, T: gen.TAny, Len: -1})
			b.g.Reserve(name)
			return gen.Set(name, e), "alias-after-snapshot"
		}
	}
	return b.g.FinalStmt(2), "gen-final"
}

// ---------------------------------------------------------------------------
// drawing a snap case

func printSeg(t *rapid.T, stmts []*gen.Node, label string) string {
	z := &gen.Noise{Vals: rapid.SliceOfN(rapid.IntRange(0, 1000), 0, 10).Draw(t, label)}
	src, _ := gen.PrintNoisy(gen.Prog(stmts...), z)
	return src
}

func genOpts(cfg vmx.Cfg, noAlias bool) gen.Opts {
	o := gen.DefaultOpts()
	o.MaxStmts = 3
	o.MaxDepth = 3
	o.Dice = true
	o.CoC, o.WoD, o.Fate, o.DC = cfg.CoC, cfg.WoD, cfg.Fate, cfg.DC
	o.SingleKeyDicts = false // since fix 6269628 a dict prints and lists its entries in key order
	o.NoAlias = noAlias
	return o
}

func drawSnap(t *rapid.T, noAlias bool) Case {
	c := Case{Cfg: vmx.DrawCfg(t, true)}
	c.Mode = rapid.SampledFrom([]string{"map", "map", "values", "map-used", "map-used-read", "map-used-del"}).Draw(t, "mode")
	g := gen.NewG(t, genOpts(c.Cfg, noAlias), &gen.Env{})
	b := &builder{t: t, g: g, multiKey: rapid.Bool().Draw(t, "multiKey")}
	nseg := rapid.IntRange(1, 5).Draw(t, "nseg")
	cut := rapid.IntRange(0, nseg).Draw(t, "cut")
	if nseg >= 2 && rapid.IntRange(0, 9).Draw(t, "cutInside") != 0 {
		cut = 1 + rapid.IntRange(0, nseg-2).Draw(t, "cutIn")
	}
	c.Cut = cut
	c.Autosave = rapid.Bool().Draw(t, "autosave")
	// a computed value whose body stores into its own attributes when it is evaluated (one case in eight): defined in the
	// first command, read in later ones (before and after the cut)
	selfStoring := ""
	if rapid.IntRange(0, 7).Draw(t, "selfStoring") == 0 {
		selfStoring = g.FreshName()
		g.Reserve(selfStoring)
	}
	for i := 0; i < nseg; i++ {
		var kinds []string
		if i < cut {
			kinds = []string{"tree", "tree", "func", "func", "fn-box", "comp", "comp", "comp-in-tree", "gen", "gen", "use"}
			if i == 0 && rapid.IntRange(0, 19).Draw(t, "exotic") == 0 {
				kinds = []string{"exotic"}
			}
		} else {
			kinds = []string{"use", "use", "use", "use", "use", "use", "gen", "gen", "gen", "final", "func", "comp", "tree"}
		}
		n := 1 + rapid.IntRange(0, 2).Draw(t, "segStmts")
		var stmts []*gen.Node
		var verbatim []string // statements written out by hand (values the shared generator has no node for)
		var ks string
		for j := 0; j < n; j++ {
			k := rapid.SampledFrom(kinds).Draw(t, "segKind")
			switch k {
			case "tree":
				stmts = append(stmts, b.defTree(1+b.intn(3, "treeD"))...)
			case "func":
				stmts = append(stmts, b.defFunc(3)...)
			case "comp":
				stmts = append(stmts, b.defComp(3)...)
			case "comp-in-tree":
				stmts = append(stmts, b.defCompInTree()...)
			case "fn-box":
				stmts = append(stmts, b.defFnBox()...)
			case "gen":
				stmts = append(stmts, g.Stmt(3)...)
			case "exotic":
				// values outside the property's list that a script can still put into a variable
				name := g.FreshName()
				g.Reserve(name)
				raw := rapid.SampledFrom([]string{"this", "[this]", "[1,2].push", "{'k': [3].kh}", "ceil", "[abs, 1]", "{'f': toStr}", "[1,2].len", "{'a':1}.keys"}).Draw(t, "exoticValue")
				verbatim = append(verbatim, name+" = "+raw)
				stmts = append(stmts, gen.Set(g.FreshName(), gen.Int(int64(len(verbatim)))))
			case "final":
				stmts = append(stmts, g.FinalStmt(3))
			default:
				u, uk := b.use(false)
				k = "use:" + uk
				stmts = append(stmts, u)
			}
			if ks != "" {
				ks += "+"
			}
			ks += k
		}
		c.Kinds = append(c.Kinds, ks)
		if selfStoring != "" {
			if i == 0 {
				verbatim = append(verbatim, "&"+selfStoring+" = (left = (left ?? 6) - 1)")
				ks += "+self-storing-computed"
			} else if rapid.Bool().Draw(t, "readSelfStoring") {
				verbatim = append(verbatim, "rq"+strconv.Itoa(i)+" = ["+selfStoring+", &"+selfStoring+".left]")
				ks += "+read-self-storing"
			}
		}
		seg := printSeg(t, stmts, "noise"+strconv.Itoa(i))
		for _, v := range verbatim {
			seg = v + "; " + seg
		}
		c.Segs = append(c.Segs, seg)
	}
	return c
}

// ---------------------------------------------------------------------------
// drawing a values case

func nonFiniteLeaf(b *builder) *gen.Node {
	inf := gen.Bin("**", gen.Flt("10.0"), gen.Int(400))
	switch b.intn(3, "nfKind") {
	case 0:
		return inf
	case 1:
		return gen.N("neg", inf)
	}
	return gen.Bin("-", inf, inf.Clone()) // NaN
}

// replaceLeaf puts repl at a random leaf position of lit (or wraps lit when it has none).
func replaceLeaf(b *builder, lit *gen.Node, repl *gen.Node) *gen.Node {
	var slots []**gen.Node
	var rec func(n *gen.Node)
	rec = func(n *gen.Node) {
		switch n.K {
		case "arr":
			for i := range n.Kids {
				if n.Kids[i].K == "arr" || n.Kids[i].K == "dict" {
					rec(n.Kids[i])
				} else {
					slots = append(slots, &n.Kids[i])
				}
			}
		case "dict":
			for i := 1; i < len(n.Kids); i += 2 {
				if n.Kids[i].K == "arr" || n.Kids[i].K == "dict" {
					rec(n.Kids[i])
				} else {
					slots = append(slots, &n.Kids[i])
				}
			}
		}
	}
	rec(lit)
	if len(slots) == 0 {
		return gen.N("arr", lit, repl)
	}
	*slots[b.intn(len(slots), "slot")] = repl
	return lit
}

func drawValue(t *rapid.T, avoidDagNow func() bool) Case {
	c := Case{Cfg: vmx.DrawCfg(t, true), ReadOnly: true}
	o := genOpts(c.Cfg, true)
	o.SideFx = false
	g := gen.NewG(t, o, &gen.Env{})
	b := &builder{t: t, g: g, multiKey: rapid.IntRange(0, 2).Draw(t, "multiKey") != 0}
	for _, n := range []string{"x", "s1", "s2", "c1"} {
		g.Reserve(n) // the value and its shared parts: never named or reassigned by the shared generator
	}
	kind := rapid.SampledFrom([]string{"tree", "tree", "tree", "dag", "dag", "cycle", "cycle", "nonfinite", "computed"}).Draw(t, "valueKind")
	if kind == "dag" && avoidDagNow() {
		kind = "tree"
	}
	var setup []*gen.Node
	if rapid.IntRange(0, 2).Draw(t, "withFn") != 0 {
		setup = append(setup, b.defFunc(3)...)
		if rapid.Bool().Draw(t, "twoFns") {
			setup = append(setup, b.defFunc(3)...)
		}
	}
	name := "x"
	var build []*gen.Node
	var lit *gen.Node
	switch kind {
	case "tree":
		lit = b.tree(2 + b.intn(3, "depth"))
		if lit.K != "arr" && lit.K != "dict" {
			lit = gen.N("arr", lit, b.tree(2))
		}
		build = append(build, gen.Set(name, lit))
	case "computed":
		// a computed value as the value itself, with attributes that hold trees
		body := g.Expr(gen.TInt, 2)
		build = append(build, &gen.Node{K: "setc", S: name, Kids: []*gen.Node{body}})
		na := b.intn(3, "nAttrs")
		for i := 0; i < na; i++ {
			build = append(build, &gen.Node{K: "setca", S: name, Names: []string{[]string{"x", "y", "hp"}[i]}, Kids: []*gen.Node{b.tree(2)}})
		}
		b.comps = append(b.comps, name)
	case "dag":
		// t1 is used twice inside t2, t2 twice inside x: shared, acyclic (sharing depth <= 3 keeps the document small)
		t1, t2 := "s1", "s2"
		inner := b.tree(1 + b.intn(2, "dagInner"))
		if b.intn(3, "dagInnerContainer") != 0 && inner.K != "arr" && inner.K != "dict" {
			inner = gen.N("arr", inner)
		}
		if b.intn(3, "dagComputed") == 0 {
			// the shared part holds a computed value (with or without attributes of its own): one value object
			// reached along several paths
			build = append(build, &gen.Node{K: "setc", S: "c1", Kids: []*gen.Node{g.Expr(gen.TInt, 1)}})
			for i, na := 0, b.intn(3, "dagCompAttrs"); i < na; i++ {
				build = append(build, &gen.Node{K: "setca", S: "c1", Names: []string{[]string{"x", "y", "hp"}[i]}, Kids: []*gen.Node{b.tree(1)}})
			}
			raw := &gen.Node{K: "raw", S: "c1"}
			if b.intn(2, "dagCompInDict") == 0 {
				inner = gen.N("dict", gen.Str("k", 0), raw)
			} else {
				inner = gen.N("arr", raw, inner)
			}
		}
		build = append(build, gen.Set(t1, inner))
		mid := gen.N("arr", gen.Var(t1), b.leaf(), gen.Var(t1))
		if b.intn(2, "dagMidDict") == 0 {
			mid = gen.N("dict", gen.Str("a", 0), gen.Var(t1), gen.Str("b", 0), gen.N("arr", gen.Var(t1)))
		}
		lit = mid
		if b.intn(2, "dagLevels") == 0 {
			build = append(build, gen.Set(t2, mid))
			lit = gen.N("arr", gen.Var(t2), gen.Var(t1), gen.Var(t2))
		} else if mid.K == "arr" && b.intn(3, "dagConcat") == 0 {
			// concatenation copies the element references: every element of s2 occurs twice in x
			build = append(build, gen.Set(t2, mid))
			lit = gen.Bin("+", gen.Var(t2), gen.Var(t2))
		}
		build = append(build, gen.Set(name, lit))
		lit = nil // the literal's shape no longer tells the paths
	case "nonfinite":
		lit = replaceLeaf(b, b.tree(1+b.intn(3, "depth")), nonFiniteLeaf(b))
		build = append(build, gen.Set(name, lit))
		lit = nil
	case "cycle":
		switch b.intn(5, "cycleKind") {
		case 0:
			build = append(build, gen.Set(name, gen.N("arr", b.leaf())), gen.MCall(gen.Var(name), "push", gen.Var(name)))
		case 1:
			build = append(build, gen.Set(name, gen.N("dict", gen.Str("a", 0), b.leaf())), gen.N("setidx", gen.Var(name), gen.Str("self", 0), gen.Var(name)))
		case 2:
			// a longer cycle through both container kinds
			build = append(build, gen.Set("s1", gen.N("arr", b.leaf())), gen.Set(name, gen.N("dict", gen.Str("k", 0), gen.N("arr", gen.Var("s1")))),
				gen.MCall(gen.Var("s1"), "push", gen.Var(name)))
		case 3:
			build = append(build, &gen.Node{K: "setc", S: name, Kids: []*gen.Node{gen.Int(1)}},
				&gen.Node{K: "setca", S: name, Names: []string{"k"}, Kids: []*gen.Node{&gen.Node{K: "raw", S: name}}})
		default:
			build = append(build, &gen.Node{K: "setc", S: name, Kids: []*gen.Node{gen.Int(1)}},
				&gen.Node{K: "setca", S: name, Names: []string{"k"}, Kids: []*gen.Node{gen.N("arr", gen.N("dict", gen.Str("c", 0), &gen.Node{K: "raw", S: name}))}})
		}
	}
	if lit != nil {
		fn, _ := hasKind(lit, b.fnNames())
		b.trees = append(b.trees, treeVar{Name: name, Lit: lit, HasFn: fn})
	}
	c.Kinds = []string{kind}
	if len(setup) > 0 {
		c.Segs = append(c.Segs, printSeg(t, setup, "noiseSetup"))
	}
	c.Segs = append(c.Segs, printSeg(t, build, "noiseBuild"))
	c.Cut = len(c.Segs)
	c.Mode = rapid.SampledFrom([]string{"value:x", "value:x", "value:x", "map", "values"}).Draw(t, "mode")
	nu := rapid.IntRange(0, 3).Draw(t, "nUses")
	for i := 0; i < nu; i++ {
		var u *gen.Node
		if lit == nil && kind != "computed" {
			// the shape is not known statically: whole-value reads
			switch b.intn(4, "blindUse") {
			case 0:
				u = gen.Var(name)
			case 1:
				u = gen.MCall(gen.Var(name), "len")
			case 2:
				u = gen.N("idx", gen.Var(name), gen.Int(0))
			default:
				u = gen.Bin("==", gen.Var(name), gen.Var(name))
			}
		} else {
			u, _ = b.use(true)
		}
		c.Segs = append(c.Segs, printSeg(t, []*gen.Node{u}, "noiseUse"+strconv.Itoa(i)))
	}
	return c
}
