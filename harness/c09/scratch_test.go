package c09

import (
	"fmt"
	"os"
	"strings"
	"testing"

	ds "github.com/sealdice/dicescript"

	"verif/harness/rt"
	"verif/harness/vmx"
)

func TestScratch(t *testing.T) {
	if os.Getenv("C09_SCRATCH") == "" {
		t.Skip()
	}
	progs := []string{
		"x=[[1]]; y=[x,x]",
		"x=[[1]]; y=x",
		"x={'a':[1]}; y=[x,x]",
		"x={'a':{}}; y=x",
		"x=[1]; y=[x,x]; z=[y,y]",
		"&c = 1; &c.k = [1]; y = &c",
		"&c = 1; y = [&c, &c]",
		"func f() { 1 }; y=[f,f]",
		"x=[0]; x[0]=x",
		"x={'a':[0]}; x.a[0] = x",
	}
	for _, p := range progs {
		vm := ds.NewVM()
		vm.Config.OpCountLimit = 30000
		var err error
		pi := rt.Guard(func() { err = vm.Run(p) })
		fmt.Printf("---- %q\n  err=%v panic=%v rest=%q attrs=%s\n", p, err, pi != nil, vm.RestInput, vmx.AttrsRepr(vm))
		var b []byte
		pi = rt.Guard(func() { b, err = vm.Attrs.ToJSON() })
		if pi != nil {
			fmt.Printf("  ToJSON panic %s\n", pi.Value)
			continue
		}
		fmt.Printf("  json=%s err=%v\n", b, err)
		if err != nil {
			continue
		}
		m := &ds.ValueMap{}
		err = m.UnmarshalJSON(b)
		vm2 := ds.NewVM()
		vm2.Attrs = m
		fmt.Printf("  restored err=%v attrs=%s same=%v\n", err, vmx.AttrsRepr(vm2), vmx.AttrsRepr(vm2) == vmx.AttrsRepr(vm))
	}
	_ = strings.Join
}
