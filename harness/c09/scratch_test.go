package c09

import (
	"fmt"
	"os"
	"testing"

	ds "github.com/sealdice/dicescript"
)

func TestScratch(t *testing.T) {
	if os.Getenv("C09_SCRATCH") == "" {
		t.Skip()
	}
	for _, body := range []string{"func g() { true }", "func g() { return 1 }", "func g() { 1; 2 }", "&g = 1 + 2"} {
		vm := ds.NewVM()
		_ = vm.Run(body)
		v, _ := vm.Attrs.Load("g")
		code, ok := ds.VerifBodyCode(v)
		fmt.Println(body, "eager", ok, code)
		b, _ := v.ToJSON()
		v2, _ := ds.VMValueFromJSON(b)
		vm2 := ds.NewVM()
		vm2.Attrs.Store("g", v2)
		src := "g()"
		if body[0] == '&' {
			src = "g"
		}
		err := vm2.Run(src)
		code2, ok2 := ds.VerifBodyCode(v2)
		fmt.Println("   lazy", ok2, code2, err, vm2.NumOpCount)
		err = vm.Run(src)
		fmt.Println("   eager ops", err, vm.NumOpCount)
		err = vm2.Run(src)
		fmt.Println("   lazy 2nd ops", err, vm2.NumOpCount)
	}
}
