// C09 — JSON snapshot and restore of variables is transparent.
//
// Sections
//
//	snap    generated program cut into segments; the store of VM_A is snapshotted after a prefix, restored into a
//	        fresh VM_B (same configuration, generator resumed from A's current seed), and the remaining segments are
//	        run on both (metamorphic oracle: A is the expected behaviour of B), plus the structural round trip.
//	values  one value with deep / mixed / shared (DAG) / cyclic / non-finite content: VMValue.ToJSON -> VMValueFromJSON,
//	        read-only follow-ups; unrepresentable values must give an error.
//	enum    bounded exhaustive: every value literal of depth <= 2 over a fixed leaf alphabet, structural round trip.
package c09

import (
	"bytes"
	"encoding/hex"
	"encoding/json"
	"fmt"
	"math"
	"sort"
	"strings"
	"testing"

	ds "github.com/sealdice/dicescript"

	"verif/harness/rt"
	"verif/harness/vmx"
)

const (
	avoidAlias = "alias_across_snapshot"    // C09-F01: a tree-shaped document cannot carry aliasing
	avoidDag   = "shared_reported_as_cycle" // C09-F02 (fixed 78e6f2b): ToJSON reported a shared (acyclic) container as a cycle; the switch is honoured should it return
	avoidMacro = "macro_before_snapshot"    // C09-F04: dice macros in force at a definition are not part of the snapshot
	sigMacro   = "class:" + avoidMacro
	sigAlias   = "class:" + avoidAlias
	sigDag     = "class:" + avoidDag
	workCeil   = 3_000_000
)

// Case is one snapshot experiment.  Segs[:Cut] build the state, the snapshot is
// taken, Segs[Cut:] are the follow-up programs run on both VMs.
type Case struct {
	Cfg  vmx.Cfg  `json:"cfg"`
	Segs []string `json:"segs"`
	Cut  int      `json:"cut"`
	// Mode: "map" (ValueMap.ToJSON / json.Unmarshal into a ValueMap; "map-used", "map-used-read", "map-used-del": into a ValueMap that already holds other variables), "values" (VMValue.ToJSON and VMValueFromJSON per
	// variable), "value:<name>" (that one variable only; the rest of the store is copied by reference)
	Mode string `json:"mode"`
	// ReadOnly: the follow-ups do not mutate containers of the snapshot, so sharing inside it is not observable
	ReadOnly bool `json:"readOnly,omitempty"`
	// Autosave: the host takes (and throws away) a snapshot of the whole store after every command before the cut
	Autosave bool     `json:"autosave,omitempty"`
	Kinds    []string `json:"kinds,omitempty"` // informational
}

// ---------------------------------------------------------------------------
// inspecting a store

type shape struct {
	Cyclic    bool
	Shared    bool // some array / dict / computed value is reachable along two paths (and there is no cycle through it)
	NonFinite bool
	Native    bool
	MultiKey  bool // some dict has two or more keys (its text form depends on Go map order)
	Depth     int  // container nesting below a variable: [1] is 1, [[1]] is 2, a computed value's attribute map counts
	Funcs     int
	Comps     int
	lazy      []*ds.VMValue // functions and computed values met
}

func (sh *shape) walk(v *ds.VMValue, depth int, onPath, seen map[any]bool) {
	if v == nil {
		return
	}
	if depth > sh.Depth {
		sh.Depth = depth
	}
	enter := func(key any) bool {
		if onPath[key] {
			sh.Cyclic = true
			return false
		}
		if seen[key] {
			sh.Shared = true
			return false
		}
		seen[key] = true
		onPath[key] = true
		return true
	}
	switch v.TypeId {
	case ds.VMTypeFloat:
		f, _ := v.ReadFloat()
		if math.IsNaN(f) || math.IsInf(f, 0) {
			sh.NonFinite = true
		}
	case ds.VMTypeArray:
		ad, ok := v.ReadArray()
		if !ok || ad == nil {
			return
		}
		if !enter(ad) {
			return
		}
		for _, e := range ad.List {
			sh.walk(e, depth+1, onPath, seen)
		}
		delete(onPath, ad)
	case ds.VMTypeDict:
		dd, ok := v.ReadDictData()
		if !ok || dd == nil || dd.Dict == nil {
			return
		}
		if dd.Dict.Length() >= 2 {
			sh.MultiKey = true
		}
		if !enter(dd.Dict) {
			return
		}
		sh.walkMap(dd.Dict, depth+1, onPath, seen)
		delete(onPath, dd.Dict)
	case ds.VMTypeComputedValue:
		cd, ok := v.ReadComputed()
		if !ok || cd == nil {
			return
		}
		sh.Comps++
		sh.lazy = append(sh.lazy, v)
		if !enter(cd) {
			return
		}
		if cd.Attrs != nil {
			sh.walkMap(cd.Attrs, depth+1, onPath, seen)
		}
		delete(onPath, cd)
	case ds.VMTypeFunction:
		sh.Funcs++
		sh.lazy = append(sh.lazy, v)
	case ds.VMTypeNativeFunction, ds.VMTypeNativeObject:
		sh.Native = true
	case ds.VMTypeInt, ds.VMTypeString, ds.VMTypeNull:
	default:
		sh.Native = true // `this` and whatever else has no JSON form: like a native value, an error or a faithful round trip
	}
}

func (sh *shape) walkMap(m *ds.ValueMap, depth int, onPath, seen map[any]bool) {
	type kv struct {
		k string
		v *ds.VMValue
	}
	var items []kv
	m.Range(func(k string, v *ds.VMValue) bool {
		items = append(items, kv{k, v})
		return true
	})
	sort.Slice(items, func(i, j int) bool { return items[i].k < items[j].k })
	for _, it := range items {
		sh.walk(it.v, depth, onPath, seen)
	}
}

func inspectMap(m *ds.ValueMap) *shape {
	sh := &shape{}
	if m != nil {
		sh.walkMap(m, 0, map[any]bool{}, map[any]bool{})
	}
	return sh
}

func inspectValue(v *ds.VMValue) *shape {
	sh := &shape{}
	sh.walk(v, 0, map[any]bool{}, map[any]bool{})
	return sh
}

// ---------------------------------------------------------------------------
// running

type outcome struct {
	pi      *rt.PanicInfo
	ceiling bool
	err     error
	ret     string
	matched string
	rest    string
	detail  string
	attrs   string
	seed    string
	ops     int64
}

func runSeg(vm *ds.Context, src string) outcome {
	var o outcome
	ds.VerifMeterReset(workCeil)
	o.pi = rt.Guard(func() {
		o.err = vm.Run(src)
		if o.err == nil {
			o.ret = vmx.Repr(vm.Ret)
			o.matched = vm.Matched
			o.rest = vm.RestInput
			o.detail = vm.GetDetailText()
		}
		o.ops = int64(vm.NumOpCount)
	})
	ds.VerifMeterReset(0)
	if o.pi != nil {
		if _, hit := o.pi.Raw.(ds.VerifCeilingHit); hit {
			o.ceiling = true
		}
		return o
	}
	o.attrs = vmx.AttrsRepr(vm)
	o.seed = vmx.SeedHex(vm)
	return o
}

// sameModuloDictOrder: process text prints dicts through ToString, whose entry
// order is Go map order; two texts that contain a dict rendering and are byte
// permutations of each other are taken to be the same text.
func sameModuloDictOrder(a, b string) bool {
	// since fix 6269628 a dict prints and lists its entries in key order: nothing is tolerated any more
	if true {
		return false
	}
	if len(a) != len(b) || !strings.Contains(a, "{") {
		return false
	}
	var ca, cb [256]int
	for i := 0; i < len(a); i++ {
		ca[a[i]]++
		cb[b[i]]++
	}
	return ca == cb
}

func clip(s string, n int) string {
	if len(s) > n {
		return s[:n] + "…"
	}
	return s
}

// canonJSON re-marshals a document with sorted keys and the number tokens kept verbatim.
func canonJSON(b []byte) (string, error) {
	dec := json.NewDecoder(bytes.NewReader(b))
	dec.UseNumber()
	var v any
	if err := dec.Decode(&v); err != nil {
		return "", err
	}
	out, err := json.Marshal(v)
	return string(out), err
}

func isCycleErr(err error) bool {
	return err != nil && strings.Contains(err.Error(), "循环引用")
}

// ---------------------------------------------------------------------------
// snapshot and restore

// snapshotStore serialises the store of vm in the given mode.
func snapshotStore(vm *ds.Context, mode string) (doc []byte, err error, pi *rt.PanicInfo) {
	pi = rt.Guard(func() {
		switch {
		case mode == "values" || strings.HasPrefix(mode, "value:"):
			only := strings.TrimPrefix(mode, "value:")
			parts := map[string]json.RawMessage{}
			var names []string
			vm.Attrs.Range(func(k string, v *ds.VMValue) bool {
				names = append(names, k)
				return true
			})
			sort.Strings(names)
			for _, k := range names {
				if mode != "values" && k != only {
					continue
				}
				v, _ := vm.Attrs.Load(k)
				var b []byte
				b, err = v.ToJSON()
				if err != nil {
					return
				}
				if len(b) == 0 {
					err = fmt.Errorf("ToJSON of variable %s returned no bytes and no error", k)
					return
				}
				parts[k] = b
			}
			doc, err = json.Marshal(parts)
		default:
			doc, err = vm.Attrs.ToJSON()
		}
	})
	return
}

// restoreStore builds the variable map of the restored VM.
func restoreStore(doc []byte, mode string, orig *ds.ValueMap) (m *ds.ValueMap, err error, pi *rt.PanicInfo) {
	pi = rt.Guard(func() {
		m = &ds.ValueMap{}
		switch {
		case mode == "values" || strings.HasPrefix(mode, "value:"):
			var parts map[string]json.RawMessage
			if err = json.Unmarshal(doc, &parts); err != nil {
				return
			}
			if mode != "values" {
				// the other variables are carried over as they are (the section looks at one value)
				orig.Range(func(k string, v *ds.VMValue) bool {
					m.Store(k, v)
					return true
				})
			}
			keys := make([]string, 0, len(parts))
			for k := range parts {
				keys = append(keys, k)
			}
			sort.Strings(keys)
			for _, k := range keys {
				var v *ds.VMValue
				v, err = ds.VMValueFromJSON(parts[k])
				if err != nil {
					return
				}
				m.Store(k, v)
			}
		case strings.HasPrefix(mode, "map-used"):
			// the host restores into the variable store of a VM that is in use: what the store held is replaced
			// (UnmarshalJSON clears it first), whatever state its internals are in: keys only written ("map-used"),
			// keys written and read back so that they were promoted ("map-used-read"), keys written and deleted
			for i, k := range []string{"陈旧", "stale_hp", "x", "mp"} {
				m.Store(k, ds.NewIntVal(ds.IntType(900+i)))
			}
			switch mode {
			case "map-used-read":
				for i := 0; i < 8; i++ {
					m.Load("stale_hp")
					m.Load("nope")
				}
				m.Store("late", ds.NewIntVal(1))
			case "map-used-del":
				m.Range(func(string, *ds.VMValue) bool { return true })
				m.Delete("mp")
				m.Store("late", ds.NewIntVal(1))
			}
			err = json.Unmarshal(doc, m)
		default:
			err = json.Unmarshal(doc, m)
		}
	})
	return
}

// info is what a case turned out to be (for the non-triviality rule and the class histogram).
type info struct {
	judged     bool
	depth      int
	funcs      int
	comps      int
	evaluated  bool // a function / computed value of the snapshot was compiled lazily by a follow-up
	followups  int
	errFollow  int
	expectErr  string
	sharedRead bool
}

func firstDiff(a, b string) string {
	n := len(a)
	if len(b) < n {
		n = len(b)
	}
	i := 0
	for i < n && a[i] == b[i] {
		i++
	}
	lo := i - 60
	if lo < 0 {
		lo = 0
	}
	return fmt.Sprintf("at byte %d: …%s  vs  …%s", i, clip(a[lo:], 200), clip(b[lo:], 200))
}

func checkCase(c Case, s *rt.Section) (*rt.Failure, info) {
	var in info
	if c.Cut < 0 || c.Cut > len(c.Segs) {
		return s.NewFailure("replay", "replay:bad-case", c, "cut outside the segment list", ""), in
	}
	A := c.Cfg.NewVM()
	for i := 0; i < c.Cut; i++ {
		o := runSeg(A, c.Segs[i])
		if o.ceiling {
			s.Discard("work-ceiling")
			return nil, in
		}
		if o.pi != nil {
			// a crash of the original VM is C01's subject
			s.Discard("original-panics")
			return nil, in
		}
		// a host that saves after every command: the earlier snapshots are thrown away, the one judged is the last; taking
		// a snapshot changes nothing
		if c.Autosave && i+1 < c.Cut {
			_ = rt.Guard(func() { _, _ = A.Attrs.ToJSON() })
		}
	}
	only := ""
	if strings.HasPrefix(c.Mode, "value:") {
		only = strings.TrimPrefix(c.Mode, "value:")
	}
	var sh *shape
	if only != "" {
		v, ok := A.Attrs.Load(only)
		if !ok {
			s.Discard("build-failed")
			return nil, in
		}
		sh = inspectValue(v)
	} else {
		sh = inspectMap(A.Attrs)
	}
	in.depth, in.funcs, in.comps = sh.Depth, sh.Funcs, sh.Comps
	// built-in functions, bound methods (x = [1,2].push) and `this` are not in the property's list of values; a store
	// that holds one either refuses to serialise or round-trips faithfully (a built-in by its name): never an invalid
	// document, never a silently different value. Follow-up programs are not compared for such stores.
	exotic := sh.Native
	tag := func(sig string) string { return sig }
	if sh.Shared && !sh.Cyclic {
		if !c.ReadOnly {
			if s.Avoid(avoidAlias) {
				return nil, in
			}
			tag = func(string) string { return sigAlias }
		} else {
			in.sharedRead = true
		}
	}
	for i := 0; i < c.Cut; i++ {
		// a function defined under a dice macro is compiled with the macro's switches, and recompiled without them after
		// a restore (C09-F04); the generators never write macros, this only classifies hand-written cases
		if strings.Contains(c.Segs[i], "#EnableDice") {
			if s.Avoid(avoidMacro) {
				return nil, in
			}
			tag = func(string) string { return sigMacro }
		}
	}
	before := vmx.AttrsRepr(A)
	doc, err, pi := snapshotStore(A, c.Mode)
	if pi != nil {
		return s.NewFailure("snapshot", pi.Sig(), c, "ToJSON panics: "+pi.Value+"\n"+pi.Stack, "a document or an error"), in
	}
	if after := vmx.AttrsRepr(A); after != before {
		return s.NewFailure("snapshot", tag("c09:snapshot-changes-store"), c, after, before), in
	}
	if sh.Cyclic || sh.NonFinite {
		what := "cycle"
		if !sh.Cyclic {
			what = "nonfinite"
		}
		in.expectErr = what
		in.judged = true
		if err == nil {
			return s.NewFailure("unrepresentable", "c09:no-error/"+what, c, "ToJSON returned "+clip(string(doc), 300), "an error: the store holds a "+what), in
		}
		// the VM must still be usable
		o := runSeg(A, "1")
		if o.pi != nil || o.err != nil {
			return s.NewFailure("unrepresentable", "c09:vm-unusable-after-error", c, fmt.Sprint(o.err, o.pi), "the VM evaluates 1"), in
		}
		return nil, in
	}
	if err != nil && exotic {
		s.Class("store-with-native-value:refused")
		in.judged = true
		return nil, in
	}
	if err != nil {
		if sh.Shared && isCycleErr(err) {
			return s.NewFailure("snapshot", sigDag, c, "ToJSON: "+err.Error()+"   store: "+clip(before, 400), "a document: the store has shared containers but no reference cycle"), in
		}
		return s.NewFailure("snapshot", tag("c09:tojson-error"), c, "ToJSON: "+err.Error()+"   store: "+clip(before, 400), "a document"), in
	}
	if !json.Valid(doc) {
		return s.NewFailure("snapshot", tag("c09:invalid-json"), c, clip(string(doc), 600), "a JSON document"), in
	}
	docKept := string(doc) // a copy: what the bytes were when the snapshot was taken
	m, err, pi := restoreStore(doc, c.Mode, A.Attrs)
	if pi != nil {
		return s.NewFailure("restore", pi.Sig(), c, "decoding the snapshot panics: "+pi.Value+"\n"+pi.Stack, "a store"), in
	}
	if err != nil {
		return s.NewFailure("restore", tag("c09:restore-error"), c, err.Error()+"   document: "+clip(string(doc), 400), "the encoder's own output decodes"), in
	}
	cur, err := A.GetCurSeed()
	if err != nil {
		s.Discard("no-seed")
		return nil, in
	}
	cfgB := c.Cfg
	cfgB.SeedHex = hex.EncodeToString(cur)
	B := cfgB.NewVM()
	B.Attrs = m
	in.judged = true
	// (a) structurally equal store, and a second round trip gives the same document up to key order
	if got := vmx.AttrsRepr(B); got != before {
		return s.NewFailure("roundtrip", tag("c09:roundtrip"), c, firstDiff(got, before)+"\ndocument: "+clip(string(doc), 600), "restored store == original store"), in
	}
	if exotic {
		s.Class("store-with-native-value:round-trips")
		return nil, in
	}
	doc2, err, pi := snapshotStore(B, c.Mode)
	if pi != nil || err != nil {
		return s.NewFailure("roundtrip", tag("c09:second-snapshot"), c, fmt.Sprint(err, pi), "the restored store serialises"), in
	}
	c1, e1 := canonJSON(doc)
	c2, e2 := canonJSON(doc2)
	if e1 != nil || e2 != nil || c1 != c2 {
		return s.NewFailure("roundtrip", tag("c09:second-roundtrip"), c, firstDiff(c2, c1), "second round trip byte-identical up to key order"), in
	}
	shB := inspectMap(B.Attrs)
	if only != "" {
		v, _ := B.Attrs.Load(only)
		shB = inspectValue(v)
	}
	for _, v := range shB.lazy {
		if _, has := ds.VerifBodyCode(v); has {
			return s.NewFailure("harness", "harness:restored-value-has-code", c, vmx.Repr(v), "restored functions carry no compiled code"), in
		}
	}
	// (b) the follow-up programs behave the same on both
	var opsFailure *rt.Failure // reported only when nothing else differs (so that the search goes on behind it)
	for i := c.Cut; i < len(c.Segs); i++ {
		src := c.Segs[i]
		oa := runSeg(A, src)
		if oa.ceiling {
			s.Discard("work-ceiling")
			break
		}
		if oa.pi != nil {
			s.Discard("original-panics")
			break
		}
		ob := runSeg(B, src)
		where := fmt.Sprintf("follow-up %d %q", i-c.Cut, clip(src, 300))
		if ob.ceiling {
			return s.NewFailure("follow-up", tag("c09:follow/work"), c, where+": the restored VM exceeds the work ceiling, the original does not", "same behaviour"), in
		}
		if ob.pi != nil {
			return s.NewFailure("follow-up", tag(ob.pi.Sig()), c, where+": the restored VM panics: "+ob.pi.Value+"\n"+ob.pi.Stack, "as the original: "+clip(oa.ret, 200)), in
		}
		in.followups++
		if (oa.err != nil) != (ob.err != nil) {
			return s.NewFailure("follow-up", tag("c09:follow/error"), c, fmt.Sprintf("%s: restored err=%v ret=%s", where, ob.err, clip(ob.ret, 300)),
				fmt.Sprintf("original err=%v ret=%s", oa.err, clip(oa.ret, 300))), in
		}
		type cmp struct{ what, a, b string }
		list := []cmp{{"attrs", oa.attrs, ob.attrs}, {"seed", oa.seed, ob.seed}, {"ops", fmt.Sprint(oa.ops), fmt.Sprint(ob.ops)}}
		if oa.err == nil {
			list = append([]cmp{{"ret", oa.ret, ob.ret}, {"matched", oa.matched, ob.matched}, {"rest", oa.rest, ob.rest}, {"detail", oa.detail, ob.detail}}, list...)
		} else {
			in.errFollow++
		}
		for _, x := range list {
			if x.a == x.b {
				continue
			}
			if x.what == "detail" {
				// text forms of dicts follow Go map order, and ToString abbreviates a container it has already printed
				// (shared sub-containers print as {...}): neither is the subject here
				if sameModuloDictOrder(x.a, x.b) {
					s.Class("detail-differs-only-in-dict-order")
					continue
				}
				if in.sharedRead {
					s.Class("detail-not-compared(shared sub-container)")
					continue
				}
			}
			sig := "c09:follow/" + x.what
			if x.what == "ops" {
				// more operations after the restore (C09-F03, fixed 84c865f: +1 per evaluation of a restored body) or fewer
				sig = "c09:follow/ops-fewer"
				if d := ob.ops - oa.ops; d > 0 && d <= oa.ops/100+1 {
					sig = "c09:follow/ops-more"
				} else if d > 0 {
					sig = "c09:follow/ops-many-more"
				}
			}
			f := s.NewFailure("follow-up", tag(sig), c, fmt.Sprintf("%s: restored %s = %s", where, x.what, clip(x.b, 500)),
				fmt.Sprintf("original %s = %s", x.what, clip(x.a, 500)))
			if x.what == "ops" {
				if opsFailure == nil {
					opsFailure = f
				}
				continue
			}
			return f, in
		}
	}
	// a snapshot is the host's: taking another one of the same store later (a second save point) leaves its bytes alone
	if _, e2, p2 := snapshotStore(A, c.Mode); e2 == nil && p2 == nil {
		if string(doc) != docKept {
			return s.NewFailure("snapshot", tag("c09:snapshot-bytes-changed"), c, "after a later snapshot of the same store the first document reads "+clip(string(doc), 300), "the bytes it had when it was taken: "+clip(docKept, 300)), in
		}
	}
	for _, v := range shB.lazy {
		if _, has := ds.VerifBodyCode(v); has {
			in.evaluated = true
			break
		}
	}
	return opsFailure, in
}

func replayCase(b []byte, s *rt.Section) *rt.Failure {
	var c Case
	if err := json.Unmarshal(b, &c); err != nil {
		return s.NewFailure("replay", "replay:bad-case", nil, err.Error(), "")
	}
	f, _ := checkCase(c, s)
	return f
}

func TestReplay(t *testing.T) {
	rt.Replay(t, "C09", map[string]rt.ReplayFunc{"snap": replayCase, "values": replayCase, "enum": replayEnum, "capacity": replayCase})
}
