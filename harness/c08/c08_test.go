// C08 — compiled code is well-formed on every path, not only the path taken.
package c08

import (
	"encoding/json"
	"fmt"
	"strings"
	"testing"

	ds "github.com/sealdice/dicescript"
	"pgregory.net/rapid"

	"verif/harness/bcverify"
	"verif/harness/gen"
	"verif/harness/rt"
	"verif/harness/vmx"
)

type Case struct {
	Cfg  vmx.Cfg `json:"cfg"`
	Src  string  `json:"src"`
	Kind string  `json:"kind,omitempty"`
	// Custom: custom dice syntaxes the host registered (regular expressions, index+1 into customPatterns, in this order):
	// whether they match, match nothing, or could match the empty string, the compiled code stays well-formed
	Custom []int `json:"custom,omitempty"`
}

var customPatterns = []string{`E(\d+)`, `(E(\d+))?`, `Q*`, `(?:#\d+)?`, `\s*`, `(\d+)!`, `x(\d*)`, `[gh]\d`, `\)\s*`, `[,;]\s*\S?`, `(?:)`, `\d+\.\d+`}

func newVM(c Case) *ds.Context {
	vm := c.Cfg.NewVM()
	for _, k := range c.Custom {
		if k >= 1 && k <= len(customPatterns) {
			_ = vm.RegCustomDice(customPatterns[k-1], func(ctx *ds.Context, groups []string, payload any) (*ds.VMValue, string, error) {
				return ds.NewIntVal(7), "", nil
			})
		}
	}
	return vm
}

func listing(code []ds.VerifOp) string {
	var sb strings.Builder
	for i, c := range code {
		arg := ""
		switch a := c.Arg.(type) {
		case nil:
		case *ds.VMValue:
			arg = " <value>"
		default:
			arg = fmt.Sprintf(" %v", a)
			if len(arg) > 40 {
				arg = arg[:40] + "…"
			}
		}
		fmt.Fprintf(&sb, "%d:%s%s; ", i, c.Op, arg)
		if i > 120 {
			sb.WriteString("…")
			break
		}
	}
	return sb.String()
}

// checkCase parses (never executes) and verifies the compiled program and every nested body.
func checkCase(c Case, s *rt.Section) (*rt.Failure, *bcverify.Stats, bool) {
	vm := newVM(c)
	ds.VerifMarkUnpatched.Store(true)
	defer ds.VerifMarkUnpatched.Store(false)
	var err error
	pi := rt.Guard(func() { err = vm.Parse(c.Src) })
	if pi != nil {
		return s.NewFailure("parse-no-panic", pi.Sig(), c, "Parse panics: "+pi.Value, "an error or compiled code"), nil, false
	}
	if err != nil {
		return nil, nil, false
	}
	code := vm.VerifCode()
	st := &bcverify.Stats{}
	var vs []bcverify.Violation
	pv := rt.Guard(func() { vs = bcverify.Verify(code, st) })
	if pv != nil {
		return s.NewFailure("verifier", "harness:verifier-panic", c, pv.Value+"\n"+pv.Stack, "verifier terminates"), st, true
	}
	if len(vs) == 0 {
		// cross-check of the verifier's opcode table against the VM: code that the verifier accepts must not
		// trip the dispatch loop's stack handling on the path that actually runs (small budget, fresh VM,
		// jump sentinel off)
		ds.VerifMarkUnpatched.Store(false)
		vm2 := newVM(c)
		vm2.Config.OpCountLimit = 3000
		vm2.Config.CallbackSt = func(string, string, *ds.VMValue, *ds.VMValue, string, string) {}
		ds.VerifMeterReset(2_000_000)
		pr := rt.Guard(func() { _ = vm2.Run(c.Src) })
		ds.VerifMeterReset(0)
		if pr != nil {
			if _, hit := pr.Raw.(ds.VerifCeilingHit); !hit && strings.HasPrefix(pr.Func, "(*Context).evaluate") &&
				(pr.Class == "index" || pr.Class == "slice" || pr.Class == "type-assertion" || pr.Class == "nil") {
				return s.NewFailure("verified-code-runs", "bc:runtime:"+pr.Sig(), c,
					"the verifier accepts this code but executing it panics in the dispatch loop: "+pr.Value+" | code: "+listing(code),
					"accepted code never trips the VM's stack or operand handling"), st, true
			}
		}
		return nil, st, true
	}
	v := vs[0]
	var all []string
	for _, x := range vs {
		all = append(all, x.String())
	}
	return s.NewFailure("well-formed", v.Sig(), c, strings.Join(all, " | ")+"\ncode: "+listing(code), "every path well-formed"), st, true
}

var fixedProgs = []string{
	"1 || 2", "1 || 2 || 3", "1 && 2", "x = 1; x", "if 1 { 2 } else { 3 }", "i=0; while i<3 { i=i+1 }", "i=0; while i<3 { i=i+1; if i>1 { break } }",
	"i=0; while i<3 { i=i+1; if i>1 { continue } }", "func g(n) { if n { return 1 } 2 }; g(1)", "&c = 1d6+2; c", "`a{1}b{% x=2 %}`", "dct = {}; dct.k = 1",
	"x=[1,2]; x[0] = 5", "x=[1,2]; x[0:1] = [3]", "1 ? 2 : 3", "0 ? 2, 1 ? 3", "[1,2,3][1:2]", "2d6kh1", "d20优势", "3d", "d", "f", "b2", "p", "2a5k6", "2c5m7", "^st力量60敏捷70",
	"dct = {}; dct.k = dct['j'] = []", "x=[1,2]; y = x[0] = 5", "x=[1,2]; y=[3]; x[0] = y[0] = 7", "x=[1,2,3]; y = x[0:1] = [9]", "x={}; y = x.a = 3; y", "func g(n) { n }; x={}; g(x.a = 2)", "x={}; [x.a = 1, x.b = 2]",
	"[1 ? 2, 3]", "[0 ? 2, 3]", "c=1; [c ? 2, 3]", "func g(x,y){x+y}; g(1 ? 2, 3)", "{'a': 1 ? 2, 'b': 3}", "[0 ? 1, 0 ? 2, 3, 4]", "c=0; x = [c ? 2, c ? 3, 5]; x",
	"i=0; while i<3 { i=i+1; x = `a{% if i>1 { continue } %}b` }", "i=0; while i<3 { i=i+1; x = `a{% break %}b` }", "i=0; while i<3 { i=i+1; x = [1, `{% continue %}`] }",
	"`a{% i=0; while i<3 { i=i+1; if i==2 { break } } %}b{i}`", "func g() { `a{% return 5 %}b` }; g()",
	// a complete loop runs in the hole before the jump that leaves it is taken
	"`A{ i=0; while i<2 { i=i+1; `x{ j=0; while j<1 {j=j+1}; if i==1 {continue}; i }` }; 'z' }B`",
	"`[{ i=0; while i<3 { i=i+1; `x{% j=0; while j<1 {j=j+1}; if i==2 {break}; i %}` }; i }]`",
	"i=0; while i<2 { i=i+1; x = `x{ j=0; while j<1 {j=j+1}; if i==1 {continue}; i }` }",
	"i=0; while i<2 { i=i+1; x = `x{ j=0; while j<2 {j=j+1; if j==1 {continue}}; if i==1 {break}; i }y` }; x",
	// loop conditions that begin with a literal, a die, a parenthesis, a call (the re-entry point of continue is the first
	// instruction of the condition, whatever it is)
	"i=0; while 1 { i=i+1; if i>3 { break }; continue }", "while d1 { break }", "i=0; while (i<3) { i=i+1; continue }", "i=0; while [1][0] && i<3 { i=i+1; if i==2 { continue } }",
	"i=0; while 2d1 > i { i=i+1; continue }", "i=0; while `a` && i<2 { i=i+1; continue }", "i=0; while abs(3) > i { i=i+1; if i>1 { continue } }", "while 1 { continue; break }" + " ",
	// bodies defined inside a loop are code blocks of their own: a bare break/continue in them has no loop (rejected today;
	// if ever accepted, its jump must not be patched into the enclosing program)
	"i=0; while i<2 { i=i+1; func f() { break }; f() }", "i=0; while i<1 { i=i+1; func g() { if 1 { continue } }; g() }", "i=0; while i<1 { i=i+1; &a = `{break}`; a }", "while 0 { &a = `{% if 1 { continue } %}` }",
	"^sta=x?2d:3", "^sta=0 ? 2d : 3", "^sta=1?2d:3 b=2", "^sta=x?3d,1?4d", "^sta=[2d,3] b=1", "^sta=(x?2d:3)", "^st&a=x?2d:3", "^sta=x?1&2:3", "^sta=x?2d6kh:3", "^sta=2d?1:2",
	"^st力量+1d6", "^st&手枪=1d6", "^st力量-1d4+2", "^st'力量 2'=3", "^st力量*2:60", "null ?? 1", "-1", "+1", "[1..3]", "{'a':1,}", "this.x = 1", "&a.b = 2", "x.y.z", "f(1)(2)", "a = b = 3", "x = y[0] = 1", "dct.k = dct['j'] = []",
}

func TestProp(t *testing.T) {
	run := rt.Begin(t, "C08")
	defer run.Finish()
	rule := "every input the parser accepts among: generated programs of all constructs (break/continue in nested ifs and loops, all assignment forms nested in expressions, every dice family, templates, functions, computed values), generated program + broken tail, fixed GUIDE/test snippets incl. ^st forms, hostile-typing templates, byte mutations of those; parse only (jumps seeded with an 'unpatched' sentinel), then the data-flow verifier runs over the main program and every nested function/computed body. Non-trivial = accepted input whose code has >= 1 conditional jump and >= 1 block or call, or accepted input with non-blank rest; distinct by source text+flags"
	run.Check("verify", 45000, 1000000, rule, func(t *rapid.T, s *rt.Section) {
		c := Case{Cfg: vmx.DrawCfg(t, false)}
		c.Cfg.NoStmts = rapid.IntRange(0, 9).Draw(t, "nostmt") == 0
		c.Cfg.NoNDice = rapid.IntRange(0, 9).Draw(t, "nondice") == 0
		c.Cfg.NoBitwise = rapid.IntRange(0, 9).Draw(t, "nobit") == 0
		// a parse budget only turns some accepted inputs into rejected ones; it must never change what accepted code looks like
		if rapid.IntRange(0, 2).Draw(t, "withParseLimit") == 0 {
			c.Cfg.ParseLimit = uint64(rapid.SampledFrom([]int{150, 300, 500, 800, 1200, 1600, 2000, 2600, 3500, 5000, 8000, 20000}).Draw(t, "parseLimit"))
		}
		// one input in five is compiled on a VM with one or two custom dice syntaxes registered
		if rapid.IntRange(0, 4).Draw(t, "withCustom") == 0 {
			n := rapid.IntRange(1, 2).Draw(t, "nCustom")
			for i := 0; i < n; i++ {
				c.Custom = append(c.Custom, rapid.IntRange(1, len(customPatterns)).Draw(t, "customPat"))
			}
		}
		o := gen.DefaultOpts()
		o.Dice, o.CoC, o.WoD, o.Fate, o.DC = true, c.Cfg.CoC, c.Cfg.WoD, c.Cfg.Fate, c.Cfg.DC
		o.MaxStmts, o.MaxDepth = 6, 4
		o.AssignExprAll = true
		o.Avoid = s.Avoid
		g := gen.NewG(t, o, nil)
		switch rapid.IntRange(0, 11).Draw(t, "srcKind") {
		case 0, 1, 2, 3, 4:
			z := &gen.Noise{Vals: rapid.SliceOfN(rapid.IntRange(0, 1000), 0, 10).Draw(t, "noise")}
			c.Src, _ = gen.PrintNoisy(g.Program(), z)
			c.Kind = "program"
		case 5, 6:
			p := gen.Print(g.Program())
			tail, _ := g.Tail()
			c.Src, c.Kind = p+tail, "program+tail"
		case 7:
			c.Src, c.Kind = rapid.SampledFrom(fixedProgs).Draw(t, "fixed"), "fixed"
		case 8:
			p := rapid.SampledFrom(fixedProgs).Draw(t, "fixed")
			tail, _ := g.Tail()
			c.Src, c.Kind = p+tail, "fixed+tail"
		case 9:
			c.Src, _ = g.Hostile()
			c.Kind = "hostile-template"
			if len(c.Src) > 4000 {
				c.Src = c.Src[:4000]
			}
		case 10:
			g.O.Hostile = 0.3
			c.Src, c.Kind = gen.Print(g.Program()), "hostile-typed"
		default:
			base := gen.Print(g.Program())
			if rapid.Bool().Draw(t, "mutFixed") {
				base = rapid.SampledFrom(fixedProgs).Draw(t, "fixed")
			}
			c.Src, c.Kind = g.MutateBytes(base, 1+rapid.IntRange(0, 2).Draw(t, "nmut")), "byte-mutation"
		}
		s.Eval()
		s.Class("src:" + c.Kind)
		if len(c.Custom) > 0 {
			s.Class("custom-dice-registered")
		}
		s.Crumb(c)
		f, st, accepted := checkCase(c, s)
		if !accepted && f == nil {
			s.Class("rejected-by-parser")
		}
		if accepted && st != nil {
			s.Class("accepted")
			if st.Bodies > 0 {
				s.Class("has-nested-body")
			}
			if st.BackJumps > 0 {
				s.Class("has-backward-jump")
			}
			if (st.CondJumps >= 1 && (st.Blocks >= 1 || st.Calls >= 1)) || c.Kind == "program+tail" || c.Kind == "fixed+tail" {
				h := rt.Hash(c.Src, fmt.Sprint(c.Cfg.CoC, c.Cfg.WoD, c.Cfg.Fate, c.Cfg.DC, c.Cfg.NoStmts, c.Cfg.NoNDice, c.Cfg.NoBitwise))
				s.NonTrivial(h)
				if len(c.Src) < 100 {
					s.Sample(h, c.Src)
				}
			}
		}
		s.Report(t, f)
	})
}

func TestReplay(t *testing.T) {
	rt.Replay(t, "C08", map[string]rt.ReplayFunc{
		"verify": func(b []byte, s *rt.Section) *rt.Failure {
			var c Case
			if err := json.Unmarshal(b, &c); err != nil {
				return s.NewFailure("replay", "replay:bad-case", nil, err.Error(), "")
			}
			f, _, _ := checkCase(c, s)
			return f
		},
	})
}

// FuzzC08 (thorough tier): coverage-guided search over raw bytes; byte 0 selects the flags, the rest is the source.
func FuzzC08(f *testing.F) {
	for _, p := range fixedProgs {
		f.Add([]byte("\x0f" + p))
	}
	_, s := rt.FuzzRun("C08", "verify")
	f.Fuzz(func(t *testing.T, data []byte) {
		if len(data) < 2 || len(data) > 500 {
			return
		}
		b := data[0]
		c := Case{Src: string(data[1:]), Kind: "fuzz", Cfg: vmx.Cfg{CoC: b&1 != 0, WoD: b&2 != 0, Fate: b&4 != 0, DC: b&8 != 0,
			NoStmts: b&16 != 0, NoNDice: b&32 != 0, NoBitwise: b&64 != 0, OpLimit: 30000}}
		if fl, _, _ := checkCase(c, s); fl != nil && s.FuzzReport(fl) {
			t.Fatalf("C08 %s\nobserved: %s\ncase: %s", fl.Signature, fl.Observed, fl.Case)
		}
	})
}
