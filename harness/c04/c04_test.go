// C04 — every dice outcome is legal and equals what its displayed dice imply.
//
// Sections
//
//	grid     bounded exhaustive grid of RollCommon parameter tuples (direct calls)
//	common   random RollCommon tuples incl. large times / sides up to 2^62
//	cocfate  RollCoC / RollFate
//	pools    RollWoD / RollDoubleCross
//	vm       the same operators through the VM syntax (DetailSpans Ret/Text/Tag)
//	illegal  illegal parameters through the VM must be rejected with an error
package c04

import (
	"encoding/json"
	"fmt"
	"testing"

	ds "github.com/sealdice/dicescript"
	"golang.org/x/exp/rand"
	"pgregory.net/rapid"

	"verif/harness/rt"
)

const meterCeiling = 3_000_000 // rolls+ops per case; legal cases stay orders of magnitude below

func pcg(seed uint64) *rand.PCGSource {
	s := &rand.PCGSource{}
	s.Seed(seed)
	return s
}

// guarded runs fn with the work meter armed; a ceiling hit or a panic is reported.
func guarded(fn func()) (sig, obs string) {
	ds.VerifMeterReset(meterCeiling)
	pi := rt.Guard(fn)
	ds.VerifMeterReset(0)
	if pi == nil {
		return "", ""
	}
	if pi.Func == "verifTick" {
		return "work-ceiling", fmt.Sprintf("more than %d rolls/instructions without finishing", meterCeiling)
	}
	return pi.Sig(), pi.Value
}

// ---------------------------------------------------------------------------
// direct cases

type CommonCase struct {
	Seed uint64 `json:"seed"`
	CommonParams
	Mode int `json:"mode,omitempty"` // -1 min mode, 0 random, 1 max mode
}

func (c CommonCase) key() string {
	return fmt.Sprintf("common|%s|%d|%d", c.CommonParams.String(), c.Mode, c.Seed)
}

func runCommon(c CommonCase) (total int64, text string, sig, obs string) {
	var low, high ds.IntType
	switch c.Keep {
	case 1, 3:
		low = ds.IntType(c.Count)
	case 2, 4:
		high = ds.IntType(c.Count)
	}
	var mn, mx *ds.IntType
	if c.Min != nil {
		v := ds.IntType(*c.Min)
		mn = &v
	}
	if c.Max != nil {
		v := ds.IntType(*c.Max)
		mx = &v
	}
	sig, obs = guarded(func() {
		t, x := ds.RollCommon(pcg(c.Seed), ds.IntType(c.Times), ds.IntType(c.Sides), mn, mx, ds.IntType(c.Keep), low, high, c.Mode)
		total, text = int64(t), x
	})
	return
}

func commonNonTrivial(p CommonParams, f commonFacts) bool {
	return p.Keep != 0 && f.NDice >= 2 && f.Distinct >= 2 && f.Kept > 0 && f.Kept < f.NDice
}

func checkCommon(c CommonCase, s *rt.Section) (*rt.Failure, bool) {
	total, text, sig, obs := runCommon(c)
	if sig != "" {
		return s.NewFailure("no-panic", prefixSig("common", sig), c, obs, "RollCommon returns for "+c.CommonParams.String()), false
	}
	facts, sg, ob, ex := judgeCommon(c.CommonParams, total, text)
	if sg != "" {
		return s.NewFailure("game-rule", sg, c, ob, ex), false
	}
	return nil, commonNonTrivial(c.CommonParams, facts)
}

func prefixSig(fam, sig string) string {
	if sig == "work-ceiling" {
		return fam + ":work-ceiling"
	}
	return sig
}

type CocFateCase struct {
	Seed  uint64 `json:"seed"`
	Fn    string `json:"fn"` // coc | fate
	Bonus bool   `json:"bonus,omitempty"`
	N     int64  `json:"n,omitempty"`
	Mode  int    `json:"mode,omitempty"`
}

func checkCocFate(c CocFateCase, s *rt.Section) (*rt.Failure, bool) {
	var total int64
	var text string
	sig, obs := guarded(func() {
		if c.Fn == "fate" {
			t, x := ds.RollFate(pcg(c.Seed), c.Mode)
			total, text = int64(t), x
		} else {
			t, x := ds.RollCoC(pcg(c.Seed), c.Bonus, ds.IntType(c.N), c.Mode)
			total, text = int64(t), x
		}
	})
	if sig != "" {
		return s.NewFailure("no-panic", prefixSig(c.Fn, sig), c, obs, "the function returns"), false
	}
	if c.Fn == "fate" {
		_, sg, ob, ex := judgeFate(total, text)
		if sg != "" {
			return s.NewFailure("game-rule", sg, c, ob, ex), false
		}
		return nil, false
	}
	facts, sg, ob, ex := judgeCoC(c.Bonus, c.N, total, text)
	if sg != "" {
		return s.NewFailure("game-rule", sg, c, ob, ex), false
	}
	return nil, facts.Changed
}

type PoolCase struct {
	Seed uint64 `json:"seed"`
	PoolParams
	Mode int `json:"mode,omitempty"`
}

func (c PoolCase) key() string { return fmt.Sprintf("pool|%s|%d|%d", c.PoolParams.String(), c.Mode, c.Seed) }

func poolNonTrivial(f poolFacts) bool {
	return f.Shown && f.NDice >= 2 && f.Distinct >= 2 && f.Rounds >= 2
}

func checkPool(c PoolCase, s *rt.Section) (*rt.Failure, poolFacts) {
	var a, b, r int64
	var text string
	sig, obs := guarded(func() {
		if c.Fn == "dc" {
			x, y, z, t := ds.RollDoubleCross(pcg(c.Seed), ds.IntType(c.AddLine), ds.IntType(c.Pool), ds.IntType(c.Points), c.Mode)
			a, b, r, text = int64(x), int64(y), int64(z), t
		} else {
			x, y, z, t := ds.RollWoD(pcg(c.Seed), ds.IntType(c.AddLine), ds.IntType(c.Pool), ds.IntType(c.Points), ds.IntType(c.Threshold), c.IsGE, c.Mode)
			a, b, r, text = int64(x), int64(y), int64(z), t
		}
	})
	if sig != "" {
		return s.NewFailure("no-panic", prefixSig(c.Fn, sig), c, obs, "the function returns for "+c.PoolParams.String()), poolFacts{}
	}
	pp := c.PoolParams
	pp.MaxMode = c.Mode == 1
	facts, sg, ob, ex := judgePool(pp, a, &b, &r, text)
	if sg == "" && pp.MaxMode {
		// every die of max mode shows the highest face
		if pt, err := parsePool(text); err == nil && pt.Shown {
			for _, g := range pt.Groups {
				for _, d := range g {
					if d.V != c.Points {
						return s.NewFailure("game-rule", c.Fn+":max-mode-face", c, fmt.Sprintf("ret=%d text=%q", a, clipText(text)), fmt.Sprintf("every die = %d under max mode", c.Points)), facts
					}
				}
			}
		}
	}
	if sg != "" {
		return s.NewFailure("game-rule", sg, c, ob, ex), facts
	}
	return nil, facts
}

// ---------------------------------------------------------------------------
// generators for the direct sections

func ptr(v int64) *int64 { return &v }

func drawMode(t *rapid.T) int {
	// rapid favours the ends of a range: keep the rare modes in the middle
	switch rapid.IntRange(0, 19).Draw(t, "mode") {
	case 7:
		return -1
	case 13:
		return 1
	}
	return 0
}

func drawCommon(t *rapid.T) CommonCase {
	c := CommonCase{Seed: rapid.Uint64().Draw(t, "seed")}
	switch rapid.IntRange(0, 3).Draw(t, "sidesClass") {
	case 0, 1:
		c.Sides = rapid.Int64Range(1, 12).Draw(t, "sides")
	case 2:
		c.Sides = rapid.Int64Range(13, 1000).Draw(t, "sides")
	default:
		bits := rapid.IntRange(10, 62).Draw(t, "sideBits")
		lo := int64(1) << (bits - 1)
		hi := int64(1)<<bits - 1
		if bits == 62 {
			hi = int64(1) << 62
		}
		c.Sides = rapid.Int64Range(lo, hi).Draw(t, "sides")
	}
	switch rapid.IntRange(0, 9).Draw(t, "timesClass") {
	case 0, 1, 2, 3, 4, 5:
		c.Times = rapid.Int64Range(1, 12).Draw(t, "times")
	case 6, 7, 8:
		c.Times = rapid.Int64Range(13, 200).Draw(t, "times")
	default:
		c.Times = rapid.Int64Range(201, 2000).Draw(t, "times")
	}
	// keep the sum representable: times * (sides+1) < 2^62
	if lim := (int64(1) << 62) / (c.Sides + 1); c.Times > lim {
		c.Times = lim
		if c.Times < 1 {
			c.Times = 1
		}
	}
	if rapid.IntRange(0, 5).Draw(t, "keepOn") > 0 {
		c.Keep = rapid.Int64Range(1, 4).Draw(t, "keep")
		c.Count = rapid.Int64Range(1, c.Times+1).Draw(t, "count")
	}
	top := c.Sides
	if top < int64(1)<<61 {
		top++
	}
	switch rapid.IntRange(0, 5).Draw(t, "clamp") {
	case 0:
		c.Min = ptr(rapid.Int64Range(1, top).Draw(t, "min"))
	case 1:
		c.Max = ptr(rapid.Int64Range(1, top).Draw(t, "max"))
	case 2:
		a := rapid.Int64Range(1, top).Draw(t, "min")
		b := rapid.Int64Range(a, top).Draw(t, "max")
		c.Min, c.Max = ptr(a), ptr(b)
	}
	c.Mode = drawMode(t)
	return c
}

// poolWork is the expected number of dice of a pool roll (0 = unbounded).
func poolWork(pool, points, addLine int64, wod bool) (total float64, mult float64) {
	if (wod && addLine == 0) || addLine > points {
		return float64(pool), 1
	}
	if addLine <= 1 {
		return 0, 0
	}
	mult = float64(points) / float64(addLine-1)
	return float64(pool) * mult, mult
}

func drawPool(t *rapid.T, s *rt.Section, maxWork float64) PoolCase {
	c := PoolCase{Seed: rapid.Uint64().Draw(t, "seed")}
	if rapid.Bool().Draw(t, "dc") {
		c.Fn = "dc"
	} else {
		c.Fn = "wod"
	}
	switch rapid.IntRange(0, 9).Draw(t, "poolClass") {
	case 0, 1, 2, 3, 4, 5, 6:
		c.Pool = rapid.Int64Range(1, 14).Draw(t, "pool")
	case 7, 8:
		c.Pool = rapid.Int64Range(15, 120).Draw(t, "pool")
	default:
		c.Pool = rapid.Int64Range(121, 20000).Draw(t, "pool")
	}
	switch rapid.IntRange(0, 9).Draw(t, "pointsClass") {
	case 0, 1, 2, 3, 4:
		c.Points = 10
	case 5, 6, 7:
		c.Points = rapid.Int64Range(1, 20).Draw(t, "points")
	case 8:
		c.Points = rapid.Int64Range(21, 1000).Draw(t, "points")
	default:
		c.Points = rapid.Int64Range(1001, int64(1)<<40).Draw(t, "points")
	}
	// add line: legal values only (0 for WoD = no extra dice, otherwise >= 2)
	wod := c.Fn == "wod"
	okWork := func() bool {
		w, m := poolWork(c.Pool, c.Points, c.AddLine, wod)
		return m == 1 || (w <= maxWork && m <= 20)
	}
	if wod && rapid.IntRange(0, 7).Draw(t, "noAdd") == 0 {
		c.AddLine = 0
	} else {
		hi := c.Points + 2
		c.AddLine = rapid.Int64Range(2, hi).Draw(t, "addLine")
		for !okWork() { // raise the add line: halves the distance to "never explodes"
			c.AddLine += (hi - c.AddLine + 1) / 2
		}
	}
	if wod {
		c.IsGE = rapid.IntRange(0, 3).Draw(t, "ge") > 0
		if rapid.Bool().Draw(t, "defaultThreshold") {
			c.Threshold = 8
		} else {
			c.Threshold = rapid.Int64Range(1, c.Points+1).Draw(t, "threshold")
		}
	}
	if !wod && c.Points > 11 && c.AddLine > 11 && s.Avoid("dc_crit_round_big_die") {
		// open finding: a critical round that also holds a non-critical die above 10
		c.Points = rapid.Int64Range(1, 11).Draw(t, "pointsAvoid")
		c.AddLine = rapid.Int64Range(2, c.Points+2).Draw(t, "addLineAvoid")
		for !okWork() {
			c.AddLine += (c.Points + 2 - c.AddLine + 1) / 2
		}
	}
	// min/max mode: where nothing can explode as often as random mode; elsewhere one case in six each
	// (max mode rolls a single round even when every die reaches the add line; min mode explodes only with add line <= 1)
	if w, _ := poolWork(c.Pool, c.Points, c.AddLine, c.Fn == "wod"); w == float64(c.Pool) {
		c.Mode = drawMode(t)
	} else {
		switch rapid.IntRange(0, 11).Draw(t, "fixedMode") {
		case 0, 1:
			c.Mode = -1
		case 2, 3:
			c.Mode = 1
		}
	}
	return c
}

// ---------------------------------------------------------------------------
// the exhaustive grid

type gridDims struct {
	T, S, C, M int64 // times 1..T, sides 1..S, counts 1..C, min/max values 1..M
}

func (g gridDims) clampPairs() [][2]*int64 {
	var out [][2]*int64
	out = append(out, [2]*int64{nil, nil})
	for a := int64(1); a <= g.M; a++ {
		out = append(out, [2]*int64{ptr(a), nil})
	}
	for b := int64(1); b <= g.M; b++ {
		out = append(out, [2]*int64{nil, ptr(b)})
	}
	for a := int64(1); a <= g.M; a++ {
		for b := a; b <= g.M; b++ {
			out = append(out, [2]*int64{ptr(a), ptr(b)})
		}
	}
	return out
}

func runGrid(s *rt.Section, run *rt.Run, g gridDims, seeds int) {
	pairs := g.clampPairs()
	type km struct{ keep, count int64 }
	kms := []km{{0, 0}}
	for k := int64(1); k <= 4; k++ {
		for c := int64(1); c <= g.C; c++ {
			kms = append(kms, km{k, c})
		}
	}
	idx := uint64(0)
	evals := int64(0)
	nt := int64(0)
	defer func() {
		s.EvalN(evals)
		s.ClassN("non-trivial", nt)
	}()
	for times := int64(1); times <= g.T; times++ {
		for sides := int64(1); sides <= g.S; sides++ {
			for _, k := range kms {
				for _, pr := range pairs {
					idx++
					if int(idx%uint64(run.Env.NShards)) != run.Env.Shard {
						continue
					}
					for sd := 0; sd < seeds; sd++ {
						c := CommonCase{Seed: rt.Mix(run.Env.Seed*0x9e3779b9 ^ rt.Mix(idx*8+uint64(sd))),
							CommonParams: CommonParams{Times: times, Sides: sides, Keep: k.keep, Count: k.count, Min: pr[0], Max: pr[1]}}
						evals++
						if evals%50021 == 1 {
							s.Crumb(c)
							s.Sample(rt.Hash(c.key()), c)
						}
						f, nontriv := checkCommon(c, s)
						if nontriv {
							nt++
							s.NonTrivial(rt.Hash(c.key()))
						}
						if f != nil && s.Report(nil, f) {
							return
						}
					}
				}
			}
		}
	}
}

// ---------------------------------------------------------------------------

func TestProp(t *testing.T) {
	run := rt.Begin(t, "C04")
	defer run.Finish()

	ntRule := "non-trivial = at least 2 dice with at least 2 distinct face values shown and a keep/drop/explode/bonus rule that actually discards, replaces or adds a die; distinct by (function or source, parameters, seed)"

	g := gridDims{T: 12, S: 12, C: 13, M: 13}
	seeds := 3
	if run.Env.Thorough() {
		seeds = 12
	}
	run.Enum("grid", "RollCommon on every tuple times 1..12 x sides 1..12 x {no keep, kl/kh/dl/dh x count 1..13} x {min,max} in {none,1..13} with min <= max, each on seeds derived from VERIF_SEED and the tuple index; annotation parsed and judged by an independent statement of the rule (dice count, face range after the clamps, kept part = the extreme dice by my own sort, total = their sum); "+ntRule,
		func(s *rt.Section) {
			s.Exhaustive = true
			s.Bounds = fmt.Sprintf("all %d parameter tuples of the grid (times<=12, sides<=12, count<=13, min/max<=13, min<=max); %d seed(s) per tuple (seeds are sampled, not exhausted)", 144*53*len(g.clampPairs()), seeds)
			runGrid(s, run, g, seeds)
		})

	run.Check("common", 320000, 2000000,
		"RollCommon on random tuples: times up to 2000, sides up to 2^62 (times*sides < 2^62), keep/drop counts 1..times+1, min/max within 1..sides+1 with min <= max, random/min/max roll mode, random PCG seed; same oracle as grid; "+ntRule,
		func(t *rapid.T, s *rt.Section) {
			c := drawCommon(t)
			s.Eval()
			s.Class(fmt.Sprintf("keep=%d", c.Keep))
			s.Class(fmt.Sprintf("mode=%d", c.Mode))
			if c.Sides > 1000 {
				s.Class("sides>1000")
			}
			if c.Times > 200 {
				s.Class("times>200")
			}
			if c.Keep != 0 && c.Count > c.Times {
				s.Class("count>times")
			}
			if c.Times > 200 { // only a heavy case could take the process down; a crumb per microsecond-case would dominate the run
				s.Crumb(c)
			}
			f, nt := checkCommon(c, s)
			if nt {
				s.NonTrivial(rt.Hash(c.key()))
			}
			if c.Times <= 8 {
				s.Sample(rt.Hash(c.key()), c)
			}
			s.Report(t, f)
		})

	run.Check("cocfate", 400000, 6000000,
		"RollCoC (bonus/penalty, 0..40 extra tens dice) and RollFate on random seeds and roll modes; CoC: D100 in 1..100, one digit per extra die, result = lowest (bonus) / highest (penalty) of the candidates 10*tens+units with 00+0 read as 100; Fate: four symbols, total = #plus - #minus; non-trivial = a CoC roll whose extra dice actually replaced the tens digit; distinct by (function, parameters, seed)",
		func(t *rapid.T, s *rt.Section) {
			c := CocFateCase{Seed: rapid.Uint64().Draw(t, "seed"), Fn: "coc"}
			if rapid.IntRange(0, 9).Draw(t, "fate") == 0 {
				c.Fn = "fate"
			} else {
				c.Bonus = rapid.Bool().Draw(t, "bonus")
				if rapid.IntRange(0, 9).Draw(t, "many") == 0 {
					c.N = rapid.Int64Range(6, 40).Draw(t, "n")
				} else {
					c.N = rapid.Int64Range(0, 5).Draw(t, "n")
				}
			}
			c.Mode = drawMode(t)
			s.Eval()
			s.Class(c.Fn)
			s.Class(fmt.Sprintf("mode=%d", c.Mode))
			f, nt := checkCocFate(c, s)
			key := fmt.Sprintf("%s|%v|%d|%d|%d", c.Fn, c.Bonus, c.N, c.Mode, c.Seed)
			if nt {
				s.NonTrivial(rt.Hash(key))
			}
			s.Sample(rt.Hash(key), c)
			s.Report(t, f)
		})

	maxWork := 3000.0
	if run.Env.Thorough() {
		maxWork = 100000
	}
	run.Check("pools", 300000, 2500000,
		"RollWoD / RollDoubleCross on legal tuples only (pool 1..20000, add line 0 or >= 2 (DC >= 2), sides >= 1 up to 2^40, threshold >= 1, >= or <= test) with expected dice pool*sides/(addLine-1) bounded; groups parsed: first round = pool, next round = number of <> dice, * and <> marks recomputed per die, successes = #*, dice total = sum of sizes, DC result = 10*(rounds-1) + highest die of the last round; abbreviated texts (pool >= 15 or > 100 dice) are held to the consistency of the returned numbers only; "+ntRule,
		func(t *rapid.T, s *rt.Section) {
			c := drawPool(t, s, maxWork)
			s.Eval()
			s.Class(c.Fn)
			s.Class(fmt.Sprintf("mode=%d", c.Mode))
			if c.Pool > 120 {
				s.Crumb(c)
			}
			f, facts := checkPool(c, s)
			if facts.Shown {
				s.Class("groups-shown")
			} else {
				s.Class("abbreviated")
			}
			if facts.Rounds >= 2 {
				s.Class("rounds>=2")
			}
			if poolNonTrivial(facts) {
				s.NonTrivial(rt.Hash(c.key()))
			}
			if c.Pool <= 6 {
				s.Sample(rt.Hash(c.key()), c)
			}
			s.Report(t, f)
		})

	run.Check("vm", 80000, 400000,
		"expressions of 1..4 items (dice terms of every family, integer literals) joined by + - *, run on a seeded VM; every dice term's DetailSpans entry is located by its byte span, its Tag/Ret/Text judged by the same rule oracles with parameters evaluated from the source (literals, parenthesised sums, nested dice terms read from their own spans, chains whose count is the previous term's value, 优势/劣势, default sides, upper-case letters), and vm.Ret must equal the arithmetic over the term values; "+ntRule,
		func(t *rapid.T, s *rt.Section) {
			c := drawVMCase(t, s)
			s.Eval()
			src, _ := printCase(&c)
			h := rt.Hash(src, fmt.Sprint(c.Seed, c.Mode, c.DefSides))
			s.Crumb(c)
			f, info := checkVM(c, s)
			for _, cl := range info.Classes {
				s.Class(cl)
			}
			if info.NonTrivial {
				s.NonTrivial(h)
			}
			if len(src) < 60 {
				s.Sample(h, map[string]any{"src": src, "seed": c.Seed, "mode": c.Mode})
			}
			s.Report(t, f)
		})

	run.Check("illegal", 24000, 150000,
		"a legal expression in which one parameter of one dice term is replaced by an illegal value (times/sides/keep-drop count <= 0 or not an integer; WoD/DC pool outside 1..20000, add line 1 or negative (DC also 0), sides < 1, threshold < 1, any of them not an integer; CoC dice count negative or not an integer), written as literal, parenthesised or computed operand; Run must return an error (no value, no panic); every case is non-trivial; distinct by source",
		func(t *rapid.T, s *rt.Section) {
			c := drawIllegalCase(t, s)
			s.Eval()
			src, _ := printCase(&c.VMCase)
			h := rt.Hash(src)
			s.Class(c.What)
			s.NonTrivial(h)
			s.Sample(h, map[string]any{"src": src, "what": c.What})
			s.Crumb(c)
			s.Report(t, checkIllegal(c, s))
		})
}

func TestReplay(t *testing.T) {
	bad := func(s *rt.Section, err error) *rt.Failure {
		return s.NewFailure("replay", "replay:bad-case", nil, err.Error(), "")
	}
	common := func(b []byte, s *rt.Section) *rt.Failure {
		var c CommonCase
		if err := json.Unmarshal(b, &c); err != nil {
			return bad(s, err)
		}
		f, _ := checkCommon(c, s)
		return f
	}
	rt.Replay(t, "C04", map[string]rt.ReplayFunc{
		"grid": common, "common": common,
		"cocfate": func(b []byte, s *rt.Section) *rt.Failure {
			var c CocFateCase
			if err := json.Unmarshal(b, &c); err != nil {
				return bad(s, err)
			}
			f, _ := checkCocFate(c, s)
			return f
		},
		"pools": func(b []byte, s *rt.Section) *rt.Failure {
			var c PoolCase
			if err := json.Unmarshal(b, &c); err != nil {
				return bad(s, err)
			}
			f, _ := checkPool(c, s)
			return f
		},
		"vm": func(b []byte, s *rt.Section) *rt.Failure {
			var c VMCase
			if err := json.Unmarshal(b, &c); err != nil {
				return bad(s, err)
			}
			f, _ := checkVM(c, s)
			return f
		},
		"illegal": func(b []byte, s *rt.Section) *rt.Failure {
			var c IllegalCase
			if err := json.Unmarshal(b, &c); err != nil {
				return bad(s, err)
			}
			return checkIllegal(c, s)
		},
	})
}
