// C04 — parsers for the dice annotation texts and the game-rule oracles that
// judge one dice outcome (returned numbers + annotation) against its parameters.
//
// Every judge returns ("", "", "") when the outcome is legal, otherwise
// (signature, observed, expected).  The judges are pure functions of their
// arguments and are shared by the direct-call sections, the VM section and replay.
package c04

import (
	"fmt"
	"regexp"
	"sort"
	"strconv"
	"strings"
)

// ---------------------------------------------------------------------------
// XdY: "a+b+c"  or  "{k k | d d}"

func parseInts(fields []string) ([]int64, error) {
	out := make([]int64, 0, len(fields))
	for _, f := range fields {
		v, err := strconv.ParseInt(f, 10, 64)
		if err != nil || f == "" || (f[0] == '+') {
			return nil, fmt.Errorf("bad die %q", f)
		}
		out = append(out, v)
	}
	return out, nil
}

// parseCommon returns the kept dice (before the bar) and the dropped dice (after it).
func parseCommon(text string) (kept, dropped []int64, err error) {
	if strings.HasPrefix(text, "{") {
		if !strings.HasSuffix(text, "}") {
			return nil, nil, fmt.Errorf("unterminated brace")
		}
		inner := text[1 : len(text)-1]
		fields := strings.Fields(inner)
		bar := -1
		var nums []string
		for _, f := range fields {
			if f == "|" {
				if bar >= 0 {
					return nil, nil, fmt.Errorf("two bars")
				}
				bar = len(nums)
				continue
			}
			nums = append(nums, f)
		}
		all, e := parseInts(nums)
		if e != nil {
			return nil, nil, e
		}
		// canonical spacing: single spaces, as printed
		if strings.Join(fields, " ") != inner {
			return nil, nil, fmt.Errorf("irregular spacing")
		}
		if bar < 0 {
			return all, nil, nil
		}
		return all[:bar], all[bar:], nil
	}
	if text == "" {
		return nil, nil, nil
	}
	all, e := parseInts(strings.Split(text, "+"))
	if e != nil {
		return nil, nil, e
	}
	return all, nil, nil
}

type CommonParams struct {
	Times int64  `json:"times"`
	Sides int64  `json:"sides"`
	Keep  int64  `json:"keep"`  // 0 none, 1 keep lowest, 2 keep highest, 3 drop lowest, 4 drop highest
	Count int64  `json:"count"` // used when Keep != 0
	Min   *int64 `json:"min,omitempty"`
	Max   *int64 `json:"max,omitempty"`
}

func (p CommonParams) String() string {
	s := fmt.Sprintf("%dd%d", p.Times, p.Sides)
	switch p.Keep {
	case 1:
		s += fmt.Sprintf("kl%d", p.Count)
	case 2:
		s += fmt.Sprintf("kh%d", p.Count)
	case 3:
		s += fmt.Sprintf("dl%d", p.Count)
	case 4:
		s += fmt.Sprintf("dh%d", p.Count)
	}
	if p.Min != nil {
		s += fmt.Sprintf("min%d", *p.Min)
	}
	if p.Max != nil {
		s += fmt.Sprintf("max%d", *p.Max)
	}
	return s
}

func (p CommonParams) clamp(v int64) int64 {
	if p.Max != nil && v > *p.Max {
		v = *p.Max
	}
	if p.Min != nil && v < *p.Min {
		v = *p.Min
	}
	return v
}

// keptCount is the number of dice the rule keeps.
func (p CommonParams) keptCount() int64 {
	k := p.Times
	switch p.Keep {
	case 1, 2:
		k = p.Count
	case 3, 4:
		k = p.Times - p.Count
	}
	if k < 0 {
		k = 0
	}
	if k > p.Times {
		k = p.Times
	}
	return k
}

type commonFacts struct {
	NDice    int
	Distinct int
	Kept     int
}

func judgeCommon(p CommonParams, total int64, text string) (facts commonFacts, sig, obs, exp string) {
	kept, dropped, err := parseCommon(text)
	show := fmt.Sprintf("total=%d text=%q", total, clipText(text))
	if err != nil {
		return facts, "common:parse", show + " (" + err.Error() + ")", "a+b+c or {kept | dropped} for " + p.String()
	}
	n := int64(len(kept) + len(dropped))
	facts.NDice = int(n)
	facts.Kept = len(kept)
	if n != p.Times {
		return facts, "common:dice-count", show, fmt.Sprintf("%d dice shown for %s", p.Times, p.String())
	}
	lo, hi := p.clamp(1), p.clamp(p.Sides)
	all := make([]int64, 0, n)
	all = append(all, kept...)
	all = append(all, dropped...)
	for _, v := range all {
		if v < lo || v > hi {
			return facts, "common:die-range", show, fmt.Sprintf("every die of %s within [%d,%d]", p.String(), lo, hi)
		}
	}
	k := p.keptCount()
	if int64(len(kept)) != k {
		return facts, "common:kept-count", show, fmt.Sprintf("%d dice kept (before the bar) for %s", k, p.String())
	}
	// my own sort: the kept dice must be the k extreme ones of the multiset shown
	sorted := append([]int64(nil), all...)
	sort.Slice(sorted, func(i, j int) bool { return sorted[i] < sorted[j] })
	d := 1
	for i := 1; i < len(sorted); i++ {
		if sorted[i] != sorted[i-1] {
			d++
		}
	}
	facts.Distinct = d
	var want []int64
	switch p.Keep {
	case 1, 4: // the lowest k
		want = sorted[:k]
	case 2, 3: // the highest k
		want = sorted[int64(len(sorted))-k:]
	default:
		want = sorted
	}
	got := append([]int64(nil), kept...)
	sort.Slice(got, func(i, j int) bool { return got[i] < got[j] })
	sum := int64(0)
	for i := range want {
		sum += want[i]
		if got[i] != want[i] {
			return facts, "common:kept-not-extreme", show, fmt.Sprintf("kept dice = the %d %s of the dice shown (%v) for %s", k, map[bool]string{true: "lowest", false: "highest"}[p.Keep == 1 || p.Keep == 4], clipInts(want), p.String())
		}
	}
	if total != sum {
		return facts, "common:total", show, fmt.Sprintf("total %d = sum of the kept dice for %s", sum, p.String())
	}
	return facts, "", "", ""
}

func clipText(s string) string {
	if len(s) > 300 {
		return s[:300] + "…"
	}
	return s
}

func clipInts(v []int64) string {
	if len(v) > 40 {
		return fmt.Sprint(v[:40]) + "…"
	}
	return fmt.Sprint(v)
}

// ---------------------------------------------------------------------------
// Fate

func judgeFate(total int64, text string) (distinct int, sig, obs, exp string) {
	show := fmt.Sprintf("total=%d text=%q", total, clipText(text))
	if len(text) != 4 {
		return 0, "fate:dice-count", show, "four symbols out of + 0 -"
	}
	sum := int64(0)
	seen := map[byte]bool{}
	for i := 0; i < 4; i++ {
		switch text[i] {
		case '+':
			sum++
		case '-':
			sum--
		case '0':
		default:
			return 0, "fate:die-range", show, "four symbols out of + 0 -"
		}
		seen[text[i]] = true
	}
	if sum != total {
		return len(seen), "fate:total", show, fmt.Sprintf("total %d = #plus - #minus", sum)
	}
	return len(seen), "", "", ""
}

// ---------------------------------------------------------------------------
// CoC bonus / penalty

var cocRe = regexp.MustCompile(`^\(D100=(\d+),(奖励|惩罚)((?:\d(?: \d)*)?)\)$`)

type cocFacts struct {
	Changed bool // the bonus/penalty dice replaced the tens digit
	NDigits int
}

func judgeCoC(bonus bool, n int64, total int64, text string) (facts cocFacts, sig, obs, exp string) {
	show := fmt.Sprintf("total=%d text=%q", total, clipText(text))
	name := map[bool]string{true: "b", false: "p"}[bonus] + strconv.FormatInt(n, 10)
	m := cocRe.FindStringSubmatch(text)
	if m == nil {
		return facts, "coc:parse", show, "(D100=n,奖励 t t …) / (D100=n,惩罚 t t …) for " + name
	}
	if (m[2] == "奖励") != bonus {
		return facts, "coc:kind", show, "annotation of " + name
	}
	d100, _ := strconv.ParseInt(m[1], 10, 64)
	if d100 < 1 || d100 > 100 {
		return facts, "coc:d100-range", show, "D100 within 1..100"
	}
	var digits []int64
	if m[3] != "" {
		for _, f := range strings.Split(m[3], " ") {
			v, _ := strconv.ParseInt(f, 10, 64)
			digits = append(digits, v)
		}
	}
	facts.NDigits = len(digits)
	if int64(len(digits)) != n {
		return facts, "coc:dice-count", show, fmt.Sprintf("%d tens dice shown for %s", n, name)
	}
	units := d100 % 10
	best := d100
	for _, t := range digits {
		v := 10*t + units
		if v == 0 {
			v = 100 // tens 00 with units 0 reads 100
		}
		if bonus && v < best {
			best = v
		}
		if !bonus && v > best {
			best = v
		}
	}
	facts.Changed = best != d100
	if total != best {
		return facts, "coc:total", show, fmt.Sprintf("%d = %s of the candidates 10*tens+%d (00 with units 0 reads 100) over the D100 and the %d extra tens dice", best, map[bool]string{true: "lowest", false: "highest"}[bonus], units, n)
	}
	return facts, "", "", ""
}

// ---------------------------------------------------------------------------
// pool dice: WoD  "成功s/n[ 轮数:r][ {1,<9*>,7},{…}]"   DC  "[大失败 ]出目v/n[ 轮数:r][ {<8>,4},{…}]"

type die struct {
	V     int64
	Star  bool
	Angle bool
}

type poolText struct {
	BigFail     bool
	Label       string
	A, B        int64
	Rounds      int64
	RoundsShown bool
	Shown       bool
	Groups      [][]die
}

func takeInt(s string) (int64, string, bool) {
	i := 0
	if i < len(s) && s[i] == '-' {
		i++
	}
	j := i
	for j < len(s) && s[j] >= '0' && s[j] <= '9' {
		j++
	}
	if j == i {
		return 0, s, false
	}
	v, err := strconv.ParseInt(s[:j], 10, 64)
	if err != nil {
		return 0, s, false
	}
	return v, s[j:], true
}

func parsePool(text string) (*poolText, error) {
	p := &poolText{Rounds: 1}
	rest := text
	if strings.HasPrefix(rest, "大失败 ") {
		p.BigFail = true
		rest = rest[len("大失败 "):]
	}
	switch {
	case strings.HasPrefix(rest, "成功"):
		p.Label = "成功"
	case strings.HasPrefix(rest, "出目"):
		p.Label = "出目"
	default:
		return nil, fmt.Errorf("no 成功/出目 header")
	}
	rest = rest[len(p.Label):]
	var ok bool
	if p.A, rest, ok = takeInt(rest); !ok {
		return nil, fmt.Errorf("no first number")
	}
	if !strings.HasPrefix(rest, "/") {
		return nil, fmt.Errorf("no slash")
	}
	if p.B, rest, ok = takeInt(rest[1:]); !ok {
		return nil, fmt.Errorf("no dice total")
	}
	if strings.HasPrefix(rest, " 轮数:") {
		if p.Rounds, rest, ok = takeInt(rest[len(" 轮数:"):]); !ok {
			return nil, fmt.Errorf("no round count")
		}
		p.RoundsShown = true
	}
	if rest == "" {
		return p, nil
	}
	if !strings.HasPrefix(rest, " {") {
		return nil, fmt.Errorf("unexpected tail %q", clipText(rest))
	}
	rest = rest[1:]
	for {
		if !strings.HasPrefix(rest, "{") {
			return nil, fmt.Errorf("group expected at %q", clipText(rest))
		}
		idx := strings.IndexByte(rest, '}')
		if idx < 0 {
			return nil, fmt.Errorf("unterminated group")
		}
		body := rest[1:idx]
		var g []die
		if body != "" {
			for _, tok := range strings.Split(body, ",") {
				d := die{}
				if strings.HasPrefix(tok, "<") && strings.HasSuffix(tok, ">") && len(tok) >= 2 {
					d.Angle = true
					tok = tok[1 : len(tok)-1]
				}
				if strings.HasSuffix(tok, "*") {
					d.Star = true
					tok = tok[:len(tok)-1]
				}
				v, r, ok := takeInt(tok)
				if !ok || r != "" {
					return nil, fmt.Errorf("bad die %q", tok)
				}
				d.V = v
				g = append(g, d)
			}
		}
		p.Groups = append(p.Groups, g)
		rest = rest[idx+1:]
		if rest == "" {
			break
		}
		if !strings.HasPrefix(rest, ",") {
			return nil, fmt.Errorf("comma expected at %q", clipText(rest))
		}
		rest = rest[1:]
	}
	p.Shown = true
	return p, nil
}

type PoolParams struct {
	Fn        string `json:"fn"` // wod | dc
	AddLine   int64  `json:"add_line"`
	Pool      int64  `json:"pool"`
	Points    int64  `json:"points"`
	Threshold int64  `json:"threshold,omitempty"`
	IsGE      bool   `json:"is_ge,omitempty"`
	// MaxMode: under max-dice mode every round would repeat the first, so a single round is rolled: WoD adds no dice
	// at all (no <> marks), Double Cross marks its critical dice and counts the round 10 without a further round
	MaxMode bool `json:"max_mode,omitempty"`
}

func (p PoolParams) String() string {
	if p.Fn == "dc" {
		return fmt.Sprintf("%dc%dm%d", p.Pool, p.AddLine, p.Points)
	}
	return fmt.Sprintf("%da%dm%d%s%d", p.Pool, p.AddLine, p.Points, map[bool]string{true: "k", false: "q"}[p.IsGE], p.Threshold)
}

func (p PoolParams) explodes(v int64) bool {
	if p.Fn == "dc" {
		return v >= p.AddLine
	}
	return p.AddLine != 0 && v >= p.AddLine && !p.MaxMode
}

func (p PoolParams) success(v int64) bool {
	if p.IsGE {
		return v >= p.Threshold
	}
	return v <= p.Threshold
}

type poolFacts struct {
	Shown    bool
	NDice    int
	Distinct int
	Rounds   int
}

// judgePool checks a WoD or Double Cross outcome.  first is the first returned
// number (successes / result); total and rounds are nil when only the VM value
// and its text are available.
func judgePool(p PoolParams, first int64, total, rounds *int64, text string) (facts poolFacts, sig, obs, exp string) {
	fam := p.Fn
	show := fmt.Sprintf("ret=%d", first)
	if total != nil {
		show += fmt.Sprintf(" total=%d rounds=%d", *total, *rounds)
	}
	show += fmt.Sprintf(" text=%q", clipText(text))
	pt, err := parsePool(text)
	if err != nil {
		return facts, fam + ":parse", show + " (" + err.Error() + ")", "header and {…},{…} groups for " + p.String()
	}
	wantLabel := map[string]string{"wod": "成功", "dc": "出目"}[fam]
	if pt.Label != wantLabel || (fam == "wod" && pt.BigFail) {
		return facts, fam + ":kind", show, "annotation headed " + wantLabel
	}
	if pt.A != first || (total != nil && (pt.B != *total || pt.Rounds != *rounds)) {
		return facts, fam + ":header-vs-return", show, "header numbers equal to the returned numbers"
	}
	facts.Rounds = int(pt.Rounds)
	facts.Shown = pt.Shown
	neverExplodes := (fam == "wod" && p.AddLine == 0) || p.AddLine > p.Points || p.MaxMode
	if fam == "dc" && pt.BigFail != (pt.A == 1) {
		return facts, "dc:bigfail-mark", show, "大失败 exactly when the result is 1"
	}
	if !pt.Shown {
		// abbreviated: only the internal consistency of the numbers
		switch {
		case pt.Rounds < 1, pt.B < p.Pool, (pt.Rounds == 1) != (pt.B == p.Pool), pt.B-p.Pool < pt.Rounds-1,
			pt.B > p.Pool*pt.Rounds, neverExplodes && pt.Rounds != 1:
			return facts, fam + ":tuple", show, fmt.Sprintf("rounds>=1, pool <= dice <= pool*rounds, one extra round needs one extra die, for %s", p.String())
		}
		if fam == "wod" {
			always := (p.IsGE && p.Threshold <= 1) || (!p.IsGE && p.Threshold >= p.Points)
			never := p.IsGE && p.Threshold > p.Points
			if pt.A < 0 || pt.A > pt.B || (always && pt.A != pt.B) || (never && pt.A != 0) {
				return facts, "wod:tuple", show, "0 <= successes <= dice (all / none when the threshold admits every / no face) for " + p.String()
			}
		} else {
			lo := 10*(pt.Rounds-1) + 1
			hi := 10*(pt.Rounds-1) + p.Points
			if p.AddLine-1 < p.Points {
				hi = 10*(pt.Rounds-1) + p.AddLine - 1
			}
			if p.MaxMode {
				// every die shows its highest face: critical (10) when that reaches the critical value
				lo, hi = p.Points, p.Points
				if p.Points >= p.AddLine {
					lo, hi = 10, 10
				}
			}
			if pt.A < lo || pt.A > hi {
				return facts, "dc:tuple", show, fmt.Sprintf("result within [%d,%d] = 10*(rounds-1) + a non-critical face, for %s", lo, hi, p.String())
			}
		}
		return facts, "", "", ""
	}
	if int64(len(pt.Groups)) != pt.Rounds {
		return facts, fam + ":round-count", show, "as many {…} groups as rounds"
	}
	want := p.Pool
	sum := int64(0)
	stars := int64(0)
	seen := map[int64]bool{}
	critRoundHasBigNonCrit := false
	for gi, g := range pt.Groups {
		if int64(len(g)) != want {
			return facts, fam + ":dice-count", show, fmt.Sprintf("round %d has %d dice (the pool, then one per <> of the previous round) for %s", gi+1, want, p.String())
		}
		sum += int64(len(g))
		angles := int64(0)
		bigNonCrit := false
		for _, d := range g {
			seen[d.V] = true
			if d.V < 1 || d.V > p.Points {
				return facts, fam + ":die-range", show, fmt.Sprintf("every die within 1..%d for %s", p.Points, p.String())
			}
			if d.Angle != p.explodes(d.V) {
				return facts, fam + ":explode-mark", show, fmt.Sprintf("<> exactly on dice >= %d for %s", p.AddLine, p.String())
			}
			if fam == "wod" && d.Star != p.success(d.V) {
				return facts, "wod:success-mark", show, fmt.Sprintf("* exactly on dice %s %d for %s", map[bool]string{true: ">=", false: "<="}[p.IsGE], p.Threshold, p.String())
			}
			if fam == "dc" && d.Star {
				return facts, "dc:parse", show, "no * in a Double Cross annotation"
			}
			if d.Angle {
				angles++
			} else if d.V > 10 {
				bigNonCrit = true
			}
			if d.Star {
				stars++
			}
		}
		if angles > 0 && bigNonCrit {
			critRoundHasBigNonCrit = true
		}
		want = angles
	}
	lastCritical := want > 0
	if p.MaxMode {
		want = 0 // the single round of max mode has no continuation
	}
	if want != 0 {
		return facts, fam + ":missing-round", show, "a further round for the <> dice of the last round shown"
	}
	facts.NDice = int(sum)
	facts.Distinct = len(seen)
	if sum != pt.B {
		return facts, fam + ":dice-total", show, fmt.Sprintf("dice total %d = sum of the group sizes", sum)
	}
	if fam == "wod" {
		if stars != pt.A {
			return facts, "wod:total", show, fmt.Sprintf("successes %d = number of * for %s", stars, p.String())
		}
		return facts, "", "", ""
	}
	last := pt.Groups[len(pt.Groups)-1]
	mx := int64(0)
	for _, d := range last {
		if d.V > mx {
			mx = d.V
		}
	}
	wantRes := 10*(pt.Rounds-1) + mx
	if p.MaxMode && lastCritical {
		wantRes = 10 // the only round is critical
	}
	if pt.A != wantRes {
		sg := "dc:total"
		if critRoundHasBigNonCrit {
			// a critical round that also holds a non-critical die above 10 (needs sides > 11 and critical value > 11)
			sg = "dc:total/crit-round-with-noncrit-above-10"
		}
		return facts, sg, show, fmt.Sprintf("result %d = 10 * %d critical rounds + highest die %d of the last round, for %s", wantRes, pt.Rounds-1, mx, p.String())
	}
	return facts, "", "", ""
}
