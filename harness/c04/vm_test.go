// C04 — dice terms through the VM syntax: AST, printer (with byte spans), generator, oracle.
package c04

import (
	"fmt"
	"strconv"
	"strings"

	ds "github.com/sealdice/dicescript"
	"pgregory.net/rapid"

	"verif/harness/rt"
)

// Opd is one operand of a dice term.
type Opd struct {
	F   string `json:"f"`             // n literal | p (literal) | s (a+b) | t (nested term [+ c]) | x raw text (illegal section)
	N   int64  `json:"n,omitempty"`   // literal value, or the constant added to the nested term
	A   int64  `json:"a,omitempty"`   // s: a+b
	B   int64  `json:"b,omitempty"`   //
	T   *Term  `json:"t,omitempty"`   // t: the nested dice term
	Sp  bool   `json:"sp,omitempty"`  // a blank after the closing parenthesis (the grammar allows it)
	Raw string `json:"raw,omitempty"` // x: printed verbatim
}

type Mod struct {
	L string `json:"l"` // m k q
	V *Opd   `json:"v"`
}

// Term is one dice term.
type Term struct {
	K     string  `json:"k"`               // xdy | fate | coc | wod | dc | chain
	Up    bool    `json:"up,omitempty"`    // upper-case operator letters
	X     *Opd    `json:"x,omitempty"`     // times / pool / CoC count; nil = omitted
	Y     *Opd    `json:"y,omitempty"`     // sides (nil = default sides) / add line
	Keep  string  `json:"keep,omitempty"`  // k kh q kl dh dl 优势 優勢 劣势 劣勢
	KN    *Opd    `json:"kn,omitempty"`    // keep/drop count; nil = omitted (1)
	MM    string  `json:"mm,omitempty"`    // min | max
	MV    *Opd    `json:"mv,omitempty"`    //
	Bonus bool    `json:"bonus,omitempty"` // coc
	Mods  []Mod   `json:"mods,omitempty"`  // wod: m k q, dc: m
	Chain []*Term `json:"chain,omitempty"` // xdy: following "dY…" elements whose count is the previous value
}

type Item struct {
	Op  string `json:"op,omitempty"` // "" for the first item, then + - *
	Lit *int64 `json:"lit,omitempty"`
	T   *Term  `json:"t,omitempty"`
}

type VMCase struct {
	Seed     [2]uint64 `json:"seed"`
	Mode     int       `json:"mode,omitempty"`
	DefSides string    `json:"def_sides,omitempty"` // Config.DefaultDiceSideExpr ("" = 100)
	// optional earlier evaluation on the same VM under another default number of faces
	// (a host changes DefaultDiceSideExpr per game system; the new setting must take effect)
	WarmSides string `json:"warm_sides,omitempty"`
	Warm      string `json:"warm,omitempty"`
	Items    []Item    `json:"items"`
}

func isPear(k string) bool { return k == "优势" || k == "優勢" || k == "劣势" || k == "劣勢" }

func walkTerm(t *Term, fn func(*Term)) {
	if t == nil {
		return
	}
	fn(t)
	for _, o := range []*Opd{t.X, t.Y, t.KN, t.MV} {
		if o != nil && o.T != nil {
			walkTerm(o.T, fn)
		}
	}
	for _, m := range t.Mods {
		if m.V != nil && m.V.T != nil {
			walkTerm(m.V.T, fn)
		}
	}
	for _, c := range t.Chain {
		walkTerm(c, fn)
	}
}

func (c *VMCase) hasKind(k string) bool {
	found := false
	for _, it := range c.Items {
		walkTerm(it.T, func(t *Term) {
			if t.K == k {
				found = true
			}
		})
	}
	return found
}

// ---------------------------------------------------------------------------
// printer

type span struct{ b, e int }

type printer struct {
	sb    strings.Builder
	spans map[*Term]span
}

func (p *printer) opd(o *Opd) {
	switch o.F {
	case "n":
		p.sb.WriteString(strconv.FormatInt(o.N, 10))
		return
	case "x":
		p.sb.WriteString(o.Raw)
		return
	case "p":
		fmt.Fprintf(&p.sb, "(%d)", o.N)
	case "s":
		fmt.Fprintf(&p.sb, "(%d + %d)", o.A, o.B)
	case "t":
		p.sb.WriteString("(")
		p.term(o.T)
		switch {
		case o.N > 0:
			fmt.Fprintf(&p.sb, " + %d", o.N)
		case o.N < 0:
			fmt.Fprintf(&p.sb, " - %d", -o.N)
		}
		p.sb.WriteString(")")
	}
	if o.Sp {
		p.sb.WriteString(" ")
	}
}

func (p *printer) letter(t *Term, l string) {
	if t.Up {
		l = strings.ToUpper(l)
	}
	p.sb.WriteString(l)
}

func (p *printer) xdyTail(t *Term) {
	p.letter(t, "d")
	if t.Y != nil {
		p.opd(t.Y)
	}
	if t.Keep != "" {
		if len(t.Keep) == 1 { // k q have upper-case spellings; kh kl dh dl min max do not
			p.letter(t, t.Keep)
		} else {
			p.sb.WriteString(t.Keep)
		}
		if t.KN != nil {
			p.opd(t.KN)
		}
	}
	if t.MM != "" {
		p.sb.WriteString(t.MM)
		p.opd(t.MV)
	}
}

func (p *printer) term(t *Term) {
	b := p.sb.Len()
	switch t.K {
	case "xdy":
		if t.X != nil {
			p.opd(t.X)
		}
		p.xdyTail(t)
		p.spans[t] = span{b, p.sb.Len()}
		for _, c := range t.Chain {
			cb := p.sb.Len()
			p.xdyTail(c)
			p.spans[c] = span{cb, p.sb.Len()}
		}
		return
	case "fate":
		p.letter(t, "f")
	case "coc":
		if t.Bonus {
			p.letter(t, "b")
		} else {
			p.letter(t, "p")
		}
		if t.X != nil {
			p.opd(t.X)
		}
	case "wod", "dc":
		if t.X != nil {
			p.opd(t.X)
		}
		if t.K == "wod" {
			p.letter(t, "a")
		} else {
			p.letter(t, "c")
		}
		p.opd(t.Y)
		for _, m := range t.Mods {
			p.letter(t, m.L)
			p.opd(m.V)
		}
	}
	p.spans[t] = span{b, p.sb.Len()}
}

func printCase(c *VMCase) (string, map[*Term]span) {
	p := &printer{spans: map[*Term]span{}}
	for i, it := range c.Items {
		if i > 0 {
			p.sb.WriteString(" " + it.Op + " ")
		}
		if it.T != nil {
			p.term(it.T)
		} else if it.Lit != nil {
			p.sb.WriteString(strconv.FormatInt(*it.Lit, 10))
		}
	}
	return p.sb.String(), p.spans
}

// ---------------------------------------------------------------------------
// oracle

type vmInfo struct {
	Classes    []string
	NonTrivial bool
}

type evalCtx struct {
	c      *VMCase
	src    string
	spans  map[*Term]span
	got    []ds.BufferSpan
	vals   map[*Term]int64
	info   *vmInfo
}

type termFail struct{ sig, obs, exp string }

func (e *evalCtx) opdVal(o *Opd) int64 {
	switch o.F {
	case "s":
		return o.A + o.B
	case "t":
		return o.N + e.vals[o.T]
	}
	return o.N
}

func (e *evalCtx) find(t *Term) (*ds.BufferSpan, bool) {
	sp := e.spans[t]
	for i := range e.got {
		g := &e.got[i]
		if int(g.Begin) != sp.b {
			continue
		}
		if int(g.End) < sp.e || int(g.End) > len(e.src) || strings.TrimSpace(e.src[sp.e:int(g.End)]) != "" {
			return nil, false
		}
		return g, true
	}
	return nil, false
}

func (e *evalCtx) defSides() int64 {
	if e.c.DefSides == "" {
		return 100
	}
	v, _ := strconv.ParseInt(e.c.DefSides, 10, 64)
	return v
}

func keepCode(k string) int64 {
	switch k {
	case "q", "kl", "劣势", "劣勢":
		return 1
	case "k", "kh", "优势", "優勢":
		return 2
	case "dl":
		return 3
	case "dh":
		return 4
	}
	return 0
}

func hasSameFamilyBelow(t *Term) bool {
	found := false
	for _, o := range append([]*Opd{t.X, t.Y}, modOpds(t)...) {
		if o != nil && o.T != nil {
			walkTerm(o.T, func(u *Term) {
				if u.K == t.K {
					found = true
				}
			})
		}
	}
	return found
}

func modOpds(t *Term) []*Opd {
	var out []*Opd
	for _, m := range t.Mods {
		out = append(out, m.V)
	}
	return out
}

// checkTerm judges t (operands first, then the term, then its chain).  prev is the value the
// count of a chain element comes from.
func (e *evalCtx) checkTerm(t *Term, prev *int64) *termFail {
	for _, o := range []*Opd{t.X, t.Y, t.KN, t.MV} {
		if o != nil && o.T != nil {
			if f := e.checkTerm(o.T, nil); f != nil {
				return f
			}
		}
	}
	for _, m := range t.Mods {
		if m.V.T != nil {
			if f := e.checkTerm(m.V.T, nil); f != nil {
				return f
			}
		}
	}
	where := fmt.Sprintf("term %q of %q: ", e.src[e.spans[t].b:e.spans[t].e], e.src)
	g, ok := e.find(t)
	if !ok {
		return &termFail{"vm:span-missing", where + "no DetailSpans entry with that byte span; spans: " + fmtSpans(e.got), "one DetailSpans entry per dice term"}
	}
	if g.Ret == nil || g.Ret.TypeId != ds.VMTypeInt {
		return &termFail{"vm:span-ret", where + "span without an integer Ret", "the term's value"}
	}
	ret := int64(g.Ret.MustReadInt())
	e.vals[t] = ret
	wantTag := map[string]string{"xdy": "dice", "chain": "dice", "fate": "dice-fate", "wod": "dice-wod", "dc": "dice-dc"}[t.K]
	if t.K == "coc" {
		wantTag = map[bool]string{true: "dice-coc-bonus", false: "dice-coc-penalty"}[t.Bonus]
	}
	if g.Tag != wantTag {
		return &termFail{"vm:tag", where + "Tag " + g.Tag, "Tag " + wantTag}
	}
	var sig, obs, exp string
	switch t.K {
	case "xdy", "chain":
		p := CommonParams{Times: 1, Sides: e.defSides()}
		if t.K == "chain" {
			p.Times = *prev
		} else if t.X != nil {
			p.Times = e.opdVal(t.X)
		}
		if t.Y != nil {
			p.Sides = e.opdVal(t.Y)
		}
		if t.Keep != "" {
			p.Keep = keepCode(t.Keep)
			p.Count = 1
			if t.KN != nil {
				p.Count = e.opdVal(t.KN)
			}
			if isPear(t.Keep) {
				p.Times = 2
			}
		}
		if t.MM != "" {
			v := e.opdVal(t.MV)
			if t.MM == "min" {
				p.Min = &v
			} else {
				p.Max = &v
			}
		}
		var facts commonFacts
		facts, sig, obs, exp = judgeCommon(p, ret, g.Text)
		if sig == "" && commonNonTrivial(p, facts) {
			e.info.NonTrivial = true
		}
	case "fate":
		_, sig, obs, exp = judgeFate(ret, g.Text)
	case "coc":
		n := int64(1)
		if t.X != nil {
			n = e.opdVal(t.X)
		}
		var facts cocFacts
		facts, sig, obs, exp = judgeCoC(t.Bonus, n, ret, g.Text)
		if sig == "" && facts.Changed {
			e.info.NonTrivial = true
		}
	case "wod", "dc":
		p := PoolParams{Fn: t.K, Pool: 1, Points: 10, Threshold: 8, IsGE: true, AddLine: e.opdVal(t.Y), MaxMode: e.c.Mode == 1}
		if t.X != nil {
			p.Pool = e.opdVal(t.X)
		}
		for _, m := range t.Mods {
			switch m.L {
			case "m":
				p.Points = e.opdVal(m.V)
			case "k":
				p.Threshold, p.IsGE = e.opdVal(m.V), true
			case "q":
				p.Threshold, p.IsGE = e.opdVal(m.V), false
			}
		}
		var facts poolFacts
		facts, sig, obs, exp = judgePool(p, ret, nil, nil, g.Text)
		if sig == "" && poolNonTrivial(facts) {
			e.info.NonTrivial = true
		}
		if sig != "" && hasSameFamilyBelow(t) {
			// the outer term of a same-family nesting: its own signature (the details vary with what the inner term overwrote)
			obs = "[" + sig + "] " + obs
			sig = "vm:" + t.K + "-operand-holds-" + t.K
		}
	}
	if sig != "" {
		return &termFail{sig, where + obs, exp}
	}
	last := ret
	for _, c := range t.Chain {
		if f := e.checkTerm(c, &last); f != nil {
			return f
		}
		last = e.vals[c]
	}
	if len(t.Chain) > 0 {
		e.vals[t] = last // the value of the whole chained term
	}
	return nil
}

func fmtSpans(got []ds.BufferSpan) string {
	var sb strings.Builder
	for i, g := range got {
		if i >= 12 {
			sb.WriteString(" …")
			break
		}
		fmt.Fprintf(&sb, " [%d,%d)%s", g.Begin, g.End, g.Tag)
	}
	return sb.String()
}

func newVM(c *VMCase) *ds.Context {
	seed := make([]byte, 16)
	for i := 0; i < 8; i++ {
		seed[i] = byte(c.Seed[0] >> (8 * i))
		seed[8+i] = byte(c.Seed[1] >> (8 * i))
	}
	vm := &ds.Context{Seed: seed}
	vm.Init()
	vm.Config.EnableDiceWoD = true
	vm.Config.EnableDiceCoC = true
	vm.Config.EnableDiceFate = true
	vm.Config.EnableDiceDoubleCross = true
	vm.Config.OpCountLimit = 200000
	vm.Config.DefaultDiceSideExpr = c.DefSides
	vm.Config.DiceMinMode = c.Mode == -1
	vm.Config.DiceMaxMode = c.Mode == 1
	return vm
}

func termValue(e *evalCtx, it Item) int64 {
	if it.T != nil {
		return e.vals[it.T]
	}
	return *it.Lit
}

func checkVM(c VMCase, s *rt.Section) (*rt.Failure, vmInfo) {
	info := vmInfo{}
	src, spans := printCase(&c)
	vm := newVM(&c)
	if c.Warm != "" {
		vm.Config.DefaultDiceSideExpr = c.WarmSides
		guarded(func() { _ = vm.Run(c.Warm) })
		vm.Config.DefaultDiceSideExpr = c.DefSides
	}
	var err error
	sig, obs := guarded(func() { err = vm.Run(src) })
	if sig != "" {
		return s.NewFailure("no-panic", prefixSig("vm", sig), c, fmt.Sprintf("Run(%q): %s", src, obs), "Run returns"), info
	}
	if err != nil {
		return s.NewFailure("legal-accepted", "vm:unexpected-error", c, fmt.Sprintf("Run(%q) -> error %v", src, err), "a value: every parameter is legal"), info
	}
	if strings.TrimSpace(vm.RestInput) != "" {
		return s.NewFailure("legal-accepted", "vm:unparsed-rest", c, fmt.Sprintf("Run(%q) left %q unparsed", src, vm.RestInput), "the whole expression is consumed"), info
	}
	e := &evalCtx{c: &c, src: src, spans: spans, got: vm.DetailSpans, vals: map[*Term]int64{}, info: &info}
	nTerms := 0
	for _, it := range c.Items {
		walkTerm(it.T, func(t *Term) {
			nTerms++
			info.Classes = append(info.Classes, classOf(t))
		})
	}
	for _, it := range c.Items {
		if it.T == nil {
			continue
		}
		if f := e.checkTerm(it.T, nil); f != nil {
			return s.NewFailure("game-rule", f.sig, c, f.obs, f.exp), info
		}
	}
	if len(vm.DetailSpans) != nTerms {
		return s.NewFailure("game-rule", "vm:span-count", c, fmt.Sprintf("Run(%q): %d DetailSpans:%s", src, len(vm.DetailSpans), fmtSpans(vm.DetailSpans)), fmt.Sprintf("%d, one per dice term", nTerms)), info
	}
	// arithmetic over the items (* binds tighter than + -)
	var sum, prod int64
	sign := int64(1)
	for i, it := range c.Items {
		v := termValue(e, it)
		switch {
		case i == 0:
			prod = v
		case it.Op == "*":
			prod *= v
		default:
			sum += sign * prod
			prod = v
			sign = map[string]int64{"+": 1, "-": -1}[it.Op]
		}
	}
	sum += sign * prod
	if vm.Ret == nil || vm.Ret.TypeId != ds.VMTypeInt || int64(vm.Ret.MustReadInt()) != sum {
		got := "<nil>"
		if vm.Ret != nil {
			got = vm.Ret.ToString()
		}
		return s.NewFailure("game-rule", "vm:ret", c, fmt.Sprintf("Run(%q) = %s; spans:%s", src, got, fmtSpans(vm.DetailSpans)), fmt.Sprintf("%d from the values of the dice terms", sum)), info
	}
	return nil, info
}

func classOf(t *Term) string {
	switch t.K {
	case "xdy":
		switch {
		case isPear(t.Keep):
			return "xdy:优势劣势"
		case t.Y == nil:
			return "xdy:default-sides"
		case len(t.Chain) > 0:
			return "xdy:chained"
		case t.Keep != "":
			return "xdy:keep/drop"
		case t.MM != "":
			return "xdy:min/max"
		}
		return "xdy:plain"
	}
	return t.K
}

// ---------------------------------------------------------------------------
// generator

type vgen struct {
	t        *rapid.T
	s        *rt.Section
	maxMode  bool
	inWod    int
	inDC     int
	nestSeen bool
}

func (g *vgen) simple(v int64) *Opd {
	switch rapid.IntRange(0, 7).Draw(g.t, "opdForm") {
	case 5:
		return &Opd{F: "p", N: v, Sp: rapid.Bool().Draw(g.t, "sp")}
	case 6, 7:
		a := rapid.Int64Range(0, v).Draw(g.t, "a")
		return &Opd{F: "s", A: a, B: v - a, Sp: rapid.IntRange(0, 3).Draw(g.t, "sp") == 0}
	}
	return &Opd{F: "n", N: v}
}

// opd draws an operand whose value lies in [lo,hi] (0 <= lo <= hi).
func (g *vgen) opd(lo, hi int64, depth int) *Opd {
	if depth < 2 && hi > lo && rapid.IntRange(0, 9).Draw(g.t, "nest") >= 7 {
		if o := g.nested(lo, hi, depth+1); o != nil {
			g.nestSeen = true
			return o
		}
	}
	return g.simple(rapid.Int64Range(lo, hi).Draw(g.t, "v"))
}

func min64(a, b int64) int64 {
	if a < b {
		return a
	}
	return b
}

func max64(a, b int64) int64 {
	if a > b {
		return a
	}
	return b
}

// nested draws "(term + c)" with a value guaranteed inside [lo,hi].
func (g *vgen) nested(lo, hi int64, depth int) *Opd {
	w := hi - lo // width available for the term's own range
	var t *Term
	var nlo, nhi int64
	up := rapid.IntRange(0, 5).Draw(g.t, "up") == 0
	switch rapid.IntRange(0, 9).Draw(g.t, "nestKind") {
	case 0, 1, 2:
		k := rapid.Int64Range(2, min64(w+1, 12)).Draw(g.t, "K")
		t = &Term{K: "xdy", Up: up, X: g.simple(1), Y: g.opd(max64(1, k-2), k, depth)}
		if rapid.Bool().Draw(g.t, "omitX") {
			t.X = nil
		}
		nlo, nhi = 1, k
	case 3, 4:
		k := rapid.Int64Range(2, min64(w+1, 12)).Draw(g.t, "K")
		t = &Term{K: "xdy", Up: up, X: g.simple(rapid.Int64Range(2, 4).Draw(g.t, "T")), Y: g.opd(max64(1, k-2), k, depth),
			Keep: rapid.SampledFrom([]string{"k", "kh", "q", "kl"}).Draw(g.t, "keep")}
		if rapid.Bool().Draw(g.t, "kn") {
			t.KN = g.simple(1)
		}
		nlo, nhi = 1, k
	case 5:
		k := rapid.Int64Range(2, min64(w+1, 20)).Draw(g.t, "K")
		t = &Term{K: "xdy", Up: up, Y: g.simple(k), Keep: rapid.SampledFrom([]string{"优势", "優勢", "劣势", "劣勢"}).Draw(g.t, "pear")}
		nlo, nhi = 1, k
	case 6:
		if w < 8 {
			return nil
		}
		t = &Term{K: "fate", Up: up}
		nlo, nhi = -4, 4
	case 7:
		if g.inWod > 0 && g.s.Avoid("wod_in_wod_operand") {
			return nil
		}
		p := rapid.Int64Range(1, min64(3, w)).Draw(g.t, "P")
		t = &Term{K: "wod", Up: up, X: g.simple(p), Y: g.simple(0)}
		if rapid.Bool().Draw(g.t, "thr") {
			t.Mods = append(t.Mods, Mod{L: rapid.SampledFrom([]string{"k", "q"}).Draw(g.t, "kq"), V: g.simple(rapid.Int64Range(1, 10).Draw(g.t, "thrV"))})
		}
		nlo, nhi = 0, p
	case 8:
		if g.inDC > 0 && g.s.Avoid("dc_in_dc_operand") {
			return nil
		}
		m := rapid.Int64Range(1, min64(w+1, 8)).Draw(g.t, "M")
		t = &Term{K: "dc", Up: up, X: g.simple(rapid.Int64Range(1, 3).Draw(g.t, "P")), Y: g.simple(m + rapid.Int64Range(1, 2).Draw(g.t, "over")),
			Mods: []Mod{{L: "m", V: g.simple(m)}}}
		nlo, nhi = 1, m
	default:
		if w < 99 {
			return nil
		}
		t = &Term{K: "coc", Up: up, Bonus: rapid.Bool().Draw(g.t, "bonus"), X: g.simple(rapid.Int64Range(0, 2).Draw(g.t, "n"))}
		nlo, nhi = 1, 100
	}
	if nhi-nlo > w {
		return nil
	}
	c := rapid.Int64Range(lo-nlo, hi-nhi).Draw(g.t, "C")
	return &Opd{F: "t", T: t, N: c, Sp: rapid.IntRange(0, 3).Draw(g.t, "sp") == 0}
}

func (g *vgen) xdyMods(t *Term, timesHi, sidesLo, sidesHi int64, allowDrop bool, depth int) (faceHi int64) {
	faceHi = sidesHi
	if rapid.IntRange(0, 9).Draw(g.t, "keepOn") < 7 {
		toks := []string{"k", "kh", "q", "kl"}
		if allowDrop {
			toks = append(toks, "dh", "dl", "dh", "dl")
		}
		t.Keep = rapid.SampledFrom(toks).Draw(g.t, "keep")
		if rapid.IntRange(0, 3).Draw(g.t, "knOn") > 0 {
			t.KN = g.opd(1, timesHi+1, depth)
		}
	}
	if rapid.IntRange(0, 9).Draw(g.t, "mmOn") < 3 {
		t.MM = rapid.SampledFrom([]string{"min", "max"}).Draw(g.t, "mm")
		hi := sidesHi
		if hi < 1<<30 {
			hi++
		}
		if sidesHi > 1000 {
			t.MV = g.simple(rapid.Int64Range(1, hi).Draw(g.t, "mv"))
		} else {
			t.MV = g.opd(1, hi, depth)
		}
		if t.MM == "min" {
			faceHi = max64(faceHi, hi)
		}
	}
	return faceHi
}

func (g *vgen) xdy(depth int) *Term {
	t := &Term{K: "xdy", Up: rapid.IntRange(0, 5).Draw(g.t, "up") == 0}
	form := rapid.IntRange(0, 22).Draw(g.t, "xdyForm")
	if form >= 20 {
		// chained term XdYdZ…: the count of every further element is the value before it, so the head stays small
		t.X = g.opd(1, 6, depth)
		t.Y = g.opd(1, 8, depth)
		prevHi := 6 * g.xdyMods(t, 6, 1, 8, false, depth)
		n := 1
		if rapid.IntRange(0, 3).Draw(g.t, "chain2") == 0 {
			n = 2
		}
		for i := 0; i < n; i++ {
			c := &Term{K: "chain", Up: t.Up}
			c.Y = g.opd(1, 6, depth)
			prevHi *= g.xdyMods(c, prevHi, 1, 6, i == n-1, depth)
			t.Chain = append(t.Chain, c)
		}
		return t
	}
	timesLo, timesHi := int64(1), int64(1)
	sidesLo, sidesHi := int64(100), int64(100)
	if form <= 13 { // X present
		switch rapid.IntRange(0, 9).Draw(g.t, "timesClass") {
		case 0, 1, 2, 3, 4, 5, 6:
			timesHi = 12
		case 7, 8:
			timesHi = 40
		default:
			timesLo, timesHi = 41, 200
		}
		t.X = g.opd(timesLo, timesHi, depth)
	}
	explicitY := form <= 11 || form == 14 || form == 15 || form == 16
	if explicitY {
		switch rapid.IntRange(0, 9).Draw(g.t, "sidesClass") {
		case 0, 1, 2, 3, 4, 5:
			sidesLo, sidesHi = 1, 12
			t.Y = g.opd(sidesLo, sidesHi, depth)
		case 6, 7:
			sidesLo, sidesHi = 2, 100
			t.Y = g.opd(sidesLo, sidesHi, depth)
		default:
			v := rapid.Int64Range(1000, 1<<40).Draw(g.t, "bigSides")
			sidesLo, sidesHi = v, v
			t.Y = g.simple(v)
		}
	}
	switch {
	case form <= 13: // XdY and Xd: keep/drop, min/max
		g.xdyMods(t, timesHi, sidesLo, sidesHi, true, depth)
	case form == 14: // dY with 优势/劣势
		t.Keep = rapid.SampledFrom([]string{"优势", "優勢", "劣势", "劣勢"}).Draw(g.t, "pear")
		if rapid.IntRange(0, 3).Draw(g.t, "mmOn") == 0 {
			t.MM = rapid.SampledFrom([]string{"min", "max"}).Draw(g.t, "mm")
			t.MV = g.simple(rapid.Int64Range(1, min64(sidesHi, 1<<30)+1).Draw(g.t, "mv"))
		}
	case form == 15 || form == 16: // dY with ordinary modifiers (one die)
		g.xdyMods(t, 1, sidesLo, sidesHi, true, depth)
	case form == 17 || form == 18: // bare d
	default: // d优势 / d劣势 on the default sides
		t.Keep = rapid.SampledFrom([]string{"优势", "優勢", "劣势", "劣勢"}).Draw(g.t, "pear")
		if rapid.IntRange(0, 3).Draw(g.t, "mmOn") == 0 {
			t.MM = rapid.SampledFrom([]string{"min", "max"}).Draw(g.t, "mm")
			t.MV = g.simple(rapid.Int64Range(1, 7).Draw(g.t, "mv"))
		}
	}
	return t
}

// addLineRange gives the legal add-line values that keep the expected work small for the worst
// corner of the operand ranges (largest pool, most sides).
func (g *vgen) addLineRange(poolHi, pointsHi int64) (lo, hi int64) {
	hi = pointsHi + 2
	if g.maxMode {
		// max mode rolls one round whatever the add line is
		if rapid.Bool().Draw(g.t, "maxModeAddLineWithinFaces") {
			return 2, pointsHi + 1
		}
		return pointsHi + 1, pointsHi + 3
	}
	lo = 2
	for lo <= pointsHi {
		w, m := poolWork(poolHi, pointsHi, lo, false)
		if w <= 600 && m <= 20 {
			break
		}
		lo++
	}
	if lo > hi {
		lo = hi
	}
	return lo, hi
}

func (g *vgen) pool(kind string, depth int) *Term {
	t := &Term{K: kind, Up: rapid.IntRange(0, 5).Draw(g.t, "up") == 0}
	if kind == "wod" {
		g.inWod++
		defer func() { g.inWod-- }()
	} else {
		g.inDC++
		defer func() { g.inDC-- }()
	}
	poolHi := int64(1)
	if kind == "dc" || rapid.IntRange(0, 4).Draw(g.t, "poolOn") > 0 {
		if rapid.IntRange(0, 4).Draw(g.t, "bigPool") == 0 {
			poolHi = 40
			t.X = g.opd(15, 40, depth)
		} else {
			poolHi = 14
			t.X = g.opd(1, 14, depth)
		}
	}
	pointsLo, pointsHi := int64(10), int64(10)
	var mMod *Mod
	if rapid.Bool().Draw(g.t, "mOn") {
		pointsLo, pointsHi = 1, 12
		if rapid.IntRange(0, 3).Draw(g.t, "mBig") == 0 {
			pointsLo, pointsHi = 13, 30
		}
		if kind == "dc" && pointsHi > 11 && g.s.Avoid("dc_crit_round_big_die") {
			pointsLo, pointsHi = 1, 11
		}
		mMod = &Mod{L: "m", V: g.opd(pointsLo, pointsHi, depth)}
	}
	if kind == "wod" && !g.maxMode && rapid.IntRange(0, 6).Draw(g.t, "noAdd") == 0 {
		t.Y = g.simple(0)
	} else {
		lo, hi := g.addLineRange(poolHi, pointsHi)
		t.Y = g.opd(lo, hi, depth)
	}
	var mods []Mod
	if mMod != nil {
		mods = append(mods, *mMod)
	}
	if kind == "wod" && rapid.IntRange(0, 2).Draw(g.t, "thrOn") > 0 {
		mods = append(mods, Mod{L: rapid.SampledFrom([]string{"k", "k", "q"}).Draw(g.t, "kq"), V: g.opd(1, pointsHi+1, depth)})
		if len(mods) == 2 && rapid.Bool().Draw(g.t, "swap") {
			mods[0], mods[1] = mods[1], mods[0]
		}
		// the modifiers may repeat, the last of a kind decides: q3k8 is k8, k2q3k8 too
		for n := rapid.IntRange(0, 5).Draw(g.t, "thrAgain"); n >= 4; n-- {
			mods = append(mods, Mod{L: rapid.SampledFrom([]string{"k", "q"}).Draw(g.t, "kq2"), V: g.opd(1, pointsHi+1, depth)})
		}
	}
	t.Mods = mods
	return t
}

func (g *vgen) term(depth int) *Term {
	switch rapid.IntRange(0, 19).Draw(g.t, "kind") {
	case 0, 1, 2, 3, 4, 5, 6, 7, 8:
		return g.xdy(depth)
	case 9, 10:
		t := &Term{K: "coc", Up: rapid.IntRange(0, 5).Draw(g.t, "up") == 0, Bonus: rapid.Bool().Draw(g.t, "bonus")}
		if rapid.IntRange(0, 3).Draw(g.t, "nOn") > 0 {
			t.X = g.opd(0, 6, depth)
		}
		return t
	case 11:
		return &Term{K: "fate", Up: rapid.IntRange(0, 5).Draw(g.t, "up") == 0}
	case 12, 13, 14, 15:
		return g.pool("wod", depth)
	default:
		return g.pool("dc", depth)
	}
}

func drawVMCase(t *rapid.T, s *rt.Section) VMCase {
	c := VMCase{Seed: [2]uint64{rapid.Uint64().Draw(t, "seed0"), rapid.Uint64().Draw(t, "seed1")}}
	c.Mode = drawMode(t)
	c.DefSides = rapid.SampledFrom([]string{"", "", "6", "20"}).Draw(t, "defSides")
	if rapid.IntRange(0, 2).Draw(t, "withWarm") == 0 {
		c.WarmSides = rapid.SampledFrom([]string{"", "4", "6", "8", "20", "100", "3"}).Draw(t, "warmSides")
		c.Warm = rapid.SampledFrom([]string{"d", "2d", "3d + 1", "d优势", "2dk1"}).Draw(t, "warm")
	}
	g := &vgen{t: t, s: s, maxMode: c.Mode == 1}
	n := rapid.IntRange(1, 4).Draw(t, "items")
	hasTerm := false
	for i := 0; i < n; i++ {
		it := Item{}
		if i > 0 {
			it.Op = rapid.SampledFrom([]string{"+", "+", "-", "*"}).Draw(t, "op")
		}
		if (i == n-1 && !hasTerm) || rapid.IntRange(0, 4).Draw(t, "isTerm") > 0 {
			it.T = g.term(0)
			hasTerm = true
		} else {
			it.Lit = ptr(rapid.Int64Range(0, 9).Draw(t, "lit"))
		}
		c.Items = append(c.Items, it)
	}
	return c
}

// ---------------------------------------------------------------------------
// illegal parameters

type IllegalCase struct {
	VMCase
	What string `json:"what"` // slot that was made illegal, e.g. xdy.times
	Val  string `json:"val"`  // the illegal operand text
}

func illegalInt(t *rapid.T, vals []int64) *Opd {
	v := rapid.SampledFrom(vals).Draw(t, "badVal")
	switch f := rapid.IntRange(0, 2).Draw(t, "badForm"); {
	case v >= 0 && f == 0:
		return &Opd{F: "x", Raw: strconv.FormatInt(v, 10)}
	case f == 1:
		a := rapid.Int64Range(1, 9).Draw(t, "badA")
		return &Opd{F: "x", Raw: fmt.Sprintf("(%d - %d)", v+a, a)}
	}
	return &Opd{F: "x", Raw: fmt.Sprintf("(%d)", v)}
}

func illegalNonInt(t *rapid.T) *Opd {
	return &Opd{F: "x", Raw: rapid.SampledFrom([]string{"(1.5)", "(0.5)", "(2.5)", "('x')", "(\"ab\")", "([1,2])", "(null)", "(3 / 2.0)"}).Draw(t, "badNonInt")}
}

// illegalOpd draws an out-of-range integer or (one time in three) a non-integer value.
func illegalOpd(t *rapid.T, vals []int64, what *string) *Opd {
	if rapid.IntRange(0, 2).Draw(t, "nonInt") == 0 {
		*what += "/non-int"
		return illegalNonInt(t)
	}
	return illegalInt(t, vals)
}

func drawIllegalCase(t *rapid.T, s *rt.Section) IllegalCase {
	c := IllegalCase{}
	c.Seed = [2]uint64{rapid.Uint64().Draw(t, "seed0"), rapid.Uint64().Draw(t, "seed1")}
	c.DefSides = rapid.SampledFrom([]string{"", "6"}).Draw(t, "defSides")
	g := &vgen{t: t, s: s}
	lit := func(v int64) *Opd { return g.simple(v) }
	nonPos := []int64{0, 0, -1, -2, -7, -100}
	var bad *Term
	switch rapid.IntRange(0, 17).Draw(t, "slot") {
	case 0, 1:
		c.What = "xdy.times"
		bad = &Term{K: "xdy", Y: lit(rapid.Int64Range(1, 20).Draw(t, "sides"))}
		if rapid.IntRange(0, 2).Draw(t, "nonInt") == 0 {
			bad.X = illegalNonInt(t)
			c.What += "/non-int"
		} else {
			bad.X = illegalInt(t, nonPos)
		}
		if rapid.Bool().Draw(t, "mods") {
			g.xdyMods(bad, 3, 1, 6, true, 2)
		}
	case 2, 3:
		c.What = "xdy.sides"
		bad = &Term{K: "xdy", X: lit(rapid.Int64Range(1, 8).Draw(t, "times"))}
		if rapid.Bool().Draw(t, "omitX") {
			bad.X = nil
		}
		if rapid.IntRange(0, 2).Draw(t, "nonInt") == 0 {
			bad.Y = illegalNonInt(t)
			c.What += "/non-int"
		} else {
			bad.Y = illegalInt(t, nonPos)
		}
		if rapid.Bool().Draw(t, "mods") {
			g.xdyMods(bad, 3, 1, 6, true, 2)
		}
	case 4, 5, 6:
		c.What = "xdy.keepcount"
		bad = &Term{K: "xdy", X: lit(rapid.Int64Range(1, 8).Draw(t, "times")), Y: lit(rapid.Int64Range(1, 20).Draw(t, "sides")),
			Keep: rapid.SampledFrom([]string{"k", "kh", "q", "kl", "dh", "dl"}).Draw(t, "keep")}
		c.What += "." + bad.Keep
		if rapid.IntRange(0, 2).Draw(t, "nonInt") == 0 {
			bad.KN = illegalNonInt(t)
			c.What += "/non-int"
		} else {
			bad.KN = illegalInt(t, nonPos)
		}
	case 7:
		c.What = "chain.sides"
		bad = &Term{K: "xdy", X: lit(rapid.Int64Range(1, 4).Draw(t, "times")), Y: lit(rapid.Int64Range(1, 6).Draw(t, "sides"))}
		ch := &Term{K: "chain"}
		if rapid.IntRange(0, 2).Draw(t, "nonInt") == 0 {
			ch.Y = illegalNonInt(t)
			c.What += "/non-int"
		} else {
			ch.Y = illegalInt(t, nonPos)
		}
		bad.Chain = []*Term{ch}
	case 8:
		c.What = "wod.pool"
		bad = &Term{K: "wod", X: illegalOpd(t, []int64{0, -1, -5, 20001, 20002, 50000, 1 << 40}, &c.What), Y: lit(rapid.SampledFrom([]int64{0, 5, 8, 10, 11}).Draw(t, "addLine"))}
	case 9:
		c.What = "wod.addline"
		bad = &Term{K: "wod", X: lit(rapid.Int64Range(1, 10).Draw(t, "pool")), Y: illegalOpd(t, []int64{1, 1, -1, -2, -9}, &c.What)}
		if rapid.Bool().Draw(t, "omitX") {
			bad.X = nil
		}
	case 10:
		c.What = "wod.sides"
		bad = &Term{K: "wod", X: lit(rapid.Int64Range(1, 10).Draw(t, "pool")), Y: lit(rapid.SampledFrom([]int64{0, 8, 10, 12}).Draw(t, "addLine")),
			Mods: []Mod{{L: "m", V: illegalOpd(t, nonPos, &c.What)}}}
	case 11:
		c.What = "wod.threshold"
		bad = &Term{K: "wod", X: lit(rapid.Int64Range(1, 10).Draw(t, "pool")), Y: lit(rapid.SampledFrom([]int64{0, 8, 10, 12}).Draw(t, "addLine")),
			Mods: []Mod{{L: rapid.SampledFrom([]string{"k", "q"}).Draw(t, "kq"), V: illegalOpd(t, nonPos, &c.What)}}}
	case 12:
		c.What = "dc.pool"
		bad = &Term{K: "dc", X: illegalOpd(t, []int64{0, -1, -5, 20001, 20002, 50000, 1 << 40}, &c.What), Y: lit(rapid.Int64Range(5, 11).Draw(t, "addLine"))}
	case 13, 14:
		c.What = "dc.addline"
		bad = &Term{K: "dc", X: lit(rapid.Int64Range(1, 10).Draw(t, "pool")), Y: illegalOpd(t, []int64{1, 1, 0, 0, -1, -2, -9}, &c.What)}
	case 15:
		c.What = "dc.sides"
		bad = &Term{K: "dc", X: lit(rapid.Int64Range(1, 10).Draw(t, "pool")), Y: lit(rapid.Int64Range(5, 11).Draw(t, "addLine")),
			Mods: []Mod{{L: "m", V: illegalOpd(t, nonPos, &c.What)}}}
	default:
		c.What = "coc.count"
		bad = &Term{K: "coc", Bonus: rapid.Bool().Draw(t, "bonus")}
		bad.X = illegalOpd(t, []int64{-1, -1, -2, -7, -100}, &c.What)
	}
	bad.Up = rapid.IntRange(0, 5).Draw(t, "up") == 0
	for _, o := range []*Opd{bad.X, bad.Y, bad.KN} {
		if o != nil && o.F == "x" {
			c.Val = o.Raw
		}
	}
	for _, m := range bad.Mods {
		if m.V.F == "x" {
			c.Val = m.V.Raw
		}
	}
	for _, ch := range bad.Chain {
		if ch.Y.F == "x" {
			c.Val = ch.Y.Raw
		}
	}
	// optionally wrap the illegal term into an operand of a legal outer term
	if rapid.IntRange(0, 4).Draw(t, "wrap") == 0 {
		outer := &Term{K: "xdy", X: &Opd{F: "t", T: bad, N: rapid.Int64Range(1, 3).Draw(t, "wrapC")}, Y: lit(6)}
		bad = outer
		c.What += "/in-operand"
	}
	// surround with legal items
	n := rapid.IntRange(1, 3).Draw(t, "items")
	pos := rapid.IntRange(0, n-1).Draw(t, "pos")
	for i := 0; i < n; i++ {
		it := Item{}
		if i > 0 {
			it.Op = rapid.SampledFrom([]string{"+", "-", "*"}).Draw(t, "op")
		}
		switch {
		case i == pos:
			it.T = bad
		case rapid.Bool().Draw(t, "isTerm"):
			it.T = g.term(1)
		default:
			it.Lit = ptr(rapid.Int64Range(0, 9).Draw(t, "lit"))
		}
		c.Items = append(c.Items, it)
	}
	return c
}

func checkIllegal(c IllegalCase, s *rt.Section) *rt.Failure {
	src, _ := printCase(&c.VMCase)
	vm := newVM(&c.VMCase)
	// no operation budget here: the rejection must come from the parameter check, not from a budget that an
	// endlessly exploding roll happens to exhaust (the legal neighbours are tiny; the work meter bounds a runaway)
	vm.Config.OpCountLimit = 0
	var err error
	sig, obs := guarded(func() { err = vm.Run(src) })
	if sig != "" {
		return s.NewFailure("no-panic", prefixSig("illegal", sig), c, fmt.Sprintf("Run(%q): %s", src, obs), "an error value")
	}
	if err == nil {
		got := "<nil>"
		if vm.Ret != nil {
			got = vm.Ret.ToString()
		}
		slot := c.What
		if i := strings.IndexByte(slot, '/'); i >= 0 {
			slot = slot[:i]
		}
		return s.NewFailure("illegal-rejected", "illegal:accepted/"+slot, c, fmt.Sprintf("Run(%q) = %s, no error (%s = %s)", src, got, c.What, c.Val), "an error: "+c.What+" is illegal")
	}
	return nil
}
