package c13

// Template programs: a small AST of the restricted hole language, its printer
// (AST -> DiceScript source) and its reference evaluator (AST -> expected string
// and expected variables).  No bytecode, no operand stack, no parser on the
// reference side: those are what the property says might be wrong.
//
// Hole language: int / string literals, + - * on ints, comparison of ints (as
// `if` conditions), string concatenation, variables, assignment (statement
// level), `if / else if / else` blocks, empty statements, nested templates,
// arrays of ints (for their string form).

import (
	"errors"
	"fmt"
	"sort"
	"strconv"
	"strings"

	"pgregory.net/rapid"
)

// ---------------------------------------------------------------------------
// AST (JSON-serialisable: it is the replay format)

type Lit struct {
	Text  string `json:"text"`
	Spell []int  `json:"spell,omitempty"`
}

type Expr struct {
	K    string  `json:"k"` // int | str | var | bin | cmp | asg | tmpl | arr | par | call (Name(Arr...)) | push (Name.push(R), in place)
	N    int64   `json:"n,omitempty"`
	S    *Lit    `json:"s,omitempty"`
	D    int     `json:"d,omitempty"` // delimiter of a str literal (0 or 1)
	Name string  `json:"name,omitempty"`
	Op   string  `json:"op,omitempty"`
	L    *Expr   `json:"l,omitempty"`
	R    *Expr   `json:"r,omitempty"`
	T    *Tmpl   `json:"t,omitempty"`
	Arr  []*Expr `json:"arr,omitempty"`
	Sp   string  `json:"sp,omitempty"` // whitespace around the operator / '='
	// dict: {'Keys[i]': Arr[i], …}; dset: Name.Op = R (in place, through every name of the dict object)
	Keys []string `json:"keys,omitempty"`
}

// FnDef is a function definition statement: func Name(Params) { return-less Body }; the body is an int
// expression over the parameters and literals (K var names a parameter).
type FnDef struct {
	Name   string   `json:"name"`
	Params []string `json:"params,omitempty"`
	Body   *Expr    `json:"body"`
}

type Stmt struct {
	K  string `json:"k"` // expr | if | empty | func | while | break | continue (the last two inside a while body only)
	E  *Expr  `json:"e,omitempty"`
	Fn *FnDef `json:"fn,omitempty"` // func
	// while: `Ctr = 0; while Ctr < Bound { Ctr = Ctr + 1; Then }` (Ctr a counter variable, Bound 0..3)
	Ctr   string  `json:"ctr,omitempty"`
	Bound int64   `json:"bound,omitempty"`
	Cond  *Expr   `json:"cond,omitempty"`
	Then  []*Stmt `json:"then,omitempty"`
	Else  []*Stmt `json:"else,omitempty"` // used when HasElse
	// HasElse: 0 none, 1 else-block, 2 else-if (Else holds exactly one `if` statement)
	HasElse int    `json:"has_else,omitempty"`
	Sep     string `json:"sep,omitempty"` // text between this statement and the next one
	In      string `json:"in,omitempty"`  // whitespace inside the braces of the blocks
}

type Hole struct {
	Pct   bool    `json:"pct,omitempty"` // {% … %} instead of { … }
	PadL  string  `json:"pad_l,omitempty"`
	PadR  string  `json:"pad_r,omitempty"`
	Body  []*Stmt `json:"body"`
	Trail bool    `json:"trail,omitempty"` // trailing ';' after the last statement
}

type Part struct {
	Lit  *Lit  `json:"lit,omitempty"`
	Hole *Hole `json:"hole,omitempty"`
}

type Tmpl struct {
	D     int     `json:"d"` // 2 backtick, 3 0x1e
	Parts []*Part `json:"parts"`
}

// ---------------------------------------------------------------------------
// variables: the type of a variable is fixed by its name

var intVars = []string{"n1", "n2", "i1", "j2", "$n", "_n", "力量"}
var strVars = []string{"s1", "s2", "t1", "u_x", "$s", "名字"}
var arrVars = []string{"v1", "w2", "数组"}
var dictVars = []string{"m1", "m2"} // dicts of ints (references, like arrays)
var dictKeys = []string{"a", "b", "c"}
var ctrVars = []string{"k1", "k2"} // loop counters: never assigned by generated statements
var fnNames = []string{"f1", "f2", "函数"}
var fnParams = []string{"p1", "p2", "p3"}

func varType(name string) byte {
	for _, n := range intVars {
		if n == name {
			return 'i'
		}
	}
	for _, n := range strVars {
		if n == name {
			return 's'
		}
	}
	for _, n := range arrVars {
		if n == name {
			return 'a'
		}
	}
	for _, n := range ctrVars {
		if n == name {
			return 'i'
		}
	}
	for _, n := range dictVars {
		if n == name {
			return 'd'
		}
	}
	if strings.HasPrefix(name, "g") || name == "r" { // depth section: g<k> are strings, wrapper result r
		return 's'
	}
	return 0
}

// ---------------------------------------------------------------------------
// printer

var errUnprintable = errors.New("text not representable in this quote style")

const (
	precAsg = 1
	precCmp = 2
	precAdd = 3
	precMul = 4
	precAtm = 5
)

func prec(e *Expr) int {
	switch e.K {
	case "asg", "dset":
		return precAsg
	case "cmp":
		return precCmp
	case "bin":
		if e.Op == "*" {
			return precMul
		}
		return precAdd
	}
	return precAtm
}

type printer struct {
	sb  strings.Builder
	err error
}

func (p *printer) w(s string) { p.sb.WriteString(s) }

func (p *printer) expr(e *Expr, min int) {
	if e == nil {
		p.err = errors.New("nil expression")
		return
	}
	pr := prec(e)
	if pr < min {
		p.w("(")
		p.expr(e, 0)
		p.w(")")
		return
	}
	switch e.K {
	case "int":
		p.w(strconv.FormatInt(e.N, 10))
	case "str":
		if e.S == nil || e.D < 0 || e.D > 1 {
			p.err = errors.New("bad str literal")
			return
		}
		src, _, ok := encodeLiteral(e.S.Text, e.D, e.S.Spell)
		if !ok {
			p.err = errUnprintable
			return
		}
		p.w(src)
	case "var":
		p.w(e.Name)
	case "bin", "cmp":
		p.expr(e.L, pr)
		p.w(e.Sp + e.Op + e.Sp)
		p.expr(e.R, pr+1)
	case "asg":
		p.w(e.Name + e.Sp + "=" + e.Sp)
		p.expr(e.R, precAsg)
	case "tmpl":
		p.tmpl(e.T)
	case "arr":
		p.w("[")
		for i, x := range e.Arr {
			if i > 0 {
				p.w("," + e.Sp)
			}
			p.expr(x, precCmp)
		}
		p.w("]")
	case "par":
		// blanks are legal after '(' but not before ')' (after a number the grammar has no sp slot there)
		p.w("(" + e.Sp)
		p.expr(e.L, 0)
		p.w(")")
	case "dict":
		p.w("{")
		for i, k := range e.Keys {
			if i > 0 {
				p.w("," + e.Sp)
			}
			p.w("'" + k + "':" + e.Sp)
			p.expr(e.Arr[i], precCmp)
		}
		p.w("}")
	case "dset":
		p.w(e.Name + "." + e.Op + e.Sp + "=" + e.Sp)
		p.expr(e.R, precAsg)
	case "push":
		p.w(e.Name + ".push(")
		p.expr(e.R, precCmp)
		p.w(")")
	case "call":
		p.w(e.Name + "(")
		for i, x := range e.Arr {
			if i > 0 {
				p.w("," + e.Sp)
			}
			p.expr(x, precCmp)
		}
		p.w(")")
	default:
		p.err = fmt.Errorf("unknown expression kind %q", e.K)
	}
}

func okWS(s string) bool {
	for _, c := range s {
		if c != ' ' && c != '\t' && c != '\n' && c != '\r' {
			return false
		}
	}
	return true
}

func okSep(s string, needSemi bool) bool {
	semi := false
	for _, c := range s {
		switch c {
		case ';':
			semi = true
		case ' ', '\t', '\n', '\r':
		default:
			return false
		}
	}
	return semi || !needSemi
}

func (p *printer) stmts(list []*Stmt, trail bool) {
	for i, st := range list {
		if st == nil {
			p.err = errors.New("nil statement")
			return
		}
		last := i == len(list)-1
		switch st.K {
		case "expr":
			p.expr(st.E, 0)
			if !last {
				sep := st.Sep
				if !okSep(sep, true) {
					sep = ";"
				}
				p.w(sep)
			}
		case "empty":
			// an empty statement is a bare ';'
			p.w(";")
			if !last && okWS(st.Sep) {
				p.w(st.Sep)
			}
		case "if":
			p.ifStmt(st)
			if !last {
				sep := st.Sep
				if !okSep(sep, false) {
					sep = " "
				}
				p.w(sep)
			}
		case "break", "continue":
			p.w(st.K)
			if !last {
				sep := st.Sep
				if !okSep(sep, true) {
					sep = ";"
				}
				p.w(sep)
			}
		case "func":
			if st.Fn == nil {
				p.err = errors.New("func statement without a definition")
				return
			}
			p.w("func " + st.Fn.Name + "(" + strings.Join(st.Fn.Params, ", ") + ") { ")
			p.expr(st.Fn.Body, 0)
			p.w(" }")
			if !last {
				sep := st.Sep
				if !okSep(sep, true) {
					sep = ";"
				}
				p.w(sep)
			}
		case "while":
			p.w(st.Ctr + " = 0; while " + st.Ctr + " < " + strconv.FormatInt(st.Bound, 10) + " ")
			in := st.In
			if !okWS(in) || in == "" {
				in = " "
			}
			// the counter moves first, so that a continue in the body cannot skip it
			p.w("{" + in + st.Ctr + " = " + st.Ctr + " + 1")
			if len(st.Then) > 0 {
				p.w("; ")
				p.stmts(st.Then, false)
			}
			p.w(in + "}")
			if !last {
				sep := st.Sep
				if !okSep(sep, false) {
					sep = " "
				}
				p.w(sep)
			}
		default:
			p.err = fmt.Errorf("unknown statement kind %q", st.K)
			return
		}
	}
	if trail && len(list) > 0 && list[len(list)-1].K == "expr" {
		p.w(";")
	}
}

func (p *printer) block(list []*Stmt, in string) {
	if !okWS(in) {
		in = " "
	}
	p.w("{" + in)
	p.stmts(list, false)
	p.w(in + "}")
}

func (p *printer) ifStmt(st *Stmt) {
	p.w("if ")
	p.expr(st.Cond, precCmp)
	p.w(" ")
	p.block(st.Then, st.In)
	switch st.HasElse {
	case 1:
		p.w(" else ")
		p.block(st.Else, st.In)
	case 2:
		if len(st.Else) != 1 || st.Else[0] == nil || st.Else[0].K != "if" {
			p.err = errors.New("else-if needs exactly one if statement")
			return
		}
		p.w(" else ")
		p.ifStmt(st.Else[0])
	}
}

func (p *printer) tmpl(t *Tmpl) {
	if t == nil || !isTmpl(t.D) || t.D > dRS {
		p.err = errors.New("bad template")
		return
	}
	dl := delimStr[t.D]
	p.w(dl)
	for i, part := range t.Parts {
		switch {
		case part != nil && part.Lit != nil:
			// what follows this literal segment decides whether a raw backslash may end it
			next, atEnd := dl[0], true
			if i+1 < len(t.Parts) {
				atEnd = false
				nx := t.Parts[i+1]
				if nx != nil && nx.Lit != nil {
					// first emitted byte of the next segment: encode it first
					b, _, ok := encodeBody(nx.Lit.Text, t.D, nx.Lit.Spell, 'a', false)
					if ok && len(b) > 0 {
						next = b[0]
					} else {
						// empty segment: be conservative, treat as an escape letter
						next = '{'
					}
				} else {
					next = '{'
				}
			}
			body, _, ok := encodeBody(part.Lit.Text, t.D, part.Lit.Spell, next, atEnd)
			if !ok {
				p.err = errUnprintable
				return
			}
			p.w(body)
		case part != nil && part.Hole != nil:
			h := part.Hole
			padL, padR := h.PadL, h.PadR
			if !okWS(padL) {
				padL = " "
			}
			if !okWS(padR) {
				padR = " "
			}
			if len(h.Body) == 0 {
				p.err = errors.New("a hole needs at least one statement")
				return
			}
			if h.Pct {
				p.w("{%" + padL)
				p.stmts(h.Body, h.Trail)
				p.w(padR + "%}")
			} else {
				p.w("{" + padL)
				p.stmts(h.Body, h.Trail)
				p.w(padR + "}")
			}
		default:
			p.err = errors.New("empty template part")
			return
		}
	}
	p.w(dl)
}

// ---------------------------------------------------------------------------
// reference evaluator

type Val struct {
	K byte // 'i' int, 's' string, 'a' array of ints
	I int64
	S string
	A []int64
	D map[string]int64 // 'd' dict of ints
	// id: which array object this is (arrays are references: v1 = w2 makes both names one array, a push through either
	// is seen through both); 0 for a value that is not an array object of the evaluator
	id int
}

func (v Val) String() string {
	switch v.K {
	case 'i':
		return strconv.FormatInt(v.I, 10)
	case 's':
		return v.S
	case 'd':
		keys := make([]string, 0, len(v.D))
		for k := range v.D {
			keys = append(keys, k)
		}
		sort.Strings(keys)
		var sb strings.Builder
		sb.WriteString("{")
		for i, k := range keys {
			if i > 0 {
				sb.WriteString(", ")
			}
			sb.WriteString("'" + k + "': " + strconv.FormatInt(v.D[k], 10))
		}
		sb.WriteString("}")
		return sb.String()
	case 'a':
		var sb strings.Builder
		sb.WriteString("[")
		for i, x := range v.A {
			if i > 0 {
				sb.WriteString(", ")
			}
			sb.WriteString(strconv.FormatInt(x, 10))
		}
		sb.WriteString("]")
		return sb.String()
	}
	return "<?>"
}

func (v Val) equal(w Val) bool {
	if v.K != w.K {
		return false
	}
	switch v.K {
	case 'i':
		return v.I == w.I
	case 's':
		return v.S == w.S
	case 'd':
		if len(v.D) != len(w.D) {
			return false
		}
		for k, x := range v.D {
			if y, ok := w.D[k]; !ok || x != y {
				return false
			}
		}
		return true
	}
	if len(v.A) != len(w.A) {
		return false
	}
	for i := range v.A {
		if v.A[i] != w.A[i] {
			return false
		}
	}
	return true
}

var (
	errInvalid  = errors.New("case outside the generated domain")
	errOverflow = errors.New("integer beyond 2^53")
)

const intBound = int64(1) << 53

type evaluator struct {
	env   map[string]Val
	funcs map[string]*FnDef
	// funcsInHole / loopsInHole: function definitions and loop rounds executed inside a hole
	funcsInHole, loopsInHole int
	// ctl: 1 after a break, 2 after a continue, until the enclosing loop takes it; jumps: how many were taken
	ctl, jumps, loopDepth int
	nextID, pushes        int
	// statistics for the non-triviality rule
	holes     int
	maxDepth  int
	depth     int
	assigns   int // assignments executed inside a hole
	ifsInHole int
}

func newEvaluator() *evaluator {
	return &evaluator{env: map[string]Val{}, funcs: map[string]*FnDef{}}
}

func (ev *evaluator) expr(e *Expr) (Val, error) {
	if e == nil {
		return Val{}, errInvalid
	}
	switch e.K {
	case "int":
		return Val{K: 'i', I: e.N}, nil
	case "str":
		if e.S == nil {
			return Val{}, errInvalid
		}
		return Val{K: 's', S: e.S.Text}, nil
	case "var":
		v, ok := ev.env[e.Name]
		if !ok {
			return Val{}, errInvalid
		}
		return v, nil
	case "par":
		return ev.expr(e.L)
	case "bin":
		l, err := ev.expr(e.L)
		if err != nil {
			return Val{}, err
		}
		r, err := ev.expr(e.R)
		if err != nil {
			return Val{}, err
		}
		if l.K == 's' && r.K == 's' && e.Op == "+" {
			return Val{K: 's', S: l.S + r.S}, nil
		}
		if l.K != 'i' || r.K != 'i' {
			return Val{}, errInvalid
		}
		var x int64
		switch e.Op {
		case "+":
			x = l.I + r.I
		case "-":
			x = l.I - r.I
		case "*":
			x = l.I * r.I
		default:
			return Val{}, errInvalid
		}
		if x >= intBound || x <= -intBound {
			return Val{}, errOverflow
		}
		return Val{K: 'i', I: x}, nil
	case "cmp":
		if e.Op == "!=" && e.L != nil && e.L.K == "par" {
			// `(a) != b` is outside the domain: the parser loses the operator after a
			// parenthesised left operand (a finding of the evaluation property, not of this one)
			return Val{}, errInvalid
		}
		l, err := ev.expr(e.L)
		if err != nil {
			return Val{}, err
		}
		r, err := ev.expr(e.R)
		if err != nil {
			return Val{}, err
		}
		if l.K != 'i' || r.K != 'i' {
			return Val{}, errInvalid
		}
		var b bool
		switch e.Op {
		case "<":
			b = l.I < r.I
		case "<=":
			b = l.I <= r.I
		case "==":
			b = l.I == r.I
		case "!=":
			b = l.I != r.I
		case ">=":
			b = l.I >= r.I
		case ">":
			b = l.I > r.I
		default:
			return Val{}, errInvalid
		}
		if b {
			return Val{K: 'i', I: 1}, nil
		}
		return Val{K: 'i', I: 0}, nil
	case "asg":
		v, err := ev.expr(e.R)
		if err != nil {
			return Val{}, err
		}
		if vt := varType(e.Name); vt == 0 || vt != v.K {
			return Val{}, errInvalid
		}
		ev.env[e.Name] = v
		if ev.depth > 0 {
			ev.assigns++
		}
		return v, nil
	case "tmpl":
		s, err := ev.tmpl(e.T)
		if err != nil {
			return Val{}, err
		}
		return Val{K: 's', S: s}, nil
	case "call":
		fn := ev.funcs[e.Name]
		if fn == nil || len(fn.Params) != len(e.Arr) {
			return Val{}, errInvalid
		}
		// a function has its own variable space: the body sees its parameters only
		callee := &evaluator{env: map[string]Val{}, funcs: map[string]*FnDef{}}
		for i, x := range e.Arr {
			v, err := ev.expr(x)
			if err != nil {
				return Val{}, err
			}
			if v.K != 'i' {
				return Val{}, errInvalid
			}
			callee.env[fn.Params[i]] = v
		}
		if !pureIntExpr(fn.Body) {
			return Val{}, errInvalid
		}
		return callee.expr(fn.Body)
	case "dict":
		if len(e.Keys) != len(e.Arr) {
			return Val{}, errInvalid
		}
		ev.nextID++
		out := Val{K: 'd', D: map[string]int64{}, id: ev.nextID}
		for i, k := range e.Keys {
			v, err := ev.expr(e.Arr[i])
			if err != nil {
				return Val{}, err
			}
			if v.K != 'i' {
				return Val{}, errInvalid
			}
			out.D[k] = v.I
		}
		return out, nil
	case "dset":
		cur, ok := ev.env[e.Name]
		if !ok || cur.K != 'd' || cur.id == 0 {
			return Val{}, errInvalid
		}
		x, err := ev.expr(e.R)
		if err != nil {
			return Val{}, err
		}
		if x.K != 'i' {
			return Val{}, errInvalid
		}
		grown := map[string]int64{}
		for k, v := range cur.D {
			grown[k] = v
		}
		grown[e.Op] = x.I
		for k, w := range ev.env { // every name of this dict object sees the entry
			if w.K == 'd' && w.id == cur.id {
				w.D = grown
				ev.env[k] = w
			}
		}
		ev.pushes++
		return x, nil // an assignment through an attribute yields the assigned value
	case "push":
		cur, ok := ev.env[e.Name]
		if !ok || cur.K != 'a' || cur.id == 0 {
			return Val{}, errInvalid
		}
		x, err := ev.expr(e.R)
		if err != nil {
			return Val{}, err
		}
		if x.K != 'i' || len(cur.A) >= 40 {
			return Val{}, errInvalid
		}
		grown := append(append([]int64{}, cur.A...), x.I)
		for k, w := range ev.env { // every name of this array object sees the new element
			if w.K == 'a' && w.id == cur.id {
				w.A = grown
				ev.env[k] = w
			}
		}
		ev.pushes++
		return Val{K: 'a', A: grown, id: cur.id}, nil
	case "arr":
		ev.nextID++
		out := Val{K: 'a', A: []int64{}, id: ev.nextID}
		for _, x := range e.Arr {
			v, err := ev.expr(x)
			if err != nil {
				return Val{}, err
			}
			if v.K != 'i' {
				return Val{}, errInvalid
			}
			out.A = append(out.A, v.I)
		}
		return out, nil
	}
	return Val{}, errInvalid
}

// pureIntExpr: literals, parameters, + - * and parentheses only (what a generated function body holds).
func pureIntExpr(e *Expr) bool {
	if e == nil {
		return false
	}
	switch e.K {
	case "int", "var":
		return true
	case "par":
		return pureIntExpr(e.L)
	case "bin":
		return pureIntExpr(e.L) && pureIntExpr(e.R)
	}
	return false
}

func truthy(v Val) bool {
	switch v.K {
	case 'i':
		return v.I != 0
	case 's':
		return v.S != ""
	case 'd':
		return len(v.D) > 0
	}
	return len(v.A) > 0
}

// stmts executes a statement list; it returns the value of the last top-level
// expression statement (has=false when there is none).
func (ev *evaluator) stmts(list []*Stmt) (last Val, has bool, err error) {
	for _, st := range list {
		if st == nil {
			return Val{}, false, errInvalid
		}
		if ev.ctl != 0 {
			return last, has, nil
		}
		switch st.K {
		case "expr":
			v, err := ev.expr(st.E)
			if err != nil {
				return Val{}, false, err
			}
			last, has = v, true
		case "empty":
		case "if":
			if err := ev.ifStmt(st); err != nil {
				return Val{}, false, err
			}
		case "break", "continue":
			if ev.loopDepth == 0 {
				return Val{}, false, errInvalid
			}
			ev.ctl = map[string]int{"break": 1, "continue": 2}[st.K]
			ev.jumps++
			return last, has, nil
		case "func":
			if st.Fn == nil || varType(st.Fn.Name) != 0 {
				return Val{}, false, errInvalid
			}
			ev.funcs[st.Fn.Name] = st.Fn
			if ev.depth > 0 {
				ev.funcsInHole++
			}
		case "while":
			if varType(st.Ctr) != 'i' || st.Bound < 0 || st.Bound > 8 {
				return Val{}, false, errInvalid
			}
			ev.env[st.Ctr] = Val{K: 'i', I: 0}
			for rounds := 0; ev.env[st.Ctr].I < st.Bound; rounds++ {
				if rounds > 16 {
					return Val{}, false, errInvalid
				}
				c := ev.env[st.Ctr]
				if c.K != 'i' {
					return Val{}, false, errInvalid
				}
				ev.env[st.Ctr] = Val{K: 'i', I: c.I + 1}
				if ev.depth > 0 {
					ev.loopsInHole++
				}
				ev.loopDepth++
				_, _, err := ev.stmts(st.Then)
				ev.loopDepth--
				if err != nil {
					return Val{}, false, err
				}
				ctl := ev.ctl
				ev.ctl = 0
				if ctl == 1 {
					break
				}
			}
		default:
			return Val{}, false, errInvalid
		}
	}
	return last, has, nil
}

func (ev *evaluator) ifStmt(st *Stmt) error {
	if ev.depth > 0 {
		ev.ifsInHole++
	}
	c, err := ev.expr(st.Cond)
	if err != nil {
		return err
	}
	if truthy(c) {
		_, _, err := ev.stmts(st.Then)
		return err
	}
	switch st.HasElse {
	case 1:
		_, _, err := ev.stmts(st.Else)
		return err
	case 2:
		if len(st.Else) != 1 || st.Else[0] == nil || st.Else[0].K != "if" {
			return errInvalid
		}
		return ev.ifStmt(st.Else[0])
	}
	return nil
}

// holeAmbiguous: the documentation does not say what a hole yields when its
// statements produce a value but the last statement is a block; such holes are
// outside the generated domain.
func holeAmbiguous(h *Hole) bool {
	sawExpr := false
	lastKind := ""
	for _, st := range h.Body {
		if st == nil {
			continue
		}
		if st.K == "expr" {
			sawExpr = true
		}
		if st.K != "empty" {
			lastKind = st.K
		}
	}
	// a function definition as the last statement leaves the function value (undocumented): outside the domain too
	return (sawExpr && lastKind != "expr") || lastKind == "func"
}

func (ev *evaluator) tmpl(t *Tmpl) (string, error) {
	if t == nil {
		return "", errInvalid
	}
	var sb strings.Builder
	for _, part := range t.Parts {
		switch {
		case part != nil && part.Lit != nil:
			sb.WriteString(part.Lit.Text)
		case part != nil && part.Hole != nil:
			if holeAmbiguous(part.Hole) {
				return "", errInvalid
			}
			ev.holes++
			ev.depth++
			if ev.depth > ev.maxDepth {
				ev.maxDepth = ev.depth
			}
			v, has, err := ev.stmts(part.Hole.Body)
			ev.depth--
			if err != nil {
				return "", err
			}
			if ev.ctl != 0 {
				return "", nil // a break/continue left the hole: the template is abandoned with the round
			}
			if has {
				sb.WriteString(v.String())
			}
		default:
			return "", errInvalid
		}
	}
	return sb.String(), nil
}

func envString(env map[string]Val) string {
	keys := make([]string, 0, len(env))
	for k := range env {
		keys = append(keys, k)
	}
	sort.Strings(keys)
	var sb strings.Builder
	for i, k := range keys {
		if i > 0 {
			sb.WriteString(" ")
		}
		fmt.Fprintf(&sb, "%s=%q", k, env[k].String())
	}
	return sb.String()
}

// ---------------------------------------------------------------------------
// generator

type gen struct {
	funcs    map[string]int // function name -> number of parameters, as defined so far
	t        *rapid.T
	budget   int             // remaining AST nodes
	defined  map[string]bool // variables definitely assigned at this point
	tdepth   int             // current template nesting
	maxT     int             // maximum template nesting
	idepth   int             // current if nesting
	litLen   int
	excluded map[string]int
}

func copySet(m map[string]bool) map[string]bool {
	o := make(map[string]bool, len(m))
	for k, v := range m {
		o[k] = v
	}
	return o
}

func (g *gen) definedOf(pool []string) []string {
	var out []string
	for _, n := range pool {
		if g.defined[n] {
			out = append(out, n)
		}
	}
	return out
}

func (g *gen) sp() string {
	return rapid.SampledFrom([]string{"", " ", " ", "  ", "\t"}).Draw(g.t, "sp")
}

func (g *gen) ws() string {
	return rapid.SampledFrom([]string{"", "", " ", " ", "\n", " \n ", "\t", "\r\n", "  "}).Draw(g.t, "ws")
}

func (g *gen) intExpr(depth int) *Expr {
	g.budget--
	vars := g.definedOf(intVars)
	if len(g.funcs) > 0 && depth > 0 && g.budget > 0 && rapid.IntRange(0, 3).Draw(g.t, "callFn") == 0 {
		names := make([]string, 0, len(g.funcs))
		for _, n := range fnNames {
			if _, ok := g.funcs[n]; ok {
				names = append(names, n)
			}
		}
		name := rapid.SampledFrom(names).Draw(g.t, "fnName")
		e := &Expr{K: "call", Name: name, Sp: g.sp()}
		for i := 0; i < g.funcs[name]; i++ {
			e.Arr = append(e.Arr, g.intExpr(depth-1))
		}
		return e
	}
	k := rapid.IntRange(0, 9).Draw(g.t, "ik")
	switch {
	case k <= 2 || depth <= 0 || g.budget <= 0:
		if len(vars) > 0 && k%2 == 0 {
			return &Expr{K: "var", Name: rapid.SampledFrom(vars).Draw(g.t, "ivar")}
		}
		n := int64(rapid.IntRange(0, 12).Draw(g.t, "n"))
		if rapid.IntRange(0, 5).Draw(g.t, "big") == 0 {
			n = int64(rapid.IntRange(0, 100000).Draw(g.t, "nbig"))
		}
		return &Expr{K: "int", N: n}
	case k <= 4 && len(vars) > 0:
		return &Expr{K: "var", Name: rapid.SampledFrom(vars).Draw(g.t, "ivar")}
	case k <= 8:
		op := rapid.SampledFrom([]string{"+", "-", "*", "+"}).Draw(g.t, "op")
		return &Expr{K: "bin", Op: op, L: g.intExpr(depth - 1), R: g.intExpr(depth - 1), Sp: g.sp()}
	default:
		return &Expr{K: "par", L: g.intExpr(depth - 1), Sp: rapid.SampledFrom([]string{"", " "}).Draw(g.t, "psp")}
	}
}

func (g *gen) lit(d int, maxLen int, label string) *Lit {
	text := genText(g.t, maxLen, label)
	text, _ = replaceUnrepresentable(text, d)
	return &Lit{Text: text, Spell: genSpell(g.t, text, label)}
}

func (g *gen) strExpr(depth int) *Expr {
	g.budget--
	vars := g.definedOf(strVars)
	k := rapid.IntRange(0, 11).Draw(g.t, "sk")
	switch {
	case k <= 2 || depth <= 0 || g.budget <= 0:
		if len(vars) > 0 && k == 0 {
			return &Expr{K: "var", Name: rapid.SampledFrom(vars).Draw(g.t, "svar")}
		}
		d := rapid.IntRange(0, 1).Draw(g.t, "sd")
		return &Expr{K: "str", D: d, S: g.lit(d, 6, "sl")}
	case k <= 4 && len(vars) > 0:
		return &Expr{K: "var", Name: rapid.SampledFrom(vars).Draw(g.t, "svar")}
	case k <= 6:
		return &Expr{K: "bin", Op: "+", L: g.strExpr(depth - 1), R: g.strExpr(depth - 1), Sp: g.sp()}
	case k <= 10 && g.tdepth < g.maxT:
		return &Expr{K: "tmpl", T: g.tmpl()}
	default:
		return &Expr{K: "par", L: g.strExpr(depth - 1), Sp: ""}
	}
}

func (g *gen) arrExpr() *Expr {
	g.budget--
	vars := g.definedOf(arrVars)
	if len(vars) > 0 && rapid.IntRange(0, 4).Draw(g.t, "apush") == 0 {
		// in-place growth: the array object changes for every name and every later hole that shows it, not for
		// the text of a hole that has already ended
		return &Expr{K: "push", Name: rapid.SampledFrom(vars).Draw(g.t, "pvar"), R: g.intExpr(1)}
	}
	if len(vars) > 0 && rapid.IntRange(0, 2).Draw(g.t, "ak") == 0 {
		return &Expr{K: "var", Name: rapid.SampledFrom(vars).Draw(g.t, "avar")}
	}
	n := rapid.IntRange(0, 3).Draw(g.t, "alen")
	e := &Expr{K: "arr", Sp: rapid.SampledFrom([]string{"", " "}).Draw(g.t, "asp")}
	for i := 0; i < n; i++ {
		e.Arr = append(e.Arr, g.intExpr(1))
	}
	return e
}

func (g *gen) dictExpr() *Expr {
	g.budget--
	vars := g.definedOf(dictVars)
	if len(vars) > 0 && rapid.IntRange(0, 2).Draw(g.t, "dset") == 0 {
		// in-place entry: later holes that show the dict show the new entry, a hole that has ended keeps its text
		return &Expr{K: "dset", Name: rapid.SampledFrom(vars).Draw(g.t, "dsetVar"), Op: rapid.SampledFrom(dictKeys).Draw(g.t, "dsetKey"), R: g.intExpr(1), Sp: g.sp()}
	}
	if len(vars) > 0 && rapid.IntRange(0, 2).Draw(g.t, "dk") == 0 {
		return &Expr{K: "var", Name: rapid.SampledFrom(vars).Draw(g.t, "dvar")}
	}
	e := &Expr{K: "dict", Sp: rapid.SampledFrom([]string{"", " "}).Draw(g.t, "dsp")}
	n := rapid.IntRange(0, 3).Draw(g.t, "dlen")
	for i := 0; i < n; i++ {
		e.Keys = append(e.Keys, dictKeys[i])
		e.Arr = append(e.Arr, g.intExpr(1))
	}
	return e
}

func (g *gen) valueExpr(depth int) *Expr {
	if rapid.IntRange(0, 7).Draw(g.t, "vdict") == 0 {
		return g.dictExpr()
	}
	switch rapid.IntRange(0, 6).Draw(g.t, "vt") {
	case 0, 1, 2:
		return g.intExpr(depth)
	case 3, 4, 5:
		return g.strExpr(depth)
	}
	return g.arrExpr()
}

func (g *gen) assign(depth int) *Expr {
	g.budget--
	var name string
	var rhs *Expr
	switch rapid.IntRange(0, 6).Draw(g.t, "at") {
	case 0, 1, 2:
		name = rapid.SampledFrom(intVars).Draw(g.t, "aname")
		rhs = g.intExpr(depth)
	case 3, 4, 5:
		name = rapid.SampledFrom(strVars).Draw(g.t, "aname")
		rhs = g.strExpr(depth)
	default:
		name = rapid.SampledFrom(arrVars).Draw(g.t, "aname")
		rhs = g.arrExpr()
	}
	if rapid.IntRange(0, 7).Draw(g.t, "adict") == 0 {
		name = rapid.SampledFrom(dictVars).Draw(g.t, "dname")
		rhs = g.dictExpr()
		if rhs.K == "dset" {
			rhs = &Expr{K: "dict", Keys: []string{"a"}, Arr: []*Expr{g.intExpr(1)}}
		}
	}
	g.defined[name] = true
	return &Expr{K: "asg", Name: name, R: rhs, Sp: g.sp()}
}

func (g *gen) cond() *Expr {
	g.budget--
	switch rapid.IntRange(0, 5).Draw(g.t, "ck") {
	case 0:
		return &Expr{K: "int", N: int64(rapid.IntRange(0, 1).Draw(g.t, "c01"))}
	case 1:
		return g.intExpr(1)
	default:
		op := rapid.SampledFrom([]string{"<", "<=", "==", "!=", ">=", ">"}).Draw(g.t, "cop")
		l := g.intExpr(1)
		for op == "!=" && l.K == "par" {
			// `(a) != b` is not generated (known parser finding of another property); counted
			g.excluded["paren_left_operand_of_ne"]++
			l = l.L
		}
		return &Expr{K: "cmp", Op: op, L: l, R: g.intExpr(1), Sp: " "}
	}
}

func (g *gen) ifStmt() *Stmt {
	g.budget--
	st := &Stmt{K: "if", Cond: g.cond(), In: g.ws()}
	before := copySet(g.defined)
	g.idepth++
	st.Then = g.stmtList(rapid.IntRange(0, 3).Draw(g.t, "nthen"), false)
	afterThen := g.defined
	g.defined = copySet(before)
	switch rapid.IntRange(0, 3).Draw(g.t, "else") {
	case 1:
		st.HasElse = 1
		st.Else = g.stmtList(rapid.IntRange(0, 2).Draw(g.t, "nelse"), false)
	case 2:
		if g.idepth < 3 && g.budget > 0 {
			st.HasElse = 2
			st.Else = []*Stmt{g.ifStmt()}
		}
	}
	g.idepth--
	afterElse := g.defined
	// definitely assigned after the statement: in both arms (no else arm = nothing new)
	merged := copySet(before)
	if st.HasElse != 0 {
		for k := range afterThen {
			if afterElse[k] {
				merged[k] = true
			}
		}
	}
	g.defined = merged
	return st
}

// funcStmt defines (or redefines) one of the three function names; the body is an int expression over the parameters.
func (g *gen) funcStmt() *Stmt {
	g.budget--
	fn := &FnDef{Name: rapid.SampledFrom(fnNames).Draw(g.t, "defName")}
	fn.Params = append([]string(nil), fnParams[:rapid.IntRange(0, 3).Draw(g.t, "nparams")]...)
	var body func(d int) *Expr
	body = func(d int) *Expr {
		k := rapid.IntRange(0, 5).Draw(g.t, "fb")
		switch {
		case d <= 0 || k <= 1:
			if len(fn.Params) > 0 && k%2 == 0 {
				return &Expr{K: "var", Name: rapid.SampledFrom(fn.Params).Draw(g.t, "fparam")}
			}
			return &Expr{K: "int", N: int64(rapid.IntRange(0, 12).Draw(g.t, "fn"))}
		case k == 2:
			return &Expr{K: "par", L: body(d - 1)}
		}
		return &Expr{K: "bin", Op: rapid.SampledFrom([]string{"+", "-", "*"}).Draw(g.t, "fop"), L: body(d - 1), R: body(d - 1), Sp: g.sp()}
	}
	fn.Body = body(2)
	if g.funcs == nil {
		g.funcs = map[string]int{}
	}
	g.funcs[fn.Name] = len(fn.Params)
	return &Stmt{K: "func", Fn: fn}
}

// whileStmt: a counted loop of 0..3 rounds over a few statements.
func (g *gen) whileStmt() *Stmt {
	g.budget--
	st := &Stmt{K: "while", Ctr: rapid.SampledFrom(ctrVars).Draw(g.t, "ctr"), Bound: int64(rapid.IntRange(0, 3).Draw(g.t, "bound")), In: g.ws()}
	before := copySet(g.defined)
	g.idepth += 2 // no function definitions and no loop inside a loop body
	st.Then = g.stmtList(rapid.IntRange(0, 2).Draw(g.t, "nbody"), false)
	if rapid.IntRange(0, 2).Draw(g.t, "jump") == 0 {
		// leave the round (or the loop) from inside an if: `if Ctr == k { break }`, possibly from within a nested template's hole
		jump := &Stmt{K: rapid.SampledFrom([]string{"break", "continue"}).Draw(g.t, "jumpKind")}
		cond := &Expr{K: "cmp", Op: rapid.SampledFrom([]string{"==", ">=", "<"}).Draw(g.t, "jumpOp"), L: &Expr{K: "var", Name: st.Ctr}, R: &Expr{K: "int", N: int64(rapid.IntRange(1, 3).Draw(g.t, "jumpAt"))}, Sp: g.sp()}
		ifst := &Stmt{K: "if", Cond: cond, Then: []*Stmt{jump}, In: g.ws(), Sep: rapid.SampledFrom([]string{"", " ", ";", "\n"}).Draw(g.t, "jsep")}
		var wrapped *Stmt = ifst
		if g.tdepth < g.maxT && rapid.IntRange(0, 2).Draw(g.t, "jumpInHole") == 0 {
			// the jump sits in a hole of a template that is being assembled inside the loop body
			h := &Hole{Pct: rapid.Bool().Draw(g.t, "jpct"), Body: []*Stmt{ifst}}
			if rapid.IntRange(0, 2).Draw(g.t, "innerLoopFirst") == 0 {
				// a complete loop of its own runs in the same hole before the jump is taken
				other := ctrVars[0]
				if other == st.Ctr {
					other = ctrVars[1]
				}
				inner := &Stmt{K: "while", Ctr: other, Bound: int64(rapid.IntRange(0, 2).Draw(g.t, "innerBound")), In: g.ws(),
					Sep: rapid.SampledFrom([]string{";", " ", "\n", "; "}).Draw(g.t, "innerSep")}
				if rapid.Bool().Draw(g.t, "innerBody") {
					inner.Then = []*Stmt{{K: "expr", E: g.assign(1), Sep: ";"}}
				}
				h.Body = []*Stmt{inner, ifst}
			}
			t := &Tmpl{D: rapid.IntRange(dBack, dRS).Draw(g.t, "jtd"), Parts: []*Part{{Lit: g.lit(dBack, 3, "jl")}, {Hole: h}, {Lit: g.lit(dBack, 3, "jr")}}}
			t.Parts[0].Lit, t.Parts[2].Lit = g.lit(t.D, 3, "jl2"), g.lit(t.D, 3, "jr2")
			wrapped = &Stmt{K: "expr", E: &Expr{K: "tmpl", T: t}, Sep: ";"}
		}
		at := rapid.IntRange(0, len(st.Then)).Draw(g.t, "jumpPos")
		st.Then = append(st.Then[:at:at], append([]*Stmt{wrapped}, st.Then[at:]...)...)
	}
	g.idepth -= 2
	g.defined = before // the body may run zero times
	return st
}

// stmtList draws n statements.  valueLast: when the list produces a value at
// all, its last non-empty statement is an expression (the documented hole value).
func (g *gen) stmtList(n int, valueLast bool) []*Stmt {
	var list []*Stmt
	for i := 0; i < n; i++ {
		k := rapid.IntRange(0, 9).Draw(g.t, "stk")
		var st *Stmt
		switch {
		case k <= 2:
			st = &Stmt{K: "expr", E: g.valueExpr(2)}
		case k <= 5:
			st = &Stmt{K: "expr", E: g.assign(2)}
		case k <= 7 && g.idepth < 3 && g.budget > 0:
			st = g.ifStmt()
		case k == 8 && rapid.Bool().Draw(g.t, "emptyOrDef"):
			st = &Stmt{K: "empty"}
		case k == 8 && g.idepth == 0 && g.budget > 0:
			st = g.funcStmt()
		case k == 9 && g.idepth < 2 && g.budget > 0 && rapid.Bool().Draw(g.t, "loop"):
			st = g.whileStmt()
		default:
			st = &Stmt{K: "expr", E: g.valueExpr(1)}
		}
		switch st.K {
		case "func":
			st.Sep = rapid.SampledFrom([]string{";", "; ", ";\n", " ; "}).Draw(g.t, "fsep")
		case "while":
			st.Sep = rapid.SampledFrom([]string{"", " ", ";", "\n", " ; "}).Draw(g.t, "wsep")
		case "expr":
			st.Sep = rapid.SampledFrom([]string{";", "; ", " ;", ";\n", " ; ", ";;", "; \n ;"}).Draw(g.t, "sep")
		case "if":
			st.Sep = rapid.SampledFrom([]string{"", " ", ";", "\n", " ; ", "\n\n"}).Draw(g.t, "bsep")
		default:
			st.Sep = rapid.SampledFrom([]string{"", " ", "\n"}).Draw(g.t, "esep")
		}
		list = append(list, st)
	}
	if valueLast {
		sawExpr := false
		lastKind := ""
		for _, st := range list {
			if st.K == "expr" {
				sawExpr = true
			}
			if st.K != "empty" {
				lastKind = st.K
			}
		}
		if (sawExpr && lastKind != "expr") || lastKind == "func" {
			list = append(list, &Stmt{K: "expr", E: g.valueExpr(1)})
		}
	}
	return list
}

func (g *gen) hole() *Hole {
	g.budget--
	h := &Hole{Pct: rapid.Bool().Draw(g.t, "pct"), PadL: g.ws(), PadR: g.ws()}
	kind := rapid.IntRange(0, 11).Draw(g.t, "hk")
	switch {
	case kind >= 10 && g.tdepth < g.maxT && g.budget > 0: // a nested template
		h.Body = []*Stmt{{K: "expr", E: &Expr{K: "tmpl", T: g.tmpl()}}}
	case kind <= 3: // a single expression
		h.Body = []*Stmt{{K: "expr", E: g.valueExpr(2)}}
	case kind == 4: // a single assignment
		h.Body = []*Stmt{{K: "expr", E: g.assign(2)}}
	case kind == 5: // only blocks / empty statements: yields ''
		n := rapid.IntRange(1, 2).Draw(g.t, "nb")
		for i := 0; i < n; i++ {
			if rapid.IntRange(0, 3).Draw(g.t, "be") == 0 {
				h.Body = append(h.Body, &Stmt{K: "empty", Sep: ""})
			} else {
				st := g.ifStmt()
				st.Sep = rapid.SampledFrom([]string{"", " ", ";", "\n"}).Draw(g.t, "bsep")
				h.Body = append(h.Body, st)
			}
		}
	default:
		h.Body = g.stmtList(rapid.IntRange(1, 4).Draw(g.t, "nst"), true)
	}
	h.Trail = rapid.IntRange(0, 4).Draw(g.t, "trail") == 0
	return h
}

func (g *gen) tmpl() *Tmpl {
	g.budget--
	g.tdepth++
	defer func() { g.tdepth-- }()
	t := &Tmpl{D: rapid.IntRange(dBack, dRS).Draw(g.t, "td")}
	n := rapid.IntRange(0, 8).Draw(g.t, "nparts")
	if g.tdepth > 1 {
		n = rapid.IntRange(0, 4).Draw(g.t, "nparts_in")
	}
	for i := 0; i < n; i++ {
		if rapid.IntRange(0, 9).Draw(g.t, "pk") < 3 || g.budget <= 0 {
			t.Parts = append(t.Parts, &Part{Lit: g.lit(t.D, g.litLen, "pl")})
		} else {
			t.Parts = append(t.Parts, &Part{Hole: g.hole()})
		}
	}
	return t
}
