// C13 — string literals and templates reproduce text exactly.
//
// Sections
//
//	literal  rapid: text x quote style x per-character spelling x context; Ret must be byte-equal to the text
//	litenum  bounded exhaustive: every text up to length L over a 16-symbol alphabet x 4 styles x every spelling
//	tmpl     rapid: generated templates (k parts, holes with expressions / assignments / if blocks / nested
//	         templates) against the reference evaluator of tmpl_test.go: result string and variables
//	nest     rapid: chains of nested holes and if-blocks up to depth 24: correct inside the accepted depth,
//	         an error (never a crash, never a wrong string) beyond it
package c13

import (
	"encoding/json"
	"fmt"
	"sort"
	"strings"
	"testing"
	"unicode/utf8"

	ds "github.com/sealdice/dicescript"
	"pgregory.net/rapid"

	"verif/harness/rt"
)

// ---------------------------------------------------------------------------
// running a program

type outcome struct {
	panicked *rt.PanicInfo
	err      error
	ret      *ds.VMValue
	rest     string
	matched  string
	vm       *ds.Context
}

func runProgram(src string) outcome {
	vm := ds.NewVM()
	vm.Config.OpCountLimit = 200000
	var o outcome
	o.vm = vm
	o.panicked = rt.Guard(func() { o.err = vm.Run(src) })
	if o.panicked == nil && o.err == nil {
		o.ret = vm.Ret
		o.rest = vm.RestInput
		o.matched = vm.Matched
		// the result is the host's to keep: a later evaluation on the same VM (another literal, another template) does not
		// change the value it was handed
		_ = rt.Guard(func() { _ = vm.Run("'\x02later' + `{7}{'x'}`") })
	}
	return o
}

// vmVars reads the top-level variables of the VM as reference values.
func vmVars(vm *ds.Context) (map[string]Val, string) {
	out := map[string]Val{}
	bad := ""
	vm.Attrs.Range(func(k string, v *ds.VMValue) bool {
		switch v.TypeId {
		case ds.VMTypeInt:
			i, _ := v.ReadInt()
			out[k] = Val{K: 'i', I: int64(i)}
		case ds.VMTypeString:
			s, _ := v.ReadString()
			out[k] = Val{K: 's', S: s}
		case ds.VMTypeArray:
			ad, _ := v.ReadArray()
			val := Val{K: 'a', A: []int64{}}
			for _, e := range ad.List {
				i, ok := e.ReadInt()
				if !ok {
					bad = k
				}
				val.A = append(val.A, int64(i))
			}
			out[k] = val
		case ds.VMTypeDict:
			val := Val{K: 'd', D: map[string]int64{}}
			if dd, ok := v.ReadDictData(); ok && dd != nil {
				dd.Dict.Range(func(dk string, dv *ds.VMValue) bool {
					i, ok := dv.ReadInt()
					if !ok {
						bad = k
					}
					val.D[dk] = int64(i)
					return true
				})
			}
			out[k] = val
		case ds.VMTypeFunction:
			// function definitions are not part of the compared state (they are judged by their calls)
		default:
			bad = k
			out[k] = Val{K: '?', S: v.ToString()}
		}
		return true
	})
	return out, bad
}

func compareVars(want, got map[string]Val) string {
	var names []string
	for k := range want {
		names = append(names, k)
	}
	for k := range got {
		if _, ok := want[k]; !ok {
			names = append(names, k)
		}
	}
	sort.Strings(names)
	for _, k := range names {
		w, wok := want[k]
		g, gok := got[k]
		switch {
		case !gok:
			return fmt.Sprintf("variable %s was not assigned (want %q)", k, w.String())
		case !wok:
			return fmt.Sprintf("variable %s=%q was assigned though no executed statement assigns it", k, g.String())
		case !w.equal(g):
			return fmt.Sprintf("variable %s=%q, want %q", k, g.String(), w.String())
		}
	}
	return ""
}

// ---------------------------------------------------------------------------
// literal cases

type LitCase struct {
	Text  string `json:"text"`
	D     int    `json:"d"`
	Spell []int  `json:"spell,omitempty"`
	Ctx   int    `json:"ctx"`
	// second operand of the concatenation context
	Text2  string `json:"text2,omitempty"`
	D2     int    `json:"d2,omitempty"`
	Spell2 []int  `json:"spell2,omitempty"`
}

const (
	ctxPlain = iota
	ctxSpaces
	ctxAssign
	ctxConcat
	ctxHoleBack
	ctxHoleRS
	ctxSecond
	ctxRest       // the literal followed by text the parser gives back (a host's "reason" text)
	ctxAssignRest // assignment of the literal followed by such text
	nCtx
)

// restTail is appended in the ctxRest contexts: it cannot continue an expression.
const restTail = " 攻击 )"

// build returns the program, the expected result and the literal's source.
func (c LitCase) build() (src, want, lit string, err error) {
	if c.D < 0 || c.D > 3 || c.D2 < 0 || c.D2 > 3 || !utf8.ValidString(c.Text) || !utf8.ValidString(c.Text2) {
		return "", "", "", errInvalid
	}
	lit, _, ok := encodeLiteral(c.Text, c.D, c.Spell)
	if !ok {
		return "", "", "", errUnprintable
	}
	// guard: the reference reading of the documented escapes must give the text back
	dec, derr := refDecodeBody(lit[1:len(lit)-1], c.D)
	if derr != nil || dec != c.Text {
		return "", "", lit, fmt.Errorf("encoder: %q reads as %q (%v), want %q", lit, dec, derr, c.Text)
	}
	want = c.Text
	switch c.Ctx {
	case ctxPlain:
		src = lit
	case ctxSpaces:
		src = " \t" + lit + " \n"
	case ctxAssign:
		src = "s1 = " + lit + "; s1"
	case ctxConcat:
		lit2, _, ok := encodeLiteral(c.Text2, c.D2, c.Spell2)
		if !ok {
			return "", "", "", errUnprintable
		}
		dec2, derr := refDecodeBody(lit2[1:len(lit2)-1], c.D2)
		if derr != nil || dec2 != c.Text2 {
			return "", "", lit2, fmt.Errorf("encoder: %q reads as %q (%v), want %q", lit2, dec2, derr, c.Text2)
		}
		src = lit + " + " + lit2
		want = c.Text + c.Text2
	case ctxHoleBack:
		src = "`{" + lit + "}`"
	case ctxHoleRS:
		src = "\x1e{% " + lit + " %}\x1e"
	case ctxSecond:
		src = "7; " + lit
	case ctxRest:
		src = lit + restTail
	case ctxAssignRest:
		src = "s1 = " + lit + restTail
	default:
		return "", "", "", errInvalid
	}
	return src, want, lit, nil
}

func checkLit(c LitCase, s *rt.Section) *rt.Failure {
	src, want, lit, err := c.build()
	if err != nil {
		if err == errUnprintable || err == errInvalid {
			return nil // outside the domain (replay of a hand-edited file)
		}
		return s.NewFailure("encoder-guard", "harness:encoder", c, err.Error(), "encoder and reference decoder agree")
	}
	style := delimName[c.D]
	o := runProgram(src)
	if o.panicked != nil {
		return s.NewFailure("no-panic", o.panicked.Sig(), c, fmt.Sprintf("program %q: panic %s", src, o.panicked.Value), "no panic")
	}
	if o.err != nil {
		return s.NewFailure("literal", "lit:error/"+style, c, fmt.Sprintf("program %q (literal %q): error %v", src, lit, o.err), fmt.Sprintf("%q", want))
	}
	if c.Ctx == ctxRest || c.Ctx == ctxAssignRest {
		// the given-back text is exactly the tail, and the consumed text is the program as written
		wantMatched := strings.TrimSuffix(src, restTail)
		if o.matched != wantMatched || o.rest != restTail {
			return s.NewFailure("literal", "lit:matched/"+style, c, fmt.Sprintf("program %q: Matched=%q RestInput=%q", src, o.matched, o.rest),
				fmt.Sprintf("Matched=%q RestInput=%q", wantMatched, restTail))
		}
	} else if strings.TrimSpace(o.rest) != "" {
		return s.NewFailure("literal", "lit:rest/"+style, c, fmt.Sprintf("program %q: unparsed rest %q", src, o.rest), "the whole literal is consumed")
	}
	got, ok := o.ret.ReadString()
	if !ok {
		return s.NewFailure("literal", "lit:type/"+style, c, fmt.Sprintf("program %q: result %s of type %d", src, o.ret.ToString(), o.ret.TypeId), "a string")
	}
	if got != want {
		return s.NewFailure("literal", "lit:mismatch/"+style, c, fmt.Sprintf("program %q gives %q", src, got), fmt.Sprintf("%q", want))
	}
	if c.Ctx == ctxAssign || c.Ctx == ctxAssignRest {
		vars, _ := vmVars(o.vm)
		if d := compareVars(map[string]Val{"s1": {K: 's', S: want}}, vars); d != "" {
			return s.NewFailure("literal", "lit:var/"+style, c, fmt.Sprintf("program %q: %s", src, d), "s1 holds the text")
		}
	}
	return nil
}

// ---------------------------------------------------------------------------
// template cases

type TCase struct {
	Pre  []*Stmt `json:"pre,omitempty"` // assignments before the template
	Wrap int     `json:"wrap"`
	T    *Tmpl   `json:"t"`
}

const (
	wrapPlain = iota
	wrapConcat
	wrapArray
	wrapAssign
	wrapStmts
	nWrap
)

func (c TCase) source() (string, error) {
	p := &printer{}
	if len(c.Pre) > 0 {
		p.stmts(c.Pre, false)
		p.w("; ")
	}
	switch c.Wrap {
	case wrapPlain:
		p.tmpl(c.T)
	case wrapConcat:
		p.w("'<' + ")
		p.tmpl(c.T)
		p.w(" + \">\"")
	case wrapArray:
		p.w("[7, ")
		p.tmpl(c.T)
		p.w(", 8][1]")
	case wrapAssign:
		p.w("r = ")
		p.tmpl(c.T)
		p.w("; r")
	case wrapStmts:
		p.w("5; 'x'; ")
		p.tmpl(c.T)
	default:
		return "", errInvalid
	}
	if p.err != nil {
		return "", p.err
	}
	return p.sb.String(), nil
}

type tmplStats struct {
	holes, maxDepth, assigns, ifs int
}

// expected evaluates the case on the reference side.
func (c TCase) expected() (string, map[string]Val, tmplStats, error) {
	ev := newEvaluator()
	for _, st := range c.Pre {
		if st == nil || st.K != "expr" || st.E == nil || st.E.K != "asg" {
			return "", nil, tmplStats{}, errInvalid
		}
	}
	if _, _, err := ev.stmts(c.Pre); err != nil {
		return "", nil, tmplStats{}, err
	}
	v, err := ev.tmpl(c.T)
	if err != nil {
		return "", nil, tmplStats{}, err
	}
	switch c.Wrap {
	case wrapConcat:
		v = "<" + v + ">"
	case wrapAssign:
		ev.env["r"] = Val{K: 's', S: v}
	}
	return v, ev.env, tmplStats{ev.holes, ev.maxDepth, ev.assigns, ev.ifsInHole}, nil
}

func checkTmpl(c TCase, s *rt.Section) *rt.Failure {
	want, env, _, err := c.expected()
	if err != nil {
		return nil // not in the domain (overflow, hand-edited replay)
	}
	src, err := c.source()
	if err != nil {
		return nil
	}
	return judge(src, want, env, c, s, "tmpl", false)
}

// judge runs src and compares with the reference.  errorAllowed: the nesting is
// deeper than the accepted depth, so an error is as good as the right answer.
func judge(src, want string, env map[string]Val, c any, s *rt.Section, pfx string, errorAllowed bool) *rt.Failure {
	o := runProgram(src)
	if o.panicked != nil {
		return s.NewFailure("no-panic", o.panicked.Sig(), c, fmt.Sprintf("program %q: panic %s", src, o.panicked.Value), "no panic")
	}
	if o.err != nil {
		if errorAllowed {
			return nil
		}
		return s.NewFailure("template", pfx+":error", c, fmt.Sprintf("program %q: error %v", src, o.err), fmt.Sprintf("%q", want))
	}
	if strings.TrimSpace(o.rest) != "" {
		return s.NewFailure("template", pfx+":rest", c, fmt.Sprintf("program %q: unparsed rest %q", src, o.rest), "the whole program is consumed")
	}
	got, ok := o.ret.ReadString()
	if !ok {
		return s.NewFailure("template", pfx+":type", c, fmt.Sprintf("program %q: result %s of type %d", src, o.ret.ToString(), o.ret.TypeId), "a string")
	}
	if got != want {
		return s.NewFailure("template", pfx+":mismatch", c, fmt.Sprintf("program %q gives %q", src, got), fmt.Sprintf("%q", want))
	}
	vars, bad := vmVars(o.vm)
	if bad != "" {
		return s.NewFailure("template-vars", pfx+":vars", c, fmt.Sprintf("program %q: variable %s has an unexpected type: %s", src, bad, vars[bad].S), envString(env))
	}
	if d := compareVars(env, vars); d != "" {
		return s.NewFailure("template-vars", pfx+":vars", c, fmt.Sprintf("program %q: %s", src, d), envString(env))
	}
	return nil
}

func drawTCase(t *rapid.T, thorough bool, s *rt.Section) TCase {
	g := &gen{t: t, defined: map[string]bool{}, litLen: 8, excluded: map[string]int{}}
	defer func() {
		for k := range g.excluded {
			s.Exclude(k)
		}
	}()
	budget := rapid.IntRange(6, 60).Draw(t, "budget")
	g.maxT = rapid.IntRange(1, 4).Draw(t, "maxT")
	if thorough {
		budget = rapid.IntRange(6, 150).Draw(t, "budget2")
		g.maxT = rapid.IntRange(1, 6).Draw(t, "maxT2")
		g.litLen = 16
	}
	c := TCase{Wrap: rapid.IntRange(0, nWrap-1).Draw(t, "wrap")}
	npre := rapid.IntRange(0, 4).Draw(t, "npre")
	for i := 0; i < npre; i++ {
		g.budget = 4
		g.tdepth = g.maxT // no templates in the prelude
		c.Pre = append(c.Pre, &Stmt{K: "expr", E: g.assign(1), Sep: rapid.SampledFrom([]string{";", "; ", ";\n"}).Draw(t, "presep")})
	}
	g.tdepth = 0
	g.budget = budget
	c.T = g.tmpl()
	return c
}

// ---------------------------------------------------------------------------
// nesting chains

type Level struct {
	Kind  string `json:"kind"` // H hole | B if-block
	D     int    `json:"d,omitempty"`
	Pct   bool   `json:"pct,omitempty"`
	L     string `json:"l,omitempty"`
	R     string `json:"r,omitempty"`
	Junk  int    `json:"junk,omitempty"`  // value-producing statements pushed before the payload
	Else  bool   `json:"else,omitempty"`  // B: payload sits in the else arm of `if 0`
	After int    `json:"after,omitempty"` // H: extra hole after the payload hole (sibling), 0 none
}

type NestCase struct {
	Chain []Level `json:"chain"`
	Leaf  string  `json:"leaf"`
}

// the depth the implementation declares to accept (fstrBlockStack / blockStack are [20]int)
const acceptedDepth = 20

// counts returns the largest number of simultaneously open holes and of
// simultaneously open if-blocks that the rendered program reaches.  A sibling
// hole of kind 2 (`{% if 1 { 5 } %}`) opens one more block on top of the blocks
// that enclose its level.
func (c NestCase) counts() (nH, nB int) {
	for _, l := range c.Chain {
		if l.Kind == "H" {
			nH++
		} else {
			nB++
		}
	}
	before := 0
	for _, l := range c.Chain {
		if l.Kind == "B" {
			before++
		} else if l.After == 2 && before+1 > nB {
			nB = before + 1
		}
	}
	return
}

// capNest trims a chain so that it stays within capH open holes and capB open blocks.
func capNest(c NestCase, capH, capB int) NestCase {
	for {
		nH, nB := c.counts()
		if nH <= capH && nB <= capB {
			return c
		}
		// first give up sibling holes that open an extra block, then drop the innermost level
		dropped := false
		if nB > capB {
			for i := range c.Chain {
				if c.Chain[i].Kind == "H" && c.Chain[i].After == 2 {
					c.Chain[i].After = 0
					dropped = true
				}
			}
		}
		if !dropped {
			c.Chain = c.Chain[:len(c.Chain)-1]
		}
	}
}

var junkStmts = []string{"", "3; ", "'zz'; 4; ", "[1,2]; ", "n9 = 9; "}

// buildNest renders chain[i:] as a string-valued expression.
func buildNest(c NestCase, i int, env map[string]Val) (src, val string, err error) {
	if i >= len(c.Chain) {
		lit, _, ok := encodeLiteral(c.Leaf, dSingle, nil)
		if !ok {
			return "", "", errUnprintable
		}
		return lit, c.Leaf, nil
	}
	lv := c.Chain[i]
	if lv.Kind != "H" || !isTmpl(lv.D) || lv.D > dRS {
		return "", "", errInvalid
	}
	// blocks that follow this hole wrap the payload assignment
	j := i + 1
	for j < len(c.Chain) && c.Chain[j].Kind == "B" {
		j++
	}
	inner, innerVal, err := buildNest(c, j, env)
	if err != nil {
		return "", "", err
	}
	name := fmt.Sprintf("g%d", i)
	junk := junkStmts[lv.Junk%len(junkStmts)]
	if strings.Contains(junk, "n9") {
		env["n9"] = Val{K: 'i', I: 9}
	}
	var body string
	if j == i+1 && lv.Junk%2 == 0 && lv.After == 0 {
		// the payload is the hole's only expression
		body = junk + inner
	} else {
		stmt := name + " = " + inner
		for k := j - 1; k > i; k-- {
			b := c.Chain[k]
			bj := junkStmts[b.Junk%len(junkStmts)]
			if strings.Contains(bj, "n9") {
				env["n9"] = Val{K: 'i', I: 9}
			}
			if b.Else {
				stmt = "if 0 { " + name + " = 'wrong' } else { " + bj + stmt + " }"
			} else {
				stmt = "if 1 { " + bj + stmt + " }"
			}
		}
		env[name] = Val{K: 's', S: innerVal}
		body = junk + stmt + "; " + name
	}
	l, _, ok1 := encodeBody(lv.L, lv.D, nil, '{', false)
	after := ""
	afterVal := ""
	switch lv.After {
	case 1:
		after, afterVal = "{ 6; 7 }", "7"
	case 2:
		after, afterVal = "{% if 1 { 5 } %}", ""
	}
	next, atEnd := delimStr[lv.D][0], true
	r, _, ok2 := encodeBody(lv.R, lv.D, nil, next, atEnd)
	if !ok1 || !ok2 {
		return "", "", errUnprintable
	}
	dl := delimStr[lv.D]
	if lv.Pct {
		src = dl + l + "{% " + body + " %}" + after + r + dl
	} else {
		src = dl + l + "{" + body + "}" + after + r + dl
	}
	return src, lv.L + innerVal + afterVal + lv.R, nil
}

func (c NestCase) valid() error {
	if len(c.Chain) == 0 || c.Chain[0].Kind != "H" || !utf8.ValidString(c.Leaf) {
		return errInvalid
	}
	for _, l := range c.Chain {
		if l.Kind != "H" && l.Kind != "B" || !utf8.ValidString(l.L) || !utf8.ValidString(l.R) || l.Junk < 0 {
			return errInvalid
		}
	}
	return nil
}

func checkNest(c NestCase, s *rt.Section) *rt.Failure {
	if c.valid() != nil {
		return nil
	}
	env := map[string]Val{}
	src, want, err := buildNest(c, 0, env)
	if err != nil {
		return nil
	}
	nH, nB := c.counts()
	beyond := nH > acceptedDepth || nB > acceptedDepth
	return judge(src, want, env, c, s, "nest", beyond)
}

func drawNest(t *rapid.T) NestCase {
	shape := rapid.IntRange(0, 4).Draw(t, "shape")
	d := rapid.IntRange(1, 24).Draw(t, "depth")
	if rapid.IntRange(0, 3).Draw(t, "edge") == 0 {
		d = rapid.IntRange(18, 23).Draw(t, "depth_edge")
	}
	var kinds []string
	switch shape {
	case 0: // holes only
		for i := 0; i < d; i++ {
			kinds = append(kinds, "H")
		}
	case 1: // one hole, d blocks
		kinds = append(kinds, "H")
		for i := 0; i < d; i++ {
			kinds = append(kinds, "B")
		}
	case 2: // alternating
		for i := 0; i < d; i++ {
			kinds = append(kinds, "H", "B")
		}
	default:
		kinds = append(kinds, "H")
		n := rapid.IntRange(1, 30).Draw(t, "n")
		for i := 0; i < n; i++ {
			kinds = append(kinds, rapid.SampledFrom([]string{"H", "B"}).Draw(t, "kind"))
		}
	}
	out := kinds
	c := NestCase{Leaf: genText(t, 3, "leaf")}
	plain := rapid.Bool().Draw(t, "plain")
	for _, k := range out {
		lv := Level{Kind: k}
		if k == "H" {
			lv.D = rapid.IntRange(dBack, dRS).Draw(t, "d")
			lv.Pct = rapid.Bool().Draw(t, "pct")
			if !plain {
				lv.L, _ = replaceUnrepresentable(genText(t, 2, "l"), lv.D)
				lv.R, _ = replaceUnrepresentable(genText(t, 2, "r"), lv.D)
				lv.Junk = rapid.IntRange(0, len(junkStmts)-1).Draw(t, "junk")
				lv.After = rapid.IntRange(0, 2).Draw(t, "after")
			} else {
				lv.L, lv.R = "<", ">"
			}
		} else {
			if !plain {
				lv.Junk = rapid.IntRange(0, len(junkStmts)-1).Draw(t, "junk")
				lv.Else = rapid.Bool().Draw(t, "else")
			}
		}
		c.Chain = append(c.Chain, lv)
	}
	return c
}

// ---------------------------------------------------------------------------
// exhaustive literals

var enumAlphabet = []rune{'a', '\'', '"', '`', '\\', '{', '}', '\n', '\r', '\f', '\t', 'n', 'f', '%', '语', 0x1e}

func enumLiterals(s *rt.Section, run *rt.Run, maxLen int) {
	n := len(enumAlphabet)
	total := int64(0)
	idx := 0
	var stop bool
	var rec func(prefix []rune)
	visit := func(rs []rune) {
		idx++
		if idx%run.Env.NShards != run.Env.Shard {
			return
		}
		text := string(rs)
		for d := 0; d <= 3; d++ {
			if !representable(text, d) {
				s.Discard("not-representable-in-" + delimName[d])
				continue
			}
			counts := countSpellings(text, d)
			sp := make([]int, len(counts))
			for {
				c := LitCase{Text: text, D: d, Spell: append([]int(nil), sp...), Ctx: ctxPlain}
				total++
				nt := needsEscape(text, d)
				if !nt {
					for _, x := range sp {
						if x != 0 {
							nt = true
						}
					}
				}
				if nt {
					s.NonTrivial(rt.Hash(text, delimName[d], fmt.Sprint(sp)))
				}
				if total%9973 == 1 {
					src, _, _, _ := c.build()
					s.Sample(rt.Hash(src), map[string]string{"text": text, "source": src})
				}
				if f := checkLit(c, s); f != nil {
					if s.Report(nil, f) {
						stop = true
						return
					}
				}
				// next spelling assignment
				p := len(sp) - 1
				for p >= 0 {
					sp[p]++
					if sp[p] < counts[p] {
						break
					}
					sp[p] = 0
					p--
				}
				if p < 0 {
					break
				}
			}
		}
	}
	rec = func(prefix []rune) {
		if stop {
			return
		}
		visit(prefix)
		if len(prefix) == maxLen {
			return
		}
		for i := 0; i < n && !stop; i++ {
			rec(append(prefix, enumAlphabet[i]))
		}
	}
	rec(nil)
	s.EvalN(total)
}

// ---------------------------------------------------------------------------

func TestProp(t *testing.T) {
	run := rt.Begin(t, "C13")
	defer run.Finish()
	thorough := run.Env.Thorough()

	run.Check("literal", 100000, 800000,
		"a text of 0..60 characters over an alphabet weighted towards quotes, backslash, braces, %, CR/LF/FF/TAB, 0x1E, escape letters, multi-byte and 4-byte runes, control and format characters (one in ten characters is any Unicode rune), written in one of the four quote styles with a drawn spelling per character (raw / documented escape / raw backslash before a non-escape character), placed in one of 9 contexts (alone, surrounded by blanks, assigned and read back, concatenated with a second literal, inside a hole of a backtick / 0x1E template, after another statement, followed by text the parser gives back, assigned and followed by such text); characters that a style cannot spell (backtick in `…`, 0x1E in 0x1E…0x1E) are replaced and counted; non-trivial = the text needs an escape in that style or an escape spelling was used; distinct by program text",
		func(t *rapid.T, s *rt.Section) {
			maxLen := 60
			if rapid.Bool().Draw(t, "short") {
				maxLen = 6
			}
			c := LitCase{D: rapid.IntRange(0, 3).Draw(t, "d"), Ctx: rapid.IntRange(0, nCtx-1).Draw(t, "ctx")}
			text := genText(t, maxLen, "t")
			var nrep int
			c.Text, nrep = replaceUnrepresentable(text, c.D)
			if nrep > 0 {
				s.Discard("char-not-spellable-in-" + delimName[c.D] + "-replaced")
			}
			c.Spell = genSpell(t, c.Text, "s")
			if c.Ctx == ctxConcat {
				c.D2 = rapid.IntRange(0, 3).Draw(t, "d2")
				c.Text2, _ = replaceUnrepresentable(genText(t, 8, "t2"), c.D2)
				c.Spell2 = genSpell(t, c.Text2, "s2")
			}
			s.Eval()
			src, _, lit, err := c.build()
			if err == nil {
				_, esc, _ := encodeLiteral(c.Text, c.D, c.Spell)
				if needsEscape(c.Text, c.D) || esc > 0 {
					s.NonTrivial(rt.Hash(src))
				}
				s.Class("style=" + delimName[c.D])
				s.Class(fmt.Sprintf("ctx=%d", c.Ctx))
				if esc > 0 {
					s.Class("uses-escape-spelling")
				}
				if rawBackslashUsed(lit) {
					s.Class("raw-backslash")
				}
				if strings.ContainsAny(c.Text, "\r\n") {
					s.Class("has-CR-or-LF")
				}
				if utf8.RuneCountInString(c.Text) != len(c.Text) {
					s.Class("multi-byte")
				}
				if len(c.Text) == 0 {
					s.Class("empty")
				}
				if len(src) <= 24 {
					s.Sample(rt.Hash(src), map[string]string{"text": c.Text, "source": src})
				}
			}
			s.Crumb(c)
			s.Report(t, checkLit(c, s))
		})

	enumLen := 3
	if thorough {
		enumLen = 4
	}
	run.Enum("litenum",
		"every text of length 0..L over the 16-symbol alphabet {a ' \" ` \\ { } LF CR FF TAB n f % 语 0x1E} x the four quote styles x every assignment of legal spellings to its characters, evaluated alone; texts a style cannot spell are counted as discards; non-trivial = needs an escape or uses an escape spelling; distinct by (text, style, spelling)",
		func(s *rt.Section) {
			s.Exhaustive = true
			s.Bounds = fmt.Sprintf("alphabet of 16 symbols, all texts of length 0..%d, 4 quote styles, all spelling assignments", enumLen)
			enumLiterals(s, run, enumLen)
		})

	run.Check("tmpl", 40000, 240000,
		"a program = up to 4 assignments, then a template (backtick or 0x1E) of 0..8 parts: literal segments over the rich alphabet with drawn spellings, and holes {…} / {% … %} with drawn padding holding 1..4 statements of the restricted hole language (int and string literals, + - * on ints, string concatenation, variables, assignments, if / else if / else blocks that assign, counted while loops of 0..3 rounds, function definitions (0..3 parameters, int body) and calls of them in later expressions and holes, empty statements, arrays of ints (references: in-place push through any name of the array object), parentheses, nested templates up to depth 4 (6 thorough)), in one of 5 surroundings (alone, between two concatenated strings, as element of an indexed array, assigned and read back, after other statements); expected string and expected variables come from the package's own AST evaluator; holes whose value the documentation leaves open (a value followed by a block as last statement, a function definition as last statement) are not generated; non-trivial = at least 2 holes or nesting depth >= 2 or an assignment / if block executed inside a hole; distinct by program text",
		func(t *rapid.T, s *rt.Section) {
			c := drawTCase(t, thorough, s)
			s.Eval()
			want, _, st, err := c.expected()
			if err != nil {
				s.Discard("reference: " + err.Error())
				return
			}
			src, err := c.source()
			if err != nil {
				s.Discard("printer: " + err.Error())
				return
			}
			h := rt.Hash(src)
			if st.holes >= 2 || st.maxDepth >= 2 || st.assigns > 0 || st.ifs > 0 {
				s.NonTrivial(h)
			}
			s.Class(fmt.Sprintf("holes=%s", bucketN(st.holes)))
			s.Class(fmt.Sprintf("depth=%d", st.maxDepth))
			if st.assigns > 0 {
				s.Class("assign-in-hole")
			}
			if st.ifs > 0 {
				s.Class("if-in-hole")
			}
			s.Class(fmt.Sprintf("wrap=%d", c.Wrap))
			if len(src) <= 60 {
				s.Sample(h, map[string]string{"source": src, "expected": want})
			}
			s.Crumb(c)
			s.Report(t, checkTmpl(c, s))
		})

	run.Check("nest", 4000, 24000,
		"chains of nested constructs: holes only, one hole holding d nested if-blocks, strictly alternating hole/block, or a random sequence of up to 31 holes and blocks, depth 1..24 (a quarter of the draws at 18..23); every hole level has its own left and right text, optional value-producing statements before the payload and an optional sibling hole after it; blocks pass the inner value out through a variable; expected = the texts in nesting order around the leaf; up to 20 open holes and 20 open blocks (the depth the implementation declares) the result and the variables must be right, beyond that an error is accepted, a crash or a wrong string never; non-trivial = depth >= 2; distinct by program text",
		func(t *rapid.T, s *rt.Section) {
			c := drawNest(t)
			// open findings ask the generator to stay inside the accepted depth (counted)
			if nH, nB := c.counts(); nH > acceptedDepth || nB > acceptedDepth {
				capH, capB := 1000, 1000
				if nH > acceptedDepth && s.Avoid("hole_depth_over_20") {
					capH = acceptedDepth
				}
				if nB > acceptedDepth && s.Avoid("block_depth_over_20") {
					capB = acceptedDepth
				}
				c = capNest(c, capH, capB)
			}
			s.Eval()
			env := map[string]Val{}
			src, _, err := buildNest(c, 0, env)
			if err != nil {
				s.Discard("printer: " + err.Error())
				return
			}
			nH, nB := c.counts()
			h := rt.Hash(src)
			if nH+nB >= 2 {
				s.NonTrivial(h)
			}
			s.Class("holes=" + bucketN(nH))
			s.Class("blocks=" + bucketN(nB))
			if nH > acceptedDepth || nB > acceptedDepth {
				s.Class("beyond-accepted-depth")
			}
			if len(src) <= 80 {
				s.Sample(h, map[string]string{"source": src})
			}
			s.Crumb(c)
			s.Report(t, checkNest(c, s))
		})
}

func rawBackslashUsed(lit string) bool {
	body := lit[1 : len(lit)-1]
	for i := 0; i < len(body); i++ {
		if body[i] != '\\' {
			continue
		}
		if i+1 < len(body) && strings.IndexByte(escFollow, body[i+1]) >= 0 {
			i++
			continue
		}
		return true
	}
	return false
}

func bucketN(n int) string {
	switch {
	case n <= 2:
		return fmt.Sprint(n)
	case n <= 4:
		return "3-4"
	case n <= 8:
		return "5-8"
	case n <= 17:
		return "9-17"
	case n <= 20:
		return "18-20"
	}
	return ">20"
}

func TestReplay(t *testing.T) {
	// a replay file whose case lies outside the generated domain must not pass silently
	outside := func(s *rt.Section, c any, err error) *rt.Failure {
		return s.NewFailure("replay", "replay:case-outside-domain", c, err.Error(), "a case of the generated domain")
	}
	lit := func(b []byte, s *rt.Section) *rt.Failure {
		var c LitCase
		if err := json.Unmarshal(b, &c); err != nil {
			return s.NewFailure("replay", "replay:bad-case", nil, err.Error(), "")
		}
		src, want, _, err := c.build()
		if err == errInvalid || err == errUnprintable {
			return outside(s, c, err)
		}
		t.Logf("program %q expected %q", src, want)
		return checkLit(c, s)
	}
	rt.Replay(t, "C13", map[string]rt.ReplayFunc{
		"literal": lit, "litenum": lit,
		"tmpl": func(b []byte, s *rt.Section) *rt.Failure {
			var c TCase
			if err := json.Unmarshal(b, &c); err != nil {
				return s.NewFailure("replay", "replay:bad-case", nil, err.Error(), "")
			}
			want, env, _, err := c.expected()
			if err != nil {
				return outside(s, c, err)
			}
			src, err := c.source()
			if err != nil {
				return outside(s, c, err)
			}
			t.Logf("program %q expected %q vars %s", src, want, envString(env))
			return checkTmpl(c, s)
		},
		"nest": func(b []byte, s *rt.Section) *rt.Failure {
			var c NestCase
			if err := json.Unmarshal(b, &c); err != nil {
				return s.NewFailure("replay", "replay:bad-case", nil, err.Error(), "")
			}
			if err := c.valid(); err != nil {
				return outside(s, c, err)
			}
			env := map[string]Val{}
			src, want, err := buildNest(c, 0, env)
			if err != nil {
				return outside(s, c, err)
			}
			t.Logf("program %q expected %q vars %s", src, want, envString(env))
			return checkNest(c, s)
		},
	})
}
