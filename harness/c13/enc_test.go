package c13

// The literal encoder: text -> DiceScript string-literal source, and an
// independent reference decoder of the documented escape set that guards the
// encoder (a disagreement between the two is a harness error, never a finding).

import (
	"fmt"
	"strings"
	"testing"
	"unicode/utf8"

	"pgregory.net/rapid"
)

// quote styles
const (
	dSingle = 0 // '…'
	dDouble = 1 // "…"
	dBack   = 2 // `…`   (template)
	dRS     = 3 // \x1e…\x1e (template)
)

var delimStr = []string{"'", "\"", "`", "\x1e"}
var delimName = []string{"single", "double", "backtick", "rs"}

func isTmpl(d int) bool { return d >= dBack }

// escape letters: a backslash in front of one of these bytes is an escape sequence
const escFollow = "nrft\\'\"{}"

const rawBackslash = "\\"

// spellings lists the ways rune r may be written inside a literal of style d
// using only the documented escapes.  nil: r cannot be written in that style.
// The raw-backslash spelling is conditional on what follows (see encode).
func spellings(r rune, d int) []string {
	switch r {
	case '\n':
		return []string{"\n", `\n`}
	case '\r':
		return []string{"\r", `\r`}
	case '\f':
		return []string{"\f", `\f`}
	case '\t':
		return []string{"\t", `\t`}
	case '\\':
		return []string{`\\`, rawBackslash}
	case '\'':
		if d == dSingle {
			return []string{`\'`}
		}
		return []string{"'", `\'`}
	case '"':
		if d == dDouble {
			return []string{`\"`}
		}
		return []string{`"`, `\"`}
	case '`':
		if d == dBack {
			return nil
		}
		return []string{"`"}
	case 0x1e:
		if d == dRS {
			return nil
		}
		return []string{"\x1e"}
	case '{':
		if isTmpl(d) {
			return []string{`\{`}
		}
		return []string{"{", `\{`}
	case '}':
		return []string{"}", `\}`}
	}
	return []string{string(r)}
}

// representable reports whether every rune of text can be written in style d.
func representable(text string, d int) bool {
	if !utf8.ValidString(text) {
		return false
	}
	for _, r := range text {
		if spellings(r, d) == nil {
			return false
		}
	}
	return true
}

// needsEscape: the text contains a character that has no raw spelling in style d
// (the delimiter, a backslash, an opening brace in a template style) or a raw CR/LF/FF/TAB.
func needsEscape(text string, d int) bool {
	for _, r := range text {
		switch r {
		case '\\', '\n', '\r', '\f', '\t':
			return true
		case '{':
			if isTmpl(d) {
				return true
			}
		case '\'':
			if d == dSingle {
				return true
			}
		case '"':
			if d == dDouble {
				return true
			}
		}
	}
	return false
}

// encodeBody writes text in style d (without the delimiters).  spell[i] selects
// the spelling of the i-th rune (modulo the number of legal spellings).  next is
// the byte that will follow the body in the program (the closing delimiter, or
// the '{' of a hole, or the first byte of the next literal segment) and
// nextIsEnd tells that the body is the last thing before the closing delimiter.
// A raw backslash is used only when the next emitted byte is not an escape
// letter and the backslash is not the last character of the literal.
func encodeBody(text string, d int, spell []int, next byte, nextIsEnd bool) (src string, escapes int, ok bool) {
	runes := []rune(text)
	parts := make([]string, len(runes))
	nb := next
	atEnd := nextIsEnd
	for i := len(runes) - 1; i >= 0; i-- {
		opts := spellings(runes[i], d)
		if opts == nil {
			return "", 0, false
		}
		c := 0
		if i < len(spell) {
			c = spell[i]
			if c < 0 {
				c = -c
			}
		}
		pick := opts[c%len(opts)]
		if runes[i] == '\\' && pick == rawBackslash {
			if atEnd || strings.IndexByte(escFollow, nb) >= 0 {
				pick = `\\`
			}
		}
		if len(pick) != utf8.RuneLen(runes[i]) || pick != string(runes[i]) {
			escapes++
		}
		parts[i] = pick
		nb = pick[0]
		atEnd = false
	}
	return strings.Join(parts, ""), escapes, true
}

// encodeLiteral returns the complete literal.
func encodeLiteral(text string, d int, spell []int) (string, int, bool) {
	body, esc, ok := encodeBody(text, d, spell, delimStr[d][0], true)
	if !ok {
		return "", 0, false
	}
	return delimStr[d] + body + delimStr[d], esc, true
}

// countSpellings returns, per rune, how many spellings exist (for the enumerator).
func countSpellings(text string, d int) []int {
	var out []int
	for _, r := range text {
		out = append(out, len(spellings(r, d)))
	}
	return out
}

// refDecodeBody is the reference reading of a literal body: the nine documented
// escape sequences, a lone backslash standing for itself, everything else
// verbatim.  It also validates that the body contains no bare delimiter and, in
// template styles, no bare '{'.
func refDecodeBody(body string, d int) (string, error) {
	var sb strings.Builder
	for i := 0; i < len(body); {
		c := body[i]
		if c == '\\' {
			if i+1 < len(body) {
				switch body[i+1] {
				case 'n':
					sb.WriteByte('\n')
					i += 2
					continue
				case 'r':
					sb.WriteByte('\r')
					i += 2
					continue
				case 'f':
					sb.WriteByte('\f')
					i += 2
					continue
				case 't':
					sb.WriteByte('\t')
					i += 2
					continue
				case '\\', '\'', '"', '{', '}':
					sb.WriteByte(body[i+1])
					i += 2
					continue
				}
			} else {
				return "", fmt.Errorf("backslash is the last byte of the body")
			}
			sb.WriteByte('\\')
			i++
			continue
		}
		if c == delimStr[d][0] {
			return "", fmt.Errorf("bare delimiter at byte %d", i)
		}
		if c == '{' && isTmpl(d) {
			return "", fmt.Errorf("bare '{' at byte %d of a template body", i)
		}
		sb.WriteByte(c)
		i++
	}
	return sb.String(), nil
}

// ---------------------------------------------------------------------------
// text alphabet

var richAlphabet = []rune{
	'\'', '\'', '"', '"', '`', '`', '\\', '\\', '\\', '{', '{', '}', '}', '%', '%',
	'\n', '\n', '\r', '\r', '\t', '\f', '\f', 0x1e, 0x1e,
	'n', 'r', 'f', 't', 'a', 'd', 'x', '1', '0', ' ', ' ', ';', '/', '#', '=', '?', ':', '[', ']', '(', ')', '&', '|', '$', '_',
	'\u8bed', '\u9ab0', '\u00e9', '\u00df', '\U0001f600', '\U0001d4b3', '\u0301', '\u200d', '\u2028', '\u0085', '\ufeff', '\ufffd', '\U0010ffff', 0x00, 0x7f, 0x01, 0x1f, 0x1d,
	'\uff0b', '\uff5b', '\uff5d', '\uff08', '\uff09', '\u201c', '\u201d', '\u2018', '\u2019',
}

func genText(t *rapid.T, maxLen int, label string) string {
	n := rapid.IntRange(0, maxLen).Draw(t, label+"_len")
	var sb strings.Builder
	for i := 0; i < n; i++ {
		if rapid.IntRange(0, 9).Draw(t, label+"_any") == 0 {
			r := rapid.Rune().Draw(t, label+"_rune")
			if !utf8.ValidRune(r) {
				r = 'a'
			}
			sb.WriteRune(r)
			continue
		}
		sb.WriteRune(rapid.SampledFrom(richAlphabet).Draw(t, label+"_ch"))
	}
	return sb.String()
}

func genSpell(t *rapid.T, text string, label string) []int {
	n := utf8.RuneCountInString(text)
	if n == 0 {
		return nil
	}
	mode := rapid.IntRange(0, 3).Draw(t, label+"_mode")
	sp := make([]int, n)
	switch mode {
	case 0: // first spelling everywhere (raw where possible)
	case 1: // escape wherever possible
		for i := range sp {
			sp[i] = 1
		}
	default:
		for i := range sp {
			sp[i] = rapid.IntRange(0, 1).Draw(t, label+"_sp")
		}
	}
	return sp
}

// replaceUnrepresentable substitutes runes that cannot be written in style d.
func replaceUnrepresentable(text string, d int) (string, int) {
	n := 0
	var sb strings.Builder
	for _, r := range text {
		if spellings(r, d) == nil {
			n++
			sb.WriteRune('~')
			continue
		}
		sb.WriteRune(r)
	}
	return sb.String(), n
}

// ---------------------------------------------------------------------------
// unit tests of the encoder (plain `go test`; not part of the driver run)

func TestEncoder(t *testing.T) {
	// examples taken from the repository's own tests
	for _, ex := range []struct {
		body string
		d    int
		want string
	}{
		{`12\n3`, dDouble, "12\n3"}, {`12\r3`, dSingle, "12\r3"}, {`12\f3`, dRS, "12\f3"}, {`12\t3`, dBack, "12\t3"},
		{`12\\3`, dBack, `12\3`}, {`12\"3`, dDouble, `12"3`}, {"AAAAA\n1234\\n5678", dBack, "AAAAA\n1234\n5678"},
	} {
		got, err := refDecodeBody(ex.body, ex.d)
		if err != nil || got != ex.want {
			t.Fatalf("refDecodeBody(%q) = %q, %v; want %q", ex.body, got, err, ex.want)
		}
	}
	rapid.Check(t, func(t *rapid.T) {
		text := genText(t, 30, "t")
		d := rapid.IntRange(0, 3).Draw(t, "d")
		text, _ = replaceUnrepresentable(text, d)
		sp := genSpell(t, text, "s")
		next := rapid.SampledFrom([]byte{delimStr[d][0], '{', 'n', '\\', 'a'}).Draw(t, "next")
		end := next == delimStr[d][0]
		body, _, ok := encodeBody(text, d, sp, next, end)
		if !ok {
			t.Fatalf("not encodable: %q", text)
		}
		// the body followed by a non-escaping continuation must decode to the text
		cont := ""
		if next == 'a' {
			cont = "a"
		}
		got, err := refDecodeBody(body+cont, d)
		if err != nil || got != text+cont {
			t.Fatalf("decode(encode(%q)) = %q, %v (body %q)", text, got, err, body)
		}
		// a trailing raw backslash must not combine with what follows
		if k := len(body) - len(strings.TrimRight(body, `\`)); k%2 == 1 {
			if end || strings.IndexByte(escFollow, next) >= 0 {
				t.Fatalf("raw backslash before %q in %q", next, body)
			}
		}
	})
}
