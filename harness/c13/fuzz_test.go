package c13

import (
	"testing"
	"unicode/utf8"

	"verif/harness/rt"
)

// FuzzC13 (thorough tier): coverage-guided search over literal contents. Byte 0 selects the two quote styles,
// byte 1 the context, byte 2 the number k of spelling choices that follow (which documented escape or verbatim
// form each of the first k characters takes); the rest is the text (valid UTF-8), split in two for the concatenation context.
func FuzzC13(f *testing.F) {
	for d := 0; d < 4; d++ {
		for ctx := 0; ctx < nCtx; ctx++ {
			f.Add(append([]byte{byte(d | d<<2), byte(ctx), 3, 0, 1, 2}, "a'\"`\\{}\n\r\t\x1e力 %}"...))
		}
	}
	f.Add([]byte{1, 7, 0, '\\'})
	f.Add([]byte{2, 8, 2, 1, 1, '\\', 'n', '\\', '\\', '{', '%'})
	_, s := rt.FuzzRun("C13", "literal")
	f.Fuzz(func(t *testing.T, data []byte) {
		if len(data) < 4 || len(data) > 200 {
			return
		}
		k := int(data[2]) % 17
		if len(data) < 3+k {
			return
		}
		text := string(data[3+k:])
		if !utf8.ValidString(text) {
			return
		}
		c := LitCase{D: int(data[0] & 3), D2: int(data[0] >> 2 & 3), Ctx: int(data[1]) % nCtx, Text: text}
		for _, b := range data[3 : 3+k] {
			c.Spell = append(c.Spell, int(b))
		}
		if c.Ctx == ctxConcat {
			cut := len(text) / 2
			for cut > 0 && !utf8.RuneStart(text[cut]) {
				cut--
			}
			c.Text, c.Text2, c.Spell2 = text[:cut], text[cut:], c.Spell
		}
		if fl := checkLit(c, s); fl != nil && s.FuzzReport(fl) {
			t.Fatalf("C13 %s\nobserved: %s\nexpected: %s\ncase: %s", fl.Signature, fl.Observed, fl.Expected, fl.Case)
		}
	})
}
