// Package bcverify is the validity predicate of property C08: a forward
// data-flow over the control-flow graph of a compiled DiceScript program that
// checks, on every path and whatever values the branches see, that no
// instruction can pop an empty operand stack, jump outside the program, carry
// an unpatched jump operand, reach one instruction with differing numbers of
// open blocks, or use roll/annotation state that no earlier instruction on
// that path set up.  The opcode table is transcribed by hand from the dispatch
// loop in rollvm.go (DESIGN.md appendix A).
package bcverify

import (
	"fmt"

	ds "github.com/sealdice/dicescript"
)

type Violation struct {
	Kind string // jump | underflow | blocks | state | operand
	PC   int
	Op   string
	Msg  string
	Body string // "" main program, else path of nested bodies
}

func (v Violation) String() string {
	return fmt.Sprintf("%s at %s#%d %s: %s", v.Kind, v.Body, v.PC, v.Op, v.Msg)
}

// Sig is the part of a violation that identifies what is wrong, for known-finding keys.
func (v Violation) Sig() string { return "bc:" + v.Kind + ":" + v.Op + ":" + v.Msg }

type absState struct {
	ok       bool
	depth    int
	blocks   []int
	fblocks  []int
	dice     int
	marks    bool
	wod, dc  bool
	popped   bool
}

func (s absState) clone() absState {
	c := s
	c.blocks = append([]int(nil), s.blocks...)
	c.fblocks = append([]int(nil), s.fblocks...)
	return c
}

// merge returns the merged state, whether it changed dst, and a block-count mismatch message.
func merge(dst *absState, src absState) (changed bool, mismatch string) {
	if !dst.ok {
		*dst = src.clone()
		dst.ok = true
		return true, ""
	}
	if len(dst.blocks) != len(src.blocks) {
		return false, fmt.Sprintf("reached with %d and with %d open blocks", len(dst.blocks), len(src.blocks))
	}
	if len(dst.fblocks) != len(src.fblocks) {
		return false, fmt.Sprintf("reached with %d and with %d open template blocks", len(dst.fblocks), len(src.fblocks))
	}
	if src.depth < dst.depth {
		dst.depth = src.depth
		changed = true
	}
	for i := range dst.blocks {
		if src.blocks[i] < dst.blocks[i] {
			dst.blocks[i] = src.blocks[i]
			changed = true
		}
	}
	for i := range dst.fblocks {
		if src.fblocks[i] < dst.fblocks[i] {
			dst.fblocks[i] = src.fblocks[i]
			changed = true
		}
	}
	if src.dice < dst.dice {
		dst.dice = src.dice
		changed = true
	}
	and := func(d *bool, s bool) {
		if *d && !s {
			*d = false
			changed = true
		}
	}
	and(&dst.marks, src.marks)
	and(&dst.wod, src.wod)
	and(&dst.dc, src.dc)
	and(&dst.popped, src.popped)
	return changed, ""
}

func intArg(a any) (int64, bool) {
	if v, ok := a.(ds.IntType); ok {
		return int64(v), true
	}
	return 0, false
}

// Stats reports what the verifier saw (for non-triviality rules).
type Stats struct {
	Instructions int
	CondJumps    int
	Blocks       int
	Calls        int
	Bodies       int
	BackJumps    int
}

// Verify checks a program and, recursively, the bodies it defines.
func Verify(code []ds.VerifOp, st *Stats) []Violation {
	return verifyBody(code, "", st, 0)
}

func verifyBody(code []ds.VerifOp, body string, st *Stats, level int) []Violation {
	var out []Violation
	n := len(code)
	if st != nil {
		st.Instructions += n
	}
	add := func(kind string, pc int, msg string) {
		for _, v := range out {
			if v.Kind == kind && v.PC == pc && v.Msg == msg {
				return
			}
		}
		op := ""
		if pc >= 0 && pc < n {
			op = code[pc].Op
		}
		out = append(out, Violation{Kind: kind, PC: pc, Op: op, Msg: msg, Body: body})
	}
	states := make([]absState, n+1)
	work := []int{0}
	states[0] = absState{ok: true}
	inWork := make([]bool, n+1)
	inWork[0] = true
	push := func(pc int, s absState) {
		if pc < 0 || pc > n {
			return
		}
		changed, mm := merge(&states[pc], s)
		if mm != "" {
			add("blocks", pc, mm)
			return
		}
		if changed && !inWork[pc] {
			inWork[pc] = true
			work = append(work, pc)
		}
	}
	steps := 0
	for len(work) > 0 {
		steps++
		if steps > 200*(n+1)+1000 {
			add("underflow", -1, "stack depth keeps decreasing round a loop")
			break
		}
		pc := work[len(work)-1]
		work = work[:len(work)-1]
		inWork[pc] = false
		if pc >= n {
			continue
		}
		s := states[pc].clone()
		op := code[pc]
		pop := func(k int) bool {
			if k < 0 {
				add("operand", pc, "negative count")
				return false
			}
			if s.depth < k {
				add("underflow", pc, fmt.Sprintf("pops %d with %d available", k, s.depth))
				s.depth = 0
				s.popped = true
				return false
			}
			s.depth -= k
			if k > 0 {
				s.popped = true
			}
			return true
		}
		pushN := func(k int) { s.depth += k }
		needStr := func() {
			if _, ok := op.Arg.(string); !ok {
				add("operand", pc, fmt.Sprintf("operand %T, want string", op.Arg))
			}
		}
		jumpTarget := func() (int, bool) {
			k, ok := intArg(op.Arg)
			if !ok {
				add("jump", pc, fmt.Sprintf("operand %v (%T) is not an integer offset", op.Arg, op.Arg))
				return 0, false
			}
			if ds.IntType(k) == ds.VerifUnpatched {
				add("jump", pc, "operand was never patched")
				return 0, false
			}
			t := pc + 1 + int(k)
			if t < 0 || t > n {
				add("jump", pc, fmt.Sprintf("target %d outside [0,%d]", t, n))
				return 0, false
			}
			if int(k) < 0 && st != nil {
				st.BackJumps++
			}
			return t, true
		}
		next := true
		switch op.Op {
		case "push.int":
			if _, ok := op.Arg.(ds.IntType); !ok {
				add("operand", pc, fmt.Sprintf("operand %T, want IntType", op.Arg))
			}
			pushN(1)
		case "push.flt":
			if _, ok := op.Arg.(float64); !ok {
				add("operand", pc, fmt.Sprintf("operand %T, want float64", op.Arg))
			}
			pushN(1)
		case "push.str":
			needStr()
			pushN(1)
		case "push.null", "push.this":
			pushN(1)
		case "push.computed", "push.func":
			v, ok := op.Arg.(*ds.VMValue)
			if !ok || v == nil {
				add("operand", pc, fmt.Sprintf("operand %T, want *VMValue", op.Arg))
			} else if sub, has := ds.VerifBodyCode(v); has && level < 30 {
				if st != nil {
					st.Bodies++
				}
				out = append(out, verifyBody(sub, fmt.Sprintf("%s/%s@%d", body, op.Op, pc), st, level+1)...)
			}
			pushN(1)
		case "push.arr":
			k, ok := intArg(op.Arg)
			if !ok {
				add("operand", pc, "count is not an integer")
			}
			pop(int(k))
			pushN(1)
		case "push.dict":
			k, ok := intArg(op.Arg)
			if !ok {
				add("operand", pc, "count is not an integer")
			}
			pop(int(2 * k))
			pushN(1)
		case "push.range":
			pop(2)
			pushN(1)
		case "push.last":
			if !s.popped {
				add("state", pc, "push.last with no earlier pop on some path")
			}
			pushN(1)
		case "push.def_expr":
			if s.dice < 1 {
				add("state", pc, "no dice.init on some path")
			}
			if !s.marks {
				add("state", pc, "no mark.detail on some path")
			}
			pushN(1)
		case "ld", "ld.raw":
			needStr()
			pushN(1)
		case "ld.d":
			needStr()
			if !s.marks {
				add("state", pc, "no mark.detail on some path")
			}
			pushN(1)
		case "ld.fs":
			k, ok := intArg(op.Arg)
			if !ok {
				add("operand", pc, "count is not an integer")
			}
			pop(int(k))
			pushN(1)
		case "store", "store.local":
			needStr()
			if s.depth < 1 {
				add("underflow", pc, "reads the top of an empty stack")
			}
		case "store.global", "push.global", "invoke.self", "or", "nop":
			// no case in the dispatch loop: no effect at run time
		case "invoke":
			k, ok := intArg(op.Arg)
			if !ok {
				add("operand", pc, "count is not an integer")
			}
			pop(int(k) + 1)
			pushN(1)
			if st != nil {
				st.Calls++
			}
		case "item.get":
			pop(2)
			pushN(1)
		case "item.set":
			pop(3)
			pushN(1)
		case "attr.get":
			needStr()
			pop(1)
			pushN(1)
		case "attr.set":
			needStr()
			pop(2)
			pushN(1)
		case "slice.get":
			pop(4)
			pushN(1)
		case "slice.set":
			pop(5)
			pushN(1)
		case "add", "sub", "mul", "div", "mod", "pow", "nullCoalescing", "comp.lt", "comp.le", "comp.eq", "comp.ne", "comp.ge", "comp.gt", "&", "|", "and":
			pop(2)
			pushN(1)
		case "neg", "pos":
			pop(1)
			pushN(1)
		case "jmp":
			next = false
			if t, ok := jumpTarget(); ok {
				push(t, s)
			}
		case "jne", "je":
			if st != nil {
				st.CondJumps++
			}
			pop(1)
			if t, ok := jumpTarget(); ok {
				push(t, s)
			}
		case "je.dup":
			if st != nil {
				st.CondJumps++
			}
			pop(1)
			if t, ok := jumpTarget(); ok {
				taken := s.clone()
				taken.depth++
				push(t, taken)
			}
		case "pop":
			pop(1)
		case "popn":
			k, ok := intArg(op.Arg)
			if !ok {
				add("operand", pc, "count is not an integer")
			}
			pop(int(k))
		case "ret", "halt":
			next = false
		case "mark.detail":
			if sp, ok := op.Arg.(ds.BufferSpan); !ok {
				add("operand", pc, fmt.Sprintf("operand %T, want BufferSpan", op.Arg))
			} else if sp.Begin < 0 || sp.End < sp.Begin {
				add("operand", pc, fmt.Sprintf("span [%d,%d)", sp.Begin, sp.End))
			}
			s.marks = true
		case "dice.init":
			s.dice++
		case "dice.setTimes", "dice.setKeepLow", "dice.setKeepHigh", "dice.setDropLow", "dice.setDropHigh", "dice.setMin", "dice.setMax":
			if s.dice < 1 {
				add("state", pc, "no dice.init on some path")
			}
			pop(1)
		case "dice":
			if s.dice < 1 {
				add("state", pc, "no dice.init on some path")
			} else {
				s.dice--
			}
			if !s.marks {
				add("state", pc, "no mark.detail on some path")
			}
			pop(1)
			pushN(1)
		case "dice.custom":
			pushN(1)
		case "dice.fate":
			if !s.marks {
				add("state", pc, "no mark.detail on some path")
			}
			pushN(1)
		case "coc.bonus", "coc.penalty":
			if !s.marks {
				add("state", pc, "no mark.detail on some path")
			}
			pop(1)
			pushN(1)
		case "wod.init":
			s.wod = true
		case "wod.pool", "wod.points", "wod.threshold", "wod.thresholdQ":
			if !s.wod {
				add("state", pc, "no wod.init on some path")
			}
			pop(1)
		case "dice.wod":
			if !s.wod {
				add("state", pc, "no wod.init on some path")
			}
			if !s.marks {
				add("state", pc, "no mark.detail on some path")
			}
			pop(1)
			pushN(1)
		case "dc.setInit":
			s.dc = true
		case "dc.setPool", "dc.setPoints":
			if !s.dc {
				add("state", pc, "no dc.setInit on some path")
			}
			pop(1)
		case "dice.dc":
			if !s.dc {
				add("state", pc, "no dc.setInit on some path")
			}
			if !s.marks {
				add("state", pc, "no mark.detail on some path")
			}
			pop(1)
			pushN(1)
		case "block.push":
			s.blocks = append(s.blocks, s.depth)
			if st != nil {
				st.Blocks++
			}
		case "block.pop":
			if len(s.blocks) == 0 {
				add("blocks", pc, "block.pop with no open block on some path")
				s.depth++
			} else {
				s.depth = s.blocks[len(s.blocks)-1] + 1
				s.blocks = s.blocks[:len(s.blocks)-1]
			}
		case "fstr.block.push":
			s.fblocks = append(s.fblocks, s.depth)
			if st != nil {
				st.Blocks++
			}
		case "fstr.block.pop":
			if len(s.fblocks) == 0 {
				add("blocks", pc, "fstr.block.pop with no open template block on some path")
				s.depth++
			} else {
				s.depth = s.fblocks[len(s.fblocks)-1] + 1
				s.fblocks = s.fblocks[:len(s.fblocks)-1]
			}
		case "st.set", "st.x0":
			pop(2)
		case "st.mod":
			if _, ok := op.Arg.(ds.StInfo); !ok {
				add("operand", pc, fmt.Sprintf("operand %T, want StInfo", op.Arg))
			}
			pop(2)
		case "st.x1":
			pop(3)
		default:
			add("operand", pc, "unknown opcode "+op.Op)
		}
		if next {
			push(pc+1, s)
		}
	}
	return out
}
