// C03 — the result belongs to the consumed text (Matched/RestInput contract).
package c03

import (
	"encoding/json"
	"fmt"
	"strconv"
	"strings"
	"testing"
	"unicode"

	ds "github.com/sealdice/dicescript"
	"pgregory.net/rapid"

	"verif/harness/gen"
	"verif/harness/rt"
	"verif/harness/vmx"
)

type Case struct {
	Cfg   vmx.Cfg  `json:"cfg"`
	Setup []string `json:"setup,omitempty"`
	Src   string   `json:"src"`
	// informational
	Prog string `json:"prog,omitempty"`
	Tail string `json:"tail,omitempty"`
	// Pre / PreFlags: an earlier evaluation on the same VM (also on the reference VM) of text Pre while the seven switches
	// (bit 0..6: CoC WoD Fate DC DisableStmts DisableNDice DisableBitwiseOp) were PreFlags; afterwards the host sets the
	// switches of Cfg. Pre is the same program with another tail: nothing of its compilation may survive into the judged one.
	Pre      string `json:"pre,omitempty"`
	PreFlags *int   `json:"preFlags,omitempty"`
	// Custom: both VMs have a custom dice syntax R<expression> registered (a stream parser that reads its operand with
	// ReadExpr and leaves the process text to the library's default): the property holds under every configuration
	Custom bool `json:"custom,omitempty"`
}

type stEvent struct {
	Type, Name, Val, Extra, Op, Detail string
}

func newVM(c Case, log *[]stEvent) *ds.Context {
	vm := c.Cfg.NewVM()
	if c.Custom {
		_ = vm.RegCustomDiceParser(func(ctx *ds.Context, st *ds.CustomDiceStream) (*ds.CustomDiceParseResult, error) {
			if r, ok := st.Read(); !ok || r != 'R' {
				return &ds.CustomDiceParseResult{Matched: false}, nil
			}
			v, ok, err := st.ReadExpr("")
			if err != nil || !ok {
				return &ds.CustomDiceParseResult{Matched: false}, nil
			}
			return &ds.CustomDiceParseResult{Matched: true, Payload: v}, nil
		}, func(ctx *ds.Context, groups []string, payload any) (*ds.VMValue, string, error) {
			// the operand is an expression: its value is the value of the custom term (the documented use of ReadExpr)
			v, _ := payload.(*ds.VMValue)
			if v == nil {
				return ds.NewIntVal(ds.IntType(len(groups))), "", nil
			}
			r := v.ComputedExecute(ctx, nil)
			if ctx.Error != nil {
				return nil, "", ctx.Error
			}
			if r == nil {
				return ds.NewNullVal(), "", nil
			}
			return r, "", nil
		})
	}
	vm.Config.CallbackSt = func(_type string, name string, val *ds.VMValue, extra *ds.VMValue, op string, detail string) {
		ev := stEvent{Type: _type, Name: name, Val: vmx.Repr(val), Op: op, Detail: detail}
		if extra != nil {
			ev.Extra = vmx.Repr(extra)
		}
		*log = append(*log, ev)
	}
	for _, s := range c.Setup {
		func() {
			ds.VerifMeterReset(3_000_000)
			defer ds.VerifMeterReset(0)
			defer func() { _ = recover() }()
			_ = vm.Run(s)
		}()
	}
	if c.PreFlags != nil {
		b := *c.PreFlags
		pre := c.Cfg
		pre.CoC, pre.WoD, pre.Fate, pre.DC = b&1 != 0, b&2 != 0, b&4 != 0, b&8 != 0
		pre.NoStmts, pre.NoNDice, pre.NoBitwise = b&16 != 0, b&32 != 0, b&64 != 0
		pre.Apply(vm)
		func() {
			ds.VerifMeterReset(3_000_000)
			defer ds.VerifMeterReset(0)
			defer func() { _ = recover() }()
			_ = vm.Run(c.Pre)
		}()
		c.Cfg.Apply(vm)
	}
	*log = (*log)[:0]
	return vm
}

type outcome struct {
	err     error
	pi      *rt.PanicInfo
	ret     string
	matched string
	rest    string
	detail  string
	detail2 string
	attrs   string
	seed    string
	st      string
	calc    string // IsCalculateExists(): whether the consumed text computes anything
}

func runOne(vm *ds.Context, src string, log *[]stEvent) outcome {
	var o outcome
	ds.VerifMeterReset(3_000_000) // backstop against endless work; a hit is C07's subject, not C03's
	defer ds.VerifMeterReset(0)
	o.pi = rt.Guard(func() {
		o.err = vm.Run(src)
		if o.err != nil {
			return
		}
		o.ret = vmx.Repr(vm.Ret)
		o.matched = vm.Matched
		o.rest = vm.RestInput
		o.detail = vm.GetDetailText()
		o.detail2 = vm.GetDetailText()
		o.calc = strconv.FormatBool(vm.IsCalculateExists())
		o.attrs = vmx.AttrsRepr(vm)
		o.seed = vmx.SeedHex(vm)
		b, _ := json.Marshal(*log)
		o.st = string(b)
	})
	return o
}

func restClass(rest string) string {
	r := strings.TrimLeftFunc(rest, unicode.IsSpace)
	if r == "" {
		return "blank"
	}
	lead := ""
	if len(r) != len(rest) {
		lead = "sp"
		if strings.ContainsAny(rest[:len(rest)-len(r)], "\n") {
			lead = "nl"
		}
	}
	c := r[0]
	switch {
	case strings.HasPrefix(r, "{%"):
		return lead + "{%"
	case strings.HasPrefix(r, "//"):
		return lead + "//"
	case strings.ContainsRune("{[('\"`+-*/,|&?.=:;<>!^%\x1e", rune(c)):
		return lead + string(c)
	case c >= '0' && c <= '9':
		return lead + "digit"
	case c >= 0x80:
		return lead + "utf8"
	case (c >= 'a' && c <= 'z') || (c >= 'A' && c <= 'Z') || c == '_' || c == '$':
		return lead + "ident"
	}
	return lead + "other"
}

func checkCase(c Case, s *rt.Section) *rt.Failure {
	var log1, log2 []stEvent
	vm1 := newVM(c, &log1)
	o1 := runOne(vm1, c.Src, &log1)
	if o1.pi != nil {
		if _, hit := o1.pi.Raw.(ds.VerifCeilingHit); hit {
			s.Discard("work-ceiling")
			return nil
		}
		return s.NewFailure("no-panic", o1.pi.Sig(), c, o1.pi.Value+"\n"+o1.pi.Stack, "Run and the observers return normally")
	}
	if o1.err != nil {
		s.Class("full-input-rejected")
		return nil
	}
	rc := restClass(o1.rest)
	if o1.matched+o1.rest != c.Src {
		return s.NewFailure("concat", "c03:concat/"+rc, c, fmt.Sprintf("Matched=%q RestInput=%q", o1.matched, o1.rest), "Matched+RestInput == input")
	}
	if o1.detail != o1.detail2 && !sameModuloDictOrder(o1.detail, o1.detail2) {
		return s.NewFailure("detail-idempotent", "c03:detail-twice/"+rc, c, fmt.Sprintf("%q then %q", o1.detail, o1.detail2), "same text")
	}
	if strings.TrimSpace(o1.rest) == "" {
		s.Class("consumed-everything")
	} else {
		s.Class("rest:" + rc)
	}
	vm2 := newVM(c, &log2)
	o2 := runOne(vm2, o1.matched, &log2)
	if o2.pi != nil {
		if _, hit := o2.pi.Raw.(ds.VerifCeilingHit); hit {
			s.Discard("work-ceiling")
			return nil
		}
		return s.NewFailure("matched-alone", o2.pi.Sig(), c, "running Matched alone panics: "+o2.pi.Value, "no panic")
	}
	if o2.err != nil && c.Cfg.ParseLimit > 0 && strings.Contains(o2.err.Error(), "parse budget") {
		s.Discard("parse-budget-on-matched-alone")
		return nil
	}
	if o2.err != nil {
		return s.NewFailure("matched-alone", "c03:alone-error/"+rc, c, fmt.Sprintf("Matched=%q alone fails: %v", o1.matched, o2.err), "Matched alone evaluates")
	}
	if o2.rest != "" || o2.matched != o1.matched {
		return s.NewFailure("matched-alone", "c03:alone-rest/"+rc, c, fmt.Sprintf("Matched=%q alone leaves Matched=%q Rest=%q", o1.matched, o2.matched, o2.rest), "Matched alone is consumed entirely")
	}
	type cmp struct{ what, a, b string }
	for _, x := range []cmp{{"ret", o1.ret, o2.ret}, {"attrs", o1.attrs, o2.attrs}, {"detail", o1.detail, o2.detail}, {"seed", o1.seed, o2.seed}, {"st", o1.st, o2.st}, {"calculates", o1.calc, o2.calc}} {
		if x.a != x.b {
			if sameModuloDictOrder(x.a, x.b) {
				s.Class("detail-differs-only-in-dict-order")
				continue
			}
			return s.NewFailure("matched-alone", "c03:"+x.what+"/"+rc, c,
				fmt.Sprintf("input %q: Matched=%q Rest=%q %s=%s", c.Src, o1.matched, o1.rest, x.what, clip(x.a)),
				fmt.Sprintf("%s of Matched alone = %s", x.what, clip(x.b)))
		}
	}
	return nil
}

// sameModuloDictOrder: the process text prints dict values through ToString, whose
// entry order is Go map order; two texts that contain a dict rendering and are
// permutations of each other's bytes are taken to be the same text.
func sameModuloDictOrder(a, b string) bool {
	// since fix 6269628 a dict prints and lists its entries in key order: nothing is tolerated any more
	if true {
		return false
	}
	if len(a) != len(b) || !strings.Contains(a, "{'") {
		return false
	}
	var ca, cb [256]int
	for i := 0; i < len(a); i++ {
		ca[a[i]]++
		cb[b[i]]++
	}
	return ca == cb
}

func clip(s string) string {
	if len(s) > 600 {
		return s[:600] + "…"
	}
	return s
}

// hand-written valid prefixes (GUIDE.md, the repository's tests) mixed with generated ones
var fixedProgs = []string{
	"2d6", "d20", "d20 + 5", "3d6kh2", "1 + 2 * 3", "'abc'", "x = 5", "[1,2,3]", "{'a': 1}", "(1+2)", "力量 = 60; 力量",
	"^st力量60敏捷70", "^st力量:60 敏捷:70", "^st力量+1", "^st&手枪=1d6", "^st智力=80,知识=90", "^st力量+1d6 敏捷-2", "^st力量*2:60",
	"if 1 { 2 }", "func g(x) { x + 1 }; g(2)", "`a{1+1}b`", "&c = 1d1 + 2; c", "[1,2,3][1]", "x = [1,2]; x[0]", "5", "f", "b2", "p", "2a5", "2c5",
	"1 ? 2 : 3", "0 ? 2, 1 ? 3", "[1,2,3].len()", "x = {'k': [1,2]}; x.k", "1 || 2", "null ?? 3", "-5", "1 < 2",
}

// snippets that are dice under one flag setting and variable loads (or other dice) under another
var flagSnippets = []string{"f", "x = f", "f + 1", "b", "p2", "b + 1", "2a10", "y = 2a10k8", "3c6", "z = 3c6m8", "a10", "c", "p", "2d6 + f", "[f, b]"}

func TestProp(t *testing.T) {
	run := rt.Begin(t, "C03")
	defer run.Finish()
	rule := "input = <valid program P><tail T>: P is a generated program (all constructs incl. seeded dice of every enabled family) or a fixed GUIDE-style snippet (incl. ^st forms), T is free reason text, an operator/opener, or a generated statement cut at a rune boundary behind an optional separator; random family flags/mode, seeded VM, optional setup program for prior state. Oracle: Matched+RestInput==input and Matched alone on a fresh VM with the same seed/config/setup consumes itself entirely and gives equal Ret, process text, variables, generator state and st-callback log. Non-trivial = full input accepted with a non-blank RestInput and non-empty Matched; distinct by input text"
	run.Check("tail", 24000, 500000, rule, func(t *rapid.T, s *rt.Section) {
		c := Case{Cfg: vmx.DrawCfg(t, true)}
		o := gen.DefaultOpts()
		o.MaxStmts = 4
		o.MaxDepth = 3
		o.Dice = true
		o.SingleKeyDicts = false // since fix 6269628 a dict prints and lists its entries in key order
		o.CoC, o.WoD, o.Fate, o.DC = c.Cfg.CoC, c.Cfg.WoD, c.Cfg.Fate, c.Cfg.DC
		o.Avoid = s.Avoid
		env := &gen.Env{}
		if rapid.IntRange(0, 2).Draw(t, "withSetup") == 0 {
			g0 := gen.NewG(t, o, env)
			c.Setup = []string{gen.Print(g0.Program())}
		}
		g := gen.NewG(t, o, env)
		// a parse budget must not change what the consumed text means (a run that exhausts it is rejected, which is outside the property)
		if rapid.IntRange(0, 3).Draw(t, "withParseLimit") == 0 {
			c.Cfg.ParseLimit = uint64(rapid.SampledFrom([]int{300, 600, 1000, 1400, 1800, 2200, 3000, 4000, 6000, 10000, 30000}).Draw(t, "parseLimit"))
		}
		var prog string
		switch k := rapid.IntRange(0, 9).Draw(t, "progKind"); {
		case k == 0:
			// text whose meaning depends on the family flags, around an #EnableDice macro line
			n := rapid.IntRange(1, 3).Draw(t, "macroParts")
			for i := 0; i < n; i++ {
				if i > 0 {
					prog += rapid.SampledFrom([]string{"; ", "\n"}).Draw(t, "macroSep")
				}
				prog += rapid.SampledFrom(flagSnippets).Draw(t, "flagSnippet")
			}
			prog += "\n// #EnableDice " + rapid.SampledFrom([]string{"fate", "coc", "wod", "doublecross"}).Draw(t, "macroFam") + " " +
				rapid.SampledFrom([]string{"true", "false"}).Draw(t, "macroOn") + "\n" + rapid.SampledFrom(flagSnippets).Draw(t, "flagSnippet")
			s.Class("prog:macro")
		case k <= 2:
			prog = rapid.SampledFrom(fixedProgs).Draw(t, "fixed")
		default:
			z := &gen.Noise{Vals: rapid.SliceOfN(rapid.IntRange(0, 1000), 0, 12).Draw(t, "noise")}
			prog, _ = gen.PrintNoisy(g.Program(), z)
		}
		tail, tclass := g.Tail()
		// leading blanks / a leading comment line are legal and belong to the consumed text
		lead := rapid.SampledFrom([]string{"", "", "", "", " ", "\n", "\t ", " \n ", "// 备注 comment\n", "  // x\n  "}).Draw(t, "lead")
		if strings.HasPrefix(prog, "^st") {
			lead = ""
		}
		prog = lead + prog
		if !strings.HasPrefix(strings.TrimSpace(prog), "^st") && rapid.IntRange(0, 7).Draw(t, "custom") == 0 {
			c.Custom = true
			prog += rapid.SampledFrom([]string{"; ", "\n"}).Draw(t, "customSep") + rapid.SampledFrom([]string{"R(2)", "R(1+2)", "R[1,2][0]", "1 + R(3)", "R(2) * 2", "[R(1), R(2)]", "R'a'"}).Draw(t, "customUse")
			s.Class("with-custom-dice-operand")
			if rapid.Bool().Draw(t, "customPlain") {
				// the plain configuration (no family, no restriction), and a tail that goes on with an operator and a
				// dict or template that breaks off
				c.Cfg.CoC, c.Cfg.WoD, c.Cfg.Fate, c.Cfg.DC = false, false, false, false
				c.Cfg.NoStmts, c.Cfg.NoNDice, c.Cfg.NoBitwise = false, false, false
				tail = rapid.SampledFrom([]string{" + {a:", " + `{hp = 0", " * {'k': x,", " - `a{1}b{", " + {a: 1", " ?? `{", " + {", " + `x{ a = 9"}).Draw(t, "customTail")
				tclass = "operator-then-broken-dict-or-template"
				if rapid.Bool().Draw(t, "customSetup") {
					c.Setup = append(c.Setup, "a = 7; hp = 5; x = 3")
				}
			}
		}
		c.Prog, c.Tail = prog, tail
		c.Src = prog + tail
		if rapid.IntRange(0, 5).Draw(t, "withPre") == 0 {
			// the same program was evaluated before with another tail while the host had other switches set
			b := rapid.IntRange(0, 127).Draw(t, "preFlags")
			c.PreFlags = &b
			t2, _ := g.Tail()
			if rapid.Bool().Draw(t, "preSameTail") {
				t2 = tail
			}
			c.Pre = prog + t2
			s.Class("with-earlier-evaluation-under-other-switches")
		}
		s.Eval()
		s.Class("tail:" + tclass)
		s.Crumb(c)
		f := checkCase(c, s)
		h := rt.Hash(c.Src, c.Cfg.SeedHex)
		if f == nil {
			// measure non-triviality on the real outcome
			var lg []stEvent
			vm := newVM(c, &lg)
			o1 := runOne(vm, c.Src, &lg)
			if o1.err == nil && o1.pi == nil && strings.TrimSpace(o1.rest) != "" && o1.matched != "" {
				s.NonTrivial(rt.Hash(c.Src))
				if len(c.Src) < 80 {
					s.Sample(h, map[string]any{"src": c.Src, "matched": o1.matched, "rest": o1.rest})
				}
			}
		}
		s.Report(t, f)
	})
}

func TestReplay(t *testing.T) {
	rt.Replay(t, "C03", map[string]rt.ReplayFunc{
		"tail": func(b []byte, s *rt.Section) *rt.Failure {
			var c Case
			if err := json.Unmarshal(b, &c); err != nil {
				return s.NewFailure("replay", "replay:bad-case", nil, err.Error(), "")
			}
			return checkCase(c, s)
		},
	})
}

// FuzzC03 (thorough tier): coverage-guided search over raw source bytes with the same metamorphic oracle.
// The first two bytes select the configuration; the rest is the input text.
func FuzzC03(f *testing.F) {
	for _, p := range fixedProgs {
		f.Add([]byte("\x0f\x00" + p + " reason"))
		f.Add([]byte("\x0f\x00" + p + "\n{'a':1"))
	}
	f.Add([]byte("\x0f\x005\n{'a':1"))
	f.Add([]byte("\x0f\x00x = [1,2][0"))
	f.Add([]byte("\x00\x011 ? 2,{'a"))
	_, s := rt.FuzzRun("C03", "tail")
	f.Fuzz(func(t *testing.T, data []byte) {
		if len(data) < 3 || len(data) > 400 {
			return
		}
		c := Case{Src: string(data[2:])}
		b := data[0]
		c.Cfg = vmx.Cfg{CoC: b&1 != 0, WoD: b&2 != 0, Fate: b&4 != 0, DC: b&8 != 0, IgnoreDiv0: b&16 != 0, OpLimit: 30000,
			SeedHex: "000102030405060708090a0b0c0d0e0f"}
		switch data[1] % 3 {
		case 1:
			c.Cfg.Mode = "min"
		case 2:
			c.Cfg.Mode = "max"
		}
		if b&32 != 0 {
			c.Setup = []string{"力量=3; x=[1,2]; func g(n) { n + 1 }"}
		}
		// dicts print in Go map order: inputs that can print a multi-key dict are outside the deterministic domain
		if strings.Count(c.Src, ":") > 1 && strings.Contains(c.Src, "{") {
			return
		}
		fl := checkCase(c, s)
		if fl == nil {
			return
		}
		// a dict that gained keys by assignment prints in Go map order, which differs from run to run: only a
		// difference that repeats identically twelve times is a function of the input
		for i := 0; i < 12; i++ {
			if f2 := checkCase(c, s); f2 == nil || f2.Signature != fl.Signature || f2.Observed != fl.Observed {
				return
			}
		}
		if s.FuzzReport(fl) {
			t.Fatalf("C03 %s\nobserved: %s\nexpected: %s\ncase: %s", fl.Signature, fl.Observed, fl.Expected, fl.Case)
		}
	})
}
