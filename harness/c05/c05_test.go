// C05 — dice are unbiased for every number of sides.
//
// Sections
//
//	small   every n in 1..64 (thorough: 1..256), several seeds each: each face counted exactly
//	large   rapid-drawn n (powers of two and neighbours, 3*2^k, 5*2^k, floor(2^64*d/m), the
//	        largest supported size, log-uniform) x rapid-drawn seeds: 16 quantile cells, 16 low
//	        residue cells, successive-pair cells
//	vm      the same statistics on the dice printed by the script form "<K>d<n>" on a seeded Context
//	source  source discipline: an explicit source is the only thing consumed; equal states give
//	        equal dice
//
// Every statistical decision uses a non-asymptotic tail bound (Bernstein) with a
// per-statistic error probability of 1e-13, so that a whole run alarms falsely with
// probability < 1e-8; the seeds being part of the case, a case either always or never fails.
package c05

import (
	"encoding/hex"
	"encoding/json"
	"fmt"
	"math"
	"math/bits"
	"os"
	"strconv"
	"strings"
	"sync"
	"testing"

	ds "github.com/sealdice/dicescript"
	"golang.org/x/exp/rand"
	"pgregory.net/rapid"

	"verif/harness/rt"
)

const (
	// Roll refuses n > MaxInt64-1 (returns 0), so the largest supported size is 2^63-2.
	maxN      = uint64(math.MaxInt64 - 1)
	faceLimit = 1024  // n up to here: one cell per face
	pairFaces = 8     // n up to here: successive pairs over faces (n*n cells), above: over 4 quantiles
	delta     = 1e-13 // error probability granted to one statistic (all its cells together)
	nLags     = 4
)

// StatCase is one statistical experiment: Draws dice of N sides from the generator state Seed.
type StatCase struct {
	N     uint64 `json:"n"`
	Seed  string `json:"seed"` // 32 hex digits: PCGSource.UnmarshalBinary / Context.Seed
	Draws int    `json:"draws"`
	Via   string `json:"via,omitempty"`   // "" Roll(src,n,0) | "vm" script "<Times>d<N>"
	Times int    `json:"times,omitempty"` // vm: dice per Run
	Class string `json:"class,omitempty"` // generator label, not used by the oracle
	// Lead (vm): text in front of the measured term in the same evaluation, %d = N: other dice terms with clamps and
	// keeps, whose settings must not reach the measured dice
	Lead string `json:"lead,omitempty"`
	// Body (vm): "" the measured dice are one top-level term | "func" each measured die is rolled inside a function body,
	// "[mf(), mf(), ...]" with K calls per Run | "computed" inside a computed value read K times; the values are read from Ret
	Body string `json:"body,omitempty"`
}

var vmLeads = []string{"", "", "d%[1]dmin%[1]d; ", "d%[1]dmax1; ", "3d%[1]dk1; ", "d%[1]dmin%[1]d + ", "2d%[1]dmax1 + ", "2d%[1]dkl1min%[1]d; d%[1]d; ",
	// dice rolled inside a function or computed body before the measured term (their spans stay in the body)
	"func lf() { 2d%[1]d }; lf(); ", "func lf(n) { n + d%[1]d }; func lg() { lf(d%[1]d) }; lg() + ", "&lc = d%[1]dmin%[1]d; lc; "}

// leadSpans: dice spans a lead adds to the top-level process text (dice inside function bodies add none)
func leadSpans(lead string) int {
	if strings.HasPrefix(lead, "func ") {
		return 0
	}
	return strings.Count(lead, "d%")
}

func newSrc(seedHex string) (*rand.PCGSource, []byte, error) {
	b, err := hex.DecodeString(seedHex)
	if err != nil || len(b) != 16 {
		return nil, nil, fmt.Errorf("seed must be 32 hex digits")
	}
	s := &rand.PCGSource{}
	if err := s.UnmarshalBinary(b); err != nil {
		return nil, nil, err
	}
	return s, b, nil
}

// ---------------------------------------------------------------------------
// exact cell probabilities

// ceilMulDiv returns ceil(j*n/d) for small j,d (no overflow: 128-bit intermediate).
func ceilMulDiv(j, n, d uint64) uint64 {
	hi, lo := bits.Mul64(j, n)
	lo2, c := bits.Add64(lo, d-1, 0)
	hi += c
	q, _ := bits.Div64(hi, lo2, d)
	return q
}

// quantCounts: how many of the values y in [0,n) fall in cell floor(y*k/n), exactly.
func quantCounts(n uint64, k int) []uint64 {
	out := make([]uint64, k)
	for j := 0; j < k; j++ {
		out[j] = ceilMulDiv(uint64(j+1), n, uint64(k)) - ceilMulDiv(uint64(j), n, uint64(k))
	}
	return out
}

func quantCell(y, n uint64, k uint64) int {
	hi, lo := bits.Mul64(y, k)
	q, _ := bits.Div64(hi, lo, n) // hi < k <= n
	return int(q)
}

// tolerance: with probability >= 1-dlt/cells a Binomial(N,p) count stays within t of N*p
// (Bernstein's inequality for independent summands bounded by 1, two-sided).
func tolerance(N float64, p float64, cells int) float64 {
	L := math.Log(2 * float64(cells) / delta)
	t := L/3 + math.Sqrt(L*L/9+2*L*N*p*(1-p))
	return t + 1 + 1e-9*N // float rounding of p and of the bound itself
}

// ---------------------------------------------------------------------------
// accumulator

type acc struct {
	n      uint64
	faces  bool
	cnt    []int64 // faces: n cells, otherwise 16 quantile cells
	res    [16]int64
	pc     int        // pair alphabet size
	thr16  [17]uint64 // thr16[j] = ceil(j*n/16): quantile cell j is [thr16[j], thr16[j+1])
	thr4   [5]uint64
	pairs  [nLags][]int64
	ring   [8]int
	j      int64
	bad    string
	badSig string
}

func newAcc(n uint64) *acc {
	a := &acc{n: n, faces: n <= faceLimit}
	if a.faces {
		a.cnt = make([]int64, n)
	} else {
		a.cnt = make([]int64, 16)
	}
	if n <= pairFaces {
		a.pc = int(n)
	} else {
		a.pc = 4
	}
	for l := 0; l < nLags; l++ {
		a.pairs[l] = make([]int64, a.pc*a.pc)
	}
	for j := 0; j <= 16; j++ {
		a.thr16[j] = ceilMulDiv(uint64(j), n, 16)
	}
	for j := 0; j <= 4; j++ {
		a.thr4[j] = ceilMulDiv(uint64(j), n, 4)
	}
	return a
}

// q16 = floor(y*16/n) for n >= 16, by search in the exact cell boundaries (no division per draw)
func (a *acc) q16(y uint64) int {
	t := &a.thr16
	q := 0
	if y >= t[8] {
		q = 8
	}
	if y >= t[q+4] {
		q += 4
	}
	if y >= t[q+2] {
		q += 2
	}
	if y >= t[q+1] {
		q++
	}
	return q
}

// q4 = floor(y*4/n) for n >= 4
func (a *acc) q4(y uint64) int {
	t := &a.thr4
	q := 0
	if y >= t[2] {
		q = 2
	}
	if y >= t[q+1] {
		q++
	}
	return q
}

// add feeds one die; false = the value is outside 1..n (recorded).
func (a *acc) add(x int64) bool {
	if x < 1 {
		a.badSig, a.bad = "range:below-1", fmt.Sprintf("draw #%d of d%d returned %d", a.j, a.n, x)
		return false
	}
	if uint64(x) > a.n {
		a.badSig, a.bad = "range:above-n", fmt.Sprintf("draw #%d of d%d returned %d", a.j, a.n, x)
		return false
	}
	y := uint64(x - 1)
	var pcell int
	if a.faces {
		a.cnt[y]++
		if a.n <= pairFaces {
			pcell = int(y)
		} else {
			pcell = a.q4(y)
		}
	} else {
		q := a.q16(y)
		a.cnt[q]++
		a.res[y&15]++
		pcell = q >> 2
	}
	j := a.j
	pc := a.pc
	// non-overlapping pairs (i, i+L): i with floor(i/L) even, so the pairs of one lag are independent
	if j&1 == 1 {
		a.pairs[0][a.ring[(j-1)&7]*pc+pcell]++
	}
	if (j>>1)&1 == 1 {
		a.pairs[1][a.ring[(j-2)&7]*pc+pcell]++
	}
	if (j/3)&1 == 1 {
		a.pairs[2][a.ring[(j-3)&7]*pc+pcell]++
	}
	if (j>>2)&1 == 1 {
		a.pairs[3][a.ring[(j-4)&7]*pc+pcell]++
	}
	a.ring[j&7] = pcell
	a.j++
	return true
}

type verdict struct {
	sig, observed, expected string
}

func worst(counts []int64, probs []float64, N float64, what string) (bad bool, desc, exp string) {
	cells := len(counts)
	worstI, worstR := -1, 0.0
	for i, c := range counts {
		p := probs[i]
		if p == 0 {
			if c != 0 {
				return true, fmt.Sprintf("%s cell %d has %d hits", what, i, c), "0 hits (no value maps there)"
			}
			continue
		}
		t := tolerance(N, p, cells)
		r := math.Abs(float64(c)-N*p) / t
		if r > worstR {
			worstI, worstR = i, r
		}
	}
	if worstR > 1 {
		p := probs[worstI]
		return true, fmt.Sprintf("%s cell %d of %d: %d hits in %.0f draws (frequency %.6f); all counts %v", what, worstI, cells, counts[worstI], N, float64(counts[worstI])/N, clipCounts(counts)),
			fmt.Sprintf("probability %.6f: %.1f +- %.1f hits (Bernstein bound, error probability %.0e for the statistic)", p, N*p, tolerance(N, p, cells), delta)
	}
	return false, "", ""
}

func clipCounts(c []int64) string {
	if len(c) <= 36 {
		return fmt.Sprint(c)
	}
	return fmt.Sprint(c[:36]) + "…"
}

func (a *acc) finish() *verdict {
	if a.badSig != "" {
		return &verdict{a.badSig, a.bad, fmt.Sprintf("a value in 1..%d", a.n)}
	}
	N := float64(a.j)
	n := a.n
	if N == 0 {
		return nil
	}
	// marginal
	if a.faces {
		// every face occurs once N >= n*ln(n/delta)  (P[some face missing] <= n*exp(-N/n) <= delta)
		if N >= float64(n)*math.Log(float64(n)/delta) {
			for i, c := range a.cnt {
				if c == 0 {
					return &verdict{"face:missing", fmt.Sprintf("face %d of d%d never came up in %.0f draws; counts %v", i+1, n, N, clipCounts(a.cnt)), "every face occurs"}
				}
			}
		}
		probs := make([]float64, n)
		for i := range probs {
			probs[i] = 1 / float64(n)
		}
		if bad, d, e := worst(a.cnt, probs, N, "face"); bad {
			return &verdict{"bias:face", d, e}
		}
	} else {
		qc := quantCounts(n, 16)
		probs := make([]float64, 16)
		for i := range probs {
			probs[i] = float64(qc[i]) / float64(n)
		}
		if bad, d, e := worst(a.cnt, probs, N, "quantile"); bad {
			return &verdict{"bias:quantile", d, e}
		}
		rp := make([]float64, 16)
		for r := uint64(0); r < 16; r++ {
			c := n / 16
			if r < n%16 {
				c++
			}
			rp[r] = float64(c) / float64(n)
		}
		if bad, d, e := worst(a.res[:], rp, N, "residue (value-1) mod 16"); bad {
			return &verdict{"bias:residue", d, e}
		}
	}
	// successive pairs
	var pp []float64
	if n <= pairFaces {
		pp = make([]float64, n)
		for i := range pp {
			pp[i] = 1 / float64(n)
		}
	} else {
		qc := quantCounts(n, 4)
		pp = make([]float64, 4)
		for i := range pp {
			pp[i] = float64(qc[i]) / float64(n)
		}
	}
	joint := make([]float64, a.pc*a.pc)
	for x := 0; x < a.pc; x++ {
		for y := 0; y < a.pc; y++ {
			joint[x*a.pc+y] = pp[x] * pp[y]
		}
	}
	for l := 0; l < nLags; l++ {
		var np int64
		for _, c := range a.pairs[l] {
			np += c
		}
		if np == 0 {
			continue
		}
		if bad, d, e := worst(a.pairs[l], joint, float64(np), fmt.Sprintf("pair (die i, die i+%d), %d classes per die,", l+1, a.pc)); bad {
			return &verdict{fmt.Sprintf("pairs:lag%d", l+1), d, e + "; the pair (die i, die i+L) is uniform over its cells: uniform faces, independent successive dice"}
		}
	}
	return nil
}

// ---------------------------------------------------------------------------
// oracles

func globalSeed() string {
	b, _ := (&ds.Context{}).GetCurSeed()
	return hex.EncodeToString(b)
}

func checkStat(c StatCase, s *rt.Section) *rt.Failure {
	if c.N < 1 || c.N > maxN || c.Draws < 1 || c.Draws > 400_000_000 {
		return s.NewFailure("replay", "replay:bad-case", c, "n outside 1..2^63-2 or draws outside 1..4e8", "")
	}
	src, seedBytes, err := newSrc(c.Seed)
	if err != nil {
		return s.NewFailure("replay", "replay:bad-case", c, err.Error(), "")
	}
	a := newAcc(c.N)
	var fail *rt.Failure
	pi := rt.Guard(func() {
		if c.Via == "vm" {
			fail = feedVM(c, seedBytes, a, s)
			return
		}
		n := ds.IntType(c.N)
		for i := 0; i < c.Draws; i++ {
			if !a.add(int64(ds.Roll(src, n, 0))) {
				return
			}
		}
	})
	if pi != nil {
		return s.NewFailure("no-panic", pi.Sig(), c, pi.Value, "no panic")
	}
	if fail != nil {
		return fail
	}
	if v := a.finish(); v != nil {
		or := "uniform-cells"
		switch {
		case strings.HasPrefix(v.sig, "range:"):
			or = "range"
		case strings.HasPrefix(v.sig, "pairs:"):
			or = "uniform-pairs"
		}
		if c.Via == "vm" {
			v.sig = "vm-" + v.sig
		}
		return s.NewFailure(or, v.sig, c, v.observed, v.expected)
	}
	return nil
}

// feedVM runs "<Times>d<N>" on one seeded Context until Draws dice were seen and feeds
// the dice printed in the process text of the dice span.
func feedVM(c StatCase, seed []byte, a *acc, s *rt.Section) *rt.Failure {
	times := c.Times
	if times < 2 {
		times = 2
	}
	if times > 1000 {
		times = 1000
	}
	g0 := globalSeed()
	vm := &ds.Context{Seed: append([]byte(nil), seed...)}
	vm.Init()
	vm.Config.OpCountLimit = 30000
	prog := fmt.Sprintf("%dd%d", times, c.N)
	if c.Lead != "" {
		prog = fmt.Sprintf(c.Lead, c.N) + prog
	}
	if c.Body != "" {
		if times > 200 {
			times = 200
		}
		def, call := fmt.Sprintf("func mf() { d%d }; ", c.N), "mf()"
		if c.Body == "computed" {
			def, call = fmt.Sprintf("&mc = d%d; ", c.N), "mc"
		}
		prog = "[" + strings.TrimSuffix(strings.Repeat(call+", ", times), ", ") + "]"
		if c.Lead != "" {
			// the result is a list: a lead written as a summand becomes a statement of its own
			lead := c.Lead
			if strings.HasSuffix(lead, " + ") {
				lead = strings.TrimSuffix(lead, " + ") + "; "
			}
			prog = fmt.Sprintf(lead, c.N) + prog
		}
		prog = def + prog
		for seen := 0; seen < c.Draws; {
			if err := vm.Run(prog); err != nil {
				return s.NewFailure("vm-runs", "vm:error", c, fmt.Sprintf("%q: %v", clipStr(prog, 200), err), "no error")
			}
			list, ok := vm.Ret.ReadArray()
			if !ok || len(list.List) != times {
				return s.NewFailure("vm-runs", "vm:dice-count", c, fmt.Sprintf("%q: result %s", clipStr(prog, 200), clipStr(vm.Ret.ToString(), 200)), fmt.Sprintf("an array of %d dice", times))
			}
			for _, e := range list.List {
				x, ok := e.ReadInt()
				if !ok {
					return s.NewFailure("vm-runs", "vm:dice-text", c, fmt.Sprintf("%q: element %s", clipStr(prog, 200), e.ToString()), "an integer")
				}
				if !a.add(int64(x)) {
					return nil
				}
				seen++
			}
		}
		if g1 := globalSeed(); g1 != g0 {
			return s.NewFailure("source-discipline", "vm-source:global-touched", c, "package-global generator state "+g0+" -> "+g1+" across dice in bodies on a seeded Context", "unchanged: dice draw from the Context's generator")
		}
		return nil
	}
	for seen := 0; seen < c.Draws; {
		if err := vm.Run(prog); err != nil {
			return s.NewFailure("vm-runs", "vm:error", c, fmt.Sprintf("%q: %v", prog, err), "no error")
		}
		if strings.TrimSpace(vm.RestInput) != "" {
			return s.NewFailure("vm-runs", "vm:rest", c, fmt.Sprintf("%q leaves %q unparsed", prog, vm.RestInput), "whole text consumed")
		}
		// the measured term is the last one of the text
		var text string
		found, lastBegin := 0, ds.IntType(-1)
		for _, sp := range vm.DetailSpans {
			if sp.Tag == "dice" {
				found++
				if sp.Begin > lastBegin {
					text, lastBegin = sp.Text, sp.Begin
				}
			}
		}
		if want := 1 + leadSpans(c.Lead); found < 1 || (found != want && !strings.HasPrefix(c.Lead, "&")) {
			return s.NewFailure("vm-runs", "vm:no-dice-span", c, fmt.Sprintf("%q: %d spans tagged dice", prog, found), fmt.Sprint(want))
		}
		parts := strings.Split(text, "+")
		if len(parts) != times {
			return s.NewFailure("vm-runs", "vm:dice-count", c, fmt.Sprintf("%q shows %d dice: %s", prog, len(parts), clipStr(text, 200)), fmt.Sprint(times))
		}
		for _, p := range parts {
			x, err := strconv.ParseInt(p, 10, 64)
			if err != nil {
				return s.NewFailure("vm-runs", "vm:dice-text", c, fmt.Sprintf("%q: die %q", prog, p), "an integer")
			}
			if !a.add(x) {
				return nil
			}
			seen++
		}
	}
	if g1 := globalSeed(); g1 != g0 {
		return s.NewFailure("source-discipline", "vm-source:global-touched", c, "package-global generator state "+g0+" -> "+g1+" across plain dice on a seeded Context", "unchanged: dice draw from the Context's generator")
	}
	return nil
}

func clipStr(s string, n int) string {
	if len(s) > n {
		return s[:n] + "…"
	}
	return s
}

// SourceCase: source discipline on a short sequence.
type SourceCase struct {
	N    uint64 `json:"n"`
	Seed string `json:"seed"`
	K    int    `json:"k"`
}

func rollSeq(src *rand.PCGSource, n uint64, k int) []int64 {
	out := make([]int64, k)
	for i := range out {
		out[i] = int64(ds.Roll(src, ds.IntType(n), 0))
	}
	return out
}

func firstDiff(a, b []int64) int {
	for i := range a {
		if a[i] != b[i] {
			return i
		}
	}
	return -1
}

func checkSource(c SourceCase, s *rt.Section) *rt.Failure {
	if c.N < 1 || c.N > maxN || c.K < 1 || c.K > 100000 {
		return s.NewFailure("replay", "replay:bad-case", c, "n outside 1..2^63-2 or k outside 1..1e5", "")
	}
	srcA, seed, err := newSrc(c.Seed)
	if err != nil {
		return s.NewFailure("replay", "replay:bad-case", c, err.Error(), "")
	}
	srcB, _, _ := newSrc(c.Seed)
	var fail *rt.Failure
	pi := rt.Guard(func() {
		g0 := globalSeed()
		seqA := rollSeq(srcA, c.N, c.K)
		if g1 := globalSeed(); g1 != g0 {
			fail = s.NewFailure("source-discipline", "source:global-touched", c, "package-global generator state "+g0+" -> "+g1+" across Roll with an explicit source", "unchanged")
			return
		}
		for i, x := range seqA {
			if x < 1 || uint64(x) > c.N {
				fail = s.NewFailure("range", "range:outside", c, fmt.Sprintf("draw #%d = %d", i, x), fmt.Sprintf("1..%d", c.N))
				return
			}
		}
		// equal generator states give equal dice
		seqB := rollSeq(srcB, c.N, c.K)
		if i := firstDiff(seqA, seqB); i >= 0 {
			fail = s.NewFailure("source-discipline", "source:clones-differ", c, fmt.Sprintf("draw #%d: %d vs %d from two sources in the same state", i, seqA[i], seqB[i]), "identical sequences")
			return
		}
		// a Context's generator is the PCG state given as Seed
		ctx := &ds.Context{Seed: append([]byte(nil), seed...)}
		ctx.Init()
		if ctx.RandSrc == nil {
			fail = s.NewFailure("source-discipline", "source:context-nil", c, "Context{Seed}.Init() left RandSrc nil", "a generator")
			return
		}
		seqC := rollSeq(ctx.RandSrc, c.N, c.K)
		if i := firstDiff(seqA, seqC); i >= 0 {
			fail = s.NewFailure("source-discipline", "source:context-differs", c, fmt.Sprintf("draw #%d: %d vs %d (Context.RandSrc)", i, seqA[i], seqC[i]), "identical sequences")
			return
		}
		// the state after k dice, saved and restored, continues identically (successive dice depend on the state only)
		st, _ := srcA.MarshalBinary()
		srcD := &rand.PCGSource{}
		_ = srcD.UnmarshalBinary(st)
		n1 := rollSeq(srcA, c.N, c.K)
		n2 := rollSeq(srcD, c.N, c.K)
		if i := firstDiff(n1, n2); i >= 0 {
			fail = s.NewFailure("source-discipline", "source:resume-differs", c, fmt.Sprintf("draw #%d after restore: %d vs %d", c.K+i, n1[i], n2[i]), "identical continuation")
			return
		}
		// no source given: still a legal die, and the explicit sources are not involved
		stB, _ := srcB.MarshalBinary()
		for i := 0; i < 64; i++ { // the global generator is clock-seeded: only the range can be judged
			x := int64(ds.Roll(nil, ds.IntType(c.N), 0))
			if x < 1 || uint64(x) > c.N {
				fail = s.NewFailure("range", "range:nil-source", c, fmt.Sprintf("Roll(nil,%d,0) = %d", c.N, x), fmt.Sprintf("1..%d", c.N))
				return
			}
		}
		stB2, _ := srcB.MarshalBinary()
		if hex.EncodeToString(stB) != hex.EncodeToString(stB2) {
			fail = s.NewFailure("source-discipline", "source:foreign-touched", c, "an unrelated source changed state during Roll(nil,…)", "unchanged")
		}
	})
	if pi != nil {
		return s.NewFailure("no-panic", pi.Sig(), c, pi.Value, "no panic")
	}
	return fail
}

// ---------------------------------------------------------------------------
// generators

// FallbackCase: concurrent draws from the package-level generator.
type FallbackCase struct {
	Goroutines int `json:"goroutines"`
	Draws      int `json:"draws"`
}

func checkFallback(c FallbackCase, s *rt.Section) *rt.Failure {
	if c.Goroutines < 1 || c.Goroutines > 64 || c.Draws < 1 || c.Draws > 1_000_000 {
		return s.NewFailure("replay", "replay:bad-case", c, "goroutines outside 1..64 or draws outside 1..1e6", "")
	}
	const n = int64(1) << 62
	out := make([][]int64, c.Goroutines)
	var wg sync.WaitGroup
	start := make(chan struct{})
	for g := range out {
		wg.Add(1)
		go func(g int) {
			defer wg.Done()
			buf := make([]int64, c.Draws)
			<-start
			for i := range buf {
				buf[i] = int64(ds.Roll(nil, ds.IntType(n), 0))
			}
			out[g] = buf
		}(g)
	}
	close(start)
	wg.Wait()
	seen := make(map[int64]struct{}, c.Goroutines*c.Draws)
	repeats := 0
	for _, buf := range out {
		for _, x := range buf {
			if x < 1 || x > n {
				return s.NewFailure("range", "range:nil-source", c, fmt.Sprintf("Roll(nil,2^62,0) = %d", x), "1..2^62")
			}
			if _, dup := seen[x]; dup {
				repeats++
			}
			seen[x] = struct{}{}
		}
	}
	// contexts without a seed, created one right after the other (a host that makes a VM per command), share the package-level
	// generator: what they roll are successive draws of one stream, never the same dice again
	firsts := map[string]int{}
	const nvm = 64
	for i := 0; i < nvm; i++ {
		vm := ds.NewVM()
		if err := vm.Run("4d1000000007"); err != nil {
			return s.NewFailure("vm-runs", "vm:error", c, "fresh unseeded VM: "+err.Error(), "no error")
		}
		firsts[vm.GetDetailText()]++
	}
	if len(firsts) < nvm-1 {
		worst, text := 0, ""
		for k, n := range firsts {
			if n > worst {
				worst, text = n, k
			}
		}
		return s.NewFailure("independent-draws", "fallback:fresh-vms-repeat", c, fmt.Sprintf("%d unseeded VMs created back to back rolled only %d different results of 4d1000000007; %d of them rolled %s", nvm, len(firsts), worst, text), "64 different results (four independent draws from a billion faces each)")
	}
	// the same hosts logging the generator state of each command before it rolls (GetCurSeed on a context without a seed):
	// reading the state does not make the contexts repeat each other
	logged := map[string]int{}
	for i := 0; i < nvm; i++ {
		vm := ds.NewVM()
		var err error
		if pi := rt.Guard(func() {
			_, _ = vm.GetCurSeed()
			err = vm.Run("4d1000000007")
		}); pi != nil {
			return s.NewFailure("vm-runs", pi.Sig(), c, "GetCurSeed then Run on a fresh unseeded VM: "+pi.Value, "no panic")
		}
		if err != nil {
			return s.NewFailure("vm-runs", "vm:error", c, "fresh unseeded VM after GetCurSeed: "+err.Error(), "no error")
		}
		logged[vm.GetDetailText()]++
	}
	if len(logged) < nvm-1 {
		return s.NewFailure("independent-draws", "fallback:fresh-vms-repeat-after-getcurseed", c,
			fmt.Sprintf("%d unseeded VMs that each read GetCurSeed before rolling gave only %d different results of 4d1000000007", nvm, len(logged)), "64 different results")
	}
	if repeats > 1 {
		return s.NewFailure("independent-draws", "fallback:repeated-draws", c, fmt.Sprintf("%d of %d concurrent draws from the package-level generator repeat an earlier value", repeats, c.Goroutines*c.Draws), "no repeats among independent 62-bit draws")
	}
	return nil
}

func isPow2(n uint64) bool { return n&(n-1) == 0 }

func nonTrivialN(n uint64) bool { return !isPow2(n) || n > 1<<32 }

// naiveShift: the largest change of a quantile-cell probability that plain v%n (no rejection)
// would cause; tells how many generated sizes could expose a dropped rejection loop.
func naiveShift(n uint64) float64 {
	if n <= faceLimit || isPow2(n) {
		return 0
	}
	// 2^64 = q*n + r
	q, r := bits.Div64(1, 0, n) // n > 1 here
	qc := quantCounts(n, 16)
	worst := 0.0
	lo := uint64(0)
	two64 := math.Ldexp(1, 64)
	for j := 0; j < 16; j++ {
		hi := lo + qc[j] // cell covers [lo,hi)
		extra := uint64(0)
		if r > lo {
			e := r
			if e > hi {
				e = hi
			}
			extra = e - lo
		}
		pn := (float64(qc[j])*float64(q) + float64(extra)) / two64
		d := math.Abs(pn - float64(qc[j])/float64(n))
		if d > worst {
			worst = d
		}
		lo = hi
	}
	return worst
}

func drawSeed(t *rapid.T) string {
	b := rapid.SliceOfN(rapid.Byte(), 16, 16).Draw(t, "seed")
	return hex.EncodeToString(b)
}

// drawN draws a number of sides and its class label; minK is the least exponent of the
// power-of-two families (section large leaves n < 64 to the enumerated section). The one size
// the generator can reach that Roll refuses (n = 2^63-1) is counted and replaced.
func drawN(t *rapid.T, s *rt.Section, minK int) (uint64, string) {
	kind := rapid.SampledFrom([]string{"pow2", "pow2+1", "pow2-1", "3pow2", "5pow2", "max", "log", "frac", "frac", "frac", "frac", "top", "top", "top"}).Draw(t, "kind")
	var n uint64
	switch kind {
	case "pow2":
		n = 1 << uint(rapid.IntRange(minK, 62).Draw(t, "k"))
	case "pow2+1":
		n = 1<<uint(rapid.IntRange(minK+1, 62).Draw(t, "k")) + 1
	case "pow2-1":
		n = 1<<uint(rapid.IntRange(minK+2, 63).Draw(t, "k")) - 1
	case "3pow2":
		n = 3 << uint(rapid.IntRange(minK, 61).Draw(t, "k"))
	case "5pow2":
		n = 5 << uint(rapid.IntRange(minK, 60).Draw(t, "k"))
	case "frac":
		// n = floor(2^64*d/m) with 2 < m/d <= 64: 2^64/n is close to m/d, so a fraction
		// (m mod d)/d of a whole extra pre-image falls on the low residues without rejection
		d := uint64(rapid.SampledFrom([]int{2, 3, 4, 5, 7, 8}).Draw(t, "den"))
		m := uint64(rapid.IntRange(int(2*d+1), int(16*d)).Draw(t, "num"))
		if m%d == 0 {
			m++ // an integer ratio leaves (almost) no fraction
		}
		n, _ = bits.Div64(d, 0, m)
	case "max":
		n = maxN - uint64(rapid.IntRange(0, 3).Draw(t, "below"))
	case "log":
		e := uint(rapid.IntRange(minK, 62).Draw(t, "e"))
		n = 1<<e + rapid.Uint64Range(0, 1<<e-1).Draw(t, "m")
	case "top":
		n = rapid.Uint64Range(1<<60, maxN).Draw(t, "n")
	}
	if n > maxN {
		// 2^63-1: Roll returns 0 by an explicit guard; outside the supported sizes, not judged
		s.Discard("n=2^63-1 (guarded as unsupported by Roll), replaced by 2^63-2")
		n = maxN
	}
	if n < 1 {
		n = 1
	}
	return n, kind
}

func sizeClass(n uint64) string {
	switch {
	case n <= 64:
		return "n<=64"
	case n <= faceLimit:
		return "n<=1024"
	case n <= 1<<32:
		return "n<=2^32"
	case n < 1<<58:
		return "n<2^58"
	}
	return "n>=2^58"
}

func classify(s *rt.Section, c StatCase) {
	s.Class("kind:" + c.Class)
	s.Class(sizeClass(c.N))
	if isPow2(c.N) {
		s.Class("power-of-two")
	}
	if c.N > faceLimit {
		// could this case see a dropped rejection loop? (shift of a cell above its tolerance)
		if sh := naiveShift(c.N); sh*float64(c.Draws) > tolerance(float64(c.Draws), 1.0/16, 16) {
			s.Class("rejection-visible")
		}
	}
}

func statKey(c StatCase) string {
	return fmt.Sprintf("%s|%d|%s|%d|%d", c.Via, c.N, c.Seed, c.Draws, c.Times)
}

// derived seed for the enumerated section: a pure function of VERIF_SEED, n and the repetition
func derivedSeed(envSeed uint64, n uint64, k int) string {
	a := rt.Mix(envSeed ^ rt.Hash("C05/small", fmt.Sprint(n), fmt.Sprint(k)))
	b := rt.Mix(a)
	var buf [16]byte
	for i := 0; i < 8; i++ {
		buf[i] = byte(a >> (8 * i))
		buf[8+i] = byte(b >> (8 * i))
	}
	return hex.EncodeToString(buf[:])
}

// ---------------------------------------------------------------------------

func TestProp(t *testing.T) {
	run := rt.Begin(t, "C05")
	defer run.Finish()
	thorough := run.Env.Thorough()
	scale := run.Env.Scale

	// ---- small: every n, faces exactly
	topN, reps, draws := 64, 4, 1_000_000
	if thorough {
		topN, reps, draws = 256, 4, 10_000_000
	}
	if scale < 1 {
		draws = int(float64(draws) * scale)
		if draws < 20000 {
			draws = 20000
		}
	}
	run.Enum("small", fmt.Sprintf("every n in 1..%d enumerated (not sampled), %d generator states each derived from VERIF_SEED, %d draws of Roll(src,n,0) per state: every draw in 1..n, every face occurs, every face count within the Bernstein bound of N/n, for n<=8 the n*n (die i, die i+L) pairs for L=1..4 (disjoint pairs) within the bound of N/n^2, above 8 the same over 4 quantile classes; non-trivial = n not a power of two; distinct by (n, state)", topN, reps, draws),
		func(s *rt.Section) {
			s.Bounds = fmt.Sprintf("n in 1..%d all enumerated; generator states and draws are samples", topN)
			for n := 1; n <= topN; n++ {
				if n%run.Env.NShards != run.Env.Shard {
					continue
				}
				for k := 0; k < reps; k++ {
					c := StatCase{N: uint64(n), Seed: derivedSeed(run.Env.Seed, uint64(n), k), Draws: draws, Class: "enumerated"}
					s.Eval()
					s.ClassN("draws", int64(c.Draws))
					s.Class(sizeClass(c.N))
					if nonTrivialN(c.N) {
						s.NonTrivial(rt.Hash(statKey(c)))
					}
					s.Sample(rt.Hash(statKey(c)), c)
					s.Crumb(c)
					if s.Report(nil, checkStat(c, s)) {
						return
					}
				}
			}
		})

	// ---- large: drawn sizes, quantile cells
	ldraws := 1_000_000
	if thorough {
		ldraws = 10_000_000
	}
	run.Check("large", 3200, 3000,
		fmt.Sprintf("n >= 64 drawn from: 2^k, 2^k+-1, 3*2^k, 5*2^k, floor(2^64*d/m) (sizes where plain v mod n is most biased), 2^63-2-(0..3), log-uniform, uniform in [2^60,2^63-2]; 16 random state bytes; %d draws of Roll(src,n,0): every draw in 1..n; n<=1024 per-face counts, above 16 equal-width quantile cells (128-bit arithmetic, exact cell probabilities) and 16 low-residue cells, plus (die i, die i+L) pairs L=1..4 over 4 quantile classes, all within the Bernstein bound at error probability 1e-13 per statistic; non-trivial = n not a power of two or n > 2^32; distinct by (n, state)", ldraws),
		func(t *rapid.T, s *rt.Section) {
			n, kind := drawN(t, s, 6)
			c := StatCase{N: n, Seed: drawSeed(t), Draws: ldraws, Class: kind}
			s.Eval()
			s.ClassN("draws", int64(c.Draws))
			classify(s, c)
			h := rt.Hash(statKey(c))
			if nonTrivialN(c.N) {
				s.NonTrivial(h)
			}
			s.Sample(h, c)
			s.Crumb(c)
			s.Report(t, checkStat(c, s))
		})

	// ---- vm: the same through the script syntax
	vdraws := 100_000
	if thorough {
		vdraws = 400_000
	}
	// a vm case costs 0.1-1 s and rapid checks its shrink deadline only between blocks, so
	// minimisation is switched off here (the case is three scalars already)
	noShrink := os.Getenv("VERIF_SHRINKTIME") == ""
	if noShrink {
		os.Setenv("VERIF_SHRINKTIME", "0s")
	}
	run.Check("vm", 96, 256,
		fmt.Sprintf("script \"<lead><K>d<n>\" (K in {20,100,500}; lead = nothing or other dice terms with min/max clamps and keeps in the same evaluation, as statements or summands; in 2 of 5 cases each measured die is instead rolled inside a function body or a computed value, \"[mf(), mf(), ...]\" with K <= 200 calls, and read from the result) run repeatedly (at most 1000 Runs) on one Context seeded with 16 random bytes until %d dice were printed in the dice span of the process text; n drawn as in section large; the printed dice are judged like direct draws (range, faces / quantile and residue cells, successive pairs), and the package-global generator must be untouched; non-trivial = n not a power of two or n > 2^32; distinct by (n, K, state)", vdraws),
		func(t *rapid.T, s *rt.Section) {
			n, kind := drawN(t, s, 0)
			c := StatCase{N: n, Seed: drawSeed(t), Draws: vdraws, Via: "vm", Times: rapid.SampledFrom([]int{20, 100, 500}).Draw(t, "times"), Class: kind,
				Lead: rapid.SampledFrom(vmLeads).Draw(t, "lead"), Body: rapid.SampledFrom([]string{"", "", "", "func", "computed"}).Draw(t, "body")}
			if c.Body != "" && c.Times > 200 {
				c.Times = 200
			}
			if c.Draws > c.Times*1000 {
				c.Draws = c.Times * 1000 // at most 1000 Runs per case
			}
			s.Eval()
			s.ClassN("draws", int64(c.Draws))
			classify(s, c)
			s.Class(fmt.Sprintf("times:%d", c.Times))
			s.Class("body:" + c.Body)
			h := rt.Hash(statKey(c) + c.Body)
			if nonTrivialN(c.N) {
				s.NonTrivial(h)
			}
			s.Sample(h, c)
			s.Crumb(c)
			s.Report(t, checkStat(c, s))
		})

	if noShrink {
		os.Unsetenv("VERIF_SHRINKTIME")
	}

	// ---- the fallback generator under concurrent use
	run.Enum("fallback", "8 goroutines draw Roll(nil, 2^62, 0) 150000 times each at the same time (the package-level generator that unseeded contexts share): every draw in range and at most one value drawn twice among the 1.2 million (independent 62-bit draws show one repeat with probability 2e-7, two with 2e-14; a generator stepped without mutual exclusion repeats thousands of times); non-trivial = the run itself; then 64 unseeded VMs created back to back each roll 4d1000000007: 64 different results; one shard runs it", func(s *rt.Section) {
		if run.Env.Shard != 0 {
			return
		}
		s.Eval()
		s.NonTrivial(rt.Hash("fallback"))
		s.Report(nil, checkFallback(FallbackCase{Goroutines: 8, Draws: 150000}, s))
	})

	// ---- source discipline
	run.Check("source", 40000, 400000,
		"n drawn as in section large, 16 random state bytes, k in 1..64 dice: Roll with an explicit source leaves the package-global generator (seen through (&Context{}).GetCurSeed()) unchanged; two sources in the same state, the generator of Context{Seed}.Init(), and a state saved after k dice and restored all give identical dice; Roll(nil,n,0) is in 1..n and touches no explicit source; non-trivial = (n not a power of two or n > 2^32) and k >= 2; distinct by (n, state, k)",
		func(t *rapid.T, s *rt.Section) {
			n, kind := drawN(t, s, 0)
			c := SourceCase{N: n, Seed: drawSeed(t), K: rapid.IntRange(1, 64).Draw(t, "k")}
			s.Eval()
			s.Class("kind:" + kind)
			s.Class(sizeClass(n))
			key := fmt.Sprintf("%d|%s|%d", c.N, c.Seed, c.K)
			h := rt.Hash(key)
			if nonTrivialN(n) && c.K >= 2 {
				s.NonTrivial(h)
			}
			s.Sample(h, c)
			s.Crumb(c)
			s.Report(t, checkSource(c, s))
		})

	run.Note("_roll32 is unreachable on this 64-bit build (IntTypeSize == 8) and is not exercised")
	run.Note("n = 2^63-1 is refused by Roll (returns 0 by an explicit guard) and is treated as outside the supported sizes; the largest size judged is 2^63-2")
}

// TestCells cross-checks the boundary search against the 128-bit division it replaces.
func TestCells(t *testing.T) {
	ns := []uint64{9, 16, 17, 63, 1000, 1025, 1<<32 + 1, 7378697629483820646, 3 << 61, maxN, maxN - 1, 1 << 62, 1<<62 + 1}
	x := uint64(12345)
	for _, n := range ns {
		a := newAcc(n)
		for i := 0; i < 200000; i++ {
			x = rt.Mix(x)
			y := x % n
			switch i {
			case 0:
				y = 0
			case 1:
				y = n - 1
			}
			if i >= 2 && i < 36 && n >= 16 { // both sides of every boundary
				y = a.thr16[(i-2)/2%16+1] - uint64(i%2)
				if y >= n {
					y = n - 1
				}
			}
			if n >= 16 && a.q16(y) != quantCell(y, n, 16) {
				t.Fatalf("q16(%d) n=%d: %d vs %d", y, n, a.q16(y), quantCell(y, n, 16))
			}
			if a.q4(y) != quantCell(y, n, 4) {
				t.Fatalf("q4(%d) n=%d: %d vs %d", y, n, a.q4(y), quantCell(y, n, 4))
			}
		}
		var sum uint64
		for _, c := range quantCounts(n, 16) {
			sum += c
		}
		if sum != n {
			t.Fatalf("quantCounts(%d,16) sums to %d", n, sum)
		}
	}
}

func TestReplay(t *testing.T) {
	stat := func(b []byte, s *rt.Section) *rt.Failure {
		var c StatCase
		if err := json.Unmarshal(b, &c); err != nil {
			return s.NewFailure("replay", "replay:bad-case", nil, err.Error(), "")
		}
		return checkStat(c, s)
	}
	rt.Replay(t, "C05", map[string]rt.ReplayFunc{
		"small": stat, "large": stat, "vm": stat,
		"source": func(b []byte, s *rt.Section) *rt.Failure {
			var c SourceCase
			if err := json.Unmarshal(b, &c); err != nil {
				return s.NewFailure("replay", "replay:bad-case", nil, err.Error(), "")
			}
			return checkSource(c, s)
		},
		"fallback": func(b []byte, s *rt.Section) *rt.Failure {
			var c FallbackCase
			if err := json.Unmarshal(b, &c); err != nil {
				return s.NewFailure("replay", "replay:bad-case", nil, err.Error(), "")
			}
			for i := 0; i < 5; i++ { // schedule dependent
				if f := checkFallback(c, s); f != nil {
					return f
				}
			}
			return nil
		},
	})
}
