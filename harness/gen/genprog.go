package gen

import (
	"fmt"
	"strconv"

	"pgregory.net/rapid"
)

// Static types the generator tracks (best effort; the oracle never relies on them).
type T int

const (
	TAny T = iota
	TInt
	TFlt
	TStr
	TArrI // array of ints, length known
	TArr  // array of anything
	TDict
	TFunc
	TComp
	TNull
)

type VarInfo struct {
	Name  string
	T     T
	Len   int      // arrays/strings: known length, -1 unknown
	Arity int      // functions
	Ret   T        // functions / computed: value type
	Keys  []string // dicts: known keys (values are ints)
}

// Env is the generator's view of the variables a program can see.
type Env struct {
	Vars  []*VarInfo
	Boxes []Box // Extra: containers known to hold a function
}

func (e *Env) Clone() *Env {
	c := &Env{Boxes: append([]Box(nil), e.Boxes...)}
	for _, v := range e.Vars {
		w := *v
		w.Keys = append([]string(nil), v.Keys...)
		c.Vars = append(c.Vars, &w)
	}
	return c
}

func (e *Env) Get(name string) *VarInfo {
	for _, v := range e.Vars {
		if v.Name == name {
			return v
		}
	}
	return nil
}

func (e *Env) Put(v *VarInfo) {
	for i, w := range e.Vars {
		if w.Name == v.Name {
			e.Vars[i] = v
			return
		}
	}
	e.Vars = append(e.Vars, v)
}

func (e *Env) OfType(ts ...T) []*VarInfo {
	var out []*VarInfo
	for _, v := range e.Vars {
		for _, t := range ts {
			if v.T == t {
				out = append(out, v)
			}
		}
	}
	return out
}

// Opts selects the language subset and the style of programs.
type Opts struct {
	MaxStmts   int
	MaxDepth   int
	Stmts      bool // if / while / func / return
	Computed   bool // &name = expr, &name.attr
	Templates  bool
	Dice       bool // XdY family terms
	CoC        bool
	WoD        bool
	Fate       bool
	DC         bool
	Bitwise    bool
	Floats     bool
	Hostile    float64 // probability that an operand ignores the wanted type
	SideFx     bool    // container mutation, assignment expressions
	ThisAssign bool    // this.x = v
	BreakInIf  bool    // break/continue inside if inside a loop
	IdxCompare bool    // x[i] == y style (index directly followed by '=')
	FullWidth  bool    // ＋－＊／
	NullVars   bool    // reads of undefined variables
	// AssignExprAll also uses item / attribute / slice assignments as operands (their value is the assigned value)
	AssignExprAll bool
	// SingleKeyDicts keeps every dict at one key at most, so that nothing a program can
	// observe depends on Go map iteration order (toStr/repr/templates/keys() of a dict).
	SingleKeyDicts bool
	StrIndexOOB    bool // string literal indexed outside its length ('abc'[5], ''[0])
	IndexThenSlice bool // X[i][a:b]: a slice suffix directly after an index (C02-F04)
	Extra          bool // C02: this./&raw reads, load/loadRaw/store, dict methods, functions in containers, nested aliases (extra.go)
	// NoAlias (C09) keeps a container reachable from one place only: no `y = x` for an array/dict variable x and no
	// container variable as an element of a literal that is stored.  Off (default): nothing changes.
	NoAlias bool
	// C06 (random.go); all default to off, which leaves every existing draw sequence unchanged.
	DiceBoost    float64 // probability that an int expression node is a randomness term (dice / random array method)
	RandMethods  bool    // shuffle / rand / randSize (only where the oracle is seed replay)
	DefaultSides bool    // dice without a sides operand (Xd, d, d优势): sides come from Config.DefaultDiceSideExpr
	Avoid        func(string) bool
}

func DefaultOpts() Opts {
	return Opts{MaxStmts: 8, MaxDepth: 4, Stmts: true, Computed: true, Templates: true, Bitwise: true, Floats: true,
		SideFx: true, ThisAssign: true, BreakInIf: true, IdxCompare: true, FullWidth: true, NullVars: true, StrIndexOOB: true, IndexThenSlice: true}
}

// G is one generation context.
type G struct {
	T         *rapid.T
	O         Opts
	Env       *Env
	loopDepth int
	inFunc    bool
	reserved  map[string]bool // loop counters, params being iterated
	nameSeq   int
	funcs     int
	inStore   int // >0 while generating a value that will be stored (NoAlias)
}

func NewG(t *rapid.T, o Opts, env *Env) *G {
	if env == nil {
		env = &Env{}
	}
	return &G{T: t, O: o, Env: env, reserved: map[string]bool{}}
}

func (g *G) intn(n int, label string) int {
	if n <= 1 {
		return 0
	}
	return rapid.IntRange(0, n-1).Draw(g.T, label)
}

func (g *G) chance(p float64, label string) bool {
	if p <= 0 {
		return false
	}
	return rapid.Float64Range(0, 1).Draw(g.T, label) < p
}

func (g *G) avoid(name string) bool {
	return g.O.Avoid != nil && g.O.Avoid(name)
}

var namePrefixes = []string{"g", "h", "i", "j", "r", "s", "u", "v", "w", "x", "y", "z", "_", "$", "力量", "敏捷", "hp", "幸运"}

// FreshName returns an identifier without a second meaning in the grammar.
func (g *G) FreshName() string {
	p := namePrefixes[g.intn(len(namePrefixes), "namePrefix")]
	g.nameSeq++
	if g.nameSeq <= 3 && len(p) == 1 && p != "_" && p != "$" && g.intn(2, "shortName") == 0 {
		if g.Env.Get(p) == nil && !g.reserved[p] {
			return p
		}
	}
	for {
		n := p + strconv.Itoa(g.nameSeq)
		if g.Env.Get(n) == nil && !g.reserved[n] {
			return n
		}
		g.nameSeq++
	}
}

func (g *G) smallInt(label string) int64 {
	switch g.intn(12, label+"Kind") {
	case 0:
		return 0
	case 1:
		return 1
	case 2, 3, 4, 5, 6:
		return int64(g.intn(11, label))
	case 7, 8:
		return int64(g.intn(1000, label))
	case 9:
		return int64(g.intn(1000000, label))
	case 10:
		return int64(1)<<31 - 2 + int64(g.intn(5, label))
	default:
		return int64(1)<<62 - 2 + int64(g.intn(4, label))
	}
}

var strAlphabet = []string{"a", "b", "x", "y", "z", "0", "1", " ", "力", "量", "_", "A", "-", "é", "🎲"}
var strSpecials = []string{"'", "\"", "{", "}", "\\", "\n", "%", ":", ",", "`"}

func (g *G) strText(label string) string {
	n := g.intn(6, label+"Len")
	s := ""
	for i := 0; i < n; i++ {
		if g.intn(12, label+"Sp") == 0 {
			s += strSpecials[g.intn(len(strSpecials), label+"SpCh")]
		} else {
			s += strAlphabet[g.intn(len(strAlphabet), label+"Ch")]
		}
	}
	return s
}

func (g *G) fltText(label string) string {
	whole := g.intn(20, label+"W")
	frac := []string{"0", "5", "25", "75", "125", "1", "3", "001"}[g.intn(8, label+"F")]
	if whole == 0 && g.intn(2, label+"Dot") == 0 {
		return "." + frac
	}
	return strconv.Itoa(whole) + "." + frac
}

// ---------------------------------------------------------------------------
// expressions

func (g *G) pickWant() T {
	return []T{TInt, TInt, TInt, TFlt, TStr, TArrI, TArr, TDict, TNull}[g.intn(9, "hostileType")]
}

// Expr generates an expression meant to have type want (TAny: anything).
func (g *G) Expr(want T, d int) *Node {
	if g.O.Hostile > 0 && g.chance(g.O.Hostile, "hostile") {
		want = g.pickWant()
	}
	if want == TAny {
		want = []T{TInt, TInt, TInt, TStr, TFlt, TArrI, TDict, TNull}[g.intn(8, "anyType")]
	}
	if !g.O.Floats && want == TFlt {
		want = TInt
	}
	switch want {
	case TInt:
		if g.O.Extra && d > 0 && g.intn(7, "extraInt") == 0 {
			if n := g.extraInt(d); n != nil {
				return n
			}
		}
		return g.intExpr(d)
	case TFlt:
		return g.fltExpr(d)
	case TStr:
		return g.strExpr(d)
	case TArrI:
		return g.arrIExpr(d)
	case TArr:
		return g.arrExpr(d)
	case TDict:
		return g.dictExpr(d)
	case TNull:
		if g.O.NullVars && g.intn(2, "nullKind") == 0 {
			return Var("无" + strconv.Itoa(g.intn(3, "undefName")))
		}
		return N("null")
	}
	return g.intExpr(d)
}

func (g *G) numExpr(d int) *Node {
	if g.O.Floats && g.intn(4, "numIsFlt") == 0 {
		return g.fltExpr(d)
	}
	return g.intExpr(d)
}

func (g *G) binOp(op string, l, r *Node) *Node {
	n := Bin(op, l, r)
	if g.O.FullWidth && (op == "+" || op == "-" || op == "*" || op == "/") && g.intn(10, "fullWidth") == 0 {
		if l.K == "neg" || Level(l) < lvPrimary || !g.avoid("fullwidth_after_paren") {
			n.Q = 1
		}
	}
	return n
}

func (g *G) intLeaf() *Node {
	vars := g.Env.OfType(TInt)
	if len(vars) > 0 && g.intn(3, "intLeafVar") != 0 {
		return Var(vars[g.intn(len(vars), "intVar")].Name)
	}
	switch g.intn(10, "intLeafKind") {
	case 0:
		return N("true")
	case 1:
		return N("false")
	}
	n := Int(g.smallInt("intLit"))
	if n.I >= 0 && g.intn(16, "leadingZeros") == 0 {
		n.Q = 1 + g.intn(2, "nZeros") // 007, 010, 08: decimal whatever the zeros in front
	}
	return n
}

func (g *G) intExpr(d int) *Node {
	if g.O.DiceBoost > 0 && g.chance(g.O.DiceBoost, "diceBoost") {
		return g.RandTerm(d - 1)
	}
	if d <= 0 {
		return g.intLeaf()
	}
	switch g.intn(24, "intKind") {
	case 0, 1, 2:
		return g.intLeaf()
	case 3, 4, 5:
		op := []string{"+", "-", "*"}[g.intn(3, "arith")]
		return g.binOp(op, g.intExpr(d-1), g.intExpr(d-1))
	case 6:
		op := []string{"/", "%"}[g.intn(2, "divmod")]
		var r *Node
		if g.intn(6, "divZero") == 0 {
			r = g.intExpr(d - 1)
		} else {
			r = Int(int64(1 + g.intn(9, "divisor")))
		}
		return g.binOp(op, g.intExpr(d-1), r)
	case 7:
		op := []string{"**", "^"}[g.intn(2, "powOp")]
		return Bin(op, Int(int64(g.intn(6, "powBase"))), Int(int64(g.intn(4, "powExp"))))
	case 8:
		return N("neg", g.intExpr(d-1))
	case 9:
		if g.intn(3, "posRare") == 0 {
			return N("pos", g.intExpr(d-1))
		}
		return N("neg", g.intLeaf())
	case 10, 11:
		op := []string{"<", "<=", "==", "!=", ">=", ">"}[g.intn(6, "cmp")]
		return Bin(op, g.numExpr(d-1), g.numExpr(d-1))
	case 12:
		op := []string{"==", "!="}[g.intn(2, "eqOp")]
		t := []T{TStr, TArrI, TDict, TAny, TNull}[g.intn(5, "eqType")]
		l, r := g.Expr(t, d-1), g.Expr(t, d-1)
		if !g.O.IdxCompare || g.avoid("idx_then_eq") {
			if l.K == "idx" {
				l = g.intLeaf()
			}
		}
		return Bin(op, l, r)
	case 13:
		op := []string{"||", "&&"}[g.intn(2, "logic")]
		return Bin(op, g.intExpr(d-1), g.intExpr(d-1))
	case 14:
		if g.O.Bitwise {
			op := []string{"|", "&"}[g.intn(2, "bitop")]
			return Bin(op, g.intExpr(d-1), g.intExpr(d-1))
		}
		return g.intLeaf()
	case 15:
		return N("tern", g.intExpr(d-1), g.intExpr(d-1), g.intExpr(d-1))
	case 16:
		return Bin("??", g.Expr(TNull, 0), g.intExpr(d-1))
	case 17:
		// index into an int array
		vars := g.Env.OfType(TArrI)
		if len(vars) > 0 {
			v := vars[g.intn(len(vars), "arrVar")]
			return N("idx", Var(v.Name), g.indexFor(v.Len))
		}
		arr := g.arrILit(1 + g.intn(4, "arrLitLen"))
		return N("idx", arr, g.indexFor(len(arr.Kids)))
	case 18:
		// built-ins returning int
		switch g.intn(6, "builtinInt") {
		case 0:
			return Call(Var("abs"), g.intExpr(d-1))
		case 1:
			return Call(Var([]string{"floor", "ceil", "round"}[g.intn(3, "rounder")]), g.numExpr(d-1))
		case 2:
			return Call(Var("toInt"), g.numExpr(d-1))
		case 3:
			return Call(Var("toInt"), Str(strconv.Itoa(g.intn(500, "digits")), g.intn(2, "q")))
		case 4:
			return Call(Var("typeId"), g.Expr(TAny, d-1))
		default:
			return Call(Var("toBool"), g.Expr(TAny, d-1))
		}
	case 19:
		// methods returning int
		switch g.intn(4, "methodInt") {
		case 0:
			return MCall(g.arrIExpr(d-1), "len")
		case 1:
			return MCall(g.arrIExpr(d-1), "sum")
		case 2:
			a := g.arrIExpr(d - 1)
			m := []string{"kh", "kl"}[g.intn(2, "khkl")]
			if g.intn(2, "khArg") == 0 {
				return MCall(a, m)
			}
			return MCall(a, m, g.hostile(Int(int64(1+g.intn(3, "khN")))))
		default:
			return MCall(g.dictExpr(d-1), "len")
		}
	case 20:
		// user function
		fs := g.Env.OfType(TFunc)
		var cands []*VarInfo
		for _, f := range fs {
			if f.Ret == TInt {
				cands = append(cands, f)
			}
		}
		if len(cands) > 0 {
			f := cands[g.intn(len(cands), "fn")]
			args := []*Node{}
			n := f.Arity
			if g.intn(12, "arityWrong") == 0 {
				n += 1 - 2*g.intn(2, "arityDir")
				if n < 0 {
					n = 0
				}
			}
			for i := 0; i < n; i++ {
				args = append(args, g.smallArg(d-1))
			}
			return Call(Var(f.Name), args...)
		}
		return g.intLeaf()
	case 21:
		if g.O.Dice {
			return g.Dice(d - 1)
		}
		return g.intLeaf()
	case 22:
		// computed int / dict attribute
		cs := g.Env.OfType(TComp)
		if len(cs) > 0 && g.intn(2, "useComp") == 0 {
			return Var(cs[g.intn(len(cs), "comp")].Name)
		}
		ds := g.Env.OfType(TDict)
		for _, v := range ds {
			if len(v.Keys) > 0 {
				k := v.Keys[g.intn(len(v.Keys), "dkey")]
				if g.intn(2, "attrOrIdx") == 0 && isPlainIdent(k) {
					return NS("attr", k, Var(v.Name))
				}
				return N("idx", Var(v.Name), Str(k, g.intn(2, "q")))
			}
		}
		return g.intLeaf()
	default:
		if g.O.SideFx && g.intn(3, "assignExpr") == 0 {
			if g.O.AssignExprAll {
				switch g.intn(4, "assignExprKind") {
				case 0:
					if arrs := g.Env.OfType(TArrI); len(arrs) > 0 {
						v := arrs[g.intn(len(arrs), "aeArr")]
						return N("setidx", Var(v.Name), g.indexFor(v.Len), g.intExpr(d-1))
					}
				case 1:
					if ds := g.Env.OfType(TDict); len(ds) > 0 {
						v := ds[g.intn(len(ds), "aeDict")]
						return &Node{K: "setattr", S: v.Name, Names: []string{"x"}, Kids: []*Node{g.intExpr(d - 1)}}
					}
				case 2:
					if arrs := g.Env.OfType(TArrI); len(arrs) > 0 {
						v := arrs[g.intn(len(arrs), "aeArr")]
						a, b := g.sliceBounds(3)
						v.Len = -1
						return N("idx", N("setslice", Var(v.Name), a, b, g.arrILit(1+g.intn(2, "aeLen"))), Int(0))
					}
				}
			}
			name := g.assignableInt()
			if name != "" {
				return Set(name, g.intExpr(d-1))
			}
		}
		// kl/kh suffix on array literal
		if g.intn(2, "arrSuffix") == 0 {
			return g.intLeaf()
		}
		return N("chain", g.intExpr(d-1), g.intExpr(d-1), g.intExpr(d-1), g.intExpr(d-1))
	}
}

func isPlainIdent(k string) bool {
	if k == "" {
		return false
	}
	for i, c := range k {
		if !(c == '_' || (c >= 'g' && c <= 'j') || (c >= 'r' && c <= 'z' && c != 't') || (i > 0 && c >= '0' && c <= '9')) {
			return false
		}
	}
	return true
}

func (g *G) smallArg(d int) *Node {
	if g.intn(3, "argKind") == 0 {
		return g.intExpr(d)
	}
	return Int(int64(g.intn(6, "argLit")))
}

// assignableInt names an int variable that may be overwritten here.
func (g *G) assignableInt() string {
	var c []string
	for _, v := range g.Env.OfType(TInt) {
		if !g.reserved[v.Name] {
			c = append(c, v.Name)
		}
	}
	if len(c) == 0 {
		return ""
	}
	return c[g.intn(len(c), "assignVar")]
}

// hostile replaces a well-typed operand by an expression of a random type with probability O.Hostile.
func (g *G) hostile(n *Node) *Node {
	if g.O.Hostile > 0 && g.chance(g.O.Hostile, "hostileOperand") {
		return g.Expr(g.pickWant(), 1)
	}
	return n
}

func (g *G) indexFor(length int) *Node {
	return g.hostile(g.indexFor0(length))
}

func (g *G) indexFor0(length int) *Node {
	if length <= 0 {
		return Int(int64(g.intn(3, "idxBlind")))
	}
	switch g.intn(10, "idxKind") {
	case 0:
		return Int(int64(length + g.intn(2, "idxOver"))) // out of range on purpose
	case 1, 2:
		return Int(-int64(1 + g.intn(length, "idxNeg")))
	case 3:
		return Int(-int64(length + 1 + g.intn(2, "idxNegOver")))
	}
	return Int(int64(g.intn(length, "idx")))
}

func (g *G) fltExpr(d int) *Node {
	if d <= 0 || g.intn(3, "fltLeaf") == 0 {
		vars := g.Env.OfType(TFlt)
		if len(vars) > 0 && g.intn(2, "fltVar") == 0 {
			return Var(vars[g.intn(len(vars), "fltVarPick")].Name)
		}
		return Flt(g.fltText("flt"))
	}
	switch g.intn(6, "fltKind") {
	case 0, 1:
		op := []string{"+", "-", "*", "/"}[g.intn(4, "fltOp")]
		if g.intn(2, "fltLeft") == 0 {
			return g.binOp(op, g.fltExpr(d-1), g.numExpr(d-1))
		}
		return g.binOp(op, g.intExpr(d-1), g.fltExpr(d-1))
	case 2:
		return Call(Var("toFloat"), g.intExpr(d-1))
	case 3:
		return N("neg", g.fltExpr(d-1))
	case 4:
		return N("tern", g.intExpr(d-1), g.fltExpr(d-1), g.fltExpr(d-1))
	}
	return Flt(g.fltText("flt"))
}

func (g *G) strLit() *Node {
	return Str(g.strText("str"), g.intn(4, "strQ"))
}

func (g *G) strExpr(d int) *Node {
	if g.O.Extra && g.O.Templates && d > 0 && g.intn(4, "extraTmpl") == 0 {
		return g.extraTmpl(d - 1)
	}
	if d <= 0 {
		vars := g.Env.OfType(TStr)
		if len(vars) > 0 && g.intn(2, "strVar") == 0 {
			return Var(vars[g.intn(len(vars), "strVarPick")].Name)
		}
		return g.strLit()
	}
	switch g.intn(10, "strKind") {
	case 0, 1:
		return g.strLit()
	case 2, 3:
		return Bin("+", g.strExpr(d-1), g.strExpr(d-1))
	case 4:
		return Call(Var("toStr"), g.Expr(TAny, d-1))
	case 5:
		return Call(Var("repr"), g.Expr([]T{TInt, TStr, TArrI, TFlt}[g.intn(4, "reprT")], d-1))
	case 6:
		if g.O.Templates {
			return g.Tmpl(d - 1)
		}
		return g.strLit()
	case 7:
		s := g.strLit()
		n := len([]rune(s.S))
		if !g.O.StrIndexOOB || g.avoid("str_index_oob") {
			// in-range index only (C02-F02: an index outside a string is clamped instead of rejected)
			if n == 0 {
				s = Str("ab力", s.Q)
				n = 3
			}
			i := int64(g.intn(n, "strIdx"))
			if g.intn(3, "strIdxNeg") == 0 {
				i -= int64(n)
			}
			return N("idx", s, Int(i))
		}
		return N("idx", s, g.indexFor(n))
	case 8:
		s := g.strExpr(d - 1)
		a, b := g.sliceBounds(5)
		return N("slice", g.sliceObj(s, TStr), a, b)
	default:
		return N("tern", g.intExpr(d-1), g.strExpr(d-1), g.strExpr(d-1))
	}
}

// EndsInParenDice reports whether the printed form of n ends with a dice term whose last operand
// is parenthesised (`2d(7)`): the only token sequence whose detail span includes trailing blanks.
func EndsInParenDice(n *Node) bool {
	for n != nil {
		switch n.K {
		case "dice":
			for i := len(n.Kids) - 1; i >= 0; i-- {
				if !n.Kids[i].IsNone() {
					return n.Kids[i].K != "int"
				}
			}
			return false
		case "bin", "tern", "chain", "neg", "pos":
			if len(n.Kids) == 0 {
				return false
			}
			n = n.Kids[len(n.Kids)-1]
		default:
			return false
		}
	}
	return false
}

// compBody keeps the body of a computed value from ending in such a dice term while C02-F09 is open
// (blanks after it would be trimmed from the stored text but not from the term's detail span).
func (g *G) compBody(e *Node) *Node {
	if g.avoid("computed_dice_tail") && EndsInParenDice(e) {
		return Bin("+", e, Int(0))
	}
	return e
}

// EndsInIndex reports whether the printed form of n ends with an index suffix `…[i]`
// that a following `[a:b]` would touch (rightmost operand chain).
func EndsInIndex(n *Node) bool {
	for n != nil {
		switch n.K {
		case "idx":
			return true
		case "bin", "tern", "chain", "neg", "pos":
			if len(n.Kids) == 0 {
				return false
			}
			n = n.Kids[len(n.Kids)-1]
		default:
			return false
		}
	}
	return false
}

// sliceObj keeps the object of a slice away from the `X[i][a:b]` shape while that is an open finding.
func (g *G) sliceObj(obj *Node, t T) *Node {
	if !EndsInIndex(obj) {
		return obj
	}
	if g.O.IndexThenSlice && !g.avoid("index_then_slice") {
		return obj
	}
	if t == TStr {
		return g.strLit()
	}
	return g.arrILit(g.intn(5, "arrILen"))
}

func (g *G) sliceBounds(length int) (*Node, *Node) {
	var a, b *Node = None(), None()
	lo := g.intn(length+2, "sliceLo") - 1
	hi := lo + g.intn(length+2, "sliceHi")
	switch g.intn(5, "sliceForm") {
	case 0:
		a = Int(int64(lo))
	case 1:
		b = Int(int64(hi))
	case 2:
	default:
		a, b = Int(int64(lo)), Int(int64(hi))
	}
	if !a.IsNone() {
		a = g.hostile(a)
	}
	if !b.IsNone() {
		b = g.hostile(b)
	}
	return a, b
}

// Tmpl generates a template string with 0..3 holes.
func (g *G) Tmpl(d int) *Node {
	q := 2 + g.intn(2, "tmplQ")
	n := &Node{K: "tmpl", Q: q}
	parts := 1 + g.intn(4, "tmplParts")
	lastPart := false
	for i := 0; i < parts; i++ {
		if !lastPart && g.intn(2, "tmplPartKind") == 0 {
			txt := g.strText("tmplText")
			if txt == "" {
				txt = "."
			}
			if q == 2 {
				txt = replaceAll(txt, "`", "'")
			}
			n.Kids = append(n.Kids, &Node{K: "part", S: txt})
			lastPart = true
			continue
		}
		lastPart = false
		h := &Node{K: "hole", Q: g.intn(2, "holeStyle")}
		if g.O.Stmts && g.intn(4, "holeStmts") == 0 {
			// a small statement list whose last statement is a value
			if name := g.assignableInt(); name != "" && g.O.SideFx {
				h.Kids = append(h.Kids, Set(name, g.intExpr(d)))
			}
			h.Kids = append(h.Kids, g.Expr([]T{TInt, TStr, TArrI}[g.intn(3, "holeT")], d))
		} else {
			h.Kids = append(h.Kids, g.Expr([]T{TInt, TStr, TArrI, TFlt, TDict}[g.intn(5, "holeT")], d))
		}
		n.Kids = append(n.Kids, h)
	}
	return n
}

func replaceAll(s, a, b string) string {
	out := ""
	for _, r := range s {
		if string(r) == a {
			out += b
		} else {
			out += string(r)
		}
	}
	return out
}

func (g *G) arrILit(n int) *Node {
	a := N("arr")
	for i := 0; i < n; i++ {
		a.Kids = append(a.Kids, Int(int64(g.intn(10, "arrElem"))))
	}
	return a
}

func (g *G) arrIExpr(d int) *Node {
	if g.O.RandMethods && g.intn(8, "randArr") == 0 {
		return g.randArr(d - 1)
	}
	vars := g.Env.OfType(TArrI)
	if len(vars) > 0 && g.intn(2, "arrIVar") == 0 {
		v := Var(vars[g.intn(len(vars), "arrIVarPick")].Name)
		if g.O.NoAlias && g.inStore > 0 {
			return Bin("+", v, N("arr")) // a copy, not a second reference
		}
		return v
	}
	if d <= 0 {
		return g.arrILit(g.intn(5, "arrILen"))
	}
	switch g.intn(8, "arrIKind") {
	case 0, 1:
		a := N("arr")
		n := g.intn(5, "arrILen")
		for i := 0; i < n; i++ {
			a.Kids = append(a.Kids, g.intExpr(d-1))
		}
		return a
	case 2:
		lo := int64(g.intn(8, "rangeLo"))
		hi := lo + int64(g.intn(8, "rangeSpan")) - 2
		if g.intn(40, "rangeHuge") == 0 {
			hi = lo + 510 + int64(g.intn(4, "rangeEdge"))
		}
		return N("range", g.hostile(Int(lo)), g.hostile(Int(hi)))
	case 3:
		return Bin("+", g.arrIExpr(d-1), g.arrIExpr(d-1))
	case 4:
		if g.intn(2, "repSide") == 0 {
			return Bin("*", g.arrILit(1+g.intn(3, "repLen")), g.hostile(Int(int64(g.intn(4, "rep")))))
		}
		return Bin("*", g.hostile(Int(int64(g.intn(4, "rep")))), g.arrILit(1+g.intn(3, "repLen")))
	case 5:
		a, b := g.sliceBounds(4)
		return N("slice", g.sliceObj(g.arrIExpr(d-1), TArrI), a, b)
	default:
		return g.arrILit(g.intn(5, "arrILen"))
	}
}

func (g *G) arrExpr(d int) *Node {
	a := N("arr")
	n := g.intn(4, "arrLen")
	g.inStore++
	for i := 0; i < n; i++ {
		a.Kids = append(a.Kids, g.Expr(TAny, d-1))
	}
	g.inStore--
	return a
}

var dictKeys = []string{"x", "y", "z", "hp", "w1", "力量", "k y", "0"}

func (g *G) dictExpr(d int) *Node {
	vars := g.Env.OfType(TDict)
	if len(vars) > 0 && g.intn(2, "dictVar") == 0 {
		v := Var(vars[g.intn(len(vars), "dictVarPick")].Name)
		if !(g.O.NoAlias && g.inStore > 0) {
			return v
		}
	}
	n := N("dict")
	cnt := g.intn(4, "dictLen")
	if g.O.SingleKeyDicts && cnt > 1 {
		cnt = 1
	}
	for i := 0; i < cnt; i++ {
		k := dictKeys[g.intn(len(dictKeys), "dictKey")]
		var kn *Node
		switch g.intn(6, "dictKeyForm") {
		case 0:
			if k == "0" {
				kn = Int(0)
			} else {
				kn = Str(k, g.intn(2, "q"))
			}
		case 1:
			kn = Str(k, g.intn(2, "q"))
			if g.O.Extra {
				kn = g.extraDictKey(kn)
			}
		default:
			kn = Str(k, g.intn(2, "q"))
		}
		var v *Node
		if d <= 0 {
			v = g.intLeaf()
		} else {
			v = g.Expr(TInt, d-1)
		}
		n.Kids = append(n.Kids, kn, v)
	}
	if cnt > 0 && g.intn(5, "dictTrailing") == 0 {
		n.Q = 1
	}
	return n
}

// ---------------------------------------------------------------------------
// dice

// Dice generates a dice term allowed by the options.
func (g *G) Dice(d int) *Node {
	kinds := []string{"xdy", "xdy", "xdy"}
	if g.O.Fate {
		kinds = append(kinds, "fate")
	}
	if g.O.CoC {
		kinds = append(kinds, "coc")
	}
	if g.O.WoD {
		kinds = append(kinds, "wod")
	}
	if g.O.DC {
		kinds = append(kinds, "dc")
	}
	switch kinds[g.intn(len(kinds), "diceKind")] {
	case "fate":
		return N("fate")
	case "coc":
		n := &Node{K: "coc", S: []string{"b", "p"}[g.intn(2, "cocBP")], Kids: []*Node{None()}}
		if g.intn(2, "cocHasN") == 0 {
			n.Kids[0] = g.hostile(Int(int64(g.intn(4, "cocN"))))
		}
		return n
	case "wod":
		n := &Node{K: "wod", Kids: []*Node{None(), Int(int64(5 + g.intn(6, "wodAdd")))}}
		if g.intn(4, "wodPool") != 0 {
			n.Kids[0] = Int(int64(1 + g.intn(8, "wodPoolN")))
		}
		for i := g.intn(3, "wodMods"); i > 0; i-- {
			m := []string{"m", "k", "q"}[g.intn(3, "wodMod")]
			n.Kids = append(n.Kids, &Node{K: "dmod", S: m, Kids: []*Node{g.hostile(Int(int64(2 + g.intn(10, "wodModV"))))}})
		}
		if !n.Kids[0].IsNone() {
			n.Kids[0] = g.hostile(n.Kids[0])
		}
		n.Kids[1] = g.hostile(n.Kids[1])
		return n
	case "dc":
		n := &Node{K: "dc", Kids: []*Node{Int(int64(1 + g.intn(6, "dcPool"))), Int(int64(5 + g.intn(6, "dcCrit")))}}
		if g.intn(3, "dcM") == 0 {
			n.Kids = append(n.Kids, &Node{K: "dmod", S: "m", Kids: []*Node{g.hostile(Int(int64(6 + g.intn(8, "dcMV"))))}})
		}
		n.Kids[0], n.Kids[1] = g.hostile(n.Kids[0]), g.hostile(n.Kids[1])
		return n
	}
	n := &Node{K: "dice", Kids: []*Node{None(), None(), None(), None(), None()}}
	if g.intn(3, "diceHasCount") != 0 {
		n.Kids[0] = Int(int64(1 + g.intn(5, "diceCount")))
		if d > 0 && g.intn(8, "diceCountExpr") == 0 {
			n.Kids[0] = g.intExpr(d - 1)
		}
	}
	n.Kids[1] = Int(int64(1 + g.intn(20, "diceSides")))
	if d > 0 && g.intn(8, "diceSidesExpr") == 0 {
		n.Kids[1] = g.intExpr(d - 1)
	}
	if g.intn(2, "diceMod") == 0 {
		n.S = []string{"k", "q", "kh", "kl", "dh", "dl"}[g.intn(6, "diceModKind")]
		if g.intn(3, "diceModArg") != 0 {
			n.Kids[2] = Int(int64(1 + g.intn(3, "diceModN")))
		}
		if n.Kids[0].IsNone() && g.intn(4, "diceAdv") == 0 {
			n.S = []string{"adv", "dis"}[g.intn(2, "advdis")]
			n.Kids[2] = None()
		}
	}
	// the grammar takes at most one of min / max after a dice term
	switch g.intn(8, "diceMinMax") {
	case 0:
		n.Kids[3] = Int(int64(1 + g.intn(4, "diceMinV")))
	case 1:
		n.Kids[4] = Int(int64(4 + g.intn(8, "diceMaxV")))
	}
	if g.intn(6, "diceUpper") == 0 {
		n.Q = 1
	}
	if g.O.DefaultSides && g.intn(4, "diceNoSides") == 0 {
		g.dropSides(n)
	}
	if g.O.Hostile > 0 {
		for i := range n.Kids {
			if !n.Kids[i].IsNone() {
				n.Kids[i] = g.hostile(n.Kids[i])
			}
		}
	}
	return n
}

// ---------------------------------------------------------------------------
// statements

// Program generates a statement list that ends in a value-producing statement.
func (g *G) Program() *Node {
	n := 1 + g.intn(g.O.MaxStmts, "nStmts")
	p := Prog()
	for i := 0; i < n-1; i++ {
		p.Kids = append(p.Kids, g.Stmt(g.O.MaxDepth)...)
	}
	p.Kids = append(p.Kids, g.FinalStmt(g.O.MaxDepth))
	return p
}

// FinalStmt is a value-producing expression or a plain assignment.
func (g *G) FinalStmt(d int) *Node {
	if g.intn(4, "finalAssign") == 0 {
		return g.assignStmt(d)
	}
	want := []T{TInt, TInt, TInt, TStr, TFlt, TArrI, TDict, TAny}[g.intn(8, "finalT")]
	e := g.Expr(want, d)
	if e.K == "null" {
		return e
	}
	return e
}

func (g *G) assignStmt(d int) *Node {
	want := []T{TInt, TInt, TInt, TInt, TStr, TFlt, TArrI, TArrI, TDict, TArr}[g.intn(10, "assignT")]
	var name string
	if g.intn(3, "assignExisting") == 0 && len(g.Env.Vars) > 0 {
		v := g.Env.Vars[g.intn(len(g.Env.Vars), "existingVar")]
		if !g.reserved[v.Name] && v.T != TFunc {
			name = v.Name
		}
	}
	if name == "" {
		name = g.FreshName()
	}
	g.inStore++
	e := g.Expr(want, d)
	g.inStore--
	info := &VarInfo{Name: name, T: want, Len: -1}
	switch want {
	case TArrI:
		info.Len = staticLen(e, g.Env)
	case TDict:
		if e.K == "dict" {
			for i := 0; i+1 < len(e.Kids); i += 2 {
				if e.Kids[i].K == "str" && e.Kids[i+1].K != "var" {
					info.Keys = append(info.Keys, e.Kids[i].S)
				}
			}
		} else if e.K == "var" {
			if src := g.Env.Get(e.S); src != nil {
				info.Keys = append(info.Keys, src.Keys...)
			}
		}
	}
	if g.O.Hostile > 0 {
		info.T = TAny
	}
	g.Env.Put(info)
	return Set(name, e)
}

func staticLen(e *Node, env *Env) int {
	switch e.K {
	case "arr":
		return len(e.Kids)
	case "var":
		if v := env.Get(e.S); v != nil {
			return v.Len
		}
	}
	return -1
}

// Stmt generates one statement (sometimes a short group that belongs together).
func (g *G) Stmt(d int) []*Node {
	kinds := []string{"assign", "assign", "assign", "expr"}
	if g.O.SideFx {
		kinds = append(kinds, "mutate", "mutate")
	}
	if g.O.Stmts {
		kinds = append(kinds, "if", "if", "while", "func")
		if g.inFunc {
			kinds = append(kinds, "ret")
		}
	}
	if g.O.Computed {
		kinds = append(kinds, "computed")
	}
	if g.O.ThisAssign && !g.avoid("this_assign") {
		kinds = append(kinds, "this")
	}
	if g.O.Extra {
		kinds = append(kinds, "extra", "extra", "extra")
	}
	if g.O.RandMethods {
		kinds = append(kinds, "randstmt")
	}
	switch kinds[g.intn(len(kinds), "stmtKind")] {
	case "randstmt":
		return []*Node{g.randStmt(d)}
	case "assign":
		return []*Node{g.assignStmt(d)}
	case "expr":
		return []*Node{g.Expr(TAny, d)}
	case "mutate":
		return []*Node{g.mutateStmt(d)}
	case "if":
		return []*Node{g.ifStmt(d, 2)}
	case "while":
		return g.whileStmt(d)
	case "func":
		return g.funcStmt(d)
	case "ret":
		return []*Node{N("ret", g.intExpr(d-1))}
	case "computed":
		return g.computedStmt(d)
	case "extra":
		return g.extraStmt(d)
	case "this":
		name := g.FreshName()
		e := g.intExpr(d - 1)
		g.Env.Put(&VarInfo{Name: name, T: TInt, Len: -1})
		return []*Node{&Node{K: "setthis", S: name, Kids: []*Node{e}}}
	}
	return []*Node{g.assignStmt(d)}
}

func (g *G) mutateStmt(d int) *Node {
	arrs := g.Env.OfType(TArrI)
	dicts := g.Env.OfType(TDict)
	choice := g.intn(8, "mutKind")
	if len(arrs) == 0 && len(dicts) == 0 {
		return g.assignStmt(d)
	}
	if len(arrs) > 0 && (choice < 5 || len(dicts) == 0) {
		v := arrs[g.intn(len(arrs), "mutArr")]
		switch choice % 5 {
		case 0:
			if v.Len >= 0 {
				v.Len++
			}
			return MCall(Var(v.Name), "push", g.intExpr(d-1))
		case 1:
			if v.Len > 0 {
				v.Len--
			}
			return MCall(Var(v.Name), []string{"pop", "shift"}[g.intn(2, "popShift")])
		case 2:
			return N("setidx", Var(v.Name), g.indexFor(v.Len), g.intExpr(d-1))
		case 3:
			a, b := g.sliceBounds(4)
			v.Len = -1
			return N("setslice", Var(v.Name), a, b, g.arrILit(g.intn(3, "sliceRepl")))
		default:
			// alias: another name for the same array
			name := g.FreshName()
			g.Env.Put(&VarInfo{Name: name, T: TArrI, Len: v.Len})
			if g.O.NoAlias {
				return Set(name, Bin("+", Var(v.Name), N("arr")))
			}
			return Set(name, Var(v.Name))
		}
	}
	v := dicts[g.intn(len(dicts), "mutDict")]
	k := dictKeys[g.intn(len(dictKeys), "mutKey")]
	if g.O.SingleKeyDicts {
		if len(v.Keys) == 0 {
			// the static key list may be incomplete (dict built from an expression): do not add keys
			return g.assignStmt(d)
		}
		k = v.Keys[0]
	}
	has := false
	for _, kk := range v.Keys {
		if kk == k {
			has = true
		}
	}
	if !has {
		v.Keys = append(v.Keys, k)
	}
	if isPlainIdent(k) && g.intn(2, "attrSet") == 0 {
		return &Node{K: "setattr", S: v.Name, Names: []string{k}, Kids: []*Node{g.intExpr(d - 1)}}
	}
	return N("setidx", Var(v.Name), Str(k, g.intn(2, "q")), g.intExpr(d-1))
}

func (g *G) blockOf(d, max int) *Node {
	b := Block()
	n := g.intn(max+1, "blockLen")
	for i := 0; i < n; i++ {
		b.Kids = append(b.Kids, g.Stmt(d-1)...)
	}
	return b
}

func (g *G) ifStmt(d int, elifs int) *Node {
	n := N("if", g.intExpr(d-1), g.blockOf(d, 2), None())
	if g.loopDepth > 0 && g.O.BreakInIf && !g.avoid("break_in_if") && g.intn(3, "brk") == 0 {
		n.Kids[1].Kids = append(n.Kids[1].Kids, N([]string{"break", "continue"}[g.intn(2, "brkKind")]))
	}
	switch g.intn(4, "elseKind") {
	case 0:
		n.Kids[2] = g.blockOf(d, 2)
	case 1:
		if elifs > 0 {
			n.Kids[2] = g.ifStmt(d-1, elifs-1)
		}
	}
	return n
}

// whileStmt emits `i = 0; while i < N { i = i + 1; body }` with a reserved counter.
func (g *G) whileStmt(d int) []*Node {
	if g.loopDepth >= 2 {
		return []*Node{g.assignStmt(d)}
	}
	ctr := g.FreshName()
	g.reserved[ctr] = true
	g.Env.Put(&VarInfo{Name: ctr, T: TInt, Len: -1})
	limit := int64(g.intn(5, "loopN"))
	g.loopDepth++
	body := Block(Set(ctr, Bin("+", Var(ctr), Int(1))))
	n := g.intn(3, "loopBody")
	for i := 0; i < n; i++ {
		body.Kids = append(body.Kids, g.Stmt(d-1)...)
	}
	if g.O.Templates && g.O.BreakInIf && g.intn(6, "loopHoleJump") == 0 {
		// a template assembled in the loop body whose hole takes a break / continue: the round (or the loop) ends with the
		// template half assembled
		h := &Node{K: "hole", Q: g.intn(2, "hjStyle"), Kids: []*Node{N("if", g.intExpr(d-1), Block(N([]string{"break", "continue"}[g.intn(2, "hjKind")])), None())}}
		t := &Node{K: "tmpl", Q: 2 + g.intn(2, "hjQ"), Kids: []*Node{{K: "part", S: "a"}, h, {K: "part", S: "b"}}}
		name := g.FreshName()
		g.Env.Put(&VarInfo{Name: name, T: TAny, Len: -1})
		at := 1 + g.intn(len(body.Kids), "hjAt")
		body.Kids = append(body.Kids[:at:at], append([]*Node{Set(name, t)}, body.Kids[at:]...)...)
	}
	if g.intn(4, "loopBreakTop") == 0 {
		// top-level break/continue in the loop body (not inside an if)
		body.Kids = append(body.Kids, N([]string{"break", "continue"}[g.intn(2, "brkKind")]))
	}
	g.loopDepth--
	delete(g.reserved, ctr)
	g.reserved[ctr] = true // stays reserved for the rest of the program (keeps the bound valid if re-entered)
	// the same bound in several spellings: what the condition begins with (a variable, a literal, a parenthesis, a call)
	// decides what the first instruction of the loop is, where continue re-enters
	cond := Bin("<", Var(ctr), Int(limit))
	switch g.intn(6, "loopCondForm") {
	case 0:
		cond = Bin(">", Int(limit), Var(ctr))
	case 1:
		cond = Bin("&&", Int(1), Bin("<", Var(ctr), Int(limit)))
	case 2:
		cond = Bin("<", Bin("+", Int(0), Var(ctr)), Int(limit))
	}
	return []*Node{Set(ctr, Int(0)), N("while", cond, body)}
}

func (g *G) funcStmt(d int) []*Node {
	if g.inFunc || g.funcs >= 3 {
		return []*Node{g.assignStmt(d)}
	}
	g.funcs++
	name := g.FreshName()
	np := g.intn(3, "nParams")
	var params []string
	saved := g.Env
	saveReserved := g.reserved
	g.reserved = map[string]bool{}
	for k := range saveReserved {
		g.reserved[k] = true
	}
	inner := saved.Clone() // globals stay readable through the caller chain
	g.Env = inner
	for i := 0; i < np; i++ {
		p := g.FreshName()
		params = append(params, p)
		inner.Put(&VarInfo{Name: p, T: TInt, Len: -1})
	}
	g.inFunc = true
	// a function body is compiled on its own: a loop around the definition is not a loop
	// its break/continue could leave (the parser rejects them there)
	saveLoop := g.loopDepth
	g.loopDepth = 0
	body := Block()
	kind := g.intn(4, "funcKind")
	if kind == 0 && np >= 1 {
		// structural recursion on the first parameter
		p := params[0]
		rec := Call(Var(name), append([]*Node{Bin("-", Var(p), Int(1))}, restArgs(params[1:])...)...)
		body.Kids = append(body.Kids,
			N("if", Bin("<=", Var(p), Int(0)), Block(N("ret", g.intLeaf())), None()),
			N("ret", Bin([]string{"+", "*", "-"}[g.intn(3, "recOp")], g.intExpr(1), rec)))
	} else {
		n := g.intn(3, "funcBody")
		for i := 0; i < n; i++ {
			body.Kids = append(body.Kids, g.Stmt(d-1)...)
		}
		if g.intn(2, "funcRet") == 0 {
			body.Kids = append(body.Kids, N("ret", g.intExpr(d-1)))
		} else {
			body.Kids = append(body.Kids, g.intExpr(d-1))
		}
	}
	g.inFunc = false
	g.loopDepth = saveLoop
	g.Env = saved
	g.reserved = saveReserved
	g.Env.Put(&VarInfo{Name: name, T: TFunc, Arity: np, Ret: TInt, Len: -1})
	return []*Node{&Node{K: "func", S: name, Names: params, Kids: []*Node{body}}}
}

func restArgs(ps []string) []*Node {
	var out []*Node
	for _, p := range ps {
		out = append(out, Var(p))
	}
	return out
}

func (g *G) computedStmt(d int) []*Node {
	cs := g.Env.OfType(TComp)
	if len(cs) > 0 && g.intn(3, "compAttr") == 0 {
		c := cs[g.intn(len(cs), "compPick")]
		attr := []string{"x", "y", "hp"}[g.intn(3, "compAttrName")]
		return []*Node{&Node{K: "setca", S: c.Name, Names: []string{attr}, Kids: []*Node{g.intExpr(d - 1)}}}
	}
	name := g.FreshName()
	// the body reads caller variables at evaluation time; keep it an int expression over existing vars
	saveSide := g.O.SideFx
	g.O.SideFx = false
	saveLoop := g.loopDepth
	g.loopDepth = 0 // the body is a code block of its own: a loop around the definition is not its loop
	e := g.compBody(g.intExpr(d - 1))
	g.loopDepth = saveLoop
	g.O.SideFx = saveSide
	g.Env.Put(&VarInfo{Name: name, T: TComp, Ret: TInt, Len: -1})
	return []*Node{&Node{K: "setc", S: name, Kids: []*Node{e}}}
}

// Describe lists the constructs a program uses (for class histograms).
func Describe(n *Node) []string {
	seen := map[string]bool{}
	n.Walk(func(m *Node) {
		switch m.K {
		case "bin":
			seen["op:"+m.S] = true
			if m.Q == 1 {
				seen["fullwidth"] = true
			}
		case "int", "var", "block", "prog", "none", "part":
		default:
			seen[m.K] = true
		}
	})
	var out []string
	for k := range seen {
		out = append(out, k)
	}
	return out
}

func (v *VarInfo) String() string { return fmt.Sprintf("%s:%d", v.Name, v.T) }
