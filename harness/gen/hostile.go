package gen

import (
	"strconv"
	"strings"
)

// Hostile typing: any value type as any operand of every operator, dice modifier,
// method and built-in; extreme counts; deep nesting around the built-in capacities.

var hostileVals = []string{"0", "1", "2", "3", "-1", "(0-1)", "(0-5)", "1.5", "0.0", "'a'", "''", "'12'", "[1,2]", "[]", "{}", "{'a':1}", "null",
	"99999999999999999999", "4611686018427387904", "9223372036854775807", "(0-9223372036854775807)", "(1/0)", "x", "无", "true", "d", "2d", "d6",
	"`{1}`", "(2d6)", "[1,'a',[2]]", "[[]]", "20", "21", "100", "1000", "20001", "512", "513", "abs", "[1,2].kh", "this", "&x", "1e3", ".5"}

// container-flavoured values for receiver / indexed positions
var hostileContainers = []string{"[]", "[]", "[1,2]", "[1,'a',[2]]", "[[]]", "[3,1,2]", "{}", "{'a':1}", "'abc'", "''", "x", "null", "1", "(2d6)", "[1..3]", "`{1}`"}

var hostileOps = []string{"+", "-", "*", "/", "%", "**", "^", "??", "<", "<=", "==", "!=", ">=", ">", "&&", "||", "&", "|", "＋", "－", "＊", "／"}

var hostileTemplates = []string{
	"{v}d{v}", "{v}d{v}k{v}", "{v}d{v}q{v}", "d{v}kh{v}", "{v}d{v}kl{v}", "{v}d{v}dl{v}min{v}", "{v}d{v}dh{v}", "{v}d{v}max{v}", "d{v}优势", "d{v}劣势", "{v}d", "{v}dk{v}", "d", "{v}d{v}d{v}",
	"b{v}", "p{v}", "b", "p", "{v}a{v}", "{v}a{v}m{v}k{v}", "{v}a{v}q{v}", "a{v}", "{v}a{v}m{v}", "{v}c{v}", "{v}c{v}m{v}", "f",
	"{c}.kh({v})", "[{v},{v}].kl({v})", "{c}.sum()", "{c}.rand()", "{c}.randSize({v})", "{c}.shuffle()", "{c}.push({v})", "{c}.pop()", "{c}.shift()", "{c}.len()",
	"{c}.keys()", "{c}.values()", "{c}.items()", "{v}.compute()", "[{v},{v}]kh{v}", "[{v}]kl", "x={c}; x.pop(); x.pop(); x", "x={c}; x.shift(); x.push(x.pop())",
	"{c}[{v}]", "{c}[{v}:{v}]", "{c}[:{v}]", "{c}[{v}:]", "x={c}; x[{v}]={v}", "x={c}; x[{v}:{v}]={v}", "x={c}; x.y={v}", "x={c}; x.y", "{v}({v})", "{v}({v},{v})", "{v}()",
	"x='aaaaaaaa'; i=0; while i<{n} { x=`{x}{x}`; i=i+1 }", "x='ab'; i=0; while i<{n} { x=`{x}` + x; i=i+1 }; x",
	"{v} {op} {v}", "{v} {op} {v} {op} {v}", "-{v}", "+{v}", "{v} ? {v} : {v}", "{v} ? {v}, {v} ? {v}",
	"ceil({v})", "floor({v})", "round({v})", "abs({v})", "toInt({v})", "toFloat({v})", "toStr({v})", "toBool({v})", "repr({v})", "load({v})", "loadRaw({v})", "store({v},{v})", "typeId({v})", "dir({v})",
	"[{v}..{v}]", "[{v},{v},{v}]", "{{v}:{v}}", "{'k':{v}, 'k2':{v}}", "`a{{v}}b{% {v} %}`", "x = {v}", "&x = {v}; x", "&x = {v}; &x.k = {v}; x.k", "this.y = {v}", "x={v}; y=x; y",
	"func g(n) { {v} }; g({v})", "func g() { return {v} }; g()", "func g(n){ g(n+1) }; g(0)", "&a = a + 1; a", "&a = b; &b = a; a", "func g(n) { if n { g(n-1) } }; g({v})",
	"x='aaaaaaaa'; i=0; while i<{n} { x=x+x; i=i+1 }", "x=[1]; i=0; while i<{n} { x=x+x; i=i+1 }", "x=[1]; i=0; while i<{m} { x=[x,x]; i=i+1 }; x", "x=[1,2]; i=0; while i<{m} { x=[x,x]; i=i+1 }; &a = x; a", "x=[{'k':1}]; i=0; while i<{m} { x=[{'a':x},x]; i=i+1 }; toStr(x)", "x=[1]; i=0; while i<{m} { x=[x,x]; i=i+1 }; `{x}`", "x=[1]; i=0; while i<{n} { x.push(i); i=i+1 }; x.len()",
	"x=[]; x.push(x); x", "x={}; x.a=x; x", "x=[1]; x[0]=x; toStr(x)",
	// two values with the same shared sub-structure, built separately: comparing them must stay linear in the number of containers
	"a=[1]; i=0; while i<{m} { a=[a,a]; i=i+1 }; b=[1]; j=0; while j<{m} { b=[b,b]; j=j+1 }; a == b", "a=[{v}]; b=[{v}]; i=0; while i<{m} { a=[a,a]; b=[b,b]; i=i+1 }; a != b",
	"a={'k':1}; b={'k':1}; i=0; while i<{m} { a={'x':a,'y':a}; b={'x':b,'y':b}; i=i+1 }; [a == b, a != b]", "a=[1]; b=[1]; i=0; while i<{m} { a=[a,a]; b=[b,b]; i=i+1 }; [[a],[a]] == [[b],[b]]",
	// one operand reaches the same container twice (through a variable), the other holds two containers of its own there
	"x=[{v}]; [x,x] == [[{v}],[{v}]]", "x=[{v}]; [[{v}],[{v}]] == [x,x]", "x=[{v}]; y=[x,x]; y != [[{v}],[{v}]]", "x={'k':{v}}; [x,x] == [{'k':{v}},{'k':{v}}]",
	"x=[{v}]; {'a':x,'b':x} == {'a':[{v}],'b':[{v}]}", "x=[1]; [x,x] == [[1],[2]]", "x=[1]; [x,[x]] != [[1],[[2]]]", "x=[{v},{v}]; y=[x,x,x]; [y == [[{v},{v}],[{v},{v}],x], y != [x,[{v},{v}],[{v},{v}]]]",
	// holes that leave no value: only separators, only a comment, only a block (the empty string is their value)
	"`a{;}b`", "`a{%;%}b{ // nothing\n }c`", "x = {v}; `a{;}b{% if 0 { 1 } %}c{ // c\n}`", "`{;}{;}{;}`", "\x1e{;}{% ; %}\x1e", "`a{ {v} }b{;}c{ func g(n) { n }; g({v}) }d`",
	"x=[1]; y=[1]; x[0]=y; y[0]=x; x==y", "x={}; y={}; x.a=y; y.a=x; x=={v}", "x=[1]; x[0]=x; x==x", "x=[1]; x[0]=x; [x]==[[x]]",
	"x=[1,2]; i=0; while i<{n} { x[0:0]=x; i=i+1 }; x.len()", "x=[1,2]; i=0; while i<{n} { x[1:]=x; i=i+1 }", "x=[1]; i=0; while i<{n} { x[0:1]=[x,x]; i=i+1 }",
	// prototype chains that run into a loop which does not contain the starting dict (rho shape), and long legal chains
	"b={}; b.__proto__=b; a={}; a.__proto__=b; a.missing", "b={}; c={}; b.__proto__=c; c.__proto__=b; a={'k':1}; a.__proto__=b; [a.k, a.q, a.len()]",
	"p={}; q={}; r={}; p.__proto__=q; q.__proto__=r; r.__proto__=q; t={}; t.__proto__=p; t.len() + t.zz", "a={'v':{v}}; i=0; while i<{m} { b={}; b.__proto__=a; a=b; i=i+1 }; a.v",
	// a computed body whose last dice term has default sides and ends in a parenthesised operand followed by a blank
	"&a = (2)dk(1) ; a", "&a = 1+3dk(2) ; a", "&a = 2dkh(1)\t; a + a", "&a = (1)d优势 ; a", "&a = [3d, (2)dq(1) ][1] ; a",
	// definitions nested in definitions whose inner body rolls dice (process text spans of nested bodies)
	"func f() { &a = 2d6 + 1; a }; f()", "func f() { func g() { 2d }; g() }; f()", "func f() { &a = 2d6; &b = a + d4; b }; f(); f() + 1", "func f(n) { func g(m) { &c = m + 3d1; c }; g(n) + d1 }; f({v})", "&o = `{% &i = 3d6; i %}`; o + o",
	"x={}; x.__proto__=x; x.foo", "x={}; y={}; x.__proto__=y; y.__proto__=x; x.q", "x={'__proto__':{v}}; x.k", "x={}; x.__proto__={'a':{v}}; x.a",
	"&x = 1; &x.k = &x; x.k", "&a = {v}; a.compute()", "x=[{v}]; x.shuffle(); x.randSize({v})", "x=[3,1,2]; x.kh({v}) + x.kl({v})",
	"i=0; while i<{n} { i=i+1; if 1 { continue } }; i", "i=0; while i<{n} { i=i+1; if i>1 { break } }; i", "i=0; while i<{n} { i=i+1; if 1 { if 1 { continue } } }",
	"while 1 { }", "while 1 { x = 1 }", "i=0; while i<{n} { i=i+1 }", "i=0; while i<{n} { i=i+1; j=0; while j<{n} { j=j+1 } }",
	"{nestif}", "{nesttmpl}", "{nestparen}", "{nestarr}", "{longsum}", "{longlist}", "{nestfunc}", "{nestwhile}", "{nesthole}",
	"^st力量{v}", "^st力量+{v}", "^st&手枪={v}", "^st力量*{v}:{v}", "^st'力量 2':{v}", "^sta:b:{v}", "^st力量{v}敏捷{v}",
	// st values are compiled under other switches (no side-less dice, no bitwise operators, no statements): texts that read
	// differently under the two settings, inside constructs whose look-ahead and parse must agree
	"^sta=x?2d:3", "^sta={v} ? 2d : 3", "^sta=1?2d:3 b=2", "^sta={v}?3d,1?4d", "^sta=[2d,3] b=1", "^sta=f(2d) b=1", "^sta=(x?2d:3)", "^sta=x?1&2:3", "^sta=x?1|b:3",
	"^sta={v}?d:2", "^st&a=x?2d:3", "^sta+=x?2d:3", "^sta*2:x?2d:3", "^sta=`{x?2d:3}`", "^sta=x?2d:3d", "^sta=2d?1:2", "^sta=[1,2][0:1d]", "^sta=x ?? 2d : 3", "^sta=x?2d6kh:3",
	"// #EnableDice wod true\n{v}a{v}", "// #EnableDice coc false\nb{v}", "// comment\n{v}",
	"return {v}", "break", "continue", "if {v} { {v} } else { {v} }", "if {v} {  }", "func {v}() {}", "else", "if", "func", "while",
}

func (g *G) hv() string { return hostileVals[g.intn(len(hostileVals), "hv")] }

func nest(open, mid, close string, n int) string {
	return strings.Repeat(open, n) + mid + strings.Repeat(close, n)
}

// Hostile returns one adversarial source text.
func (g *G) Hostile() (src string, class string) {
	tpl := hostileTemplates[g.intn(len(hostileTemplates), "hostileTpl")]
	class = tpl
	depths := []int{1, 2, 5, 19, 20, 21, 22, 40, 100, 400}
	counts := []int{0, 1, 5, 19, 20, 21, 22, 25, 40, 100, 600, 5000}
	var sb strings.Builder
	for i := 0; i < len(tpl); {
		switch {
		case strings.HasPrefix(tpl[i:], "{v}"):
			sb.WriteString(g.hv())
			i += 3
		case strings.HasPrefix(tpl[i:], "{c}"):
			sb.WriteString(hostileContainers[g.intn(len(hostileContainers), "hc")])
			i += 3
		case strings.HasPrefix(tpl[i:], "{op}"):
			sb.WriteString(hostileOps[g.intn(len(hostileOps), "hop")])
			i += 4
		case strings.HasPrefix(tpl[i:], "{m}"):
			// shared sub-structure: printing must stay linear in the number of containers (a repeated
			// container is abbreviated); the JSON form is a tree and is only requested for small values
			sb.WriteString(strconv.Itoa([]int{1, 3, 8, 12, 20, 30, 45, 60}[g.intn(8, "hsmall")]))
			i += 3
		case strings.HasPrefix(tpl[i:], "{n}"):
			sb.WriteString(strconv.Itoa(counts[g.intn(len(counts), "hcount")]))
			i += 3
		case strings.HasPrefix(tpl[i:], "{nestif}"):
			sb.WriteString(nest("if 1 { ", "1", " }", depths[g.intn(len(depths)-2, "hdepth")]))
			i += 8
		case strings.HasPrefix(tpl[i:], "{nestwhile}"):
			n := depths[g.intn(len(depths)-2, "hdepth")]
			sb.WriteString("i=0; " + nest("while i<2 { i=i+1; ", "1", " }", n))
			i += 11
		case strings.HasPrefix(tpl[i:], "{nesttmpl}"):
			n := depths[g.intn(len(depths)-2, "hdepth")]
			sb.WriteString(nest("`a{", "1", "}b`", n))
			i += 10
		case strings.HasPrefix(tpl[i:], "{nesthole}"):
			n := depths[g.intn(len(depths)-2, "hdepth")]
			sb.WriteString(nest("`{% if 1 { x = ", "1", " } %}`", n))
			i += 10
		case strings.HasPrefix(tpl[i:], "{nestparen}"):
			sb.WriteString(nest("(", g.hv(), ")", depths[g.intn(len(depths), "hdepth")]))
			i += 11
		case strings.HasPrefix(tpl[i:], "{nestarr}"):
			sb.WriteString(nest("[", g.hv(), "]", depths[g.intn(len(depths), "hdepth")]))
			i += 9
		case strings.HasPrefix(tpl[i:], "{nestfunc}"):
			n := depths[g.intn(5, "hdepth")]
			sb.WriteString(nest("func g(n) { ", "n", " }; g(1)", n))
			i += 10
		case strings.HasPrefix(tpl[i:], "{longsum}"):
			n := counts[g.intn(len(counts), "hcount")] + 2
			if g.intn(4, "hbig") == 0 {
				n = 20000
			}
			sb.WriteString(strings.TrimSuffix(strings.Repeat("1+", n), "+"))
			i += 9
		case strings.HasPrefix(tpl[i:], "{longlist}"):
			n := counts[g.intn(len(counts), "hcount")] + 1
			sb.WriteString("[" + strings.TrimSuffix(strings.Repeat("1,", n), ",") + "].len()")
			i += 10
		default:
			sb.WriteByte(tpl[i])
			i++
		}
	}
	return sb.String(), class
}

// MutateBytes applies n random byte-level edits (splice, duplicate, delete, flip, insert token).
func (g *G) MutateBytes(src string, n int) string {
	b := []byte(src)
	tokens := []string{"kh", "kl", "dh", "dl", "min", "max", "优势", "劣势", "^st", "+=", "-=", "{%", "%}", "//", " #EnableDice ", "..", "d", "a", "b", "c", "f", "p", "k", "q", "m",
		"(", ")", "[", "]", "{", "}", "'", "\"", "`", "\x1e", "\\", ":", ",", ";", "\n", "?", "&", "|", "=", "!", "this", "null", "true", "if ", "while ", "func ", "return ", "break", "continue", "else",
		"\x00", "\xff", "\xc3", "９", "（", "）", "【", "】"}
	for i := 0; i < n; i++ {
		switch g.intn(6, "mutKind") {
		case 0: // insert token
			pos := g.intn(len(b)+1, "mutPos")
			tok := tokens[g.intn(len(tokens), "mutTok")]
			b = append(b[:pos], append([]byte(tok), b[pos:]...)...)
		case 1: // delete a span
			if len(b) > 0 {
				pos := g.intn(len(b), "mutPos")
				ln := 1 + g.intn(4, "mutLen")
				if pos+ln > len(b) {
					ln = len(b) - pos
				}
				b = append(b[:pos], b[pos+ln:]...)
			}
		case 2: // duplicate a span
			if len(b) > 0 {
				pos := g.intn(len(b), "mutPos")
				ln := 1 + g.intn(8, "mutLen")
				if pos+ln > len(b) {
					ln = len(b) - pos
				}
				seg := append([]byte(nil), b[pos:pos+ln]...)
				b = append(b[:pos], append(seg, b[pos:]...)...)
			}
		case 3: // flip a byte
			if len(b) > 0 {
				pos := g.intn(len(b), "mutPos")
				b[pos] = byte(g.intn(256, "mutByte"))
			}
		case 4: // swap two spans' worth: reverse a short span
			if len(b) > 2 {
				pos := g.intn(len(b)-1, "mutPos")
				b[pos], b[pos+1] = b[pos+1], b[pos]
			}
		case 5: // truncate
			if len(b) > 0 {
				b = b[:g.intn(len(b)+1, "mutPos")]
			}
		}
	}
	return string(b)
}
