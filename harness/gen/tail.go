package gen

import (
	"unicode/utf8"
)

var tailPrefixes = []string{"", "", "", " ", " ", "\n", ";", "; ", " ;\n", " + ", " - ", " * ", "/", ", ", " | ", " & ", " || ", " && ",
	".", "[", "(", " ? ", " : ", " = ", " ?? ", " == ", " < ", "  ", "\t", " ^ ", " % ", "d", "k", "kh", "a", "c", "m", "优势", "劣势", "min", "max", "..", "{", "{%", "`", "'", "\"", "\x1e", "&", "//", " // #EnableDice wod true\n",
	// blanks of the wider world that the grammar does not know: they start the rest text, whatever Unicode calls them
	"\u3000", "\u3000 ", " \u3000", "\u00a0", "\u2003", "\ufeff", "\u0085", "\u2028", "\u3000\u3000攻击 "}

var tailWords = []string{"攻击", "巨龙", "reason", "text", "for", "the", "roll", "力量", "检定", "hit", "it", "#", "@user", "。", "，", "!", "?", "~", "because", "1", "2d6", "(", ")"}

var openers = []string{"[", "(", "{", "'", "\"", "`", "{%", ",", ":", "?", "||", "&&", ".", "=", "+", "-", "*", "/", "\x1e", "d", "k"}

// Tail draws a continuation that begins like something and then breaks off:
// free text, or a generated statement cut at a rune boundary (biased to just
// after an opening token), behind an optional operator/separator prefix.
func (g *G) Tail() (tail string, class string) {
	prefix := tailPrefixes[g.intn(len(tailPrefixes), "tailPrefix")]
	switch g.intn(10, "tailKind") {
	case 0, 1:
		n := 1 + g.intn(4, "tailWords")
		s := ""
		for i := 0; i < n; i++ {
			if i > 0 {
				s += " "
			}
			s += tailWords[g.intn(len(tailWords), "tailWord")]
		}
		return prefix + s, "text"
	case 2:
		return prefix, "prefix-only"
	}
	sub := &G{T: g.T, O: g.O, Env: g.Env.Clone(), reserved: map[string]bool{}, nameSeq: g.nameSeq + 50}
	var node *Node
	if g.intn(3, "tailStmt") == 0 {
		st := sub.Stmt(2)
		node = st[len(st)-1]
	} else {
		node = sub.Expr(TAny, 2)
	}
	txt := Print(node)
	if txt == "" {
		return prefix, "prefix-only"
	}
	// candidate cut points: after an opener, else anywhere
	var cuts []int
	for _, op := range openers {
		for i := 0; i+len(op) <= len(txt); i++ {
			if txt[i:i+len(op)] == op {
				cuts = append(cuts, i+len(op))
			}
		}
	}
	cut := 0
	if len(cuts) > 0 && g.intn(3, "cutBias") != 0 {
		cut = cuts[g.intn(len(cuts), "cutAt")]
		class = "cut-after-opener"
	} else {
		cut = 1 + g.intn(len(txt), "cutPos")
		class = "cut-anywhere"
	}
	for cut < len(txt) && !utf8.RuneStart(txt[cut]) {
		cut++
	}
	if cut >= len(txt) && g.intn(4, "tailWhole") != 0 && len(txt) > 1 {
		cut = len(txt) - 1
		for cut > 0 && !utf8.RuneStart(txt[cut]) {
			cut--
		}
	}
	if cut > len(txt) {
		cut = len(txt)
	}
	return prefix + txt[:cut], class
}
