// Package gen holds the program AST shared by the generators, the printer and
// the reference interpreter (defsem).  A Node is deliberately one plain struct
// so that a whole program round-trips through JSON inside replay files.
package gen

import (
	"encoding/json"
	"strconv"
)

// Node kinds (field K).  "e" = expression, "s" = statement.  An expression may
// stand wherever a statement may.
//
// Literals
//
//	int    I >= 0                               (negative numbers are neg(int))
//	flt    S = source text ("1.5", ".5", "12.0")
//	str    S = the text the literal denotes, Q = delimiter 0 ' 1 " 2 ` 3 \x1e   (no holes)
//	tmpl   Q = delimiter 2 ` or 3 \x1e; Kids = parts: "part" (S = text) and "hole"
//	hole   Q = 0 `{…}` 1 `{% … %}`; Kids = statements
//	true false null
//
// Containers
//
//	arr    Kids = elements
//	range  Kids = [a, b]
//	dict   Kids = k0, v0, k1, v1 …  (a key is any expression; a "var" key is the bare identifier form,
//	       whose *value* is the key); Q = 1 trailing comma
//
// Access
//
//	var    S = name              (load, evaluates a computed value)
//	raw    S = name              (&name: load without evaluating)
//	this   S = name              (this.name)
//	idx    Kids = [obj, index]
//	slice  Kids = [obj, a|none, b|none]
//	attr   Kids = [obj], S = attribute
//	call   Kids = [fn, args…]
//	mcall  Kids = [obj, args…], S = method
//	none   placeholder for an omitted optional child
//
// Operators
//
//	neg pos   Kids = [e]
//	bin       S = operator ("||" "&&" "|" "&" "<" "<=" "==" "!=" ">=" ">" "+" "-" "*" "/" "%" "??" "**" "^"), Kids = [l, r]
//	          Q = 1 asks the printer for the full-width spelling where one exists (＋ － ＊ ／)
//	tern      Kids = [c, a, b]
//	chain     Kids = c1, v1, c2, v2 …        (c1 ? v1, c2 ? v2 — value '' when none is true)
//
// Assignments (expressions; value = assigned value for set/setc)
//
//	set       S = name, Kids = [e]                       name = e
//	setc      S = name, Kids = [e]                       &name = e     (stores the expression)
//	setca     S = name, Names = [attr], Kids = [e]       &name.attr = e
//	setthis   S = name, Kids = [e]                       this.name = e
//	setattr   S = object variable, Names = [attr], Kids = [e]   obj.attr = e
//	setidx    Kids = [obj, index, e]                     obj[index] = e
//	setslice  Kids = [obj, a|none, b|none, e]            obj[a:b] = e
//
// Dice (operands "nos": an int literal or any expression, printed in parentheses)
//
//	dice   Kids = [count|none, sides|none, modArg|none, min|none, max|none], S = modifier
//	       ("" "k" "q" "kh" "kl" "dh" "dl" "adv" "dis"); Q = 1 upper-case D
//	fate
//	xdice  S = operand text of a registered custom dice syntax, printed verbatim (C17; never drawn by the generators)
//	coc    S = "b"|"p", Kids = [n|none]
//	wod    Kids = [pool|none, addline, mods…]; mods are "dmod" nodes S = "m"|"k"|"q", Kids = [v]
//	dc     Kids = [pool, crit, mods…]; mods are "dmod" S = "m"
//
// Statements
//
//	if      Kids = [cond, block, else]     else = none | block | if
//	while   Kids = [cond, block]
//	block   Kids = statements
//	break continue
//	func    S = name, Names = params, Kids = [block]
//	ret     Kids = [e|none]
//	prog    Kids = statements
type Node struct {
	K     string   `json:"k"`
	S     string   `json:"s,omitempty"`
	I     int64    `json:"i,omitempty"`
	Q     int      `json:"q,omitempty"`
	Kids  []*Node  `json:"c,omitempty"`
	Names []string `json:"n,omitempty"`
}

func N(k string, kids ...*Node) *Node { return &Node{K: k, Kids: kids} }
func NS(k, s string, kids ...*Node) *Node {
	return &Node{K: k, S: s, Kids: kids}
}
func Int(i int64) *Node {
	if i < 0 {
		return N("neg", &Node{K: "int", I: -i})
	}
	return &Node{K: "int", I: i}
}
func Flt(text string) *Node           { return &Node{K: "flt", S: text} }
func Str(s string, q int) *Node       { return &Node{K: "str", S: s, Q: q} }
func Var(name string) *Node           { return &Node{K: "var", S: name} }
func None() *Node                     { return &Node{K: "none"} }
func Bin(op string, l, r *Node) *Node { return &Node{K: "bin", S: op, Kids: []*Node{l, r}} }
func Set(name string, e *Node) *Node  { return &Node{K: "set", S: name, Kids: []*Node{e}} }
func Call(fn *Node, args ...*Node) *Node {
	return &Node{K: "call", Kids: append([]*Node{fn}, args...)}
}
func MCall(obj *Node, m string, args ...*Node) *Node {
	return &Node{K: "mcall", S: m, Kids: append([]*Node{obj}, args...)}
}
func Block(st ...*Node) *Node { return &Node{K: "block", Kids: st} }
func Prog(st ...*Node) *Node  { return &Node{K: "prog", Kids: st} }

func (n *Node) IsNone() bool { return n == nil || n.K == "none" }

func (n *Node) JSON() string {
	b, _ := json.Marshal(n)
	return string(b)
}

func (n *Node) Clone() *Node {
	if n == nil {
		return nil
	}
	c := *n
	c.Kids = make([]*Node, len(n.Kids))
	for i, k := range n.Kids {
		c.Kids[i] = k.Clone()
	}
	c.Names = append([]string(nil), n.Names...)
	return &c
}

// Walk visits n and all descendants (pre-order).
func (n *Node) Walk(f func(*Node)) {
	if n == nil {
		return
	}
	f(n)
	for _, k := range n.Kids {
		k.Walk(f)
	}
}

// Count returns the number of nodes.
func (n *Node) Count() int {
	c := 0
	n.Walk(func(*Node) { c++ })
	return c
}

// Has reports whether any node has one of the kinds.
func (n *Node) Has(kinds ...string) bool {
	found := false
	n.Walk(func(m *Node) {
		for _, k := range kinds {
			if m.K == k {
				found = true
			}
		}
	})
	return found
}

func (n *Node) String() string {
	if n == nil {
		return "<nil>"
	}
	if n.K == "int" {
		return strconv.FormatInt(n.I, 10)
	}
	return n.JSON()
}

// IsStmtOnly reports kinds that are statements and never expressions.
func IsStmtOnly(k string) bool {
	switch k {
	case "if", "while", "block", "break", "continue", "func", "ret", "prog":
		return true
	}
	return false
}

// IsBlockStmt: statements of the grammar's stmtWithBlock class (no separator needed after them).
func IsBlockStmt(k string) bool {
	switch k {
	case "if", "while", "func", "ret":
		return true
	}
	return false
}
