package gen

// Exported entry points used by C09 (snapshot/restore): statement groups that
// define the values whose restored form is later *used* — functions and
// computed values — drawn exactly as Stmt draws them.

// FuncStmt defines a function (see funcStmt); falls back to an assignment when
// the per-program function limit is reached.
func (g *G) FuncStmt(d int) []*Node { return g.funcStmt(d) }

// ComputedStmt defines a computed value or writes one of its attributes.
func (g *G) ComputedStmt(d int) []*Node { return g.computedStmt(d) }

// MutateStmt mutates an existing int array / dict (falls back to an assignment).
func (g *G) MutateStmt(d int) *Node { return g.mutateStmt(d) }

// AssignStmt assigns a fresh or existing variable.
func (g *G) AssignStmt(d int) *Node { return g.assignStmt(d) }

// Reserve keeps a name out of the generator's hands: it is never reassigned by an
// assignment statement and never returned by FreshName (C09 uses it for variables whose
// run-time type the generator must not guess: value trees with multi-key dicts).
func (g *G) Reserve(name string) { g.reserved[name] = true }
