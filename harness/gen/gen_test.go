package gen

import (
	"fmt"
	"os"
	"strings"
	"testing"

	ds "github.com/sealdice/dicescript"
	"pgregory.net/rapid"
)

// TestPrintParse is a development aid: how many generated programs does the real parser take whole?
func TestPrintParse(t *testing.T) {
	if os.Getenv("GEN_DEV") == "" {
		t.Skip("development aid; set GEN_DEV=1")
	}
	stats := map[string]int{}
	shown := map[string]int{}
	rapid.Check(t, func(rt *rapid.T) {
		o := DefaultOpts()
		o.Dice = true
		o.CoC, o.WoD, o.Fate, o.DC = true, true, true, true
		g := NewG(rt, o, nil)
		p := g.Program()
		z := &Noise{Vals: rapid.SliceOfN(rapid.IntRange(0, 1000), 0, 40).Draw(rt, "noise")}
		src, _ := PrintNoisy(p, z)
		vm := ds.NewVM()
		vm.Config.EnableDiceCoC, vm.Config.EnableDiceWoD, vm.Config.EnableDiceFate, vm.Config.EnableDiceDoubleCross = true, true, true, true
		vm.Config.OpCountLimit = 30000
		vm.Config.DiceMinMode = true
		var err error
		func() {
			defer func() {
				if r := recover(); r != nil {
					err = fmt.Errorf("PANIC %v", r)
				}
			}()
			err = vm.Run(src)
		}()
		kind := "ok"
		switch {
		case err != nil && strings.Contains(err.Error(), "PANIC"):
			kind = "panic"
		case err != nil && (strings.Contains(err.Error(), "Syntax") || strings.Contains(err.Error(), "语法")):
			kind = "syntax"
		case err != nil:
			kind = "runtime-error"
		case strings.TrimSpace(vm.RestInput) != "":
			kind = "rest"
		}
		stats[kind]++
		if (kind == "syntax" || kind == "rest" || kind == "panic") && shown[kind] < 12 {
			shown[kind]++
			msg := ""
			if err != nil {
				msg = strings.ReplaceAll(err.Error(), "\n", " | ")
				if len(msg) > 160 {
					msg = msg[:160]
				}
			}
			fmt.Printf("---- %s\n%q\nrest=%q err=%s\n", kind, src, vm.RestInput, msg)
		}
	})
	fmt.Println(stats)
}
