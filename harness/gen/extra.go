package gen

// Extra constructs for C02 (Opts.Extra): reads through `this.` and `&name`,
// load / loadRaw / store, dict methods, functions kept in containers, nested
// containers with aliases, computed values that use their own attribute space,
// templates whose holes hold statements.  With Extra off nothing here is
// reached and the other generators draw exactly what they drew before.

// Box is a container variable known to hold a user function.
type Box struct {
	Name  string // variable
	Dict  bool   // dict (key Key) or array (index Index)
	Key   string
	Index int
	Arity int
}

var compAttrs = []string{"x", "y", "hp"}

func (g *G) intVarsHere() []*VarInfo {
	var out []*VarInfo
	for _, v := range g.Env.OfType(TInt) {
		out = append(out, v)
	}
	return out
}

// orDefault wraps e as `e ?? k` so that a null (absent attribute, non-local name) still gives an int.
func (g *G) orDefault(e *Node) *Node {
	return Bin("??", e, Int(int64(g.intn(9, "dflt"))))
}

// extraInt returns an int-valued expression of one of the extra kinds, or nil.
func (g *G) extraInt(d int) *Node {
	switch g.intn(14, "extraIntKind") {
	case 0, 1:
		// this.name: the current activation's own space only
		vs := g.intVarsHere()
		if len(vs) == 0 {
			return nil
		}
		v := vs[g.intn(len(vs), "thisVar")]
		if g.inFunc || g.intn(4, "thisBare") != 0 {
			return g.orDefault(&Node{K: "this", S: v.Name})
		}
		return &Node{K: "this", S: v.Name}
	case 2, 3:
		// &c.attr: attribute of a computed value, read raw
		cs := g.Env.OfType(TComp)
		if len(cs) == 0 {
			return nil
		}
		c := cs[g.intn(len(cs), "rawComp")]
		return g.orDefault(NS("attr", compAttrs[g.intn(len(compAttrs), "rawAttr")], &Node{K: "raw", S: c.Name}))
	case 4:
		// load('name')
		vs := g.intVarsHere()
		if len(vs) == 0 {
			return nil
		}
		v := vs[g.intn(len(vs), "loadVar")]
		return g.orDefault(Call(Var("load"), Str(v.Name, g.intn(2, "q"))))
	case 5:
		// typeId of a raw / evaluated computed value, or of a function
		cs := g.Env.OfType(TComp, TFunc)
		if len(cs) == 0 {
			return nil
		}
		c := cs[g.intn(len(cs), "tidVar")]
		switch g.intn(3, "tidForm") {
		case 0:
			return Call(Var("typeId"), &Node{K: "raw", S: c.Name})
		case 1:
			return Call(Var("typeId"), Call(Var("loadRaw"), Str(c.Name, g.intn(2, "q"))))
		}
		return Call(Var("typeId"), Var(c.Name))
	case 6:
		// store('name', e): an assignment through the built-in
		if !g.O.SideFx {
			return nil
		}
		name := g.assignableInt()
		if name == "" {
			name = g.FreshName()
			g.Env.Put(&VarInfo{Name: name, T: TInt, Len: -1})
		}
		return Call(Var("store"), Str(name, g.intn(2, "q")), g.intExpr(d-1))
	case 7, 8:
		// dict methods whose result does not depend on the order
		ds := g.Env.OfType(TDict)
		var dn *Node
		if len(ds) > 0 && g.intn(3, "dictMethLit") != 0 {
			dn = Var(ds[g.intn(len(ds), "dictMethVar")].Name)
		} else {
			dn = g.dictExpr(d - 1)
		}
		switch g.intn(5, "dictMeth") {
		case 0:
			return MCall(MCall(dn, "keys"), "len")
		case 1:
			return MCall(MCall(dn, "values"), "sum")
		case 2:
			return MCall(MCall(dn, "items"), "len")
		case 3:
			return MCall(MCall(dn, "values"), []string{"kh", "kl"}[g.intn(2, "dictKh")])
		}
		return MCall(dn, "len")
	case 9, 10:
		// a function taken out of a container and called
		if len(g.Env.Boxes) == 0 {
			return nil
		}
		b := g.Env.Boxes[g.intn(len(g.Env.Boxes), "box")]
		var callee *Node
		if b.Dict {
			if isPlainIdent(b.Key) && g.intn(2, "boxAttr") == 0 {
				callee = NS("attr", b.Key, Var(b.Name))
			} else {
				callee = N("idx", Var(b.Name), Str(b.Key, g.intn(2, "q")))
			}
		} else {
			callee = N("idx", Var(b.Name), Int(int64(b.Index)))
		}
		var args []*Node
		for i := 0; i < b.Arity; i++ {
			args = append(args, g.smallArg(d-1))
		}
		return Call(callee, args...)
	case 11, 12:
		// an item / attribute assignment used as a value (it yields the assigned value)
		if !g.O.SideFx {
			return nil
		}
		if arrs := g.Env.OfType(TArrI); len(arrs) > 0 && g.intn(2, "asgArr") == 0 {
			v := arrs[g.intn(len(arrs), "asgArrVar")]
			return N("setidx", Var(v.Name), g.indexFor(v.Len), g.intExpr(d-1))
		}
		if ds := g.Env.OfType(TDict); len(ds) > 0 {
			v := ds[g.intn(len(ds), "asgDictVar")]
			k := []string{"x", "y", "z", "hp"}[g.intn(4, "asgKey")]
			if g.O.SingleKeyDicts {
				// a second key would make every text that prints the dict depend on Go map order
				if len(v.Keys) == 0 || !isPlainIdent(v.Keys[0]) {
					return nil
				}
				k = v.Keys[0]
			}
			if g.intn(2, "asgAttr") == 0 {
				return &Node{K: "setattr", S: v.Name, Names: []string{k}, Kids: []*Node{g.intExpr(d - 1)}}
			}
			return N("setidx", Var(v.Name), Str(k, g.intn(2, "q")), g.intExpr(d-1))
		}
		return nil
	default:
		// element of a nested array: m[i][j]
		for _, v := range g.Env.OfType(TArr) {
			if v.Ret == TArrI && v.Len > 0 {
				return N("idx", N("idx", Var(v.Name), Int(int64(g.intn(v.Len, "nestI")))), g.indexFor(-1))
			}
		}
	}
	return nil
}

// extraDictKey: other documented key forms — a bare identifier (a variable read whose value is
// the key), an int, a float (numbers are turned into strings).
func (g *G) extraDictKey(dflt *Node) *Node {
	switch g.intn(3, "xKeyForm") {
	case 0:
		vs := g.Env.OfType(TStr, TInt)
		if len(vs) > 0 {
			return Var(vs[g.intn(len(vs), "keyVar")].Name)
		}
	case 1:
		return Int(int64(g.intn(20, "keyInt")))
	default:
		return Flt([]string{"1.5", "2.0", ".25"}[g.intn(3, "keyFlt")])
	}
	return dflt
}

// extraTmpl: a template whose holes hold statements (assignment then value, if/else then value).
func (g *G) extraTmpl(d int) *Node {
	q := 2 + g.intn(2, "tmplQ")
	n := &Node{K: "tmpl", Q: q}
	parts := 1 + g.intn(3, "xtParts")
	for i := 0; i < parts; i++ {
		if g.intn(3, "xtText") == 0 {
			txt := g.strText("tmplText")
			if txt == "" {
				txt = "-"
			}
			if q == 2 {
				txt = replaceAll(txt, "`", "'")
			}
			if len(n.Kids) > 0 && n.Kids[len(n.Kids)-1].K == "part" {
				n.Kids[len(n.Kids)-1].S += txt
			} else {
				n.Kids = append(n.Kids, &Node{K: "part", S: txt})
			}
			continue
		}
		h := &Node{K: "hole", Q: g.intn(2, "holeStyle")}
		if g.loopDepth > 0 && g.O.Stmts && g.O.BreakInIf && g.intn(4, "holeJump") == 0 {
			// a break / continue taken from inside the hole: the template is abandoned with the round
			h.Kids = append(h.Kids, N("if", g.intExpr(d), Block(N([]string{"break", "continue"}[g.intn(2, "holeJumpKind")])), None()))
			n.Kids = append(n.Kids, h)
			continue
		}
		switch g.intn(5, "xtHole") {
		case 0:
			// GUIDE: {% if … { stat = 'a' } else { stat = 'b' }; stat %}
			if g.O.Stmts && g.O.SideFx {
				name := g.FreshName()
				g.Env.Put(&VarInfo{Name: name, T: TStr, Len: -1})
				h.Kids = append(h.Kids,
					N("if", g.intExpr(d), Block(Set(name, g.strLit())), Block(Set(name, g.strLit()))),
					Var(name))
				break
			}
			fallthrough
		case 1:
			if name := g.assignableInt(); name != "" && g.O.SideFx {
				h.Kids = append(h.Kids, Set(name, g.intExpr(d)), Bin("+", Var(name), Int(1)))
				break
			}
			fallthrough
		case 2:
			h.Kids = append(h.Kids, g.Expr([]T{TInt, TStr, TArrI, TFlt}[g.intn(4, "holeT")], d))
		case 3:
			// an if statement alone yields '' inside a hole
			if g.O.Stmts {
				h.Kids = append(h.Kids, N("if", g.intExpr(d), Block(g.strLit()), None()))
				break
			}
			fallthrough
		default:
			h.Kids = append(h.Kids, g.intExpr(d))
		}
		n.Kids = append(n.Kids, h)
	}
	if len(n.Kids) == 0 {
		n.Kids = append(n.Kids, &Node{K: "part", S: "-"})
	}
	return n
}

// extraStmt returns a statement (group) of one of the extra kinds.
func (g *G) extraStmt(d int) []*Node {
	switch g.intn(16, "extraStmtKind") {
	case 15:
		// a computed value of the outer scope with a free variable, read inside a function whose parameter (or local) has
		// that variable's name: the body belongs to the scope that owns the computed value
		if g.inFunc || g.funcs >= 3 || !g.O.Computed {
			return []*Node{g.assignStmt(d)}
		}
		g.funcs++
		free, comp, fn, res := g.FreshName(), g.FreshName(), g.FreshName(), g.FreshName()
		g.Env.Put(&VarInfo{Name: free, T: TInt, Len: -1})
		g.Env.Put(&VarInfo{Name: comp, T: TAny, Len: -1})
		g.Env.Put(&VarInfo{Name: fn, T: TFunc, Arity: 1, Ret: TInt, Len: -1})
		g.Env.Put(&VarInfo{Name: res, T: TAny, Len: -1})
		var body *Node
		if g.intn(2, "ocLocal") == 0 {
			// the name is the function's parameter
			body = Block(N("ret", Var(comp)))
		} else {
			// the name is a local the function assigns before reading
			body = Block(Set(free, Bin("+", Var(free), Int(100))), N("ret", Bin("+", Var(comp), Var(free))))
		}
		return []*Node{
			Set(free, Int(int64(1+g.intn(9, "ocFree")))),
			&Node{K: "setc", S: comp, Kids: []*Node{Bin("+", Var(free), Int(int64(1+g.intn(5, "ocK"))))}},
			&Node{K: "func", S: fn, Names: []string{free}, Kids: []*Node{body}},
			Set(res, N("arr", Call(Var(fn), Int(int64(10+g.intn(80, "ocArg")))), Var(comp), Var(free))),
		}
	case 14:
		// one operand of == / != reaches the same array twice (through a variable), the other holds two arrays of its own
		// at those places, equal to it or not: structural equality looks at both sides of every pair
		src := g.FreshName()
		g.Env.Put(&VarInfo{Name: src, T: TAny, Len: -1})
		n := 1 + g.intn(3, "aliasLen")
		lit := g.arrILit(n)
		same := func() *Node { // a literal with the same elements as lit, or with the last one changed
			c := &Node{K: lit.K, S: lit.S}
			for _, k := range lit.Kids {
				kk := *k
				c.Kids = append(c.Kids, &kk)
			}
			if g.intn(2, "aliasDiffer") == 0 && len(c.Kids) > 0 {
				c.Kids[len(c.Kids)-1] = Int(int64(77 + g.intn(9, "aliasOther")))
			}
			return c
		}
		shared := N("arr", Var(src), Var(src))
		own := N("arr", same(), same())
		res := g.FreshName()
		g.Env.Put(&VarInfo{Name: res, T: TAny, Len: -1})
		op := []string{"==", "!="}[g.intn(2, "aliasOp")]
		l, r := shared, own
		if g.intn(2, "aliasSide") == 0 {
			l, r = own, shared
		}
		return []*Node{Set(src, lit), Set(res, N("arr", Bin(op, l, r), Bin(op, N("arr", Var(src)), N("arr", same()))))}
	case 13:
		// two concatenations from one array (of a length that leaves spare capacity behind it, or grown by push / shrunk by
		// pop), then a write through one result: every + gives a fresh array
		src := g.FreshName()
		g.Env.Put(&VarInfo{Name: src, T: TAny, Len: -1})
		n := []int{5, 6, 7, 9, 3, 12}[g.intn(6, "ccLen")]
		out := []*Node{Set(src, g.arrILit(n))}
		switch g.intn(3, "ccPrep") {
		case 0:
			out = append(out, MCall(Var(src), "push", Int(int64(g.intn(9, "ccPush")))))
		case 1:
			out = append(out, MCall(Var(src), "pop"))
		}
		b, c := g.FreshName(), g.FreshName()
		g.Env.Put(&VarInfo{Name: b, T: TAny, Len: -1})
		g.Env.Put(&VarInfo{Name: c, T: TAny, Len: -1})
		out = append(out, Set(b, Bin("+", Var(src), g.arrILit(g.intn(3, "ccB")))), Set(c, Bin("+", Var(src), g.arrILit(1+g.intn(2, "ccC")))))
		if g.intn(2, "ccWrite") == 0 {
			out = append(out, N("setidx", Var(b), Int(0), Int(int64(90+g.intn(9, "ccW")))))
		}
		return append(out, N("arr", Var(src), Var(b), Var(c)))
	case 11, 12:
		// bound built-in methods: a method value keeps its own receiver while the same method of another
		// receiver is read, called, or called inside its own arguments
		recv := func(tag string) *Node {
			if vs := g.Env.OfType(TArrI); len(vs) > 0 && g.intn(2, "bmVar"+tag) == 0 {
				return Var(vs[g.intn(len(vs), "bmWhich"+tag)].Name)
			}
			return g.arrILit(1 + g.intn(3, "bmLen"+tag))
		}
		a, b := recv("A"), recv("B")
		m := []string{"sum", "len", "kh", "kl", "pop", "shift", "push"}[g.intn(7, "bmMethod")]
		args := func() []*Node {
			if m == "push" {
				return []*Node{Int(int64(g.intn(10, "bmArg")))}
			}
			return nil
		}
		res := g.FreshName()
		g.Env.Put(&VarInfo{Name: res, T: TAny, Len: -1})
		switch g.intn(3, "bmShape") {
		case 0:
			// f = A.m; B.m(); r = f()
			f := g.FreshName()
			g.Env.Put(&VarInfo{Name: f, T: TAny, Len: -1})
			return []*Node{Set(f, &Node{K: "attr", S: m, Kids: []*Node{a}}), MCall(b, m, args()...), Set(res, Call(Var(f), args()...))}
		case 1:
			// f = A.m; g = B.m; r = [f(), g()]
			f, f2 := g.FreshName(), g.FreshName()
			g.Env.Put(&VarInfo{Name: f, T: TAny, Len: -1})
			g.Env.Put(&VarInfo{Name: f2, T: TAny, Len: -1})
			return []*Node{Set(f, &Node{K: "attr", S: m, Kids: []*Node{a}}), Set(f2, &Node{K: "attr", S: m, Kids: []*Node{b}}),
				Set(res, N("arr", Call(Var(f), args()...), Call(Var(f2), args()...)))}
		}
		// the same method of another receiver inside the arguments: A.kh(B.kh()), A.push(B.push(k).len())
		switch m {
		case "kh", "kl":
			return []*Node{Set(res, MCall(a, m, MCall(b, m)))}
		case "push":
			return []*Node{Set(res, MCall(a, "push", MCall(MCall(b, "push", args()...), "len")))}
		}
		return []*Node{Set(res, N("arr", MCall(a, m), MCall(b, m), MCall(a, "len")))}
	case 10:
		// variable lookup goes through the caller chain: `reader` reads a name that its caller
		// `outer` holds as a local (shadowing the top-level variable of the same name, if any)
		if g.inFunc || g.funcs >= 3 {
			return []*Node{g.assignStmt(d)}
		}
		g.funcs += 2
		shared := g.FreshName()
		if vs := g.intVarsHere(); len(vs) > 0 && g.intn(2, "scopeShadow") == 0 {
			if v := vs[g.intn(len(vs), "scopeVar")]; !g.reserved[v.Name] {
				shared = v.Name
			}
		}
		reader, outer, p := g.FreshName(), g.FreshName(), g.FreshName()
		g.Env.Put(&VarInfo{Name: reader, T: TAny, Len: -1})
		g.Env.Put(&VarInfo{Name: outer, T: TFunc, Arity: 1, Ret: TInt, Len: -1})
		rbody := Block(N("ret", Bin("+", g.orDefault(Var(shared)), Int(int64(g.intn(5, "scopeK"))))))
		obody := Block(Set(shared, Bin("*", Var(p), Int(int64(2+g.intn(3, "scopeM"))))), N("ret", Bin("+", Call(Var(reader)), Var(shared))))
		return []*Node{
			&Node{K: "func", S: reader, Kids: []*Node{rbody}},
			&Node{K: "func", S: outer, Names: []string{p}, Kids: []*Node{obody}},
			N("arr", Call(Var(outer), g.smallArg(d-1)), Call(Var(reader))),
		}
	case 0:
		// nested array and an alias of one of its rows
		name := g.FreshName()
		rows := 1 + g.intn(3, "nestRows")
		a := N("arr")
		for i := 0; i < rows; i++ {
			a.Kids = append(a.Kids, g.arrILit(1+g.intn(3, "nestLen")))
		}
		g.Env.Put(&VarInfo{Name: name, T: TArr, Ret: TArrI, Len: rows})
		out := []*Node{Set(name, a)}
		if g.intn(2, "nestAlias") == 0 {
			al := g.FreshName()
			g.Env.Put(&VarInfo{Name: al, T: TArrI, Len: -1})
			out = append(out, Set(al, N("idx", Var(name), Int(int64(g.intn(rows, "nestRow"))))))
		}
		return out
	case 1, 2:
		// mutation through a nested path
		for _, v := range g.Env.OfType(TArr) {
			if v.Ret == TArrI && v.Len > 0 {
				row := N("idx", Var(v.Name), Int(int64(g.intn(v.Len, "nestI"))))
				switch g.intn(3, "nestMut") {
				case 0:
					return []*Node{MCall(row, "push", g.intExpr(d-1))}
				case 1:
					return []*Node{N("setidx", row, g.indexFor(-1), g.intExpr(d-1))}
				}
				return []*Node{MCall(row, []string{"pop", "shift"}[g.intn(2, "popShift")])}
			}
		}
		return []*Node{g.assignStmt(d)}
	case 3:
		// dict alias, then a write through the alias
		ds := g.Env.OfType(TDict)
		if len(ds) == 0 {
			return []*Node{g.assignStmt(d)}
		}
		v := ds[g.intn(len(ds), "dictAliasOf")]
		al := g.FreshName()
		g.Env.Put(&VarInfo{Name: al, T: TDict, Len: -1, Keys: append([]string(nil), v.Keys...)})
		k := []string{"x", "y", "z", "hp"}[g.intn(4, "aliasKey")]
		if g.O.SingleKeyDicts {
			// a second key would make every text that prints the dict depend on Go map order
			if len(v.Keys) == 0 || !isPlainIdent(v.Keys[0]) {
				return []*Node{Set(al, Var(v.Name))}
			}
			k = v.Keys[0]
		}
		return []*Node{Set(al, Var(v.Name)), &Node{K: "setattr", S: al, Names: []string{k}, Kids: []*Node{g.intExpr(d - 1)}}}
	case 4, 5:
		// a function put into a container
		fs := g.Env.OfType(TFunc)
		if len(fs) == 0 {
			return g.funcStmt(d)
		}
		f := fs[g.intn(len(fs), "boxFn")]
		name := g.FreshName()
		if g.intn(2, "boxKind") == 0 {
			k := []string{"x", "y", "hp", "k y"}[g.intn(4, "boxKey")]
			g.Env.Put(&VarInfo{Name: name, T: TAny, Len: -1})
			g.Env.Boxes = append(g.Env.Boxes, Box{Name: name, Dict: true, Key: k, Arity: f.Arity})
			return []*Node{Set(name, N("dict", Str(k, g.intn(2, "q")), Var(f.Name)))}
		}
		g.Env.Put(&VarInfo{Name: name, T: TAny, Len: -1})
		g.Env.Boxes = append(g.Env.Boxes, Box{Name: name, Index: 1, Arity: f.Arity})
		return []*Node{Set(name, N("arr", Int(int64(g.intn(9, "boxPad"))), Var(f.Name)))}
	case 6, 7:
		// computed value that uses its own attribute space, and a write to that space
		name := g.FreshName()
		attr := compAttrs[g.intn(len(compAttrs), "cAttr")]
		save := g.O.SideFx
		g.O.SideFx = false
		saveLoop := g.loopDepth
		g.loopDepth = 0 // a computed body is a code block of its own
		body := g.compBody(Bin([]string{"+", "*", "-"}[g.intn(3, "cOp")], g.orDefault(&Node{K: "this", S: attr}), g.intExpr(d-1)))
		g.loopDepth = saveLoop
		g.O.SideFx = save
		g.Env.Put(&VarInfo{Name: name, T: TComp, Ret: TInt, Len: -1})
		out := []*Node{&Node{K: "setc", S: name, Kids: []*Node{body}}}
		switch g.intn(4, "cSetAttr") {
		case 0:
		case 1:
			// define, read, then write the attribute: a second execution of this group (loop body,
			// function called twice) must start from an empty attribute space again
			r := g.FreshName()
			g.Env.Put(&VarInfo{Name: r, T: TInt, Len: -1})
			out = append(out, Set(r, Var(name)), &Node{K: "setca", S: name, Names: []string{attr}, Kids: []*Node{g.intExpr(d - 1)}})
		default:
			out = append(out, &Node{K: "setca", S: name, Names: []string{attr}, Kids: []*Node{g.intExpr(d - 1)}})
		}
		return out
	case 8:
		// a second name for a computed value (raw copy shares the attribute space)
		cs := g.Env.OfType(TComp)
		if len(cs) == 0 {
			return g.computedStmt(d)
		}
		c := cs[g.intn(len(cs), "cAliasOf")]
		al := g.FreshName()
		g.Env.Put(&VarInfo{Name: al, T: TComp, Ret: TInt, Len: -1})
		return []*Node{Set(al, &Node{K: "raw", S: c.Name})}
	default:
		// a function that mutates the array it is given, called on an existing array
		if g.inFunc || g.funcs >= 3 {
			return []*Node{g.assignStmt(d)}
		}
		arrs := g.Env.OfType(TArrI)
		if len(arrs) == 0 {
			return []*Node{g.assignStmt(d)}
		}
		g.funcs++
		fn := g.FreshName()
		p, q := g.FreshName(), g.FreshName()
		body := Block(MCall(Var(p), "push", Var(q)), N("ret", MCall(Var(p), "len")))
		g.Env.Put(&VarInfo{Name: fn, T: TAny, Len: -1})
		v := arrs[g.intn(len(arrs), "mutArg")]
		if v.Len >= 0 {
			v.Len++
		}
		return []*Node{
			&Node{K: "func", S: fn, Names: []string{p, q}, Kids: []*Node{body}},
			Call(Var(fn), Var(v.Name), g.intExpr(d-1)),
		}
	}
}
