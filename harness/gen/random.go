package gen

// Randomness-dense constructs for the checks whose oracle is seed replay (C06):
// dice of every enabled family at a raised rate, the random array methods
// shuffle / rand / randSize, and dice without a sides operand.  Everything here is
// reached only through the options DiceBoost, RandMethods and DefaultSides.

// RandTerm is an int-valued expression that draws from the generator.
func (g *G) RandTerm(d int) *Node {
	var kinds []string
	if g.O.Dice {
		kinds = append(kinds, "dice", "dice", "dice")
	}
	if g.O.RandMethods {
		kinds = append(kinds, "rand", "randSize", "shuffle")
	}
	if len(kinds) == 0 {
		return g.intLeaf()
	}
	switch kinds[g.intn(len(kinds), "randTermKind")] {
	case "dice":
		return g.Dice(d)
	case "rand":
		a, _ := g.randSubject(d)
		return MCall(a, "rand")
	case "randSize":
		a, n := g.randSubject(d)
		return MCall(MCall(a, "randSize", g.randCount(n)), "sum")
	default:
		a, n := g.randSubject(d)
		sh := MCall(a, "shuffle")
		if g.intn(2, "shuffleUse") == 0 {
			return N("idx", sh, g.indexFor(n))
		}
		return MCall(sh, "rand")
	}
}

// randSubject is an int array (mostly non-empty) and its statically known length (-1 unknown).
func (g *G) randSubject(d int) (*Node, int) {
	vars := g.Env.OfType(TArrI)
	if len(vars) > 0 && g.intn(2, "randSubjVar") == 0 {
		v := vars[g.intn(len(vars), "randSubjPick")]
		return Var(v.Name), v.Len
	}
	switch g.intn(6, "randSubjKind") {
	case 0:
		lo := int64(g.intn(5, "randRangeLo"))
		n := 1 + g.intn(8, "randRangeN")
		return N("range", Int(lo), Int(lo+int64(n)-1)), n
	case 1:
		if d > 0 {
			// elements are themselves dice
			a := N("arr")
			n := 1 + g.intn(3, "randDiceArrLen")
			for i := 0; i < n; i++ {
				a.Kids = append(a.Kids, g.Dice(d-1))
			}
			return a, n
		}
	}
	n := g.intn(7, "randLitLen") // 0 = empty on purpose: rand() of an empty array is an error
	if n > 0 {
		n = 1 + g.intn(6, "randLitLen2")
	}
	return g.arrILit(n), n
}

func (g *G) randCount(n int) *Node {
	if n < 0 {
		return Int(int64(g.intn(3, "randCountBlind")))
	}
	if g.intn(10, "randCountOver") == 0 {
		return Int(int64(n + 1))
	}
	if g.O.Dice && n >= 1 && g.intn(6, "randCountDice") == 0 {
		return &Node{K: "dice", Kids: []*Node{None(), Int(int64(n)), None(), None(), None()}}
	}
	return Int(int64(g.intn(n+1, "randCount")))
}

// randArr is an array-valued expression whose order/selection is random.
func (g *G) randArr(d int) *Node {
	a, n := g.randSubject(d)
	if g.intn(2, "randArrKind") == 0 {
		return MCall(a, "shuffle")
	}
	return MCall(a, "randSize", g.randCount(n))
}

// randStmt is a statement that consumes randomness: an in-place shuffle of an array
// variable, or an assignment of a random term.
func (g *G) randStmt(d int) *Node {
	vars := g.Env.OfType(TArrI)
	if len(vars) > 0 && g.intn(2, "randStmtShuffle") == 0 {
		v := vars[g.intn(len(vars), "randStmtVar")]
		return MCall(Var(v.Name), "shuffle")
	}
	name := g.FreshName()
	e := g.RandTerm(d - 1)
	g.Env.Put(&VarInfo{Name: name, T: TInt, Len: -1})
	return Set(name, e)
}

// dropSides removes the sides operand of an XdY node where the grammar allows it:
// `Xd` takes k/q/kh/kl/dh/dl and min/max; a bare `d` takes only 优势/劣势
// (`dk2`, `dmin3` would be identifiers).
func (g *G) dropSides(n *Node) {
	if n.Kids[0].IsNone() {
		if n.S != "" && n.S != "adv" && n.S != "dis" {
			return
		}
		if !n.Kids[3].IsNone() || !n.Kids[4].IsNone() {
			return
		}
	} else if n.S == "adv" || n.S == "dis" {
		return
	}
	n.Kids[1] = None()
}
