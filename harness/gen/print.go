package gen

import (
	"strconv"
	"strings"
)

// Precedence levels, loosest to tightest (DESIGN.md appendix B, transcribed from roll.peg).
const (
	lvAssign  = 0  // exprRoot: assignment forms
	lvSlice   = 1  // T[a:b]
	lvTernary = 2  // c ? a : b, chains
	lvOr      = 3  // ||
	lvAnd     = 4  // &&
	lvBitOr   = 5  // |
	lvBitAnd  = 6  // &
	lvCmp     = 7  // < <= == != >= >
	lvAdd     = 8  // + -
	lvMul     = 9  // * / %
	lvNullC   = 10 // ??
	lvPow     = 11 // ** ^
	lvUnary   = 12 // prefix - +
	lvPrimary = 13
)

func binLevel(op string) int {
	switch op {
	case "||":
		return lvOr
	case "&&":
		return lvAnd
	case "|":
		return lvBitOr
	case "&":
		return lvBitAnd
	case "<", "<=", "==", "!=", ">=", ">":
		return lvCmp
	case "+", "-":
		return lvAdd
	case "*", "/", "%":
		return lvMul
	case "??":
		return lvNullC
	case "**", "^":
		return lvPow
	}
	return lvPrimary
}

// Level returns the grammar level at which a node can appear without parentheses.
func Level(n *Node) int {
	switch n.K {
	case "set", "setc", "setca", "setthis", "setattr", "setidx", "setslice":
		return lvAssign
	case "slice":
		return lvSlice
	case "tern", "chain":
		return lvTernary
	case "bin":
		return binLevel(n.S)
	case "neg", "pos":
		return lvUnary
	}
	return lvPrimary
}

// Noise supplies the printer's free choices (whitespace, redundant parentheses, separators).
// The zero value prints canonically.  Values are consumed cyclically so a case
// can store them.
type Noise struct {
	Vals []int
	pos  int
}

func (z *Noise) next(n int) int {
	if z == nil || len(z.Vals) == 0 || n <= 1 {
		return 0
	}
	v := z.Vals[z.pos%len(z.Vals)]
	z.pos++
	if v < 0 {
		v = -v
	}
	return v % n
}

// Span records where a node was printed.
type Span struct {
	Node       *Node
	Begin, End int
}

type Printer struct {
	sb    strings.Builder
	Z     *Noise
	Spans []Span
	// BareNewline allows "\n" alone as a statement separator where the grammar makes it one.
	BareNewline bool
	// NoParenNoise disables redundant parentheses (they change detail text, C14).
	NoParenNoise bool
}

// Print renders a program or expression canonically.
func Print(n *Node) string {
	p := &Printer{}
	p.node(n, lvAssign)
	return p.sb.String()
}

// PrintNoisy renders with whitespace/parenthesis noise drawn from z.
func PrintNoisy(n *Node, z *Noise) (string, []Span) {
	p := &Printer{Z: z, BareNewline: true}
	p.node(n, lvAssign)
	return p.sb.String(), p.Spans
}

func (p *Printer) String() string { return p.sb.String() }
func (p *Printer) Node(n *Node)   { p.node(n, lvAssign) }
func (p *Printer) w(s string)     { p.sb.WriteString(s) }
func (p *Printer) Len() int       { return p.sb.Len() }

// sp emits optional whitespace at a slot where the grammar has `sp`.
func (p *Printer) sp(def string) {
	switch p.Z.next(12) {
	case 0, 1, 2, 3, 4, 5, 6:
		p.w(def)
	case 7:
		p.w(" ")
	case 8:
		p.w("  ")
	case 9:
		p.w("\t")
	case 10:
		p.w(" \n ")
	case 11:
		p.w("\r\n")
	}
}

// spNoCR emits optional blanks where only space/tab are allowed.
func (p *Printer) spNoCR() {
	switch p.Z.next(10) {
	case 8:
		p.w(" ")
	case 9:
		p.w("\t")
	}
}

// sp1 emits at least one whitespace character.
func (p *Printer) sp1() {
	switch p.Z.next(8) {
	case 6:
		p.w("  ")
	case 7:
		p.w("\n")
	default:
		p.w(" ")
	}
}

func (p *Printer) node(n *Node, minLevel int) {
	if n == nil {
		return
	}
	begin := p.sb.Len()
	lv := Level(n)
	paren := lv < minLevel
	if !paren && !p.NoParenNoise && !IsStmtOnly(n.K) && n.K != "none" && n.K != "part" && n.K != "hole" && n.K != "dmod" && p.Z.next(14) == 13 {
		paren = true
	}
	if paren {
		// sub <- '(' sp exprRoot ')' sp : no blank may precede ')'
		p.w("(")
		p.sp("")
		p.raw(n)
		p.w(")")
	} else {
		p.raw(n)
	}
	p.Spans = append(p.Spans, Span{n, begin, p.sb.Len()})
}

// postfix states
const (
	pfNone = iota
	pfIdent
	pfIdentCall
	pfIdx
	pfIdxCall
	pfAttr
	pfAttrCall
	pfParen
	pfArr
	pfArrIdx
	pfDict
	pfThis
	pfRaw
)

// chainText renders a postfix chain into a scratch printer so that illegal
// steps can fall back to parenthesising the prefix.
func (p *Printer) chain(n *Node) (string, int) {
	sub := &Printer{Z: p.Z, BareNewline: p.BareNewline, NoParenNoise: p.NoParenNoise}
	st := sub.chainInto(n)
	return sub.sb.String(), st
}

func (sub *Printer) chainInto(n *Node) int {
	switch n.K {
	case "var":
		sub.w(n.S)
		return pfIdent
	case "raw":
		sub.w("&" + n.S)
		return pfRaw
	case "arr", "range":
		sub.raw(n)
		return pfArr
	case "dict":
		sub.raw(n)
		return pfDict
	case "this":
		sub.w("this." + n.S)
		return pfAttr
	case "idx":
		txt, st := sub.chain(n.Kids[0])
		switch st {
		case pfIdent, pfIdentCall, pfIdx, pfIdxCall, pfParen, pfArr, pfArrIdx, pfDict:
			sub.w(txt)
		default:
			sub.w("(" + txt + ")")
			st = pfParen
		}
		sub.w("[")
		sub.sp("")
		sub.node(n.Kids[1], lvAssign)
		sub.sp("")
		sub.w("]")
		if st == pfArr || st == pfArrIdx {
			return pfArrIdx
		}
		return pfIdx
	case "attr":
		txt, st := sub.chain(n.Kids[0])
		_ = st
		sub.w(txt)
		sub.w("." + n.S)
		return pfAttr
	case "call":
		txt, st := sub.chain(n.Kids[0])
		switch st {
		case pfIdent, pfIdx, pfAttr:
			sub.w(txt)
			sub.args(n.Kids[1:])
			switch st {
			case pfIdent:
				return pfIdentCall
			case pfIdx:
				return pfIdxCall
			}
			return pfAttrCall
		}
		// calling the result of something that cannot be called directly is not expressible;
		// print as (callee)(args) — the grammar will reject it, generators never build it.
		sub.w("(" + txt + ")")
		sub.args(n.Kids[1:])
		return pfNone
	case "mcall":
		txt, _ := sub.chain(n.Kids[0])
		sub.w(txt)
		sub.w("." + n.S)
		sub.args(n.Kids[1:])
		return pfAttrCall
	}
	sub.w("(")
	sub.sp("")
	sub.node(n, lvAssign)
	sub.w(")")
	return pfParen
}

// elem prints a member of a comma-separated list (array element, dict value,
// call argument).  An else-less chain there is ambiguous with the list's own
// commas, so it is always parenthesised.
func (p *Printer) elem(n *Node) {
	p.elemBefore(n, &Node{K: "tern"})
}

// elemBefore prints list member n that is followed by member next (nil: last member).  A chain may
// stand bare when what follows cannot be read as a further "cond ? value" arm.
func (p *Printer) elemBefore(n, next *Node) {
	if endsInChain(n) && (startsTernaryLike(next) || p.Z.next(3) == 0) {
		p.w("(")
		p.raw(n)
		p.w(")")
		return
	}
	p.node(n, lvAssign)
}

// startsTernaryLike: the printed form of n begins with `expr ?` at its top level.
func startsTernaryLike(n *Node) bool {
	for n != nil {
		switch n.K {
		case "tern", "chain":
			return true
		case "slice":
			n = n.Kids[0]
		default:
			return false
		}
	}
	return false
}

// endsInChain: the element is an else-less chain or an assignment whose right-hand side is one
// (`[x = c ? 1, d ? 2, 3]` would give the chain the list's next element).
func endsInChain(n *Node) bool {
	for n != nil {
		switch n.K {
		case "chain":
			return true
		case "set", "setc", "setca", "setthis", "setattr", "setidx", "setslice":
			if len(n.Kids) == 0 {
				return false
			}
			n = n.Kids[len(n.Kids)-1]
		default:
			return false
		}
	}
	return false
}

func (p *Printer) args(args []*Node) {
	p.w("(")
	p.sp("")
	for i, a := range args {
		if i > 0 {
			p.w(",")
			p.sp(" ")
		}
		var next *Node
		if i+1 < len(args) {
			next = args[i+1]
		}
		p.elemBefore(a, next)
		if i == 0 || i == len(args)-1 {
			p.sp("") // func_invoke2 <- '(' sp exprRoot sp (',' sp exprRoot)* sp ')'
		}
	}
	p.w(")")
}

// identGuard emits a blank when the text printed so far ends in an identifier
// (which would otherwise swallow a following ':'); after a number no blank may
// be printed because the slice grammar wants ':' immediately.
func (p *Printer) identGuard() {
	t := p.sb.String()
	i := len(t)
	isId := func(c byte) bool {
		return c >= 0x80 || c == '_' || c == '$' || (c >= '0' && c <= '9') || (c >= 'a' && c <= 'z') || (c >= 'A' && c <= 'Z')
	}
	for i > 0 && (isId(t[i-1]) || t[i-1] == ':') {
		i--
	}
	if i == len(t) {
		return
	}
	run := t[i:]
	allNum := true
	for j := 0; j < len(run); j++ {
		if !(run[j] >= '0' && run[j] <= '9') {
			allNum = false
		}
	}
	if allNum {
		// could still be the tail of a float (".5") or of an identifier-free number: no blank
		return
	}
	p.w(" ")
}

// startsSigned reports whether the leftmost token of n is a prefix sign, which
// after a bare newline would continue the previous expression.
func startsSigned(n *Node) bool {
	for n != nil {
		switch n.K {
		case "neg", "pos", "setc", "setca", "raw":
			// a leading '-', '+' or '&' after a bare newline continues the previous expression
			return true
		case "bin", "tern", "chain", "slice", "idx", "attr", "call", "mcall", "setidx", "setslice":
			if len(n.Kids) == 0 {
				return false
			}
			n = n.Kids[0]
		default:
			return false
		}
	}
	return false
}

// nos prints a dice operand: a number or a parenthesised expression.
func (p *Printer) nos(n *Node) {
	if n.K == "int" {
		p.w(strconv.FormatInt(n.I, 10))
		return
	}
	p.w("(")
	p.sp("")
	p.node(n, lvAssign)
	p.w(")")
}

func opText(op string, full int) string {
	if full == 1 {
		switch op {
		case "+":
			return "＋"
		case "-":
			return "－"
		case "*":
			return "＊"
		case "/":
			return "／"
		}
	}
	return op
}

// EncodeString spells text as a literal in delimiter style q (0 ' 1 " 2 ` 3 \x1e).
// ok is false when the text cannot be written in that style with the documented escapes.
func EncodeString(text string, q int, z *Noise) (string, bool) {
	delim := []string{"'", "\"", "`", "\x1e"}[q]
	if (q == 2 && strings.Contains(text, "`")) || (q == 3 && strings.Contains(text, "\x1e")) {
		return "", false
	}
	var sb strings.Builder
	sb.WriteString(delim)
	sb.WriteString(encodeBody(text, q, z))
	sb.WriteString(delim)
	return sb.String(), true
}

func encodeBody(text string, q int, z *Noise) string {
	var sb strings.Builder
	for _, r := range text {
		switch {
		case r == '\\':
			sb.WriteString("\\\\")
		case r == '\'' && q == 0:
			sb.WriteString("\\'")
		case r == '"' && q == 1:
			sb.WriteString("\\\"")
		case r == '\'' && z.next(4) == 3:
			sb.WriteString("\\'")
		case r == '"' && z.next(4) == 3:
			sb.WriteString("\\\"")
		case r == '{' && (q >= 2 || z.next(3) == 2):
			sb.WriteString("\\{")
		case r == '}' && z.next(3) == 2:
			sb.WriteString("\\}")
		case r == '\n' && z.next(2) == 1:
			sb.WriteString("\\n")
		case r == '\r' && z.next(2) == 1:
			sb.WriteString("\\r")
		case r == '\t' && z.next(2) == 1:
			sb.WriteString("\\t")
		case r == '\f' && z.next(2) == 1:
			sb.WriteString("\\f")
		default:
			sb.WriteRune(r)
		}
	}
	return sb.String()
}

func (p *Printer) raw(n *Node) {
	switch n.K {
	case "none":
	case "int":
		if n.Q > 0 && n.I >= 0 {
			p.w(strings.Repeat("0", n.Q))
		}
		p.w(strconv.FormatInt(n.I, 10))
	case "flt":
		p.w(n.S)
	case "true", "false", "null":
		p.w(n.K)
	case "str":
		q := n.Q
		s, ok := EncodeString(n.S, q, p.Z)
		if !ok {
			s, _ = EncodeString(n.S, 0, p.Z)
		}
		p.w(s)
	case "tmpl":
		delim := "`"
		if n.Q == 3 {
			delim = "\x1e"
		}
		p.w(delim)
		for _, k := range n.Kids {
			if k.K == "part" {
				p.w(encodeBody(k.S, n.Q, p.Z))
				continue
			}
			if k.Q == 1 {
				p.w("{%")
				p.sp(" ")
				p.stmts(k.Kids, false)
				p.sp(" ")
				p.w("%}")
			} else {
				p.w("{")
				p.sp("")
				p.stmts(k.Kids, false)
				p.sp("")
				p.w("}")
			}
		}
		p.w(delim)
	case "arr":
		p.w("[")
		p.sp("")
		for i, k := range n.Kids {
			if i > 0 {
				p.w(",")
				p.sp(" ")
			}
			var next *Node
			if i+1 < len(n.Kids) {
				next = n.Kids[i+1]
			}
			p.elemBefore(k, next)
		}
		p.w("]")
	case "range":
		p.w("[")
		p.sp("")
		p.node(n.Kids[0], lvAssign)
		p.w("..") // no blank before "..": exprRoot does not swallow trailing whitespace after a number
		p.sp("")
		p.node(n.Kids[1], lvAssign)
		p.w("]")
	case "dict":
		p.w("{")
		p.sp("")
		for i := 0; i+1 < len(n.Kids); i += 2 {
			if i > 0 {
				p.w(",")
				p.sp(" ")
			}
			k := n.Kids[i]
			if k.K == "var" {
				p.w(k.S)
			} else {
				p.node(k, lvAssign)
			}
			if k.K == "str" || k.K == "int" {
				p.sp("")
			} else {
				p.w(" ") // an identifier would swallow a directly following ':'
			}
			p.w(":")
			p.sp(" ")
			p.elemBefore(n.Kids[i+1], nil) // the next member starts with a key, which is no ternary arm
			p.sp("")
		}
		if n.Q == 1 && len(n.Kids) > 0 {
			p.w(",")
		}
		p.w("}")
	case "var", "raw", "this", "idx", "attr", "call", "mcall":
		txt, _ := p.chain(n)
		p.w(txt)
	case "slice":
		p.node(n.Kids[0], lvTernary)
		p.w("[")
		p.sp("")
		if !n.Kids[1].IsNone() {
			p.node(n.Kids[1], lvAssign)
			p.identGuard()
		}
		p.w(":")
		p.sp("")
		if !n.Kids[2].IsNone() {
			p.node(n.Kids[2], lvAssign)
			p.sp("")
		}
		p.w("]")
	case "neg":
		p.w("-")
		p.sp("")
		p.node(n.Kids[0], lvPrimary)
	case "pos":
		p.w("+")
		p.sp("")
		p.node(n.Kids[0], lvPrimary)
	case "bin":
		lv := binLevel(n.S)
		lmin, rmin := lv, lv+1
		switch lv {
		case lvMul:
			lmin, rmin = lvMul, lvPow
		case lvNullC:
			lmin, rmin = lvNullC, lvPow
		case lvPow:
			lmin, rmin = lvPow, lvUnary
		}
		p.node(n.Kids[0], lmin)
		p.sp(" ")
		p.w(opText(n.S, n.Q))
		p.sp(" ")
		p.node(n.Kids[1], rmin)
	case "tern":
		p.node(n.Kids[0], lvOr)
		p.sp(" ")
		p.w("?")
		p.sp(" ")
		p.node(n.Kids[1], lvOr)
		p.w(" ")
		p.sp("")
		p.w(":")
		p.sp(" ")
		p.node(n.Kids[2], lvOr)
	case "chain":
		for i := 0; i+1 < len(n.Kids); i += 2 {
			if i > 0 {
				p.w(",")
				p.sp(" ")
			}
			p.node(n.Kids[i], lvOr)
			p.sp(" ")
			p.w("?")
			p.sp(" ")
			p.node(n.Kids[i+1], lvOr)
		}
	case "set":
		p.w(n.S)
		p.sp(" ")
		p.w("=")
		p.sp(" ")
		p.node(n.Kids[0], lvAssign)
	case "setc":
		p.w("&" + n.S)
		p.sp(" ")
		p.w("=")
		p.sp(" ")
		p.node(n.Kids[0], lvAssign)
	case "setca":
		p.w("&" + n.S)
		p.w("." + n.Names[0])
		p.sp(" ")
		p.w("=")
		p.sp(" ")
		p.node(n.Kids[0], lvAssign)
	case "setthis":
		p.w("this." + n.S)
		p.sp(" ")
		p.w("=")
		p.sp(" ")
		p.node(n.Kids[0], lvAssign)
	case "setattr":
		p.w(n.S + "." + n.Names[0])
		p.sp(" ")
		p.w("=")
		p.sp(" ")
		p.node(n.Kids[0], lvAssign)
	case "setidx":
		p.node(n.Kids[0], lvSlice)
		p.w("[")
		p.sp("")
		p.node(n.Kids[1], lvAssign)
		p.w("]")
		p.sp(" ")
		p.w("=")
		p.sp(" ")
		p.node(n.Kids[2], lvAssign)
	case "setslice":
		p.node(n.Kids[0], lvSlice)
		p.w("[")
		p.sp("")
		if !n.Kids[1].IsNone() {
			p.node(n.Kids[1], lvAssign)
			p.identGuard()
		}
		p.w(":")
		p.sp("")
		if !n.Kids[2].IsNone() {
			p.node(n.Kids[2], lvAssign)
		}
		p.w("]")
		p.sp(" ")
		p.w("=")
		p.sp(" ")
		p.node(n.Kids[3], lvAssign)

	case "dice":
		d := "d"
		if n.Q == 1 {
			d = "D"
		}
		if !n.Kids[0].IsNone() {
			p.nos(n.Kids[0])
		}
		p.w(d)
		if !n.Kids[1].IsNone() {
			p.nos(n.Kids[1])
		}
		switch n.S {
		case "adv":
			p.w("优势")
		case "dis":
			p.w("劣势")
		case "":
		default:
			p.w(n.S)
			if len(n.Kids) > 2 && !n.Kids[2].IsNone() {
				p.nos(n.Kids[2])
			}
		}
		if len(n.Kids) > 3 && !n.Kids[3].IsNone() {
			p.w("min")
			p.nos(n.Kids[3])
		}
		if len(n.Kids) > 4 && !n.Kids[4].IsNone() {
			p.w("max")
			p.nos(n.Kids[4])
		}
	case "xdice":
		// a custom dice operand (C17): S is the operand text, printed verbatim; like a dice
		// term it is an operand of the exprDice level that swallows no trailing whitespace
		p.w(n.S)
	case "fate":
		p.w("f")
	case "coc":
		p.w(n.S)
		if len(n.Kids) > 0 && !n.Kids[0].IsNone() {
			p.nos(n.Kids[0])
		}
	case "wod":
		if !n.Kids[0].IsNone() {
			p.nos(n.Kids[0])
		}
		p.w("a")
		p.nos(n.Kids[1])
		for _, m := range n.Kids[2:] {
			p.w(m.S)
			p.nos(m.Kids[0])
		}
	case "dc":
		p.nos(n.Kids[0])
		p.w("c")
		p.nos(n.Kids[1])
		for _, m := range n.Kids[2:] {
			p.w(m.S)
			p.nos(m.Kids[0])
		}

	case "prog":
		p.stmts(n.Kids, true)
	case "block":
		p.w("{")
		p.sp(" ")
		p.stmts(n.Kids, false)
		p.sp(" ")
		p.w("}")
	case "if":
		p.w("if")
		p.sp1()
		p.node(n.Kids[0], lvAssign)
		p.sp(" ")
		p.raw(n.Kids[1])
		if len(n.Kids) > 2 && !n.Kids[2].IsNone() {
			p.sp(" ")
			p.w("else")
			if n.Kids[2].K == "if" {
				p.sp1()
				p.raw(n.Kids[2])
			} else {
				p.sp(" ")
				p.raw(n.Kids[2])
			}
		}
	case "while":
		p.w("while")
		p.sp1()
		p.node(n.Kids[0], lvAssign)
		p.sp(" ")
		p.raw(n.Kids[1])
	case "break":
		p.w("break")
	case "continue":
		p.w("continue")
	case "func":
		p.w("func")
		p.sp1()
		p.w(n.S)
		p.sp("")
		p.w("(")
		p.sp("")
		for i, a := range n.Names {
			if i > 0 {
				p.w(",")
				p.sp(" ")
			}
			p.w(a)
			p.sp("")
		}
		p.w(")")
		p.sp(" ")
		p.raw(n.Kids[0])
	case "ret":
		p.w("return")
		if len(n.Kids) > 0 && !n.Kids[0].IsNone() {
			p.sp1()
			p.node(n.Kids[0], lvAssign)
		}
	default:
		p.w("/*?" + n.K + "*/")
	}
}

// endsBare reports whether the printed form of a statement ends in a token that
// does not swallow trailing whitespace (number, identifier, dice term), so that
// a bare newline after it is a statement separator.
func endsBare(text string) bool {
	if text == "" {
		return false
	}
	c := text[len(text)-1]
	return c >= '0' && c <= '9'
}

// bareEnd reports whether no rule on the rightmost path of n swallows trailing
// whitespace (ternaries and chains end in `sp`, as do strings, brackets and keywords).
func bareEnd(n *Node) bool {
	for n != nil {
		switch n.K {
		case "int", "flt", "var", "dice", "xdice":
			return true
		case "set", "setc", "setca", "setthis", "setattr", "setidx", "setslice", "bin", "neg", "pos":
			if len(n.Kids) == 0 {
				return false
			}
			n = n.Kids[len(n.Kids)-1]
		default:
			return false
		}
	}
	return false
}

func (p *Printer) stmts(list []*Node, top bool) {
	for i, s := range list {
		start := p.sb.Len()
		p.node(s, lvAssign)
		if i == len(list)-1 {
			// optional trailing separator
			if p.Z.next(10) == 9 {
				p.w(";")
			}
			break
		}
		txt := p.sb.String()[start:]
		if IsBlockStmt(s.K) && s.K != "ret" {
			// no separator needed after a block statement; one is allowed
			switch p.Z.next(4) {
			case 0:
				p.w(" ")
			case 1:
				p.w("\n")
			case 2:
				p.w(";")
				p.sp(" ")
			case 3:
				p.w(" ; ")
			}
			continue
		}
		if s.K == "ret" {
			// stmtReturn is followed by stmtLines? directly: only an immediate ';' separates
			p.w(";")
			p.sp(" ")
			continue
		}
		if p.BareNewline && endsBare(txt) && bareEnd(s) && !startsSigned(list[i+1]) && p.Z.next(5) == 4 {
			p.spNoCR()
			p.w("\n")
			p.sp("")
			continue
		}
		p.sp("")
		p.w(";")
		p.sp(" ")
	}
}
