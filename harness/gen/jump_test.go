package gen

import (
	"os"
	"regexp"
	"testing"

	"pgregory.net/rapid"
)

func TestHoleJumpsOccur(t *testing.T) {
	if os.Getenv("GEN_DEV") == "" {
		t.Skip()
	}
	re := regexp.MustCompile("(?s)[`\x1e][^`\x1e]*\\{[^`\x1e]*(break|continue)")
	n, hit := 0, 0
	rapid.Check(t, func(t *rapid.T) {
		o := DefaultOpts()
		o.Extra, o.Dice, o.MaxStmts, o.MaxDepth = true, true, 7, 3
		g := NewG(t, o, &Env{})
		src := Print(g.Program())
		n++
		if re.MatchString(src) {
			hit++
			if hit < 4 {
				t.Log(src)
			}
		}
	})
	t.Logf("%d of %d programs have a jump inside a hole", hit, n)
}
