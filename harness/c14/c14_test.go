// C14 — the calculation-process text explains the result and observing it is harmless.
//
// Sections
//
//	expr     generated arithmetic over dice terms (every family, modifiers, chains, sub-rolls, variables, spacing,
//	         line breaks, several statements) on a seeded VM: spans, alignment, annotations, re-evaluation, harmlessness
//	enum     bounded exhaustive: every ordered pair of a fixed term alphabet joined by + - *, in a few layouts
//	session  several programs in a row on one VM with the text requested or not, against a twin VM that asks differently
//	computed variables bound to computed values (`&n = 2d6 + x`): the nested process text of the body (rebased spans)
//	tail     a generated expression followed by free text: the text must describe the consumed part and never fail
package c14

import (
	"encoding/hex"
	"encoding/json"
	"fmt"
	"sort"
	"strconv"
	"strings"
	"testing"
	"unicode"

	ds "github.com/sealdice/dicescript"
	"pgregory.net/rapid"

	"verif/harness/rt"
)

// ---------------------------------------------------------------------------
// cases

type Case struct {
	Seed string `json:"seed"`
	// Mode: "" | "min" | "max" (DiceMinMode / DiceMaxMode): the text explains the result under every mode
	Mode string   `json:"mode,omitempty"`
	Vars []VarDef `json:"vars"`
	Prog *Program `json:"prog"`
	Tail string   `json:"tail,omitempty"`
	Src  string   `json:"src"` // informational: what Run receives (recomputed from Prog on replay)
}

func newVM(seed string, vars []VarDef) *ds.Context {
	b, _ := hex.DecodeString(seed)
	sb := make([]byte, 16)
	copy(sb, b)
	vm := &ds.Context{Seed: sb}
	vm.Init()
	vm.Config.EnableDiceWoD = true
	vm.Config.EnableDiceCoC = true
	vm.Config.EnableDiceFate = true
	vm.Config.EnableDiceDoubleCross = true
	vm.Config.OpCountLimit = 30000
	storeVars(vm, vars)
	return vm
}

func storeVars(vm *ds.Context, vars []VarDef) {
	for _, v := range vars {
		if v.InProg {
			continue
		}
		var val *ds.VMValue
		if v.Expr != "" {
			val = ds.NewComputedVal(v.Expr)
		} else {
			val = ds.NewIntVal(ds.IntType(v.Val))
		}
		if v.Host {
			// the host's own table, consulted when the VM does not know the name
			table, _ := vm.CustomFlag["c14host"].(map[string]*ds.VMValue)
			if table == nil {
				table = map[string]*ds.VMValue{}
				if vm.CustomFlag == nil {
					vm.CustomFlag = map[string]any{}
				}
				vm.CustomFlag["c14host"] = table
				vm.GlobalValueLoadFunc = func(name string) *ds.VMValue { return table[name] }
			}
			table[v.Name] = val
			continue
		}
		vm.Attrs.Store(v.Name, val)
	}
}

// ---------------------------------------------------------------------------
// observations

type spanV struct {
	B, E  int
	RetOK bool
	RetI  int64
	Ret   string
	Text  string
	Expr  string
	Tag   string
}

type obs struct {
	ret      string
	retIsInt bool
	retInt   int64
	seed     string
	attrs    map[string]string
	spans    []spanV
}

func valStr(v *ds.VMValue) string {
	if v == nil {
		return "<nil>"
	}
	return fmt.Sprintf("%d:%s", v.TypeId, v.ToString())
}

func observe(vm *ds.Context) obs {
	o := obs{attrs: map[string]string{}}
	if vm.Ret != nil {
		o.ret = vm.Ret.ToString()
		if i, ok := vm.Ret.ReadInt(); ok {
			o.retIsInt, o.retInt = true, int64(i)
		}
	} else {
		o.ret = "<nil>"
	}
	if sd, err := vm.GetCurSeed(); err == nil {
		o.seed = hex.EncodeToString(sd)
	}
	vm.Attrs.Range(func(k string, v *ds.VMValue) bool {
		if v != nil && v.TypeId == ds.VMTypeComputedValue {
			// a computed value prints as its expression; its private attribute space is not touched by this domain
			o.attrs[k] = "computed:" + v.ToString()
		} else {
			o.attrs[k] = valStr(v)
		}
		return true
	})
	for _, sp := range vm.DetailSpans {
		v := spanV{B: int(sp.Begin), E: int(sp.End), Text: sp.Text, Expr: sp.Expr, Tag: sp.Tag}
		if sp.Ret != nil {
			v.Ret = sp.Ret.ToString()
			if i, ok := sp.Ret.ReadInt(); ok {
				v.RetOK, v.RetI = true, int64(i)
			}
		} else {
			v.Ret = "<nil>"
		}
		o.spans = append(o.spans, v)
	}
	return o
}

func fmtAttrs(m map[string]string) string {
	keys := make([]string, 0, len(m))
	for k := range m {
		keys = append(keys, k)
	}
	sort.Strings(keys)
	var sb strings.Builder
	for _, k := range keys {
		fmt.Fprintf(&sb, "%s=%s ", k, m[k])
	}
	return sb.String()
}

func fmtSpans(sp []spanV) string {
	var sb strings.Builder
	for _, s := range sp {
		fmt.Fprintf(&sb, "[%d,%d)=%s{%s|%s|%s} ", s.B, s.E, s.Ret, s.Tag, s.Expr, clipS(s.Text, 40))
	}
	return sb.String()
}

// diff names the first observable that differs between two observations of the same VM.
func (a obs) diff(b obs) (sig, got, want string) {
	if a.ret != b.ret {
		return "harmless:ret", b.ret, a.ret
	}
	if a.seed != b.seed {
		return "harmless:seed", b.seed, a.seed
	}
	if fmtAttrs(a.attrs) != fmtAttrs(b.attrs) {
		return "harmless:attrs", fmtAttrs(b.attrs), fmtAttrs(a.attrs)
	}
	if fmtSpans(a.spans) != fmtSpans(b.spans) {
		return "harmless:spans", fmtSpans(b.spans), fmtSpans(a.spans)
	}
	return "", "", ""
}

// ---------------------------------------------------------------------------
// the oracle applied after a successful Run

type runInfo struct {
	text        string
	emptyText   bool
	abbreviated int
	listings    int
	wsAbsorbed  int
	groups      int
	evalSkipped string
}

type failer func(oracle, sig, observed, expected string) *rt.Failure

func isAllSpace(s string) bool {
	return strings.TrimFunc(s, unicode.IsSpace) == ""
}

// vmGroups merges the VM's spans into the ranges that the text replaces: a span that begins inside or directly at
// the end of the previous range belongs to it (sub-rolls, chained dice); the range's value is that of the span
// that ends last.
type vmGroup struct {
	b, e int
	top  spanV
	all  []spanV
}

func sortedSpans(sp []spanV) []spanV {
	out := append([]spanV(nil), sp...)
	sort.SliceStable(out, func(i, j int) bool {
		if out[i].B != out[j].B {
			return out[i].B < out[j].B
		}
		return out[i].E > out[j].E
	})
	return out
}

func vmGroups(sp []spanV) []vmGroup {
	var gs []vmGroup
	for _, s := range sortedSpans(sp) {
		if len(gs) == 0 || s.B > gs[len(gs)-1].e {
			gs = append(gs, vmGroup{b: s.B, e: s.E, top: s, all: []spanV{s}})
			continue
		}
		g := &gs[len(gs)-1]
		g.all = append(g.all, s)
		if s.E > g.e {
			g.e = s.E
			g.top = s
		}
	}
	return gs
}

type l2group struct {
	top    *termInfo
	subs   []*termInfo
	b, e   int
	vmTop  spanV
	vmOf   map[*termInfo]spanV
	nTerms int
}

func checkAfterRun(vm *ds.Context, src string, pr *printed, vars []VarDef, mk failer) (*rt.Failure, runInfo) {
	info := runInfo{}
	before := observe(vm)
	if pr == nil {
		// every reported span must lie inside what was consumed (otherwise it belongs to text the parser gave up on)
		off := vm.GetParsedOffset()
		for _, sp := range before.spans {
			if sp.B < 0 || sp.E < sp.B || sp.E > off {
				return mk("spans", "span-beyond-consumed", fmt.Sprintf("parsed offset %d, spans %s", off, fmtSpans(before.spans)), "spans inside the consumed source"), info
			}
		}
	}

	// (e) + (d): ask twice, nothing else may move
	var t1, t2 string
	if pi := rt.Guard(func() { t1 = vm.GetDetailText() }); pi != nil {
		return mk("never-fails", pi.Sig(), "GetDetailText panicked: "+pi.Value+" spans: "+fmtSpans(before.spans), "a string"), info
	}
	mid := observe(vm)
	if pi := rt.Guard(func() { t2 = vm.GetDetailText() }); pi != nil {
		return mk("never-fails", pi.Sig(), "second GetDetailText panicked: "+pi.Value, "a string"), info
	}
	after := observe(vm)
	if t1 != t2 {
		return mk("idempotent", "idempotent:text", fmt.Sprintf("first %q then %q", t1, t2), "the same text twice"), info
	}
	if sig, got, want := before.diff(mid); sig != "" {
		return mk("harmless", sig, "after GetDetailText: "+got, "as before the call: "+want), info
	}
	if sig, got, want := before.diff(after); sig != "" {
		return mk("harmless", sig, "after the second GetDetailText: "+got, "as before the call: "+want), info
	}
	info.text = t1

	offset := vm.GetParsedOffset()
	if offset < 0 || offset > len(src) {
		return mk("alignment", "align:offset", fmt.Sprintf("parsed offset %d of %d bytes", offset, len(src)), "within the input"), info
	}
	S := src[:offset]

	// ranges replaced in the text
	var groups []gspan
	var l2 []*l2group
	vg := vmGroups(before.spans)
	if pr == nil {
		for _, sp := range before.spans {
			if !sp.RetOK {
				// a span whose value is not an integer (undefined name, string, …): not arithmetic over dice
				info.evalSkipped = "non-int-span"
				return nil, info
			}
		}
		for _, g := range vg {
			groups = append(groups, gspan{g.b, g.e})
		}
	} else {
		vs := sortedSpans(before.spans)
		if len(vs) != len(pr.terms) {
			return mk("spans", "spans:count", fmt.Sprintf("%d spans: %s", len(vs), fmtSpans(vs)), fmt.Sprintf("%d terms: %s", len(pr.terms), fmtTerms(pr.terms, src))), info
		}
		vmOf := map[*termInfo]spanV{}
		for i, ti := range pr.terms {
			v := vs[i]
			if v.B != ti.b || v.E < ti.e || v.E > len(src) || !isAllSpace(src[ti.e:v.E]) {
				return mk("spans", "spans:mismatch", fmt.Sprintf("span %d is [%d,%d) %q", i, v.B, v.E, safeSlice(src, v.B, v.E)), fmt.Sprintf("[%d,%d) %q (+ trailing blanks)", ti.b, ti.e, src[ti.b:ti.e])), info
			}
			if v.E > ti.e {
				info.wsAbsorbed++
			}
			vmOf[ti] = v
		}
		var cur *l2group
		for _, ti := range pr.terms {
			if ti.depth == 0 && !(ti.kind == "xdy" && ti.linkI > 0) {
				cur = &l2group{b: ti.b, vmOf: vmOf}
				l2 = append(l2, cur)
			}
			if cur == nil {
				return mk("spans", "spans:mismatch", "nested term before any top-level term", "generator invariant"), info
			}
			cur.nTerms++
			if ti.depth == 0 {
				if cur.top != nil {
					cur.subs = append(cur.subs, cur.top)
				}
				cur.top = ti
			} else {
				cur.subs = append(cur.subs, ti)
			}
		}
		for _, g := range l2 {
			g.vmTop = vmOf[g.top]
			g.e = g.vmTop.E
			sort.SliceStable(g.subs, func(i, j int) bool { return vmOf[g.subs[i]].E < vmOf[g.subs[j]].E })
			groups = append(groups, gspan{g.b, g.e})
		}
	}
	info.groups = len(groups)

	text := t1
	if text == "" && len(groups) > 0 {
		// the text is left empty when it would be the result itself
		info.emptyText = true
		text = before.ret
	}
	if text == "" && len(groups) == 0 {
		// no roll at all: the source is its own process
		text = strings.TrimSpace(S)
	}
	al, stripped, aerr := align(text, S, groups)
	if aerr != nil {
		return mk("alignment", aerr.sig, fmt.Sprintf("text %q: %s", t1, aerr.msg), "the parsed source with every roll replaced by value[annotation]"), info
	}

	// (b) value of every replaced range = the value of the roll (the span that ends last in the range)
	for i, a := range al {
		var top spanV
		if pr == nil {
			top = vg[i].top
		} else {
			top = l2[i].vmTop
		}
		if !top.RetOK || top.RetI != a.val {
			return mk("annotation-value", "value:span-ret", fmt.Sprintf("text %q shows %s for %q", t1, a.valStr, safeSlice(src, groups[i].b, groups[i].e)), "the roll's value "+top.Ret), info
		}
	}

	if pr != nil {
		for i, g := range l2 {
			if f := checkGroup(g, al[i], len(l2), src, vars, t1, mk, &info); f != nil {
				return f, info
			}
		}
	}

	// (c) the de-annotated text re-evaluates to the result
	if !before.retIsInt {
		info.evalSkipped = "result-not-int"
		return nil, info
	}
	if pr != nil && pr.defsEnd > 0 {
		// the leading `&name = body;` statements appear verbatim; only what follows is arithmetic
		pre := strings.TrimLeftFunc(src[:pr.defsEnd], unicode.IsSpace)
		if !strings.HasPrefix(stripped, pre) {
			return mk("alignment", "align:gap", fmt.Sprintf("text %q does not begin with the definitions %q", t1, pre), "the definitions verbatim"), info
		}
		stripped = stripped[len(pre):]
	}
	if pr == nil {
		// a negative value that opens a line reads as a subtraction from the line before (in the text as in the
		// language); generated programs avoid that layout, free text cannot: not judged
		for i, a := range al {
			if a.val < 0 {
				before := strings.TrimRight(S[:groups[i].b], " \t\r")
				if strings.HasSuffix(before, "\n") && strings.TrimSpace(before) != "" {
					info.evalSkipped = "negative-value-opens-a-line"
					return nil, info
				}
			}
		}
	}
	v, err := evalText(stripped)
	switch {
	case err == errOverflow:
		info.evalSkipped = "overflow"
	case err != nil:
		if pr != nil {
			return mk("re-evaluation", "eval:not-arithmetic", fmt.Sprintf("text %q without annotations is %q", t1, stripped), "an arithmetic expression"), info
		}
		info.evalSkipped = "not-arithmetic"
	case v != before.retInt:
		return mk("re-evaluation", "eval:result", fmt.Sprintf("text %q without annotations is %q = %d", t1, stripped, v), "the result "+before.ret), info
	}
	return nil, info
}

// errClass shortens an error text to a stable class name (parse errors carry positions).
func errClass(e string) string {
	e = firstLine(e)
	if e != "" && e[0] >= '0' && e[0] <= '9' {
		return "parse-error"
	}
	r := []rune(e)
	if len(r) > 14 {
		r = r[:14]
	}
	return string(r)
}

func firstLine(s string) string {
	if i := strings.IndexByte(s, '\n'); i >= 0 {
		return s[:i]
	}
	return s
}

func safeSlice(s string, b, e int) string {
	if b < 0 || e > len(s) || b > e {
		return fmt.Sprintf("<[%d,%d) of %d>", b, e, len(s))
	}
	return s[b:e]
}

func fmtTerms(ts []*termInfo, src string) string {
	var sb strings.Builder
	for _, t := range ts {
		fmt.Fprintf(&sb, "[%d,%d)%q ", t.b, t.e, safeSlice(src, t.b, t.e))
	}
	return sb.String()
}

// ---------------------------------------------------------------------------
// annotation of one top-level roll

type evalEnv struct {
	vars  map[string]int64
	nodes map[*Node]int64
	links map[*Link]int64
}

func (env *evalEnv) node(n *Node) (int64, bool) {
	switch n.K {
	case "lit":
		v, err := strconv.ParseInt(n.S, 10, 64)
		return v, err == nil
	case "var":
		v, ok := env.vars[n.S]
		return v, ok
	case "cvar", "dice":
		v, ok := env.nodes[n]
		return v, ok
	case "par", "pos":
		return env.node(n.L)
	case "neg":
		v, ok := env.node(n.L)
		return -v, ok
	case "bin":
		l, ok1 := env.node(n.L)
		r, ok2 := env.node(n.R)
		if !ok1 || !ok2 {
			return 0, false
		}
		switch n.S {
		case "+", "＋":
			return l + r, true
		case "-", "－":
			return l - r, true
		}
		return l * r, true
	}
	return 0, false
}

func (env *evalEnv) operand(o *Operand, dflt int64) (int64, bool) {
	if o == nil {
		return dflt, true
	}
	if o.Sub == nil {
		v, err := strconv.ParseInt(o.Num, 10, 64)
		return v, err == nil
	}
	return env.node(o.Sub)
}

func parseTrailingInt(s string) (rest string, v int64, ok bool) {
	j := len(s)
	for j > 0 && s[j-1] >= '0' && s[j-1] <= '9' {
		j--
	}
	if j == len(s) {
		return s, 0, false
	}
	if j > 0 && s[j-1] == '-' {
		j--
	}
	v, err := strconv.ParseInt(s[j:], 10, 64)
	if err != nil {
		return s, 0, false
	}
	return s[:j], v, true
}

func checkGroup(g *l2group, a galigned, nGroups int, src string, vars []VarDef, text string, mk failer, info *runInfo) *rt.Failure {
	where := fmt.Sprintf("text %q, roll %q", text, src[g.b:g.e])
	env := &evalEnv{vars: map[string]int64{}, nodes: map[*Node]int64{}, links: map[*Link]int64{}}
	for _, v := range vars {
		if v.Expr == "" {
			env.vars[v.Name] = v.Val
		}
	}
	top := g.top
	baseText := strings.TrimRight(src[g.b:g.e], " \t\r\n") // blanks swallowed by the last token stay outside the annotation

	if top.kind == "cvar" {
		return checkComputedGroup(g, a, src, vars, text, mk, info)
	}

	if a.ann == "" {
		// the annotation may only be dropped when the roll is the only one and shows nothing beyond its value
		if nGroups != 1 || len(g.subs) > 0 {
			return mk("annotation", "annotation:missing", where+" has no annotation", "value[annotation] (it may be dropped only for a single roll without sub-rolls)")
		}
		if top.kind == "var" {
			return nil
		}
		if top.kind == "xdy" {
			if times, ok := xdyTimes(top, env); ok && times == 1 {
				return nil
			}
		}
		return mk("annotation", "annotation:missing", where+" has no annotation", "value[annotation] listing the dice")
	}
	inner := a.ann[1 : len(a.ann)-1]
	if inner == "略" {
		info.abbreviated++
		return nil
	}
	if top.kind == "var" {
		if inner != baseText {
			return mk("annotation", "annotation:load", where+" is annotated "+a.ann, "["+baseText+"]")
		}
		return nil
	}

	// sub-rolls: `,src=value` for every other span of the range, ordered by where they end
	rest := inner
	for k := len(g.subs) - 1; k >= 0; k-- {
		sub := g.subs[k]
		vsp := g.vmOf[sub]
		r2, v, ok := parseTrailingInt(rest)
		want := "," + strings.TrimRight(src[vsp.B:vsp.E], " \t\r\n") + "="
		if !ok || !strings.HasSuffix(r2, want) {
			return mk("annotation", "annotation:subdetail", where+" annotation "+a.ann, fmt.Sprintf("sub-roll %d of %d shown as %q<value>", k+1, len(g.subs), want))
		}
		if !vsp.RetOK || v != vsp.RetI {
			return mk("annotation-value", "value:sub-ret", fmt.Sprintf("%s: sub-roll %q shown as %d", where, src[vsp.B:vsp.E], v), "its value "+vsp.Ret)
		}
		switch sub.kind {
		case "var":
			if want, ok := env.vars[sub.node.S]; ok && want != v {
				return mk("annotation-value", "value:variable", fmt.Sprintf("%s: variable %s shown as %d", where, sub.node.S, v), fmt.Sprint(want))
			}
			// (a variable node's value is looked up by name)
		case "xdy":
			env.links[sub.link] = v
			if sub.linkI == len(sub.node.D.Links)-1 {
				env.nodes[sub.node] = v
			}
		default:
			env.nodes[sub.node] = v
		}
		rest = r2[:len(r2)-len(want)]
	}

	// head
	var listing string
	hasListing := false
	matchHead := func(head string, fold bool) bool {
		if len(rest) < len(head) {
			return false
		}
		got := rest[:len(head)]
		if got != head && !(fold && strings.EqualFold(got, head)) {
			return false
		}
		tailS := rest[len(head):]
		if tailS == "" {
			return true
		}
		if tailS[0] != '=' {
			return false
		}
		listing, hasListing = tailS[1:], true
		return true
	}
	headOK := matchHead(baseText, false)
	if !headOK && top.kind == "xdy" && top.link.Sides == nil && top.link.Pear == "" {
		if canon, ok := defaultSidesHead(top, env); ok {
			headOK = matchHead(canon, true)
		}
	}
	if !headOK {
		return mk("annotation", "annotation:head", where+" annotation "+a.ann, "to begin with the roll's own text "+strconv.Quote(baseText))
	}

	switch top.kind {
	case "xdy":
		return checkXdy(top, env, a, listing, hasListing, where, mk, info)
	case "fate":
		if !hasListing {
			return mk("annotation", "annotation:listing-missing", where+" annotation "+a.ann, "the four fate symbols")
		}
		info.listings++
		t, err := parseFateListing(listing)
		if err != nil {
			return mk("listing", "listing:fate-form", where+": "+err.Error(), "four symbols of + 0 -")
		}
		if t != a.val {
			return mk("listing", "listing:fate-total", fmt.Sprintf("%s: symbols %q give %d", where, listing, t), a.valStr)
		}
	case "coc":
		if !hasListing {
			return mk("annotation", "annotation:listing-missing", where+" annotation "+a.ann, "(D100=…,奖励/惩罚 …)")
		}
		info.listings++
		c, err := parseCocListing(listing)
		if err != nil {
			return mk("listing", "listing:coc-form", where+": "+err.Error(), "(D100=n,奖励|惩罚 digits)")
		}
		letter := strings.ToLower(top.node.D.Letter)
		if c.bonus != (letter == "b") {
			return mk("listing", "listing:coc-kind", where+": "+listing, "bonus for b, penalty for p")
		}
		if n, ok := env.operand(top.node.D.Pool, 1); ok && int64(len(c.digits)) != n {
			return mk("listing", "listing:coc-count", fmt.Sprintf("%s: %d extra dice listed", where, len(c.digits)), fmt.Sprint(n))
		}
		if c.d100 < 1 || c.d100 > 100 {
			return mk("listing", "listing:coc-face", where+": "+listing, "D100 in 1..100")
		}
		if v := cocValue(c); v != a.val {
			return mk("listing", "listing:coc-total", fmt.Sprintf("%s: listing %q implies %d", where, listing, v), a.valStr)
		}
	case "wod":
		if !hasListing {
			return mk("annotation", "annotation:listing-missing", where+" annotation "+a.ann, "成功n/m …")
		}
		info.listings++
		return checkWod(top, env, a, listing, where, mk, info)
	case "dc":
		if !hasListing {
			return mk("annotation", "annotation:listing-missing", where+" annotation "+a.ann, "出目n/m …")
		}
		info.listings++
		return checkDC(top, env, a, listing, where, mk, info)
	}
	return nil
}

func xdyTimes(top *termInfo, env *evalEnv) (int64, bool) {
	l := top.link
	if top.linkI > 0 {
		v, ok := env.links[top.node.D.Links[top.linkI-1]]
		return v, ok
	}
	if l.Pear != "" {
		return 2, true
	}
	return env.operand(l.Count, 1)
}

func keepKind(l *Link) (high bool, drop bool, present bool) {
	switch strings.ToLower(l.Keep) {
	case "k", "kh":
		return true, false, true
	case "q", "kl":
		return false, false, true
	case "dl":
		return true, true, true // dropping the lowest keeps the highest
	case "dh":
		return false, true, true
	}
	switch l.Pear {
	case "优势", "優勢":
		return true, false, true
	case "劣势", "劣勢":
		return false, false, true
	}
	return false, false, false
}

func defaultSidesHead(top *termInfo, env *evalEnv) (string, bool) {
	times, ok := xdyTimes(top, env)
	if !ok {
		return "", false
	}
	l := top.link
	h := "D100"
	if times > 1 {
		h = fmt.Sprintf("%dD100", times)
	}
	if l.Keep != "" {
		n, ok := env.operand(l.KeepN, 1)
		if !ok {
			return "", false
		}
		switch strings.ToLower(l.Keep) {
		case "k", "kh":
			h += fmt.Sprintf("kh%d", n)
		case "q", "kl":
			h += fmt.Sprintf("kl%d", n)
		case "dh":
			h += fmt.Sprintf("dh%d", n)
		case "dl":
			h += fmt.Sprintf("dl%d", n)
		}
	}
	if l.MM != "" {
		n, ok := env.operand(l.MMN, 0)
		if !ok {
			return "", false
		}
		h += fmt.Sprintf("%s%d", l.MM, n)
	}
	return h, true
}

func checkXdy(top *termInfo, env *evalEnv, a galigned, listing string, hasListing bool, where string, mk failer, info *runInfo) *rt.Failure {
	l := top.link
	times, okT := xdyTimes(top, env)
	sides, okS := env.operand(l.Sides, 100)
	if !hasListing {
		// a single die whose face is the value needs no listing
		if okT && times != 1 {
			return mk("annotation", "annotation:listing-missing", fmt.Sprintf("%s annotation %s lists no dice though %d were rolled", where, a.ann, times), "the dice")
		}
		return nil
	}
	info.listings++
	ls, err := parseXdyListing(listing)
	if err != nil {
		return mk("listing", "listing:xdy-form", where+": "+err.Error(), "a+b+c or {kept | dropped}")
	}
	if t := sum64(ls.kept); t != a.val {
		return mk("listing", "listing:xdy-total", fmt.Sprintf("%s: the dice kept in %q total %d", where, listing, t), a.valStr)
	}
	n := int64(len(ls.kept) + len(ls.dropped))
	if okT && n != times {
		return mk("listing", "listing:xdy-count", fmt.Sprintf("%s: %d dice listed in %q", where, n, listing), fmt.Sprintf("%d dice", times))
	}
	if okS {
		lo, hi := int64(1), sides
		if l.MM != "" {
			if m, ok := env.operand(l.MMN, 0); ok {
				if l.MM == "max" {
					hi = min64(hi, m)
					lo = min64(lo, m)
				} else {
					lo = max64(lo, m)
					hi = max64(hi, m)
				}
			} else {
				lo, hi = 1, -1
			}
		}
		if hi >= lo {
			for _, d := range append(append([]int64(nil), ls.kept...), ls.dropped...) {
				if d < lo || d > hi {
					return mk("listing", "listing:xdy-face", fmt.Sprintf("%s: die %d in %q", where, d, listing), fmt.Sprintf("faces in %d..%d", lo, hi))
				}
			}
		}
	}
	high, drop, present := keepKind(l)
	if ls.braced {
		if !present {
			return mk("listing", "listing:xdy-form", fmt.Sprintf("%s: {kept | dropped} listing %q without a keep/drop modifier", where, listing), "a+b+c")
		}
		for _, k := range ls.kept {
			for _, d := range ls.dropped {
				if high && k < d || !high && k > d {
					return mk("listing", "listing:xdy-order", fmt.Sprintf("%s: %q keeps %d and drops %d", where, listing, k, d), map[bool]string{true: "the highest dice kept", false: "the lowest dice kept"}[high])
				}
			}
		}
	}
	if present && okT {
		kn := int64(1)
		okN := true
		if l.Pear == "" {
			kn, okN = env.operand(l.KeepN, 1)
		}
		if okN && kn >= 1 && kn <= times {
			want := kn
			if drop {
				want = times - kn
			}
			if int64(len(ls.kept)) != want {
				return mk("listing", "listing:xdy-kept", fmt.Sprintf("%s: %d dice kept in %q", where, len(ls.kept), listing), fmt.Sprintf("%d of %d", want, times))
			}
		}
	}
	return nil
}

func checkWod(top *termInfo, env *evalEnv, a galigned, listing, where string, mk failer, info *runInfo) *rt.Failure {
	p, err := parsePoolListing(listing, "成功")
	if err != nil {
		return mk("listing", "listing:wod-form", where+": "+err.Error(), "成功s/n [轮数:r] [{…},{…}]")
	}
	if p.head != a.val {
		return mk("listing", "listing:wod-total", fmt.Sprintf("%s: listing says %d successes", where, p.head), a.valStr)
	}
	if !p.listed {
		info.abbreviated++
		return nil
	}
	d := top.node.D
	pool, okP := env.operand(d.Pool, 1)
	line, okL := env.operand(d.Line, 0)
	points, threshold := int64(10), int64(8)
	ge, okM := true, true
	for _, m := range d.Mods {
		v, ok := env.operand(m.N, 0)
		if !ok {
			okM = false
			continue
		}
		switch strings.ToLower(m.L) {
		case "m":
			points = v
		case "k":
			threshold, ge = v, true
		case "q":
			threshold, ge = v, false
		}
	}
	var succ, total int64
	for gi, grp := range p.groups {
		var again int64
		for _, die := range grp {
			total++
			if die.success {
				succ++
			}
			if die.again {
				again++
			}
			if okM {
				if die.v < 1 || die.v > points {
					return mk("listing", "listing:wod-face", fmt.Sprintf("%s: die %d in %q", where, die.v, listing), fmt.Sprintf("1..%d", points))
				}
				if s := (ge && die.v >= threshold) || (!ge && die.v <= threshold); s != die.success {
					return mk("listing", "listing:wod-mark", fmt.Sprintf("%s: die %d success mark %v in %q", where, die.v, die.success, listing), fmt.Sprintf("success iff %s %d", map[bool]string{true: ">=", false: "<="}[ge], threshold))
				}
			}
			if okL && !maxModeNow { // under max mode nothing is rolled again (every die already shows its highest face)
				if ag := line != 0 && die.v >= line; ag != die.again {
					return mk("listing", "listing:wod-mark", fmt.Sprintf("%s: die %d re-roll mark %v in %q", where, die.v, die.again, listing), fmt.Sprintf("re-rolled iff >= %d", line))
				}
			}
		}
		if gi == 0 && okP && int64(len(grp)) != pool {
			return mk("listing", "listing:wod-count", fmt.Sprintf("%s: first round has %d dice in %q", where, len(grp), listing), fmt.Sprint(pool))
		}
		if gi+1 < len(p.groups) {
			if int64(len(p.groups[gi+1])) != again {
				return mk("listing", "listing:wod-rounds", fmt.Sprintf("%s: round %d re-rolls %d dice but round %d has %d in %q", where, gi+1, again, gi+2, len(p.groups[gi+1]), listing), "as many dice as were marked <>")
			}
		} else if again != 0 {
			return mk("listing", "listing:wod-rounds", fmt.Sprintf("%s: the last round still has %d dice marked <> in %q", where, again, listing), "a further round")
		}
	}
	if succ != a.val {
		return mk("listing", "listing:wod-total", fmt.Sprintf("%s: %d dice marked * in %q", where, succ, listing), a.valStr)
	}
	if total != p.total || int64(len(p.groups)) != p.rounds {
		return mk("listing", "listing:wod-count", fmt.Sprintf("%s: %d dice in %d rounds listed in %q", where, total, len(p.groups), listing), fmt.Sprintf("%d dice in %d rounds", p.total, p.rounds))
	}
	return nil
}

func checkDC(top *termInfo, env *evalEnv, a galigned, listing, where string, mk failer, info *runInfo) *rt.Failure {
	p, err := parsePoolListing(listing, "出目")
	if err != nil {
		return mk("listing", "listing:dc-form", where+": "+err.Error(), "[大失败 ]出目v/n [轮数:r] [{…},{…}]")
	}
	if p.head != a.val {
		return mk("listing", "listing:dc-total", fmt.Sprintf("%s: listing says %d", where, p.head), a.valStr)
	}
	if !p.listed {
		info.abbreviated++
		return nil
	}
	d := top.node.D
	pool, okP := env.operand(d.Pool, 1)
	crit, okC := env.operand(d.Line, 0)
	points, okM := int64(10), true
	for _, m := range d.Mods {
		v, ok := env.operand(m.N, 0)
		if !ok {
			okM = false
			continue
		}
		points = v
	}
	var total int64
	lastCritical := false
	for gi, grp := range p.groups {
		var again int64
		for _, die := range grp {
			total++
			if die.again {
				again++
			}
			if die.success {
				return mk("listing", "listing:dc-form", where+": * in "+listing, "no success marks")
			}
			if okM && (die.v < 1 || die.v > points) {
				return mk("listing", "listing:dc-face", fmt.Sprintf("%s: die %d in %q", where, die.v, listing), fmt.Sprintf("1..%d", points))
			}
			if okC {
				if ag := die.v >= crit; ag != die.again {
					return mk("listing", "listing:dc-mark", fmt.Sprintf("%s: die %d critical mark %v in %q", where, die.v, die.again, listing), fmt.Sprintf("critical iff >= %d", crit))
				}
			}
		}
		if gi == 0 && okP && int64(len(grp)) != pool {
			return mk("listing", "listing:dc-count", fmt.Sprintf("%s: first round has %d dice in %q", where, len(grp), listing), fmt.Sprint(pool))
		}
		if gi+1 < len(p.groups) {
			if int64(len(p.groups[gi+1])) != again {
				return mk("listing", "listing:dc-rounds", fmt.Sprintf("%s: round %d has %d criticals but round %d has %d dice in %q", where, gi+1, again, gi+2, len(p.groups[gi+1]), listing), "as many dice as were critical")
			}
		} else if again != 0 && !maxModeNow {
			return mk("listing", "listing:dc-rounds", fmt.Sprintf("%s: the last round still has criticals in %q", where, listing), "a further round")
		} else if again != 0 {
			lastCritical = true // max mode: no further round is rolled, the critical round counts as one
		}
	}
	last := p.groups[len(p.groups)-1]
	var mx int64
	for _, die := range last {
		if die.v > mx {
			mx = die.v
		}
	}
	if lastCritical {
		mx = 10
	}
	if want := 10*int64(len(p.groups)-1) + mx; want != a.val {
		return mk("listing", "listing:dc-total", fmt.Sprintf("%s: %d critical rounds and a last round with highest die %d in %q give %d", where, len(p.groups)-1, mx, listing, want), a.valStr)
	}
	if total != p.total || int64(len(p.groups)) != p.rounds {
		return mk("listing", "listing:dc-count", fmt.Sprintf("%s: %d dice in %d rounds listed in %q", where, total, len(p.groups), listing), fmt.Sprintf("%d dice in %d rounds", p.total, p.rounds))
	}
	if p.fumble != (a.val == 1) {
		return mk("listing", "listing:dc-form", where+": 大失败 flag in "+listing, "set exactly when the result is 1")
	}
	return nil
}

// ---------------------------------------------------------------------------
// computed variables: value[name=<process text of the body>=value]

// maxModeNow: the case being judged runs under DiceMaxMode (the listing rules about re-rolls differ there)
var maxModeNow bool

func checkComputedGroup(g *l2group, a galigned, src string, vars []VarDef, text string, mk failer, info *runInfo) *rt.Failure {
	name := g.top.node.S
	where := fmt.Sprintf("text %q, computed variable %s", text, name)
	var def *VarDef
	for i := range vars {
		if vars[i].Name == name {
			def = &vars[i]
		}
	}
	if def == nil || def.Expr == "" {
		return nil
	}
	if a.ann == "" {
		return mk("annotation", "annotation:missing", where+" has no annotation", "value[name=process=value]")
	}
	inner := a.ann[1 : len(a.ann)-1]
	if inner == "略" {
		info.abbreviated++
		return nil
	}
	if !strings.HasPrefix(inner, name+"=") {
		return mk("annotation", "annotation:head", where+" annotation "+a.ann, "to begin with "+name+"=")
	}
	body := inner[len(name)+1:]
	// trailing "=value"
	r2, v, ok := parseTrailingInt(body)
	if !ok || v != a.val {
		return mk("annotation", "annotation:computed-value", where+" annotation "+a.ann, "to end with ="+a.valStr)
	}
	inText := ""
	if strings.HasSuffix(r2, "=") {
		inText = r2[:len(r2)-1]
	} else if r2 != "" {
		return mk("annotation", "annotation:computed-value", where+" annotation "+a.ann, "name=process=value")
	}
	if inText == "" {
		// the body's process text equals its value
		return nil
	}
	// the nested text must be the body with its rolls replaced: re-evaluates to the value, and outside the
	// annotations it is the body verbatim
	stripped, ok := stripAnnotations(inText)
	if !ok {
		return mk("alignment", "align:bracket", where+" nested text "+strconv.Quote(inText), "balanced annotations")
	}
	if ev, err := evalNested(stripped, def, vars); err == nil && ev != a.val {
		return mk("re-evaluation", "eval:computed", fmt.Sprintf("%s: nested text %q without annotations is %q = %d", where, inText, stripped, ev), a.valStr)
	} else if err != nil && err != errOverflow {
		return mk("re-evaluation", "eval:computed-not-arithmetic", fmt.Sprintf("%s: nested text %q without annotations is %q", where, inText, stripped), "an arithmetic expression")
	}
	if def.body != nil {
		if f := alignNested(inText, def, where, mk); f != nil {
			return f
		}
	}
	info.listings++
	return nil
}

// evalNested evaluates the de-annotated nested text of a computed body.
func evalNested(stripped string, def *VarDef, vars []VarDef) (int64, error) {
	return evalText(stripped)
}

// alignNested: outside the annotations the nested text is the body's source verbatim; every term of the body has
// become an integer (optionally annotated).
func alignNested(inText string, def *VarDef, where string, mk failer) *rt.Failure {
	pr := def.body
	var groups []gspan
	var cur *gspan
	for _, ti := range pr.terms {
		if ti.depth == 0 && !(ti.kind == "xdy" && ti.linkI > 0) {
			groups = append(groups, gspan{ti.b, ti.e})
			cur = &groups[len(groups)-1]
		} else if cur != nil && ti.depth == 0 {
			cur.e = ti.e
		}
	}
	// a term that ends with ')' absorbs the blanks behind it
	S := pr.src
	for i := range groups {
		if strings.HasSuffix(strings.TrimRightFunc(S[groups[i].b:groups[i].e], unicode.IsSpace), ")") {
			for groups[i].e < len(S) && isAllSpace(S[groups[i].e:groups[i].e+1]) {
				groups[i].e++
			}
		}
	}
	if _, _, aerr := align(inText, S, groups); aerr != nil {
		return mk("alignment", "computed:"+aerr.sig, fmt.Sprintf("%s: nested text %q vs body %q: %s", where, inText, S, aerr.msg), "the body with every roll replaced by value[annotation]")
	}
	return nil
}

// ---------------------------------------------------------------------------
// one program on a fresh VM

func (c *Case) source() (string, *printed) {
	pr := printProgram(c.Prog)
	return pr.src + c.Tail, pr
}

func bindBodies(vars []VarDef) {
	for i := range vars {
		if vars[i].Expr != "" && vars[i].Body != nil {
			vars[i].body = printProgram(&Program{Stmts: []*Node{vars[i].Body}})
		}
	}
}

type caseOutcome struct {
	info    runInfo
	discard string
	rest    string
}

func checkCase(c *Case, s *rt.Section) (*rt.Failure, caseOutcome) {
	out := caseOutcome{}
	src, pr := c.source()
	c.Src = src
	bindBodies(c.Vars)
	mk := func(oracle, sig, observed, expected string) *rt.Failure {
		return s.NewFailure(oracle, sig, c, "src "+strconv.Quote(src)+": "+observed, expected)
	}
	vm := newVM(c.Seed, c.Vars)
	vm.Config.DiceMinMode, vm.Config.DiceMaxMode = c.Mode == "min", c.Mode == "max"
	maxModeNow = c.Mode == "max"
	defer func() { maxModeNow = false }()
	var err error
	if pi := rt.Guard(func() { err = vm.Run(src) }); pi != nil {
		if c.Tail != "" {
			out.discard = "run-panic"
			return nil, out
		}
		return mk("run", pi.Sig(), "Run panicked: "+pi.Value, "a result"), out
	}
	if err != nil {
		out.discard = "run-error:" + errClass(err.Error())
		return nil, out
	}
	// the host serves other users between the evaluation and the moment it asks for the text: an unrelated (seeded) VM
	// evaluates a command of its own; result and text of this VM are its own
	neighbour := &ds.Context{Seed: []byte("neighbour-seed16")}
	neighbour.Init()
	_ = rt.Guard(func() { _ = neighbour.Run("d100*1000+7 + 'x'") })
	out.rest = vm.RestInput
	if c.Tail == "" {
		if strings.TrimSpace(vm.RestInput) != "" {
			out.discard = "rest-not-empty"
			return nil, out
		}
		f, info := checkAfterRun(vm, src, pr, c.Vars, mk)
		out.info = info
		return f, out
	}
	// free text follows: only what the VM itself reports as consumed is judged
	mkTail := func(oracle, sig, observed, expected string) *rt.Failure {
		return mk(oracle, "tail:"+sig, observed+fmt.Sprintf(" (matched %q, rest %q)", vm.Matched, vm.RestInput), expected)
	}
	f, info := checkAfterRun(vm, src, nil, c.Vars, mkTail)
	out.info = info
	return f, out
}

// ---------------------------------------------------------------------------
// sessions

type Step struct {
	Prog  *Program `json:"prog,omitempty"`
	Raw   string   `json:"raw,omitempty"` // a source expected to fail (parse or run-time error)
	AskA  int      `json:"ask_a"`         // how many times VM A asks for the text after this step
	AskB  int      `json:"ask_b"`
	Split bool     `json:"split,omitempty"` // Parse + RunAfterParsed instead of Run
	Rerun int      `json:"rerun,omitempty"` // with Split: RunAfterParsed is called 1+Rerun times on the parsed program (A asks for the text between the runs when AskA > 0)
	Set   *VarDef  `json:"set,omitempty"`   // variable rebound (through the API, on both VMs) before the step
	Src   string   `json:"src,omitempty"`
}

type Session struct {
	Seed  string   `json:"seed"`
	Vars  []VarDef `json:"vars"`
	Steps []Step   `json:"steps"`
}

func checkSession(c *Session, s *rt.Section) (*rt.Failure, []string) {
	var classes []string
	a := newVM(c.Seed, c.Vars)
	b := newVM(c.Seed, c.Vars)
	vars := append([]VarDef(nil), c.Vars...)
	for i := range c.Steps {
		st := &c.Steps[i]
		if st.Set != nil {
			storeVars(a, []VarDef{*st.Set})
			storeVars(b, []VarDef{*st.Set})
			found := false
			for j := range vars {
				if vars[j].Name == st.Set.Name {
					vars[j] = *st.Set
					found = true
				}
			}
			if !found {
				vars = append(vars, *st.Set)
			}
		}
		var src string
		var pr *printed
		if st.Prog != nil {
			pr = printProgram(st.Prog)
			src = pr.src
		} else {
			src = st.Raw
		}
		st.Src = src
		mk := func(oracle, sig, observed, expected string) *rt.Failure {
			return s.NewFailure(oracle, sig, c, fmt.Sprintf("step %d src %s: %s", i, strconv.Quote(src), observed), expected)
		}
		var ea, eb error
		runIt := func(vm *ds.Context) error {
			if st.Split {
				if err := vm.Parse(src); err != nil {
					return err
				}
				for k := 0; k < st.Rerun; k++ {
					if err := vm.RunAfterParsed(); err != nil {
						return err
					}
					if vm == a && st.AskA > 0 {
						_ = vm.GetDetailText()
					}
				}
				return vm.RunAfterParsed()
			}
			return vm.Run(src)
		}
		if pi := rt.Guard(func() { ea = runIt(a) }); pi != nil {
			if st.Prog == nil {
				classes = append(classes, "discard:run-panic")
				return nil, classes
			}
			return mk("run", pi.Sig(), "Run panicked: "+pi.Value, "a result"), classes
		}
		if pi := rt.Guard(func() { eb = runIt(b) }); pi != nil {
			return mk("run", pi.Sig(), "Run panicked on the twin: "+pi.Value, "a result"), classes
		}
		if (ea == nil) != (eb == nil) {
			return mk("twin", "session:err", fmt.Sprintf("A: %v, B: %v", ea, eb), "the same outcome on both VMs"), classes
		}
		if ea != nil {
			classes = append(classes, "step-error")
			// asking for the text of a run that failed must not fail either (no stale spans of the previous program)
			for k := 0; k < st.AskA; k++ {
				if pi := rt.Guard(func() { _ = a.GetDetailText() }); pi != nil {
					return mk("never-fails", "after-error:"+pi.Sig(), "GetDetailText after a failed Run panicked: "+pi.Value, "a string"), classes
				}
			}
			// the generator state must still agree
			sa, sb := observe(a).seed, observe(b).seed
			if sa != sb {
				return mk("twin", "session:seed", "after a failed step A="+sa+" B="+sb, "equal generator states"), classes
			}
			continue
		}
		if st.Prog != nil && strings.TrimSpace(a.RestInput) != "" {
			classes = append(classes, "discard:rest-not-empty")
			return nil, classes
		}
		if st.Prog == nil {
			pr = nil
		}
		var ta, tb string
		for k := 0; k < st.AskA; k++ {
			f, info := checkAfterRun(a, src, pr, vars, mk)
			if f != nil {
				return f, classes
			}
			ta = info.text
		}
		for k := 0; k < st.AskB; k++ {
			if pi := rt.Guard(func() { tb = b.GetDetailText() }); pi != nil {
				return mk("never-fails", pi.Sig(), "GetDetailText panicked on the twin: "+pi.Value, "a string"), classes
			}
		}
		if st.AskA > 0 && st.AskB > 0 && ta != tb {
			return mk("twin", "session:text", fmt.Sprintf("A %q, B %q", ta, tb), "the same text whatever was asked before"), classes
		}
		oa, ob := observe(a), observe(b)
		if oa.ret != ob.ret {
			return mk("twin", "session:ret", fmt.Sprintf("A %s, B %s", oa.ret, ob.ret), "the same result whether or not the text was requested"), classes
		}
		if oa.seed != ob.seed {
			return mk("twin", "session:seed", fmt.Sprintf("A %s, B %s", oa.seed, ob.seed), "the same generator state whether or not the text was requested"), classes
		}
		if fmtAttrs(oa.attrs) != fmtAttrs(ob.attrs) {
			return mk("twin", "session:attrs", fmt.Sprintf("A %s, B %s", fmtAttrs(oa.attrs), fmtAttrs(ob.attrs)), "the same variables whether or not the text was requested"), classes
		}
	}
	return nil, classes
}

// ---------------------------------------------------------------------------
// drawing cases

func drawSeed(t *rapid.T) string {
	b := rapid.SliceOfN(rapid.Byte(), 16, 16).Draw(t, "seed")
	return hex.EncodeToString(b)
}

func classify(s *rt.Section, g *gen, src string, out caseOutcome) {
	for k := range g.feats {
		s.Class(k)
	}
	if strings.Contains(strings.TrimSpace(src), "\n") {
		s.Class("multi-line")
	}
	if g.nNest > 0 {
		s.Class("sub-roll-operand")
	}
	if out.info.emptyText {
		s.Class("text-empty(=result)")
	}
	if out.info.abbreviated > 0 {
		s.Class("annotation-abbreviated")
	}
	if out.info.wsAbsorbed > 0 {
		s.Class("blank-absorbed-into-span")
	}
	if out.info.evalSkipped != "" {
		s.Class("re-evaluation-skipped:" + out.info.evalSkipped)
	}
	switch {
	case g.nDice == 0:
		s.Class("dice-terms=0")
	case g.nDice == 1:
		s.Class("dice-terms=1")
	case g.nDice <= 3:
		s.Class("dice-terms=2-3")
	default:
		s.Class("dice-terms>=4")
	}
}

var tailWords = []string{"attack", "the", "goblin", "攻击", "力量", "x", "y", "d6", "2d6", "d", "(", ")", "[", "]", "{", "}", ",", ":", "?",
	"`", "'", "\"", "+", "-", "*", "/", "=", "==", ".", "..", "kh", "k", "&", "|", "||", "&&", "!", "<", ">", "%", "^", "\\", "#", "//",
	"if", "while", "func", "return", "else", "1", "2", "0", "1.5", "{%", "%}", "；", "，", "。", "a", "b2", "f", "3a5", "4c3", "^st", "this", "null", "true"}

func drawTail(t *rapid.T, g *gen) string {
	var sb strings.Builder
	sb.WriteString(pickOf(t, []string{" ", " ", " ", "\n", "\n", ";", "; ", " \n", "", "  ", "\t"}, "tailsep"))
	switch uniform(t, 10, "tailkind") {
	case 0, 1, 2: // a second expression cut somewhere
		g.budget = rapid.IntRange(1, 5).Draw(t, "tbudget")
		e2 := printNode(g.genExpr(2))
		cut := rapid.IntRange(0, len(e2)).Draw(t, "cut")
		for cut > 0 && cut < len(e2) && (e2[cut]&0xC0) == 0x80 {
			cut--
		}
		pre := pickOf(t, []string{"", "", "[", "{", "(", "`{", "'", "x(", "x[", "[x,", "{x:", "x ? "}, "tailopen")
		sb.WriteString(pre + e2[:cut])
	default:
		n := rapid.IntRange(1, 6).Draw(t, "ntail")
		for i := 0; i < n; i++ {
			if i > 0 && pct(t, 50, "tsp") {
				sb.WriteString(pickOf(t, []string{" ", " ", "\n"}, "tspc"))
			}
			sb.WriteString(pickOf(t, tailWords, "tword"))
		}
	}
	return sb.String()
}

// ---------------------------------------------------------------------------
// bounded exhaustive enumeration

var enumTerms = []string{
	"3", "x", "力量", "d6", "2d6", "3d6k2", "3d6kh", "4d6q1", "4d6kl2", "4d6dl1", "4d6dh", "3d20min10", "3d20max5", "d20优势", "d20劣势",
	"d", "2d", "3dk2", "d劣势", "2d6d8", "d4d6d8", "(2d6)d4", "2d(d4)", "(d2+1)d(d3+x)", "2d6k(d2)", "f", "b", "b2", "p3", "p(d2)",
	"3a6", "a5", "4a8k6", "2a10m6q3", "(d3)a6", "3c6", "4c8m9", "(d3)c7", "20a9", "20c9", "150d20", "(x)", "-d6", "-(2d6)", "2D6K1", "2d(6)",
}

func parseEnumTerm(txt string) *Node {
	n, err := parseDomain(txt)
	if err != nil {
		panic("enum term " + txt + ": " + err.Error())
	}
	return n
}

var enumVars = []VarDef{{Name: "x", Val: 3}, {Name: "力量", Val: 60}}

// ---------------------------------------------------------------------------

func TestProp(t *testing.T) {
	run := rt.Begin(t, "C14")
	defer run.Finish()
	thorough := run.Env.Thorough()

	exprRule := "programs of 1..3 statements (82% one) drawn from: int literals, variables (ASCII, CJK, accented, full-width names bound to ints), + - * in ASCII and full-width spelling, unary signs, parentheses, dice terms of every family (XdY with k/kh/q/kl/dh/dl[n], min/max, 优势/劣势, default sides, chains, Fate, CoC b/p[n], WoD XaYmZkNqM, Double Cross XcYmZ) whose operands are numbers or parenthesised sub-expressions with guaranteed legal ranges (sub-rolls up to 3 deep), blanks/tabs/CR/LF wherever the grammar takes them, ';' or line-break separators, on a VM seeded with 16 drawn bytes; oracle: VM spans = printer spans, text = source with every top-level roll replaced by value[annotation], value = span Ret, annotation = roll text [= dice listing][,sub=value…] with the listing's total/count/faces/marks implied by the operands, de-annotated text re-evaluates to Ret, GetDetailText twice equal and Ret/Attrs/seed/DetailSpans untouched; non-trivial = at least 2 dice terms and at least 1 binary operator; distinct by (source, seed, variables)"
	run.Check("expr", 40000, 400000, exprRule, func(t *rapid.T, s *rt.Section) {
		c := &Case{Seed: drawSeed(t), Vars: drawVars(t, false), Mode: rapid.SampledFrom([]string{"", "", "", "", "min", "max"}).Draw(t, "mode")}
		g := newGen(t, c.Vars)
		g.avoid = s.Avoid
		depth := 3
		if thorough && pct(t, 10, "deep") {
			depth = 4
		}
		c.Prog = g.genProgram(3, depth)
		src, _ := c.source()
		c.Src = src
		s.Eval()
		h := rt.Hash(src, c.Seed, fmt.Sprint(c.Vars))
		if g.nDice >= 2 && g.nOps >= 1 {
			s.NonTrivial(h)
		}
		if len(src) < 60 {
			s.Sample(h, map[string]any{"src": src, "seed": c.Seed, "vars": c.Vars})
		}
		s.Crumb(c)
		f, out := checkCase(c, s)
		if out.discard != "" {
			s.Discard(out.discard)
		}
		classify(s, g, src, out)
		s.Report(t, f)
	})

	enumRule := "every ordered pair (T1, T2) of a fixed alphabet of %d term spellings (each family, modifier, chain, sub-roll, default sides, abbreviated 20-dice pools and 150d20, variables, signs) joined by + - * in %d layouts (tight, spaced, line break before/after the operator, parenthesised right operand, two statements) x %d seeds, same oracle as expr; non-trivial = both sides are dice terms; distinct by (source, seed)"
	run.Enum("enum", fmt.Sprintf(enumRule, len(enumTerms), len(enumLayouts), enumSeeds(thorough)), func(s *rt.Section) {
		s.Exhaustive = true
		s.Bounds = fmt.Sprintf("%d terms x %d terms x 3 operators x %d layouts x %d seeds", len(enumTerms), len(enumTerms), len(enumLayouts), enumSeeds(thorough))
		enumerate(s, run, thorough)
	})

	sessRule := "2..5 programs (as in expr) run in a row on VM A, which asks for the text 0..3 times after each (30% of the steps go through Parse + RunAfterParsed instead of Run), and on a twin B with the same seed that asks a different number of times; 12% of the steps fail (d0, 0d6, unbalanced parenthesis; asking for the text afterwards must not fail) and 15% rebind a variable through Attrs; oracle: the full expr oracle on A whenever it asks (catches a stale cache or stale spans from the previous program), and equal Ret / generator state / variables / text between A and B after every step; non-trivial = at least 2 successful steps with dice, with A and B asking differently before the last; distinct by step list"
	run.Check("session", 8000, 70000, sessRule, func(t *rapid.T, s *rt.Section) {
		c := &Session{Seed: drawSeed(t), Vars: drawVars(t, false)}
		n := rapid.IntRange(2, 5).Draw(t, "nsteps")
		diceSteps, differ := 0, false
		nt := false
		for i := 0; i < n; i++ {
			st := Step{}
			if i > 0 && pct(t, 15, "rebind") {
				v := pickOf(t, c.Vars, "which")
				st.Set = &VarDef{Name: v.Name, Val: rapid.Int64Range(1, 9).Draw(t, "newval")}
			}
			if pct(t, 12, "bad") {
				st.Raw = pickOf(t, []string{"d0", "0d6", "(2d6", "2d6+(", "3d6k0", "(0-1)d6", "2a1", "d(0)", "2c1"}, "raw")
			} else {
				g := newGen(t, c.Vars)
				g.avoid = s.Avoid
				st.Prog = g.genProgram(2, 2)
				if g.nDice > 0 {
					diceSteps++
					if diceSteps >= 2 && differ {
						nt = true
					}
				}
			}
			st.Split = pct(t, 30, "split")
			if st.Split && pct(t, 40, "rerun") {
				st.Rerun = 1 + rapid.IntRange(0, 2).Draw(t, "reruns")
			}
			st.AskA = pickOf(t, []int{0, 0, 1, 1, 1, 2, 3}, "askA")
			st.AskB = pickOf(t, []int{0, 0, 0, 1, 2}, "askB")
			if (st.AskA > 0) != (st.AskB > 0) && st.Raw == "" {
				differ = true
			}
			c.Steps = append(c.Steps, st)
		}
		s.Eval()
		s.Crumb(c)
		f, classes := checkSession(c, s)
		b, _ := json.Marshal(c)
		h := rt.HashBytes(b)
		if nt {
			s.NonTrivial(h)
		}
		if len(b) < 1500 {
			s.Sample(h, sessionSummary(c))
		}
		for _, cl := range classes {
			if strings.HasPrefix(cl, "discard:") {
				s.Discard(strings.TrimPrefix(cl, "discard:"))
			} else {
				s.Class(cl)
			}
		}
		s.Class(fmt.Sprintf("steps=%d", len(c.Steps)))
		s.Report(t, f)
	})

	compRule := "as expr, with 1..2 variables bound to computed values whose body is a generated expression (no default-sides dice: they crash inside a computed body, a C01 matter), either stored through the API or defined in the program itself by a leading `&name = body;` statement (body spans are rebased by fixCodeByOffset); oracle: value[name=<nested text>=value] where the nested text is the body with its rolls replaced (aligned against the body source), re-evaluates to the value, plus the whole expr oracle for the rest; non-trivial = a computed variable whose body has a dice term is read next to another term; distinct by (source, seed, variables)"
	run.Check("computed", 12000, 120000, compRule, func(t *rapid.T, s *rt.Section) {
		c := &Case{Seed: drawSeed(t), Vars: drawVars(t, false), Mode: rapid.SampledFrom([]string{"", "", "", "", "min", "max"}).Draw(t, "mode")}
		nt := drawComputed(t, c)
		src, _ := c.source()
		c.Src = src
		s.Eval()
		h := rt.Hash(src, c.Seed, fmt.Sprint(varsKey(c.Vars)))
		if nt {
			s.NonTrivial(h)
		}
		if len(src) < 70 {
			s.Sample(h, map[string]any{"src": src, "seed": c.Seed, "vars": varsKey(c.Vars)})
		}
		s.Crumb(c)
		f, out := checkCase(c, s)
		if out.discard != "" {
			s.Discard(out.discard)
		}
		if out.info.emptyText {
			s.Class("text-empty(=result)")
		}
		if out.info.abbreviated > 0 {
			s.Class("annotation-abbreviated")
		}
		if c.Prog.Defs != nil {
			s.Class("defined-in-program")
		} else {
			s.Class("stored-through-api")
		}
		s.Report(t, f)
	})

	tailRule := "a generated expression (as in expr, one statement) followed by a separator (blank, line break, ';' or nothing) and free text: words, CJK text, punctuation, brackets, quotes, operators, keywords, or a second expression cut at a random byte and optionally opened by [ { ( `{ ' x( x[ — the way a chat command carries a reason after the dice; only what the VM reports as consumed is judged: GetDetailText never fails, is idempotent and harmless, the text is the consumed source with every reported span range replaced by value[annotation], the value is the span's Ret, and (when the consumed part is arithmetic) the de-annotated text re-evaluates to Ret; non-trivial = at least one dice term and a non-empty unconsumed rest; distinct by (source, seed)"
	run.Check("tail", 24000, 240000, tailRule, func(t *rapid.T, s *rt.Section) {
		c := &Case{Seed: drawSeed(t), Vars: drawVars(t, false), Mode: rapid.SampledFrom([]string{"", "", "", "", "min", "max"}).Draw(t, "mode")}
		g := newGen(t, c.Vars)
		g.avoid = s.Avoid
		g.budget = rapid.IntRange(1, 5).Draw(t, "budget")
		c.Prog = &Program{Stmts: []*Node{g.genExpr(2)}}
		c.Tail = drawTail(t, g)
		src, _ := c.source()
		c.Src = src
		s.Eval()
		s.Crumb(c)
		f, out := checkCase(c, s)
		h := rt.Hash(src, c.Seed)
		if out.discard != "" {
			s.Discard(out.discard)
		} else {
			if g.nDice >= 1 && strings.TrimSpace(out.rest) != "" {
				s.NonTrivial(h)
			}
			if strings.TrimSpace(out.rest) == "" {
				s.Class("tail-consumed")
			} else {
				s.Class("tail-left")
			}
			if out.info.evalSkipped != "" {
				s.Class("re-evaluation-skipped:" + out.info.evalSkipped)
			}
		}
		if len(src) < 50 {
			s.Sample(h, map[string]any{"src": src, "seed": c.Seed})
		}
		s.Report(t, f)
	})
}

func varsKey(vs []VarDef) string {
	var sb strings.Builder
	for _, v := range vs {
		fmt.Fprintf(&sb, "%s=%d/%s;", v.Name, v.Val, v.Expr)
	}
	return sb.String()
}

func sessionSummary(c *Session) any {
	var steps []string
	for _, st := range c.Steps {
		steps = append(steps, fmt.Sprintf("%q askA=%d askB=%d", st.Src, st.AskA, st.AskB))
	}
	return map[string]any{"seed": c.Seed, "steps": steps}
}

func TestReplay(t *testing.T) {
	one := func(b []byte, s *rt.Section) *rt.Failure {
		var c Case
		if err := json.Unmarshal(b, &c); err != nil {
			return s.NewFailure("replay", "replay:bad-case", nil, err.Error(), "")
		}
		if c.Prog == nil {
			// hand-written probe {"src": "...", "seed": "...", "vars": [...]}: a source of the domain language is
			// judged like an expr case, anything else like a tail case (only what the VM consumed is judged)
			if c.Src == "" {
				return s.NewFailure("replay", "replay:bad-case", nil, "neither prog nor src", "")
			}
			if n, err := parseDomain(c.Src); err == nil {
				c.Prog = &Program{Stmts: []*Node{n}}
			} else {
				c.Prog = &Program{}
				c.Tail = c.Src
			}
		}
		f, _ := checkCase(&c, s)
		return f
	}
	rt.Replay(t, "C14", map[string]rt.ReplayFunc{
		"expr": one, "enum": one, "computed": one, "tail": one,
		"session": func(b []byte, s *rt.Section) *rt.Failure {
			var c Session
			if err := json.Unmarshal(b, &c); err != nil {
				return s.NewFailure("replay", "replay:bad-case", nil, err.Error(), "")
			}
			f, _ := checkSession(&c, s)
			return f
		},
	})
}
