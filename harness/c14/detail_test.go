// C14 — process-text tools: aligner, annotation stripper, independent integer evaluator and the
// per-family parsers of the dice listings.
package c14

import (
	"errors"
	"fmt"
	"math"
	"strconv"
	"strings"
	"unicode"
)

// ---------------------------------------------------------------------------
// balanced brackets

// scanBracket returns the index just past the ']' matching the '[' at s[i].
func scanBracket(s string, i int) (int, bool) {
	depth := 0
	for j := i; j < len(s); j++ {
		switch s[j] {
		case '[':
			depth++
		case ']':
			depth--
			if depth == 0 {
				return j + 1, true
			}
		}
	}
	return 0, false
}

// stripAnnotations deletes every `[...]` (balanced) from the text.
func stripAnnotations(text string) (string, bool) {
	var sb strings.Builder
	for i := 0; i < len(text); {
		if text[i] == '[' {
			j, ok := scanBracket(text, i)
			if !ok {
				return "", false
			}
			i = j
			continue
		}
		if text[i] == ']' {
			return "", false
		}
		sb.WriteByte(text[i])
		i++
	}
	return sb.String(), true
}

// ---------------------------------------------------------------------------
// independent evaluator: statements separated by ';' or by a line break between two operands;
// + - * (ASCII and full-width), unary signs, parentheses, decimal int64 literals; value of the last statement

var errNotArith = errors.New("not an arithmetic expression")
var errOverflow = errors.New("int64 overflow")

type etok struct {
	k  byte // n + - * ( ) ;
	v  int64
	nl bool // a line break precedes the token
}

func etokenize(s string) ([]etok, error) {
	var out []etok
	nl := false
	for i := 0; i < len(s); {
		c := s[i]
		switch {
		case c == ' ' || c == '\t' || c == '\r':
			i++
		case c == '\n':
			nl = true
			i++
		case c >= '0' && c <= '9':
			j := i
			for j < len(s) && s[j] >= '0' && s[j] <= '9' {
				j++
			}
			v, err := strconv.ParseInt(s[i:j], 10, 64)
			if err != nil {
				return nil, errOverflow
			}
			out = append(out, etok{k: 'n', v: v, nl: nl})
			nl = false
			i = j
		case c == '+' || c == '-' || c == '*' || c == '(' || c == ')' || c == ';':
			out = append(out, etok{k: c, nl: nl})
			nl = false
			i++
		case strings.HasPrefix(s[i:], "＋"):
			out = append(out, etok{k: '+', nl: nl})
			nl = false
			i += len("＋")
		case strings.HasPrefix(s[i:], "－"):
			out = append(out, etok{k: '-', nl: nl})
			nl = false
			i += len("－")
		case strings.HasPrefix(s[i:], "＊"):
			out = append(out, etok{k: '*', nl: nl})
			nl = false
			i += len("＊")
		default:
			return nil, errNotArith
		}
	}
	return out, nil
}

type eparser struct {
	toks []etok
	i    int
}

func (p *eparser) peek() byte {
	if p.i < len(p.toks) {
		return p.toks[p.i].k
	}
	return 0
}

func addOv(a, b int64) (int64, bool) {
	c := a + b
	if (b > 0 && c < a) || (b < 0 && c > a) {
		return c, false
	}
	return c, true
}

func mulOv(a, b int64) (int64, bool) {
	if a == 0 || b == 0 {
		return 0, true
	}
	if (a == -1 && b == math.MinInt64) || (b == -1 && a == math.MinInt64) {
		return 0, false
	}
	c := a * b
	if c/b != a {
		return c, false
	}
	return c, true
}

func (p *eparser) expr() (int64, error) {
	v, err := p.mul()
	if err != nil {
		return 0, err
	}
	for p.peek() == '+' || p.peek() == '-' {
		op := p.peek()
		p.i++
		r, err := p.mul()
		if err != nil {
			return 0, err
		}
		if op == '-' {
			if r == math.MinInt64 {
				return 0, errOverflow
			}
			r = -r
		}
		var ok bool
		if v, ok = addOv(v, r); !ok {
			return 0, errOverflow
		}
	}
	return v, nil
}

func (p *eparser) mul() (int64, error) {
	v, err := p.unary()
	if err != nil {
		return 0, err
	}
	for p.peek() == '*' {
		p.i++
		r, err := p.unary()
		if err != nil {
			return 0, err
		}
		var ok bool
		if v, ok = mulOv(v, r); !ok {
			return 0, errOverflow
		}
	}
	return v, nil
}

func (p *eparser) unary() (int64, error) {
	switch p.peek() {
	case '-':
		p.i++
		v, err := p.unary()
		if err != nil {
			return 0, err
		}
		if v == math.MinInt64 {
			return 0, errOverflow
		}
		return -v, nil
	case '+':
		p.i++
		return p.unary()
	case 'n':
		v := p.toks[p.i].v
		p.i++
		return v, nil
	case '(':
		p.i++
		v, err := p.expr()
		if err != nil {
			return 0, err
		}
		if p.peek() != ')' {
			return 0, errNotArith
		}
		p.i++
		return v, nil
	}
	return 0, errNotArith
}

func evalText(s string) (int64, error) {
	toks, err := etokenize(s)
	if err != nil {
		return 0, err
	}
	p := &eparser{toks: toks}
	var last int64
	seen := false
	for p.i < len(p.toks) {
		if p.peek() == ';' {
			p.i++
			continue
		}
		if seen {
			// a new statement must be introduced by ';' (consumed above) or by a line break
			prev := p.toks[p.i-1].k
			if prev != ';' && !p.toks[p.i].nl {
				return 0, errNotArith
			}
		}
		v, err := p.expr()
		if err != nil {
			return 0, err
		}
		last, seen = v, true
	}
	if !seen {
		return 0, errNotArith
	}
	return last, nil
}

// ---------------------------------------------------------------------------
// aligner

type gspan struct{ b, e int }

type galigned struct {
	valStr string
	val    int64
	ann    string // including the brackets; "" when absent
}

type alignErr struct {
	sig string
	msg string
}

func (e *alignErr) Error() string { return e.sig + ": " + e.msg }

func parseIntPrefix(s string) (string, int64, bool) {
	j := 0
	if j < len(s) && s[j] == '-' {
		j++
	}
	k := j
	for k < len(s) && s[k] >= '0' && s[k] <= '9' {
		k++
	}
	if k == j {
		return "", 0, false
	}
	v, err := strconv.ParseInt(s[:k], 10, 64)
	if err != nil {
		return "", 0, false
	}
	return s[:k], v, true
}

// align walks the process text against the source S (= the parsed part of the input) in which the byte
// ranges `groups` (sorted, disjoint) are the rolls: everything outside them must be S verbatim (modulo the
// TrimSpace applied to the whole text), each of them must have become `value` or `value[annotation]`.
func align(text, S string, groups []gspan) ([]galigned, string, *alignErr) {
	if len(groups) == 0 {
		if text == "" || text == strings.TrimSpace(S) {
			return nil, text, nil
		}
		return nil, "", &alignErr{"align:no-terms", fmt.Sprintf("text %q for a source without terms %q", text, S)}
	}
	// the blanks that the last token of a roll swallowed (after a closing parenthesis) stay outside its
	// annotation: a roll's range ends at its last non-blank byte
	groups = append([]gspan(nil), groups...)
	for gi := range groups {
		for groups[gi].e > groups[gi].b && groups[gi].e <= len(S) && isAllSpace(S[groups[gi].e-1:groups[gi].e]) {
			groups[gi].e--
		}
	}
	var out []galigned
	var bare strings.Builder // the text without the annotations
	i := 0                   // in text
	j := 0                   // in S
	for gi, g := range groups {
		if g.b < j || g.e < g.b || g.e > len(S) {
			return nil, "", &alignErr{"align:span-range", fmt.Sprintf("group %d [%d,%d) outside the parsed source of length %d (previous end %d)", gi, g.b, g.e, len(S), j)}
		}
		gap := S[j:g.b]
		if gi == 0 {
			gap = strings.TrimLeftFunc(gap, unicode.IsSpace)
		}
		if !strings.HasPrefix(text[i:], gap) {
			return nil, "", &alignErr{"align:gap", fmt.Sprintf("before term %d (%q) the text has %q, the source has %q", gi, S[g.b:g.e], clipS(text[i:], len(gap)+12), gap)}
		}
		i += len(gap)
		bare.WriteString(gap)
		vs, v, ok := parseIntPrefix(text[i:])
		if !ok {
			return nil, "", &alignErr{"align:value", fmt.Sprintf("no integer where term %d (%q) should show its value: %q", gi, S[g.b:g.e], clipS(text[i:], 24))}
		}
		i += len(vs)
		bare.WriteString(vs)
		a := galigned{valStr: vs, val: v}
		if i < len(text) && text[i] == '[' {
			k, ok := scanBracket(text, i)
			if !ok {
				return nil, "", &alignErr{"align:bracket", fmt.Sprintf("unbalanced annotation for term %d: %q", gi, clipS(text[i:], 60))}
			}
			a.ann = text[i:k]
			i = k
		}
		out = append(out, a)
		j = g.e
	}
	tail := strings.TrimRightFunc(S[j:], unicode.IsSpace)
	if text[i:] != tail {
		return nil, "", &alignErr{"align:tail", fmt.Sprintf("after the last term the text has %q, the source has %q", clipS(text[i:], len(tail)+24), tail)}
	}
	bare.WriteString(tail)
	return out, bare.String(), nil
}

func clipS(s string, n int) string {
	if n < 8 {
		n = 8
	}
	if len(s) > n {
		return s[:n] + "…"
	}
	return s
}

// ---------------------------------------------------------------------------
// listings

type xdyListing struct {
	kept, dropped []int64
	braced        bool
}

func parseXdyListing(l string) (*xdyListing, error) {
	out := &xdyListing{}
	if strings.HasPrefix(l, "{") {
		if !strings.HasSuffix(l, "}") {
			return nil, fmt.Errorf("unterminated {…}: %q", l)
		}
		out.braced = true
		inner := strings.TrimSpace(l[1 : len(l)-1])
		seenBar := false
		for _, f := range strings.Fields(inner) {
			if f == "|" {
				if seenBar {
					return nil, fmt.Errorf("two bars: %q", l)
				}
				seenBar = true
				continue
			}
			v, err := strconv.ParseInt(f, 10, 64)
			if err != nil {
				return nil, fmt.Errorf("bad die %q in %q", f, l)
			}
			if seenBar {
				out.dropped = append(out.dropped, v)
			} else {
				out.kept = append(out.kept, v)
			}
		}
		if !seenBar {
			return nil, fmt.Errorf("no bar in %q", l)
		}
		return out, nil
	}
	// a+b+c ; a die may be negative only through a negative min/max bound, which is not generated
	for _, f := range strings.Split(l, "+") {
		v, err := strconv.ParseInt(f, 10, 64)
		if err != nil {
			return nil, fmt.Errorf("bad die %q in %q", f, l)
		}
		out.kept = append(out.kept, v)
	}
	return out, nil
}

func sum64(xs []int64) int64 {
	var s int64
	for _, x := range xs {
		s += x
	}
	return s
}

func parseFateListing(l string) (int64, error) {
	if len(l) != 4 {
		return 0, fmt.Errorf("fate listing %q is not four symbols", l)
	}
	var t int64
	for _, c := range l {
		switch c {
		case '+':
			t++
		case '-':
			t--
		case '0':
		default:
			return 0, fmt.Errorf("fate symbol %q", c)
		}
	}
	return t, nil
}

type cocListing struct {
	d100   int64
	bonus  bool
	digits []int64 // 0..9
}

func parseCocListing(l string) (*cocListing, error) {
	if !strings.HasPrefix(l, "(D100=") || !strings.HasSuffix(l, ")") {
		return nil, fmt.Errorf("coc listing %q", l)
	}
	inner := l[len("(D100=") : len(l)-1]
	i := strings.Index(inner, ",")
	if i < 0 {
		return nil, fmt.Errorf("coc listing %q", l)
	}
	v, err := strconv.ParseInt(inner[:i], 10, 64)
	if err != nil {
		return nil, fmt.Errorf("coc listing %q", l)
	}
	out := &cocListing{d100: v}
	rest := inner[i+1:]
	switch {
	case strings.HasPrefix(rest, "奖励"):
		out.bonus = true
		rest = rest[len("奖励"):]
	case strings.HasPrefix(rest, "惩罚"):
		rest = rest[len("惩罚"):]
	default:
		return nil, fmt.Errorf("coc listing %q", l)
	}
	for _, f := range strings.Fields(rest) {
		d, err := strconv.ParseInt(f, 10, 64)
		if err != nil || d < 0 || d > 9 {
			return nil, fmt.Errorf("coc tens digit %q in %q", f, l)
		}
		out.digits = append(out.digits, d)
	}
	return out, nil
}

// cocValue: the percentile result implied by the listing: the units digit is that of the D100, the tens digit
// is chosen among the D100's own and the extra dice (00 reads 100): lowest result for a bonus, highest for a penalty.
func cocValue(c *cocListing) int64 {
	units := c.d100 % 10
	read := func(tens int64) int64 {
		v := tens*10 + units
		if v == 0 {
			return 100
		}
		return v
	}
	best := read((c.d100 / 10) % 10)
	for _, d := range c.digits {
		v := read(d)
		if c.bonus && v < best || !c.bonus && v > best {
			best = v
		}
	}
	return best
}

type poolDie struct {
	v       int64
	success bool // '*'
	again   bool // '<>'
}

type poolListing struct {
	head   int64 // successes (wod) / result (dc)
	total  int64
	rounds int64 // 1 when not shown
	groups [][]poolDie
	fumble bool // dc: 大失败
	listed bool
}

func parsePoolListing(l, word string) (*poolListing, error) {
	out := &poolListing{rounds: 1}
	s := l
	if word == "出目" && strings.HasPrefix(s, "大失败 ") {
		out.fumble = true
		s = s[len("大失败 "):]
	}
	if !strings.HasPrefix(s, word) {
		return nil, fmt.Errorf("listing %q does not begin with %s", l, word)
	}
	s = s[len(word):]
	sl := strings.Index(s, "/")
	if sl < 0 {
		return nil, fmt.Errorf("listing %q", l)
	}
	h, err := strconv.ParseInt(s[:sl], 10, 64)
	if err != nil {
		return nil, fmt.Errorf("listing %q", l)
	}
	out.head = h
	s = s[sl+1:]
	j := 0
	for j < len(s) && s[j] >= '0' && s[j] <= '9' {
		j++
	}
	t, err := strconv.ParseInt(s[:j], 10, 64)
	if err != nil {
		return nil, fmt.Errorf("listing %q", l)
	}
	out.total = t
	s = s[j:]
	if strings.HasPrefix(s, " 轮数:") {
		s = s[len(" 轮数:"):]
		j = 0
		for j < len(s) && s[j] >= '0' && s[j] <= '9' {
			j++
		}
		r, err := strconv.ParseInt(s[:j], 10, 64)
		if err != nil {
			return nil, fmt.Errorf("listing %q", l)
		}
		out.rounds = r
		s = s[j:]
	}
	if s == "" {
		return out, nil
	}
	if !strings.HasPrefix(s, " {") || !strings.HasSuffix(s, "}") {
		return nil, fmt.Errorf("listing %q: dice part %q", l, s)
	}
	out.listed = true
	s = s[2 : len(s)-1]
	for _, grp := range strings.Split(s, "},{") {
		var g []poolDie
		for _, f := range strings.Split(grp, ",") {
			d := poolDie{}
			if strings.HasPrefix(f, "<") && strings.HasSuffix(f, ">") {
				d.again = true
				f = f[1 : len(f)-1]
			}
			if strings.HasSuffix(f, "*") {
				d.success = true
				f = f[:len(f)-1]
			}
			v, err := strconv.ParseInt(f, 10, 64)
			if err != nil {
				return nil, fmt.Errorf("listing %q: die %q", l, f)
			}
			d.v = v
			g = append(g, d)
		}
		out.groups = append(out.groups, g)
	}
	return out, nil
}
