// C14 — program model: arithmetic over dice terms, its printer (which records the byte span of every
// term) and the rapid generator.
package c14

import (
	"fmt"
	"math/bits"
	"strconv"
	"strings"

	"pgregory.net/rapid"
)

// ---------------------------------------------------------------------------
// AST

// Node kinds: lit | var | neg | pos | bin | par | dice | cvar (variable bound to a computed value)
type Node struct {
	K string   `json:"k"`
	S string   `json:"s,omitempty"` // lit: digits as written; var/cvar: name; neg/pos/bin: operator spelling
	W []string `json:"w,omitempty"` // whitespace slots: bin{before op, after op} neg/pos{after op} par{after '(', before ')'}
	L *Node    `json:"l,omitempty"`
	R *Node    `json:"r,omitempty"`
	D *Dice    `json:"d,omitempty"`

	b, e int // byte span of the node's own text, filled by the printer
}

// Dice families: xdy | fate | coc | wod | dc
type Dice struct {
	Fam    string   `json:"fam"`
	Links  []*Link  `json:"links,omitempty"`  // xdy: first term and the chained ones (2d6d8)
	Letter string   `json:"letter,omitempty"` // f F | b B p P | a A | c C
	Pool   *Operand `json:"pool,omitempty"`   // coc: number of extra dice; wod, dc: pool
	Line   *Operand `json:"line,omitempty"`   // wod: add line; dc: critical value
	Mods   []*WMod  `json:"mods,omitempty"`   // wod: m k q; dc: m
}

// Link is one XdY term.  Count is only present on the first link of a chain (a later link rolls as many
// dice as the previous link's total).  Sides == nil means default sides.
type Link struct {
	Count *Operand `json:"count,omitempty"`
	DL    string   `json:"dl"` // d | D
	Sides *Operand `json:"sides,omitempty"`
	Pear  string   `json:"pear,omitempty"`  // 优势 優勢 劣势 劣勢
	Keep  string   `json:"keep,omitempty"`  // k kh K q kl Q dh dl
	KeepN *Operand `json:"keepn,omitempty"` // nil: omitted (means 1)
	MM    string   `json:"mm,omitempty"`    // min | max
	MMN   *Operand `json:"mmn,omitempty"`

	b, e int
}

type WMod struct {
	L string   `json:"l"` // m M k K q Q
	N *Operand `json:"n"`
}

// Operand is the grammar's `nos`: a number or a parenthesised expression.
type Operand struct {
	Num string   `json:"num,omitempty"`
	Sub *Node    `json:"sub,omitempty"`
	W   []string `json:"w,omitempty"` // after '(', before ')', after ')'
}

type VarDef struct {
	Name   string `json:"name"`
	Val    int64  `json:"val"`
	Expr   string `json:"expr,omitempty"`    // non-empty: the variable holds a computed value with this body
	Body   *Node  `json:"body,omitempty"`    // the body's AST (Expr is its printed form)
	InProg bool   `json:"in_prog,omitempty"` // defined by a `&name = body;` statement of the program, not stored beforehand
	// Host: the variable is not stored in the VM; the host answers for it through GlobalValueLoadFunc (how an embedding
	// program supplies character attributes)
	Host bool `json:"host,omitempty"`

	body *printed
}

// Def is a leading statement `&name = body ;` of a program.
type Def struct {
	Name string   `json:"name"`
	Body *Node    `json:"body"`
	W    []string `json:"w,omitempty"` // after the name, after '=', before ';', after ';'
}

// ---------------------------------------------------------------------------
// printer

type termInfo struct {
	kind  string // var | cvar | xdy | fate | coc | wod | dc
	node  *Node
	link  *Link // xdy only
	linkI int
	b, e  int
	depth int       // 0 = not inside any dice operand
	top   *termInfo // the enclosing top-level term's last span (nil for depth 0)
}

type printer struct {
	sb    strings.Builder
	terms []*termInfo
	depth int
}

func ws(w []string, i int) string {
	if i < len(w) {
		return w[i]
	}
	return ""
}

func (p *printer) pos() int { return p.sb.Len() }

func (p *printer) node(n *Node) {
	n.b = p.pos()
	switch n.K {
	case "lit":
		p.sb.WriteString(n.S)
	case "var", "cvar":
		p.sb.WriteString(n.S)
		p.terms = append(p.terms, &termInfo{kind: n.K, node: n, b: n.b, e: p.pos(), depth: p.depth})
	case "neg", "pos":
		p.sb.WriteString(n.S)
		p.sb.WriteString(ws(n.W, 0))
		p.node(n.L)
	case "bin":
		p.node(n.L)
		p.sb.WriteString(ws(n.W, 0))
		p.sb.WriteString(n.S)
		p.sb.WriteString(ws(n.W, 1))
		p.node(n.R)
	case "par":
		p.sb.WriteString("(")
		p.sb.WriteString(ws(n.W, 0))
		p.node(n.L)
		p.sb.WriteString(ws(n.W, 1))
		p.sb.WriteString(")")
	case "dice":
		p.dice(n)
	}
	n.e = p.pos()
}

func (p *printer) operand(o *Operand) {
	if o == nil {
		return
	}
	if o.Sub == nil {
		p.sb.WriteString(o.Num)
		return
	}
	p.sb.WriteString("(")
	p.sb.WriteString(ws(o.W, 0))
	p.depth++
	p.node(o.Sub)
	p.depth--
	p.sb.WriteString(ws(o.W, 1))
	p.sb.WriteString(")")
	p.sb.WriteString(ws(o.W, 2))
}

func (p *printer) dice(n *Node) {
	d := n.D
	start := p.pos()
	switch d.Fam {
	case "xdy":
		for i, l := range d.Links {
			l.b = p.pos()
			// the term's own span comes after the spans of its operands in p.terms only if we append late;
			// order is fixed up by sorting on (b, -e) afterwards
			ti := &termInfo{kind: "xdy", node: n, link: l, linkI: i, b: l.b, depth: p.depth}
			p.terms = append(p.terms, ti)
			if i == 0 {
				p.operand(l.Count)
			}
			p.sb.WriteString(l.DL)
			p.operand(l.Sides)
			p.sb.WriteString(l.Pear)
			p.sb.WriteString(l.Keep)
			p.operand(l.KeepN)
			p.sb.WriteString(l.MM)
			p.operand(l.MMN)
			l.e = p.pos()
			ti.e = l.e
		}
	case "fate":
		p.sb.WriteString(d.Letter)
		p.terms = append(p.terms, &termInfo{kind: "fate", node: n, b: start, e: p.pos(), depth: p.depth})
	case "coc":
		ti := &termInfo{kind: "coc", node: n, b: start, depth: p.depth}
		p.terms = append(p.terms, ti)
		p.sb.WriteString(d.Letter)
		p.operand(d.Pool)
		ti.e = p.pos()
	case "wod":
		ti := &termInfo{kind: "wod", node: n, b: start, depth: p.depth}
		p.terms = append(p.terms, ti)
		p.operand(d.Pool)
		p.sb.WriteString(d.Letter)
		p.operand(d.Line)
		for _, m := range d.Mods {
			p.sb.WriteString(m.L)
			p.operand(m.N)
		}
		ti.e = p.pos()
	case "dc":
		ti := &termInfo{kind: "dc", node: n, b: start, depth: p.depth}
		p.terms = append(p.terms, ti)
		p.operand(d.Pool)
		p.sb.WriteString(d.Letter)
		p.operand(d.Line)
		for _, m := range d.Mods {
			p.sb.WriteString(m.L)
			p.operand(m.N)
		}
		ti.e = p.pos()
	}
}

// Program is what one Run receives.
type Program struct {
	Lead  string   `json:"lead,omitempty"`
	Defs  []*Def   `json:"defs,omitempty"`
	Stmts []*Node  `json:"stmts"`
	Seps  []string `json:"seps,omitempty"` // len(Stmts)-1 separators, each containing ';' or '\n'
	Trail string   `json:"trail,omitempty"`
}

type printed struct {
	src      string
	terms    []*termInfo // every span the VM is expected to report, in source order of their begin
	stmtSpan [][2]int
	defsEnd  int // end of the leading `&name = body;` statements
}

func printProgram(pr *Program) *printed {
	p := &printer{}
	p.sb.WriteString(pr.Lead)
	out := &printed{}
	for _, d := range pr.Defs {
		// the rolls of a body are compiled into the computed value: no spans of the program itself
		p.sb.WriteString("&" + d.Name + ws(d.W, 0) + "=" + ws(d.W, 1) + printNode(d.Body) + ws(d.W, 2) + ";" + ws(d.W, 3))
	}
	out.defsEnd = p.pos()
	for i, st := range pr.Stmts {
		if i > 0 {
			sep := ";"
			if i-1 < len(pr.Seps) {
				sep = pr.Seps[i-1]
			}
			p.sb.WriteString(sep)
		}
		b := p.pos()
		p.node(st)
		out.stmtSpan = append(out.stmtSpan, [2]int{b, p.pos()})
	}
	p.sb.WriteString(pr.Trail)
	out.src = p.sb.String()
	out.terms = p.terms
	// sort by begin, outer before inner (stable insertion sort; the lists are short)
	ts := out.terms
	for i := 1; i < len(ts); i++ {
		for j := i; j > 0 && (ts[j].b < ts[j-1].b || (ts[j].b == ts[j-1].b && ts[j].e > ts[j-1].e)); j-- {
			ts[j], ts[j-1] = ts[j-1], ts[j]
		}
	}
	return out
}

func printNode(n *Node) string {
	p := &printer{}
	p.node(n)
	return p.sb.String()
}

// ---------------------------------------------------------------------------
// generator

var identPool = []string{"x", "y", "z", "hp", "hp2", "_v", "$g", "wis", "str", "gold_1", "力量", "敏捷", "体质加值", "ñu", "зел", "Ω1", "ｘ"}

type gen struct {
	t         *rapid.T
	vars      []VarDef
	budget    int // remaining leaves
	noDC      bool
	noWS      bool
	noDefault bool              // no default-sides dice
	avoid     func(string) bool // open findings that ask the generator to stay away from a feature
	feats     map[string]int
	nDice     int
	nOps      int
	nVars     int
	nNest     int
}

func (g *gen) feat(s string) { g.feats[s]++ }

// uniform draws an unbiased index in [0, n): rapid's integer generators favour small values on purpose, which is
// wanted for magnitudes but not for choosing between alternatives.
func uniform(t *rapid.T, n int, label string) int {
	if n <= 1 {
		return 0
	}
	nb := bits.Len(uint(n - 1))
	for {
		bs := rapid.SliceOfN(rapid.Bool(), nb, nb).Draw(t, label)
		v := 0
		for _, b := range bs {
			v <<= 1
			if b {
				v |= 1
			}
		}
		if v < n {
			return v
		}
	}
}

func pickOf[T any](t *rapid.T, pool []T, label string) T { return pool[uniform(t, len(pool), label)] }

func pct(t *rapid.T, p int, label string) bool { return uniform(t, 100, label) < p }

// intn is used for choices between alternatives: unbiased
func (g *gen) intn(lo, hi int, label string) int { return lo + uniform(g.t, hi-lo+1, label) }

// mag is used for magnitudes: rapid's small-value bias is welcome
func (g *gen) mag(lo, hi int, label string) int { return rapid.IntRange(lo, hi).Draw(g.t, label) }
func (g *gen) i64(lo, hi int64, label string) int64 {
	return rapid.Int64Range(lo, hi).Draw(g.t, label)
}
func (g *gen) chance(pct int, label string) bool { return g.intn(0, 99, label) < pct }

var wsAnyPool = []string{"", "", "", "", "", "", " ", " ", " ", "  ", "\t", "\n", "\n", " \n ", "\r\n", "\n\n"}
var wsNoNLPool = []string{"", "", "", "", " ", " ", "\t", "  "}

func (g *gen) wsAny() string {
	if g.noWS {
		return ""
	}
	return pickOf(g.t, wsAnyPool, "ws")
}
func (g *gen) wsNoNL() string {
	if g.noWS {
		return ""
	}
	return pickOf(g.t, wsNoNLPool, "wsn")
}

func drawVars(t *rapid.T, withComputed bool) []VarDef {
	n := rapid.IntRange(2, 5).Draw(t, "nvars")
	perm := rapid.Permutation(identPool).Draw(t, "names")
	var out []VarDef
	for i := 0; i < n; i++ {
		var v int64
		switch rapid.IntRange(0, 9).Draw(t, "vkind") {
		case 0:
			v = 0
		case 1, 2:
			v = rapid.Int64Range(-50, -1).Draw(t, "vneg")
		case 3:
			v = rapid.Int64Range(21, 100000).Draw(t, "vbig")
		default:
			v = rapid.Int64Range(1, 20).Draw(t, "vsmall")
		}
		out = append(out, VarDef{Name: perm[i], Val: v, Host: rapid.IntRange(0, 3).Draw(t, "hostVar") == 0})
	}
	_ = withComputed
	return out
}

func lit(v int64) *Node { return &Node{K: "lit", S: strconv.FormatInt(v, 10)} }

func (g *gen) litNode(v int64) *Node {
	n := lit(v)
	if g.chance(3, "lz") {
		n.S = "0" + n.S
		g.feat("leading-zero")
	}
	return n
}

// rightmost token class of a printed node: "close" (a ')' — eats any following whitespace),
// "ident" (eats blanks but not newlines), "other" (eats nothing)
func tailClass(s string) string {
	s = strings.TrimRight(s, " \t\r\n")
	if s == "" {
		return "other"
	}
	if s[len(s)-1] == ')' {
		return "close"
	}
	return "other"
}

func nodeTailClass(n *Node) string {
	switch n.K {
	case "var", "cvar":
		return "ident"
	case "lit":
		return "other"
	case "par":
		return "close"
	case "neg", "pos":
		return nodeTailClass(n.L)
	case "bin":
		return nodeTailClass(n.R)
	case "dice":
		return tailClass(printNode(n))
	}
	return "other"
}

// legal whitespace between the end of n and a following ')'
func (g *gen) wsBeforeClose(n *Node) string {
	switch nodeTailClass(n) {
	case "close":
		return g.wsAny()
	case "ident":
		return g.wsNoNL()
	}
	return ""
}

func (g *gen) par(n *Node) *Node {
	return &Node{K: "par", L: n, W: []string{g.wsAny(), g.wsBeforeClose(n)}}
}

func prec(n *Node) int {
	if n.K != "bin" {
		return 9
	}
	switch n.S {
	case "*", "＊":
		return 2
	}
	return 1
}

func isMinus(s string) bool { return s == "-" || s == "－" }

func (g *gen) bin(op string, l, r *Node) *Node {
	p := 1
	if op == "*" || op == "＊" {
		p = 2
	}
	if prec(l) < p {
		l = g.par(l)
	}
	if prec(r) < p || (prec(r) == 1 && isMinus(op)) {
		r = g.par(r)
	}
	g.nOps++
	return &Node{K: "bin", S: op, L: l, R: r, W: []string{g.wsAny(), g.wsAny()}}
}

func (g *gen) unary(op string, x *Node) *Node {
	if x.K == "bin" || x.K == "neg" || x.K == "pos" {
		x = g.par(x)
	}
	return &Node{K: op2kind(op), S: op, L: x, W: []string{g.wsAny()}}
}

func op2kind(op string) string {
	if op == "-" || op == "－" {
		return "neg"
	}
	return "pos"
}

var binOps = []string{"+", "+", "+", "+", "-", "-", "-", "*", "*", "*", "＋", "－", "＊"}

// genExpr draws an expression whose value is not constrained.
func (g *gen) genExpr(depth int) *Node {
	if depth <= 0 || g.budget <= 1 {
		return g.genPrimary(depth)
	}
	switch k := g.intn(0, 99, "ekind"); {
	case k < 55:
		op := pickOf(g.t, binOps, "op")
		if op != "+" && op != "-" && op != "*" {
			g.feat("fullwidth-op")
		}
		l := g.genExpr(depth - 1)
		r := g.genExpr(depth - 1)
		return g.bin(op, l, r)
	case k < 65:
		op := pickOf(g.t, []string{"-", "-", "-", "+", "－"}, "uop")
		g.feat("unary")
		return g.unary(op, g.genPrimary(depth-1))
	case k < 72:
		g.feat("paren")
		return g.par(g.genExpr(depth - 1))
	}
	return g.genPrimary(depth)
}

func (g *gen) genPrimary(depth int) *Node {
	g.budget--
	switch k := g.intn(0, 99, "pkind"); {
	case k < 22:
		return g.genLit()
	case k < 38:
		g.nVars++
		v := pickOf(g.t, g.vars, "var")
		if v.Expr != "" {
			g.feat("computed-var")
			return &Node{K: "cvar", S: v.Name}
		}
		if len(v.Name) > 0 && v.Name[0] >= 0x80 {
			g.feat("multibyte-ident")
		}
		return &Node{K: "var", S: v.Name}
	case k < 43 && depth > 0:
		g.feat("paren")
		return g.par(g.genExpr(depth - 1))
	}
	return g.genDice(depth)
}

func (g *gen) genLit() *Node {
	switch k := g.intn(0, 99, "lkind"); {
	case k < 70:
		return g.litNode(g.i64(0, 20, "lit"))
	case k < 95:
		return g.litNode(g.i64(21, 999, "lit"))
	}
	return g.litNode(g.i64(1000, 1000000, "lit"))
}

// ---- operands with a guaranteed value range ----

func (g *gen) num(lo, hi int64) *Operand {
	return &Operand{Num: strconv.FormatInt(g.i64(lo, hi, "num"), 10)}
}

func (g *gen) sub(n *Node) *Operand {
	w2 := ""
	if !g.noWS && g.chance(6, "wsAfterSub") {
		w2 = pickOf(g.t, []string{" ", " ", "\n", "\t "}, "ws2")
		g.feat("ws-after-operand-paren")
	}
	return &Operand{Sub: n, W: []string{g.wsAny(), g.wsBeforeClose(n), w2}}
}

// genOperand: a `nos` whose value lies in [lo, hi] (0 <= lo <= hi) for every roll outcome.
func (g *gen) genOperand(lo, hi int64, depth int) *Operand {
	if depth <= 0 || g.budget <= 0 || !g.chance(30, "subop") {
		return g.num(lo, hi)
	}
	g.nNest++
	return g.sub(g.genRanged(lo, hi, depth-1))
}

// genRanged: an expression whose value lies in [lo, hi] (0 <= lo <= hi) for every roll outcome.
func (g *gen) genRanged(lo, hi int64, depth int) *Node {
	type opt func() *Node
	var opts []opt
	litOpt := func() *Node { return g.litNode(g.i64(lo, hi, "rlit")) }
	opts = append(opts, litOpt)
	var okVars []VarDef
	for _, v := range g.vars {
		if v.Expr == "" && v.Val >= lo && v.Val <= hi {
			okVars = append(okVars, v)
		}
	}
	if len(okVars) > 0 {
		f := func() *Node {
			g.nVars++
			g.feat("var-in-operand")
			return &Node{K: "var", S: pickOf(g.t, okVars, "rvar").Name}
		}
		opts = append(opts, f, f)
	}
	if depth >= 0 && g.budget > 0 {
		if lo <= 1 && hi >= 1 {
			f := func() *Node { // dK
				g.budget--
				k := g.i64(1, min64(hi, 1000), "rk")
				return g.xdyNode(&Link{DL: g.dLetter(), Sides: g.genOperand(1, k, depth)})
			}
			opts = append(opts, f, f)
		}
		if hi >= max64(lo, 1) && hi >= 2 {
			f := func() *Node { // MdK, optionally keep highest/lowest (>= 1 die kept keeps the total >= 1 only if lo <= 1)
				g.budget--
				mLo := max64(lo, 1)
				m := g.i64(mLo, min64(hi, max64(mLo, 5)), "rm")
				k := g.i64(1, min64(hi/m, 1000), "rk")
				l := &Link{Count: g.genOperand(mLo, m, depth), DL: g.dLetter(), Sides: g.genOperand(1, k, depth)}
				if lo <= 1 && g.chance(25, "rkeep") {
					l.Keep = pickOf(g.t, []string{"k", "kh", "q", "kl", "K", "Q"}, "keep")
					if g.chance(60, "keepn") {
						l.KeepN = g.genOperand(1, m+1, depth)
					}
				} else if lo == 0 && g.chance(20, "rdrop") {
					l.Keep = pickOf(g.t, []string{"dh", "dl"}, "drop")
					if g.chance(60, "keepn") {
						l.KeepN = g.genOperand(1, m+1, depth)
					}
				}
				return g.xdyNode(l)
			}
			opts = append(opts, f, f)
		}
		if hi >= 1 && depth > 0 {
			opts = append(opts, func() *Node { // A + B
				w := g.i64(0, hi-lo, "sw")
				la := g.i64(0, lo, "sla")
				a := g.genRanged(la, la+w, depth-1)
				b := g.genRanged(lo-la, hi-la-w, depth-1)
				return g.bin(pickOf(g.t, []string{"+", "+", "＋"}, "op"), a, b)
			})
			c := int64(2)
			if (lo+c-1)/c <= hi/c && hi/c >= 1 {
				opts = append(opts, func() *Node { // c * A  or  A * c
					c := g.i64(2, 3, "pc")
					if (lo+c-1)/c > hi/c {
						c = 2
					}
					a := g.genRanged((lo+c-1)/c, hi/c, depth-1)
					if g.chance(50, "pside") {
						return g.bin("*", g.litNode(c), a)
					}
					return g.bin("*", a, g.litNode(c))
				})
			}
			opts = append(opts, func() *Node { // A - c
				c := g.i64(1, 5, "dc")
				return g.bin("-", g.genRanged(lo+c, hi+c, depth-1), g.litNode(c))
			})
			opts = append(opts, func() *Node { return g.par(g.genRanged(lo, hi, depth-1)) })
			opts = append(opts, func() *Node { // --A written as -(-A)
				return g.unary("-", g.par(g.unary("-", g.genRanged(lo, hi, depth-1))))
			})
		}
		if hi-lo >= 8 {
			opts = append(opts, func() *Node { // fate + c
				g.budget--
				c := g.i64(lo+4, hi-4, "fc")
				f := g.fateNode()
				if g.chance(50, "fside") {
					return g.bin("+", f, g.litNode(c))
				}
				return g.bin("+", g.litNode(c), f)
			})
		}
		if lo <= 1 && hi >= 100 {
			opts = append(opts, func() *Node { g.budget--; return g.cocNode(depth) })
		}
	}
	i := g.intn(0, len(opts)-1, "ropt")
	return opts[i]()
}

func min64(a, b int64) int64 {
	if a < b {
		return a
	}
	return b
}
func max64(a, b int64) int64 {
	if a > b {
		return a
	}
	return b
}

func (g *gen) dLetter() string {
	if g.chance(12, "D") {
		return "D"
	}
	return "d"
}

func (g *gen) xdyNode(links ...*Link) *Node {
	g.nDice++
	return &Node{K: "dice", D: &Dice{Fam: "xdy", Links: links}}
}

func (g *gen) fateNode() *Node {
	g.nDice++
	g.feat("fam-fate")
	return &Node{K: "dice", D: &Dice{Fam: "fate", Letter: pickOf(g.t, []string{"f", "f", "F"}, "f")}}
}

func (g *gen) cocNode(depth int) *Node {
	g.nDice++
	g.feat("fam-coc")
	d := &Dice{Fam: "coc", Letter: pickOf(g.t, []string{"b", "p", "b", "p", "B", "P"}, "bp")}
	if g.chance(70, "cocn") {
		d.Pool = g.genOperand(0, 4, depth)
	}
	return &Node{K: "dice", D: d}
}

// ---- unconstrained dice terms ----

func (g *gen) genDice(depth int) *Node {
	k := g.intn(0, 99, "fam")
	switch {
	case k < 60:
		return g.genXdY(depth)
	case k < 68:
		return g.fateNode()
	case k < 78:
		return g.cocNode(depth)
	case k < 89 || g.noDC:
		return g.genWod(depth)
	}
	return g.genDC(depth)
}

func (g *gen) keepMods(l *Link, count int64, depth int) {
	if g.chance(35, "keep?") {
		l.Keep = pickOf(g.t, []string{"k", "kh", "q", "kl", "dh", "dl", "K", "Q"}, "keep")
		g.feat("mod-keep-" + strings.ToLower(l.Keep))
		if g.chance(65, "keepn") {
			l.KeepN = g.genOperand(1, count+1, depth)
		}
	}
}

func (g *gen) mmMod(l *Link, sides int64, depth int) {
	if g.chance(15, "mm?") {
		l.MM = pickOf(g.t, []string{"min", "max"}, "mm")
		g.feat("mod-" + l.MM)
		l.MMN = g.genOperand(1, max64(1, min64(sides, 1000000)), depth)
	}
}

func (g *gen) genXdY(depth int) *Node {
	g.feat("fam-xdy")
	form := g.intn(0, 99, "xform")
	if g.noDefault && form >= 74 {
		form = form % 74
	}
	// sizes
	cmax := int64(12)
	switch s := g.intn(0, 99, "csize"); {
	case s < 4:
		cmax = 220
	case s < 14:
		cmax = 40
	}
	smax := int64(20)
	switch s := g.intn(0, 99, "ssize"); {
	case s < 3:
		smax = 1 << 40
		cmax = 3
	case s < 10:
		smax = 1000
	case s < 30:
		smax = 100
	}
	switch {
	case form < 50: // XdY
		l := &Link{Count: g.genOperand(1, cmax, depth), DL: g.dLetter(), Sides: g.genOperand(1, smax, depth)}
		g.keepMods(l, cmax, depth)
		g.mmMod(l, smax, depth)
		n := g.xdyNode(l)
		if cmax <= 12 && smax <= 20 && g.chance(18, "chain?") {
			// chain: keep the number of dice of later links small
			l.Count = g.genOperand(1, 4, depth)
			l.Sides = g.genOperand(1, 6, depth)
			if l.KeepN != nil {
				l.KeepN = g.genOperand(1, 5, depth)
			}
			if l.MMN != nil {
				l.MMN = g.genOperand(1, 6, depth)
			}
			g.feat("chain")
			nl := g.intn(1, 2, "nlinks")
			for i := 0; i < nl; i++ {
				l2 := &Link{DL: g.dLetter(), Sides: g.genOperand(1, 6, depth)}
				if g.chance(20, "ckeep") {
					l2.Keep = pickOf(g.t, []string{"k", "kh", "q", "kl", "dh", "dl"}, "keep")
					if g.chance(60, "keepn") {
						l2.KeepN = g.genOperand(1, 3, depth)
					}
				}
				if g.chance(10, "cmm") {
					l2.MM = pickOf(g.t, []string{"min", "max"}, "mm")
					l2.MMN = g.genOperand(1, 6, depth)
				}
				n.D.Links = append(n.D.Links, l2)
			}
			// a link whose total can be 0 (everything dropped) would give the next link 0 dice, which is an error
			for _, lk := range n.D.Links[:len(n.D.Links)-1] {
				if lk.Keep == "dh" || lk.Keep == "dl" {
					lk.Keep = "kh"
				}
			}
		}
		return n
	case form < 74: // dY
		l := &Link{DL: g.dLetter(), Sides: g.genOperand(1, smax, depth)}
		if g.chance(20, "pear") {
			l.Pear = pickOf(g.t, []string{"优势", "劣势", "優勢", "劣勢"}, "pear")
			g.feat("mod-pear")
		} else {
			g.keepMods(l, 1, depth)
		}
		g.mmMod(l, smax, depth)
		g.feat("form-dY")
		return g.xdyNode(l)
	case form < 86: // Xd (default sides)
		l := &Link{Count: g.genOperand(1, min64(cmax, 40), depth), DL: g.dLetter()}
		g.keepMods(l, min64(cmax, 40), depth)
		g.mmMod(l, 100, depth)
		g.feat("form-default-sides")
		return g.xdyNode(l)
	default: // d, d优势
		l := &Link{DL: g.dLetter()}
		if g.chance(35, "pear") {
			l.Pear = pickOf(g.t, []string{"优势", "劣势", "優勢", "劣勢"}, "pear")
			g.feat("mod-pear")
		}
		g.feat("form-default-sides")
		return g.xdyNode(l)
	}
}

func (g *gen) genWod(depth int) *Node {
	g.nDice++
	g.feat("fam-wod")
	d := &Dice{Fam: "wod", Letter: pickOf(g.t, []string{"a", "a", "a", "A"}, "a")}
	pmax := int64(8)
	if g.chance(12, "bigpool") {
		pmax = 22 // >= 15 dice: abbreviated annotation
	}
	if g.chance(80, "pool?") {
		d.Pool = g.genOperand(1, pmax, depth)
	}
	// add line: 0 (never) or 2.. ; with 10-sided dice a low line explodes often, keep the expected work small
	points := int64(10)
	hasM := g.chance(35, "wm")
	if hasM {
		points = g.i64(1, 12, "wpoints")
	}
	if g.chance(15, "noadd") {
		d.Line = &Operand{Num: "0"}
	} else {
		lo := max64(2, points/2)
		d.Line = g.genOperand(lo, lo+6, depth)
	}
	var mods []*WMod
	if hasM {
		mods = append(mods, &WMod{L: pickOf(g.t, []string{"m", "M"}, "m"), N: g.genOperandFixed(points, depth)})
	}
	if g.chance(45, "wk") {
		l := pickOf(g.t, []string{"k", "k", "q", "K", "Q"}, "kq")
		mods = append(mods, &WMod{L: l, N: g.genOperand(1, 12, depth)})
	}
	if len(mods) == 2 && g.chance(50, "swap") {
		mods[0], mods[1] = mods[1], mods[0]
	}
	d.Mods = mods
	return &Node{K: "dice", D: d}
}

func (g *gen) genOperandFixed(v int64, depth int) *Operand { return g.genOperand(v, v, depth) }

func (g *gen) genDC(depth int) *Node {
	g.nDice++
	g.feat("fam-dc")
	d := &Dice{Fam: "dc", Letter: pickOf(g.t, []string{"c", "c", "C"}, "c")}
	pmax := int64(8)
	if g.chance(12, "bigpool") {
		pmax = 22
	}
	d.Pool = g.genOperand(1, pmax, depth)
	points := int64(10)
	hasM := g.chance(35, "dm")
	if hasM {
		points = g.i64(1, 12, "dpoints")
		if points > 10 && g.avoid != nil && g.avoid("dc_faces_gt10") {
			points = 10
		}
	}
	lo := max64(2, points/2)
	d.Line = g.genOperand(lo, lo+6, depth)
	if hasM {
		d.Mods = append(d.Mods, &WMod{L: pickOf(g.t, []string{"m", "M"}, "m"), N: g.genOperandFixed(points, depth)})
	}
	return &Node{K: "dice", D: d}
}

// ---- programs ----

func firstByte(s string) byte {
	if s == "" {
		return 0
	}
	return s[0]
}

func startsWithSign(s string) bool {
	return strings.HasPrefix(s, "+") || strings.HasPrefix(s, "-") || strings.HasPrefix(s, "＋") || strings.HasPrefix(s, "－")
}

func (g *gen) genProgram(maxStmts, depth int) *Program {
	pr := &Program{}
	n := 1
	if maxStmts > 1 && g.chance(18, "multi") {
		n = g.intn(2, maxStmts, "nstmts")
		g.feat("multi-statement")
	}
	if !g.noWS && g.chance(12, "lead") {
		pr.Lead = pickOf(g.t, []string{" ", "  ", "\n", "\t", " \n"}, "leadws")
		g.feat("leading-ws")
	}
	for i := 0; i < n; i++ {
		g.budget = g.intn(1, 7, "budget")
		st := g.genExpr(depth)
		pr.Stmts = append(pr.Stmts, st)
		if i > 0 {
			prev := printNode(pr.Stmts[i-1])
			cur := printNode(st)
			// a newline separates statements only when the previous one does not end with a ')' (which
			// swallows the newline) and the next one does not begin with a sign (which continues the expression)
			nlOK := nodeTailClass(pr.Stmts[i-1]) != "close" && !startsWithSign(cur) && prev != "" && !g.mayStartNegative(st)
			var sep string
			if nlOK && !g.noWS && g.chance(45, "nlsep") {
				sep = pickOf(g.t, []string{"\n", "\n", " \n", "\n  ", "\t\n\n"}, "nl")
				if nodeTailClass(pr.Stmts[i-1]) == "ident" || true {
					// blanks before the newline are fine after any token (spNoCR)
				}
				g.feat("newline-separator")
			} else {
				sep = g.wsAny() + ";" + g.wsAny()
			}
			pr.Seps = append(pr.Seps, sep)
		}
	}
	if !g.noWS && g.chance(12, "trail") {
		pr.Trail = pickOf(g.t, []string{" ", "\n", " \n ", "\t", ";", " ; "}, "trailws")
		g.feat("trailing-ws")
	}
	return pr
}

// mayStartNegative: the leftmost term of the statement can show a negative value.  After a line break such a
// value would read as a subtraction from the previous line (in the text as in the language itself), so such a
// statement is only ever introduced by ';'.
func (g *gen) mayStartNegative(n *Node) bool {
	for n != nil {
		switch n.K {
		case "bin":
			n = n.L
			continue
		case "var":
			for _, v := range g.vars {
				if v.Name == n.S {
					return v.Val < 0
				}
			}
			return true
		case "cvar":
			return true
		case "dice":
			return n.D.Fam == "fate"
		}
		return false
	}
	return false
}

func newGen(t *rapid.T, vars []VarDef) *gen {
	return &gen{t: t, vars: vars, feats: map[string]int{}}
}

func describeOperand(o *Operand) string {
	if o == nil {
		return "-"
	}
	if o.Sub != nil {
		return "(" + printNode(o.Sub) + ")"
	}
	return o.Num
}

var _ = fmt.Sprintf
var _ = firstByte
var _ = describeOperand
