package c14

import (
	"bufio"
	"fmt"
	"os"
	"testing"

	ds "github.com/sealdice/dicescript"

	"verif/harness/rt"
)

func TestProbe(t *testing.T) {
	p := os.Getenv("C14_PROBE")
	if p == "" {
		t.Skip()
	}
	f, _ := os.Open(p)
	sc := bufio.NewScanner(f)
	for sc.Scan() {
		src := sc.Text()
		var q string
		fmt.Sscanf(src, "%q", &q)
		if q != "" {
			src = q
		}
		vm := &ds.Context{Seed: []byte("0123456789abcdef")}
		vm.Init()
		vm.Config.EnableDiceWoD = true
		vm.Config.EnableDiceCoC = true
		vm.Config.EnableDiceFate = true
		vm.Config.EnableDiceDoubleCross = true
		vm.Config.OpCountLimit = 30000
		vm.Attrs.Store("x", ds.NewIntVal(7))
		vm.Attrs.Store("力量", ds.NewIntVal(60))
		func() {
			defer func() {
				if r := recover(); r != nil {
					fmt.Printf("%q PANIC %v\n", src, r)
				}
			}()
			err := vm.Run(src)
			if err != nil {
				fmt.Printf("%q ERR %v\n", src, err)
				return
			}
			fmt.Printf("%q ret=%s matched=%q rest=%q\n   detail=%q\n", src, vm.Ret.ToString(), vm.Matched, vm.RestInput, vm.GetDetailText())
			for _, s := range vm.DetailSpans {
				r := "<nil>"
				if s.Ret != nil {
					r = s.Ret.ToString()
				}
				fmt.Printf("   span [%d,%d) ret=%s text=%q expr=%q tag=%s\n", s.Begin, s.End, r, s.Text, s.Expr, s.Tag)
			}
		}()
	}
}

func TestFindSeed(t *testing.T) {
	src := os.Getenv("C14_FINDSEED")
	if src == "" {
		t.Skip()
	}
	run := rt.Begin(t, "C14X")
	run.Enum("expr", "x", func(s *rt.Section) {
		for i := 0; i < 20000; i++ {
			seed := fmt.Sprintf("%032x", i*7919+1)
			n, err := parseDomain(src)
			if err != nil {
				t.Fatal(err)
			}
			c := &Case{Seed: seed, Vars: enumVars, Prog: &Program{Stmts: []*Node{n}}}
			if f, _ := checkCase(c, s); f != nil {
				fmt.Printf("seed %s sig %s\n%s\n", seed, f.Signature, f.Observed)
				return
			}
		}
		fmt.Println("no failing seed")
	})
}

func TestProbeAfterError(t *testing.T) {
	if os.Getenv("C14_PROBE2") == "" {
		t.Skip()
	}
	vm := newVM("000102030405060708090a0b0c0d0e0f", enumVars)
	fmt.Println(vm.Run("(2d6+1)d(d4+1)+x"), vm.GetDetailText())
	fmt.Println("err:", vm.Run("d0"))
	func() {
		defer func() { fmt.Println("recovered:", recover()) }()
		fmt.Printf("text after failed run: %q spans=%d\n", vm.GetDetailText(), len(vm.DetailSpans))
	}()
	vm2 := newVM("000102030405060708090a0b0c0d0e0f", enumVars)
	fmt.Println(vm2.Run("(2d6+1)d(d4+1)+x"))
	fmt.Println("err:", vm2.Run("d0"))
	func() {
		defer func() { fmt.Println("recovered:", recover()) }()
		fmt.Printf("text after failed run (not asked before): %q\n", vm2.GetDetailText())
	}()
	fmt.Println("err:", vm2.Run("(2d6"))
	func() {
		defer func() { fmt.Println("recovered:", recover()) }()
		fmt.Printf("text after parse error: %q\n", vm2.GetDetailText())
	}()
}
