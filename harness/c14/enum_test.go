// C14 — a small parser for the domain language (used for the enumeration alphabet and hand-written probes),
// the bounded exhaustive enumerator and the generator of computed-variable cases.
package c14

import (
	"encoding/hex"
	"fmt"
	"strings"
	"unicode/utf8"

	"pgregory.net/rapid"

	"verif/harness/rt"
)

// ---------------------------------------------------------------------------
// parser of the domain language (no blanks except directly inside parentheses)

type dparser struct {
	s string
	i int
}

func parseDomain(s string) (n *Node, err error) {
	p := &dparser{s: s}
	defer func() {
		if r := recover(); r != nil {
			n, err = nil, fmt.Errorf("%v at %d in %q", r, p.i, s)
		}
	}()
	n = p.expr()
	if p.i != len(p.s) {
		panic("trailing input")
	}
	return n, nil
}

func (p *dparser) peek() byte {
	if p.i < len(p.s) {
		return p.s[p.i]
	}
	return 0
}

func (p *dparser) has(pre string) bool { return strings.HasPrefix(p.s[p.i:], pre) }

func (p *dparser) take(pre string) bool {
	if p.has(pre) {
		p.i += len(pre)
		return true
	}
	return false
}

func (p *dparser) skipBlanks() string {
	j := p.i
	for p.i < len(p.s) && (p.s[p.i] == ' ' || p.s[p.i] == '\n' || p.s[p.i] == '\t') {
		p.i++
	}
	return p.s[j:p.i]
}

func plainBin(op string, l, r *Node, w0, w1 string) *Node {
	pr := 1
	if op == "*" || op == "＊" {
		pr = 2
	}
	if prec(l) < pr {
		l = &Node{K: "par", L: l}
	}
	if prec(r) < pr || (prec(r) == 1 && isMinus(op)) {
		r = &Node{K: "par", L: r}
	}
	return &Node{K: "bin", S: op, L: l, R: r, W: []string{w0, w1}}
}

func (p *dparser) expr() *Node {
	l := p.mul()
	for {
		save := p.i
		w0 := p.skipBlanks()
		c := p.peek()
		if c != '+' && c != '-' {
			p.i = save
			return l
		}
		p.i++
		w1 := p.skipBlanks()
		r := p.mul()
		l = &Node{K: "bin", S: string(c), L: l, R: r, W: []string{w0, w1}}
	}
}

func (p *dparser) mul() *Node {
	l := p.unary()
	for {
		save := p.i
		w0 := p.skipBlanks()
		if p.peek() != '*' {
			p.i = save
			return l
		}
		p.i++
		w1 := p.skipBlanks()
		r := p.unary()
		l = &Node{K: "bin", S: "*", L: l, R: r, W: []string{w0, w1}}
	}
}

func (p *dparser) unary() *Node {
	if c := p.peek(); c == '-' || c == '+' {
		p.i++
		w := p.skipBlanks()
		return &Node{K: op2kind(string(c)), S: string(c), L: p.primary(), W: []string{w}}
	}
	return p.primary()
}

func isDigit(c byte) bool { return c >= '0' && c <= '9' }

// nos: number or parenthesised expression
func (p *dparser) nosAhead() bool { return isDigit(p.peek()) || p.peek() == '(' }

func (p *dparser) nos() *Operand {
	if isDigit(p.peek()) {
		j := p.i
		for isDigit(p.peek()) {
			p.i++
		}
		return &Operand{Num: p.s[j:p.i]}
	}
	if !p.take("(") {
		panic("operand expected")
	}
	w0 := p.skipBlanks()
	e := p.expr()
	w1 := p.skipBlanks()
	if !p.take(")") {
		panic("')' expected")
	}
	return &Operand{Sub: e, W: []string{w0, w1, ""}}
}

func operandAsNode(o *Operand) *Node {
	if o.Sub == nil {
		return &Node{K: "lit", S: o.Num}
	}
	return &Node{K: "par", L: o.Sub, W: []string{ws(o.W, 0), ws(o.W, 1)}}
}

func (p *dparser) primary() *Node {
	c := p.peek()
	switch {
	case isDigit(c) || c == '(':
		o := p.nos()
		switch p.peek() {
		case 'd', 'D':
			return p.xdy(o)
		case 'a', 'A':
			return p.wod(o)
		case 'c', 'C':
			return p.dc(o)
		}
		return operandAsNode(o)
	case c == 'd' || c == 'D':
		return p.xdy(nil)
	case c == 'f' || c == 'F':
		p.i++
		return &Node{K: "dice", D: &Dice{Fam: "fate", Letter: string(c)}}
	case c == 'b' || c == 'B' || c == 'p' || c == 'P':
		p.i++
		d := &Dice{Fam: "coc", Letter: string(c)}
		if p.nosAhead() {
			d.Pool = p.nos()
		}
		return &Node{K: "dice", D: d}
	case c == 'a' || c == 'A':
		return p.wod(nil)
	}
	// identifier
	j := p.i
	for p.i < len(p.s) {
		r, sz := utf8.DecodeRuneInString(p.s[p.i:])
		if r == '_' || r == '$' || r >= 0x80 || (r >= 'a' && r <= 'z') || (r >= 'A' && r <= 'Z') || (p.i > j && r >= '0' && r <= '9') {
			p.i += sz
			continue
		}
		break
	}
	if p.i == j {
		panic("primary expected")
	}
	return &Node{K: "var", S: p.s[j:p.i]}
}

func (p *dparser) link(count *Operand) *Link {
	l := &Link{Count: count, DL: string(p.peek())}
	p.i++
	if p.nosAhead() {
		l.Sides = p.nos()
	}
	for _, pe := range []string{"优势", "優勢", "劣势", "劣勢"} {
		if p.take(pe) {
			l.Pear = pe
		}
	}
	if l.Pear == "" {
		for _, k := range []string{"kh", "kl", "dh", "dl", "k", "K", "q", "Q"} {
			if (k == "dh" || k == "dl" || true) && p.has(k) {
				// "dh"/"dl" only count as modifiers, a following "d<digit>" is a chained term
				p.i += len(k)
				l.Keep = k
				if p.nosAhead() {
					l.KeepN = p.nos()
				}
				break
			}
		}
	}
	for _, m := range []string{"min", "max"} {
		if p.take(m) {
			l.MM = m
			l.MMN = p.nos()
			break
		}
	}
	return l
}

func (p *dparser) xdy(count *Operand) *Node {
	d := &Dice{Fam: "xdy"}
	d.Links = append(d.Links, p.link(count))
	for (p.peek() == 'd' || p.peek() == 'D') && p.i+1 < len(p.s) && (isDigit(p.s[p.i+1]) || p.s[p.i+1] == '(') {
		d.Links = append(d.Links, p.link(nil))
	}
	return &Node{K: "dice", D: d}
}

func (p *dparser) wod(pool *Operand) *Node {
	d := &Dice{Fam: "wod", Pool: pool, Letter: string(p.peek())}
	p.i++
	d.Line = p.nos()
	for {
		c := p.peek()
		if (c == 'm' || c == 'M' || c == 'k' || c == 'K' || c == 'q' || c == 'Q') && p.i+1 < len(p.s) && (isDigit(p.s[p.i+1]) || p.s[p.i+1] == '(') {
			p.i++
			d.Mods = append(d.Mods, &WMod{L: string(c), N: p.nos()})
			continue
		}
		break
	}
	return &Node{K: "dice", D: d}
}

func (p *dparser) dc(pool *Operand) *Node {
	d := &Dice{Fam: "dc", Pool: pool, Letter: string(p.peek())}
	p.i++
	d.Line = p.nos()
	for (p.peek() == 'm' || p.peek() == 'M') && p.i+1 < len(p.s) && (isDigit(p.s[p.i+1]) || p.s[p.i+1] == '(') {
		c := p.peek()
		p.i++
		d.Mods = append(d.Mods, &WMod{L: string(c), N: p.nos()})
	}
	return &Node{K: "dice", D: d}
}

func countTerms(n *Node) (dice int) {
	if n == nil {
		return 0
	}
	switch n.K {
	case "dice":
		dice = 1
		each := func(o *Operand) {
			if o != nil && o.Sub != nil {
				dice += countTerms(o.Sub)
			}
		}
		for _, l := range n.D.Links {
			each(l.Count)
			each(l.Sides)
			each(l.KeepN)
			each(l.MMN)
		}
		each(n.D.Pool)
		each(n.D.Line)
		for _, m := range n.D.Mods {
			each(m.N)
		}
		return dice
	}
	return countTerms(n.L) + countTerms(n.R)
}

// ---------------------------------------------------------------------------
// enumeration

var enumLayouts = []string{"tight", "spaced", "nl-before-op", "nl-after-op", "paren-right", "two-statements", "two-lines"}

func enumSeeds(thorough bool) int {
	if thorough {
		return 4
	}
	return 1
}

func enumProgram(t1, t2, op, layout string) *Program {
	l, r := parseEnumTerm(t1), parseEnumTerm(t2)
	switch layout {
	case "tight":
		return &Program{Stmts: []*Node{plainBin(op, l, r, "", "")}}
	case "spaced":
		return &Program{Stmts: []*Node{plainBin(op, l, r, " ", " ")}}
	case "nl-before-op":
		return &Program{Stmts: []*Node{plainBin(op, l, r, "\n", " ")}}
	case "nl-after-op":
		return &Program{Stmts: []*Node{plainBin(op, l, r, " ", "\n  ")}}
	case "paren-right":
		return &Program{Stmts: []*Node{plainBin(op, l, &Node{K: "par", L: r, W: []string{" ", ""}}, " ", "\t")}, Trail: " "}
	case "two-statements":
		if op != "+" {
			return nil
		}
		return &Program{Stmts: []*Node{l, r}, Seps: []string{" ; "}}
	case "two-lines":
		if op != "+" || nodeTailClass(l) == "close" || startsWithSign(t2) || t2 == "f" {
			return nil
		}
		return &Program{Lead: " ", Stmts: []*Node{l, r}, Seps: []string{"\n"}}
	}
	return nil
}

func enumerate(s *rt.Section, run *rt.Run, thorough bool) {
	ops := []string{"+", "-", "*"}
	n := len(enumTerms)
	idx := 0
	var total int64
	for i := 0; i < n; i++ {
		for j := 0; j < n; j++ {
			for _, op := range ops {
				idx++
				if idx%run.Env.NShards != run.Env.Shard {
					continue
				}
				for _, lay := range enumLayouts {
					for k := 0; k < enumSeeds(thorough); k++ {
						pr := enumProgram(enumTerms[i], enumTerms[j], op, lay)
						if pr == nil {
							continue
						}
						w1 := rt.Mix(run.Env.Seed ^ rt.Mix(uint64(idx)*8+uint64(k)))
						w2 := rt.Mix(w1)
						seed := fmt.Sprintf("%016x%016x", w1, w2)
						c := &Case{Seed: seed, Vars: enumVars, Prog: pr}
						total++
						f, out := checkCase(c, s)
						if out.discard != "" {
							s.Discard(out.discard)
						}
						h := rt.Hash(c.Src, seed)
						if countTerms(pr.Stmts[0]) >= 1 && (len(pr.Stmts) > 1 && countTerms(pr.Stmts[1]) >= 1 || len(pr.Stmts) == 1 && countTerms(pr.Stmts[0].L) >= 1 && countTerms(pr.Stmts[0].R) >= 1) {
							s.NonTrivial(h)
						}
						s.Class("layout:" + lay)
						if out.info.abbreviated > 0 {
							s.Class("annotation-abbreviated")
						}
						if out.info.wsAbsorbed > 0 {
							s.Class("blank-absorbed-into-span")
						}
						if total%1499 == 1 {
							s.Sample(h, map[string]any{"src": c.Src, "seed": seed})
						}
						if s.Report(nil, f) {
							s.EvalN(total)
							return
						}
					}
				}
			}
		}
	}
	s.EvalN(total)
}

// ---------------------------------------------------------------------------
// computed variables

var computedNames = []string{"n", "n2", "临时", "v_c", "ss", "加值"}

func drawComputed(t *rapid.T, c *Case) (nonTrivial bool) {
	nc := rapid.IntRange(1, 2).Draw(t, "ncomputed")
	inProg := rapid.Bool().Draw(t, "inprog")
	names := rapid.Permutation(computedNames).Draw(t, "cnames")
	avail := append([]VarDef(nil), c.Vars...)
	var defs []*Def
	bodyHasDice := false
	for i := 0; i < nc; i++ {
		g := newGen(t, avail)
		g.noDefault = true
		g.budget = rapid.IntRange(1, 4).Draw(t, "cbudget")
		body := g.genExpr(2)
		if g.nDice > 0 {
			bodyHasDice = true
		}
		v := VarDef{Name: names[i], Expr: printNode(body), Body: body, InProg: inProg}
		if !inProg {
			v.Host = rapid.IntRange(0, 3).Draw(t, "hostComputed") == 0
		}
		c.Vars = append(c.Vars, v)
		avail = append(avail, v)
		if inProg {
			defs = append(defs, &Def{Name: names[i], Body: body, W: []string{
				pickOf(t, wsNoNLPool, "dw0"), pickOf(t, wsAnyPool, "dw1"),
				g.wsBeforeClose(body), pickOf(t, wsAnyPool, "dw3")}})
		}
	}
	g := newGen(t, avail)
	g.budget = rapid.IntRange(1, 5).Draw(t, "budget")
	e := g.genExpr(2)
	if g.feats["computed-var"] == 0 {
		e = g.bin("+", e, &Node{K: "cvar", S: names[rapid.IntRange(0, nc-1).Draw(t, "pick")]})
		g.feats["computed-var"]++
		g.nVars++
	}
	c.Prog = &Program{Stmts: []*Node{e}, Defs: defs}
	if pct(t, 10, "lead") {
		c.Prog.Lead = " "
	}
	return bodyHasDice && g.nDice+g.nVars >= 2
}

var _ = hex.EncodeToString
