// C18 — the st command reports every attribute edit once, in order, verbatim.
//
// A case is a *structured* list of edits (all assignments or all modifications);
// the printer writes it in one of the spellings the st grammar accepts, the oracle
// derives the expected CallbackSt log from the structure alone (names verbatim,
// values from a tiny reference evaluator over + - * and dice that are
// deterministic: d1, or any sides under DiceMinMode/DiceMaxMode).
package c18

import (
	"encoding/json"
	"fmt"
	"os"
	"runtime/debug"
	"strconv"
	"strings"
	"testing"

	ds "github.com/sealdice/dicescript"
	"pgregory.net/rapid"

	"verif/harness/rt"
)

// ---------------------------------------------------------------------------
// case structure

// Atom is one operand of a value expression.
type Atom struct {
	K     string `json:"k"`               // int | float | dice | d | paren
	I     int64  `json:"i,omitempty"`     // int value / dice count
	M     int64  `json:"m,omitempty"`     // dice sides
	F     string `json:"f,omitempty"`     // float literal as written
	E     *Expr  `json:"e,omitempty"`     // paren contents
	SpIn  string `json:"spin,omitempty"`  // blanks after '('
	SpOut string `json:"spout,omitempty"` // blanks before ')'
	// Clamp / CN: dice with a min<CN> or max<CN> clause (every die is raised to / cut at CN)
	Clamp string `json:"clamp,omitempty"`
	CN    int64  `json:"cn,omitempty"`
}

// Expr is [-] atom (op atom)*, ops from + - *; Spaced puts blanks round the
// operators (only ever set inside parentheses).
type Expr struct {
	Neg    bool     `json:"neg,omitempty"`
	Atoms  []Atom   `json:"atoms"`
	Ops    []string `json:"ops,omitempty"`
	Spaced bool     `json:"spaced,omitempty"`
}

type Edit struct {
	T       string `json:"t"` // set | x0 | x1 | comp | mod
	Name    string `json:"name"`
	Quoted  bool   `json:"q,omitempty"`
	StarPre string `json:"starpre,omitempty"` // x0/x1: blanks before '*'
	StarPos string `json:"starpos,omitempty"` // x1: blanks between '*' and the multiplier
	K       *Atom  `json:"kmul,omitempty"`    // x1 multiplier (int | float | paren)
	Pre     string `json:"pre,omitempty"`     // blanks before the joiner
	J       string `json:"j,omitempty"`       // "" (value juxtaposed), ":" "=" ; mod: "+" "+=" "-" "-="
	Post    string `json:"post,omitempty"`    // blanks after the joiner
	V       Expr   `json:"v"`
	Sep     string `json:"sep"` // text after the edit (list separator / trailing blank)
}

type Case struct {
	Mode  string `json:"mode,omitempty"` // "" | min | max
	Edits []Edit `json:"edits"`
	Tail  string `json:"tail,omitempty"` // text that is not an edit (section tails)
	// Via: "" = Context.Run; "expr" = Context.RunExpr, the entry point a host uses while the VM is busy with another
	// command (the rest text cannot be observed there)
	Via string `json:"via,omitempty"`
}

// ---------------------------------------------------------------------------
// printer

func (a Atom) text() string {
	switch a.K {
	case "int":
		return strconv.FormatInt(a.I, 10)
	case "float":
		return a.F
	case "dice":
		if a.Clamp != "" {
			return fmt.Sprintf("%dd%d%s%d", a.I, a.M, a.Clamp, a.CN)
		}
		return fmt.Sprintf("%dd%d", a.I, a.M)
	case "d":
		if a.Clamp != "" {
			return fmt.Sprintf("d%d%s%d", a.M, a.Clamp, a.CN)
		}
		return fmt.Sprintf("d%d", a.M)
	case "paren":
		return "(" + a.SpIn + a.E.text() + a.SpOut + ")"
	}
	return "?"
}

func (e Expr) text() string {
	var sb strings.Builder
	if e.Neg {
		sb.WriteString("-")
	}
	for i, a := range e.Atoms {
		if i > 0 {
			if e.Spaced {
				sb.WriteString(" " + e.Ops[i-1] + " ")
			} else {
				sb.WriteString(e.Ops[i-1])
			}
		}
		sb.WriteString(a.text())
	}
	return sb.String()
}

func (ed Edit) nameText() string {
	if ed.Quoted {
		return "'" + ed.Name + "'"
	}
	return ed.Name
}

func (ed Edit) text() string {
	switch ed.T {
	case "set":
		return ed.nameText() + ed.Pre + ed.J + ed.Post + ed.V.text()
	case "x0":
		return ed.nameText() + ed.StarPre + "*" + ed.Pre + ed.J + ed.Post + ed.V.text()
	case "x1":
		return ed.nameText() + ed.StarPre + "*" + ed.StarPos + ed.K.text() + ed.Pre + ed.J + ed.Post + ed.V.text()
	case "comp":
		return "&" + ed.nameText() + ed.Pre + ed.J + ed.Post + ed.V.text()
	case "mod":
		return ed.nameText() + ed.Pre + ed.J + ed.Post + ed.V.text()
	}
	return "?"
}

func (c Case) Source() string {
	var sb strings.Builder
	sb.WriteString("^st")
	for _, ed := range c.Edits {
		sb.WriteString(ed.text())
		sb.WriteString(ed.Sep)
	}
	sb.WriteString(c.Tail)
	return sb.String()
}

// ---------------------------------------------------------------------------
// reference values

type num struct {
	isF bool
	i   int64
	f   float64
}

func (n num) String() string {
	if n.isF {
		return "float " + strconv.FormatFloat(n.f, 'g', -1, 64)
	}
	return "int " + strconv.FormatInt(n.i, 10)
}

func (n num) neg() num {
	if n.isF {
		return num{isF: true, f: -n.f}
	}
	return num{i: -n.i}
}

func (n num) asF() float64 {
	if n.isF {
		return n.f
	}
	return float64(n.i)
}

func binop(op string, a, b num) num {
	if a.isF || b.isF {
		x, y := a.asF(), b.asF()
		switch op {
		case "+":
			return num{isF: true, f: x + y}
		case "-":
			return num{isF: true, f: x - y}
		default:
			return num{isF: true, f: x * y}
		}
	}
	switch op {
	case "+":
		return num{i: a.i + b.i}
	case "-":
		return num{i: a.i - b.i}
	default:
		return num{i: a.i * b.i}
	}
}

func (a Atom) eval(mode string) num {
	switch a.K {
	case "int":
		return num{i: a.I}
	case "float":
		f, _ := strconv.ParseFloat(a.F, 64)
		return num{isF: true, f: f}
	case "dice", "d":
		n := a.I
		if a.K == "d" {
			n = 1
		}
		die := int64(1) // every die shows 1: one-sided, or min mode
		if mode == "max" {
			die = a.M
		}
		switch {
		case a.Clamp == "min" && die < a.CN:
			die = a.CN
		case a.Clamp == "max" && die > a.CN:
			die = a.CN
		}
		return num{i: n * die}
	case "paren":
		return a.E.eval(mode)
	}
	return num{}
}

// eval: a leading '-' binds to the first operand only; * before + -; left to right.
func (e Expr) eval(mode string) num {
	var terms []num
	var addops []string
	cur := e.Atoms[0].eval(mode)
	if e.Neg {
		cur = cur.neg()
	}
	for i := 1; i < len(e.Atoms); i++ {
		v := e.Atoms[i].eval(mode)
		if e.Ops[i-1] == "*" {
			cur = binop("*", cur, v)
			continue
		}
		terms = append(terms, cur)
		addops = append(addops, e.Ops[i-1])
		cur = v
	}
	terms = append(terms, cur)
	acc := terms[0]
	for i := 1; i < len(terms); i++ {
		acc = binop(addops[i-1], acc, terms[i])
	}
	return acc
}

// ---------------------------------------------------------------------------
// domain (what the st grammar documents / what is not inherently ambiguous)

func isASCIILetter(r rune) bool { return r >= 'a' && r <= 'z' || r >= 'A' && r <= 'Z' }

func firstRune(s string) rune {
	for _, r := range s {
		return r
	}
	return 0
}

func (e Expr) last() Atom   { return e.Atoms[len(e.Atoms)-1] }
func (ed Edit) isNS() bool  { return !ed.Quoted && strings.Contains(ed.Name, ":") }
func (ed Edit) dName() bool { r := firstRune(ed.Name); return !ed.Quoted && (r == 'd' || r == 'D') }
func hasComma(s string) bool { return strings.Contains(s, ",") }

// diceAbutsName: "3d6kex70" keeps the highest die ("3d6k" is a dice expression), and a value that
// starts with a letter ("d6") directly followed by a name reads as one identifier ("d6力量"):
// inherently ambiguous spellings, not defects.
func diceAbutsName(ed, nx Edit) bool {
	if ed.Sep != "" || nx.Quoted || nx.T == "comp" {
		return false
	}
	switch ed.V.last().K {
	case "dice":
		return isASCIILetter(firstRune(nx.Name))
	case "d":
		return true
	}
	return false
}

// abutsDice: "60d70" / "(1+2) d70" are dice expressions of the language, so a juxtaposed
// assignment to a name that is exactly d/D cannot follow an integer or a parenthesis
// without a comma (inherently ambiguous, not a defect).
func abutsDice(ed, nx Edit) bool {
	if nx.Quoted || nx.T != "set" || nx.J != "" || (nx.Name != "d" && nx.Name != "D") || hasComma(ed.Sep) {
		return false
	}
	switch ed.V.last().K {
	case "int":
		return ed.Sep == ""
	case "paren":
		return true
	}
	return false
}

// Feature switches of the open findings (see KNOWN_FINDINGS.d/C18.txt).
const (
	featCompSpace = "st_computed_blank_after_joiner" // &name = expr with a blank after ':' / '='
	featParenNext = "st_paren_value_unrestricted"    // (expr) value followed, without a comma, by a d/D-name or by &name
	featModDName  = "st_mod_value_unrestricted"      // modification value followed, without blank/comma, by a d/D-name (or "(..) dname")
)

// feature reports which finding-feature edit i exhibits (with its successor), "" if none.
func (c Case) feature(i int) string {
	ed := c.Edits[i]
	if ed.T == "comp" && ed.Post != "" {
		return featCompSpace
	}
	if i+1 >= len(c.Edits) {
		return ""
	}
	nx := c.Edits[i+1]
	if hasComma(ed.Sep) {
		return ""
	}
	lastParen := ed.V.last().K == "paren"
	if ed.T != "mod" {
		if lastParen && (nx.dName() || nx.T == "comp") {
			return featParenNext
		}
		return ""
	}
	if nx.dName() && (ed.Sep == "" || lastParen) {
		return featModDName
	}
	return ""
}

// outside returns a reason when the case is not in the documented, unambiguous domain.
func (c Case) outside() string {
	if len(c.Edits) == 0 {
		return "empty"
	}
	fam := c.Edits[0].T == "mod"
	for i, ed := range c.Edits {
		if (ed.T == "mod") != fam {
			return "mixed-list"
		}
		if ed.Name == "" {
			return "empty-name"
		}
		if ed.isNS() && (ed.T == "x0" || ed.T == "x1") {
			return "namespaced-multiplier"
		}
		top := ed.V
		if len(top.Atoms) == 0 {
			return "empty-value"
		}
		first := top.Atoms[0]
		switch ed.T {
		case "set", "x0", "x1", "comp":
			if len(top.Atoms) != 1 {
				return "bare-arithmetic-in-assignment"
			}
			if ed.J == "" {
				if ed.T != "set" {
					return "joiner-required"
				}
				if top.Neg || first.K == "d" {
					return "juxtaposed-value-not-numeric"
				}
			}
			if first.K == "d" && !top.Neg && !(ed.J == "=" || ed.Post != "") {
				return "letter-value-after-colon"
			}
		case "mod":
			if top.Neg {
				return "signed-mod-value"
			}
		}
		if i+1 < len(c.Edits) {
			nx := c.Edits[i+1]
			if diceAbutsName(ed, nx) {
				return "dice-abuts-name"
			}
			if abutsDice(ed, nx) {
				return "value-abuts-d-juxtaposed"
			}
		} else if ed.Sep != "" && ed.Sep != " " {
			return "trailing-separator"
		}
	}
	return ""
}

// ---------------------------------------------------------------------------
// oracle

type logEntry struct {
	T      string
	Name   string
	Val    *ds.VMValue
	Extra  *ds.VMValue
	Op     string
	Detail string
}

func fmtVal(v *ds.VMValue) string {
	if v == nil {
		return "nil"
	}
	return v.GetTypeName() + " " + v.ToRepr()
}

func (l logEntry) String() string {
	return fmt.Sprintf("(%s %q val=%s extra=%s op=%q detail=%q)", l.T, l.Name, fmtVal(l.Val), fmtVal(l.Extra), l.Op, l.Detail)
}

func fmtLog(l []logEntry) string {
	var sb strings.Builder
	for i, e := range l {
		if i > 0 {
			sb.WriteString(" ")
		}
		sb.WriteString(e.String())
	}
	return fmt.Sprintf("%d callbacks: %s", len(l), sb.String())
}

func numEq(v *ds.VMValue, want num) bool {
	if v == nil {
		return false
	}
	if want.isF {
		f, ok := v.ReadFloat()
		return ok && v.TypeId == ds.VMTypeFloat && f == want.f
	}
	i, ok := v.ReadInt()
	return ok && v.TypeId == ds.VMTypeInt && int64(i) == want.i
}

func newVM(mode string) *ds.Context {
	vm := ds.NewVM()
	vm.Config.OpCountLimit = 30000
	switch mode {
	case "min":
		vm.Config.DiceMinMode = true
	case "max":
		vm.Config.DiceMaxMode = true
	}
	return vm
}

type want struct {
	T      string
	Name   string
	Val    num
	Comp   string // computed: expected expression text
	Extra  *num
	Op     string
	Detail string
}

func (w want) String() string {
	ex := "nil"
	if w.Extra != nil {
		ex = w.Extra.String()
	}
	v := w.Val.String()
	if w.Comp != "" {
		v = "computed &(" + w.Comp + ") evaluating to " + v
	}
	return fmt.Sprintf("(%s %q val=%s extra=%s op=%q detail=%q)", w.T, w.Name, v, ex, w.Op, w.Detail)
}

func (c Case) expected() []want {
	var out []want
	for _, ed := range c.Edits {
		w := want{Name: ed.Name, Val: ed.V.eval(c.Mode)}
		switch ed.T {
		case "set":
			w.T = "set"
		case "x0":
			w.T = "set.x0"
		case "x1":
			w.T = "set.x1"
			k := ed.K.eval(c.Mode)
			w.Extra = &k
		case "comp":
			w.T = "set"
			w.Comp = ed.V.text()
		case "mod":
			w.T = "mod"
			switch ed.J {
			case "+", "+=":
				w.Op = "+"
				w.Detail = ed.V.text()
			case "-=":
				w.Op = "-="
				w.Detail = ed.V.text()
			case "-":
				// the text from '-' on is one expression; the callback carries its negation
				w.Op = "-"
				w.Detail = "-" + ed.Post + ed.V.text()
				neg := ed.V
				neg.Neg = true
				w.Val = neg.eval(c.Mode).neg()
			}
		}
		out = append(out, w)
	}
	return out
}

func fmtWants(ws []want) string {
	var sb strings.Builder
	for i, w := range ws {
		if i > 0 {
			sb.WriteString(" ")
		}
		sb.WriteString(w.String())
	}
	return fmt.Sprintf("%d callbacks: %s", len(ws), sb.String())
}

// compare returns the kind of the first disagreement between entry and want ("" when equal).
func compare(c Case, got logEntry, w want) string {
	if got.T != w.T {
		return "type"
	}
	if got.Name != w.Name {
		return "name"
	}
	if w.Comp != "" {
		cd, ok := got.Val.ReadComputed()
		if !ok || cd == nil {
			return "value"
		}
		if strings.TrimRight(cd.Expr, " ") != w.Comp {
			return "computed-text"
		}
		// the stored computed value must evaluate to the written expression's value
		vm := newVM(c.Mode)
		var res *ds.VMValue
		pi := rt.Guard(func() { res = got.Val.ComputedExecute(vm, nil) })
		if pi != nil || vm.Error != nil || !numEq(res, w.Val) {
			return "computed-eval"
		}
	} else if !numEq(got.Val, w.Val) {
		return "value"
	}
	if w.Extra != nil && !numEq(got.Extra, *w.Extra) {
		return "extra"
	}
	// operator and expression text are part of the report only for modifications
	if w.T == "mod" {
		if got.Op != w.Op {
			return "op"
		}
		if strings.TrimRight(got.Detail, " ") != w.Detail {
			return "detail"
		}
	}
	return ""
}

// sigFor names what failed: the feature class of an open finding when the first
// disagreement sits on the edit that shows the feature (or its successor),
// otherwise kind + edit type + spelling of the edit concerned.
func (c Case) sigFor(kind string, idx int) string {
	for _, i := range []int{idx, idx - 1} {
		if i >= 0 && i < len(c.Edits) {
			if f := c.feature(i); f != "" {
				return "class:" + f
			}
		}
	}
	if idx < 0 {
		for i := range c.Edits {
			if f := c.feature(i); f != "" {
				return "class:" + f
			}
		}
		return "st:" + kind
	}
	if idx >= len(c.Edits) {
		return "st:" + kind + "/extra-callback"
	}
	ed := c.Edits[idx]
	form := ed.T
	if ed.T != "mod" {
		if ed.J == "" {
			form += "/juxtaposed"
		} else {
			form += "/joined"
		}
	} else {
		form += "/" + ed.J
	}
	if ed.Quoted {
		form += "/quoted"
	} else if ed.isNS() {
		form += "/namespaced"
	}
	return "st:" + kind + "/" + form
}

func run(c Case) (log []logEntry, err error, rest string, pi *rt.PanicInfo) {
	vm := newVM(c.Mode)
	vm.Config.CallbackSt = func(t string, name string, val *ds.VMValue, extra *ds.VMValue, op string, detail string) {
		log = append(log, logEntry{t, name, val, extra, op, detail})
	}
	src := c.Source()
	if c.Via == "expr" {
		pi = rt.Guard(func() { _, err = vm.RunExpr(src, false) })
		return
	}
	pi = rt.Guard(func() { err = vm.Run(src) })
	rest = vm.RestInput
	return
}

// checkCase is the oracle of sections lists/enum (Tail == "") and tails (Tail != "").
func checkCase(c Case, s *rt.Section) *rt.Failure {
	src := c.Source()
	ws := c.expected()
	log, err, rest, pi := run(c)
	exp := fmtWants(ws) + "; no error; nothing left unparsed   [source " + strconv.Quote(src) + "]"
	if pi != nil {
		return s.NewFailure("no-panic", pi.Sig(), c, "panic: "+pi.Value, exp)
	}
	if c.Tail != "" {
		// text that is not an edit: either the whole command is refused (no callback at all)
		// or exactly the written edits are reported; never fewer, more, or different ones
		if err != nil && len(log) == 0 {
			return nil
		}
		exp = fmtWants(ws) + " (or an error and no callback); the tail " + strconv.Quote(c.Tail) + " is not an edit   [source " + strconv.Quote(src) + "]"
	} else if err != nil {
		return s.NewFailure("st-log", c.sigFor("error", -1), c, "error: "+err.Error()+"; "+fmtLog(log), exp)
	}
	for i := 0; i < len(log) && i < len(ws); i++ {
		if k := compare(c, log[i], ws[i]); k != "" {
			return s.NewFailure("st-log", c.sigFor(k, i), c, fmt.Sprintf("callback %d differs (%s): %s; rest=%q", i, k, fmtLog(log), rest), exp)
		}
	}
	if len(log) < len(ws) {
		return s.NewFailure("st-log", c.sigFor("missing", len(log)), c, fmtLog(log)+fmt.Sprintf("; rest=%q err=%v", rest, err), exp)
	}
	if len(log) > len(ws) {
		return s.NewFailure("st-log", c.sigFor("extra", len(log)), c, fmtLog(log)+fmt.Sprintf("; rest=%q err=%v", rest, err), exp)
	}
	if c.Tail == "" && strings.TrimSpace(rest) != "" { // RestInput re-includes trailing blanks by construction
		return s.NewFailure("st-log", c.sigFor("rest", len(ws)-1), c, fmt.Sprintf("unparsed rest %q after %s", rest, fmtLog(log)), exp)
	}
	return nil
}

// ---------------------------------------------------------------------------
// generators

var cjkPool = []rune("力量敏捷智体质手枪步射击弓箭斗殴闪避意志幸运知识理魅外貌教育侦查")
var otherLetters = []rune("éßΩяあ한ｄÀ")
var asciiLetters = []rune("abcdefghijklmnopqrstuvwxyzABCDEFGHIJKLMNOPQRSTUVWXYZ")
var dLetters = []rune("dDdk") // weight names that start like a dice operator

// genWord draws a name; a word that is one of the language's keywords (the grammar refuses them as names: rule
// keywords_test) gets a letter appended.
func genWord(t *rapid.T, label string) string {
	w := genWord0(t, label)
	switch w {
	case "while", "if", "else", "continue", "break", "return", "func":
		return w + "x"
	}
	return w
}

func genWord0(t *rapid.T, label string) string {
	var sb strings.Builder
	switch rapid.IntRange(0, 9).Draw(t, label+"kind") {
	case 0, 1, 2, 3, 4:
		n := rapid.IntRange(1, 3).Draw(t, label+"n")
		for i := 0; i < n; i++ {
			sb.WriteRune(rapid.SampledFrom(cjkPool).Draw(t, label+"c"))
		}
	case 5, 6:
		n := rapid.IntRange(1, 4).Draw(t, label+"n")
		for i := 0; i < n; i++ {
			sb.WriteRune(rapid.SampledFrom(asciiLetters).Draw(t, label+"c"))
		}
	case 7:
		sb.WriteRune(rapid.SampledFrom(dLetters).Draw(t, label+"c"))
		n := rapid.IntRange(0, 3).Draw(t, label+"n")
		for i := 0; i < n; i++ {
			sb.WriteRune(rapid.SampledFrom(asciiLetters).Draw(t, label+"c"))
		}
	default:
		n := rapid.IntRange(1, 3).Draw(t, label+"n")
		for i := 0; i < n; i++ {
			switch rapid.IntRange(0, 2).Draw(t, label+"k") {
			case 0:
				sb.WriteRune(rapid.SampledFrom(cjkPool).Draw(t, label+"c"))
			case 1:
				sb.WriteRune(rapid.SampledFrom(asciiLetters).Draw(t, label+"c"))
			default:
				sb.WriteRune(rapid.SampledFrom(otherLetters).Draw(t, label+"c"))
			}
		}
	}
	return sb.String()
}

var quotedExtra = []rune("0123456789 :")

func genQuoted(t *rapid.T) string {
	var sb strings.Builder
	n := rapid.IntRange(1, 6).Draw(t, "qn")
	for i := 0; i < n; i++ {
		if rapid.IntRange(0, 2).Draw(t, "qk") == 0 {
			sb.WriteRune(rapid.SampledFrom(quotedExtra).Draw(t, "qc"))
		} else if rapid.Bool().Draw(t, "qcjk") {
			sb.WriteRune(rapid.SampledFrom(cjkPool).Draw(t, "qc"))
		} else {
			sb.WriteRune(rapid.SampledFrom(asciiLetters).Draw(t, "qc"))
		}
	}
	return sb.String()
}

// genName: kind 0 plain, 1 namespaced, 2 quoted
func genName(t *rapid.T, allowNS bool) (string, bool) {
	k := rapid.IntRange(0, 9).Draw(t, "namekind")
	switch {
	case k <= 4:
		return genWord(t, "w"), false
	case k <= 6 && allowNS:
		return genWord(t, "a") + ":" + genWord(t, "b"), false
	case k <= 6:
		return genWord(t, "w"), false
	default:
		return genQuoted(t), true
	}
}

func genBlank(t *rapid.T, label string) string {
	return rapid.SampledFrom([]string{"", "", "", " ", " ", "  "}).Draw(t, label)
}

func genInt(t *rapid.T) int64 {
	if rapid.IntRange(0, 9).Draw(t, "big") == 0 {
		return int64(rapid.IntRange(0, 2000000).Draw(t, "i"))
	}
	return int64(rapid.IntRange(0, 120).Draw(t, "i"))
}

func genFloat(t *rapid.T) string {
	frac := strconv.Itoa(rapid.IntRange(0, 99).Draw(t, "frac"))
	if rapid.Bool().Draw(t, "pad") {
		frac = "0" + frac
	}
	if rapid.IntRange(0, 3).Draw(t, "noint") == 0 {
		return "." + frac
	}
	return strconv.Itoa(rapid.IntRange(0, 150).Draw(t, "ip")) + "." + frac
}

func genDice(t *rapid.T, mode string, countless bool) Atom {
	m := int64(1)
	if mode != "" {
		m = int64(rapid.IntRange(1, 20).Draw(t, "sides"))
	}
	a := Atom{K: "dice", I: int64(rapid.IntRange(1, 9).Draw(t, "count")), M: m}
	if countless {
		a = Atom{K: "d", M: m}
	}
	if rapid.IntRange(0, 4).Draw(t, "clamp") == 0 {
		// the clause of one edit's dice must not reach the dice of a later edit of the list
		a.Clamp = rapid.SampledFrom([]string{"min", "max"}).Draw(t, "clampKind")
		a.CN = int64(rapid.IntRange(1, int(m)+2).Draw(t, "clampN"))
	}
	return a
}

// genIntAtom: an int-valued operand (inside parentheses everything is allowed)
func genIntAtom(t *rapid.T, mode string, depth int, inParen bool) Atom {
	k := rapid.IntRange(0, 9).Draw(t, "atom")
	switch {
	case k <= 4:
		return Atom{K: "int", I: genInt(t)}
	case k <= 6:
		return genDice(t, mode, false)
	case k == 7 && inParen:
		return genDice(t, mode, true)
	case depth < 2:
		return genParen(t, mode, depth+1)
	}
	return Atom{K: "int", I: genInt(t)}
}

func genParen(t *rapid.T, mode string, depth int) Atom {
	// no blank before ')': "(1 )" is not an expression of the language (numbers do not absorb trailing blanks)
	a := Atom{K: "paren", SpIn: genBlank(t, "spin")}
	if rapid.IntRange(0, 7).Draw(t, "pfloat") == 0 {
		a.E = &Expr{Neg: rapid.Bool().Draw(t, "neg"), Atoms: []Atom{{K: "float", F: genFloat(t)}}}
		return a
	}
	n := rapid.IntRange(1, 3).Draw(t, "plen")
	e := &Expr{Neg: rapid.IntRange(0, 4).Draw(t, "neg") == 0, Spaced: rapid.Bool().Draw(t, "spaced")}
	for i := 0; i < n; i++ {
		e.Atoms = append(e.Atoms, genIntAtom(t, mode, depth, true))
		if i > 0 {
			e.Ops = append(e.Ops, rapid.SampledFrom([]string{"+", "-", "*"}).Draw(t, "op"))
		}
	}
	a.E = e
	return a
}

// genSingle: one-operand value of an assignment
func genSingle(t *rapid.T, mode string, allowNeg, allowD bool) Expr {
	k := rapid.IntRange(0, 11).Draw(t, "vkind")
	var a Atom
	switch {
	case k <= 3:
		a = Atom{K: "int", I: genInt(t)}
	case k <= 5:
		a = Atom{K: "float", F: genFloat(t)}
	case k <= 7:
		a = genDice(t, mode, false)
	case k == 8 && allowD:
		a = genDice(t, mode, true)
	default:
		a = genParen(t, mode, 1)
	}
	e := Expr{Atoms: []Atom{a}}
	if allowNeg && rapid.IntRange(0, 5).Draw(t, "vneg") == 0 {
		e.Neg = true
	}
	return e
}

// genModValue: value of a modification: operand (op operand)* written without blanks
func genModValue(t *rapid.T, mode string) Expr {
	if rapid.IntRange(0, 6).Draw(t, "mfloat") == 0 {
		return Expr{Atoms: []Atom{{K: "float", F: genFloat(t)}}}
	}
	n := rapid.SampledFrom([]int{1, 1, 1, 2, 2, 3}).Draw(t, "mlen")
	e := Expr{}
	for i := 0; i < n; i++ {
		var a Atom
		if rapid.IntRange(0, 7).Draw(t, "md") == 0 {
			a = genDice(t, mode, true)
		} else {
			a = genIntAtom(t, mode, 0, false)
		}
		e.Atoms = append(e.Atoms, a)
		if i > 0 {
			e.Ops = append(e.Ops, rapid.SampledFrom([]string{"+", "-", "-", "*"}).Draw(t, "op"))
		}
	}
	return e
}

func genAssign(t *rapid.T, mode string, s *rt.Section) Edit {
	ed := Edit{}
	switch k := rapid.IntRange(0, 11).Draw(t, "etype"); {
	case k <= 5:
		ed.T = "set"
	case k == 6:
		ed.T = "x0"
	case k <= 8:
		ed.T = "x1"
	default:
		ed.T = "comp"
	}
	ed.Name, ed.Quoted = genName(t, ed.T == "set" || ed.T == "comp")
	if ed.T == "set" && rapid.IntRange(0, 2).Draw(t, "jux") == 0 {
		ed.V = genSingle(t, mode, false, false)
		return ed
	}
	ed.Pre = genBlank(t, "pre")
	ed.J = rapid.SampledFrom([]string{":", "="}).Draw(t, "j")
	ed.Post = genBlank(t, "post")
	if ed.T == "comp" && ed.Post != "" && s.Avoid(featCompSpace) {
		ed.Post = ""
	}
	switch ed.T {
	case "x0", "x1":
		ed.StarPre = genBlank(t, "starpre")
	}
	if ed.T == "x1" {
		ed.StarPos = genBlank(t, "starpos")
		var k Atom
		switch rapid.IntRange(0, 3).Draw(t, "kkind") {
		case 0, 1:
			k = Atom{K: "int", I: int64(rapid.IntRange(0, 12).Draw(t, "k"))}
		case 2:
			k = Atom{K: "float", F: genFloat(t)}
		default:
			k = genParen(t, mode, 1)
		}
		ed.K = &k
	}
	ed.V = genSingle(t, mode, true, ed.J == "=" || ed.Post != "")
	return ed
}

func genMod(t *rapid.T, mode string) Edit {
	ed := Edit{T: "mod"}
	ed.Name, ed.Quoted = genName(t, true)
	ed.Pre = genBlank(t, "pre")
	ed.J = rapid.SampledFrom([]string{"+", "+=", "-", "-="}).Draw(t, "j")
	ed.Post = genBlank(t, "post")
	ed.V = genModValue(t, mode)
	return ed
}

var listSeps = []string{"", "", " ", " ", ",", ", ", " ,", " , ", "  "}

func genCase(t *rapid.T, s *rt.Section, maxEdits int) Case {
	c := Case{Mode: rapid.SampledFrom([]string{"", "", "min", "max"}).Draw(t, "mode")}
	n := rapid.IntRange(1, maxEdits).Draw(t, "n")
	if rapid.Bool().Draw(t, "short") && n > 3 {
		n = n%3 + 1
	}
	mods := rapid.IntRange(0, 9).Draw(t, "family") < 4
	for i := 0; i < n; i++ {
		var ed Edit
		if mods {
			ed = genMod(t, c.Mode)
		} else {
			ed = genAssign(t, c.Mode, s)
		}
		if i < n-1 {
			ed.Sep = rapid.SampledFrom(listSeps).Draw(t, "sep")
		} else {
			ed.Sep = rapid.SampledFrom([]string{"", "", " "}).Draw(t, "trail")
		}
		c.Edits = append(c.Edits, ed)
	}
	// keep the list inside the domain / away from open findings by widening a separator
	for i := 0; i+1 < len(c.Edits); i++ {
		ed, nx := c.Edits[i], c.Edits[i+1]
		if diceAbutsName(ed, nx) {
			c.Edits[i].Sep = " "
			s.Class("widened:dice-abuts-name")
		}
		if abutsDice(c.Edits[i], nx) {
			c.Edits[i].Sep = ","
			s.Class("widened:value-abuts-d-juxtaposed")
		}
		if f := c.feature(i); f != "" && f != featCompSpace && s.Avoid(f) {
			c.Edits[i].Sep = ","
		}
	}
	return c
}

// ---------------------------------------------------------------------------
// bookkeeping shared by the sections

func nonTrivial(c Case) bool {
	if len(c.Edits) < 2 {
		return false
	}
	spell := map[string]bool{}
	for i, ed := range c.Edits {
		if ed.Quoted || ed.isNS() {
			return true
		}
		if i+1 < len(c.Edits) {
			spell["sep"+ed.Sep] = true
		}
	}
	return len(spell) >= 2
}

func classify(c Case, s *rt.Section) {
	s.Class(fmt.Sprintf("edits=%d", len(c.Edits)))
	if c.Mode != "" {
		s.Class("mode:" + c.Mode)
	}
	seen := map[string]bool{}
	mark := func(l string) {
		if !seen[l] {
			seen[l] = true
			s.Class(l)
		}
	}
	for i, ed := range c.Edits {
		mark("type:" + ed.T)
		if ed.T == "mod" {
			mark("mod:" + ed.J)
		} else if ed.J == "" {
			mark("form:juxtaposed")
		} else {
			mark("form:joined" + map[bool]string{true: "+blanks", false: ""}[ed.Pre+ed.Post != ""])
		}
		switch {
		case ed.Quoted:
			mark("name:quoted")
		case ed.isNS():
			mark("name:namespaced")
		case isASCIILetter(firstRune(ed.Name)):
			mark("name:ascii-initial")
		default:
			mark("name:cjk-initial")
		}
		mark("value-ends:" + ed.V.last().K)
		if len(ed.V.Atoms) > 1 {
			mark("value:bare-arithmetic")
		}
		if i+1 < len(c.Edits) {
			mark("sep:" + strconv.Quote(ed.Sep))
		}
	}
}

func hashCase(c Case) uint64 {
	return rt.Hash(c.Mode, c.Source())
}

// ---------------------------------------------------------------------------
// enumeration alphabet

func intE(i int64) Expr { return Expr{Atoms: []Atom{{K: "int", I: i}}} }
func parenE() Expr {
	return Expr{Atoms: []Atom{{K: "paren", E: &Expr{Atoms: []Atom{{K: "int", I: 1}, {K: "int", I: 2}}, Ops: []string{"+"}}}}}
}

type nameT struct {
	n string
	q bool
}

// enumAlphabet: level 0 = quick pairs, 1 = thorough pairs, 2 = thorough triples.
func enumAlphabet(level int) (assign []Edit, mods []Edit) {
	fl := Expr{Atoms: []Atom{{K: "float", F: "2.5"}}}
	dc := Expr{Atoms: []Atom{{K: "dice", I: 3, M: 1}}}
	negv := Expr{Neg: true, Atoms: []Atom{{K: "int", I: 5}}}
	dval := Expr{Atoms: []Atom{{K: "d", M: 1}}}
	tail := Expr{Atoms: []Atom{{K: "dice", I: 3, M: 1}, {K: "int", I: 1}}, Ops: []string{"-"}}
	var names []nameT
	var vals, mvals []Expr
	var joins [][3]string
	blanks := [][2]string{{"", ""}, {" ", " "}}
	extras := true // -5 / d1 values, float and parenthesised multipliers
	switch level {
	case 0:
		names = []nameT{{"力量", false}, {"dex", false}, {"射击:弓箭", false}, {"力量 12", true}}
		vals = []Expr{intE(60), fl, dc, parenE()}
		mvals = []Expr{intE(60), fl, parenE(), tail}
		joins = [][3]string{{"", ":", ""}, {"", "=", ""}, {" ", ":", " "}}
	case 1:
		names = []nameT{{"力量", false}, {"hp", false}, {"dex", false}, {"射击:弓箭", false}, {"力量 12", true}, {"a:b", true}}
		vals = []Expr{intE(60), fl, dc, parenE()}
		mvals = []Expr{intE(60), fl, dc, parenE(), tail}
		joins = [][3]string{{"", ":", ""}, {"", "=", ""}, {" ", ":", " "}, {"", "=", " "}}
	default:
		names = []nameT{{"力量", false}, {"dex", false}, {"射击:弓箭", false}, {"力 1", true}}
		vals = []Expr{intE(60), dc, parenE()}
		mvals = []Expr{intE(60), parenE(), tail}
		joins = [][3]string{{"", ":", ""}, {" ", "=", " "}}
		blanks = blanks[:1]
		extras = false
	}
	k2 := Atom{K: "int", I: 2}
	kf := Atom{K: "float", F: "2.5"}
	kp := parenE().Atoms[0]
	for _, nm := range names {
		ns := !nm.q && strings.Contains(nm.n, ":")
		for _, v := range vals {
			assign = append(assign, Edit{T: "set", Name: nm.n, Quoted: nm.q, V: v})
		}
		for ji, j := range joins {
			vs := append([]Expr{}, vals...)
			if extras {
				vs = append(vs, negv)
				if j[1] == "=" || j[2] != "" {
					vs = append(vs, dval)
				}
			}
			for _, v := range vs {
				assign = append(assign, Edit{T: "set", Name: nm.n, Quoted: nm.q, Pre: j[0], J: j[1], Post: j[2], V: v})
			}
			if !extras && ji > 0 {
				continue
			}
			if !ns {
				assign = append(assign, Edit{T: "x0", Name: nm.n, Quoted: nm.q, Pre: j[0], J: j[1], Post: j[2], V: vals[0]})
				assign = append(assign, Edit{T: "x1", Name: nm.n, Quoted: nm.q, K: &k2, Pre: j[0], J: j[1], Post: j[2], V: vals[0]})
				if extras {
					assign = append(assign, Edit{T: "x1", Name: nm.n, Quoted: nm.q, K: &kf, StarPre: " ", StarPos: " ", Pre: j[0], J: j[1], Post: j[2], V: vals[len(vals)-1]})
					assign = append(assign, Edit{T: "x1", Name: nm.n, Quoted: nm.q, K: &kp, Pre: j[0], J: j[1], Post: j[2], V: vals[1]})
				}
			}
			assign = append(assign, Edit{T: "comp", Name: nm.n, Quoted: nm.q, Pre: j[0], J: j[1], Post: j[2], V: vals[len(vals)-2]})
			assign = append(assign, Edit{T: "comp", Name: nm.n, Quoted: nm.q, Pre: j[0], J: j[1], Post: j[2], V: vals[len(vals)-1]})
		}
	}
	for _, nm := range names {
		for _, op := range []string{"+", "+=", "-", "-="} {
			for _, b := range blanks {
				for _, v := range mvals {
					mods = append(mods, Edit{T: "mod", Name: nm.n, Quoted: nm.q, Pre: b[0], J: op, Post: b[1], V: v})
				}
			}
		}
	}
	return
}

var enumSeps = []string{"", " ", ",", " , "}

// enumerate runs every list of exactly `length` edits over the alphabet (x every separator).
func enumerate(s *rt.Section, run *rt.Run, alpha []Edit, length int, seps []string) bool {
	n := len(alpha)
	ns := len(seps)
	idx := make([]int, length)
	sidx := make([]int, length) // separators between edits (last unused)
	var total int64
	unit := 0
	for {
		// shard on the full index of the first two positions
		unit++
		mine := unit%run.Env.NShards == run.Env.Shard
		if mine {
			c := Case{}
			for i := 0; i < length; i++ {
				ed := alpha[idx[i]]
				if i+1 < length {
					ed.Sep = seps[sidx[i]]
				}
				c.Edits = append(c.Edits, ed)
			}
			if why := c.outside(); why != "" {
				s.Discard("outside-domain:" + why)
			} else {
				skip := false
				for i := range c.Edits {
					if f := c.feature(i); f != "" && s.Avoid(f) {
						skip = true
						break
					}
				}
				if !skip {
					total++
					if nonTrivial(c) {
						s.NonTrivial(hashCase(c))
					}
					if total%997 == 1 {
						s.Sample(hashCase(c), c.Source())
						classify(c, s)
					}
					if f := checkCase(c, s); f != nil {
						if s.Report(nil, f) {
							s.EvalN(total)
							return false
						}
					}
				}
			}
		}
		// next: separators fastest, then edits
		p := 0
		for p < length-1 {
			sidx[p]++
			if sidx[p] < ns {
				break
			}
			sidx[p] = 0
			p++
		}
		if p < length-1 {
			continue
		}
		q := length - 1
		for q >= 0 {
			idx[q]++
			if idx[q] < n {
				break
			}
			idx[q] = 0
			q--
		}
		if q < 0 {
			break
		}
	}
	s.EvalN(total)
	return true
}

// ---------------------------------------------------------------------------
// tails

var tailJunk = []string{"#", ";", "。", "！", "]", "}", ")", "？", "@", "~"}
// tailNotes continue the last value with a binary operator and then break off (an unterminated string, a template,
// a dangling operator): the operator and what follows are given back as rest text, the value stays as written
var tailNotes = []string{" -\"备注", " +'note", " /'备注", "||", " && 'x", " -`a{1}", " * (2", " -\"a\\", " ?? \"", " == '备"}
var tailAssign = []string{"敏捷", "敏捷:", "敏捷=", "敏捷 =", "敏捷*", "敏捷*2", "敏捷*:", "&敏捷", "&敏捷=", "&敏捷:", "'敏捷", "'敏捷 1'", "'敏 捷':", ":", "=", "*2:3", "&"}
var tailMod = []string{"敏捷", "敏捷+", "敏捷+=", "敏捷-", "敏捷-=", "敏捷 +", "敏捷 -= ", "'敏捷 1'", "'敏捷 1'+=", "射击:弓箭", "射击:弓箭-=", "+", "-=", "'敏捷"}

// ---------------------------------------------------------------------------

// The memoising parser allocates a few hundred small maps per command; collecting less
// often roughly halves the cost of a case and changes nothing that is observed.
func TestMain(m *testing.M) {
	debug.SetGCPercent(800)
	os.Exit(m.Run())
}

func TestProp(t *testing.T) {
	run := rt.Begin(t, "C18")
	defer run.Finish()

	listRule := "structured lists of 1..8 edits, all assignments (name+value juxtaposed, name:value, name=value with optional blanks, name*:v, name*k:v, &name=expr) or all modifications (+ += - -=, optional blanks), names plain (CJK/ASCII/other letters), namespaced a:b or quoted with digits/blanks/colons, values ints, floats, NdM dice (one-sided, or any sides under DiceMinMode/DiceMaxMode; one in five with a min<k>/max<k> clause), one list in eight evaluated through RunExpr instead of Run, parenthesised + - * expressions, bare arithmetic tails in modifications, separators '' ' ' ',' and blanks round the comma, optional trailing blank; printed as ^st..., CallbackSt log compared element by element with the structure (type, verbatim name, reference value with '-' sign rule, extra, op, detail text; computed values additionally executed), no error, nothing left unparsed; non-trivial = at least 2 edits and (two different separators, or a namespaced or quoted name); distinct by mode+source text"

	run.Check("lists", 100000, 1200000, listRule, func(t *rapid.T, s *rt.Section) {
		max := 8
		c := genCase(t, s, max)
		if why := c.outside(); why != "" {
			s.Discard("outside-domain:" + why)
			return
		}
		if rapid.IntRange(0, 7).Draw(t, "viaRunExpr") == 0 {
			c.Via = "expr"
			s.Class("via:RunExpr")
		}
		s.Eval()
		h := hashCase(c)
		if nonTrivial(c) {
			s.NonTrivial(h)
		}
		classify(c, s)
		if len(c.Edits) <= 4 {
			s.Sample(h, c.Source())
		}
		s.Crumb(c)
		s.Report(t, checkCase(c, s))
	})

	run.Check("tails", 24000, 300000,
		"a generated list (as in section lists, 1..4 edits) followed, after '', a blank or a comma, by text that is not an edit: a junk character, a bare name, or an edit cut short (name:, name*2, &name=, name+=, an unclosed quote ...); either the command is refused as a whole (error, no callback) or the callback log is exactly the written list; non-trivial = the tail is a cut-short edit (it starts like an edit); distinct by mode+source text",
		func(t *rapid.T, s *rt.Section) {
			c := genCase(t, s, 4)
			if why := c.outside(); why != "" {
				s.Discard("outside-domain:" + why)
				return
			}
			last := &c.Edits[len(c.Edits)-1]
			last.Sep = rapid.SampledFrom([]string{"", " ", ",", " , "}).Draw(t, "tailsep")
			kind := rapid.IntRange(0, 4).Draw(t, "tailkind")
			switch {
			case kind == 0:
				c.Tail = rapid.SampledFrom(tailJunk).Draw(t, "junk")
			case kind == 4:
				c.Tail = rapid.SampledFrom(tailNotes).Draw(t, "note")
				last.Sep = rapid.SampledFrom([]string{"", " "}).Draw(t, "noteSep")
			case last.T == "mod":
				c.Tail = rapid.SampledFrom(tailMod).Draw(t, "cut")
			default:
				c.Tail = rapid.SampledFrom(tailAssign).Draw(t, "cut")
			}
			// a tail that begins with an operator character would continue the last value
			if kind != 4 && (last.Sep == "" || last.Sep == " ") {
				switch c.Tail[0] {
				case '+', '-', '*', '=', ':', '&', ')':
					last.Sep = ","
				}
			}
			s.Eval()
			h := hashCase(c)
			if kind != 0 {
				s.NonTrivial(h)
			}
			s.Class(fmt.Sprintf("tail-kind:%v", map[int]string{0: "junk", 4: "operator-then-broken-operand"}[kind]+map[bool]string{true: "cut-short-edit"}[kind != 0 && kind != 4]))
			s.Class("family:" + map[bool]string{true: "mod", false: "assign"}[last.T == "mod"])
			s.Sample(h, c.Source())
			s.Crumb(c)
			s.Report(t, checkCase(c, s))
		})

	enumRule := "every single edit and every ordered pair of edits (thorough: also every triple over a smaller alphabet) over a fixed alphabet (names: CJK, ASCII incl. a d-initial one, namespaced, quoted with blank and digits; values 60, 2.5, 3d1, (1+2), -5, d1, and 3d1-1 for modifications; joiner spellings ':' '=' with and without blanks; x0/x1 with int, float and parenthesised multiplier; computed) x separators '' ' ' ',' (thorough: also ' , '), same oracle as section lists; lists outside the documented domain or on an open finding's feature are skipped and counted; non-trivial as in lists"
	run.Enum("enum", enumRule, func(s *rt.Section) {
		s.Exhaustive = true
		level, seps := 0, []string{"", " ", ","}
		if run.Env.Thorough() {
			level, seps = 1, enumSeps
		}
		assign, mods := enumAlphabet(level)
		s.Bounds = fmt.Sprintf("all lists of length 1 and 2 over %d assignment spellings and over %d modification spellings, %d separators", len(assign), len(mods), len(seps))
		one := []string{""}
		ok := enumerate(s, run, assign, 1, one) && enumerate(s, run, mods, 1, one) &&
			enumerate(s, run, assign, 2, seps) && enumerate(s, run, mods, 2, seps)
		if ok && run.Env.Thorough() {
			a3, m3 := enumAlphabet(2)
			s.Bounds += fmt.Sprintf("; all lists of length 3 over %d assignment and %d modification spellings, 3x3 separators ('' ' ' ',')", len(a3), len(m3))
			_ = enumerate(s, run, a3, 3, enumSeps[:3]) && enumerate(s, run, m3, 3, enumSeps[:3])
		}
	})
}

func TestReplay(t *testing.T) {
	fn := func(b []byte, s *rt.Section) *rt.Failure {
		var c Case
		if err := json.Unmarshal(b, &c); err != nil || len(c.Edits) == 0 {
			return s.NewFailure("replay", "replay:bad-case", nil, fmt.Sprint(err), "")
		}
		for _, ed := range c.Edits {
			if len(ed.V.Atoms) == 0 || ((ed.T == "x1") != (ed.K != nil)) {
				return s.NewFailure("replay", "replay:bad-case", nil, "malformed edit", "")
			}
		}
		return checkCase(c, s)
	}
	rt.Replay(t, "C18", map[string]rt.ReplayFunc{"lists": fn, "tails": fn, "enum": fn})
}
