package vmx

import (
	"fmt"
	"sort"
	"strconv"
	"strings"

	ds "github.com/sealdice/dicescript"
)

// ReprN is Repr with a node budget: a value whose rendering needs more than
// maxNodes nodes (a DAG such as x=[x,x] repeated k times prints 2^k leaves) is cut
// off with "<budget>".  The traversal order is fixed (dict keys sorted), so equal
// values are cut at the same place and the result can still be compared.
func ReprN(v *ds.VMValue, maxNodes int) string {
	b := &bounded{left: maxNodes, seen: map[any]bool{}}
	b.repr(v, 0)
	return b.sb.String()
}

// AttrsReprN is AttrsRepr with a node budget.
func AttrsReprN(vm *ds.Context, maxNodes int) string {
	if vm.Attrs == nil {
		return "{}"
	}
	b := &bounded{left: maxNodes, seen: map[any]bool{}}
	b.mapRepr(vm.Attrs, 0)
	return b.sb.String()
}

type bounded struct {
	sb   strings.Builder
	left int
	seen map[any]bool
}

func (b *bounded) repr(v *ds.VMValue, depth int) {
	if b.left <= 0 {
		if b.left == 0 {
			b.sb.WriteString("<budget>")
			b.left = -1
		}
		return
	}
	b.left--
	if v == nil {
		b.sb.WriteString("<nil>")
		return
	}
	if depth > 40 {
		b.sb.WriteString("<deep>")
		return
	}
	switch v.TypeId {
	case ds.VMTypeInt:
		i, _ := v.ReadInt()
		b.sb.WriteString("i" + strconv.FormatInt(int64(i), 10))
	case ds.VMTypeFloat:
		f, _ := v.ReadFloat()
		b.sb.WriteString("f" + strconv.FormatFloat(f, 'g', -1, 64))
	case ds.VMTypeString:
		s, _ := v.ReadString()
		if len(s) > 4096 {
			h := uint64(14695981039346656037) // FNV-1a
			for i := 0; i < len(s); i++ {
				h = (h ^ uint64(s[i])) * 1099511628211
			}
			b.sb.WriteString(fmt.Sprintf("s<%d bytes, h%016x>", len(s), h) + strconv.Quote(s[:64]))
			return
		}
		b.sb.WriteString("s" + strconv.Quote(s))
	case ds.VMTypeNull:
		b.sb.WriteString("null")
	case ds.VMTypeArray:
		ad, ok := v.ReadArray()
		if !ok || ad == nil {
			b.sb.WriteString("arr<bad>")
			return
		}
		if b.seen[ad] {
			b.sb.WriteString("[...]")
			return
		}
		b.seen[ad] = true
		b.sb.WriteString("[")
		for i, e := range ad.List {
			if b.left < 0 {
				break
			}
			if i > 0 {
				b.sb.WriteString(",")
			}
			b.repr(e, depth+1)
		}
		b.sb.WriteString("]")
		delete(b.seen, ad)
	case ds.VMTypeDict:
		dd, ok := v.ReadDictData()
		if !ok || dd == nil || dd.Dict == nil {
			b.sb.WriteString("dict<bad>")
			return
		}
		if b.seen[dd] {
			b.sb.WriteString("{...}")
			return
		}
		b.seen[dd] = true
		b.mapRepr(dd.Dict, depth)
		delete(b.seen, dd)
	case ds.VMTypeComputedValue:
		cd, ok := v.ReadComputed()
		if !ok || cd == nil {
			b.sb.WriteString("computed<bad>")
			return
		}
		b.sb.WriteString("&(" + cd.Expr + ")")
		if cd.Attrs != nil && cd.Attrs.Length() > 0 {
			if b.seen[cd] {
				b.sb.WriteString("{...}")
				return
			}
			b.seen[cd] = true
			b.mapRepr(cd.Attrs, depth)
			delete(b.seen, cd)
		}
	case ds.VMTypeFunction:
		fd, ok := v.ReadFunctionData()
		if !ok || fd == nil {
			b.sb.WriteString("func<bad>")
			return
		}
		fmt.Fprintf(&b.sb, "func %s(%s){%s}", fd.Name, strings.Join(fd.Params, ","), fd.Expr)
	case ds.VMTypeNativeFunction:
		nd, ok := v.ReadNativeFunctionData()
		if !ok || nd == nil {
			b.sb.WriteString("nfunc<bad>")
			return
		}
		b.sb.WriteString("nfunc " + nd.Name)
		if nd.Self != nil {
			b.sb.WriteString(" bound")
		}
	case ds.VMTypeNativeObject:
		b.sb.WriteString("nobject")
	default:
		fmt.Fprintf(&b.sb, "type%d", v.TypeId)
	}
}

func (b *bounded) mapRepr(m *ds.ValueMap, depth int) {
	type kv struct {
		k string
		v *ds.VMValue
	}
	var items []kv
	m.Range(func(k string, v *ds.VMValue) bool {
		items = append(items, kv{k, v})
		return true
	})
	sort.Slice(items, func(i, j int) bool { return items[i].k < items[j].k })
	b.sb.WriteString("{")
	for i, it := range items {
		if b.left < 0 {
			break
		}
		if i > 0 {
			b.sb.WriteString(",")
		}
		b.sb.WriteString(strconv.Quote(it.k) + ":")
		b.repr(it.v, depth+1)
	}
	b.sb.WriteString("}")
}
