// Package vmx holds helpers shared by the property packages for driving a
// dicescript VM: configuration records, canonical value rendering (dicts by
// sorted key — never through ToString, whose order is Go map order) and
// state snapshots.
package vmx

import (
	"encoding/hex"
	"fmt"
	"sort"
	"strconv"
	"strings"

	ds "github.com/sealdice/dicescript"
	"pgregory.net/rapid"
)

// Cfg is the serialisable part of a VM configuration.
type Cfg struct {
	CoC        bool   `json:"coc,omitempty"`
	WoD        bool   `json:"wod,omitempty"`
	Fate       bool   `json:"fate,omitempty"`
	DC         bool   `json:"dc,omitempty"`
	NoStmts    bool   `json:"nostmt,omitempty"`
	NoNDice    bool   `json:"nondice,omitempty"`
	NoBitwise  bool   `json:"nobitwise,omitempty"`
	IgnoreDiv0 bool   `json:"ignorediv0,omitempty"`
	Mode       string `json:"mode,omitempty"` // "" random | "min" | "max"
	OpLimit    int    `json:"opLimit,omitempty"`
	ParseLimit uint64 `json:"parseLimit,omitempty"`
	DefSide    string `json:"defaultSide,omitempty"`
	Lang       int    `json:"lang,omitempty"`
	SeedHex    string `json:"seed,omitempty"` // 16 bytes; "" = unseeded
}

func (c Cfg) Apply(vm *ds.Context) {
	vm.Config.EnableDiceCoC = c.CoC
	vm.Config.EnableDiceWoD = c.WoD
	vm.Config.EnableDiceFate = c.Fate
	vm.Config.EnableDiceDoubleCross = c.DC
	vm.Config.DisableStmts = c.NoStmts
	vm.Config.DisableNDice = c.NoNDice
	vm.Config.DisableBitwiseOp = c.NoBitwise
	vm.Config.IgnoreDiv0 = c.IgnoreDiv0
	vm.Config.DiceMinMode = c.Mode == "min"
	vm.Config.DiceMaxMode = c.Mode == "max"
	vm.Config.OpCountLimit = ds.IntType(c.OpLimit)
	vm.Config.ParseExprLimit = c.ParseLimit
	vm.Config.DefaultDiceSideExpr = c.DefSide
	vm.Config.ParseErrorLanguage = c.Lang
}

// NewVM builds a context for the configuration (seeded when SeedHex is set).
func (c Cfg) NewVM() *ds.Context {
	vm := &ds.Context{}
	if c.SeedHex != "" {
		b, err := hex.DecodeString(c.SeedHex)
		if err == nil && len(b) == 16 {
			vm.Seed = b
		}
	}
	vm.Init()
	c.Apply(vm)
	return vm
}

// DrawCfg draws a configuration; families are on with probability 1/2 each.
func DrawCfg(t *rapid.T, seeded bool) Cfg {
	c := Cfg{
		CoC:        rapid.Bool().Draw(t, "coc"),
		WoD:        rapid.Bool().Draw(t, "wod"),
		Fate:       rapid.Bool().Draw(t, "fate"),
		DC:         rapid.Bool().Draw(t, "dc"),
		IgnoreDiv0: rapid.IntRange(0, 3).Draw(t, "ignDiv0") == 0,
		Mode:       rapid.SampledFrom([]string{"", "", "min", "max"}).Draw(t, "mode"),
		OpLimit:    30000,
	}
	if seeded {
		c.SeedHex = hex.EncodeToString(rapid.SliceOfN(rapid.Byte(), 16, 16).Draw(t, "seed"))
	}
	return c
}

// Repr renders a value canonically and structurally (public accessors only).
func Repr(v *ds.VMValue) string { return ReprN(v, ReprBudget) }

// ReprBudget bounds Repr and AttrsRepr: a DAG such as x=[x,x] built k times is cheap for the VM but has 2^k
// leaves; equal values are cut at the same place, so the bounded text still compares.
const ReprBudget = 250000

func reprPlain(v *ds.VMValue) string {
	var sb strings.Builder
	repr(&sb, v, 0, map[any]bool{})
	return sb.String()
}

func repr(sb *strings.Builder, v *ds.VMValue, depth int, seen map[any]bool) {
	if v == nil {
		sb.WriteString("<nil>")
		return
	}
	if depth > 40 {
		sb.WriteString("<deep>")
		return
	}
	switch v.TypeId {
	case ds.VMTypeInt:
		i, _ := v.ReadInt()
		sb.WriteString("i" + strconv.FormatInt(int64(i), 10))
	case ds.VMTypeFloat:
		f, _ := v.ReadFloat()
		sb.WriteString("f" + strconv.FormatFloat(f, 'g', -1, 64))
	case ds.VMTypeString:
		s, _ := v.ReadString()
		sb.WriteString("s" + strconv.Quote(s))
	case ds.VMTypeNull:
		sb.WriteString("null")
	case ds.VMTypeArray:
		ad, ok := v.ReadArray()
		if !ok || ad == nil {
			sb.WriteString("arr<bad>")
			return
		}
		if seen[ad] {
			sb.WriteString("[...]")
			return
		}
		seen[ad] = true
		sb.WriteString("[")
		for i, e := range ad.List {
			if i > 0 {
				sb.WriteString(",")
			}
			repr(sb, e, depth+1, seen)
		}
		sb.WriteString("]")
		delete(seen, ad)
	case ds.VMTypeDict:
		dd, ok := v.ReadDictData()
		if !ok || dd == nil || dd.Dict == nil {
			sb.WriteString("dict<bad>")
			return
		}
		if seen[dd] {
			sb.WriteString("{...}")
			return
		}
		seen[dd] = true
		sb.WriteString(mapRepr(dd.Dict, depth, seen))
		delete(seen, dd)
	case ds.VMTypeComputedValue:
		cd, ok := v.ReadComputed()
		if !ok || cd == nil {
			sb.WriteString("computed<bad>")
			return
		}
		sb.WriteString("&(" + cd.Expr + ")")
		if cd.Attrs != nil && cd.Attrs.Length() > 0 {
			sb.WriteString(mapRepr(cd.Attrs, depth, seen))
		}
	case ds.VMTypeFunction:
		fd, ok := v.ReadFunctionData()
		if !ok || fd == nil {
			sb.WriteString("func<bad>")
			return
		}
		fmt.Fprintf(sb, "func %s(%s){%s}", fd.Name, strings.Join(fd.Params, ","), fd.Expr)
	case ds.VMTypeNativeFunction:
		nd, ok := v.ReadNativeFunctionData()
		if !ok || nd == nil {
			sb.WriteString("nfunc<bad>")
			return
		}
		sb.WriteString("nfunc " + nd.Name)
		if nd.Self != nil {
			sb.WriteString(" bound")
		}
	case ds.VMTypeNativeObject:
		sb.WriteString("nobject")
	default:
		fmt.Fprintf(sb, "type%d", v.TypeId)
	}
}

func mapRepr(m *ds.ValueMap, depth int, seen map[any]bool) string {
	type kv struct {
		k string
		v *ds.VMValue
	}
	var items []kv
	m.Range(func(k string, v *ds.VMValue) bool {
		items = append(items, kv{k, v})
		return true
	})
	sort.Slice(items, func(i, j int) bool { return items[i].k < items[j].k })
	var sb strings.Builder
	sb.WriteString("{")
	for i, it := range items {
		if i > 0 {
			sb.WriteString(",")
		}
		sb.WriteString(strconv.Quote(it.k) + ":")
		repr(&sb, it.v, depth+1, seen)
	}
	sb.WriteString("}")
	return sb.String()
}

// AttrsRepr renders the top-level variables of a VM canonically.
func AttrsRepr(vm *ds.Context) string { return AttrsReprN(vm, ReprBudget) }

func attrsPlain(vm *ds.Context) string {
	if vm.Attrs == nil {
		return "{}"
	}
	return mapRepr(vm.Attrs, 0, map[any]bool{})
}

// SeedHex returns the current generator state of the context.
func SeedHex(vm *ds.Context) string {
	b, err := vm.GetCurSeed()
	if err != nil {
		return "err:" + err.Error()
	}
	return hex.EncodeToString(b)
}

// Outcome is what one Run produced, rendered for comparison.
type Outcome struct {
	Err     string `json:"err,omitempty"`
	Panic   string `json:"panic,omitempty"`
	Ret     string `json:"ret,omitempty"`
	Matched string `json:"matched"`
	Rest    string `json:"rest"`
	Detail  string `json:"detail"`
	Attrs   string `json:"attrs"`
	Seed    string `json:"seed,omitempty"`
}
