package vmx

import (
	"testing"

	ds "github.com/sealdice/dicescript"
)

// the bounded rendering is the plain one for everything below the budget
func TestBoundedSame(t *testing.T) {
	progs := []string{"1", "1.5", "'a\"b'", "null", "[1,[2,'x'],{'a':1,'b':[1]}]", "{'k':{'j':1}}", "func f(a,b){a+b}; f", "&c = 1+2; &c.x = 4; &c", "ceil", "[1,2].kh", "x=[1]; [x,x]", "x=[]; x.push(x); x", "true", "[1..5]", "d=1; {'a':d}", "`a{1}b`"}
	for _, p := range progs {
		vm := ds.NewVM()
		if err := vm.Run(p); err != nil {
			t.Fatalf("%s: %v", p, err)
		}
		if a, b := reprPlain(vm.Ret), ReprN(vm.Ret, 1000000); a != b {
			t.Errorf("%s:\n plain   %s\n bounded %s", p, a, b)
		}
		if a, b := attrsPlain(vm), AttrsReprN(vm, 1000000); a != b {
			t.Errorf("%s attrs:\n plain   %s\n bounded %s", p, a, b)
		}
	}
}
