package c10

import (
	"fmt"
	"os"
	"sort"
	"testing"

	"verif/harness/rt"
)

// TestSurvey (development aid, VERIF_SURVEY=1): runs the enumeration without stopping at the
// first failure and prints every distinct signature with its count and one example, plus the
// panics that the well-formed twin reproduces and the scripts that never ran without error.
func TestSurvey(t *testing.T) {
	if os.Getenv("VERIF_SURVEY") == "" {
		t.Skip("VERIF_SURVEY not set")
	}
	r := rt.Begin(t, "C10")
	var sec *rt.Section
	r.Enum("survey", "survey", func(s *rt.Section) { sec = s })
	type ex struct {
		n   int
		doc string
		op  string
	}
	sigs := map[string]*ex{}
	twins := map[string]int{}
	okRuns := map[string]int{}
	docs := enumDocs(os.Getenv("VERIF_SURVEY") == "deep")
	ncase := 0
	for _, d := range docs {
		for _, mode := range []string{"value", "map"} {
			doc := d
			if mode == "map" {
				doc = `{"x":` + d + `,"y":` + d + `}`
			}
			// one op / script at a time so that every failure is seen
			for _, op := range goOps {
				c := newCase([]byte(doc), mode, nil)
				c.Go = []string{op.name}
				f, st := checkCase(c, sec, opts{})
				ncase++
				for k, n := range st.twinSame {
					twins[k] += n
				}
				if f != nil {
					e := sigs[f.Signature]
					if e == nil {
						e = &ex{doc: mode + " " + doc, op: op.name}
						sigs[f.Signature] = e
					}
					e.n++
				}
			}
			for _, src := range battery {
				c := newCase([]byte(doc), mode, []string{src})
				c.NoGo = true
				f, st := checkCase(c, sec, opts{})
				ncase++
				if st.decoded && st.scriptErrs == 0 && f == nil {
					okRuns[src]++
				}
				for k, n := range st.twinSame {
					twins[k] += n
				}
				if f != nil {
					e := sigs[f.Signature]
					if e == nil {
						e = &ex{doc: mode + " " + doc, op: src}
						sigs[f.Signature] = e
					}
					e.n++
				}
			}
		}
	}
	fmt.Printf("docs=%d cases=%d\n", len(docs), ncase)
	var keys []string
	for k := range sigs {
		keys = append(keys, k)
	}
	sort.Strings(keys)
	for _, k := range keys {
		fmt.Printf("SIG %6d  %s\n            e.g. %s  ::  %s\n", sigs[k].n, k, sigs[k].doc, sigs[k].op)
	}
	keys = keys[:0]
	for k := range twins {
		keys = append(keys, k)
	}
	sort.Strings(keys)
	for _, k := range keys {
		fmt.Printf("TWIN-SAME %6d  %s\n", twins[k], k)
	}
	for _, src := range battery {
		if okRuns[src] == 0 {
			fmt.Printf("NEVER-OK script %q\n", src)
		}
	}
}
