// C10 — deserialising untrusted or outdated JSON never yields a booby-trapped value.
//
// For any byte string, VMValueFromJSON / json.Unmarshal into a ValueMap either returns an
// error or returns a value on which every operation is crash-free: printing, repr,
// truthiness, equality, re-serialisation and use as a variable in scripts.
//
// Oracle.  A case is (document, decode mode, list of scripts).  The document is decoded; when
// decoding succeeds a fixed battery of Go-level operations and the listed scripts are run with
// the decoded value(s) bound to variables, every one on a fresh decode in a fresh VM, under
// rt.Guard.  A panic is a violation with signature panic:<function>|<source line> UNLESS the
// very same operation panics at the very same place on the *well-formed twin* of the decoded
// value (a deep copy rebuilt with the public constructors: nil pointers become null values,
// a native function without data becomes a callable stub, a native-object shell gets
// callbacks, a Value whose Go type contradicts TypeId is replaced by the zero value of that
// type, values with a type tag outside the public enumeration become null).  Such a panic is
// a defect of the script engine that needs no deserialisation to show (property C01), it is
// counted as a discard and not reported here.  A panic inside the decoder itself is always
// a violation.
package c10

import (
	"encoding/base64"
	"encoding/json"
	"fmt"
	"math/bits"
	"reflect"
	"regexp"
	"sort"
	"strconv"
	"strings"
	"testing"
	"unicode/utf8"

	ds "github.com/sealdice/dicescript"
	"pgregory.net/rapid"

	"verif/harness/rt"
)

// ---------------------------------------------------------------------------
// case

type Case struct {
	Doc     string   `json:"doc,omitempty"`     // the JSON document (when valid UTF-8)
	DocB64  string   `json:"doc_b64,omitempty"` // otherwise, base64 of the bytes
	Mode    string   `json:"mode"`              // "value": VMValueFromJSON, bound as x and (a second decode) y; "map": json.Unmarshal into a ValueMap used as the VM's variable store
	Scripts []string `json:"scripts"`           // scripts run one by one, each on a fresh decode in a fresh VM
	// Doc2 (value mode): y is decoded from this document instead of from Doc a second time: another version of the same
	// stored value (a parameter added or dropped, attributes lost, an element appended, a function renamed)
	Doc2 string   `json:"doc2,omitempty"`
	NoGo bool     `json:"no_go,omitempty"` // skip the Go-level battery (failure records of a script)
	Go   []string `json:"go,omitempty"`    // run only these Go-level operations (failure records of a Go operation)
}

func newCase(doc []byte, mode string, scripts []string) Case {
	c := Case{Mode: mode, Scripts: scripts}
	if utf8.Valid(doc) {
		c.Doc = string(doc)
	} else {
		c.DocB64 = base64.StdEncoding.EncodeToString(doc)
	}
	return c
}

func (c Case) bytes() []byte {
	if c.DocB64 != "" {
		b, _ := base64.StdEncoding.DecodeString(c.DocB64)
		return b
	}
	return []byte(c.Doc)
}

// ---------------------------------------------------------------------------
// decoding, the environment the operations see, and the well-formed twin

type env struct {
	mode string
	x, y *ds.VMValue  // value mode
	m    *ds.ValueMap // map mode
}

// decode builds a fresh environment from the document.  perr is a panic of the decoder.
func decode(doc []byte, mode string) (e *env, err error, perr *rt.PanicInfo) {
	return decode2(doc, nil, mode)
}

func decode2(doc, doc2 []byte, mode string) (e *env, err error, perr *rt.PanicInfo) {
	e = &env{mode: mode}
	perr = rt.Guard(func() {
		if mode == "map" {
			m := &ds.ValueMap{}
			// every other document is decoded into a store that is in use (a long-lived VM whose variables the host
			// refreshes): variables written since its last promotion, some read back, one deleted. Decoding replaces them.
			if len(doc)%2 == 1 {
				m.Store("zz_old1", ds.NewIntVal(1))
				m.Store("zz_old2", ds.NewIntVal(2))
				if len(doc)%4 == 1 {
					for i := 0; i < 6; i++ {
						m.Load("zz_old1")
						m.Load("zz_none")
					}
					m.Store("zz_old3", ds.NewIntVal(3))
					m.Delete("zz_old2")
				}
			}
			err = json.Unmarshal(doc, m)
			e.m = m
			return
		}
		e.x, err = ds.VMValueFromJSON(doc)
		if err == nil {
			if doc2 != nil {
				if y, err2 := ds.VMValueFromJSON(doc2); err2 == nil {
					e.y = y
					return
				}
			}
			e.y, err = ds.VMValueFromJSON(doc)
		}
	})
	return
}

func stubNative(ctx *ds.Context, this *ds.VMValue, params []*ds.VMValue) *ds.VMValue {
	return ds.NewNullVal()
}

// publicBuiltin returns the built-in native function a script gets for name (nil when there is none).
func publicBuiltin(name string) *ds.VMValue {
	v := ds.NewVM().LoadNameGlobal(name, true)
	if v == nil || v.TypeId != ds.VMTypeNativeFunction {
		return nil
	}
	return v
}

// twin rebuilds v as a well-formed value using only the public constructors.
func twin(v *ds.VMValue, depth int) *ds.VMValue {
	if v == nil || depth > 200 {
		return ds.NewNullVal()
	}
	switch v.TypeId {
	case ds.VMTypeInt:
		i, _ := v.Value.(ds.IntType)
		return ds.NewIntVal(i)
	case ds.VMTypeFloat:
		f, _ := v.Value.(float64)
		return ds.NewFloatVal(f)
	case ds.VMTypeString:
		s, _ := v.Value.(string)
		return ds.NewStrVal(s)
	case ds.VMTypeNull:
		return ds.NewNullVal()
	case ds.VMTypeComputedValue:
		cd, _ := v.Value.(*ds.ComputedData)
		n := &ds.ComputedData{}
		if cd != nil {
			n.Expr = cd.Expr
			if cd.Attrs != nil {
				n.Attrs = twinMap(cd.Attrs, depth+1)
			}
		}
		return ds.NewComputedValRaw(n)
	case ds.VMTypeArray:
		ad, _ := v.Value.(*ds.ArrayData)
		var lst []*ds.VMValue
		if ad != nil {
			for _, e := range ad.List {
				lst = append(lst, twin(e, depth+1))
			}
		}
		return ds.NewArrayValRaw(lst)
	case ds.VMTypeDict:
		dd, _ := v.Value.(*ds.DictData)
		if dd == nil || dd.Dict == nil {
			return ds.NewDictVal(nil).V()
		}
		return ds.NewDictVal(twinMap(dd.Dict, depth+1)).V()
	case ds.VMTypeFunction:
		fd, _ := v.Value.(*ds.FunctionData)
		n := &ds.FunctionData{}
		if fd != nil {
			n.Expr, n.Name = fd.Expr, fd.Name
			n.Params = append([]string(nil), fd.Params...)
			if fd.Params == nil {
				n.Params = nil
			}
		}
		return ds.NewFunctionValRaw(n)
	case ds.VMTypeNativeFunction:
		nd, _ := v.Value.(*ds.NativeFunctionData)
		if nd != nil && nd.NativeFunc != nil && nd.Self == nil {
			// only a function that a script can reach by that name is its own twin (a public builtin);
			// anything else the decoder hands out (e.g. an unbound prototype method) is replaced by a stub,
			// so a crash on calling it is attributed to decoding
			if b := publicBuiltin(nd.Name); b != nil && ds.ValueEqual(b, v, false) {
				return &ds.VMValue{TypeId: v.TypeId, Value: nd}
			}
		}
		name := ""
		if nd != nil {
			name = nd.Name
		}
		return ds.NewNativeFunctionVal(&ds.NativeFunctionData{Name: name, Params: []string{"value"}, NativeFunc: stubNative})
	case ds.VMTypeNativeObject:
		od, _ := v.Value.(*ds.NativeObjectData)
		name := ""
		if od != nil {
			name = od.Name
		}
		return ds.NewNativeObjectVal(&ds.NativeObjectData{
			Name:     name,
			AttrSet:  func(ctx *ds.Context, name string, v *ds.VMValue) {},
			AttrGet:  func(ctx *ds.Context, name string) *ds.VMValue { return nil },
			ItemSet:  func(ctx *ds.Context, index *ds.VMValue, v *ds.VMValue) {},
			ItemGet:  func(ctx *ds.Context, index *ds.VMValue) *ds.VMValue { return nil },
			DirFunc:  func(ctx *ds.Context) []*ds.VMValue { return nil },
			ToString: func(ctx *ds.Context) string { return "nobject " + name },
		})
	}
	return ds.NewNullVal()
}

func twinMap(m *ds.ValueMap, depth int) *ds.ValueMap {
	n := &ds.ValueMap{}
	if m == nil {
		return n
	}
	m.Range(func(k string, v *ds.VMValue) bool {
		n.Store(k, twin(v, depth))
		return true
	})
	return n
}

func twinEnv(e *env) *env {
	t := &env{mode: e.mode}
	if e.mode == "map" {
		t.m = twinMap(e.m, 0)
	} else {
		t.x, t.y = twin(e.x, 0), twin(e.y, 0)
	}
	return t
}

// avoidSwitches are the generator switches that open findings may name: a decoded value that
// contains the trap is excluded from the battery while the finding is open.
var avoidSwitches = []string{"null_in_map", "null_in_list", "unknown_native", "nobject_shell"}

// stillRun lists, per avoid switch, the Go operations that are still run on an excluded value.
var nilTolerant = map[string]bool{"go:ToString": true, "go:ToRepr": true, "go:ToJSON": true, "go:ValueEqual(v,v)": true, "go:ValueEqual(v,second-decode)": true}
var stillRun = map[string]map[string]bool{
	"null_in_map":    nilTolerant,
	"null_in_list":   nilTolerant,
	"unknown_native": {},
	"nobject_shell": {"go:ToString": true, "go:ToRepr": true, "go:AsBool": true, "go:GetTypeName": true, "go:Clone": true, "go:ValueEqual(v,v)": true,
		"go:ValueEqual(v,clone)": true, "go:ValueEqual(v,second-decode)": true, "go:ValueEqual(v,number)": true, "go:AsDictKey": true, "go:ToJSON": true,
		"go:ToJSON-decode-again": true, "go:store-in-dict-ToJSON": true, "go:map-ToJSON": true},
}

// scan reports the structural traps present in a decoded value (used to honour the avoid
// switches of open findings and for the class histogram).
func scan(v *ds.VMValue, out map[string]bool, depth int) {
	if depth > 200 || v == nil {
		return
	}
	switch v.TypeId {
	case ds.VMTypeInt:
		if _, ok := v.Value.(ds.IntType); !ok {
			out["type_mismatch"] = true
		}
	case ds.VMTypeFloat:
		if _, ok := v.Value.(float64); !ok {
			out["type_mismatch"] = true
		}
	case ds.VMTypeString:
		if _, ok := v.Value.(string); !ok {
			out["type_mismatch"] = true
		}
	case ds.VMTypeNull:
	case ds.VMTypeComputedValue:
		cd, ok := v.Value.(*ds.ComputedData)
		if !ok || cd == nil {
			out["type_mismatch"] = true
			return
		}
		if cd.Attrs != nil {
			scanMap(cd.Attrs, out, depth+1)
		}
	case ds.VMTypeArray:
		ad, ok := v.Value.(*ds.ArrayData)
		if !ok || ad == nil {
			out["type_mismatch"] = true
			return
		}
		for _, e := range ad.List {
			if e == nil {
				out["null_in_list"] = true
			}
			scan(e, out, depth+1)
		}
	case ds.VMTypeDict:
		dd, ok := v.Value.(*ds.DictData)
		if !ok || dd == nil || dd.Dict == nil {
			out["type_mismatch"] = true
			return
		}
		scanMap(dd.Dict, out, depth+1)
	case ds.VMTypeFunction:
		fd, ok := v.Value.(*ds.FunctionData)
		if !ok || fd == nil {
			out["type_mismatch"] = true
		}
	case ds.VMTypeNativeFunction:
		nd, ok := v.Value.(*ds.NativeFunctionData)
		if !ok || nd == nil {
			out["unknown_native"] = true // what an unknown name decodes to today: TypeId 9 without data
		} else if nd.NativeFunc == nil {
			out["native_without_func"] = true
		}
	case ds.VMTypeNativeObject:
		od, ok := v.Value.(*ds.NativeObjectData)
		if !ok || od == nil {
			out["type_mismatch"] = true
			return
		}
		if od.AttrGet == nil || od.AttrSet == nil || od.ItemGet == nil || od.ItemSet == nil {
			out["nobject_shell"] = true
		}
	default:
		out["unknown_tag"] = true
	}
}

func scanMap(m *ds.ValueMap, out map[string]bool, depth int) {
	m.Range(func(k string, v *ds.VMValue) bool {
		if v == nil {
			out["null_in_map"] = true
		}
		scan(v, out, depth)
		return true
	})
}

func scanEnv(e *env) map[string]bool {
	out := map[string]bool{}
	if e.mode == "map" {
		scanMap(e.m, out, 0)
	} else {
		scan(e.x, out, 0)
	}
	return out
}

// ---------------------------------------------------------------------------
// the battery

const opLimit = 4000

// newVM makes a VM with a work budget and a depth cut-off: a name looked up more than 40
// frames deep yields null, so that a (mutated) self-referential computed value or function
// cannot recurse without bound (unbounded recursion is property C07's subject, not this one's).
func newVM(e *env) *ds.Context {
	vm := ds.NewVM()
	vm.Config.OpCountLimit = opLimit
	vm.Config.HookValueLoadPre = func(ctx *ds.Context, name string) (string, *ds.VMValue) {
		if ctx.Depth() > 40 {
			return name, ds.NewNullVal()
		}
		return name, nil
	}
	if e.mode == "map" {
		vm.Attrs = e.m
	} else {
		vm.Attrs.Store("x", e.x)
		vm.Attrs.Store("y", e.y)
	}
	return vm
}

type goOp struct {
	name   string
	fn     func(e *env)
	noTwin bool // the operation decodes JSON itself: a panic after that inner decode is attributable to decoding whatever the twin does
}

var goOps = []goOp{
	{name: "go:ToString", fn: func(e *env) { forEach(e, func(v, w *ds.VMValue) { _ = v.ToString() }) }},
	{name: "go:ToRepr", fn: func(e *env) { forEach(e, func(v, w *ds.VMValue) { _ = v.ToRepr() }) }},
	{name: "go:AsBool", fn: func(e *env) { forEach(e, func(v, w *ds.VMValue) { _ = v.AsBool() }) }},
	{name: "go:GetTypeName", fn: func(e *env) { forEach(e, func(v, w *ds.VMValue) { _ = v.GetTypeName() }) }},
	{name: "go:Clone", fn: func(e *env) { forEach(e, func(v, w *ds.VMValue) { _ = v.Clone().ToString() }) }},
	{name: "go:ValueEqual(v,v)", fn: func(e *env) { forEach(e, func(v, w *ds.VMValue) { _ = ds.ValueEqual(v, v, true) }) }},
	{name: "go:ValueEqual(v,clone)", fn: func(e *env) {
		forEach(e, func(v, w *ds.VMValue) { _ = ds.ValueEqual(v, v.Clone(), true); _ = ds.ValueEqual(v.Clone(), v, false) })
	}},
	{name: "go:ValueEqual(v,second-decode)", fn: func(e *env) {
		forEach(e, func(v, w *ds.VMValue) { _ = ds.ValueEqual(v, w, true); _ = ds.ValueEqual(w, v, false) })
	}},
	{name: "go:ValueEqual(v,number)", fn: func(e *env) {
		forEach(e, func(v, w *ds.VMValue) {
			_ = ds.ValueEqual(v, ds.NewIntVal(1), true)
			_ = ds.ValueEqual(ds.NewFloatVal(1), v, true)
		})
	}},
	{name: "go:AsDictKey", fn: func(e *env) { forEach(e, func(v, w *ds.VMValue) { _, _ = v.AsDictKey() }) }},
	{name: "go:ToJSON", fn: func(e *env) { forEach(e, func(v, w *ds.VMValue) { _, _ = v.ToJSON() }) }},
	{name: "go:ToJSON-decode-again", noTwin: true, fn: func(e *env) {
		forEach(e, func(v, w *ds.VMValue) {
			b, err := v.ToJSON()
			if err != nil || b == nil {
				return
			}
			v2, err := ds.VMValueFromJSON(b)
			if err == nil {
				_ = v2.ToString()
				_, _ = v2.ToJSON()
			}
		})
	}},
	{name: "go:store-in-dict-ToJSON", fn: func(e *env) {
		forEach(e, func(v, w *ds.VMValue) {
			d := ds.NewDictVal(nil)
			d.Store("k", v)
			_ = d.V().ToString()
			_, _ = d.V().ToJSON()
			a := ds.NewArrayVal(v, w)
			_ = a.ToRepr()
			_, _ = a.ToJSON()
		})
	}},
	{name: "go:map-ToJSON", noTwin: true, fn: func(e *env) {
		if e.m != nil {
			_ = e.m.Length()
			b, err := e.m.ToJSON()
			if err == nil {
				m2 := &ds.ValueMap{}
				if json.Unmarshal(b, m2) == nil {
					_, _ = m2.ToJSON()
				}
			}
		}
	}},
}

// forEach applies fn to the decoded value(s): (x, y) in value mode, every stored value paired
// with itself in map mode (in sorted key order).
func forEach(e *env, fn func(v, w *ds.VMValue)) {
	if e.mode != "map" {
		fn(e.x, e.y)
		return
	}
	var keys []string
	vals := map[string]*ds.VMValue{}
	e.m.Range(func(k string, v *ds.VMValue) bool {
		keys = append(keys, k)
		vals[k] = v
		return true
	})
	sort.Strings(keys)
	for _, k := range keys {
		v := vals[k]
		if v == nil {
			// a nil pointer cannot be a method receiver of the value battery; loading it from a
			// script is covered by the scripts.  Printing and equality tolerate nil by documentation.
			_ = v.ToString()
			_ = v.ToRepr()
			_ = ds.ValueEqual(v, v, true)
			_, _ = v.ToJSON()
			continue
		}
		fn(v, v)
	}
}

// battery is the fixed list of scripts.  x and y are the decoded variables.  None of them rolls
// dice, loops, defines recursion or builds a cyclic container (those belong to other properties).
var battery = buildBattery()

func buildBattery() []string {
	var b []string
	add := func(s ...string) { b = append(b, s...) }
	// load, print, repr, typeId, dir
	add("x", "y", "&x", "load('x')", "loadRaw('x')", "`{x}`", "`a{x}b{y}c`", "toStr(x)", "repr(x)", "typeId(x)", "dir(x)",
		"toBool(x)", "toInt(x)", "toFloat(x)", "abs(x)", "ceil(x)", "floor(x)", "round(x)")
	// truthiness and logic
	add("x ? 1 : 2", "x ? 1", "x && 1", "1 && x", "x || 1", "0 || x", "x ?? 1", "null ?? x", "if x { 1 } else { 2 }")
	// equality
	add("x == y", "x != y", "x == x", "x == 1", "1 == x", "x != 'a'", "x == 1.5", "x == [1]", "[1] == x", "x == {}", "x == null",
		"[x] == [y]", "{'k': x} == {'k': y}", "x == ceil", "ceil == x")
	// arithmetic, comparison, bitwise on either side
	for _, op := range []string{"+", "-", "*", "/", "%", "**", "<", "<=", ">", ">=", "&", "|"} {
		add("x "+op+" 2", "2 "+op+" x", "x "+op+" y")
	}
	add("x + 1.5", "1.5 * x", "x + 'a'", "'a' + x", "x + [1]", "[1] + x", "x * [1]", "[1, 2] * x", "-x", "+x")
	// indexing and slicing
	add("x[0]", "x[-1]", "x[1]", "x['a']", "x['g']", "x['__proto__']", "x[1.5]", "x[y]", "x[0][0]", "x[0].a", "x['a'][0]",
		"x[0:1]", "x[:]", "x[1:]", "x[:-1]", "x[y:y]", "'abc'[x]", "[1, 2][x]", "{'a': 1}[x]", "[1, 2, 3][x:y]")
	// attribute access
	add("x.a", "x.g", "x.h", "x.__proto__", "x.len", "x.name", "x.a.a", "x.a.g", "&x.a", "this.x", "this.x.a")
	// assignment through the value
	add("x.a = 1", "x.g = y", "&x.a = 1", "x[0] = 1", "x['a'] = 1", "x[-1] = y", "x[0:1] = [2]", "x[:] = y", "x.a = 1; x.a", "x[0] = 1; x",
		"x['a'] = 1; `{x}`")
	// calls
	add("x()", "x(1)", "x(1, 2)", "x(y)", "x(x)", "x.a()", "x.a(1)", "x[0]()", "x[0](1)", "x().a", "x(1)[0]")
	// container methods, on the value and on what it contains
	add("x.len()", "x.sum()", "x.kh()", "x.kl(1)", "x.kh(2)", "x.pop()", "x.shift()", "x.push(1)", "x.push(y)", "x.shuffle()",
		"x.keys()", "x.values()", "x.items()", "&x.compute()", "x.compute()", "x.values().sum()", "x.values().len()", "x.keys().len()", "x.items().len()",
		"x.pop().a", "x.shift() + 1", "x.push(1); x.sum()", "x.shuffle(); x.sum()", "x.pop(); x", "x.values().kh()", "x.len() + 1",
		"x.a.sum()", "x[0].sum()", "x.a.keys()", "x[0].len()")
	// building containers with the value inside, copying, storing
	add("[x, y]", "[x, y].sum()", "[x, y].kh()", "{'k': x}", "{'k': x}.k", "{'k': x}.values()", "[x] * 2", "[x] + [y]", "g = x; g", "g = [x, x]; g.len()",
		"g = {'k': x}; g.k", "store('g', x)", "store('g', x); g", "g = x; g == x", "[x][0]", "[[x]][0][0]", "{'k': [x]}.k[0]")
	// the same decoded value evaluated, called or computed several times in one script (lazily compiled bodies are cached
	// in the value after the first use)
	add("x; x; x", "[x, x, x]", "x + 1; x + 1", "x.compute(); x.compute(); x", "&x.compute() + 1; x", "i = 0; while i < 3 { g = x; i = i + 1 }; g",
		"x(); x()", "x(1); x(1); x(1)", "[x(), x()]", "func h() { x }; h(); h(); x", "`{x}{x}`; x")
	// use as a dictionary prototype and as dictionary key
	add("{'__proto__': x}.a", "{'__proto__': x}.g", "g = {'__proto__': x}; g.len", "{x: 1}", "g = {}; g[x] = 1; g")
	return b
}

type outcome struct {
	Op  string
	Pi  *rt.PanicInfo
	Err string
}

// runScript executes one script against an environment and observes result, process text and
// the re-serialised variable store.
func runScript(e *env, src string) (pi *rt.PanicInfo, errText string) {
	vm := newVM(e)
	pi = rt.Guard(func() {
		err := vm.Run(src)
		if err != nil {
			errText = err.Error()
			return
		}
		if vm.Ret != nil {
			_ = vm.Ret.ToString()
			_ = vm.Ret.ToRepr()
		}
		_ = vm.GetDetailText()
		_, _ = vm.Attrs.ToJSON()
	})
	return
}

type stats struct {
	decoded        bool
	decodeErr      string
	traps          map[string]bool
	nontrivial     bool
	scriptsRun     int
	scriptErrs     int
	twinSame       map[string]int // panics that the well-formed twin reproduces (not attributable to decoding)
	skipped        string         // avoid switch that excluded the case
	scriptsSkipped bool           // enumeration: the scripts run once per distinct decoded value
}

// canon parses JSON into a generic structure for structural comparison.
func canon(b []byte) (any, bool) {
	dec := json.NewDecoder(strings.NewReader(string(b)))
	dec.UseNumber()
	var v any
	if err := dec.Decode(&v); err != nil {
		return nil, false
	}
	if dec.More() {
		return nil, false
	}
	return normNumbers(v), true
}

func normNumbers(v any) any {
	switch t := v.(type) {
	case json.Number:
		if i, err := strconv.ParseInt(string(t), 10, 64); err == nil {
			return i
		}
		if f, err := strconv.ParseFloat(string(t), 64); err == nil {
			return f
		}
		return string(t)
	case []any:
		for i := range t {
			t[i] = normNumbers(t[i])
		}
		return t
	case map[string]any:
		for k := range t {
			t[k] = normNumbers(t[k])
		}
		return t
	}
	return v
}

// encoderWouldProduce reports whether re-encoding the decoded value gives back the document
// (structurally), i.e. whether the document is one the encoder itself could have written.
func encoderWouldProduce(doc []byte, e *env) bool {
	var out []byte
	var err error
	pi := rt.Guard(func() {
		if e.mode == "map" {
			out, err = e.m.ToJSON()
		} else {
			out, err = e.x.ToJSON()
		}
	})
	if pi != nil || err != nil || out == nil {
		return false
	}
	a, ok1 := canon(doc)
	b, ok2 := canon(out)
	return ok1 && ok2 && reflect.DeepEqual(a, b)
}

// opts lets the enumeration split and de-duplicate work; the zero value runs everything.
type opts struct {
	avoid     func(string) bool    // avoid switch of an open finding in force?
	skipGo    bool                 // another shard runs the Go battery of this document
	scriptsIf func(fp string) bool // run the scripts for a decoded value with this fingerprint?
}

// dump is a complete structural description of a decoded value through its public fields:
// two values with the same dump behave the same under every operation of the battery.
func dump(v *ds.VMValue, sb *strings.Builder, depth int) {
	if v == nil {
		sb.WriteString("nil")
		return
	}
	if depth > 200 {
		sb.WriteString("…")
		return
	}
	fmt.Fprintf(sb, "t%d:", v.TypeId)
	switch d := v.Value.(type) {
	case nil:
		sb.WriteString("-")
	case ds.IntType:
		fmt.Fprintf(sb, "i%d", d)
	case float64:
		fmt.Fprintf(sb, "f%v", d)
	case string:
		sb.WriteString(strconv.Quote(d))
	case *ds.ArrayData:
		if d == nil {
			sb.WriteString("arr-nil")
			return
		}
		sb.WriteString("[")
		for _, e := range d.List {
			dump(e, sb, depth+1)
			sb.WriteString(",")
		}
		sb.WriteString("]")
	case *ds.DictData:
		if d == nil || d.Dict == nil {
			sb.WriteString("dict-nil")
			return
		}
		dumpMap(d.Dict, sb, depth+1)
	case *ds.ComputedData:
		if d == nil {
			sb.WriteString("cd-nil")
			return
		}
		sb.WriteString("&(" + strconv.Quote(d.Expr) + ")")
		if d.Attrs != nil {
			dumpMap(d.Attrs, sb, depth+1)
		}
	case *ds.FunctionData:
		if d == nil {
			sb.WriteString("fd-nil")
			return
		}
		fmt.Fprintf(sb, "fn(%q,%q,%q,%v,%d,%v)", d.Expr, d.Name, d.Params, d.Params == nil, len(d.Defaults), d.Self != nil)
	case *ds.NativeFunctionData:
		if d == nil {
			sb.WriteString("nf-nil")
			return
		}
		fmt.Fprintf(sb, "nf(%q,%q,%d,%v,%v)", d.Name, d.Params, len(d.Defaults), d.Self != nil, d.NativeFunc != nil)
	case *ds.NativeObjectData:
		if d == nil {
			sb.WriteString("no-nil")
			return
		}
		fmt.Fprintf(sb, "no(%q,%v%v%v%v%v%v)", d.Name, d.AttrGet != nil, d.AttrSet != nil, d.ItemGet != nil, d.ItemSet != nil, d.DirFunc != nil, d.ToString != nil)
	default:
		fmt.Fprintf(sb, "%T", d)
	}
}

func dumpMap(m *ds.ValueMap, sb *strings.Builder, depth int) {
	var keys []string
	vals := map[string]*ds.VMValue{}
	m.Range(func(k string, v *ds.VMValue) bool {
		keys = append(keys, k)
		vals[k] = v
		return true
	})
	sort.Strings(keys)
	sb.WriteString("{")
	for _, k := range keys {
		sb.WriteString(strconv.Quote(k) + ":")
		dump(vals[k], sb, depth)
		sb.WriteString(",")
	}
	sb.WriteString("}")
}

// fingerprint describes the variable store the scripts will see (the same for a value bound as
// x and y and for a variable map {x, y} of the same values).
func fingerprint(e *env) string {
	var sb strings.Builder
	if e.mode == "map" {
		dumpMap(e.m, &sb, 0)
	} else {
		sb.WriteString(`{"x":`)
		dump(e.x, &sb, 0)
		sb.WriteString(`,"y":`)
		dump(e.y, &sb, 0)
		sb.WriteString(",}")
	}
	return sb.String()
}

// checkCase is the oracle, shared by the property, the enumeration and replay.
func checkCase(c Case, s *rt.Section, o opts) (*rt.Failure, *stats) {
	avoid := o.avoid
	st := &stats{twinSame: map[string]int{}}
	doc := c.bytes()
	mode := c.Mode
	if mode != "map" {
		mode = "value"
	}
	var doc2 []byte
	if c.Doc2 != "" && mode == "value" {
		doc2 = []byte(c.Doc2)
	}
	e, err, perr := decode2(doc, doc2, mode)
	if perr != nil {
		return s.NewFailure("decoder-no-panic", perr.Sig(), c, "decoding panics: "+perr.Value+"\n"+clip(perr.Stack, 1500), "an error or a value"), st
	}
	if err != nil {
		st.decodeErr = err.Error()
		return nil, st
	}
	st.decoded = true
	st.traps = scanEnv(e)
	// An open finding excludes the decoded values that carry its trap from the battery, except for
	// the Go operations that are safe on such a value today (nil elements are tolerated by the
	// printer, the encoder and the comparison by design; an object shell is inert at the Go level):
	// those stay under test so that the tolerance itself cannot rot unnoticed.
	var onlyGo map[string]bool
	if avoid != nil {
		for _, sw := range avoidSwitches {
			if st.traps[sw] && avoid(sw) {
				if st.skipped == "" {
					st.skipped = sw
				}
				allowed := stillRun[sw]
				if onlyGo == nil {
					onlyGo = map[string]bool{}
					for k := range allowed {
						onlyGo[k] = true
					}
				} else {
					for k := range onlyGo {
						if !allowed[k] {
							delete(onlyGo, k)
						}
					}
				}
			}
		}
	}
	if st.skipped == "" {
		st.nontrivial = !encoderWouldProduce(doc, e)
	}

	fresh := func() *env {
		f, err, perr := decode2(doc, doc2, mode)
		if err != nil || perr != nil {
			return nil
		}
		return f
	}
	report := func(op string, pi *rt.PanicInfo, rerun func(e *env) *rt.PanicInfo) *rt.Failure {
		// the same operation on the well-formed twin
		twinToo := false
		f := fresh()
		if f != nil && rerun != nil {
			var tpi *rt.PanicInfo
			var tw *env
			if bp := rt.Guard(func() { tw = twinEnv(f) }); bp == nil && tw != nil {
				tpi = rerun(tw)
				if tpi != nil && tpi.Sig() == pi.Sig() {
					// the statement asks for crash-free operations on every decoded value, so the panic counts; that
					// the value built with the public constructors panics too says the defect is not in the decoder
					st.twinSame[pi.Sig()]++
					twinToo = true
				}
			}
		}
		rec := Case{Doc: c.Doc, DocB64: c.DocB64, Doc2: c.Doc2, Mode: mode, Scripts: scriptsFor(op), NoGo: !strings.HasPrefix(op, "go:")}
		if !rec.NoGo {
			rec.Go = []string{op}
		}
		return s.NewFailure("crash-free-after-decode", pi.Sig(), rec,
			fmt.Sprintf("decoding succeeded (traps found by inspection: %s) and then %s panics: %s\n%s", trapList(st.traps), op, pi.Value, clip(pi.Stack, 1800)),
			map[bool]string{false: "no panic (the same operation on a well-formed value of the same shape does not panic there)",
				true: "no panic (the same operation panics on the value of the same shape built with the public constructors too: the defect is not the decoder's, the decoded value is booby-trapped all the same)"}[twinToo])
	}

	if !c.NoGo && !o.skipGo {
		for _, op := range goOps {
			if len(c.Go) > 0 && !contains(c.Go, op.name) {
				continue
			}
			if st.skipped != "" && !onlyGo[op.name] {
				continue
			}
			f := fresh()
			if f == nil {
				return s.NewFailure("decode-deterministic", "decode:unstable", c, "a second decode of the same document failed", "the same outcome"), st
			}
			op := op
			if pi := rt.Guard(func() { op.fn(f) }); pi != nil {
				rerun := func(e *env) *rt.PanicInfo { return rt.Guard(func() { op.fn(e) }) }
				if op.noTwin {
					rerun = nil
				}
				if fl := report(op.name, pi, rerun); fl != nil {
					return fl, st
				}
			}
		}
	}
	if st.skipped != "" {
		return nil, st
	}
	if o.scriptsIf != nil && len(c.Scripts) > 0 && !o.scriptsIf(fingerprint(e)) {
		st.scriptsSkipped = true
		return nil, st
	}
	for _, src := range c.Scripts {
		f := fresh()
		if f == nil {
			return s.NewFailure("decode-deterministic", "decode:unstable", c, "a second decode of the same document failed", "the same outcome"), st
		}
		st.scriptsRun++
		pi, et := runScript(f, src)
		if et != "" {
			st.scriptErrs++
		}
		if pi != nil {
			src := src
			if fl := report("script "+strconv.Quote(src), pi, func(e *env) *rt.PanicInfo { p, _ := runScript(e, src); return p }); fl != nil {
				return fl, st
			}
		}
	}
	return nil, st
}

func contains(xs []string, x string) bool {
	for _, y := range xs {
		if x == y {
			return true
		}
	}
	return false
}

func scriptsFor(op string) []string {
	if strings.HasPrefix(op, "script ") {
		s, err := strconv.Unquote(strings.TrimPrefix(op, "script "))
		if err == nil {
			return []string{s}
		}
	}
	return []string{}
}

func trapList(m map[string]bool) string {
	var k []string
	for n := range m {
		k = append(k, n)
	}
	sort.Strings(k)
	if len(k) == 0 {
		return "none"
	}
	return strings.Join(k, ",")
}

func clip(s string, n int) string {
	if len(s) > n {
		return s[:n] + "…"
	}
	return s
}

// account books one executed case into the section counters.
func account(s *rt.Section, c Case, st *stats, label string) {
	s.Eval()
	switch {
	case st.skipped != "":
		s.Class("excluded-by-open-finding")
		return
	case !st.decoded:
		s.Class("decode:error")
	case st.nontrivial:
		s.Class("decode:ok-not-encoder-output")
		s.NonTrivial(rt.Hash(c.Mode, c.Doc, c.DocB64))
	default:
		s.Class("decode:ok-encoder-output")
	}
	if label != "" {
		s.Class(label)
	}
	for t := range st.traps {
		s.Class("trap:" + t)
	}
	if st.scriptsSkipped {
		s.Class("scripts-not-repeated:same-decoded-value-as-another-document")
	}
	if st.decoded {
		s.ClassN("scripts-run", int64(st.scriptsRun))
		s.ClassN("scripts-ending-in-error", int64(st.scriptErrs))
	}
	for sig, n := range st.twinSame {
		for i := 0; i < n; i++ {
			s.Class("panic also on the well-formed twin: " + sig)
		}
	}
}

// ---------------------------------------------------------------------------
// document generator (structure aware)

type gen struct {
	t  *rapid.T
	wf bool // well-formed documents only (base material of the byte mutator)
}

// uni draws an integer uniformly from [0, n).  rapid's own integer and SampledFrom generators are
// deliberately biased towards small values (half of the IntRange(0,99) draws use fewer than 7
// bits), which would turn every "5 % of the nodes" below into something much larger; single
// bits are uniform, and they still shrink towards 0, i.e. towards the first alternative.
func uni(t *rapid.T, label string, n int) int {
	if n <= 1 {
		return 0
	}
	k := bits.Len(uint(n-1)) + 3
	v := 0
	for i := 0; i < k; i++ {
		if rapid.Bool().Draw(t, label) {
			v |= 1 << i
		}
	}
	return v % n
}

func uniStr(t *rapid.T, label string, xs []string) string { return xs[uni(t, label, len(xs))] }
func uniInt(t *rapid.T, label string, xs []int) int       { return xs[uni(t, label, len(xs))] }

func (g *gen) pick(label string, xs ...string) string { return uniStr(g.t, label, xs) }
func (g *gen) chance(label string, pct int) bool      { return uni(g.t, label, 100) < pct }

func q(s string) string { b, _ := json.Marshal(s); return string(b) }

// names visible to expressions at a nesting level: level k uses only letters of its own level,
// so that no expression can reach the variable that holds it (no recursion by construction).
var lvlNames = [][2]string{{"g", "h"}, {"i", "j"}, {"r", "s"}, {"t", "u"}, {"v", "n"}, {"_a", "_b"}, {"_c", "_d"}}

func lvl(k int) [2]string {
	if k < 0 {
		k = 0
	}
	if k >= len(lvlNames) {
		k = len(lvlNames) - 1
	}
	return lvlNames[k]
}

func (g *gen) expr(level int) string {
	n := lvl(level)
	a, b := n[0], n[1]
	pool := []string{"", "1", "1.5", "'s'", "[1, 2]", "{'k': 1}", "null", a, a + " + 1", a + " + " + b, "this." + a, "this." + a + " + 1",
		a + "[0]", a + "." + b, a + "()", "`{" + a + "}`", "return 5 ", "if " + a + " { 2 } else { 3 }", a + " = 1; " + a, "[" + a + ", " + b + "]",
		"{'k': " + a + "}", a + " ?? 1", a + " == " + b, "func " + b + "() { 1 }", "1 +", "((((", ")", "\u0000", "'", "1 2 3", "\n", "长 + 1", a + ".sum()",
		"// note", ";", " ; ; ", "if 0 { 1 }", "// " + a + "\n", "while 0 { }"}
	if g.wf {
		pool = pool[:24]
	}
	return uniStr(g.t, "expr", pool)
}

var knownNatives = []string{"ceil", "floor", "round", "abs", "toInt", "toFloat", "toStr", "toBool", "repr", "load", "loadRaw", "store", "dir", "typeId"}
var unknownNatives = []string{"", "nope", "Ceil", "ceil ", "Array.push", "Array.sum", "Dict.keys", "Computed.compute", "help", "roll", "长"}

// child produces a document for an element slot of a list, a dict, an attrs map or a variable map.
func (g *gen) child(depth, level int) string {
	if g.wf {
		return g.value(depth, level)
	}
	r := uni(g.t, "child", 100)
	switch {
	case r < 6:
		return "null"
	case r < 8:
		return g.pick("junk", "5", `"s"`, "[]", "true", "{}", "1.5", `[{"t":0,"v":1}]`)
	}
	return g.value(depth, level)
}

func (g *gen) key(level int) string {
	n := lvl(level)
	return g.pick("key", n[0], n[1], n[0], "a", "__proto__", "", "k", "0", "长", "a b", "len", "x")
}

func (g *gen) mapBody(depth, level int, maxN int) string {
	n := uni(g.t, "nkeys", maxN+1)
	var parts []string
	for i := 0; i < n; i++ {
		parts = append(parts, q(g.key(level))+":"+g.child(depth-1, level))
	}
	return "{" + strings.Join(parts, ",") + "}"
}

func (g *gen) listBody(depth, level int) string {
	n := uni(g.t, "nlist", 4)
	var parts []string
	for i := 0; i < n; i++ {
		parts = append(parts, g.child(depth-1, level))
	}
	return "[" + strings.Join(parts, ",") + "]"
}

// payload returns the proper "v" payload of a tag ("" = none).
func (g *gen) payload(tag int, depth, level int) string {
	switch tag {
	case 0:
		return g.pick("int", "0", "1", "-1", "2", "7", "512", "9223372036854775807", "-9223372036854775808", "100000")
	case 1:
		return g.pick("float", "0.5", "-1.25", "1", "0", "1e300", "-1e-320", "3.0", "2.5e0", "1E2")
	case 2:
		return g.pick("str", `""`, `"a"`, `"1"`, `"abc"`, `"长字符串"`, `"\u0000"`, `"a\"b'c"`, `"{x}"`, `"\ud800"`, `"__proto__"`, `"0"`)
	case 5:
		f := []string{`"expr":` + q(g.expr(level))}
		if depth > 0 && g.chance("attrs", 50) {
			f = append(f, `"attrs":`+g.mapBody(depth, level+1, 2))
		}
		return "{" + strings.Join(f, ",") + "}"
	case 6:
		if depth <= 0 {
			return `{"list":[]}`
		}
		return `{"list":` + g.listBody(depth, level) + `}`
	case 7:
		if depth <= 0 {
			return `{"dict":{}}`
		}
		return `{"dict":` + g.mapBody(depth, level, 3) + `}`
	case 8:
		n := lvl(level)
		params := g.pick("params", `[]`, `[`+q(n[0])+`]`, `[`+q(n[0])+`,`+q(n[1])+`]`, `null`, `[`+q(n[0])+`,`+q(n[0])+`]`)
		if !g.wf && g.chance("odd-params", 15) {
			params = g.pick("oddparams", `[""]`, `[null]`, `["1"]`, `["a b"]`, `["this"]`, `["`+n[0]+`","",null]`)
		}
		return `{"expr":` + q(g.expr(level)) + `,"name":` + q(g.pick("fname", "", "f", n[1], "长")) + `,"params":` + params + `}`
	case 9:
		name := g.pick("native", knownNatives...)
		if !g.wf && g.chance("unknown-native", 30) {
			name = g.pick("unative", unknownNatives...)
		}
		return `{"name":` + q(name) + `}`
	case 10:
		return `{"name":` + q(g.pick("oname", "", "o", "obj1")) + `}`
	}
	return ""
}

var properTags = []int{0, 1, 2, 4, 5, 6, 7, 8, 9, 10}

// value produces one value document.
func (g *gen) value(depth, level int) string {
	var tags []int
	if depth >= 3 {
		tags = []int{0, 1, 2, 4, 5, 5, 6, 6, 6, 7, 7, 7, 8, 9, 10, 5, 8}
	} else if depth > 0 {
		tags = []int{0, 1, 2, 4, 5, 6, 6, 7, 7, 8, 9, 10, 5}
	} else {
		tags = []int{0, 1, 2, 4, 5, 8, 9, 10, 6, 7}
	}
	tag := uniInt(g.t, "tag", tags)
	if g.wf {
		if tag == 10 {
			tag = 9
		}
		p := g.payload(tag, depth, level)
		if p == "" {
			return fmt.Sprintf(`{"t":%d}`, tag)
		}
		return fmt.Sprintf(`{"t":%d,"v":%s}`, tag, p)
	}
	tagText := strconv.Itoa(tag)
	payloadTag := tag
	// malformations (each with a small probability; most documents carry at most one)
	mal := uni(g.t, "mal", 100)
	switch {
	case mal < 7: // unknown / internal / negative tags, proper payload of some other tag
		tagText = g.pick("oddtag", "3", "11", "20", "21", "-1", "99", "1000000", "12")
		payloadTag = uniInt(g.t, "ptag", properTags)
	case mal < 9: // tag of the wrong JSON type or missing
		tagText = g.pick("badtag", "null", `"6"`, "6.0", "1e0", "true", "[]", "{}", "", "0.5", "99999999999999999999")
	case mal < 12: // payload of another tag
		payloadTag = uniInt(g.t, "ptag", properTags)
	}
	var v string
	hasV := true
	pm := uni(g.t, "pmal", 100)
	switch {
	case pm < 4:
		hasV = false
	case pm < 8:
		v = "null"
	case pm < 11:
		v = g.pick("wrongv", "0", "1.5", `"s"`, "[]", "{}", "true", `[1]`, `{"list":null}`, `{"list":{}}`, `{"list":5}`, `{"list":[5]}`, `{"list":"s"}`,
			`{"dict":null}`, `{"dict":[]}`, `{"dict":5}`, `{"dict":{"a":5}}`, `{"dict":{"a":[]}}`, `{"expr":5}`, `{"expr":null}`, `{"expr":["1"]}`,
			`{"expr":"1","attrs":null}`, `{"expr":"1","attrs":[]}`, `{"expr":"1","attrs":5}`, `{"expr":"1","attrs":{"a":5}}`,
			`{"expr":"1","params":"s"}`, `{"expr":"1","params":[1]}`, `{"expr":"1","params":{}}`, `{"name":5}`, `{"name":null}`, `{"name":["ceil"]}`, `{"name":{}}`)
	default:
		v = g.payload(payloadTag, depth, level)
		if v == "" {
			hasV = false
			if g.chance("null-with-v", 30) {
				hasV = true
				v = g.pick("nullv", "0", `"s"`, "null", `{"list":[]}`)
			}
		}
	}
	tk, vk := `"t"`, `"v"`
	if g.chance("keycase", 6) {
		tk, vk = `"T"`, `"V"`
		v = strings.NewReplacer(`"list"`, `"LIST"`, `"dict"`, `"Dict"`, `"expr"`, `"EXPR"`, `"name"`, `"Name"`, `"params"`, `"PARAMS"`, `"attrs"`, `"Attrs"`).Replace(v)
	}
	var fields []string
	if tagText != "" {
		fields = append(fields, tk+":"+tagText)
	}
	if hasV {
		fields = append(fields, vk+":"+v)
	}
	ex := uni(g.t, "extra", 100)
	switch {
	case ex < 8:
		fields = append(fields, g.pick("xfield", `"x":1`, `"extra":null`, `"list":[null]`, `"name":"nope"`))
	case ex < 11 && len(fields) == 2: // v before t
		fields[0], fields[1] = fields[1], fields[0]
	case ex < 13: // duplicate keys: the last one wins
		fields = append(fields, `"t":`+g.pick("dupt", "0", "6", "7", "9", "4", "5"))
	case ex < 15:
		fields = append([]string{`"v":` + g.pick("dupv", "null", "1", `{"list":[null]}`, `{"name":"nope"}`, `{}`)}, fields...)
	}
	return "{" + strings.Join(fields, ",") + "}"
}

// top produces the document and the decode mode of a case.
func (g *gen) top(depth int) (string, string) {
	if g.chance("mapmode", 35) {
		// a variable map: x and y most of the time, plus other names
		var parts []string
		keys := []string{"x", "y"}
		if g.chance("morekeys", 25) {
			keys = append(keys, g.pick("k3", "z", "w", "", "__proto__", "长", "x"))
		}
		if g.chance("onlyx", 15) {
			keys = keys[:1]
		}
		for _, k := range keys {
			parts = append(parts, q(k)+":"+g.child(depth, 0))
		}
		doc := "{" + strings.Join(parts, ",") + "}"
		if !g.wf && g.chance("oddmap", 3) {
			doc = g.pick("oddmapdoc", "null", "{}", "[]", `{"x":null}`, `5`, `{"x":{}}`, `{"X":{"t":0,"v":1},"x":null}`)
		}
		return doc, "map"
	}
	if !g.wf && g.chance("oddtop", 3) {
		return g.pick("oddtopdoc", "null", "{}", "[]", "5", `"s"`, "true", "", " ", `{"t":0}{"t":1}`, `[{"t":0}]`, `{"t":0,"v":1} x`), "value"
	}
	return g.value(depth, 0), "value"
}

// versionScripts: the scripts of the battery in which x and y meet.
var versionScripts = []string{"x == y", "y == x", "x != y", "[x] == [y]", "[y] == [x]", "{'k': x} == {'k': y}", "{'k': y} == {'k': x}", "x[0] == y[0]", "y[0] == x[0]",
	"x[1] == y[1]", "y[1] == x[1]", "x[-1] == y[-1]", "y[-1] == x[-1]", "x.a == y.a", "y.a == x.a", "[x, y] == [y, x]", "x[0] == x[1]", "x[1] == x[0]", "x == [y[1], y[0]]",
	"x(y)", "y(x)", "[x, y].kh()", "x + y", "y + x", "x.push(y); x == y", "g = [x, y]; g[0] == g[1]"}

var paramsRe = regexp.MustCompile(`"params":(\[[^\[\]{}]*\]|null)`)
var attrsRe = regexp.MustCompile(`,"attrs":\{`)
var nameRe = regexp.MustCompile(`"name":"[^"]*","params"`)
var listRe = regexp.MustCompile(`"list":\[`)
var exprRe = regexp.MustCompile(`"expr":"[^"\\]*"`)

// versionEdit rewrites one field of one node of doc the way another program version would have stored it.
func versionEdit(t *rapid.T, doc string) (string, string) {
	type edit struct {
		kind     string
		from, to int
		text     string
	}
	var edits []edit
	for _, m := range paramsRe.FindAllStringSubmatchIndex(doc, -1) {
		cur := doc[m[2]:m[3]]
		for _, alt := range []string{`[]`, `null`, `["zz"]`, `["g","h","zz"]`} {
			if alt != cur {
				edits = append(edits, edit{"params:" + alt, m[2], m[3], alt})
			}
		}
		if strings.HasPrefix(cur, "[") && strings.Contains(cur, ",") {
			edits = append(edits, edit{"params:one-shorter", m[2], m[3], cur[:strings.LastIndex(cur, ",")] + "]"})
		}
		if strings.HasPrefix(cur, "[") && len(cur) > 2 {
			edits = append(edits, edit{"params:one-longer", m[2], m[3], cur[:len(cur)-1] + `,"zz"]`})
		}
		edits = append(edits, edit{"params:absent", m[0] - 1, m[1], ""}) // with the comma before it
	}
	for _, m := range attrsRe.FindAllStringIndex(doc, -1) {
		if end := matchBrace([]byte(doc), m[1]-1); end > 0 {
			edits = append(edits, edit{"attrs:absent", m[0], end + 1, ""})
		}
	}
	for _, m := range nameRe.FindAllStringIndex(doc, -1) {
		edits = append(edits, edit{"function:renamed", m[0], m[1], `"name":"renamed","params"`})
	}
	for _, m := range listRe.FindAllStringIndex(doc, -1) {
		sep := ","
		if m[1] < len(doc) && doc[m[1]] == ']' {
			sep = ""
		}
		edits = append(edits, edit{"list:one-longer", m[1], m[1], `{"t":0,"v":1}` + sep})
	}
	for _, m := range exprRe.FindAllStringIndex(doc, -1) {
		edits = append(edits, edit{"expr:changed", m[0], m[1], `"expr":"1 + 1"`})
	}
	if len(edits) == 0 {
		return doc, "none"
	}
	// parameter lists first: they are the field a function gains and loses most often
	var pe []edit
	for _, e := range edits {
		if strings.HasPrefix(e.kind, "params") {
			pe = append(pe, e)
		}
	}
	if len(pe) > 0 && uni(t, "editParams", 2) == 0 {
		edits = pe
	}
	e := edits[uni(t, "edit", len(edits))]
	if e.from < 0 || e.to > len(doc) || e.from > e.to {
		return doc, "none"
	}
	return doc[:e.from] + e.text + doc[e.to:], strings.SplitN(e.kind, ":", 2)[0] + ":" + strings.SplitN(e.kind, ":", 2)[1]
}

// pickScripts draws k distinct-ish scripts of the battery.
func pickScripts(t *rapid.T, k int) []string {
	var out []string
	for i := 0; i < k; i++ {
		out = append(out, battery[uni(t, "script", len(battery))])
	}
	return out
}

// ---------------------------------------------------------------------------
// byte-level mutation of encoder output

// encSorted writes v exactly as the encoder does, except that dictionary keys come in sorted
// order (the encoder follows Go's map iteration order, which would make a case irreproducible).
func encSorted(v *ds.VMValue) ([]byte, error) {
	if v == nil {
		return v.ToJSON()
	}
	switch v.TypeId {
	case ds.VMTypeArray:
		ad, _ := v.ReadArray()
		var parts []string
		for _, e := range ad.List {
			b, err := encSorted(e)
			if err != nil {
				return nil, err
			}
			parts = append(parts, string(b))
		}
		return []byte(`{"t":6,"v":{"list":[` + strings.Join(parts, ",") + `]}}`), nil
	case ds.VMTypeDict:
		dd, _ := v.ReadDictData()
		b, err := encSortedMap(dd.Dict)
		if err != nil {
			return nil, err
		}
		return []byte(`{"t":7,"v":{"dict":` + string(b) + `}}`), nil
	case ds.VMTypeComputedValue:
		cd, _ := v.ReadComputed()
		if cd.Attrs != nil {
			b, err := encSortedMap(cd.Attrs)
			if err != nil {
				return nil, err
			}
			return []byte(`{"t":5,"v":{"expr":` + q(cd.Expr) + `,"attrs":` + string(b) + `}}`), nil
		}
	}
	return v.ToJSON()
}

func encSortedMap(m *ds.ValueMap) ([]byte, error) {
	var keys []string
	vals := map[string]*ds.VMValue{}
	m.Range(func(k string, v *ds.VMValue) bool {
		keys = append(keys, k)
		vals[k] = v
		return true
	})
	sort.Strings(keys)
	var parts []string
	for _, k := range keys {
		b, err := encSorted(vals[k])
		if err != nil {
			return nil, err
		}
		parts = append(parts, q(k)+":"+string(b))
	}
	return []byte("{" + strings.Join(parts, ",") + "}"), nil
}

var mutTokens = []string{"null", "true", "0", "-1", "1.5", `""`, "[]", "{}", `{"t":3}`, `{"t":9,"v":{"name":"nope"}}`, `{"t":10,"v":{"name":"o"}}`,
	`{"t":6,"v":{"list":[null]}}`, ",", ":", `"t":`, `"v":`, `"list":`, `"dict":`, `"attrs":`, `"name":`, `"params":`, `"expr":`, "[", "]", "{", "}", `"`, "\\", " ", "9", "e", "E", "-", "."}

const structural = `{}[]",:0123456789.-+eE \tnul`

func mutate(t *rapid.T, doc []byte) ([]byte, string) {
	n := uniInt(t, "nmut", []int{1, 1, 1, 2, 2, 3})
	kinds := ""
	for i := 0; i < n; i++ {
		if len(doc) == 0 {
			break
		}
		kind := uniStr(t, "mkind", []string{"del", "rep", "ins", "trunc", "tagdigit", "tagdigit", "tagdigit", "nullify", "nullify", "nullify",
			"keycase", "keycase", "digit", "digit", "field", "field", "field", "unquote", "unquote"})
		kinds += kind + " "
		switch kind {
		case "del":
			p := uni(t, "pos", len(doc))
			l := 1 + uni(t, "len", 8)
			if p+l > len(doc) {
				l = len(doc) - p
			}
			doc = append(append([]byte(nil), doc[:p]...), doc[p+l:]...)
		case "rep":
			p := uni(t, "pos", len(doc))
			ch := structural[uni(t, "ch", len(structural))]
			doc = append([]byte(nil), doc...)
			doc[p] = ch
		case "ins":
			p := uni(t, "pos", len(doc)+1)
			tok := uniStr(t, "tok", mutTokens)
			doc = append(append(append([]byte(nil), doc[:p]...), tok...), doc[p:]...)
		case "trunc":
			p := uni(t, "pos", len(doc))
			doc = append([]byte(nil), doc[:p]...)
		case "keycase":
			// Go's decoder matches field names case-insensitively: flip the case of one letter of a key
			idx := allIndex(doc, `":`)
			if len(idx) == 0 {
				continue
			}
			p := idx[uni(t, "which", len(idx))] - 1
			if p >= 0 && doc[p] >= 'a' && doc[p] <= 'z' {
				doc = append([]byte(nil), doc...)
				doc[p] -= 32
			}
		case "digit":
			var idx []int
			for i, ch := range doc {
				if ch >= '0' && ch <= '9' {
					idx = append(idx, i)
				}
			}
			if len(idx) == 0 {
				continue
			}
			p := idx[uni(t, "which", len(idx))]
			doc = append([]byte(nil), doc...)
			doc[p] = "0123456789-.e"[uni(t, "d", 13)]
		case "field":
			// add a field right after some '{' (duplicates of t / v included: the last one wins)
			idx := allIndex(doc, `{`)
			if len(idx) == 0 {
				continue
			}
			p := idx[uni(t, "which", len(idx))] + 1
			f := uniStr(t, "f", []string{`"v":null`, `"t":4`, `"t":9`, `"t":10`, `"t":6`, `"t":3`, `"v":{"list":[null]}`, `"v":{"name":"nope"}`, `"x":1`, `"list":null`, `"dict":null`,
				`"attrs":null`, `"attrs":{"g":null}`, `"params":null`, `"params":[null]`, `"name":"nope"`, `"expr":"1 +"`, `"g":null`, `"__proto__":null`})
			if p < len(doc) && doc[p] != '}' {
				f += ","
			}
			doc = append(append(append([]byte(nil), doc[:p]...), f...), doc[p:]...)
		case "unquote":
			// turn a string into a bare token or a number into a string
			idx := allIndex(doc, `:"`)
			if len(idx) == 0 {
				continue
			}
			p := idx[uni(t, "which", len(idx))] + 1
			e := p + 1
			for e < len(doc) && doc[e] != '"' {
				if doc[e] == '\\' {
					e++
				}
				e++
			}
			if e >= len(doc) {
				continue
			}
			tok := uniStr(t, "tok", []string{"null", "0", "[]", "{}", `["ceil"]`, "true"})
			doc = append(append(append([]byte(nil), doc[:p]...), tok...), doc[e+1:]...)
		case "tagdigit":
			// change the number after some "t":
			idx := allIndex(doc, `"t":`)
			if len(idx) == 0 {
				continue
			}
			p := idx[uni(t, "which", len(idx))] + 4
			e := p
			for e < len(doc) && (doc[e] == '-' || (doc[e] >= '0' && doc[e] <= '9')) {
				e++
			}
			nt := uniStr(t, "newtag", []string{"0", "1", "2", "3", "4", "5", "6", "7", "8", "9", "10", "11", "20", "21", "-1"})
			doc = append(append(append([]byte(nil), doc[:p]...), nt...), doc[e:]...)
		case "nullify":
			// replace one whole element {"t":...} by null or by another token
			idx := allIndex(doc, `{"t":`)
			if len(idx) == 0 {
				continue
			}
			p := idx[uni(t, "which", len(idx))]
			e := matchBrace(doc, p)
			if e < 0 {
				continue
			}
			tok := uniStr(t, "tok", []string{"null", "null", "5", `"s"`, `{"t":3}`, `{"t":9,"v":{"name":"nope"}}`, `{"t":10,"v":{"name":"o"}}`, "{}", "[]"})
			doc = append(append(append([]byte(nil), doc[:p]...), tok...), doc[e+1:]...)
		}
	}
	return doc, kinds
}

func allIndex(doc []byte, pat string) []int {
	var out []int
	s := string(doc)
	off := 0
	for {
		i := strings.Index(s[off:], pat)
		if i < 0 {
			return out
		}
		out = append(out, off+i)
		off += i + 1
	}
}

// matchBrace returns the index of the '}' matching the '{' at p (string aware), or -1.
func matchBrace(doc []byte, p int) int {
	depth := 0
	inStr := false
	for i := p; i < len(doc); i++ {
		c := doc[i]
		if inStr {
			if c == '\\' {
				i++
			} else if c == '"' {
				inStr = false
			}
			continue
		}
		switch c {
		case '"':
			inStr = true
		case '{':
			depth++
		case '}':
			depth--
			if depth == 0 {
				return i
			}
		}
	}
	return -1
}

// ---------------------------------------------------------------------------
// bounded exhaustive enumeration of small documents

func enumDocs(deep bool) []string {
	var docs []string
	seen := map[string]bool{}
	add := func(d string) {
		if !seen[d] {
			seen[d] = true
			docs = append(docs, d)
		}
	}
	leaves := []string{`null`, `{"t":0,"v":1}`, `{"t":1,"v":1.5}`, `{"t":2,"v":"s"}`, `{"t":4}`, `{"t":3}`, `{"t":20}`, `{"t":9,"v":{"name":"nope"}}`,
		`{"t":9,"v":{"name":"ceil"}}`, `{"t":10,"v":{"name":"o"}}`, `{"t":6,"v":{"list":[null]}}`, `{"t":6,"v":{"list":[{"t":0,"v":2}]}}`,
		`{"t":7,"v":{"dict":{"a":{"t":0,"v":3}}}}`, `{"t":5,"v":{"expr":"1"}}`, `{"t":8,"v":{"expr":"i","params":["i"]}}`}
	tags := []string{"", "null", "0", "1", "2", "3", "4", "5", "6", "7", "8", "9", "10", "11", "20", "21", "-1", "99", `"0"`, "0.5"}
	payloads := []string{"", "null", "0", "1", "-1", "1.5", `""`, `"s"`, "true", "[]", "{}", "[1]", `{"list":[]}`, `{"dict":{}}`, `{"expr":"1"}`, `{"name":"ceil"}`,
		`{"list":null}`, `{"dict":null}`, `{"list":{}}`, `{"dict":[]}`, `{"expr":null}`, `{"name":null}`, `{"expr":"1","attrs":null}`, `{"expr":"1","params":null}`,
		`{"list":[],"dict":{},"expr":"1","name":"ceil","params":[],"attrs":{}}`}
	mk := func(t, v string) string {
		var f []string
		if t != "" {
			f = append(f, `"t":`+t)
		}
		if v != "" {
			f = append(f, `"v":`+v)
		}
		return "{" + strings.Join(f, ",") + "}"
	}
	for _, t := range tags {
		for _, v := range payloads {
			add(mk(t, v))
		}
	}
	containers := func(children []string) {
		for _, c := range children {
			add(`{"t":6,"v":{"list":[` + c + `]}}`)
			for _, k := range []string{"a", "__proto__", ""} {
				add(`{"t":7,"v":{"dict":{` + q(k) + `:` + c + `}}}`)
			}
			for _, e := range []string{"g", "this.g", "g + 1", "1"} {
				add(`{"t":5,"v":{"expr":` + q(e) + `,"attrs":{"g":` + c + `}}}`)
			}
		}
	}
	containers(leaves)
	for _, a := range leaves {
		for _, b := range []string{`null`, `{"t":0,"v":1}`, `{"t":3}`, `{"t":9,"v":{"name":"nope"}}`, `{"t":10,"v":{"name":"o"}}`} {
			add(`{"t":6,"v":{"list":[` + a + `,` + b + `]}}`)
		}
	}
	for _, e := range []string{"", "1", "g", "g + h", "this.g", "1 +", "return 5 ", "g()", "[g, h]", "g.sum()", "// note", ";", "if 0 { 1 }"} {
		for _, a := range []string{"", `,"attrs":null`, `,"attrs":{}`, `,"attrs":[]`} {
			add(`{"t":5,"v":{"expr":` + q(e) + a + `}}`)
		}
		for _, p := range []string{"", `,"params":null`, `,"params":[]`, `,"params":["g"]`, `,"params":["g","h"]`, `,"params":["g","g"]`, `,"params":[""]`, `,"params":[null]`,
			`,"params":"s"`, `,"params":[1]`} {
			add(`{"t":8,"v":{"expr":` + q(e) + `,"name":"f"` + p + `}}`)
		}
	}
	for _, n := range append(append([]string{}, knownNatives...), unknownNatives...) {
		add(`{"t":9,"v":{"name":` + q(n) + `}}`)
	}
	for _, n := range []string{`null`, `5`, `["ceil"]`} {
		add(`{"t":9,"v":{"name":` + n + `}}`)
		add(`{"t":10,"v":{"name":` + n + `}}`)
	}
	add(`{"t":10,"v":{"name":""}}`)
	add(`{"t":10,"v":{"name":"obj1"}}`)
	// key case, order, duplicates, trailing data
	for _, d := range []string{`{"T":6,"V":{"LIST":[null]}}`, `{"T":9,"V":{"NAME":"nope"}}`, `{"v":{"list":[null]},"t":6}`, `{"t":0,"t":6,"v":{"list":[{"t":3}]}}`,
		`{"t":6,"v":{"list":[]},"v":5}`, `{"t":6,"v":5,"v":{"list":[null]}}`, `{"t":0,"v":1}{"t":0}`, `[{"t":0,"v":1}]`, `null`, `5`, `"s"`, `true`, ``, ` `,
		`{"t":7,"v":{"dict":{"a":{"t":0,"v":1},"a":null}}}`, `{"t":0,"v":1,"x":[null]}`, `{"t":0,"v":9223372036854775808}`, `{"t":1,"v":1e999}`, `{"t":0,"v":1e3}`,
		`{"t":2,"v":"\ud800"}`, `{"t":6,"v":{"list":[{"t":6,"v":{"list":[{"t":6,"v":{"list":[null]}}]}}]}}`} {
		add(d)
	}
	// deep but narrow nesting (recursion in decoder, printer, comparison, encoder)
	nest := 60
	if deep {
		nest = 250
	}
	for _, inner := range []string{`{"t":0,"v":1}`, `null`, `{"t":9,"v":{"name":"nope"}}`} {
		l, d, c := inner, inner, inner
		for i := 0; i < nest; i++ {
			l = `{"t":6,"v":{"list":[` + l + `]}}`
			d = `{"t":7,"v":{"dict":{"a":` + d + `}}}`
			c = `{"t":5,"v":{"expr":"g","attrs":{"g":` + c + `}}}`
		}
		add(l)
		add(d)
		add(c)
	}
	if deep {
		// containers of all depth-1 documents built so far (depth 2)
		base := append([]string(nil), docs...)
		var objs []string
		for _, d := range base {
			if strings.HasPrefix(d, `{"t":`) && len(d) < 200 {
				objs = append(objs, d)
			}
		}
		containers(objs)
	}
	return docs
}

// ---------------------------------------------------------------------------

func bucket(n int) string {
	for _, b := range []int{16, 40, 100, 250, 1000} {
		if n <= b {
			return fmt.Sprintf("doc-bytes<=%d", b)
		}
	}
	return "doc-bytes>1000"
}

func TestProp(t *testing.T) {
	run := rt.Begin(t, "C10")
	defer run.Finish()

	run.Enum("enum",
		"every document of a bounded shape grammar: 20 type tags (0..10, unknown 3/11/99, internal 20/21, negative, null, string, fraction, missing) x 25 payloads (missing, null, scalars, [], {}, each field name with a proper, null or ill-typed value); one- and two-element lists, one-key dicts (keys a, __proto__, empty) and computed attrs over 15 leaf documents (null, scalars, unknown tag, known/unknown native, object shell, nested list with null, dict, computed, function); 10 expression texts x attrs/params variants; every built-in native name and 11 unknown ones; upper-case keys, reordered, duplicate and trailing fields. Each document is decoded as a value (bound as x, a second decode as y) and as a variable map {x,y}; every decoded document meets the Go battery, every distinct decoded value (compared through all public fields) meets the whole script battery once; non-trivial = decoding succeeded and re-encoding the decoded value does not give the document back; distinct by (mode, document)",
		func(s *rt.Section) {
			s.Exhaustive = true
			deep := run.Env.Thorough()
			docs := enumDocs(deep)
			s.Bounds = fmt.Sprintf("%d documents (nesting depth %d) x 2 decode modes x (%d Go operations + %d scripts)", len(docs), map[bool]int{false: 1, true: 2}[deep], len(goOps), len(battery))
			seen := map[string]bool{}
			idx := 0
			for _, d := range docs {
				for _, mode := range []string{"value", "map"} {
					idx++
					mine := idx%run.Env.NShards == run.Env.Shard
					doc := d
					if mode == "map" {
						if strings.TrimSpace(d) == "" {
							continue
						}
						doc = `{"x":` + d + `,"y":` + d + `}`
					}
					c := newCase([]byte(doc), mode, battery)
					s.Crumb(c)
					o := opts{skipGo: !mine,
						avoid: func(sw string) bool {
							if mine {
								return s.Avoid(sw)
							}
							return run.AvoidOn(sw)
						},
						scriptsIf: func(fp string) bool {
							// every shard sees every document; the scripts of one decoded value run once, in one shard
							if int(rt.Mix(rt.Hash(fp))%uint64(run.Env.NShards)) != run.Env.Shard || seen[fp] {
								return false
							}
							seen[fp] = true
							return true
						}}
					f, st := checkCase(c, s, o)
					if mine {
						account(s, c, st, "")
						if len(doc) < 60 {
							s.Sample(rt.Hash(mode, doc), map[string]string{"mode": mode, "doc": doc})
						}
					} else if st.scriptsRun > 0 {
						s.ClassN("scripts-run", int64(st.scriptsRun))
						s.ClassN("scripts-ending-in-error", int64(st.scriptErrs))
						for sig, n := range st.twinSame {
							for i := 0; i < n; i++ {
								s.Class("panic also on the well-formed twin: " + sig)
							}
						}
					}
					if f != nil && s.Report(nil, f) {
						return
					}
				}
			}
		})

	run.Check("docs", 9000, 120000,
		"structure-aware random documents: nesting <= 3 (thorough 5), every public type tag with its proper payload, plus per node a few percent each of unknown/internal/negative/ill-typed tags, payload of another tag, v missing/null/wrong JSON type, ill-typed list/dict/expr/attrs/params/name fields, null or junk elements in lists, dicts, attrs and variable maps, unknown and method-style native names, unparsable expression texts, upper-case keys, reordered/duplicate/extra fields; 65% decoded as one value, 35% as a variable map; Go battery plus 10 scripts drawn from the battery; non-trivial = decoding succeeded and re-encoding does not give the document back; distinct by (mode, document)",
		func(t *rapid.T, s *rt.Section) {
			g := &gen{t: t}
			depth := 3
			if run.Env.Thorough() {
				depth = 2 + uni(t, "depth", 4)
			}
			doc, mode := g.top(depth)
			c := newCase([]byte(doc), mode, pickScripts(t, 10))
			s.Crumb(c)
			f, st := checkCase(c, s, opts{avoid: func(sw string) bool { return s.Avoid(sw) }})
			account(s, c, st, bucket(len(doc)))
			if len(doc) < 120 {
				s.Sample(rt.Hash(mode, doc), map[string]string{"mode": mode, "doc": doc})
			}
			s.Report(t, f)
		})

	run.Check("versions", 3000, 40000,
		"two versions of one stored value: a structure-aware random document (as in docs, value mode) is decoded as x, and y is decoded from an edited copy: one field of one node rewritten the way a later or earlier program version would have written it (a function's parameter list emptied, null, one name shorter or longer, or the field absent; a function renamed; a computed value's attributes absent; a list one element longer; an expression text changed); Go battery (which compares x with y both ways) plus 6 scripts drawn from the battery and 6 from its equality and container scripts; non-trivial = both versions decoded and differ; distinct by (document, edited document)",
		func(t *rapid.T, s *rt.Section) {
			g := &gen{t: t, wf: uni(t, "wellformed", 3) != 0}
			depth := 3
			if run.Env.Thorough() {
				depth = 2 + uni(t, "depth", 3)
			}
			// functions and computed values are what versions differ in: make sure some are there
			doc := g.value(depth, 0)
			for try := 0; try < 4 && !strings.Contains(doc, `"params"`) && !strings.Contains(doc, `"attrs"`); try++ {
				doc = `{"t":6,"v":{"list":[` + doc + `,{"t":8,"v":` + g.payload(8, depth-1, 1) + `},{"t":5,"v":` + g.payload(5, depth-1, 1) + `}]}}`
			}
			doc2, kind := versionEdit(t, doc)
			scripts := pickScripts(t, 6)
			for i := 0; i < 6; i++ {
				scripts = append(scripts, uniStr(t, "eqscript", versionScripts))
			}
			c := newCase([]byte(doc), "value", scripts)
			c.Doc2 = doc2
			s.Crumb(c)
			f, st := checkCase(c, s, opts{avoid: func(sw string) bool { return s.Avoid(sw) }})
			both := false
			if st.decoded && doc2 != doc {
				if _, err := ds.VMValueFromJSON([]byte(doc2)); err == nil {
					both = true
				}
			}
			st.nontrivial = both && st.skipped == ""
			account(s, c, st, "")
			s.Class("edit:" + kind)
			if both {
				s.Class("both-versions-decode")
			}
			if len(doc) < 160 {
				s.Sample(rt.Hash(doc, doc2), map[string]string{"doc": doc, "doc2": doc2})
			}
			s.Report(t, f)
		})

	run.Check("mutate", 6000, 80000,
		"byte mutation of encoder output: a well-formed random value tree is decoded and re-encoded with ToJSON (value mode) or ValueMap.ToJSON (map mode), then 1..3 mutations are applied (delete 1..8 bytes, overwrite a byte with a structural character, insert a token such as null/{\"t\":3}/an unknown native/a field name, truncate, rewrite the number after a \"t\":, replace a whole element by null or junk); Go battery plus 8 scripts; non-trivial = the mutated document still decodes and is not what the encoder would write; distinct by (mode, document)",
		func(t *rapid.T, s *rt.Section) {
			g := &gen{t: t, wf: true}
			depth := 2
			if run.Env.Thorough() {
				depth = 1 + uni(t, "depth", 4)
			}
			base, mode := g.top(depth)
			// canonical encoder output of the base document
			var enc []byte
			if e, err, perr := decode([]byte(base), mode); err == nil && perr == nil {
				_ = rt.Guard(func() {
					if mode == "map" {
						enc, _ = encSortedMap(e.m)
					} else {
						enc, _ = encSorted(e.x)
					}
				})
			}
			if enc == nil {
				enc = []byte(base)
			}
			doc, kinds := mutate(t, enc)
			c := newCase(doc, mode, pickScripts(t, 8))
			s.Crumb(c)
			f, st := checkCase(c, s, opts{avoid: func(sw string) bool { return s.Avoid(sw) }})
			account(s, c, st, "")
			_ = kinds
			if len(doc) < 120 && st.decoded {
				s.Sample(rt.Hash(mode, string(doc)), map[string]string{"mode": mode, "doc": string(doc)})
			}
			s.Report(t, f)
		})
}

func TestReplay(t *testing.T) {
	fn := func(b []byte, s *rt.Section) *rt.Failure {
		var c Case
		if err := json.Unmarshal(b, &c); err != nil {
			return s.NewFailure("replay", "replay:bad-case", nil, err.Error(), "")
		}
		// one attempt decides, except that a dict with several entries is walked in Go's map order:
		// an order-dependent panic gets a few more chances to show
		for i := 0; i < 8; i++ {
			if f, _ := checkCase(c, s, opts{}); f != nil {
				return f
			}
			if !strings.Contains(c.Doc, `"dict"`) && c.Mode != "map" {
				break
			}
		}
		return nil
	}
	rt.Replay(t, "C10", map[string]rt.ReplayFunc{"enum": fn, "docs": fn, "mutate": fn, "versions": fn})
}
