package c10

import (
	"encoding/json"
	"fmt"
	"testing"
	"time"

	ds "github.com/sealdice/dicescript"
	"verif/harness/rt"
)

func TestExplore(t *testing.T) {
	docs := []string{
		`null`, `{}`, `{"t":3}`, `{"t":-1}`, `{"t":20}`, `{"t":21}`, `{"t":0,"v":null}`, `{"T":6,"V":{"LIST":[null]}}`,
		`{"t":6,"v":{"list":[null]}}`, `{"t":7,"v":{"dict":{"a":null}}}`, `{"t":7,"v":{"dict":{"__proto__":null}}}`,
		`{"t":5,"v":{"expr":"a","attrs":{"a":null}}}`, `{"t":9,"v":{"name":"nope"}}`, `{"t":9}`, `{"t":9,"v":{"name":"Array.push"}}`,
		`{"t":10,"v":{"name":"o"}}`, `{"t":10}`, `{"t":8}`, `{"t":8,"v":{"expr":"p+1","params":["p","p"]}}`, `{"t":5}`,
		`{"t":5,"v":{"expr":"this.a + 1"}}`,`{"t":5,"v":{"expr":"d + 1"}}`,`{"t":8,"v":{"expr":"d + 1"}}`, `{"t":2,"v":""}`, `{"t":6,"v":{"list":[{"t":3}]}}`,
	}
	scripts := []string{"x", "x[0]", "x.a", "x()", "x + 1", "x.sum()", "x * 2", "`{x}`", "x.a = 1", "x[0] = 1", "x == x", "toStr(x)", "dir(x)", "x.compute()", "x.values()", "{'a':x}"}
	for _, d := range docs {
		v, err := ds.VMValueFromJSON([]byte(d))
		if err != nil {
			fmt.Printf("%-50s decode error: %v\n", d, err)
			continue
		}
		fmt.Printf("%-50s -> t=%d %T\n", d, v.TypeId, v.Value)
		for _, op := range []string{"ToString", "ToRepr", "AsBool", "Eq", "ToJSON", "GetTypeName"} {
			pi := rt.Guard(func() {
				switch op {
				case "ToString":
					v.ToString()
				case "ToRepr":
					v.ToRepr()
				case "AsBool":
					v.AsBool()
				case "Eq":
					ds.ValueEqual(v, v.Clone(), true)
				case "ToJSON":
					b, e := v.ToJSON()
					fmt.Printf("      tojson: %q %v\n", b, e)
				case "GetTypeName":
					v.GetTypeName()
				}
			})
			if pi != nil {
				fmt.Printf("   GO %s: %s\n", op, pi.Sig())
			}
		}
		for _, s := range scripts {
			v, _ := ds.VMValueFromJSON([]byte(d))
			vm := ds.NewVM()
			vm.Config.OpCountLimit = 30000
			vm.Attrs.Store("x", v)
			var err error
			pi := rt.Guard(func() { err = vm.Run(s); if err == nil { vm.Ret.ToString(); vm.GetDetailText() } })
			if pi != nil {
				fmt.Printf("   %-12s PANIC %s\n", s, pi.Sig())
			} else if err != nil {
				_ = err
			}
		}
	}
	// ValueMap
	for _, d := range []string{`{"x":null}`, `null`, `{"x":{"t":0,"v":1},"x":null}`} {
		m := &ds.ValueMap{}
		err := json.Unmarshal([]byte(d), m)
		fmt.Println("map", d, err)
		vm := ds.NewVM()
		vm.Attrs = m
		pi := rt.Guard(func() { err = vm.Run("x") })
		fmt.Println(pi, err)
	}
	// timing
	v, _ := ds.VMValueFromJSON([]byte(`{"t":6,"v":{"list":[{"t":0,"v":1}]}}`))
	t0 := time.Now()
	n := 0
	for i := 0; i < 200; i++ {
		for _, s := range scripts {
			vm := ds.NewVM()
			vm.Config.OpCountLimit = 30000
			vm.Attrs.Store("x", v)
			_ = vm.Run(s)
			n++
		}
	}
	fmt.Println("per run", time.Since(t0)/time.Duration(n))
}
