package c10

import (
	"testing"

	"verif/harness/rt"
)

// FuzzC10 (thorough tier): coverage-guided search over raw document bytes with the oracle of the docs section
// (decode error, or the Go battery and eight scripts of the battery run crash-free, judged against the well-formed twin).
// Byte 0 selects the decoder (one value / variable map), byte 1 the window of eight scripts; the rest is the document.
func FuzzC10(f *testing.F) {
	for i, d := range enumDocs(false) {
		if i%7 == 0 {
			f.Add(append([]byte{0, byte(i)}, d...))
			f.Add(append([]byte{1, byte(i)}, `{"x":`+d+`,"y":`+d+`}`...))
		}
	}
	_, s := rt.FuzzRun("C10", "docs")
	f.Fuzz(func(t *testing.T, data []byte) {
		if len(data) < 3 || len(data) > 600 {
			return
		}
		mode := "value"
		if data[0]&1 != 0 {
			mode = "map"
		}
		start := int(data[1]) * 8 % len(battery)
		scripts := make([]string, 0, 8)
		for i := 0; i < 8; i++ {
			scripts = append(scripts, battery[(start+i)%len(battery)])
		}
		c := newCase(data[2:], mode, scripts)
		fl, _ := checkCase(c, s, opts{avoid: func(sw string) bool { return s.Avoid(sw) }})
		if fl != nil && s.FuzzReport(fl) {
			t.Fatalf("C10 %s\nobserved: %s\nexpected: %s\ncase: %s", fl.Signature, fl.Observed, fl.Expected, fl.Case)
		}
	})
}
