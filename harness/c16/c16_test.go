// C16 — disabled syntax stays disabled: the flags gate what input can do.
//
// Oracle (explicit, from the property statement): the compiled instruction
// listing of an input without an `#EnableDice` macro — main program and every
// nested function/computed body, precompiled or compiled lazily at call time —
// contains no instruction of a dice family that the VM's configuration has
// disabled; with DisableStmts no push.func / block.push / ret / backward jump;
// with DisableNDice no push.def_expr; with DisableBitwiseOp no & |.  After any
// evaluation, macro or not, Context.Config is what it was, and fixed macro-free
// probe texts compile to exactly the gated instructions that the configuration
// prescribes.
package c16

import (
	"encoding/json"
	"fmt"
	"sort"
	"strings"
	"testing"

	ds "github.com/sealdice/dicescript"
	"pgregory.net/rapid"

	"verif/harness/gen"
	"verif/harness/rt"
	"verif/harness/vmx"
)

// ---------------------------------------------------------------------------
// the gate oracle over instruction listings

// opFamily names the dice family an instruction belongs to ("" = none).
func opFamily(op string) string {
	switch {
	case op == "coc.bonus" || op == "coc.penalty":
		return "coc"
	case strings.HasPrefix(op, "wod.") || op == "dice.wod":
		return "wod"
	case op == "dice.fate":
		return "fate"
	case strings.HasPrefix(op, "dc.") || op == "dice.dc":
		return "dc"
	}
	return ""
}

func famOn(c vmx.Cfg, fam string) bool {
	switch fam {
	case "coc":
		return c.CoC
	case "wod":
		return c.WoD
	case "fate":
		return c.Fate
	case "dc":
		return c.DC
	}
	return true
}

// gatedName maps an instruction to the name of the gate it needs open:
// "fam:<family>", "stmts", "ndice", "bitwise"; "" when the instruction is not gated.
// tag is the instruction's label in signatures and probe expectations.
func gatedName(op ds.VerifOp) (gate string, tag string) {
	if f := opFamily(op.Op); f != "" {
		return "fam:" + f, op.Op
	}
	switch op.Op {
	case "push.func", "block.push", "ret":
		return "stmts", op.Op
	case "jmp", "jne", "je", "je.dup":
		if k, ok := op.Arg.(ds.IntType); ok && k < 0 && k != ds.VerifUnpatched {
			return "stmts", "backjump"
		}
	case "push.def_expr":
		return "ndice", op.Op
	case "&", "|":
		return "bitwise", op.Op
	}
	return "", ""
}

func gateOpen(c vmx.Cfg, gate string) bool {
	switch gate {
	case "stmts":
		return !c.NoStmts
	case "ndice":
		return !c.NoNDice
	case "bitwise":
		return !c.NoBitwise
	}
	if strings.HasPrefix(gate, "fam:") {
		return famOn(c, gate[4:])
	}
	return true
}

// walkCode visits every instruction of a listing and of the bodies nested in it.
func walkCode(code []ds.VerifOp, path string, level int, visit func(path string, pc int, op ds.VerifOp)) {
	for pc, op := range code {
		visit(path, pc, op)
		if v, ok := op.Arg.(*ds.VMValue); ok && v != nil && level < 30 {
			if sub, has := ds.VerifBodyCode(v); has {
				walkCode(sub, fmt.Sprintf("%s/%s@%d", path, op.Op, pc), level+1, visit)
			}
		}
	}
}

type gateHit struct {
	Gate, Tag, Path string
	PC              int
}

// gatedOps lists, in order, every gated instruction of a listing (nested bodies included).
func gatedOps(code []ds.VerifOp, path string) []gateHit {
	var out []gateHit
	walkCode(code, path, 0, func(p string, pc int, op ds.VerifOp) {
		if g, tag := gatedName(op); g != "" {
			out = append(out, gateHit{g, tag, p, pc})
		}
	})
	return out
}

// closedGateHit returns the first gated instruction whose gate the configuration keeps closed.
func closedGateHit(code []ds.VerifOp, path string, c vmx.Cfg) *gateHit {
	for _, h := range gatedOps(code, path) {
		if !gateOpen(c, h.Gate) {
			hh := h
			return &hh
		}
	}
	return nil
}

func listing(code []ds.VerifOp, ind string, budget *int) string {
	var sb strings.Builder
	for i, c := range code {
		if *budget <= 0 {
			sb.WriteString(ind + "…\n")
			break
		}
		*budget--
		switch a := c.Arg.(type) {
		case nil:
			fmt.Fprintf(&sb, "%s%d:%s\n", ind, i, c.Op)
		case *ds.VMValue:
			fmt.Fprintf(&sb, "%s%d:%s <value>\n", ind, i, c.Op)
			if sub, ok := ds.VerifBodyCode(a); ok && len(ind) < 12 {
				sb.WriteString(listing(sub, ind+"    ", budget))
			}
		default:
			s := fmt.Sprintf("%v", a)
			if len(s) > 40 {
				s = s[:40] + "…"
			}
			fmt.Fprintf(&sb, "%s%d:%s %s\n", ind, i, c.Op, s)
		}
	}
	return sb.String()
}

func showListing(code []ds.VerifOp) string {
	b := 160
	return listing(code, "", &b)
}

func cfgFlags(c vmx.Cfg) string {
	var on []string
	add := func(b bool, s string) {
		if b {
			on = append(on, s)
		}
	}
	add(c.CoC, "coc")
	add(c.WoD, "wod")
	add(c.Fate, "fate")
	add(c.DC, "dc")
	add(c.NoStmts, "NoStmts")
	add(c.NoNDice, "NoNDice")
	add(c.NoBitwise, "NoBitwise")
	if len(on) == 0 {
		return "{}"
	}
	return "{" + strings.Join(on, ",") + "}"
}

func gateFailure(s *rt.Section, c any, cfg vmx.Cfg, h *gateHit, code []ds.VerifOp, where string) *rt.Failure {
	return s.NewFailure("gate-closed", "gate:"+h.Gate+":"+h.Tag, c,
		fmt.Sprintf("%s: instruction %s at %s#%d although the configuration %s keeps %q closed and the input has no #EnableDice macro\n%s",
			where, h.Tag, h.Path, h.PC, cfgFlags(cfg), h.Gate, showListing(code)),
		"no instruction of a disabled feature in the main program or any nested body")
}

// valueBodies visits the compiled body of every function/computed value reachable from v.
func valueBodies(v *ds.VMValue, path string, seen map[any]bool, depth int, visit func(path string, code []ds.VerifOp)) {
	if v == nil || depth > 12 {
		return
	}
	switch v.TypeId {
	case ds.VMTypeFunction:
		fd, ok := v.ReadFunctionData()
		if !ok || fd == nil || seen[fd] {
			return
		}
		seen[fd] = true
		if code, has := ds.VerifBodyCode(v); has {
			visit(path, code)
		}
	case ds.VMTypeComputedValue:
		cd, ok := v.ReadComputed()
		if !ok || cd == nil || seen[cd] {
			return
		}
		seen[cd] = true
		if code, has := ds.VerifBodyCode(v); has {
			visit(path, code)
		}
		if cd.Attrs != nil {
			mapBodies(cd.Attrs, path, seen, depth+1, visit)
		}
	case ds.VMTypeArray:
		ad, ok := v.ReadArray()
		if !ok || ad == nil || seen[ad] {
			return
		}
		seen[ad] = true
		for i, e := range ad.List {
			valueBodies(e, fmt.Sprintf("%s[%d]", path, i), seen, depth+1, visit)
		}
	case ds.VMTypeDict:
		dd, ok := v.ReadDictData()
		if !ok || dd == nil || dd.Dict == nil || seen[dd] {
			return
		}
		seen[dd] = true
		mapBodies(dd.Dict, path, seen, depth+1, visit)
	}
}

func mapBodies(m *ds.ValueMap, path string, seen map[any]bool, depth int, visit func(path string, code []ds.VerifOp)) {
	type kv struct {
		k string
		v *ds.VMValue
	}
	var items []kv
	m.Range(func(k string, v *ds.VMValue) bool {
		items = append(items, kv{k, v})
		return true
	})
	sort.Slice(items, func(i, j int) bool { return items[i].k < items[j].k })
	for _, it := range items {
		valueBodies(it.v, path+"."+it.k, seen, depth, visit)
	}
}

// stateBodiesHit checks every compiled body reachable from the VM's variables and result.
func stateBodiesHit(vm *ds.Context, cfg vmx.Cfg) (*gateHit, []ds.VerifOp) {
	var hit *gateHit
	var hitCode []ds.VerifOp
	seen := map[any]bool{}
	visit := func(path string, code []ds.VerifOp) {
		if hit != nil {
			return
		}
		if h := closedGateHit(code, path, cfg); h != nil {
			hit, hitCode = h, code
		}
	}
	if vm.Attrs != nil {
		mapBodies(vm.Attrs, "vars", seen, 0, visit)
	}
	valueBodies(vm.Ret, "ret", seen, 0, visit)
	return hit, hitCode
}

// ---------------------------------------------------------------------------
// Config snapshots

type cfgSnap struct {
	WoD, CoC, Fate, DC          bool
	NoBitwise, NoStmts, NoNDice bool
	ParseLimit                  uint64
	OpLimit                     int64
	DefSide                     string
	Print, IgnDiv0              bool
	Lang                        int
	Min, Max                    bool
	Hooks                       [7]bool
}

func snapCfg(vm *ds.Context) cfgSnap {
	c := vm.Config
	return cfgSnap{c.EnableDiceWoD, c.EnableDiceCoC, c.EnableDiceFate, c.EnableDiceDoubleCross,
		c.DisableBitwiseOp, c.DisableStmts, c.DisableNDice, c.ParseExprLimit, int64(c.OpCountLimit), c.DefaultDiceSideExpr,
		c.PrintBytecode, c.IgnoreDiv0, c.ParseErrorLanguage, c.DiceMinMode, c.DiceMaxMode,
		[7]bool{c.HookValueStore != nil, c.HookValueLoadPre != nil, c.HookValueLoadPost != nil, c.CallbackSt != nil,
			c.CustomMakeDetailFunc != nil, c.CustomDetailSpanRewriteFunc != nil, c.CustomDetailRewriteFunc != nil}}
}

func (a cfgSnap) diff(b cfgSnap) string {
	var d []string
	add := func(name string, x, y any) {
		if x != y {
			d = append(d, fmt.Sprintf("%s: %v -> %v", name, x, y))
		}
	}
	add("EnableDiceWoD", a.WoD, b.WoD)
	add("EnableDiceCoC", a.CoC, b.CoC)
	add("EnableDiceFate", a.Fate, b.Fate)
	add("EnableDiceDoubleCross", a.DC, b.DC)
	add("DisableBitwiseOp", a.NoBitwise, b.NoBitwise)
	add("DisableStmts", a.NoStmts, b.NoStmts)
	add("DisableNDice", a.NoNDice, b.NoNDice)
	add("ParseExprLimit", a.ParseLimit, b.ParseLimit)
	add("OpCountLimit", a.OpLimit, b.OpLimit)
	add("DefaultDiceSideExpr", a.DefSide, b.DefSide)
	add("PrintBytecode", a.Print, b.Print)
	add("IgnoreDiv0", a.IgnDiv0, b.IgnDiv0)
	add("ParseErrorLanguage", a.Lang, b.Lang)
	add("DiceMinMode", a.Min, b.Min)
	add("DiceMaxMode", a.Max, b.Max)
	add("hooks(nil-ness)", a.Hooks, b.Hooks)
	return strings.Join(d, "; ")
}

func firstField(diff string) string {
	if i := strings.Index(diff, ":"); i > 0 {
		return diff[:i]
	}
	return diff
}

// ---------------------------------------------------------------------------
// running one text

const workCeiling = 3_000_000

type runOut struct {
	pi       *rt.PanicInfo
	err      error
	ceiling  bool
	accepted bool // Parse returned nil
	code     []ds.VerifOp
	offset   int
}

func guarded(fn func()) (pi *rt.PanicInfo, ceiling bool) {
	ds.VerifMeterReset(workCeiling)
	pi = rt.Guard(fn)
	ds.VerifMeterReset(0)
	if pi != nil {
		if _, hit := pi.Raw.(ds.VerifCeilingHit); hit {
			return nil, true
		}
	}
	return pi, false
}

// parseAndRun compiles src, records the listing, then (when run is set) evaluates it.
func parseAndRun(vm *ds.Context, src string, run bool) runOut {
	var o runOut
	o.pi, o.ceiling = guarded(func() { o.err = vm.Parse(src) })
	if o.pi != nil || o.ceiling || o.err != nil {
		return o
	}
	o.accepted = true
	o.code = vm.VerifCode()
	o.offset = vm.GetParsedOffset()
	if run {
		o.pi, o.ceiling = guarded(func() { o.err = vm.RunAfterParsed() })
	}
	return o
}

func hasMacro(src string) bool { return strings.Contains(src, "#EnableDice") }

// ---------------------------------------------------------------------------
// "does this text tempt a closed gate" — the non-triviality rule

func isDigitOrParen(b byte) bool { return (b >= '0' && b <= '9') || b == '(' || b == ')' }

var famLetters = map[byte]string{'a': "wod", 'A': "wod", 'b': "coc", 'B': "coc", 'p': "coc", 'P': "coc", 'c': "dc", 'C': "dc", 'f': "fate", 'F': "fate"}

// tempts lists the closed gates that the text (its first n bytes) spells something for.
func tempts(src string, n int, c vmx.Cfg) []string {
	if n > len(src) {
		n = len(src)
	}
	seen := map[string]bool{}
	for i := 0; i <= n && i < len(src); i++ {
		b := src[i]
		if i == n {
			// the byte at which the parser stopped: it looked at it and refused it
			if _, ok := famLetters[b]; !ok {
				break
			}
		}
		if fam, ok := famLetters[b]; ok && !famOn(c, fam) {
			adj := (i > 0 && isDigitOrParen(src[i-1])) || (i+1 < len(src) && isDigitOrParen(src[i+1]))
			if fam == "fate" {
				// a lone f is the whole Fate term
				adj = adj || ((i == 0 || !isIdentByte(src[i-1])) && (i+1 >= len(src) || !isIdentByte(src[i+1])))
			}
			if fam == "coc" {
				adj = adj || ((i == 0 || !isIdentByte(src[i-1])) && (i+1 >= len(src) || !isIdentByte(src[i+1])))
			}
			if adj {
				seen["fam:"+fam] = true
			}
		}
		if c.NoNDice && (b == 'd' || b == 'D') && (i == 0 || !isIdentLetter(src[i-1])) && (i+1 >= len(src) || !(src[i+1] >= '0' && src[i+1] <= '9') && src[i+1] != '(' && !isIdentLetter(src[i+1])) {
			seen["ndice"] = true
		}
		if c.NoBitwise && (b == '|' || b == '&') && (i+1 >= len(src) || src[i+1] != b) && (i == 0 || src[i-1] != b) {
			seen["bitwise"] = true
		}
	}
	if c.NoStmts {
		for _, kw := range []string{"if ", "while ", "func ", "return"} {
			if j := strings.Index(src, kw); j >= 0 && j < n {
				seen["stmts"] = true
			}
		}
	}
	var out []string
	for k := range seen {
		out = append(out, k)
	}
	sort.Strings(out)
	return out
}

func isIdentLetter(b byte) bool {
	return b == '_' || b == '$' || (b >= 'a' && b <= 'z') || (b >= 'A' && b <= 'Z') || b >= 0x80
}
func isIdentByte(b byte) bool { return isIdentLetter(b) || (b >= '0' && b <= '9') }

// ---------------------------------------------------------------------------
// section gate / spell: one text on a fresh VM

type Case struct {
	Cfg  vmx.Cfg `json:"cfg"`
	Src  string  `json:"src"`
	Kind string  `json:"kind,omitempty"`
}

type caseInfo struct {
	accepted, ran, macro bool
	offset               int
	gated                []gateHit
}

const fixedSeed = "000102030405060708090a0b0c0d0e0f"

func checkCase(c Case, s *rt.Section) (*rt.Failure, caseInfo) {
	var info caseInfo
	info.macro = hasMacro(c.Src)
	vm := c.Cfg.NewVM()
	vm.Config.CallbackSt = func(_type string, name string, val *ds.VMValue, extra *ds.VMValue, op string, detail string) {}
	before := snapCfg(vm)
	o := parseAndRun(vm, c.Src, true)
	if o.pi != nil {
		return s.NewFailure("no-panic", o.pi.Sig(), c, "panic: "+o.pi.Value+"\n"+o.pi.Stack, "a value or an error"), info
	}
	if o.ceiling {
		s.Discard("work-ceiling")
	}
	info.accepted, info.offset = o.accepted, o.offset
	info.ran = o.accepted && !o.ceiling && o.err == nil
	if d := before.diff(snapCfg(vm)); d != "" {
		return s.NewFailure("config-unchanged", "config:"+firstField(d), c, "Context.Config changed by the evaluation: "+d, "Config after == Config before"), info
	}
	if !o.accepted {
		return nil, info
	}
	info.gated = gatedOps(o.code, "main")
	if info.macro {
		return nil, info
	}
	if h := closedGateHit(o.code, "main", c.Cfg); h != nil {
		return gateFailure(s, c, c.Cfg, h, o.code, "compiled program"), info
	}
	if h, code := stateBodiesHit(vm, c.Cfg); h != nil {
		return gateFailure(s, c, c.Cfg, h, code, "value left by the evaluation"), info
	}
	return nil, info
}

func drawCfg(t *rapid.T) vmx.Cfg {
	c := vmx.Cfg{
		CoC:     rapid.Bool().Draw(t, "coc"),
		WoD:     rapid.Bool().Draw(t, "wod"),
		Fate:    rapid.Bool().Draw(t, "fate"),
		DC:      rapid.Bool().Draw(t, "dc"),
		OpLimit: 30000,
		SeedHex: fixedSeed,
	}
	c.NoStmts = rapid.IntRange(0, 3).Draw(t, "nostmt") == 0
	c.NoNDice = rapid.IntRange(0, 2).Draw(t, "nondice") == 0
	c.NoBitwise = rapid.IntRange(0, 2).Draw(t, "nobit") == 0
	return c
}

func cfgKey(c vmx.Cfg) string {
	return fmt.Sprint(c.CoC, c.WoD, c.Fate, c.DC, c.NoStmts, c.NoNDice, c.NoBitwise)
}

var fixedProgs = []string{
	"2a5", "a5", "2a5k6m9q2", "(2)a(5)", "2A5", "b2", "b", "p", "p3", "B2", "P", "b(1+1)", "f", "F", "1+f", "2c5", "2c5m7", "(2)c(5)", "2C5", "2a5+b2+f+2c5",
	"x = 2a5", "[2a5, b2, f, 2c5]", "`{2a5} {b2} {f} {2c5}`", "`{% x = 2c5 %}`", "func g() { 2a5 }; g()", "func g(n) { return n + b2 }; g(1)", "&c = 2c5; c", "&c = f; c",
	"^stx=2a5", "^stx+b2", "^st&c=2c5", "^stx=(f)", "^stx2c5", "^stx:2a5 y=b2", "^st'x 2':f", "{'k': b2}", "1 ? 2a5 : f", "abs(2c5)", "(b2)", "(f)", "[f]kh", "[b, p]", "2a5c", "a5c", "b2x", "fx", "2c5x",
	"if 1 { 2 } else { 3 }", "i=0; while i<3 { i=i+1 }", "i=0; while i<3 { i=i+1; if i>1 { continue } }", "func g(n) { if n { return 1 } 2 }; g(1)", "return 5", "`{% if 1 { 2 } %}`",
	"^stx=(`{% if 1 { 2 } %}`)", "^stx=`{% if 1 { 2 } %}`", "&c = `{% func h() { 1 } %}`; c", "3d", "d", "d+1", "2d+d", "[d]", "`{d}`", "func g() { d }; g()", "&c = 3d; c", "^stx=3d", "^stx=(d)", "^stx+d",
	"1|2", "1&2", "x = 1 | 2 & 3", "`{1|2}`", "func g() { 1|2 }; g()", "&c = 1&2; c", "^stx=1|2", "^stx=(1|2)", "^stx+(1&2)", "^st&c=(1|2)", "1||2", "1&&2", "&x", "&x = 1",
	"^sta=1 b=(2)", "^sta=1 b=2 c=(3)", "^sta=1 &b=(2)", "^sta+=1 b+=(2)", "^sta=(1) b=(2) c=(3) d=(4)", "^sta=1 b=(`{% if 1 { 2 } %}`)", "^sta1 b=(`{% i = 0; while i < 1 { i = i + 1 } %}`)",
	"2d6kh1", "d20优势", "1 ? 2 : 3", "0 ? 2, 1 ? 3", "x = 1; x", "[1,2,3][1:2]", "null ?? 1", "{'a':1,}",
}

var temptTerms = map[string][]string{
	"fam:wod":  {"2a5", "a5", "(2)a(5)", "3a8k6", "2A5m9", "4a6q2"},
	"fam:coc":  {"b2", "p", "b", "P3", "b(2)", "B"},
	"fam:fate": {"f", "F"},
	"fam:dc":   {"2c5", "2c5m7", "(2)C(5)", "3c8"},
	"ndice":    {"3d", "d", "D", "2dk1", "d优势"},
	"bitwise":  {"(1|2)", "1&3", "1 | 2", "(3 & 1)"},
	"stmts":    {"`{% if 1 { 2 } %}`", "`{% func h() { 1 } %}`", "`{% i = 0; while i < 1 { i = i + 1 } %}`"},
}

var allGates = []string{"fam:wod", "fam:coc", "fam:fate", "fam:dc", "ndice", "bitwise", "stmts"}

// injectTempt replaces one integer literal of src by a term that needs a gate, preferably one the configuration keeps closed.
func injectTempt(t *rapid.T, src string, cfg vmx.Cfg) string {
	var spots [][2]int
	for i := 0; i < len(src); {
		if src[i] >= '0' && src[i] <= '9' {
			j := i
			for j < len(src) && src[j] >= '0' && src[j] <= '9' {
				j++
			}
			if (i == 0 || (!isIdentByte(src[i-1]) && src[i-1] != '.')) && (j >= len(src) || (!isIdentByte(src[j]) && src[j] != '.')) {
				spots = append(spots, [2]int{i, j})
			}
			i = j
			continue
		}
		i++
	}
	if len(spots) == 0 {
		return src
	}
	var closed []string
	for _, g := range allGates {
		if !gateOpen(cfg, g) {
			closed = append(closed, g)
		}
	}
	pool := allGates
	if len(closed) > 0 && rapid.IntRange(0, 3).Draw(t, "temptClosed") != 0 {
		pool = closed
	}
	gate := rapid.SampledFrom(pool).Draw(t, "temptGate")
	term := rapid.SampledFrom(temptTerms[gate]).Draw(t, "temptTerm")
	sp := spots[rapid.IntRange(0, len(spots)-1).Draw(t, "temptSpot")]
	return src[:sp[0]] + term + src[sp[1]:]
}

func drawSource(t *rapid.T, s *rt.Section, cfg vmx.Cfg) (src, kind string) {
	src, kind = drawSource0(t, s, cfg)
	if rapid.IntRange(0, 2).Draw(t, "inject") != 0 {
		src, kind = injectTempt(t, src, cfg), kind+"+inject"
	}
	return src, kind
}

func drawSource0(t *rapid.T, s *rt.Section, cfg vmx.Cfg) (src, kind string) {
	o := gen.DefaultOpts()
	o.Dice = true
	if rapid.IntRange(0, 3).Draw(t, "allFamilies") != 0 {
		o.CoC, o.WoD, o.Fate, o.DC = true, true, true, true
	} else {
		o.CoC, o.WoD, o.Fate, o.DC = cfg.CoC, cfg.WoD, cfg.Fate, cfg.DC
	}
	o.MaxStmts, o.MaxDepth = 5, 3
	o.SingleKeyDicts = false // since fix 6269628 a dict prints and lists its entries in key order
	o.Avoid = s.Avoid
	g := gen.NewG(t, o, nil)
	switch rapid.IntRange(0, 13).Draw(t, "srcKind") {
	case 0, 1, 2, 3:
		z := &gen.Noise{Vals: rapid.SliceOfN(rapid.IntRange(0, 1000), 0, 10).Draw(t, "noise")}
		src, _ = gen.PrintNoisy(g.Program(), z)
		return src, "program"
	case 4:
		// an expression-only program (what a host that disables statements expects to serve)
		g.O.Stmts = false
		return gen.Print(g.Expr(gen.TAny, 3)), "expression"
	case 5:
		p := gen.Print(g.Program())
		tail, _ := g.Tail()
		return p + tail, "program+tail"
	case 6:
		return rapid.SampledFrom(fixedProgs).Draw(t, "fixed"), "fixed"
	case 7:
		p := rapid.SampledFrom(fixedProgs).Draw(t, "fixed")
		tail, _ := g.Tail()
		return p + tail, "fixed+tail"
	case 8:
		src, _ = g.Hostile()
		if len(src) > 3000 {
			src = src[:3000]
		}
		return src, "hostile-template"
	case 9:
		g.O.Hostile = 0.3
		return gen.Print(g.Program()), "hostile-typed"
	case 10, 11:
		base := gen.Print(g.Program())
		if rapid.Bool().Draw(t, "mutFixed") {
			base = rapid.SampledFrom(fixedProgs).Draw(t, "fixed")
		}
		return g.MutateBytes(base, 1+rapid.IntRange(0, 2).Draw(t, "nmut")), "byte-mutation"
	default:
		sp := drawSpell(t, cfg)
		p := gen.Print(g.Program())
		if rapid.Bool().Draw(t, "spellFirst") {
			return sp + "; " + p, "spell;program"
		}
		return p + "; " + sp, "program;spell"
	}
}

// ---------------------------------------------------------------------------
// the spelling generator

var (
	atomFam   = []string{"a", "A", "b", "B", "p", "P", "c", "C", "f", "F"}
	atomMod   = []string{"m", "M", "k", "K", "q", "Q", "d", "D", "kh", "kl", "dh", "dl", "min", "max", "优势"}
	atomNum   = []string{"1", "2", "5", "10", "0", "3", "2.5", ".5"}
	atomParen = []string{"(", ")", "(2)", "(1+1)", "(x)", "[", "]", "()"}
	atomIdent = []string{"x", "_", "$", "力", "（", "）", "【", "】", "９", "é", "n", ":"}
	atomBlank = []string{" ", "\t", "\n", "\r\n", "  "}
	atomOp    = []string{"+", "-", "*", "/", ",", ";", ".", "?", ":", "=", "|", "&", "＋", "－", "==", "||", "&&", "??", "^", "%", "<", "!="}
)

func closedLetters(c vmx.Cfg) []string {
	var out []string
	if !c.WoD {
		out = append(out, "a", "A")
	}
	if !c.CoC {
		out = append(out, "b", "B", "p", "P")
	}
	if !c.DC {
		out = append(out, "c", "C")
	}
	if !c.Fate {
		out = append(out, "f", "F")
	}
	return out
}

// drawSpell draws a spelling; two thirds of its family letters are letters of families that cfg disables.
func drawSpell(t *rapid.T, cfg vmx.Cfg) string {
	closed := closedLetters(cfg)
	n := rapid.IntRange(1, 7).Draw(t, "spellLen")
	var sb strings.Builder
	for i := 0; i < n; i++ {
		var pool []string
		switch k := rapid.IntRange(0, 114).Draw(t, "atomKind"); {
		case k >= 100:
			// a whole term that needs a gate, preferably a closed one
			var closedGates []string
			for _, g := range allGates {
				if !gateOpen(cfg, g) {
					closedGates = append(closedGates, g)
				}
			}
			gates := allGates
			if len(closedGates) > 0 && k%4 != 0 {
				gates = closedGates
			}
			pool = temptTerms[rapid.SampledFrom(gates).Draw(t, "termGate")]
		case k < 34:
			pool = atomFam
			if len(closed) > 0 && k%3 != 0 {
				pool = closed
			}
		case k < 60:
			pool = atomNum
		case k < 70:
			pool = atomParen
		case k < 80:
			pool = atomMod
		case k < 87:
			pool = atomIdent
		case k < 92:
			pool = atomBlank
		default:
			pool = atomOp
		}
		sb.WriteString(rapid.SampledFrom(pool).Draw(t, "atom"))
	}
	return sb.String()
}

var spellContexts = []string{
	"%s", "%s", "%s", "x = %s", "[%s]", "(%s)", "abs(%s)", "1 + %s", "%s + 1", "1+%s", "-%s", "`{%s}`", "`a{%% %s %%}b`", "\x1e{%s}\x1e",
	"func g() { %s }; g()", "func g(n) { return %s }; g(1)", "&c = %s; c", "&c = %s", "^stx=%s", "^stx%s", "^stx+%s", "^stx+=%s", "^stx-%s", "^st&c=%s", "^stx=(%s)", "^stx*2=%s", "^st'x 2':%s", "^stx: %s y=%s", "^st力量%s敏捷%s", "^st&c = (%s)", "^stx=%s,y+%s",
	"{'k': %s}", "{k: %s}", "1 ? %s : 2", "0 ? 1 : %s", "1 ? %s, 1 ? 2", "if 1 { %s }", "if %s { 1 }", "i=0; while i<1 { i=i+1; %s }", "[%s]kh", "[1,%s][0]", "x = [1,2]; x[%s]", "x = [1,2]; x[0:%s]",
	"%s // c", "// c\n%s", "return %s", "'s' + %s", "%s;%s", "%s\n%s", "1;%s", "x.y = %s", "x = [0]; x[0] = %s", "this.y = %s", "%sd6", "d%s", "2d6k%s", "[1..%s]", "1d6 %s", "toStr(%s)", "g(%s, %s)",
}

// stItemForms: the forms of one entry of an st list ({n} name, {v} value); est brackets every value with a
// save/restore of the syntax flags, so what a later value may contain must not depend on the values before it.
var stItemForms = []string{"{n}={v}", "{n}=({v})", "&{n}=({v})", "&{n}={v}", "{n}+=({v})", "{n}+({v})", "{n}-=({v})", "{n}:{v}", "{n}{v}", "{n}*2=({v})", "'{n} 2'=({v})"}

// drawStList draws `^st` followed by 1..5 entries; the values are small integers, gated terms (preferably of a
// gate the configuration keeps closed) or free spellings.
func drawStList(t *rapid.T, cfg vmx.Cfg) string {
	var closed []string
	for _, g := range allGates {
		if !gateOpen(cfg, g) {
			closed = append(closed, g)
		}
	}
	n := rapid.IntRange(1, 5).Draw(t, "stItems")
	var sb strings.Builder
	sb.WriteString("^st")
	for i := 0; i < n; i++ {
		if i > 0 {
			sb.WriteString(rapid.SampledFrom([]string{" ", " ", ",", ", "}).Draw(t, "stSep"))
		}
		v := rapid.SampledFrom([]string{"1", "2", "30"}).Draw(t, "stInt")
		switch k := rapid.IntRange(0, 9).Draw(t, "stValKind"); {
		case k < 4:
			gates := allGates
			if len(closed) > 0 && k != 0 {
				gates = closed
			}
			v = rapid.SampledFrom(temptTerms[rapid.SampledFrom(gates).Draw(t, "stGate")]).Draw(t, "stTerm")
		case k == 4:
			v = drawSpell(t, cfg)
		}
		form := rapid.SampledFrom(stItemForms).Draw(t, "stForm")
		name := rapid.SampledFrom([]string{"a", "b", "x", "力量", "hp", "c"}).Draw(t, "stName")
		sb.WriteString(strings.NewReplacer("{n}", name, "{v}", v).Replace(form))
	}
	return sb.String()
}

func drawSpellCase(t *rapid.T, s *rt.Section, cfg vmx.Cfg) (src, ctx string) {
	if rapid.IntRange(0, 7).Draw(t, "stList") == 0 {
		return drawStList(t, cfg), "^st <list of 1..5 entries>"
	}
	ctx = rapid.SampledFrom(spellContexts).Draw(t, "ctx")
	if ctx == "^stx-%s" && s.Avoid("st_minus_value") {
		// C16-F01: `^st name-value` panics when the value is not a number; the -= form does not negate
		ctx = "^stx-=%s"
	}
	n := strings.Count(ctx, "%s")
	args := make([]any, n)
	for i := range args {
		args[i] = drawSpell(t, cfg)
	}
	return fmt.Sprintf(ctx, args...), ctx
}

// ---------------------------------------------------------------------------
// probes: fixed macro-free texts whose gated instructions are prescribed by the configuration

type probe struct {
	src  string
	gate string
	want []string // gated instruction tags, in order, when the gate is open
}

var probes = []probe{
	{"2a5", "fam:wod", []string{"wod.init", "wod.pool", "dice.wod"}},
	{"a5", "fam:wod", []string{"wod.init", "dice.wod"}},
	{"2a5k6m9", "fam:wod", []string{"wod.init", "wod.pool", "wod.threshold", "wod.points", "dice.wod"}},
	{"b2", "fam:coc", []string{"coc.bonus"}},
	{"p", "fam:coc", []string{"coc.penalty"}},
	{"f", "fam:fate", []string{"dice.fate"}},
	{"2c5", "fam:dc", []string{"dc.setInit", "dc.setPool", "dice.dc"}},
	{"2c5m7", "fam:dc", []string{"dc.setInit", "dc.setPool", "dc.setPoints", "dice.dc"}},
	{"if 1 { 2 }", "stmts", []string{"block.push"}},
	{"func g() { 1 }", "stmts", []string{"push.func"}},
	{"i = 0; while i < 1 { i = i + 1 }", "stmts", []string{"block.push", "backjump"}},
	{"3d", "ndice", []string{"push.def_expr"}},
	{"d", "ndice", []string{"push.def_expr"}},
	{"1|2", "bitwise", []string{"|"}},
	{"1&2", "bitwise", []string{"&"}},
	// inside an st value a bare `d` / `<n>d` is never a die, whatever the VM's own switches say (est closes the gate for
	// the value): the gate "never" is closed under every configuration
	{"^st力量3d敏捷70", "never", nil},
	{"^sta3d b4", "never", nil},
	{"^stx2d,y3", "never", nil},
	{"^st力量=3d敏捷=4", "never", nil},
}

// checkProbes parses every probe on vm and compares the gated instructions with the prescription.
func checkProbes(vm *ds.Context, cfg vmx.Cfg) (sig, observed, expected string) {
	for _, p := range probes {
		var err error
		pi, _ := guarded(func() { err = vm.Parse(p.src) })
		if pi != nil {
			return "probe:panic", fmt.Sprintf("probe %q panics: %s", p.src, pi.Value), "compiles or is rejected"
		}
		var got []string
		if err == nil {
			for _, h := range gatedOps(vm.VerifCode(), "main") {
				got = append(got, h.Tag)
			}
		}
		var want []string
		if p.gate != "never" && gateOpen(cfg, p.gate) {
			want = p.want
		}
		if strings.Join(got, ",") != strings.Join(want, ",") {
			return "probe:" + p.gate, fmt.Sprintf("probe %q under %s compiles to gated instructions [%s] (parse error: %v)", p.src, cfgFlags(cfg), strings.Join(got, ","), err),
				"[" + strings.Join(want, ",") + "]"
		}
	}
	return "", "", ""
}

// ---------------------------------------------------------------------------
// section history: several evaluations on one VM, with and without macros

type Step struct {
	Call string `json:"call"` // Run | Parse | RunExpr
	Src  string `json:"src"`
	Flag bool   `json:"flag,omitempty"`
	// Flip: before this step the host writes these seven switches into vm.Config (bit 0..6: CoC WoD Fate DC
	// DisableStmts DisableNDice DisableBitwiseOp); from then on they are the configuration in force
	Flip *int `json:"flip,omitempty"`
}

func withFlags(c vmx.Cfg, b int) vmx.Cfg {
	c.CoC, c.WoD, c.Fate, c.DC = b&1 != 0, b&2 != 0, b&4 != 0, b&8 != 0
	c.NoStmts, c.NoNDice, c.NoBitwise = b&16 != 0, b&32 != 0, b&64 != 0
	return c
}

type HistCase struct {
	Cfg   vmx.Cfg `json:"cfg"`
	Steps []Step  `json:"steps"`
	// Custom: the host has registered custom dice syntaxes on the VM: bit 0 the regular expression E(\d+), bit 1 a stream
	// parser for K<digits>; some steps then use them behind their macros
	Custom int `json:"custom,omitempty"`
}

// regHistCustom registers the custom syntaxes of a history case.
func regHistCustom(vm *ds.Context, custom int) {
	handler := func(ctx *ds.Context, groups []string, payload any) (*ds.VMValue, string, error) {
		return ds.NewIntVal(7), "", nil
	}
	if custom&1 != 0 {
		_ = vm.RegCustomDice(`E(\d+)`, handler)
	}
	if custom&2 != 0 {
		_ = vm.RegCustomDiceParser(func(ctx *ds.Context, st *ds.CustomDiceStream) (*ds.CustomDiceParseResult, error) {
			if r, ok := st.Read(); !ok || r != 'K' {
				return &ds.CustomDiceParseResult{Matched: false}, nil
			}
			if _, ok := st.ReadDigits(); !ok {
				return &ds.CustomDiceParseResult{Matched: false}, nil
			}
			return &ds.CustomDiceParseResult{Matched: true}, nil
		}, handler)
	}
}

func checkHistory(c HistCase, s *rt.Section) (*rt.Failure, int, int) {
	vm := c.Cfg.NewVM()
	regHistCustom(vm, c.Custom)
	vm.Config.CallbackSt = func(_type string, name string, val *ds.VMValue, extra *ds.VMValue, op string, detail string) {}
	before := snapCfg(vm)
	macroSteps, macroEffective := 0, 0
	cur := c.Cfg
	for i, st := range c.Steps {
		where := fmt.Sprintf("step %d %s(%q)", i, st.Call, clip(st.Src, 160))
		if st.Flip != nil {
			cur = withFlags(cur, *st.Flip)
			cur.Apply(vm)
			before = snapCfg(vm)
			where += fmt.Sprintf(" after the host set the switches to %s", cfgFlags(cur))
		}
		macro := hasMacro(st.Src)
		if macro {
			macroSteps++
		}
		switch st.Call {
		case "RunExpr":
			var err error
			pi, _ := guarded(func() { _, err = vm.RunExpr(st.Src, st.Flag) })
			_ = err
			if pi != nil {
				return s.NewFailure("no-panic", pi.Sig(), c, where+" panics: "+pi.Value+"\n"+pi.Stack, "a value or an error"), macroSteps, macroEffective
			}
		default:
			o := parseAndRun(vm, st.Src, st.Call == "Run")
			if o.pi != nil {
				return s.NewFailure("no-panic", o.pi.Sig(), c, where+" panics: "+o.pi.Value+"\n"+o.pi.Stack, "a value or an error"), macroSteps, macroEffective
			}
			// a macro counts for the text it stands in: when the parser gave the macro back with the rest (it sits in a
			// construct that breaks off), the consumed text has no macro and obeys the VM's own switches
			if o.accepted && macro && o.offset >= 0 && o.offset <= len(st.Src) && !hasMacro(st.Src[:o.offset]) {
				macro = false
				macroSteps--
				s.Class("macro-only-in-the-rest-text")
			}
			if o.accepted {
				if !macro {
					// the text of this step was compiled with the VM's own flags, whatever ran before
					if h := closedGateHit(o.code, "main", cur); h != nil {
						return gateFailure(s, c, cur, h, o.code, where+": compiled program"), macroSteps, macroEffective
					}
				} else if closedGateHit(o.code, "main", cur) != nil {
					macroEffective++
				}
			}
		}
		if d := before.diff(snapCfg(vm)); d != "" {
			return s.NewFailure("config-unchanged", "config:"+firstField(d), c, where+": Context.Config changed: "+d, "Config after == Config before"), macroSteps, macroEffective
		}
		if i+1 < len(c.Steps) && c.Steps[i+1].Flip != nil && c.Steps[i+1].Src == st.Src {
			continue // the same text comes again right after the switches change: nothing is evaluated in between
		}
		if sig, obs, exp := checkProbes(vm, cur); sig != "" {
			return s.NewFailure("probe-after-history", sig, c, "after "+where+": "+obs, exp), macroSteps, macroEffective
		}
	}
	// a VM created after all of this sees only its own configuration
	fresh := c.Cfg.NewVM()
	if sig, obs, exp := checkProbes(fresh, c.Cfg); sig != "" {
		return s.NewFailure("probe-fresh-vm", sig+":fresh", c, "fresh VM after the history: "+obs, exp), macroSteps, macroEffective
	}
	return nil, macroSteps, macroEffective
}

var macroFamilies = []string{"wod", "coc", "fate", "doublecross", "dc", "WoD", "all", "stmts"}

var famMacroName = map[string]string{"wod": "wod", "coc": "coc", "fate": "fate", "dc": "doublecross"}

var famUses = map[string][]string{
	"wod":  {"2a5", "a5", "x = 2a5k6", "[2a5, 1]", "func g() { 3a6 }; g()", "&c = 2a5; c", "`{2a5}`"},
	"coc":  {"b2", "p", "b", "[b, p3]", "func g() { b2 }; g()", "&c = p; c", "`{% b %}`"},
	"fate": {"f", "1+f", "[f]", "func g() { f }; g()", "&c = f; c", "`{f}`"},
	"dc":   {"2c5", "2c5m7", "[2c5]", "func g() { 2c5 }; g()", "&c = 3c8; c", "`{2c5}`"},
}

var macroUses = []string{"2a5+b2+f+2c5", "[2a5, b, f, 2c5m7]", "g()", "c", "h(1)", "x", "1", "g() + c"}

// drawMacro draws a macro line and a text that uses what the macro names; three times out of four the
// macro switches on a family that the configuration disables.
func drawMacro(t *rapid.T, cfg vmx.Cfg) (macro, use string) {
	var closed []string
	for _, f := range []string{"wod", "coc", "fate", "dc"} {
		if !famOn(cfg, f) {
			closed = append(closed, f)
		}
	}
	fam, on := "", "true"
	if len(closed) > 0 && rapid.IntRange(0, 3).Draw(t, "macroClosed") != 0 {
		f := rapid.SampledFrom(closed).Draw(t, "macroFam")
		fam = famMacroName[f]
		use = rapid.SampledFrom(famUses[f]).Draw(t, "macroUse")
	} else {
		fam = rapid.SampledFrom(macroFamilies).Draw(t, "macroFamAny")
		on = rapid.SampledFrom([]string{"true", "false"}).Draw(t, "macroOn")
		use = rapid.SampledFrom(macroUses).Draw(t, "macroUseAny")
	}
	switch rapid.IntRange(0, 11).Draw(t, "macroForm") {
	case 0:
		return "//#EnableDice " + fam + " " + on + "\n", use
	case 1:
		return "//  #EnableDice  " + fam + "  " + on + " trailing words\n", use
	case 2:
		return "// #EnableDice" + strings.ToUpper(fam[:1]) + fam[1:] + " " + on + "\n", use // the GUIDE's spelling: a plain comment
	case 3:
		return "// #EnableDice " + fam + " " + on + "\r\n", use
	}
	return "// #EnableDice " + fam + " " + on + "\n", use
}

// drawMacroSource places one or more macros somewhere in a text that then uses the families.
func drawMacroSource(t *rapid.T, cfg vmx.Cfg) string {
	m, use := drawMacro(t, cfg)
	switch rapid.IntRange(0, 13).Draw(t, "macroPlace") {
	case 0, 1, 2:
		return m + use
	case 3:
		m2, use2 := drawMacro(t, cfg)
		return m + m2 + use + "; " + use2
	case 4:
		return "x = 1\n" + m + use
	case 5:
		return "func g() {\n" + m + use + "\n}; g(); " + use
	case 6:
		return "func h(n) { " + use + " }\n" + m + "h(1)"
	case 7:
		return "`{%\n" + m + use + "\n%}`; " + use
	case 8:
		return "if 1 {\n" + m + use + "\n}; " + use
	case 9:
		return "&c = " + use + "\n" + m + "c"
	case 10:
		return use + "\n" + m + use + "\n" + strings.Replace(m, "true", "false", 1) + use
	case 11:
		return m + use + " trailing text " + use
	case 12:
		// the macro sits in a template (or dict, or call) that breaks off: it is given back with the rest text
		return use + rapid.SampledFrom([]string{" + `{% ", "; `{% ", " + `a{ ", "\n`{%\n", " + f1(`{% "}).Draw(t, "brokenOpen") + strings.TrimSuffix(m, "\n") + "\n1 %}"
	default:
		return m + "func g() { " + use + " }\n&c = " + use + "\nx = [" + use + "]\ng() + c"
	}
}

func drawStep(t *rapid.T, s *rt.Section, cfg vmx.Cfg) Step {
	st := Step{Call: rapid.SampledFrom([]string{"Run", "Run", "Run", "Run", "Parse", "RunExpr"}).Draw(t, "call")}
	switch rapid.IntRange(0, 9).Draw(t, "stepKind") {
	case 0, 1, 2, 3:
		st.Src = drawMacroSource(t, cfg)
	case 4, 5:
		f := rapid.SampledFrom([]string{"wod", "coc", "fate", "dc"}).Draw(t, "plainFam")
		st.Src = rapid.SampledFrom(append(append([]string{}, famUses[f]...), macroUses...)).Draw(t, "plainUse")
	case 6:
		st.Src, _ = drawSpellCase(t, s, cfg)
	case 7:
		st.Src = rapid.SampledFrom(fixedProgs).Draw(t, "fixed")
	default:
		st.Src, _ = drawSource(t, s, cfg)
	}
	if st.Call == "RunExpr" {
		st.Flag = rapid.Bool().Draw(t, "useUpCtxLocal")
	}
	return st
}

// ---------------------------------------------------------------------------
// section lazy: bodies that are compiled at call time

type LazyCase struct {
	Cfg  vmx.Cfg `json:"cfg"`
	Body string  `json:"body"`
	How  string  `json:"how"` // func-json | func-raw | computed-json | computed-new | runexpr | defside
	// MacroCall: the script that makes the first call opens every family the configuration keeps closed with
	// `// #EnableDice <family> true` lines of its own: a macro is for its input, not for a body compiled while it runs
	MacroCall bool `json:"macroCall,omitempty"`
	// FirstFlags: the value is used a first time while the host had these seven switches set (bits as in Step.Flip), then
	// the host writes Cfg's switches and the value is used again: what it runs then was compiled for the switches in force
	FirstFlags *int `json:"firstFlags,omitempty"`
}

func macroFor(c vmx.Cfg, on bool) string {
	var sb strings.Builder
	for _, f := range []struct {
		name string
		open bool
	}{{"wod", c.WoD}, {"coc", c.CoC}, {"fate", c.Fate}, {"doublecross", c.DC}} {
		if !f.open {
			sb.WriteString("// #EnableDice " + f.name + " true\n")
		}
	}
	if !on {
		return ""
	}
	return sb.String()
}

func sortedBytes(s string) string {
	b := []byte(s)
	sort.Slice(b, func(i, j int) bool { return b[i] < b[j] })
	return string(b)
}

func isBudgetErr(e error) bool {
	return e != nil && (strings.Contains(e.Error(), "算力") || strings.Contains(e.Error(), "budget"))
}

// checkLazy installs body as a value without compiled code, has the VM evaluate it, then inspects the code the VM compiled.
func checkLazy(c LazyCase, s *rt.Section) (f *rt.Failure, compiled bool, gated []gateHit) {
	if hasMacro(c.Body) {
		s.Discard("macro-in-body")
		return nil, false, nil
	}
	vm := c.Cfg.NewVM()
	if c.FirstFlags != nil && (c.How == "runexpr" || c.How == "defside") {
		c.FirstFlags = nil // those bodies are not kept between uses
	}
	if c.FirstFlags != nil {
		withFlags(c.Cfg, *c.FirstFlags).Apply(vm)
	}
	before := snapCfg(vm)
	var val *ds.VMValue
	var err error
	// secondUse: the host changes the switches to Cfg's and uses the value again
	secondUse := func(src string) *rt.PanicInfo {
		if c.FirstFlags == nil {
			return nil
		}
		c.Cfg.Apply(vm)
		before = snapCfg(vm)
		pi, _ := guarded(func() { _ = vm.Run(src) })
		return pi
	}
	fail := func(pi *rt.PanicInfo, where string) *rt.Failure {
		return s.NewFailure("no-panic", pi.Sig(), c, where+" panics: "+pi.Value+"\n"+pi.Stack, "a value or an error")
	}
	viaJSON := func(v *ds.VMValue) (*ds.VMValue, error) {
		b, e := v.ToJSON()
		if e != nil {
			return nil, e
		}
		return ds.VMValueFromJSON(b)
	}
	switch c.How {
	case "func-json", "func-raw":
		val = ds.NewFunctionValRaw(&ds.FunctionData{Expr: c.Body, Name: "g", Params: []string{}})
		if c.How == "func-json" {
			if val, err = viaJSON(val); err != nil {
				s.Discard("json-encode")
				return nil, false, nil
			}
		}
		vm.Attrs.Store("g", val)
		if pi, _ := guarded(func() { _ = vm.Run(macroFor(c.Cfg, c.MacroCall) + "g()") }); pi != nil {
			return fail(pi, "calling the restored function"), false, nil
		}
		if pi := secondUse("g()"); pi != nil {
			return fail(pi, "calling the restored function again after the switches changed"), false, nil
		}
	case "computed-json", "computed-new":
		val = ds.NewComputedVal(c.Body)
		if c.How == "computed-json" {
			if val, err = viaJSON(val); err != nil {
				s.Discard("json-encode")
				return nil, false, nil
			}
		}
		vm.Attrs.Store("g", val)
		if pi, _ := guarded(func() { _ = vm.Run(macroFor(c.Cfg, c.MacroCall) + "g") }); pi != nil {
			return fail(pi, "loading the restored computed value"), false, nil
		}
		if pi := secondUse("g"); pi != nil {
			return fail(pi, "loading the restored computed value again after the switches changed"), false, nil
		}
	case "runexpr", "defside":
		// the body compiled inside RunExpr / for DefaultDiceSideExpr is not reachable from outside; the same
		// text is evaluated as an inspectable function value on a twin VM (same configuration, same seed) and
		// value, error-ness and generator state must agree: then what was inspected is what ran
		val = ds.NewFunctionValRaw(&ds.FunctionData{Expr: c.Body, Name: "", Params: nil})
		twin := c.Cfg
		var a, b *ds.VMValue
		var ea, eb error
		var pa, pb *rt.PanicInfo
		var ca, cb bool
		var vmA *ds.Context
		if c.How == "runexpr" {
			vmA = c.Cfg.NewVM()
			pa, ca = guarded(func() { a, ea = vmA.RunExpr(c.Body, false) })
			pb, cb = guarded(func() { b = val.FuncInvokeRaw(vm, nil, false); eb = vm.Error })
		} else {
			if c.Cfg.NoNDice || c.Body == "" {
				// a side-less d is an identifier under DisableNDice; an empty DefaultDiceSideExpr means "100 sides", not "evaluate the empty text"
				s.Discard("defside-not-applicable")
				return nil, false, nil
			}
			withSide := twin
			withSide.DefSide = c.Body
			vmA = withSide.NewVM()
			beforeA := snapCfg(vmA)
			pa, ca = guarded(func() { ea = vmA.Run("d"); a = vmA.Ret })
			if d := beforeA.diff(snapCfg(vmA)); d != "" && pa == nil {
				return s.NewFailure("config-unchanged", "config:"+firstField(d), c, "Config changed by Run(\"d\") with DefaultDiceSideExpr: "+d, "unchanged"), false, nil
			}
			vm.Attrs.Store("zz_twin_fn", val) // a name no generated body reads
			pb, cb = guarded(func() { eb = vm.Run("1d(zz_twin_fn())"); b = vm.Ret })
			if ea != nil {
				a = nil
			}
			if eb != nil {
				b = nil
			}
		}
		if pa != nil {
			return fail(pa, c.How), false, nil
		}
		if pb != nil {
			return fail(pb, c.How+" twin"), false, nil
		}
		if ca || cb || isBudgetErr(ea) || isBudgetErr(eb) {
			s.Discard("budget")
			return nil, false, nil
		}
		ra, rb := "<error>", "<error>"
		if ea == nil {
			ra = vmx.Repr(a)
		}
		if eb == nil {
			rb = vmx.Repr(b)
		}
		if ra != rb || vmx.SeedHex(vmA) != vmx.SeedHex(vm) {
			return s.NewFailure("twin-agrees", "lazy:twin-differs:"+c.How, c,
				fmt.Sprintf("%s gives %s (err %v, generator %s); the same text as an inspectable function value gives %s (err %v, generator %s)", c.How, ra, ea, vmx.SeedHex(vmA), rb, eb, vmx.SeedHex(vm)),
				"same value, error-ness and generator state"), false, nil
		}
	default:
		return s.NewFailure("replay", "replay:bad-how", c, c.How, ""), false, nil
	}
	if d := before.diff(snapCfg(vm)); d != "" {
		return s.NewFailure("config-unchanged", "config:"+firstField(d), c, "Context.Config changed: "+d, "Config after == Config before"), false, nil
	}
	code, has := ds.VerifBodyCode(val)
	if !has {
		return nil, false, nil
	}
	gated = gatedOps(code, c.How)
	if h := closedGateHit(code, c.How, c.Cfg); h != nil {
		return gateFailure(s, c, c.Cfg, h, code, "body compiled at call time ("+c.How+")"), true, gated
	}
	if c.FirstFlags != nil {
		// what the first use defined while other switches were in force (a function, say) stays what it was defined as
		return nil, true, gated
	}
	if h, hc := stateBodiesHit(vm, c.Cfg); h != nil {
		return gateFailure(s, c, c.Cfg, h, hc, "value left by the evaluation"), true, gated
	}
	return nil, true, gated
}

// ---------------------------------------------------------------------------
// section enum: every short string over the family alphabet, under all 16 family settings

func enumStrings(alpha []string, maxLen int, fn func(s string)) {
	idx := make([]int, maxLen)
	for l := 1; l <= maxLen; l++ {
		for i := 0; i < l; i++ {
			idx[i] = 0
		}
		for {
			var sb strings.Builder
			for i := 0; i < l; i++ {
				sb.WriteString(alpha[idx[i]])
			}
			fn(sb.String())
			p := l - 1
			for p >= 0 {
				idx[p]++
				if idx[p] < len(alpha) {
					break
				}
				idx[p] = 0
				p--
			}
			if p < 0 {
				break
			}
		}
	}
}

type EnumCase struct {
	Cfg vmx.Cfg `json:"cfg"`
	Src string  `json:"src"`
}

func checkEnumCase(c EnumCase, s *rt.Section) (*rt.Failure, bool, int) {
	vm := c.Cfg.NewVM()
	o := parseAndRun(vm, c.Src, false)
	if o.pi != nil {
		return s.NewFailure("no-panic", o.pi.Sig(), c, "panic: "+o.pi.Value+"\n"+o.pi.Stack, "a value or an error"), false, 0
	}
	if !o.accepted {
		return nil, false, 0
	}
	if h := closedGateHit(o.code, "main", c.Cfg); h != nil {
		return gateFailure(s, c, c.Cfg, h, o.code, "compiled program"), true, o.offset
	}
	return nil, true, o.offset
}

func allFamilyCfgs(extra int) []vmx.Cfg {
	var out []vmx.Cfg
	for m := 0; m < 16; m++ {
		c := vmx.Cfg{CoC: m&1 != 0, WoD: m&2 != 0, Fate: m&4 != 0, DC: m&8 != 0, OpLimit: 30000, SeedHex: fixedSeed}
		// the three Disable* switches ride along: every combination appears across the 16 settings
		x := (m + extra) % 8
		c.NoStmts, c.NoNDice, c.NoBitwise = x&1 != 0, x&2 != 0, x&4 != 0
		out = append(out, c)
	}
	return out
}

// runEnum returns false when a failure was reported (the enumeration stops there).
func runEnum(s *rt.Section, run *rt.Run, alpha []string, maxLen int, wrappers []string) bool {
	n := int64(0)
	evals := int64(0)
	stop := false
	enumStrings(alpha, maxLen, func(str string) {
		if stop {
			return
		}
		n++
		if int(n%int64(run.Env.NShards)) != run.Env.Shard {
			return
		}
		for wi, w := range wrappers {
			src := strings.Replace(w, "%s", str, 1)
			for _, cfg := range allFamilyCfgs(int(n) + wi) {
				evals++
				c := EnumCase{cfg, src}
				f, accepted, off := checkEnumCase(c, s)
				if accepted {
					s.ClassN("accepted", 1)
					if tp := tempts(src, off, cfg); len(tp) > 0 {
						s.NonTrivial(rt.Hash(src, cfgKey(cfg)))
						if evals%50021 == 1 {
							s.Sample(rt.Hash(src, cfgKey(cfg)), c)
						}
					}
				}
				if f != nil && s.Report(nil, f) {
					stop = true
					return
				}
			}
		}
	})
	s.EvalN(evals)
	return !stop
}

// ---------------------------------------------------------------------------

func clip(s string, n int) string {
	if len(s) > n {
		return s[:n] + "…"
	}
	return s
}

func classifyCase(s *rt.Section, c Case, info caseInfo) {
	if !info.accepted {
		s.Class("rejected-by-parser")
		return
	}
	s.Class("accepted")
	if info.macro {
		s.Class("has-macro(listing-oracle-skipped)")
		return
	}
	if info.ran {
		s.Class("ran-ok")
	}
	closedAny := !c.Cfg.CoC || !c.Cfg.WoD || !c.Cfg.Fate || !c.Cfg.DC || c.Cfg.NoStmts || c.Cfg.NoNDice || c.Cfg.NoBitwise
	if !closedAny {
		s.Class("cfg:nothing-closed")
	}
	seen := map[string]bool{}
	for _, h := range info.gated {
		if !seen[h.Gate] {
			seen[h.Gate] = true
			s.Class("uses-open:" + h.Gate)
		}
	}
	tp := tempts(c.Src, info.offset, c.Cfg)
	for _, g := range tp {
		s.Class("tempts-closed:" + g)
	}
	if len(tp) > 0 {
		h := rt.Hash(c.Src, cfgKey(c.Cfg))
		s.NonTrivial(h)
		if len(c.Src) < 120 {
			s.Sample(h, c)
		}
	}
}

func TestProp(t *testing.T) {
	run := rt.Begin(t, "C16")
	defer run.Finish()

	ntRule := "Non-trivial = the parser accepts the input, the input has no #EnableDice macro, and its consumed text spells something for a gate the configuration keeps closed: a letter of a disabled family (a A / b B p P / c C / f F) next to a digit or parenthesis (or standing alone for b p f), a statement keyword under DisableStmts, a side-less d under DisableNDice, a single | or & under DisableBitwiseOp; distinct by source text + the seven flags"

	run.Check("gate", 28000, 350000,
		"generated programs (dice of every family regardless of the flags half of the time), expression-only programs, program + broken tail, fixed snippets (every family in every position, statements, Nd, bitwise, ^st forms), hostile templates, hostile-typed programs, byte mutations, program joined with a spelling; x all 2^4 family settings x DisableStmts x DisableNDice x DisableBitwiseOp; fresh seeded VM, Parse, listing (nested bodies included) checked against the closed gates, then run under the work meter, Config compared field by field, every function/computed body reachable from the variables and the result checked too. "+ntRule,
		func(t *rapid.T, s *rt.Section) {
			c := Case{Cfg: drawCfg(t)}
			c.Src, c.Kind = drawSource(t, s, c.Cfg)
			s.Eval()
			s.Class("src:" + c.Kind)
			s.Crumb(c)
			f, info := checkCase(c, s)
			classifyCase(s, c, info)
			s.Report(t, f)
		})

	run.Check("spell", 32000, 400000,
		"spellings: 1..7 atoms drawn from whole gated terms (2a5, b2, f, 2c5m7, 3d, (1|2), a template hole holding a statement, ... preferring closed gates), family letters (both cases), modifier letters (m k q d kh kl dh dl min max 优势), numbers, parentheses/brackets, identifier characters (ASCII, CJK, $ _ :, the full-width brackets and digit that count as identifier characters), blanks and operators, placed in one of 61 contexts, or (one case in eight) as the values of an ^st list of 1..5 entries in every entry form (= =( &= += +( -= : name-number *2=( 'quoted'=() mixed with integers and gated terms (bare, assignment, list, call, template holes of both kinds and both delimiters, function body, computed definition, every ^st value form, dict, ternary arms, if/while, index/slice, dice operands); same configurations and oracle as gate. "+ntRule,
		func(t *rapid.T, s *rt.Section) {
			c := Case{Cfg: drawCfg(t)}
			var ctx string
			c.Src, ctx = drawSpellCase(t, s, c.Cfg)
			c.Kind = "spell"
			s.Eval()
			s.Class("ctx:" + ctx)
			s.Crumb(c)
			f, info := checkCase(c, s)
			classifyCase(s, c, info)
			s.Report(t, f)
		})

	enumRule := "every string of 1..L atoms over the alphabet, bare and in wrappers, parsed on a fresh VM under each of the 16 family settings (the three Disable* switches cycle through their 8 combinations alongside); listing checked against the closed gates. " + ntRule
	run.Enum("enum", enumRule, func(s *rt.Section) {
		s.Exhaustive = true
		// development runs (VERIF_SCALE < 0.5) enumerate one atom less; the bounds say so
		short := 0
		if run.Env.Scale < 0.5 {
			short = 1
		}
		if !run.Env.Thorough() {
			alpha := []string{"2", "a", "b", "c", "f", "p", "m", "k", "(", ")", "d"}
			s.Bounds = fmt.Sprintf("alphabet %q, all strings of length 1..%d, bare, 16 family settings each", alpha, 4-short)
			runEnum(s, run, alpha, 4-short, []string{"%s"})
			return
		}
		alpha := []string{"2", "a", "b", "c", "f", "p", "m", "k", "(", ")", "d"}
		alphaW := []string{"2", "a", "b", "c", "f", "p", "m", "k", "(", ")", " ", "d"}
		wrappers := []string{"^stx=%s", "`{%s}`"}
		s.Bounds = fmt.Sprintf("alphabet %q: all strings of length 1..%d bare; alphabet %q: all strings of length 1..%d in the wrappers %q; 16 family settings each", alpha, 5-short, alphaW, 4-short, wrappers)
		if runEnum(s, run, alpha, 5-short, []string{"%s"}) {
			runEnum(s, run, alphaW, 4-short, wrappers)
		}
	})

	run.Enum("readexpr", "a custom dice syntax R(<term>) whose stream parser reads the operand with ReadExpr and whose handler evaluates it, under each of the 128 settings of the seven switches, for every gated term (WoD/CoC/Fate/DC terms, default-sides dice, bitwise operators, template holes holding if/func/while): when (<term>) is refused or not consumed on a plain VM of the configuration, R(<term>) is too, and when both evaluate (max mode, same seed) they agree; non-trivial = the term's gate is closed; distinct by (switches, term)",
		func(s *rt.Section) { enumReadExpr(s, run) })

	run.Check("history", 2400, 30000,
		"one VM, 1..5 evaluations (Run / Parse / RunExpr; before one step in four the host writes a new set of the seven switches into the live VM's Config, and half of those steps evaluate the previous text again byte for byte with nothing in between: the switches in force when a text is compiled decide) of texts with `// #EnableDice <family> true|false` macros (spacing variants, unknown family names, the GUIDE's non-macro spelling) placed first, between statements, inside function bodies, template holes, blocks, before computed reads, switched on then off, and of macro-free texts (family uses, calls of functions defined under a macro, spellings, generated programs). After every step: Config equals its initial value field by field; 15 macro-free probes (2a5 a5 2a5k6m9 b2 p f 2c5 2c5m7, if/func/while, 3d d, 1|2 1&2) parsed on the same VM compile to exactly the gated instructions the configuration prescribes (none when the gate is closed); every macro-free step's own listing respects the closed gates; at the end a fresh VM passes the probes too. Non-trivial = at least one step has a macro and a later step (or probe) is macro-free; one case in three has custom dice syntaxes (regular expression E<digits>, stream parser K<digits>) registered on the VM and operands of them written behind the macros of its steps; distinct by configuration + steps",
		func(t *rapid.T, s *rt.Section) {
			c := HistCase{Cfg: drawCfg(t)}
			n := rapid.IntRange(1, 5).Draw(t, "nSteps")
			cur := c.Cfg
			for i := 0; i < n; i++ {
				st := drawStep(t, s, cur)
				if i > 0 && rapid.IntRange(0, 3).Draw(t, "flip") == 0 {
					// the host changes switches on the live VM; half of the time the previous text is evaluated again, byte for byte
					b := rapid.IntRange(0, 127).Draw(t, "flipTo")
					st.Flip = &b
					cur = withFlags(cur, b)
					if rapid.Bool().Draw(t, "sameText") {
						st.Src = c.Steps[i-1].Src
						if rapid.Bool().Draw(t, "sameCall") {
							st.Call, st.Flag = c.Steps[i-1].Call, c.Steps[i-1].Flag
						}
					}
				}
				c.Steps = append(c.Steps, st)
			}
			if rapid.IntRange(0, 2).Draw(t, "histCustom") == 0 {
				// custom dice syntaxes on the VM, used behind the macros of some steps (after the first line and at the end)
				c.Custom = rapid.IntRange(1, 3).Draw(t, "custom")
				ops := []string{}
				if c.Custom&1 != 0 {
					ops = append(ops, "E5")
				}
				if c.Custom&2 != 0 {
					ops = append(ops, "K3")
				}
				for i := range c.Steps {
					if c.Steps[i].Flip != nil && i > 0 && c.Steps[i].Src == c.Steps[i-1].Src {
						continue // the byte-for-byte repeat stays one
					}
					op := rapid.SampledFrom(ops).Draw(t, "customOp")
					switch rapid.IntRange(0, 3).Draw(t, "customWhere") {
					case 0:
						c.Steps[i].Src += "\n" + op + " + 1"
					case 1:
						if nl := strings.IndexByte(c.Steps[i].Src, '\n'); nl >= 0 {
							c.Steps[i].Src = c.Steps[i].Src[:nl+1] + op + "; " + c.Steps[i].Src[nl+1:]
						} else {
							c.Steps[i].Src += "; " + op
						}
					case 2:
						c.Steps[i].Src = op + "; " + c.Steps[i].Src
					}
				}
				s.Class("custom-dice-registered")
			}
			s.Eval()
			s.Crumb(c)
			f, macroSteps, effective := checkHistory(c, s)
			b, _ := json.Marshal(c)
			h := rt.HashBytes(b)
			if macroSteps > 0 {
				s.Class("has-macro-step")
				s.NonTrivial(h)
				if len(b) < 600 {
					s.Sample(h, c)
				}
			}
			if effective > 0 {
				s.Class("macro-opened-a-closed-gate-within-its-input")
			}
			s.Report(t, f)
		})

	run.Check("lazy", 12000, 150000,
		"bodies compiled at call time with the calling VM's configuration: a text (spelling in context, fixed snippet, generated expression or program; all families spelled regardless of the flags) installed as a function restored from JSON, a function value without code, a computed value restored from JSON or made by NewComputedVal, evaluated by a script call/load, then the code the VM compiled into the value is inspected against the closed gates; RunExpr(text) and DefaultDiceSideExpr=text (whose compiled bodies are not reachable) are compared with a twin VM (same configuration and seed) that evaluates the same text as an inspectable function value: value, error-ness and generator state must agree. Config compared field by field. Non-trivial = a body was compiled and its text spells something for a closed gate; distinct by configuration + how + body",
		func(t *rapid.T, s *rt.Section) {
			c := LazyCase{Cfg: drawCfg(t)}
			c.How = rapid.SampledFrom([]string{"func-json", "func-raw", "computed-json", "computed-new", "runexpr", "defside"}).Draw(t, "how")
			c.MacroCall = rapid.IntRange(0, 2).Draw(t, "macroCall") == 0
			if rapid.IntRange(0, 3).Draw(t, "firstFlags") == 0 {
				b := rapid.SampledFrom([]int{15, 15, 0, 127}).Draw(t, "firstFlagsTo")
				if b == 127 {
					b = rapid.IntRange(0, 127).Draw(t, "firstFlagsAny")
				}
				c.FirstFlags = &b
			}
			if c.How == "defside" && c.Cfg.NoNDice {
				c.How = "runexpr" // a side-less d is an identifier under DisableNDice: nothing would be compiled
			}
			switch rapid.IntRange(0, 5).Draw(t, "bodyKind") {
			case 0, 1:
				c.Body, _ = drawSpellCase(t, s, c.Cfg)
			case 2:
				c.Body = rapid.SampledFrom(fixedProgs).Draw(t, "fixed")
			case 3:
				c.Body = drawSpell(t, c.Cfg)
			default:
				c.Body, _ = drawSource(t, s, c.Cfg)
			}
			if hasMacro(c.Body) {
				c.Body = strings.ReplaceAll(c.Body, "#EnableDice", "#enable")
			}
			s.Eval()
			s.Class("how:" + c.How)
			s.Crumb(c)
			f, compiled, gated := checkLazy(c, s)
			if compiled {
				s.Class("body-compiled")
				seen := map[string]bool{}
				for _, h := range gated {
					if !seen[h.Gate] {
						seen[h.Gate] = true
						s.Class("uses-open:" + h.Gate)
					}
				}
				if tp := tempts(c.Body, len(c.Body), c.Cfg); len(tp) > 0 {
					h := rt.Hash(c.Body, c.How, cfgKey(c.Cfg))
					s.NonTrivial(h)
					if len(c.Body) < 100 {
						s.Sample(h, c)
					}
				}
			} else if f == nil {
				s.Class("no-inspectable-body(parse-error-or-twin-only)")
				if c.How == "runexpr" || c.How == "defside" {
					if tp := tempts(c.Body, len(c.Body), c.Cfg); len(tp) > 0 {
						s.NonTrivial(rt.Hash(c.Body, c.How, cfgKey(c.Cfg)))
					}
				}
			}
			s.Report(t, f)
		})
}

func TestReplay(t *testing.T) {
	one := func(b []byte, s *rt.Section) *rt.Failure {
		var c Case
		if err := json.Unmarshal(b, &c); err != nil {
			return s.NewFailure("replay", "replay:bad-case", nil, err.Error(), "")
		}
		f, _ := checkCase(c, s)
		return f
	}
	rt.Replay(t, "C16", map[string]rt.ReplayFunc{
		"gate": one, "spell": one,
		"enum": func(b []byte, s *rt.Section) *rt.Failure {
			var c EnumCase
			if err := json.Unmarshal(b, &c); err != nil {
				return s.NewFailure("replay", "replay:bad-case", nil, err.Error(), "")
			}
			f, _, _ := checkEnumCase(c, s)
			return f
		},
		"readexpr": func(b []byte, s *rt.Section) *rt.Failure {
			var c RXCase
			if err := json.Unmarshal(b, &c); err != nil {
				return s.NewFailure("replay", "replay:bad-case", nil, err.Error(), "")
			}
			return checkReadExpr(c, s)
		},
		"history": func(b []byte, s *rt.Section) *rt.Failure {
			var c HistCase
			if err := json.Unmarshal(b, &c); err != nil {
				return s.NewFailure("replay", "replay:bad-case", nil, err.Error(), "")
			}
			f, _, _ := checkHistory(c, s)
			return f
		},
		"lazy": func(b []byte, s *rt.Section) *rt.Failure {
			var c LazyCase
			if err := json.Unmarshal(b, &c); err != nil {
				return s.NewFailure("replay", "replay:bad-case", nil, err.Error(), "")
			}
			f, _, _ := checkLazy(c, s)
			return f
		},
	})
}
