package c16

import (
	"fmt"
	"os"
	"strings"
	"testing"

	ds "github.com/sealdice/dicescript"
)

func dump(code []ds.VerifOp, ind string) string {
	var sb strings.Builder
	for i, c := range code {
		switch a := c.Arg.(type) {
		case *ds.VMValue:
			fmt.Fprintf(&sb, "%s%d:%s <v>\n", ind, i, c.Op)
			if sub, ok := ds.VerifBodyCode(a); ok {
				sb.WriteString(dump(sub, ind+"   "))
			}
		default:
			fmt.Fprintf(&sb, "%s%d:%s %v\n", ind, i, c.Op, a)
		}
	}
	return sb.String()
}

func TestExplore(t *testing.T) {
	src := os.Getenv("X_SRC")
	if src == "" {
		t.Skip()
	}
	src = strings.ReplaceAll(src, `\n`, "\n")
	vm := ds.NewVM()
	fl := os.Getenv("X_FLAGS")
	vm.Config.EnableDiceCoC = strings.Contains(fl, "coc")
	vm.Config.EnableDiceWoD = strings.Contains(fl, "wod")
	vm.Config.EnableDiceFate = strings.Contains(fl, "fate")
	vm.Config.EnableDiceDoubleCross = strings.Contains(fl, "dc")
	vm.Config.DisableStmts = strings.Contains(fl, "nostmt")
	vm.Config.DisableNDice = strings.Contains(fl, "nondice")
	vm.Config.DisableBitwiseOp = strings.Contains(fl, "nobit")
	vm.Config.OpCountLimit = 30000
	err := vm.Parse(src)
	fmt.Printf("parse err=%v\n%s", err, dump(vm.VerifCode(), ""))
	if err == nil {
		err = vm.RunAfterParsed()
		fmt.Printf("run err=%v ret=%v matched=%q rest=%q\n", err, vm.Ret, vm.Matched, vm.RestInput)
	}
}
