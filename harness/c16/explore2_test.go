package c16

import (
	"fmt"
	"testing"

	ds "github.com/sealdice/dicescript"
)

func TestExploreToggle(t *testing.T) {
	vm := ds.NewVM()
	vm.Config.EnableDiceCoC = true
	vm.Config.DiceMinMode = true
	vm.Config.DefaultDiceSideExpr = "b2 + 20"
	err := vm.Run("d")
	fmt.Println("coc on :", err, vm.Ret.ToString(), vm.GetDetailText())
	vm.Config.EnableDiceCoC = false
	err = vm.Run("d")
	fmt.Println("coc off, same VM:", err, vm.Ret, vm.GetDetailText())
	vm2 := ds.NewVM()
	vm2.Config.DiceMinMode = true
	vm2.Config.DefaultDiceSideExpr = "b2 + 20"
	err = vm2.Run("d")
	fmt.Println("coc off, fresh VM:", err, vm2.Ret)

	// user function compiled under a macro, called later
	vm3 := ds.NewVM()
	err = vm3.Run("// #EnableDice coc true\nfunc g() { b2 }")
	fmt.Println(err)
	err = vm3.Run("g()")
	fmt.Println("later macro-free g():", err, vm3.Ret.ToString())
}
