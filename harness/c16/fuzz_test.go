package c16

import (
	"testing"

	"verif/harness/rt"
	"verif/harness/vmx"
)

// FuzzC16 (thorough tier): coverage-guided search over raw source bytes with the listing oracle of the gate section.
// The first byte selects the configuration (four family flags, three Disable* switches); the rest is the input text.
func FuzzC16(f *testing.F) {
	for i, p := range fixedProgs {
		f.Add(append([]byte{byte(i * 37)}, p...))
		f.Add(append([]byte{0x70}, p...)) // everything closed
	}
	for _, terms := range temptTerms {
		for _, tm := range terms {
			f.Add(append([]byte{0x70}, "^sta=1 b=("+tm+")"...))
			f.Add(append([]byte{0x10}, "x = "+tm+"; `{"+tm+"}`"...))
		}
	}
	_, s := rt.FuzzRun("C16", "gate")
	f.Fuzz(func(t *testing.T, data []byte) {
		if len(data) < 2 || len(data) > 300 {
			return
		}
		b := data[0]
		c := Case{Src: string(data[1:]), Kind: "fuzz", Cfg: vmx.Cfg{CoC: b&1 != 0, WoD: b&2 != 0, Fate: b&4 != 0, DC: b&8 != 0,
			NoStmts: b&16 != 0, NoNDice: b&32 != 0, NoBitwise: b&64 != 0, OpLimit: 30000, SeedHex: fixedSeed}}
		if fl, _ := checkCase(c, s); fl != nil && s.FuzzReport(fl) {
			t.Fatalf("C16 %s\nobserved: %s\nexpected: %s\ncase: %s", fl.Signature, fl.Observed, fl.Expected, fl.Case)
		}
	})
}
