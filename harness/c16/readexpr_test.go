package c16

import (
	"fmt"

	ds "github.com/sealdice/dicescript"

	"verif/harness/rt"
	"verif/harness/vmx"
)

// Section readexpr: a host-registered custom dice syntax R<operand> whose stream parser reads the operand with
// ReadExpr and whose handler evaluates it. The operand is script text like any other: what the VM's switches keep
// closed stays closed inside it.

type RXCase struct {
	Cfg  vmx.Cfg `json:"cfg"`
	Term string  `json:"term"`
	Gate string  `json:"gate"`
}

func withR(vm *ds.Context) {
	_ = vm.RegCustomDiceParser(func(ctx *ds.Context, st *ds.CustomDiceStream) (*ds.CustomDiceParseResult, error) {
		if r, ok := st.Read(); !ok || r != 'R' {
			return &ds.CustomDiceParseResult{Matched: false}, nil
		}
		v, ok, err := st.ReadExpr("")
		if err != nil || !ok {
			return &ds.CustomDiceParseResult{Matched: false}, nil
		}
		return &ds.CustomDiceParseResult{Matched: true, Payload: v}, nil
	}, func(ctx *ds.Context, groups []string, payload any) (*ds.VMValue, string, error) {
		v, _ := payload.(*ds.VMValue)
		if v == nil {
			return ds.NewNullVal(), "", nil
		}
		if v.TypeId == ds.VMTypeComputedValue {
			r := v.ComputedExecute(ctx, nil)
			if ctx.Error != nil {
				return nil, "", ctx.Error
			}
			return r, "", nil
		}
		return v, "", nil
	})
}

func checkReadExpr(c RXCase, s *rt.Section) *rt.Failure {
	run := func(custom bool, src string) (string, bool, *rt.PanicInfo) {
		vm := c.Cfg.NewVM()
		if custom {
			withR(vm)
		}
		var err error
		pi, _ := guarded(func() { err = vm.Run(src) })
		if pi != nil {
			return "", false, pi
		}
		if err != nil || vm.RestInput != "" {
			return "", true, nil // rejected, or not consumed as one operand
		}
		return vmx.Repr(vm.Ret), false, nil
	}
	want, wantErr, pi := run(false, "("+c.Term+")")
	if pi != nil {
		s.Discard("plain-vm-panics")
		return nil
	}
	got, gotErr, pi := run(true, "R("+c.Term+")")
	if pi != nil {
		return s.NewFailure("no-panic", pi.Sig(), c, "R("+c.Term+") panics: "+pi.Value, "a value or an error")
	}
	if wantErr && !gotErr {
		return s.NewFailure("closed-in-operand", "readexpr:accepted/"+c.Gate, c,
			fmt.Sprintf("R(%s) under %s evaluates to %s", c.Term, cfgFlags(c.Cfg), got),
			fmt.Sprintf("refused, as (%s) is on a VM of the same configuration", c.Term))
	}
	if !wantErr && !gotErr && got != want {
		return s.NewFailure("closed-in-operand", "readexpr:value/"+c.Gate, c,
			fmt.Sprintf("R(%s) under %s evaluates to %s", c.Term, cfgFlags(c.Cfg), got), "as the plain text: "+want)
	}
	return nil
}

func enumReadExpr(s *rt.Section, run *rt.Run) {
	s.Exhaustive = true
	n := 0
	idx := 0
	for b := 0; b < 128; b++ {
		cfg := withFlags(vmx.Cfg{OpLimit: 30000, SeedHex: fixedSeed, Mode: "max"}, b)
		for _, gate := range allGates {
			for _, term := range temptTerms[gate] {
				idx++
				if idx%run.Env.NShards != run.Env.Shard {
					continue
				}
				n++
				c := RXCase{Cfg: cfg, Term: term, Gate: gate}
				s.Eval()
				if !gateOpen(cfg, gate) {
					s.NonTrivial(rt.Hash(fmt.Sprint(b), term))
				}
				if s.Report(nil, checkReadExpr(c, s)) {
					return
				}
			}
		}
	}
	s.Bounds = "128 settings of the seven switches x every gated term of the seven gates, as operand of a custom syntax read with ReadExpr"
}
