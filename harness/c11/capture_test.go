package c11

import (
	"os"
	"regexp"
	"sort"
	"strings"
	"syscall"
)

// stderrCapture points file descriptor 2 at a file, so that the reports the race
// detector writes while a plan runs can be read back and attributed to that plan
// (the plan becomes a replay file instead of an anonymous line in the shard log).
type stderrCapture struct {
	saved int
	f     *os.File
	off   int64
	path  string
}

func startCapture(path string) *stderrCapture {
	f, err := os.OpenFile(path, os.O_CREATE|os.O_TRUNC|os.O_RDWR, 0o644)
	if err != nil {
		return nil
	}
	saved, err := syscall.Dup(2)
	if err != nil {
		f.Close()
		return nil
	}
	if err := syscall.Dup2(int(f.Fd()), 2); err != nil {
		syscall.Close(saved)
		f.Close()
		return nil
	}
	return &stderrCapture{saved: saved, f: f, path: path}
}

// read returns what was written to stderr since the last call.
func (c *stderrCapture) read() string {
	if c == nil {
		return ""
	}
	b, err := os.ReadFile(c.path)
	if err != nil || int64(len(b)) <= c.off {
		return ""
	}
	out := string(b[c.off:])
	c.off = int64(len(b))
	return out
}

// passThrough writes text to the real stderr.
func (c *stderrCapture) passThrough(text string) {
	if c == nil || text == "" {
		return
	}
	_, _ = syscall.Write(c.saved, []byte(text))
}

func (c *stderrCapture) stop() {
	if c == nil {
		return
	}
	rest := c.read()
	_ = syscall.Dup2(c.saved, 2)
	_ = syscall.Close(c.saved)
	c.f.Close()
	_ = os.Remove(c.path)
	if rest != "" {
		_, _ = os.Stderr.WriteString(rest)
	}
}

// The same key the driver derives from a race report (check: race_signatures):
// the first dicescript function of each of the two access stacks, sorted.
var raceFn = regexp.MustCompile(`github\.com/sealdice/dicescript\.([^\s(]+(?:\([^)]*\))?[^\s(]*)\(`)
var blankLine = regexp.MustCompile(`\n\s*\n`)

func raceSignatures(out string) (sigs []string, blocks []string) {
	parts := strings.Split(out, "WARNING: DATA RACE")
	for _, blk := range parts[1:] {
		blk = strings.SplitN(blk, "==================", 2)[0]
		ps := blankLine.Split(blk, -1)
		var fns []string
		for i := 0; i < 2; i++ {
			fn := "?"
			if i < len(ps) {
				if m := raceFn.FindStringSubmatch(ps[i]); m != nil {
					fn = m[1]
				}
			}
			fns = append(fns, fn)
		}
		sort.Strings(fns)
		sig := "race:" + strings.Join(fns, "|")
		dup := false
		for _, x := range sigs {
			if x == sig {
				dup = true
			}
		}
		if !dup {
			sigs = append(sigs, sig)
			blocks = append(blocks, "WARNING: DATA RACE"+blk)
		}
	}
	return
}
