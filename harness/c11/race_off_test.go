//go:build !race

package c11

const raceEnabled = false
