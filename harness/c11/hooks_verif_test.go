//go:build verif

package c11

import ds "github.com/sealdice/dicescript"

// The work meter and the per-instruction yield hook exist only under build tag
// verif.  The race binary is built WITHOUT the tag: the meter is one shared atomic
// counter bumped at every VM instruction, the race detector treats atomics as
// synchronisation, and that orders all goroutines with each other and hides
// nearly every race between VMs (measured: the known randSource race is reported
// in 0 of 30 two-goroutine runs with the tag, 29 of 30 without).
const hooksOn = true

func meterReset(ceiling int64) { ds.VerifMeterReset(ceiling) }

func setYield(fn func()) { ds.VerifSetYield(fn) }

func isCeilingHit(raw any) bool {
	_, ok := raw.(ds.VerifCeilingHit)
	return ok
}
