//go:build race

package c11

// raceEnabled: this binary was built with the Go race detector.
const raceEnabled = true
