//go:build !verif

package c11

const hooksOn = false

func meterReset(ceiling int64) {}

func setYield(fn func()) {}

func isCeilingHit(raw any) bool { return false }
