// C11 — independent VMs are race-free and behave exactly as when run alone.
//
// A plan gives every goroutine its own VM (own seed or none, own error language,
// own flags, optionally own custom dice and hooks) and a list of programs.  Each
// VM history is first run alone, sequentially; then fresh VMs built from the same
// specifications run their histories at the same time.  Oracles: (a) the race
// detector reports nothing (race binary), (b) every evaluation whose value is a
// function of the VM's own state returns exactly what it returned alone: parse
// verdict, error text, value, Matched/RestInput, process text, variables,
// operation count, generator state, hook log.  Evaluations of an unseeded VM
// after it has drawn from the process-wide generator are held only to what does
// not depend on the draws (parse verdict, parse error text, legal dice range).
package c11

import (
	"encoding/hex"
	"encoding/json"
	"fmt"
	"hash/fnv"
	"os"
	"path/filepath"
	"runtime"
	"strconv"
	"strings"
	"sync"
	"sync/atomic"
	"testing"
	"time"

	ds "github.com/sealdice/dicescript"
	"pgregory.net/rapid"

	"verif/harness/gen"
	"verif/harness/rt"
	"verif/harness/vmx"
)

// ---------------------------------------------------------------------------
// cases

type Step struct {
	Src  string `json:"src"`
	Kind string `json:"kind,omitempty"` // gen | tail | mut | hostile | fixed | dice (informational, except dice)
	Lo   int64  `json:"lo,omitempty"`   // kind dice: the value of src lies in [Lo, Hi] for every roll
	Hi   int64  `json:"hi,omitempty"`
}

type VMSpec struct {
	Cfg     vmx.Cfg `json:"cfg"`
	Hooks   bool    `json:"hooks,omitempty"`   // own custom dice E<n>, global-load func, st callback, store hook
	Tag     int     `json:"tag,omitempty"`     // what this VM's hooks answer with
	SeedObs bool    `json:"seedObs,omitempty"` // GetCurSeed after every evaluation
	Spin    int     `json:"spin,omitempty"`    // busy loop before the first evaluation
	Yields  []int   `json:"yields,omitempty"`  // Gosched before these step indices
	Steps   []Step  `json:"steps"`
	// FromTemplate: the host stamps its VMs out of one configured VM that has already rolled a side-less die: this VM's
	// Config is a copy of that VM's Config (handed over with SetConfig), with its own switches written over it. A copied
	// configuration is plain settings: the VMs still share no values.
	FromTemplate bool `json:"fromTemplate,omitempty"`
}

var (
	templateMu   sync.Mutex
	templateCfgs = map[string]ds.RollConfig{}
)

// templateConfig returns the Config of the process-wide template VM for a default-sides text (built and used once).
func templateConfig(defSide string) ds.RollConfig {
	templateMu.Lock()
	defer templateMu.Unlock()
	if c, ok := templateCfgs[defSide]; ok {
		return c
	}
	vm := ds.NewVM()
	vm.Config.DefaultDiceSideExpr = defSide
	vm.Config.OpCountLimit = 30000
	_ = rt.Guard(func() { _ = vm.Run("d") })
	templateCfgs[defSide] = vm.Config
	return vm.Config
}

type Plan struct {
	VMs []VMSpec `json:"vms"`
	// YieldEvery: with the verif hooks compiled in, every n-th metered point (VM instruction or roll) yields the processor.
	YieldEvery int `json:"yieldEvery,omitempty"`
	// Serial: evaluations that may draw from the process-wide generator take turns (set while finding C11-F01 is open).
	Serial bool `json:"serial,omitempty"`
}

const avoidUnseeded = "unseeded_concurrent_roll"

// reprBudget bounds the harness's own rendering of a value (vmx.ReprN): a DAG such as x=[x,x] built k times is
// cheap for the VM but prints 2^k leaves.
const reprBudget = 20000

// ---------------------------------------------------------------------------
// one evaluation and what is observed of it

type Outcome struct {
	ParseErr bool
	Err      string
	Panic    string
	Ceiling  bool
	Ret      string
	Matched  string
	Rest     string
	Detail   string
	Attrs    uint64
	AttrsLen int
	Seed     string
	Ops      int64
	Log      string
	RetInt   int64
	RetIsInt bool
}

type hookLog struct {
	n int
	h uint64
}

func (l *hookLog) add(parts ...string) {
	h := fnv.New64a()
	var b [8]byte
	for i := 0; i < 8; i++ {
		b[i] = byte(l.h >> (8 * i))
	}
	h.Write(b[:])
	for _, p := range parts {
		h.Write([]byte(p))
		h.Write([]byte{0})
	}
	l.h = h.Sum64()
	l.n++
}

func (l *hookLog) String() string { return fmt.Sprintf("%d:%016x", l.n, l.h) }

func newVM(spec VMSpec, log *hookLog) *ds.Context {
	vm := spec.Cfg.NewVM()
	if spec.FromTemplate && spec.Cfg.DefSide != "" {
		c := templateConfig(spec.Cfg.DefSide)
		vm.SetConfig(&c)
		spec.Cfg.Apply(vm)
	}
	if spec.Hooks {
		tag := spec.Tag
		_ = vm.RegCustomDice(`E(\d+)`, func(ctx *ds.Context, groups []string, _ any) (*ds.VMValue, string, error) {
			if len(groups) < 2 {
				return nil, "", fmt.Errorf("missing capture")
			}
			n, err := strconv.ParseInt(groups[1], 10, 32)
			if err != nil {
				return nil, "", err
			}
			return ds.NewIntVal(ds.IntType(n*2 + int64(tag))), fmt.Sprintf("custom%d:%s", tag, groups[0]), nil
		})
		vm.GlobalValueLoadFunc = func(name string) *ds.VMValue {
			if name == "gtag" {
				return ds.NewIntVal(ds.IntType(tag))
			}
			return nil
		}
		vm.Config.CallbackSt = func(_type string, name string, val *ds.VMValue, extra *ds.VMValue, op string, detail string) {
			ex := ""
			if extra != nil {
				ex = vmx.ReprN(extra, reprBudget)
			}
			log.add("st", _type, name, vmx.ReprN(val, reprBudget), ex, op, detail)
		}
		vm.Config.HookValueStore = func(ctx *ds.Context, name string, v *ds.VMValue) (*ds.VMValue, bool) {
			log.add("store", name, vmx.ReprN(v, reprBudget))
			return nil, false
		}
	}
	return vm
}

// evalStep is Context.Run spelled out (Run is Parse followed by RunAfterParsed), so that the parse verdict is known.
func evalStep(vm *ds.Context, spec *VMSpec, st Step, log *hookLog, seedObs bool) Outcome {
	var o Outcome
	pi := rt.Guard(func() {
		err := vm.Parse(st.Src)
		if err != nil {
			o.ParseErr = true
			o.Err = err.Error()
		} else if err = vm.RunAfterParsed(); err != nil {
			o.Err = err.Error()
		}
		if err == nil {
			o.Ret = vmx.ReprN(vm.Ret, reprBudget)
			if vm.Ret != nil && vm.Ret.TypeId == ds.VMTypeInt {
				i, _ := vm.Ret.ReadInt()
				o.RetInt, o.RetIsInt = int64(i), true
			}
			o.Matched = vm.Matched
			o.Rest = vm.RestInput
			o.Detail = vm.GetDetailText()
		}
		a := vmx.AttrsReprN(vm, reprBudget)
		o.Attrs, o.AttrsLen = rt.Hash(a), len(a)
		o.Ops = int64(vm.NumOpCount)
		if seedObs {
			o.Seed = vmx.SeedHex(vm)
		}
		o.Log = log.String()
	})
	if pi != nil {
		if isCeilingHit(pi.Raw) {
			o.Ceiling = true
		}
		o.Panic = pi.Sig() + " " + pi.Value
	}
	return o
}

// ---------------------------------------------------------------------------
// running a plan

type aloneRun struct {
	out     []Outcome
	tainted []bool // unseeded VM: this evaluation, or an earlier one, drew from the process-wide generator
	rolled  int
}

// runAlone runs one VM history with nothing else running.  For an unseeded VM it
// also notes, by reading the process-wide generator's state before and after,
// which evaluations drew from it.
func runAlone(spec VMSpec) aloneRun { return runAloneP(spec, nil) }

func runAloneP(spec VMSpec, cell *progressCell) aloneRun {
	var log hookLog
	vm := newVM(spec, &log)
	unseeded := spec.Cfg.SeedHex == ""
	ar := aloneRun{out: make([]Outcome, len(spec.Steps)), tainted: make([]bool, len(spec.Steps))}
	taint := false
	for i, st := range spec.Steps {
		before := ""
		if unseeded {
			before = vmx.SeedHex(vm)
		}
		ar.out[i] = evalStep(vm, &spec, st, &log, !unseeded)
		if unseeded && vmx.SeedHex(vm) != before {
			taint = true
			ar.rolled++
		}
		ar.tainted[i] = taint
		if cell != nil {
			cell.n.Add(1)
		}
	}
	return ar
}

// progressCell is written by exactly one worker goroutine and read only by the watchdog, so it orders no
// two workers with each other (a counter shared by the workers would, and would hide races from the detector).
type progressCell struct {
	n atomic.Int64
	_ [56]byte
}

const (
	stallLimit = 90 * time.Second // no evaluation finished anywhere for this long: a VM is spinning or blocked
	heapLimit  = 3 << 30          // bytes of live heap; an ordinary plan stays below a few hundred MB
)

var maxHeapSeen uint64

// guarded runs fn in its own goroutine and watches it: "" when fn returned, "hang" when no progress cell moved for
// stallLimit, "memory" when the heap passed heapLimit.  After a non-empty verdict fn is still running; the caller
// must end the process soon.  (Evaluations are bounded by OpCountLimit on the real code, so neither happens there;
// VMs that corrupt each other can do both.)
func guarded(cells []progressCell, fn func()) string {
	done := make(chan struct{})
	go func() {
		defer close(done)
		fn()
	}()
	tick := time.NewTicker(500 * time.Millisecond)
	defer tick.Stop()
	last := int64(-1)
	lastMove := time.Now()
	var ms runtime.MemStats
	for {
		select {
		case <-done:
			return ""
		case <-tick.C:
			sum := int64(0)
			for i := range cells {
				sum += cells[i].n.Load()
			}
			if sum != last {
				last, lastMove = sum, time.Now()
			} else if time.Since(lastMove) > stallLimit {
				return "hang"
			}
			runtime.ReadMemStats(&ms)
			if ms.HeapAlloc > maxHeapSeen {
				maxHeapSeen = ms.HeapAlloc
			}
			if ms.HeapAlloc > heapLimit {
				return "memory"
			}
		}
	}
}

// runAloneGuarded is runAlone under the watchdog.
func runAloneGuarded(spec VMSpec) (aloneRun, string) {
	cells := make([]progressCell, 1)
	var ar aloneRun
	v := guarded(cells, func() { ar = runAloneP(spec, &cells[0]) })
	return ar, v
}

// fatalExit, when set (TestProp), records a failure after which the process cannot go on (goroutines that never
// return, a heap that keeps growing), writes the shard result and ends the process.
var fatalExit func(f *rt.Failure)

type concRun struct {
	out    []Outcome
	starts []int64
	ends   []int64
	panic_ string
}

var (
	rollMu sync.Mutex // the turn-taking of evaluations that may touch the process-wide generator (Plan.Serial)
	sink   atomic.Int64
	t0     = time.Now()
)

// runConcurrently starts one goroutine per VM behind a common barrier.  Apart from
// the barrier, the final join and (Serial only) rollMu the goroutines do not
// synchronise with each other: any such edge would order their memory accesses
// for the race detector and hide races.  Time stamps are plain clock reads.
func runConcurrently(c Plan, alone []aloneRun, cells []progressCell) []concRun {
	res := make([]concRun, len(c.VMs))
	var wg sync.WaitGroup
	start := make(chan struct{})
	if c.YieldEvery > 0 && hooksOn {
		var ticks atomic.Int64
		every := int64(c.YieldEvery)
		setYield(func() {
			if ticks.Add(1)%every == 0 {
				runtime.Gosched()
			}
		})
		defer setYield(nil)
	}
	for g := range c.VMs {
		wg.Add(1)
		go func(g int) {
			defer wg.Done()
			spec := c.VMs[g]
			r := &res[g]
			defer func() {
				if x := recover(); x != nil {
					r.panic_ = fmt.Sprint(x)
				}
			}()
			n := len(spec.Steps)
			r.out = make([]Outcome, 0, n)
			r.starts = make([]int64, 0, n)
			r.ends = make([]int64, 0, n)
			yield := map[int]bool{}
			for _, y := range spec.Yields {
				yield[y] = true
			}
			unseeded := spec.Cfg.SeedHex == ""
			<-start
			x := int64(0)
			for i := 0; i < spec.Spin*40; i++ {
				x += int64(i)
			}
			sink.Add(x)
			var log hookLog
			vm := newVM(spec, &log)
			for i, st := range spec.Steps {
				if yield[i] {
					runtime.Gosched()
				}
				// an unseeded VM touches the process-wide generator when it rolls (possible from its first
				// drawing evaluation on) and whenever its generator state is read
				touches := unseeded && (alone[g].tainted[i] || spec.SeedObs)
				locked := c.Serial && touches
				if locked {
					rollMu.Lock()
				}
				r.starts = append(r.starts, int64(time.Since(t0)))
				o := evalStep(vm, &spec, st, &log, spec.SeedObs)
				r.ends = append(r.ends, int64(time.Since(t0)))
				if locked {
					rollMu.Unlock()
				}
				r.out = append(r.out, o)
				cells[g].n.Add(1)
			}
		}(g)
	}
	close(start)
	wg.Wait()
	return res
}

// overlapping counts the goroutines that had an evaluation in progress while an
// evaluation of another goroutine was in progress.
func overlapping(res []concRun) int {
	n := 0
	for a := range res {
		found := false
		for b := range res {
			if a == b || found {
				continue
			}
			// both lists are sorted by time: merge
			i, j := 0, 0
			for i < len(res[a].starts) && j < len(res[b].starts) {
				if res[a].ends[i] < res[b].starts[j] {
					i++
				} else if res[b].ends[j] < res[a].starts[i] {
					j++
				} else {
					found = true
					break
				}
			}
		}
		if found {
			n++
		}
	}
	return n
}

// sameModuloDictOrder: error and process texts print dict values through ToString,
// whose entry order is Go map order; two texts that contain a dict rendering and
// are permutations of each other's bytes are taken to be the same text.
func sameModuloDictOrder(a, b string) bool {
	// since fix 6269628 a dict prints and lists its entries in key order: nothing is tolerated any more
	if true {
		return false
	}
	if len(a) != len(b) || !strings.Contains(a, "{'") {
		return false
	}
	var ca, cb [256]int
	for i := 0; i < len(a); i++ {
		ca[a[i]]++
		cb[b[i]]++
	}
	return ca == cb
}

type diff struct {
	field, got, want string
}

// compare returns the first field in which a concurrent evaluation differs from the same evaluation alone.
func compare(got, want Outcome, tainted bool, st Step, seeded bool) *diff {
	b := func(v bool) string { return strconv.FormatBool(v) }
	if got.ParseErr != want.ParseErr {
		return &diff{"parse", "parse error: " + b(got.ParseErr) + " " + got.Err, "parse error: " + b(want.ParseErr) + " " + want.Err}
	}
	if want.ParseErr && got.Err != want.Err {
		return &diff{"parse-error-text", got.Err, want.Err}
	}
	if tainted {
		// the draws differ from run to run; what does not depend on them must still hold
		if got.Panic == "" && want.Panic == "" && got.Err == "" && want.Err == "" {
			if got.Matched != want.Matched || got.Rest != want.Rest {
				return &diff{"matched", fmt.Sprintf("Matched=%q Rest=%q", got.Matched, got.Rest), fmt.Sprintf("Matched=%q Rest=%q", want.Matched, want.Rest)}
			}
		}
		if st.Kind == "dice" && got.Panic == "" && want.Panic == "" && want.Err == "" {
			if got.Err != "" || !got.RetIsInt || got.RetInt < st.Lo || got.RetInt > st.Hi {
				return &diff{"dice-range", fmt.Sprintf("err=%q value=%s", got.Err, got.Ret), fmt.Sprintf("an integer in [%d, %d]", st.Lo, st.Hi)}
			}
		}
		return nil
	}
	type f struct {
		name, a, b string
		text       bool
	}
	fields := []f{
		{"panic", got.Panic, want.Panic, false},
		{"error-text", got.Err, want.Err, true},
		{"value", got.Ret, want.Ret, false},
		{"matched", got.Matched + "\x00" + got.Rest, want.Matched + "\x00" + want.Rest, false},
		{"process-text", got.Detail, want.Detail, true},
		{"variables", fmt.Sprintf("%d bytes, hash %016x", got.AttrsLen, got.Attrs), fmt.Sprintf("%d bytes, hash %016x", want.AttrsLen, want.Attrs), false},
		{"op-count", strconv.FormatInt(got.Ops, 10), strconv.FormatInt(want.Ops, 10), false},
		{"hook-log", got.Log, want.Log, false},
	}
	if seeded {
		fields = append(fields, f{"generator-state", got.Seed, want.Seed, false})
	}
	for _, x := range fields {
		if x.a == x.b {
			continue
		}
		if x.text && sameModuloDictOrder(x.a, x.b) {
			continue
		}
		if x.name == "generator-state" && (x.a == "" || x.b == "") {
			continue // not observed on one side (SeedObs off)
		}
		return &diff{x.name, x.a, x.b}
	}
	return nil
}

type planInfo struct {
	steps         int
	overlap       int
	parseErrs     int
	runErrs       int
	unseededRolls int
	tainted       int
	panics        int
	serialised    bool
	discard       string
}

func clip(s string, n int) string {
	if len(s) > n {
		return s[:n] + "…"
	}
	return s
}

var capture *stderrCapture // non-nil while a section of the race binary runs
var echoRaces bool         // replay: race reports are also passed on to the real stderr, where the driver reads them

func verdictText(v string) string {
	if v == "hang" {
		return fmt.Sprintf("no evaluation finished for %s although every VM has an operation budget", stallLimit)
	}
	return fmt.Sprintf("live heap above %d MB", heapLimit>>20)
}

// stuck builds the failure for a plan that cannot be finished and, in TestProp, ends the process with it.
func stuck(s *rt.Section, c Plan, sig, observed string) *rt.Failure {
	f := s.NewFailure("bounded-evaluation", sig, c, observed, "every evaluation ends within its VM's budget, beside other VMs as when alone")
	if fatalExit != nil {
		fatalExit(f)
	}
	return f
}

// checkPlan is the oracle.  It is a function of the plan and of the schedule the run happened to get.
func checkPlan(c Plan, s *rt.Section) (*rt.Failure, planInfo) { return checkPlanWith(c, s, nil) }

// checkPlanWith: pre[g], when non-nil, is the solitary run of VM g made earlier in this process (the pairs
// section runs the same VM history beside many partners).
func checkPlanWith(c Plan, s *rt.Section, pre []*aloneRun) (*rt.Failure, planInfo) {
	var info planInfo
	alone := make([]aloneRun, len(c.VMs))
	meterReset(400_000_000)
	defer meterReset(0)
	for g, spec := range c.VMs {
		if g < len(pre) && pre[g] != nil {
			alone[g] = *pre[g]
		} else {
			var verdict string
			if alone[g], verdict = runAloneGuarded(spec); verdict != "" {
				return stuck(s, c, "alone:"+verdict, fmt.Sprintf("VM %d run alone: %s", g, verdictText(verdict))), info
			}
		}
		for i, o := range alone[g].out {
			info.steps++
			if o.Ceiling {
				info.discard = "work-ceiling"
				return nil, info
			}
			// the closed form of XdY+K (Y written out or the VM's default sides) also judges the solitary run:
			// what a VM computes alone must not depend on what other VMs of the process did before it
			if st := spec.Steps[i]; st.Kind == "dice" && !spec.Cfg.NoNDice && o.Panic == "" {
				if o.ParseErr || o.Err != "" || !o.RetIsInt || o.RetInt < st.Lo || o.RetInt > st.Hi {
					return s.NewFailure("alone-dice-range", "alone:dice-range", c,
						fmt.Sprintf("VM %d (default sides %q, bitwise off %v, mode %q) alone, step %d %q: err=%q value=%s", g, spec.Cfg.DefSide, spec.Cfg.NoBitwise, spec.Cfg.Mode, i, st.Src, o.Err, o.Ret),
						fmt.Sprintf("an integer in [%d, %d]", st.Lo, st.Hi)), info
				}
			}
			if o.ParseErr {
				info.parseErrs++
			} else if o.Err != "" {
				info.runErrs++
			}
			if o.Panic != "" {
				info.panics++
			}
			if alone[g].tainted[i] {
				info.tainted++
			}
		}
		info.unseededRolls += alone[g].rolled
	}
	if capture != nil {
		capture.passThrough(capture.read()) // nothing of an earlier plan is charged to this one
	}
	cells := make([]progressCell, len(c.VMs))
	var res []concRun
	if verdict := guarded(cells, func() { res = runConcurrently(c, alone, cells) }); verdict != "" {
		done := make([]int64, len(cells))
		for i := range cells {
			done[i] = cells[i].n.Load()
		}
		return stuck(s, c, "conc:"+verdict, fmt.Sprintf("all VMs at once: %s; evaluations finished per VM %v, each history ran to its end alone", verdictText(verdict), done)), info
	}
	info.overlap = overlapping(res)
	raceText := ""
	if capture != nil {
		raceText = capture.read()
	}
	if strings.Contains(raceText, "WARNING: DATA RACE") {
		if echoRaces {
			capture.passThrough(raceText)
		}
		sigs, blocks := raceSignatures(raceText)
		pick := 0
		for i, sg := range sigs {
			if !s.Known(sg) {
				pick = i
				break
			}
		}
		return s.NewFailure("race-detector", sigs[pick], c, clip(blocks[pick], 6000)+fmt.Sprintf("\n(all signatures of this plan: %v)", sigs),
			"no data race between VMs that share no values"), info
	} else if raceText != "" {
		capture.passThrough(raceText)
	}
	for g := range res {
		if res[g].panic_ != "" {
			return s.NewFailure("alone-vs-concurrent", "conc:goroutine-panic", c, res[g].panic_, "no panic outside the guarded evaluation"), info
		}
		for _, o := range res[g].out {
			if o.Ceiling {
				info.discard = "work-ceiling"
				return nil, info
			}
		}
	}
	var alone2 []*aloneRun
	for g, spec := range c.VMs {
		seeded := spec.Cfg.SeedHex != ""
		for i, st := range spec.Steps {
			d := compare(res[g].out[i], alone[g].out[i], alone[g].tainted[i], st, seeded)
			if d == nil {
				continue
			}
			// is "alone" a function at all?  run the history alone once more; if the field already differs
			// between two solitary runs, the difference says nothing about concurrency
			if alone2 == nil {
				alone2 = make([]*aloneRun, len(c.VMs))
			}
			if alone2[g] == nil {
				a, verdict := runAloneGuarded(spec)
				if verdict != "" {
					return stuck(s, c, "alone:"+verdict, fmt.Sprintf("VM %d run alone a second time: %s", g, verdictText(verdict))), info
				}
				alone2[g] = &a
			}
			if d2 := compare(alone2[g].out[i], alone[g].out[i], alone[g].tainted[i], st, seeded); d2 != nil {
				info.discard = "not-deterministic-alone:" + d2.field
				return nil, info
			}
			return s.NewFailure("alone-vs-concurrent", "diff:"+d.field, c,
				fmt.Sprintf("VM %d (language %d, seeded %v) evaluation %d %q run beside %d other VMs: %s = %s", g, spec.Cfg.Lang, seeded, i, clip(st.Src, 300), len(c.VMs)-1, d.field, clip(d.got, 1500)),
				fmt.Sprintf("%s (what the same VM history gives when nothing else runs)", clip(d.want, 1500))), info
		}
	}
	return nil, info
}

// ---------------------------------------------------------------------------
// fixed programs: every built-in, every prototype method, bound methods kept in
// variables, every dice family, templates, functions, computed values, st, the
// per-VM hooks, and rejected inputs of every kind

var catalogue = []string{
	// built-in functions (shared native function objects)
	"ceil(1.5) + floor(2.5) + round(2.5) + abs(0-3)",
	"toInt('12') + toInt(3.7)",
	"toFloat(2) * 1.5",
	"toStr([1,'a',2.5])",
	"toBool([]) ? 1 : 2",
	"repr('a b')",
	"x = 5; load('x') + 1",
	// loads that keep no process text, of computed values
	"&ca = 2d1 + 3; load('ca') + load('ca')",
	"&cb = 4; &cb.k = 1; loadRaw('cb'); cb.k = 6; [this.cb, cb.k, load('cb')]",
	"&cc = 5 * 2; func g2() { this.cc + load('cc') }; g2() + load('cc')",
	"&y = 2d1 + 3; loadRaw('y')",
	"store('z', 7); z * 2",
	"typeId([1]) + typeId('s')",
	"dir([1,2]).len() + dir({}).len()",
	"g = ceil; g(2.2)",
	"h = [floor, round]; h[0](3.9) + h[1](3.5)",
	"toStr(abs)",
	// prototype methods and bound methods
	"[3,1,2].kh(2)",
	"[3,1,2].kl()",
	"[1,2,3].sum()",
	"[1,2,3].len()",
	"x=[1,2,3]; x.push(4); x.pop() + x.shift() + x.len()",
	"[1,2,3,4,5].shuffle()",
	"[1,2,3,4,5].rand()",
	"[1,2,3,4,5].randSize(3)",
	"[4,5,6]kh2",
	"[4,5,6]kl",
	"v = [3,9,1].kh; v(1) + v(2)",
	"x=[1,2]; w = x.push; w(3); x",
	"x = {'k': 1}; x.keys()",
	"x={'k':[1,2]}; x.values()",
	"{'k':3}.items()",
	"{'k':3}.len()",
	"x={}; x.v = 2; x['w'] = 3; x.v + x.w",
	"u = {'k': 1}.keys; u()",
	// computed values, functions, control flow
	"&y1 = 2d1 + (this.q ?? 0); y1",
	"&y2 = 1 + 1; y2.compute()",
	"&y3 = this.q + 1; &y3.q = 4; y3",
	"func g1(n) { n * 2 }; g1(4)",
	"func gib(n) { if n < 2 { return n }; gib(n-1) + gib(n-2) }; gib(9)",
	"i=0; s=0; while i<10 { s = s + i; i = i + 1 }; s",
	"if 1 > 2 { 3 } else if 2 > 1 { 4 } else { 5 }",
	"i = 0; while 1 { i = i + 1 }",
	"func r1(n) { r1(n+1) }; r1(0)",
	// templates and strings
	"`a{1+1}b{% 2*3 %}c`",
	"x = 3; `v={x} {x > 2 ? 'big' : 'small'}`",
	"\x1e{1}+{2}\x1e",
	"'ab' + \"cd\" == 'abcd'",
	"'hello'[1:3]",
	// operators and containers
	"1 + 2 * 3 - 4 / 2 % 3",
	"2 ** 10 + (7 & 3) + (8 | 1)",
	"1.5 + 2 * 3.25",
	"[1,2] + [3] == [1,2,3]",
	"[1,2] * 2",
	"null ?? 5",
	"0 || 3 && 4",
	"[1..5]",
	"[1,2,3,4][1:3]",
	"x=[1,2,3]; x[0] = 9; x[-1] + x[0]",
	"1 < 2 ? 'y', 1 ? 'n'",
	"力量 = 60; 敏捷 = 力量 / 2; 力量 + 敏捷",
	// dice of every family
	"3d6", "d20 + 5", "4d6k3", "2d10kl1", "3d6q1", "4d6dh1", "4d6dl1", "d20优势", "d20劣势", "2d6min3", "2d6max4", "(2d3)d4", "2d6 + 1d4 * 2",
	"f", "b", "b2", "p1", "5a10", "3a8m6k4", "2c8", "3c9m7", "d", "2d",
	// st, custom dice, host-provided global
	"^st力量60敏捷70", "^st 力量+1d1", "^st &手枪=1d6", "^st 智力=80,知识=90",
	"E5 + 1", "gtag + 1",
	// rejected at parse
	"(1+2", "[1,2", "'abc", "1 +", "`{1+}`", "{'a':1", "if", "x = while", "break", "", "   ", "@1", "1 @ 2", "力量 = (", "func g(", "(力量 +\n 敏捷 *", "^st 力量", "&",
	// rejected at run time
	"1/0", "1 % 0", "'a' - 1", "[1][5]", "g9()", "1()", "[1,2].kh('a')", "[].rand()", "x = [1]; x[3] = 1", "[1..600]", "`{1/0}`", "&w1 = w1 + 1; w1", "{}.k.j",
}

// ---------------------------------------------------------------------------
// generators

func drawCfg(t *rapid.T, seeded bool) vmx.Cfg {
	cfg := vmx.DrawCfg(t, seeded)
	cfg.Lang = rapid.IntRange(0, 2).Draw(t, "lang")
	cfg.OpLimit = rapid.SampledFrom([]int{3000, 30000}).Draw(t, "opLimit")
	cfg.ParseLimit = 5_000_000
	switch rapid.IntRange(0, 15).Draw(t, "restrict") {
	case 0:
		cfg.NoStmts = true
	case 1:
		cfg.NoNDice = true
	case 2:
		cfg.NoBitwise = true
	case 3, 4, 5, 6:
		// default sides: the text is compiled lazily; what it compiles to depends on the VM's own flags
		d := rapid.SampledFrom(defSideTable).Draw(t, "defSide")
		cfg.DefSide = d.Text
		cfg.NoBitwise = rapid.Bool().Draw(t, "defSideNoBitwise")
	}
	return cfg
}

// defSideTable: default-sides texts and the number of sides they stand for, with the bitwise operators on and off
// (off: the text ends before the '|'). Closed form, independent of any run of the library.
var defSideTable = []struct {
	Text              string
	Sides, SidesNoBit int64
}{{"20", 20, 20}, {"6", 6, 6}, {"2|8", 10, 2}, {"15|64", 79, 15}, {"4|3", 7, 4}, {"1|2|4", 7, 1}, {"3+4", 7, 7}}

// defSides returns the sides of a bare die on a VM of this configuration (0: none configured).
func defSides(cfg vmx.Cfg) int64 {
	for _, d := range defSideTable {
		if d.Text == cfg.DefSide {
			if cfg.NoBitwise {
				return d.SidesNoBit
			}
			return d.Sides
		}
	}
	return 0
}

// diceStep is x dice + k: with sides > 0 written out as XdY, otherwise as a bare Xd on a VM whose default sides are `def`.
func diceStep(cfg vmx.Cfg, x, y, k int64, bare bool) Step {
	src := fmt.Sprintf("%dd%d + %d", x, y, k)
	if bare {
		y = defSides(cfg)
		src = fmt.Sprintf("%dd + %d", x, k)
		if x == 1 {
			src = fmt.Sprintf("d + %d", k)
		}
	}
	st := Step{Src: src, Kind: "dice", Lo: x + k, Hi: x*y + k}
	switch cfg.Mode {
	case "min":
		st.Hi = st.Lo
	case "max":
		st.Lo = st.Hi
	}
	return st
}

type vmGen struct {
	env      *gen.Env
	o        gen.Opts
	unseeded bool
	cfg      vmx.Cfg
}

// maxSrc: longer sources are replaced (counted): the memoising parser needs hundreds of MB for a 40 KB sum, eight
// such parses at once would look like a runaway heap to the watchdog; long inputs are C07's subject, not C11's.
const maxSrc = 3000

func drawStep(t *rapid.T, s *rt.Section, vg *vmGen) Step {
	st := drawStep1(t, s, vg)
	if len(st.Src) > maxSrc {
		s.Discard("source-longer-than-3000-bytes")
		return Step{Src: rapid.SampledFrom(catalogue).Draw(t, "fixed"), Kind: "fixed"}
	}
	return st
}

func drawStep1(t *rapid.T, s *rt.Section, vg *vmGen) Step {
	g := gen.NewG(t, vg.o, vg.env)
	noisy := func() string {
		z := &gen.Noise{Vals: rapid.SliceOfN(rapid.IntRange(0, 1000), 0, 8).Draw(t, "noise")}
		src, _ := gen.PrintNoisy(g.Program(), z)
		return src
	}
	switch k := rapid.IntRange(0, 19).Draw(t, "stepKind"); {
	case k < 8:
		return Step{Src: noisy(), Kind: "gen"}
	case k < 10:
		tail, _ := g.Tail()
		return Step{Src: noisy() + tail, Kind: "tail"}
	case k < 12:
		return Step{Src: g.MutateBytes(noisy(), 1+rapid.IntRange(0, 2).Draw(t, "nmut")), Kind: "mut"}
	case k < 15:
		for try := 0; try < 5; try++ {
			src, _ := g.Hostile()
			return Step{Src: src, Kind: "hostile"}
		}
		return Step{Src: "1", Kind: "fixed"}
	case k < 16, k < 18 && defSides(vg.cfg) == 0 && !(k == 17 && vg.unseeded):
		return Step{Src: rapid.SampledFrom(catalogue).Draw(t, "fixed"), Kind: "fixed"}
	}
	x := rapid.IntRange(1, 6).Draw(t, "diceX")
	y := rapid.IntRange(1, 20).Draw(t, "diceY")
	kk := rapid.IntRange(0, 9).Draw(t, "diceK")
	bare := defSides(vg.cfg) > 0 && rapid.IntRange(0, 3).Draw(t, "diceBare") != 0
	return diceStep(vg.cfg, int64(x), int64(y), int64(kk), bare)
}

// contention templates: every VM of the plan runs the same program text, over and over, with its own number
// {t} in it, so that all VMs use the same shared object (built-in function, prototype method) at the same moment
// while the right answer differs from VM to VM.
var contentionTemplates = []string{
	"[{t},{t}+1,{t}+2].kh(1)",
	"[{t},{t}+1,{t}+2].kl(2)",
	"x=[{t}]; x.push({t}+1); x.push({t}+2); x.sum() + x.len()",
	"x=[{t},1,2]; x.pop() + x.shift()",
	"{'k': {t}}.values()",
	"{'k{t}': 1}.keys()",
	"{'k': {t}}.items()",
	"v = [{t},900,1].kl; v(1)",
	"w = [7,{t}].push; w({t}); w(1)",
	"&y = {t} + 1; y.compute() + y",
	"&y = this.q + {t}; &y.q = {t}; y",
	"ceil({t}.5) + floor({t}.5) + round({t}.5) + abs(0-{t})",
	"toStr({t}) + repr('{t}') + toStr(toInt('{t}') + toFloat({t}))",
	"q = {t}; load('q') + 1",
	// loads that keep no process text (load, loadRaw, this.name, attribute assignment) of computed values
	"&a = 2d1 + {t}; load('a') + load('a')",
	"&a = {t}; &a.k = 1; loadRaw('a'); a.k = {t}; [this.a, a.k, load('a')]",
	"&c = {t} * 2; func g2() { this.c + load('c') }; g2() + load('c')",
	"store('z{t}', {t}); z{t} * 2",
	"func g1(n) { n * {t} }; g1(3)",
	"`a{ {t} + 1 }b{% {t} * 2 %}`",
	"^st 力量{t} 敏捷:{t}",
	"E{t} + gtag",
	"({t} + 1",
	"[{t}][5]",
	"3d{t} + {t}d6k2",
	"[{t},2,3,4].shuffle()",
	"typeId({t}) + dir([{t}]).len()",
	// what dir() hands out is the caller's own list
	"x = dir([]); x.push({t}); [x.len(), x[x.len()-1], dir([]).len()]",
	"x = dir({'a':1}); x[0] = 'k{t}'; [x[0], dir({'a':2})[0]]",
	"x = dir([{t}]); y = x + [{t}]; x.pop(); [x.len(), y.len(), y[y.len()-1]]",
	"[{t},2,3,4].rand()",
	"[{t},2,3,4].randSize(2)",
	"x=[{t},2,3]; x.shuffle(); x.rand() + [1,2].randSize(1).len()",
	contendBareDice,
	contendBareDice,
}

// contendBareDice: every VM of the plan has the same default-sides text, but its own flags
const contendBareDice = "<bare dice>"

func randTemplate(tpl string) bool {
	return strings.Contains(tpl, "rand") || strings.Contains(tpl, "shuffle")
}

func drawContention(t *rapid.T) Plan {
	c := Plan{}
	tpl := rapid.SampledFrom(contentionTemplates).Draw(t, "contendOn")
	nvm := rapid.SampledFrom([]int{2, 3, 4, 4, 6}).Draw(t, "vms")
	rounds := rapid.IntRange(5, 30).Draw(t, "rounds")
	seededOf10 := 8
	if randTemplate(tpl) {
		seededOf10 = 4 // the methods that draw: mostly VMs that share the process-wide generator
	}
	defText := rapid.SampledFrom(defSideTable).Draw(t, "contendDefSide").Text
	for i := 0; i < nvm; i++ {
		seeded := rapid.IntRange(0, 9).Draw(t, "seeded") < seededOf10
		spec := VMSpec{Cfg: drawCfg(t, seeded), Tag: 3 + 7*i, Hooks: rapid.Bool().Draw(t, "hooks"),
			SeedObs: rapid.Bool().Draw(t, "seedObs"), Spin: rapid.IntRange(0, 10).Draw(t, "spin")}
		spec.Cfg.NoStmts = false
		step := Step{Src: strings.ReplaceAll(tpl, "{t}", strconv.Itoa(spec.Tag)), Kind: "fixed"}
		if tpl == contendBareDice {
			spec.Cfg.DefSide = defText
			spec.Cfg.NoBitwise = rapid.Bool().Draw(t, "contendNoBitwise")
			spec.Cfg.NoNDice = false
			spec.FromTemplate = rapid.Bool().Draw(t, "contendFromTemplate")
			step = diceStep(spec.Cfg, int64(1+i%3), 0, int64(spec.Tag), true)
		}
		for j := 0; j < rounds; j++ {
			spec.Steps = append(spec.Steps, step)
		}
		c.VMs = append(c.VMs, spec)
	}
	if hooksOn {
		c.YieldEvery = rapid.SampledFrom([]int{0, 1, 1, 2, 3, 7}).Draw(t, "yieldEvery")
	}
	return c
}

func drawPlan(t *rapid.T, s *rt.Section, maxSteps int) Plan {
	if rapid.IntRange(0, 3).Draw(t, "contention") == 0 {
		s.Class("plans-contending-on-one-program")
		return drawContention(t)
	}
	c := Plan{}
	nvm := rapid.SampledFrom([]int{2, 2, 2, 3, 3, 4, 4, 5, 6, 8}).Draw(t, "vms")
	forceUnseeded := rapid.IntRange(-1, nvm-1).Draw(t, "forceUnseeded") // most plans have at least one unseeded VM
	for i := 0; i < nvm; i++ {
		seeded := rapid.IntRange(0, 9).Draw(t, "seeded") < 6 && i != forceUnseeded
		spec := VMSpec{Cfg: drawCfg(t, seeded), Tag: i + 1, Hooks: rapid.IntRange(0, 2).Draw(t, "hooks") == 0,
			SeedObs: rapid.Bool().Draw(t, "seedObs"), Spin: rapid.IntRange(0, 40).Draw(t, "spin")}
		if spec.Cfg.DefSide != "" {
			spec.FromTemplate = rapid.Bool().Draw(t, "fromTemplate")
		}
		if !seeded && rapid.IntRange(0, 3).Draw(t, "unseededRandomMode") != 0 {
			spec.Cfg.Mode = "" // an unseeded VM under min/max mode never draws from the process-wide generator
		}
		o := gen.DefaultOpts()
		o.MaxStmts = 4
		o.MaxDepth = 3
		o.Dice = true
		o.SingleKeyDicts = false // since fix 6269628 a dict prints and lists its entries in key order
		o.CoC, o.WoD, o.Fate, o.DC = spec.Cfg.CoC, spec.Cfg.WoD, spec.Cfg.Fate, spec.Cfg.DC
		o.DefaultSides = spec.Cfg.DefSide != ""
		o.RandMethods = true // shuffle / rand / randSize: a seeded VM replays them, an unseeded one draws from the process-wide generator
		vg := &vmGen{env: &gen.Env{}, o: o, unseeded: !seeded, cfg: spec.Cfg}
		n := rapid.SampledFrom([]int{5, 5, 6, 8, 10, 12, 16, 24, 40}).Draw(t, "steps")
		if n > maxSteps {
			n = maxSteps
		}
		for j := 0; j < n; j++ {
			spec.Steps = append(spec.Steps, drawStep(t, s, vg))
			if rapid.IntRange(0, 7).Draw(t, "yieldHere") == 0 {
				spec.Yields = append(spec.Yields, j)
			}
		}
		c.VMs = append(c.VMs, spec)
	}
	if hooksOn {
		c.YieldEvery = rapid.SampledFrom([]int{0, 0, 1, 2, 7, 50, 400}).Draw(t, "yieldEvery")
	}
	return c
}

// globalTouchers counts the VMs of the plan that can touch the process-wide generator.
func globalTouchers(c Plan) int {
	n := 0
	for _, v := range c.VMs {
		if v.Cfg.SeedHex == "" {
			n++
		}
	}
	return n
}

func classify(s *rt.Section, c Plan, info planInfo, h uint64) {
	s.EvalN(int64(info.steps))
	s.Class("plans")
	s.Class(fmt.Sprintf("vms=%d", len(c.VMs)))
	if info.discard != "" {
		s.Discard(info.discard)
		return
	}
	s.ClassN("evaluations-rejected-at-parse", int64(info.parseErrs))
	s.ClassN("evaluations-failed-at-run", int64(info.runErrs))
	s.ClassN("evaluations-drawing-from-process-generator", int64(info.unseededRolls))
	s.ClassN("evaluations-held-to-draw-independent-facts-only", int64(info.tainted))
	s.ClassN("evaluations-panicking-alone-too", int64(info.panics))
	if info.overlap >= 2 {
		s.Class("plans-with-overlap")
	}
	if info.parseErrs > 0 {
		s.Class("plans-with-parse-error")
	}
	if info.unseededRolls > 0 {
		s.Class("plans-with-unseeded-roll")
	}
	langs := map[int]bool{}
	for _, v := range c.VMs {
		langs[v.Cfg.Lang] = true
	}
	if len(langs) > 1 {
		s.Class("plans-with-mixed-languages")
	}
	if info.overlap >= 2 && info.parseErrs > 0 && info.unseededRolls > 0 {
		s.NonTrivial(h)
	}
}

const planRule = "plan = 2..8 goroutines, each with its own VM (seeded 60 % / unseeded, own error language, family flags, min/max mode, budgets, restriction flags, 1/3 with own custom dice + global-load func + st callback + store hook) and 5..40 programs: generated programs with noise on an accumulating variable environment (dice of the enabled families), the same with a broken-off tail or 1..3 byte edits, hostile-typing templates, a fixed catalogue (every built-in, prototype and bound method, dice family, template, st form, rejected inputs) and plain XdY+K terms (on the quarter of the VMs that have a default-sides text — 20, 6, 2|8, 15|64, 4|3, 1|2|4, 3+4, each with the bitwise operators on or off — mostly written Xd+K), array shuffle/rand/randSize in the generated programs; one plan in four instead lets all its VMs run one and the same template 5..30 times, each with its own number in it (same shared built-in at the same moment, different right answers; for the drawing array methods 60 % of the VMs unseeded; for bare dice all VMs with one default-sides text and their own flags); every XdY+K / Xd+K evaluation, alone or concurrent, must give an integer in its closed-form range (exact under min/max mode); each VM history is run alone first, then all VMs run at once behind a barrier with drawn spins and yields; every evaluation is compared with its solitary twin (parse verdict, error text, value, Matched/RestInput, process text, variables, op count, generator state, hook log; after an unseeded VM's first draw from the process-wide generator only parse verdict, parse error text, Matched/RestInput and the legal range of XdY+K); non-trivial = at least two goroutines had evaluations in progress at the same time (clock stamps) and the plan contains a parse error and an unseeded roll; distinct by plan; evaluations = programs executed concurrently"

func planProp(t *rapid.T, s *rt.Section, run *rt.Run) {
	maxSteps := 40
	c := drawPlan(t, s, maxSteps)
	// while the unsynchronised process-wide generator is an open finding, evaluations that may touch it take turns
	// under the race detector (the Go test framework fails a test in which the detector reported anything)
	if raceEnabled && globalTouchers(c) >= 2 && s.Avoid(avoidUnseeded) {
		c.Serial = true
	}
	b, _ := json.Marshal(c)
	h := rt.HashBytes(b)
	s.Crumb(c)
	f, info := checkPlan(c, s)
	classify(s, c, info, h)
	if len(b) < 6000 {
		s.Sample(h, c)
	}
	s.Report(t, f)
}

// ---------------------------------------------------------------------------
// bounded exhaustive section: every unordered pair of catalogue programs side by side

func pairSeed(side int) string {
	b := make([]byte, 16)
	for i := range b {
		b[i] = byte(37*i + 101*side + 11)
	}
	return hex.EncodeToString(b)
}

func pairSpec(idx, side, lang, rounds int) VMSpec {
	spec := VMSpec{Cfg: vmx.Cfg{CoC: true, WoD: true, Fate: true, DC: true, OpLimit: 3000, ParseLimit: 5_000_000, Lang: lang, SeedHex: pairSeed(side)},
		Hooks: true, Tag: side + 1, SeedObs: true}
	for r := 0; r < rounds; r++ {
		spec.Steps = append(spec.Steps, Step{Src: catalogue[idx], Kind: "fixed"})
	}
	return spec
}

func enumeratePairs(s *rt.Section, run *rt.Run, rounds int) {
	k := len(catalogue)
	n := 0
	type aloneKey struct{ idx, side, lang int }
	cache := map[aloneKey]*aloneRun{}
	solitary := func(idx, side, lang int, spec VMSpec) *aloneRun {
		key := aloneKey{idx, side, lang}
		if a, ok := cache[key]; ok {
			return a
		}
		a, verdict := runAloneGuarded(spec)
		if verdict != "" {
			stuck(s, Plan{VMs: []VMSpec{spec}}, "alone:"+verdict, verdictText(verdict))
			return nil
		}
		cache[key] = &a
		return &a
	}
	for i := 0; i < k; i++ {
		for j := i; j < k; j++ {
			n++
			if n%run.Env.NShards != run.Env.Shard {
				continue
			}
			c := Plan{VMs: []VMSpec{pairSpec(i, 0, (i+j)%3, rounds), pairSpec(j, 1, (i+j+1)%3, rounds)}}
			// the third VM is unseeded and rolls: the process-wide generator is in use while the seeded VMs work
			if (i+j)%4 == 0 {
				u := VMSpec{Cfg: vmx.Cfg{OpLimit: 3000, Lang: (i + j + 2) % 3}, Tag: 3}
				for r := 0; r < rounds; r++ {
					u.Steps = append(u.Steps, Step{Src: "2d6 + 1", Kind: "dice", Lo: 3, Hi: 13})
				}
				c.VMs = append(c.VMs, u)
			}
			s.Crumb(c)
			pre := []*aloneRun{solitary(i, 0, (i+j)%3, c.VMs[0]), solitary(j, 1, (i+j+1)%3, c.VMs[1])}
			f, info := checkPlanWith(c, s, pre)
			s.EvalN(int64(info.steps))
			if info.discard != "" {
				s.Discard(info.discard)
			}
			if info.overlap >= 2 {
				s.NonTrivial(rt.Hash(fmt.Sprintf("%d/%d", i, j)))
				s.Class("pairs-with-overlap")
			} else {
				s.Class("pairs-without-overlap")
			}
			if n%97 == 0 {
				s.Sample(rt.Hash(fmt.Sprintf("%d/%d", i, j)), map[string]any{"a": catalogue[i], "b": catalogue[j]})
			}
			if s.Report(nil, f) {
				return
			}
		}
	}
}

// enumerateRotations: plan d lets four VMs run the whole catalogue, each from its own offset.
func enumerateRotations(s *rt.Section, run *rt.Run, rotations int) {
	k := len(catalogue)
	for r := 0; r < rotations; r++ {
		if r%run.Env.NShards != run.Env.Shard {
			continue
		}
		d := r
		if rotations < k {
			d = (1 + r*(k/rotations)) % k
		}
		c := Plan{}
		for g := 0; g < 4; g++ {
			spec := VMSpec{Cfg: vmx.Cfg{CoC: true, WoD: true, Fate: true, DC: true, OpLimit: 3000, ParseLimit: 5_000_000, Lang: g % 3, SeedHex: pairSeed(g)},
				Hooks: true, Tag: g + 1, SeedObs: true, Spin: 7 * g}
			off := (g*d + g*(g-1)/2) % k
			for i := 0; i < k; i++ {
				spec.Steps = append(spec.Steps, Step{Src: catalogue[(off+i)%k], Kind: "fixed"})
			}
			c.VMs = append(c.VMs, spec)
		}
		u := VMSpec{Cfg: vmx.Cfg{OpLimit: 3000, Lang: 1}, Tag: 5}
		for i := 0; i < 40; i++ {
			u.Steps = append(u.Steps, Step{Src: "2d6 + 1", Kind: "dice", Lo: 3, Hi: 13})
		}
		c.VMs = append(c.VMs, u)
		s.Crumb(c)
		f, info := checkPlan(c, s)
		s.EvalN(int64(info.steps))
		s.Class("plans")
		if info.discard != "" {
			s.Discard(info.discard)
		}
		if info.overlap >= 2 {
			s.NonTrivial(rt.Hash(fmt.Sprintf("d=%d", d)))
			s.Class(fmt.Sprintf("goroutines-overlapping=%d", info.overlap))
		}
		s.Sample(rt.Hash(fmt.Sprintf("d=%d", d)), map[string]any{"d": d, "vms": 5, "programs_per_seeded_vm": k})
		if s.Report(nil, f) {
			return
		}
	}
}

// ---------------------------------------------------------------------------

func withCapture(run *rt.Run, name string, fn func()) {
	if raceEnabled {
		capture = startCapture(filepath.Join(run.Env.Out, fmt.Sprintf("C11.%d.%s.stderr", run.Env.Shard, name)))
		defer func() {
			capture.stop()
			capture = nil
		}()
	}
	fn()
}

func TestProp(t *testing.T) {
	run := rt.Begin(t, "C11")
	defer run.Finish()
	_ = os.MkdirAll(run.Env.Out, 0o755)
	fatalExit = func(f *rt.Failure) {
		run.Failures = append(run.Failures, f)
		run.Note("the shard ended early on %s: the plan's goroutines cannot be stopped from inside the process", f.Signature)
		run.Finish()
		os.Exit(1)
	}
	defer func() { fatalExit = nil }()
	defer func() { run.Note("largest live heap seen by the watchdog: %d MB", maxHeapSeen>>20) }()

	// catalogue: every catalogue program on each of four unsynchronised goroutines at once
	rotations := 8
	if run.Env.Thorough() {
		rotations = len(catalogue) / 2
	}
	withCapture(run, "catalogue", func() {
		run.Enum("catalogue", fmt.Sprintf("%d plans; in each, four seeded VMs (all dice families on, own hooks, error languages 0,1,2,0) run the whole catalogue of %d programs (every built-in function, prototype method, bound method kept in a variable, dice family, template, function, computed value, st form, per-VM hook, inputs rejected at parse and at run time) as one history each, started at four different offsets (0, d, 2d+1, 3d+3 for the plan's d), beside a fifth, unseeded VM that rolls 2d6+1 forty times; no synchronisation between the goroutines, so the happens-before detector judges every pair of catalogue programs in every plan; each evaluation compared with its solitary twin; non-trivial = at least two goroutines had evaluations in progress at the same time; distinct by d", rotations, len(catalogue)),
			func(s *rt.Section) {
				s.Bounds = fmt.Sprintf("%d catalogue programs x 4 VMs, %d offset sets", len(catalogue), rotations)
				enumerateRotations(s, run, rotations)
			})
	})

	// pairs (thorough): all unordered pairs, time-aligned
	if run.Env.Thorough() {
		rounds := 3
		withCapture(run, "pairs", func() {
			run.Enum("pairs", fmt.Sprintf("every unordered pair (self-pairs included) of the %d catalogue programs, each program run %d times on its own seeded VM with all dice families on, own hooks and a different error language, both VMs at once; every fourth pair beside a third, unseeded VM rolling 2d6+1; each evaluation compared with its solitary twin and, in the race binary, the detector must stay silent; non-trivial = the two goroutines had evaluations in progress at the same time; distinct by pair", len(catalogue), rounds),
				func(s *rt.Section) {
					s.Exhaustive = true
					s.Bounds = fmt.Sprintf("%d catalogue programs, all %d unordered pairs, %d rounds each, fixed seeds", len(catalogue), len(catalogue)*(len(catalogue)+1)/2, rounds)
					enumeratePairs(s, run, rounds)
				})
		})
	}

	withCapture(run, "plans", func() {
		run.Check("plans", 180, 1600, planRule+"; built with the race detector and without the verif hooks (whose shared atomic meter would order the goroutines and hide races): zero race reports, each report attributed to the plan that was running",
			func(t *rapid.T, s *rt.Section) { planProp(t, s, run) })
	})

	run.Check("sched", 540, 4800, planRule+"; plain binary with the verif hooks: every n-th VM instruction or roll (n drawn from 1, 2, 7, 50, 400, or never) yields the processor, unseeded VMs roll at the same time",
		func(t *rapid.T, s *rt.Section) { planProp(t, s, run) })
}

func TestReplay(t *testing.T) {
	plan := func(b []byte, s *rt.Section) *rt.Failure {
		var c Plan
		if err := json.Unmarshal(b, &c); err != nil {
			return s.NewFailure("replay", "replay:bad-case", nil, err.Error(), "")
		}
		attempts := 60 // the verdict of the comparison is schedule dependent
		began := time.Now()
		if raceEnabled {
			attempts = 10 // the detector judges by happens-before, not by luck
			echoRaces = true
			capture = startCapture(filepath.Join(os.TempDir(), fmt.Sprintf("C11.replay.%d.stderr", os.Getpid())))
			defer func() {
				capture.stop()
				capture = nil
			}()
		}
		for i := 0; i < attempts; i++ {
			f, info := checkPlan(c, s)
			if f != nil {
				return f
			}
			if info.discard == "work-ceiling" || time.Since(began) > 60*time.Second {
				return nil
			}
		}
		return nil
	}
	rt.Replay(t, "C11", map[string]rt.ReplayFunc{"plans": plan, "sched": plan, "pairs": plan, "catalogue": plan})
}
