package c11

import (
	"sync"
	"testing"

	ds "github.com/sealdice/dicescript"
)

func TestScratchRace(t *testing.T) {
	var wg sync.WaitGroup
	for g := 0; g < 2; g++ {
		wg.Add(1)
		go func() {
			defer wg.Done()
			vm := ds.NewVM()
			for i := 0; i < 20; i++ {
				_ = vm.Run("3d6 + d20")
				_, _ = vm.GetCurSeed()
			}
		}()
	}
	wg.Wait()
}
