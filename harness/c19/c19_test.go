// C19 — syntax errors point at the right place in the chosen language.
//
// Every input that Context.Parse rejects yields an error text.  The oracle
// (checkText) parses that text and holds it to the property statement:
//
//   - every "L:C (O)" prefix has 0 <= O <= len(input), O on a rune boundary, and
//     (L, C) is the line/column of byte O computed independently from the input
//     (line = 1 + number of '\n' before O, column = 1 + runes since the line start);
//   - the friendly block repeats the same L:C, quotes line L (or, for a line longer
//     than the truncation width, a valid-UTF-8 window of it marked with "...") and
//     its caret is under the rune at byte O of what is quoted;
//   - the message parts are written only in the configured language;
//   - under concurrency every VM's text equals the text it gets when alone.
package c19

import (
	"encoding/hex"
	"encoding/json"
	"fmt"
	"os"
	"regexp"
	"strconv"
	"strings"
	"sync"
	"sync/atomic"
	"testing"
	"unicode"
	"unicode/utf8"

	ds "github.com/sealdice/dicescript"
	"pgregory.net/rapid"

	"verif/harness/rt"
)

// ---------------------------------------------------------------------------
// case and observation

type Case struct {
	Lang   int    `json:"lang"`              // 0 both, 1 Chinese, 2 English
	Input  string `json:"input"`             // always valid UTF-8
	ViaRun bool   `json:"via_run,omitempty"` // additionally observe through Context.Run
	// Global: the host has called SetParseErrorLanguage(Global-1) (0 = never called): the package-wide default must not
	// decide the language of a VM that has its own setting (sequential sections only)
	Global int `json:"global,omitempty"`
	// Custom: custom dice registered on the VM whose match may span blanks and line breaks: 1 = regex E(\d+)\s*,
	// 2 = stream parser K<digits><blanks>; positions after such an operand are still those of the offset
	// 3 = stream parser X that reads its operand with ReadExpr and returns ReadExpr's own error when that fails
	Custom int `json:"custom,omitempty"`
	// Lazy: the text is also compiled at first use, as 1 = RunExpr's argument, 2 = the body of a host-built function that
	// is then called, 3 = a host-built computed value that is then read, 4 = DefaultDiceSideExpr used by a bare `d`:
	// the syntax error is the one Parse gives for the same text
	Lazy int `json:"lazy,omitempty"`
	// Bad: raw bytes (hex) inserted into Input at byte offsets, in order, each offset counted in the text built so far:
	// inputs that are not valid UTF-8 (a JSON string cannot carry them)
	Bad []BadBytes `json:"bad,omitempty"`
}

type BadBytes struct {
	At  int    `json:"at"`
	Hex string `json:"hex"`
}

// text is the input as handed to the VM: Input with the Bad bytes inserted.
func (c Case) text() string {
	in := c.Input
	for _, b := range c.Bad {
		raw, err := hex.DecodeString(b.Hex)
		if err != nil || b.At < 0 || b.At > len(in) {
			continue
		}
		in = in[:b.At] + string(raw) + in[b.At:]
	}
	return in
}

// newVMFor builds the VM of a case (language, custom dice) and sets the package-wide default; the returned
// function restores the default.
func newVMFor(c Case) (*ds.Context, func()) {
	restore := func() {}
	if c.Global > 0 {
		ds.SetParseErrorLanguage(c.Global - 1)
		restore = func() { ds.SetParseErrorLanguage(ds.ParseErrorLanguageBilingual) }
	}
	vm := ds.NewVM()
	vm.Config.ParseErrorLanguage = c.Lang
	handler := func(ctx *ds.Context, groups []string, _ any) (*ds.VMValue, string, error) {
		return ds.NewIntVal(7), "", nil
	}
	switch c.Custom {
	case 1:
		_ = vm.RegCustomDice(`E(\d+)\s*`, handler)
	case 2:
		_ = vm.RegCustomDiceParser(func(ctx *ds.Context, st *ds.CustomDiceStream) (*ds.CustomDiceParseResult, error) {
			if r, ok := st.Read(); !ok || r != 'K' {
				return &ds.CustomDiceParseResult{Matched: false}, nil
			}
			n := 0
			for {
				r, ok := st.Peek()
				if !ok || r < '0' || r > '9' {
					break
				}
				st.Read()
				n++
			}
			if n == 0 {
				return &ds.CustomDiceParseResult{Matched: false}, nil
			}
			for {
				r, ok := st.Peek()
				if !ok || (r != ' ' && r != '\n' && r != '\t' && r != '\r') {
					break
				}
				st.Read()
			}
			return &ds.CustomDiceParseResult{Matched: true}, nil
		}, handler)
	case 3:
		_ = vm.RegCustomDiceParser(func(ctx *ds.Context, st *ds.CustomDiceStream) (*ds.CustomDiceParseResult, error) {
			if r, ok := st.Read(); !ok || r != 'X' {
				return &ds.CustomDiceParseResult{Matched: false}, nil
			}
			v, ok, err := st.ReadExpr("")
			if err != nil {
				return nil, err
			}
			if !ok || v == nil {
				return &ds.CustomDiceParseResult{Matched: false}, nil
			}
			return &ds.CustomDiceParseResult{Matched: true}, nil
		}, handler)
	}
	return vm, restore
}

const (
	langBoth = 0
	langCN   = 1
	langEN   = 2
)

func langName(l int) string {
	switch l {
	case langCN:
		return "chinese"
	case langEN:
		return "english"
	}
	return "both"
}

// parseText runs Context.Parse on a fresh VM and returns the error text ("" and
// rejected=false when the input is accepted).
func parseText(c Case, input string) (text string, rejected bool, pi *rt.PanicInfo) {
	vm, restore := newVMFor(c)
	defer restore()
	pi = rt.Guard(func() {
		if err := vm.Parse(input); err != nil {
			text, rejected = err.Error(), true
			// an error value is the host's to keep: a later evaluation on the same VM (another rejected text of the same
			// length) does not change what it says
			_ = vm.Parse(strings.Repeat(")", len(input)))
			if again := err.Error(); again != text {
				text = "error text changed after a later Parse on the same VM:\n--- when returned ---\n" + text + "\n--- after the later Parse ---\n" + again
				laterChanged = true
			}
		}
	})
	return
}

// laterChanged: set by parseText when the kept error value rendered differently after a later Parse (reported by checkCase)
var laterChanged bool

func runText(c Case, input string) (text string, rejected bool, pi *rt.PanicInfo) {
	vm, restore := newVMFor(c)
	defer restore()
	pi = rt.Guard(func() {
		vm.Config.OpCountLimit = 2000
		if err := vm.Run(input); err != nil {
			text, rejected = err.Error(), true
		}
	})
	return
}

// ---------------------------------------------------------------------------
// parsing the error text

type entry struct {
	L, C, O int
	Rule    string   // "" for the friendly block (added after the parse, outside any rule)
	Body    []string // first line without the prefix, then the continuation lines
}

var prefixRe = regexp.MustCompile(`^(\d+):(\d+) \((\d+)\): (?:rule ([^:]+): )?`)

func splitEntries(text string) ([]entry, bool) {
	var out []entry
	for _, ln := range strings.Split(text, "\n") {
		if m := prefixRe.FindStringSubmatch(ln); m != nil {
			l, _ := strconv.Atoi(m[1])
			c, _ := strconv.Atoi(m[2])
			o, _ := strconv.Atoi(m[3])
			out = append(out, entry{L: l, C: c, O: o, Rule: m[4], Body: []string{ln[len(m[0]):]}})
			continue
		}
		if len(out) == 0 {
			return nil, false
		}
		out[len(out)-1].Body = append(out[len(out)-1].Body, ln)
	}
	return out, len(out) > 0
}

type posLine struct {
	Label string
	L, C  int
	Msg   string
}

type block struct {
	Header   string
	HasQuote bool
	Quote    string
	Caret    int // number of runes before '^' in the pointer line
	CaretOK  bool
	Pos      []posLine
}

var posLineRe = regexp.MustCompile(`^  (\S+) (\d+):(\d+) - (.*)$`)

const gutter = "  |  "

// parseBlock reads the friendly block: header, optional quote frame, position lines.
func parseBlock(body []string) (block, string) {
	b := block{Header: body[0]}
	rest := body[1:]
	if len(rest) > 0 && rest[0] == "  |" {
		if len(rest) < 4 || !strings.HasPrefix(rest[1], gutter) || !strings.HasPrefix(rest[2], gutter) || rest[3] != "  |" {
			return b, "quote frame is not `  |` / `  |  <line>` / `  |  <caret>` / `  |`"
		}
		b.HasQuote = true
		b.Quote = rest[1][len(gutter):]
		ptr := rest[2][len(gutter):]
		if strings.HasSuffix(ptr, "^") && strings.Trim(ptr[:len(ptr)-1], " ") == "" {
			b.Caret = len(ptr) - 1
			b.CaretOK = true
		}
		rest = rest[4:]
	}
	for _, ln := range rest {
		if m := posLineRe.FindStringSubmatch(ln); m != nil {
			l, _ := strconv.Atoi(m[2])
			c, _ := strconv.Atoi(m[3])
			b.Pos = append(b.Pos, posLine{Label: m[1], L: l, C: c, Msg: m[4]})
			continue
		}
		if len(b.Pos) == 0 {
			return b, fmt.Sprintf("unexpected line %q before the position line", ln)
		}
		// a message that embeds the offending character may embed a line break
		b.Pos[len(b.Pos)-1].Msg += "\n" + ln
	}
	if len(b.Pos) == 0 {
		return b, "no position line (`  <label> L:C - message`)"
	}
	return b, ""
}

// ---------------------------------------------------------------------------
// independent line/column arithmetic

// lineCol returns the 1-based line and rune column of byte offset o, the text of
// that line (without its '\n') and the 0-based rune index of o inside the line.
func lineCol(in string, o int) (line, col int, lineText string, onBoundary bool) {
	start := strings.LastIndexByte(in[:o], '\n') + 1
	// a boundary of the decoding every UTF-8 reader performs from the start of the line: a byte that belongs to no
	// well-formed sequence is a unit of its own
	onBoundary = false
	for i := start; i <= o; {
		if i == o {
			onBoundary = true
			break
		}
		_, size := utf8.DecodeRuneInString(in[i:])
		i += size
	}
	line = 1 + strings.Count(in[:o], "\n")
	col = 1 + utf8.RuneCountInString(in[start:o])
	end := strings.IndexByte(in[start:], '\n')
	if end < 0 {
		lineText = in[start:]
	} else {
		lineText = in[start : start+end]
	}
	return
}

// truncationWidth is the documented width (parser_errors_test.go: a long line is
// quoted in at most 60 bytes ending in "..."); shorter lines must be quoted whole.
const truncationWidth = 60

// judgeQuote relates the quoted text and the caret to the true line and the rune
// index e of the error inside it.  Returns "" when they agree.
func judgeQuote(line, q string, caret, e int) (sig, why string) {
	if !utf8.ValidString(line) {
		// a line that is not valid UTF-8 may be quoted with U+FFFD in place of each byte no decoder accepts (one
		// column each, as the position arithmetic counts them)
		line, q = string([]rune(line)), string([]rune(q))
	}
	trimmed := strings.TrimSuffix(line, "\r")
	if q == line || q == trimmed {
		if caret != e {
			return "caret:wrong-column", fmt.Sprintf("caret after %d runes, error is at rune index %d of the quoted line", caret, e)
		}
		return "", ""
	}
	if len(line) <= truncationWidth {
		return "quote:wrong-line", fmt.Sprintf("quoted %q, the line of the reported offset is %q", q, line)
	}
	if !utf8.ValidString(q) && utf8.ValidString(line) {
		return "quote:invalid-utf8", fmt.Sprintf("quoted text %q is not valid UTF-8 (a rune of the line was cut)", q)
	}
	isView, inRange := false, false
	for _, lead := range []bool{false, true} {
		for _, trail := range []bool{false, true} {
			if !lead && !trail {
				continue
			}
			core := q
			if lead {
				if !strings.HasPrefix(core, "...") {
					continue
				}
				core = core[3:]
			}
			if trail {
				if !strings.HasSuffix(core, "...") {
					continue
				}
				core = core[:len(core)-3]
			}
			for i := 0; i+len(core) <= len(line); i++ {
				if !lead && i > 0 {
					break
				}
				if !strings.HasPrefix(line[i:], core) || !utf8.RuneStart(line[i]) {
					continue
				}
				atEnd := i+len(core) == len(line)
				if !trail && !atEnd {
					continue
				}
				if trail && atEnd && !lead {
					continue // "..." appended to the complete line says text follows
				}
				isView = true
				s := utf8.RuneCountInString(line[:i])
				n := utf8.RuneCountInString(core)
				rel := e - s
				if rel < 0 || rel > n || (rel == n && !atEnd) {
					continue
				}
				inRange = true
				want := rel
				if lead {
					want += 3
				}
				if caret == want {
					return "", ""
				}
			}
		}
	}
	switch {
	case !isView:
		return "quote:wrong-line", fmt.Sprintf("quoted %q is neither the line %q nor a `...`-marked window of it", q, line)
	case !inRange:
		return "caret:outside-truncated-quote", fmt.Sprintf("the quoted window %q of the %d-byte line does not contain the error (rune index %d); caret after %d runes points at nothing", q, len(line), e, caret)
	}
	return "caret:wrong-column", fmt.Sprintf("caret after %d runes is not under rune index %d of the line in the quoted window %q", caret, e, q)
}

// ---------------------------------------------------------------------------
// language

var quotedRune = regexp.MustCompile(`(?s)'.'`)
var asciiWord = regexp.MustCompile(`[A-Za-z]{2,}`)

// words of the scripting language itself; a Chinese message may name them
var codeWords = map[string]bool{"if": true, "else": true, "expr": true, "while": true, "func": true, "return": true,
	"break": true, "continue": true, "st": true}

func hasHan(s string) bool {
	for _, r := range s {
		if unicode.Is(unicode.Han, r) {
			return true
		}
	}
	return false
}

func englishWords(s string) []string {
	var out []string
	for _, w := range asciiWord.FindAllString(s, -1) {
		if !codeWords[w] {
			out = append(out, w)
		}
	}
	return out
}

// stripSource removes the single quoted character a message may embed (it is
// source text, not message text).
func stripSource(msg string) string { return quotedRune.ReplaceAllString(msg, "''") }

func judgeLanguage(lang int, kind string, parts []string) (sig, why string) {
	text := stripSource(strings.Join(parts, "\n"))
	switch lang {
	case langEN:
		if hasHan(text) {
			return "lang:" + kind + "-chinese-in-english-mode", fmt.Sprintf("English configured, message text %q contains Chinese", text)
		}
	case langCN:
		if w := englishWords(text); len(w) > 0 {
			return "lang:" + kind + "-english-in-chinese-mode", fmt.Sprintf("Chinese configured, message text %q contains English words %v", text, w)
		}
	default:
		if kind == "block" && (!hasHan(text) || len(englishWords(text)) == 0) {
			return "lang:block-not-bilingual", fmt.Sprintf("both languages configured, message text %q lacks one of them", text)
		}
	}
	return "", ""
}

// ---------------------------------------------------------------------------
// the oracle

type finding struct{ oracle, sig, observed, expected string }

// checkText holds one error text to the property; it returns every disagreement
// (at most one per signature).
func checkText(c Case, text string) (fs []finding, info textInfo) {
	add := func(oracle, sig, obs, exp string) {
		for _, f := range fs {
			if f.sig == sig {
				return
			}
		}
		fs = append(fs, finding{oracle, sig, obs, exp})
	}
	entries, ok := splitEntries(text)
	if !ok {
		add("format", "format:no-position-prefix", fmt.Sprintf("%q", text), "every error starts with `line:col (offset): `")
		return
	}
	in := c.Input
	for _, e := range entries {
		info.entries++
		where := fmt.Sprintf("entry `%d:%d (%d)`", e.L, e.C, e.O)
		if e.O < 0 || e.O > len(in) {
			add("position", "pos:offset-out-of-range", where, fmt.Sprintf("0 <= offset <= %d", len(in)))
			continue
		}
		line, col, lineText, boundary := lineCol(in, e.O)
		if e.O > 0 {
			info.nonTrivial = true
		}
		if line > 1 {
			info.multiLine = true
		}
		if e.O-(col-1) > strings.LastIndexByte(in[:e.O], '\n')+1 {
			info.multiByteBefore = true
		}
		if len(lineText) > truncationWidth {
			info.longLine = true
		}
		if e.O == len(in) {
			info.atEOF = true
		}
		if !boundary {
			add("position", "pos:offset-inside-rune", where, "an offset on a rune boundary")
			continue
		}
		posOK := e.L == line && e.C == col
		if !posOK {
			if e.O < len(in) && in[e.O] == '\n' && e.L == line+1 && e.C == 0 {
				info.atNewline = true
				add("position", "pos:at-newline", fmt.Sprintf("%s: byte %d is the line break ending line %d, reported as line %d column 0", where, e.O, line, e.L),
					fmt.Sprintf("%d:%d", line, col))
			} else {
				add("position", "pos:line-col-mismatch", where, fmt.Sprintf("%d:%d is the line:column of byte %d", line, col, e.O))
			}
		}
		if e.Rule == "" && isEncodingMsg(e.Body) {
			// the input is not valid UTF-8 at this offset: a one-line message, in the configured language
			info.encoding = true
			if sig, why := judgeLanguage(c.Lang, "inline", e.Body); sig != "" {
				add("language", strings.Replace(sig, "lang:inline", "lang:encoding", 1), why, "message in "+langName(c.Lang)+" only")
			}
			continue
		}
		if e.Rule != "" {
			info.inline = true
			if sig, why := judgeLanguage(c.Lang, "inline", proseOf(e.Body)); sig != "" {
				add("language", sig, fmt.Sprintf("rule %s: %s", e.Rule, why), "message in "+langName(c.Lang)+" only")
			}
			continue
		}
		info.friendly = true
		b, bad := parseBlock(e.Body)
		if bad != "" {
			add("format", "format:block", bad+": "+fmt.Sprintf("%q", strings.Join(e.Body, "\n")), "header, quote frame, position lines")
			continue
		}
		for _, p := range b.Pos {
			if p.L != e.L || p.C != e.C {
				add("position", "block:position-differs", fmt.Sprintf("%s but the block says %s %d:%d", where, p.Label, p.L, p.C), "the same line:column")
			}
		}
		parts := []string{b.Header}
		for _, p := range b.Pos {
			parts = append(parts, p.Label+" - "+p.Msg)
		}
		if sig, why := judgeLanguage(c.Lang, "block", parts); sig != "" {
			add("language", sig, why, "message in "+langName(c.Lang))
		}
		if !posOK {
			continue // the quote follows the reported position; judged once the position is right
		}
		if !b.HasQuote {
			if len(in) > 0 {
				add("quote", "quote:missing", where+" has no quoted line", fmt.Sprintf("line %q quoted with a caret", lineText))
			}
			continue
		}
		if !b.CaretOK {
			add("quote", "caret:malformed", fmt.Sprintf("%q", strings.Join(e.Body, "\n")), "spaces then ^")
			continue
		}
		if sig, why := judgeQuote(lineText, b.Quote, b.Caret, col-1); sig != "" {
			add("quote", sig, where+": "+why, fmt.Sprintf("line %d quoted (whole, or a `...` window around the error) with the caret under column %d", line, col))
		}
	}
	return
}

// isEncodingMsg: the one-line message of an input that is not valid UTF-8 at the reported offset.
func isEncodingMsg(body []string) bool {
	if len(body) != 1 {
		return false
	}
	return strings.Contains(body[0], "invalid encoding") || strings.Contains(body[0], "编码")
}

// proseOf drops the quote frame of an error text embedded in an inline message (a custom parser that returned the error
// of its own sub-parse): the quoted line and the caret line are source text, not message text.
func proseOf(body []string) []string {
	var out []string
	for _, ln := range body {
		if ln == "  |" || strings.HasPrefix(ln, gutter) {
			continue
		}
		// the embedded text carries the parser's own `line:col (offset): rule name:` prefix
		out = append(out, embeddedPrefixRe.ReplaceAllString(ln, ""))
	}
	return out
}

var embeddedPrefixRe = regexp.MustCompile(`^\d+:\d+ \(\d+\): (?:rule (?:"[^"]*"|\S+): )?`)

type textInfo struct {
	encoding        bool
	entries         int
	nonTrivial      bool
	multiLine       bool
	multiByteBefore bool
	longLine        bool
	atEOF           bool
	atNewline       bool
	inline          bool
	friendly        bool
}

// checkCase is the oracle shared by the sections and by replay.  It returns all
// failures; outcome tells why nothing was judged.
func checkCase(c Case, s *rt.Section) (fails []*rt.Failure, outcome string, info textInfo) {
	if !utf8.ValidString(c.Input) {
		return nil, "invalid-utf8-input", info
	}
	orig := c
	c.Input, c.Bad = orig.text(), nil
	laterChanged = false
	text, rejected, pi := parseText(c, c.Input)
	if laterChanged {
		return []*rt.Failure{s.NewFailure("error-value-stable", "api:error-text-changes-after-later-parse", orig, text, "the text it had when Parse returned it")}, "rejected", info
	}
	if pi != nil {
		return nil, "panic-in-parse", info
	}
	if !rejected {
		return nil, "accepted", info
	}
	fs, info := checkText(c, text)
	for _, f := range fs {
		fails = append(fails, s.NewFailure(f.oracle, f.sig, orig, f.observed+"\n--- error text ---\n"+text, f.expected))
	}
	// the same text as the body of a host-built function value that two VMs share: the VM that calls it gets the body's
	// syntax error in its own language, whichever VM called first
	if len(c.Input) < 200 && c.Global == 0 && c.Custom == 0 && len(orig.Bad) == 0 {
		call := func(fn *ds.VMValue, lang int) (string, *rt.PanicInfo) {
			vm := ds.NewVM()
			vm.Config.ParseErrorLanguage = lang
			vm.Attrs.Store("bf", fn)
			var err error
			pi := rt.Guard(func() { err = vm.Run("bf()") })
			if err != nil {
				return err.Error(), pi
			}
			return "", pi
		}
		mk := func() *ds.VMValue { return ds.NewFunctionValRaw(&ds.FunctionData{Expr: c.Input, Name: "bf"}) }
		alone, pa := call(mk(), c.Lang)
		shared := mk()
		_, pb := call(shared, (c.Lang+1)%3)
		after, pc := call(shared, c.Lang)
		if pa == nil && pb == nil && pc == nil && alone != after {
			fails = append(fails, s.NewFailure("own-language", "lang:shared-function-body-error", orig,
				"called after a VM of another language called the same function value: "+after, "as when called first: "+alone))
		}
	}
	// (a blank body is an empty program, not a syntax error)
	if c.Lazy != 0 && strings.TrimSpace(c.Input) != "" {
		vm, restore := newVMFor(c)
		var err error
		pi := rt.Guard(func() {
			switch c.Lazy {
			case 1:
				_, err = vm.RunExpr(c.Input, false)
			case 2:
				vm.Attrs.Store("bf", ds.NewFunctionValRaw(&ds.FunctionData{Expr: c.Input, Name: "bf"}))
				err = vm.Run("bf()")
			case 3:
				vm.Attrs.Store("cv", ds.NewComputedVal(c.Input))
				err = vm.Run("cv")
			default:
				vm.Config.DefaultDiceSideExpr = c.Input
				err = vm.Run("d")
			}
		})
		restore()
		got := "<no error>"
		if err != nil {
			got = err.Error()
		}
		if pi == nil && got != text {
			fails = append(fails, s.NewFailure("parse-vs-lazy", "api:lazy-text-differs", orig, fmt.Sprintf("compiled at first use (way %d): %q", c.Lazy, got), fmt.Sprintf("Parse: %q", text)))
		}
	}
	if c.ViaRun {
		t2, rej2, pi2 := runText(c, c.Input)
		if pi2 == nil && (!rej2 || t2 != text) {
			fails = append(fails, s.NewFailure("parse-vs-run", "api:run-text-differs", orig, fmt.Sprintf("Run: %q", t2), fmt.Sprintf("Parse: %q", text)))
		}
	}
	return fails, "rejected", info
}

// report hands every failure to the section; known findings are counted and the
// rest of the list is still judged.
func report(t rt.FatalT, s *rt.Section, fails []*rt.Failure) bool {
	for _, f := range fails {
		if s.Report(t, f) {
			return true
		}
	}
	return false
}

func classify(s *rt.Section, c Case, info textInfo) {
	s.Class("lang=" + langName(c.Lang))
	if info.friendly {
		s.Class("friendly-block")
	}
	if info.inline {
		s.Class("inline-message")
	}
	if info.encoding {
		s.Class("encoding-message")
	}
	if len(c.Bad) > 0 {
		s.Class("input-not-utf8")
	}
	if c.Custom == 3 {
		s.Class("custom-readexpr")
	}
	if c.Lazy != 0 {
		s.Class("also-compiled-at-first-use")
	}
	if info.entries > 1 {
		s.Class("several-errors")
	}
	if info.multiLine {
		s.Class("error-line>1")
	}
	if info.multiByteBefore {
		s.Class("multibyte-before-error")
	}
	if info.longLine {
		s.Class("line>60-bytes")
	}
	if info.atEOF {
		s.Class("error-at-eof")
	}
	if info.atNewline {
		s.Class("error-at-line-break")
	}
	if strings.Contains(c.Input, "\r\n") {
		s.Class("crlf")
	}
	if c.Input == "" {
		s.Class("empty-input")
	} else if strings.TrimSpace(c.Input) == "" {
		s.Class("blank-input")
	}
}

// judge runs one case inside a rapid section.
func judge(t *rapid.T, s *rt.Section, c Case, kind string) {
	s.Crumb(c)
	fails, outcome, info := checkCase(c, s)
	if outcome != "rejected" {
		s.Discard(outcome)
		if kind != "" {
			s.Class("accepted:" + kind)
		}
		return
	}
	s.Eval()
	if kind != "" {
		s.Class("kind:" + kind)
	}
	classify(s, c, info)
	h := rt.Hash(strconv.Itoa(c.Lang), c.text())
	if info.nonTrivial {
		s.NonTrivial(h)
	}
	if len(c.Input) <= 80 {
		s.Sample(h, c)
	}
	report(t, s, fails)
}

// ---------------------------------------------------------------------------
// generators

func pick(t *rapid.T, label string, xs ...string) string { return rapid.SampledFrom(xs).Draw(t, label) }

func ws(t *rapid.T) string { return pick(t, "ws", "", "", " ", " ", "  ", "\t") }

// whitespace that may break the line (legal wherever the grammar has `sp`)
func wsnl(t *rapid.T) string {
	return pick(t, "wsnl", "", " ", " ", "\n", "\n  ", " \n", "\r\n", "\n\n", "\t\n\t")
}

var identPool = []string{"x", "hp", "v1", "_t", "$g", "name", "力量", "敏捷", "体质", "智力", "名字", "测试值", "hp上限", "αβ", "х"}

func ident(t *rapid.T) string {
	id := rapid.SampledFrom(identPool).Draw(t, "ident")
	if rapid.IntRange(0, 9).Draw(t, "longid") == 0 {
		id = strings.Repeat(id, rapid.IntRange(8, 40).Draw(t, "idrep"))
	}
	return id
}

var textRunes = []rune("abc xyz 力量敏捷体质智力幸运测试一二三，。！、 éñ üß 🎲🎯 123 +-*/()[]")

func freeText(t *rapid.T, max int) string {
	n := rapid.IntRange(0, max).Draw(t, "textlen")
	var sb strings.Builder
	for i := 0; i < n; i++ {
		sb.WriteRune(rapid.SampledFrom(textRunes).Draw(t, "r"))
	}
	return sb.String()
}

// filler makes a line long: ASCII, CJK (3-byte), 2-byte, 4-byte or mixed runes.
func filler(t *rapid.T) string {
	n := rapid.IntRange(18, 110).Draw(t, "fill")
	unit := pick(t, "fillunit", "a", "力", "é", "🎲", "ab力", "力a", "敏捷é", "x1")
	var sb strings.Builder
	for utf8.RuneCountInString(sb.String()) < n {
		sb.WriteString(unit)
	}
	return sb.String()
}

func strLit(t *rapid.T, body string) string {
	d := pick(t, "delim", "'", "\"", "`", "\x1e")
	return d + body + d
}

func atom(t *rapid.T) string {
	switch rapid.IntRange(0, 9).Draw(t, "atom") {
	case 0, 1:
		return strconv.Itoa(rapid.IntRange(0, 1000).Draw(t, "n"))
	case 2, 3:
		return ident(t)
	case 4:
		return strLit(t, strings.NewReplacer("'", "", "\"", "", "`", "", "{", "", "}", "").Replace(freeText(t, 8)))
	case 5:
		return pick(t, "dice", "d20", "2d6", "3d6k2", "d100", "4d6kh3")
	case 6:
		return "[" + strconv.Itoa(rapid.IntRange(0, 9).Draw(t, "n")) + "," + ws(t) + ident(t) + "]"
	case 7:
		return pick(t, "fn", "floor", "abs", "f", "测试") + "(" + ident(t) + ")"
	case 8:
		return "1.5"
	}
	return "(" + ident(t) + ws(t) + "+" + ws(t) + "1)"
}

var binOps = []string{"+", "-", "*", "/", "%", "**", "==", "!=", "<", ">=", "&&", "||", "＋", "－", "＊", "／", "??"}

func expr(t *rapid.T, sep func(*rapid.T) string) string {
	n := rapid.IntRange(1, 4).Draw(t, "terms")
	if rapid.IntRange(0, 11).Draw(t, "manyterms") == 0 {
		n = rapid.IntRange(12, 40).Draw(t, "terms2")
	}
	var sb strings.Builder
	for i := 0; i < n; i++ {
		if i > 0 {
			sb.WriteString(sep(t))
			sb.WriteString(rapid.SampledFrom(binOps).Draw(t, "op"))
			sb.WriteString(sep(t))
		}
		sb.WriteString(atom(t))
	}
	return sb.String()
}

var validLines = []string{
	"x = 1", "力量 = 50", "敏捷 = 力量 + 2d6", "// 这是一行注释", "s = '字符串 text'", "a = [1,2,3]", "d = {'v1': 1, 'v2': '测试'}",
	"if x { y = 1 }", "if 力量 > 10 { 名字 = '强' } else { 名字 = '弱' }", "func f(n) { return n + 1 }", "t1 = 0; while t1 < 3 { t1 = t1 + 1 }",
	"t = `模板{x}和{力量}`", "2d6 + 力量", "&砍一刀 = d20 + 4", "a.push(4)", "d.v3 = 4", "a[0] = 2", "name1 = 'Alice';", "// #EnableDiceWoD false",
	"灵视 = d100", "灵视 >= 40 ? '看得见' : '无知'", "v = [1,2,3].sum()", "", "  ", "\t",
}

var lineSeps = []string{"\n", "\n", ";\n", "; ", "\r\n", ";\r\n", "\n\n", ";"}

var junkStart = []string{"/", "@", "#", ")", "]", "}", "*", "%", "!", "?", ",", ":", "=", "<", ">", "|", "~", "\\", "。", "，", "；", "）", "】", "＊", "…", "€", "🎲"}

var keywords = []string{"if", "while", "else", "func", "break", "continue", "return"}

// brokenPiece draws one syntactically damaged fragment.  firstOnly tells that it
// only rejects the input when it is the first statement.
func brokenPiece(t *rapid.T) (piece, kind string, firstOnly bool) {
	switch rapid.IntRange(0, 13).Draw(t, "kind") {
	case 0: // illegal first character
		rest := ""
		switch rapid.IntRange(0, 3).Draw(t, "rest") {
		case 1:
			rest = ident(t)
		case 2:
			rest = filler(t)
		case 3:
			rest = ws(t) + expr(t, ws)
		}
		return rapid.SampledFrom(junkStart).Draw(t, "junk") + rest, "illegal-start", true
	case 1, 2: // unclosed bracket, content possibly spanning lines
		open := pick(t, "open", "(", "(", "[", "{", "（", "f(", "[1,", "{'k':", "x[")
		var sb strings.Builder
		sb.WriteString(open)
		sb.WriteString(wsnl(t))
		if rapid.Bool().Draw(t, "pad") {
			sb.WriteString(strLit(t, filler(t)))
			sb.WriteString(ws(t) + "+" + wsnl(t))
		}
		sb.WriteString(expr(t, wsnl))
		switch rapid.IntRange(0, 4).Draw(t, "end") {
		case 0:
			sb.WriteString(ws(t) + rapid.SampledFrom(binOps).Draw(t, "op") + wsnl(t))
		case 1:
			sb.WriteString(ws(t) + rapid.SampledFrom(junkStart).Draw(t, "junk") + ws(t) + freeText(t, 12))
		case 2:
			sb.WriteString(wsnl(t) + pick(t, "wrongclose", ")", "]", "}", "；"))
		case 3:
			sb.WriteString(wsnl(t))
		}
		return sb.String(), "unclosed-bracket", true
	case 3: // unclosed string, possibly multi-line
		body := freeText(t, 30)
		if rapid.Bool().Draw(t, "nl") {
			body += "\n" + freeText(t, 30)
		}
		if rapid.IntRange(0, 3).Draw(t, "pad") == 0 {
			body += filler(t)
		}
		d := pick(t, "delim", "'", "\"", "`", "\x1e")
		body = strings.ReplaceAll(body, d, "")
		lead := ""
		if rapid.Bool().Draw(t, "lead") {
			lead = "(" + ws(t)
		}
		return lead + d + body, "unclosed-string", true
	case 4: // template with a damaged hole
		hole := pick(t, "hole", "{}", "{ }", "{%%}", "{% %}", "{1 +}", "{力量 *}", "{x", "{% if 1 { %}", "{(1}", "{'a}", "{% x = %}", "{1 2}", "{@}")
		d := pick(t, "tdelim", "`", "\x1e")
		pre := strings.NewReplacer("{", "", "}", "", "`", "").Replace(freeText(t, 20))
		if rapid.IntRange(0, 3).Draw(t, "nl") == 0 {
			pre += "\n" + strings.NewReplacer("{", "", "}", "", "`", "").Replace(freeText(t, 20))
		}
		if rapid.IntRange(0, 4).Draw(t, "pad") == 0 {
			pre += filler(t)
		}
		return d + pre + hole + pick(t, "post", "", "尾", " tail") + d, "template-hole", true
	case 5, 6: // keyword where a name or expression is expected (inline message, anywhere)
		kw := rapid.SampledFrom(keywords).Draw(t, "kw")
		pre := pick(t, "kwpre", "", "", "x = ", "力量 = ", "1 + ", "(", "[1, ", "f(", "体质 = 力量 * ")
		if rapid.IntRange(0, 5).Draw(t, "pad") == 0 {
			pre = ident(t) + " = " + strLit(t, filler(t)) + " + "
		}
		post := pick(t, "kwpost", "", "", " ", "\n", "\n1", " = 1", " x", " 1 {", " {", "(", ";", "\r\n", " // 注释", "\t")
		return pre + kw + post, "keyword", false
	case 7: // malformed if / while / func
		return pick(t, "badblock", "if x", "if x {", "if {", "if 1 { x = ( }", "if 力量 > 1 {\n  y = 2\n", "if 1 {} else", "if 1 {} else if", "while x", "while 1 {",
			"while 力量 {\n x = 1", "func", "func f", "func f(", "func f(a,", "func f(a) {", "func 测试(a) {\n return (a\n}", "if 1 {\n x = 1;\n y = (\n}", "return (") + wsnl(t), "bad-block", false
	case 8: // break / continue outside a loop (inline English message)
		return pick(t, "loopkw", "break", "continue") + pick(t, "post", "", " ", "\n", ";", " ;x", "\n力量"), "loop-keyword", false
	case 9: // ^st forms
		return "^st" + pick(t, "st", "", " ", "\n", "\n1", " 力量", " 力量50", "力量", "力量:", "力量=", "力量=\n", "力量50 敏捷", "力量50,", "力量+", "力量+=", "&手枪", "&手枪=", "'a b", "力量*", "力量*2:",
			"力量50 敏捷60 体质", "力量50\n敏捷", "力量 50") + pick(t, "sttail", "", "", " ", "\n", "@"), "st", true
	case 10: // ampersand forms
		return pick(t, "amp", "&", "&\n", "& x", "&x =", "&x.y =", "&力量 =\n", "&1", "&&", "&x.", "&力量.敏捷") + pick(t, "amptail", "", "", "\n", " "), "ampersand", true
	case 11: // operator at the end inside a bracket
		return pick(t, "open", "(", "[", "f(", "{'a':") + expr(t, ws) + ws(t) + rapid.SampledFrom(binOps).Draw(t, "op") + wsnl(t), "dangling-operator", true
	case 12: // junk inside a bracket, text after the error
		return pick(t, "open", "(", "[", "f(") + expr(t, ws) + ws(t) + rapid.SampledFrom(junkStart).Draw(t, "junk") + ws(t) + pick(t, "after", "", "2)", "x]", "aaaa") +
			func() string {
				if rapid.IntRange(0, 2).Draw(t, "pad") == 0 {
					return filler(t)
				}
				return ""
			}(), "junk-in-bracket", true
	}
	// damaged valid line
	src := rapid.SampledFrom(validLines[:22]).Draw(t, "valid")
	return mutate(t, src, 1+rapid.IntRange(0, 1).Draw(t, "nmut"), false), "damaged-line", true
}

var junkTokens = []string{"@", "#", "(", ")", "[", "]", "{", "}", "'", "\"", "`", "if ", "while", "else", "func ", "break", "continue", "\n", "\r\n", "，", "。", "=", "＋", "{%", "%}",
	"^st", "&", "..", "?", ":", ",", ";", "\\", "力", "🎲", " ", "//", "1", "d"}

// mutate damages src by n rapid-driven edits at rune boundaries.
func mutate(t *rapid.T, src string, n int, biasFirstLine bool) string {
	rs := []rune(src)
	for k := 0; k < n; k++ {
		limit := len(rs)
		if biasFirstLine && rapid.Bool().Draw(t, "firstline") {
			for i, r := range rs {
				if r == '\n' || r == ';' {
					limit = i
					break
				}
			}
		}
		pos := 0
		if limit > 0 {
			pos = rapid.IntRange(0, limit).Draw(t, "pos")
		}
		switch rapid.IntRange(0, 5).Draw(t, "edit") {
		case 0: // cut (never down to the empty input, which the generators produce on purpose only)
			if pos == 0 && len(rs) > 1 {
				pos = 1 + len(rs)/2
			}
			rs = rs[:pos]
		case 1: // insert a token
			tok := []rune(rapid.SampledFrom(junkTokens).Draw(t, "tok"))
			rs = append(rs[:pos:pos], append(tok, rs[pos:]...)...)
		case 2: // delete a rune
			if pos < len(rs) {
				rs = append(rs[:pos:pos], rs[pos+1:]...)
			}
		case 3: // replace a rune
			if pos < len(rs) {
				tok := []rune(rapid.SampledFrom(junkTokens).Draw(t, "tok"))
				rs = append(rs[:pos:pos], append(tok, rs[pos+1:]...)...)
			}
		case 4: // drop the last closing bracket or quote
			for i := len(rs) - 1; i >= 0; i-- {
				if strings.ContainsRune(")]}'\"`", rs[i]) {
					rs = append(rs[:i:i], rs[i+1:]...)
					break
				}
			}
		case 5: // insert a long run
			tok := []rune(filler(t))
			rs = append(rs[:pos:pos], append(tok, rs[pos:]...)...)
		}
	}
	return string(rs)
}

// drawGenCase assembles: blank lead / valid preceding lines + broken piece + tail.
// drawHost draws what the host did besides choosing the VM's language: a package-wide default language (one case in
// three) and custom dice whose match may take blanks and line breaks with it (one case in four).
func drawHost(t *rapid.T, c *Case) {
	if rapid.IntRange(0, 5).Draw(t, "hostLazy") == 0 {
		c.Lazy = rapid.IntRange(1, 4).Draw(t, "lazy")
	}
	if rapid.IntRange(0, 2).Draw(t, "hostGlobal") == 0 {
		c.Global = rapid.IntRange(1, 3).Draw(t, "global")
	}
	if rapid.IntRange(0, 3).Draw(t, "hostCustom") == 0 {
		c.Custom = rapid.IntRange(1, 3).Draw(t, "custom")
	}
}

// injectCustom replaces up to two integer literals of the input by operands of the registered custom syntax followed
// by blanks or line breaks (which belong to the match).
func injectCustom(t *rapid.T, c *Case) {
	if c.Custom == 0 {
		return
	}
	letter := map[int]string{1: "E", 2: "K", 3: "X"}[c.Custom]
	rs := []rune(c.Input)
	var spots []int
	for i := 0; i < len(rs); i++ {
		if rs[i] >= '0' && rs[i] <= '9' && (i == 0 || !(rs[i-1] >= '0' && rs[i-1] <= '9') && !isWordRune(rs[i-1]) && rs[i-1] != '.') {
			spots = append(spots, i)
		}
	}
	n := rapid.IntRange(1, 2).Draw(t, "ncustom")
	for k := 0; k < n && len(spots) > 0; k++ {
		j := rapid.IntRange(0, len(spots)-1).Draw(t, "customSpot")
		at := spots[j]
		end := at
		for end < len(rs) && rs[end] >= '0' && rs[end] <= '9' {
			end++
		}
		op := letter + string(rs[at:end]) + pick(t, "customBlank", "\n", "\n", " \n", "\n\n ", " ", "\r\n", "\t\n  ")
		if c.Custom == 3 {
			// the operand ReadExpr reads: complete, or broken so that the sub-parse fails
			op = letter + pick(t, "readexprOperand", "(2+", "(", "[1,", "(1 +\n", "(2+3)", "(好+", "('a", "(1))", "{", "(2 +\n 力量 *") + pick(t, "customBlank", "", " ", "\n", " \n")
		}
		rs = append(append(append([]rune{}, rs[:at]...), []rune(op)...), rs[end:]...)
		spots = nil // offsets moved: one more pass only from a fresh scan
		for i := 0; i < len(rs); i++ {
			if rs[i] >= '0' && rs[i] <= '9' && (i == 0 || !(rs[i-1] >= '0' && rs[i-1] <= '9') && !isWordRune(rs[i-1]) && rs[i-1] != '.') {
				spots = append(spots, i)
			}
		}
	}
	c.Input = string(rs)
}

func isWordRune(r rune) bool {
	return r == '_' || r == '$' || (r >= 'a' && r <= 'z') || (r >= 'A' && r <= 'Z') || r > 127
}

func drawGenCase(t *rapid.T) (c Case, kind string) {
	c, kind = drawGenCase0(t)
	drawHost(t, &c)
	injectCustom(t, &c)
	drawBad(t, &c)
	return c, kind
}

// drawBad: one case in ten is not valid UTF-8: one or two byte groups that no decoder accepts (a lone continuation byte,
// a lead byte without its tail, an overlong form, 0xFF) inserted on rune boundaries of the text.
func drawBad(t *rapid.T, c *Case) {
	if rapid.IntRange(0, 9).Draw(t, "badBytes") != 0 {
		return
	}
	n := rapid.IntRange(1, 2).Draw(t, "nbad")
	for i := 0; i < n; i++ {
		cur := c.text()
		at := rapid.IntRange(0, len(cur)).Draw(t, "badAt")
		for at < len(cur) && !utf8.RuneStart(cur[at]) {
			at++
		}
		c.Bad = append(c.Bad, BadBytes{At: at, Hex: pick(t, "badHex", "ff", "80", "c3", "e58a", "c080", "f0288c", "bf", "fe")})
	}
}

func drawGenCase0(t *rapid.T) (Case, string) {
	c := Case{Lang: rapid.IntRange(0, 2).Draw(t, "lang")}
	if rapid.IntRange(0, 39).Draw(t, "degenerate") == 0 {
		c.Input = pick(t, "blank", "", "", " ", "\n", "\r\n", "   ", "\t", "\n\n\n", " \n ", "  \r\n\t")
		return c, "empty-or-blank"
	}
	piece, kind, firstOnly := brokenPiece(t)
	var sb strings.Builder
	nlead := rapid.IntRange(0, 5).Draw(t, "nlead")
	if firstOnly {
		for i := 0; i < nlead; i++ {
			sb.WriteString(pick(t, "blankline", "\n", "\n", " \n", "\t\n", "\r\n", "  \r\n", "   "))
		}
	} else {
		for i := 0; i < nlead; i++ {
			sb.WriteString(rapid.SampledFrom(validLines).Draw(t, "line"))
			sb.WriteString(rapid.SampledFrom(lineSeps).Draw(t, "sep"))
		}
	}
	sb.WriteString(piece)
	switch rapid.IntRange(0, 5).Draw(t, "tail") {
	case 0:
		sb.WriteString("\n" + rapid.SampledFrom(validLines).Draw(t, "tline"))
	case 1:
		sb.WriteString(" " + freeText(t, 20))
	case 2:
		sb.WriteString("\r\n")
	}
	c.Input = sb.String()
	c.ViaRun = rapid.IntRange(0, 7).Draw(t, "viarun") == 0
	return c, kind
}

// corpus of valid programs (GUIDE.md examples and the repository's test inputs,
// copied by hand) for the mutation section.
var corpus = []string{
	"a = d20 + 5; a",
	"a\n=\n2;a",
	"if true {\n    // xxx\n}",
	"a = d20\nif a > 10 {\n    // xxx\n}\nb = 5",
	"v1 = 1\nv2 = '123'\nv3 = [1,2,3]\nv4 = {}",
	"if d10 > 5 {\n    a = true\n}\n\nif a {\n    '运气不错！' \n}",
	"a = 2\n\nfunc f1() {\n    a = 10\n    return a\n}\n\n[f1(), a]",
	"name1 = 'Alice';\nname2 = 'Bob';\n\n`Hello, {name1} & {name2}, {d100} is today's lucky number`",
	"text = 'Hello, ' + 'world' + '!'",
	"'12345'[2:4]  // 34",
	"`玩家的生命值为，{hp}`",
	"`玩家目前状态：{%\n  if hp / hpmax < 1 {\n    stat = '生命垂危'\n  } else {\n    stat = '还顶得住'\n  }\n  stat // 最后一项非语句块内容会被输出\n%}`",
	"&砍一刀 = D20 + 4",
	"砍一刀 + 10  // 此时为 D20 + 4 + 10，每次调用时会动态计算一遍。",
	"&a = this.x + d10 //\n&a.x = 5",
	"a=[1]*2+[2]*3",
	"a = [1,2,'test', [4,5,6]]",
	"[1,2,3,4,5][2:4]  // [3,4]",
	"a = [1,2,3]; a[2:3] = [4,5,6] // a == [1, 2, 4, 5, 6]",
	"[1,2,3].kl(2) // 取最低的2个值并相加，3",
	"d = { 'v1': 1, 'v2': '测试', 1: 'test' }",
	"d.v3 = 4\nd['v4'] = 5",
	"func test(n) {\n    return n + 1;\n}\n\ntest(11) // 获得12",
	"func fib(n) {\n  this.n == 0 ? 0,\n  this.n == 1 ? 1,\n  this.n == 2 ? 1,\n   1 ? fib(this.n-1)+fib(this.n-2)\n}\nfib(11) // 89",
	"func fib(n) {\n  if this.n == 0 { 0 }\n  else if this.n == 1 { 1 }\n  else if this.n == 2 { 1 } else {\n    fib(this.n-1) + fib(this.n-2)\n  }\n}\nfib(10) // 55",
	"t0 = d20\n\nif t0 > 10 {\n    t1 = \"aaa\"\n} else {\n    t1 = 'bbb'\n}",
	"t1 = 0;\nwhile t1 < 10 {\n\tt1 = t1 + 1\n}",
	"if v1 > 10 && v2 > 15 {\n    // ...\n}",
	"a = [1,2,3];\nif '' || 'OK' || a.push(4) {\n    // 这里a.push(4)不会触发\n} ",
	"灵视 = d100;\n灵视 >= 40 ? '如果灵视达到40以上，你就能看到这句话' : '无知亦是幸运'",
	"灵视 = d100;\n\n灵视 >= 80 ? '看得很清楚吗？',\n灵视 >= 50 ? '不错，再靠近一点……',\n灵视 >= 30 ? '仔细听……',\n灵视 >= 0 ? '呵，无知之人。'",
	"// #EnableDiceWoD false\na2",
	"^st力量60敏捷70",
	"^st力量60 敏捷70 智力:80 知识=90",
	"^st力量+1d4+2",
	"^st&手枪=(1d6+2)",
	"(力量 + 敏捷 * 2 -\r\n  体质) / 3",
	"[力量,\n 敏捷,\n 体质,\n 智力].sum()",
	"{'力量': 50,\n '敏捷': 60,\n '说明': '一段很长很长很长很长很长很长很长很长很长很长很长很长的说明文字'}",
	"f(1,\n  2,\n  '三')",
	"\"多行\n字符串\n第三行\" + '结尾'",
	"`第一行\n第二行 {力量 + 1}\n第三行 {% x = 1; x %}`",
	"x = 4d6k3 + 2d20优势 + 3d10min2",
	"力量 = 50; 敏捷 = 60; 体质 = 70; 智力 = 80; 意志 = 90; 幸运 = 55; 教育 = 65; 外貌 = 45",
}

func drawMutCase(t *rapid.T) (Case, string) {
	c := Case{Lang: rapid.IntRange(0, 2).Draw(t, "lang")}
	idx := rapid.IntRange(0, len(corpus)-1).Draw(t, "corpus")
	src := corpus[idx]
	if rapid.IntRange(0, 3).Draw(t, "lead") == 0 {
		src = pick(t, "leadws", "\n", "  \n", "\r\n\r\n", "\t", "\n\n\n") + src
	}
	n := rapid.IntRange(1, 3).Draw(t, "nmut")
	c.Input = mutate(t, src, n, true)
	c.ViaRun = rapid.IntRange(0, 7).Draw(t, "viarun") == 0
	drawHost(t, &c)
	injectCustom(t, &c)
	drawBad(t, &c)
	return c, "corpus"
}

// ---------------------------------------------------------------------------
// bounded exhaustive enumeration of short token sequences

var enumTokens = []string{"(", ")", "[", "{", "'", "`", "1", "+", "\n", " ", "力", "if", "x", "^st", "/", ";"}

func enumerate(s *rt.Section, run *rt.Run, maxLen int) {
	n := len(enumTokens)
	var total, rejected int64
	idx := make([]int, maxLen)
	first := 0
	for length := 0; length <= maxLen; length++ {
		for i := range idx {
			idx[i] = 0
		}
		for {
			first++
			if first%run.Env.NShards == run.Env.Shard {
				var sb strings.Builder
				for i := 0; i < length; i++ {
					sb.WriteString(enumTokens[idx[i]])
				}
				in := sb.String()
				total++
				// acceptance does not depend on the language: one parse decides, the other two follow for rejected inputs
				for lang := 0; lang < 3; lang++ {
					c := Case{Lang: lang, Input: in}
					fails, outcome, info := checkCase(c, s)
					if outcome != "rejected" {
						s.Discard(outcome)
						break
					}
					rejected++
					if lang == 0 {
						classify(s, c, info)
					}
					h := rt.Hash(strconv.Itoa(lang), in)
					if info.nonTrivial {
						s.NonTrivial(h)
					}
					if rejected%9973 == 1 {
						s.Sample(h, c)
					}
					if report(nil, s, fails) {
						s.EvalN(rejected)
						return
					}
				}
			}
			p := length - 1
			for p >= 0 {
				idx[p]++
				if idx[p] < n {
					break
				}
				idx[p] = 0
				p--
			}
			if p < 0 {
				break
			}
		}
	}
	s.ClassN("inputs-enumerated", total)
	s.EvalN(rejected)
}

// ---------------------------------------------------------------------------
// concurrency: VMs with different settings parsing at the same time

type ConcVM struct {
	Lang   int      `json:"lang"`
	Inputs []string `json:"inputs"`
	Rounds int      `json:"rounds"`
	Yield  int      `json:"yield"`
}

type ConcCase struct {
	VMs []ConcVM `json:"vms"`
}

var concInputs = []string{"/", "(1+2", "[1,2", "'abc", "", "  ", "力量 = (", "^st 力量", "(力量 +\n 敏捷 *", "`{1+}`", "{'a':1", "&", "@力量", "(1 @ 2)", "if", "x = while", "break",
	"1", "力量 = 50", "2d6 + 3"}

var sink atomic.Int64

type key struct {
	lang int
	in   string
}

// aloneTexts caches the text a (language, input) pair yields when no other VM
// runs; it is only touched by the goroutine that runs the section.
var aloneTexts = map[key]string{}

// checkConc runs every VM of the plan in its own goroutine and compares each
// error text with the text the same VM configuration produces alone.
// With serial set the goroutines run one after the other (used by the race-detector
// section while the shared-language race is an open finding: every parallel Parse
// would be reported again and the Go test framework fails a test that raced).
func checkConc(c ConcCase, s *rt.Section, serial bool) (*rt.Failure, bool) {
	alone := aloneTexts
	mixed := false
	for _, v := range c.VMs {
		if v.Lang != c.VMs[0].Lang {
			mixed = true
		}
		for _, in := range v.Inputs {
			for lang := 0; lang < 3; lang++ {
				k := key{lang, in}
				if _, ok := alone[k]; !ok {
					txt, _, pi := parseText(Case{Lang: lang}, in)
					if pi != nil {
						return nil, false // outside this property
					}
					alone[k] = txt
				}
			}
		}
	}
	type obs struct {
		vm, round, i int
		text         string
	}
	results := make([][]obs, len(c.VMs))
	var pmu sync.Mutex
	var pinfo string
	var wg sync.WaitGroup
	start := make(chan struct{})
	turn := make([]chan struct{}, len(c.VMs)+1)
	for i := range turn {
		turn[i] = make(chan struct{})
	}
	close(turn[0])
	for g, v := range c.VMs {
		wg.Add(1)
		go func(g int, v ConcVM) {
			defer wg.Done()
			defer func() {
				if r := recover(); r != nil {
					pmu.Lock()
					pinfo = fmt.Sprint(r)
					pmu.Unlock()
				}
			}()
			vm := ds.NewVM()
			vm.Config.ParseErrorLanguage = v.Lang
			if serial {
				<-turn[g]
				defer close(turn[g+1])
			}
			<-start
			x := int64(0)
			for i := 0; i < v.Yield*40; i++ {
				x += int64(i)
			}
			sink.Add(x)
			rounds := v.Rounds
			if rounds < 1 {
				rounds = 1
			}
			for r := 0; r < rounds; r++ {
				for i, in := range v.Inputs {
					txt := ""
					if err := vm.Parse(in); err != nil {
						txt = err.Error()
					}
					results[g] = append(results[g], obs{g, r, i, txt})
				}
			}
		}(g, v)
	}
	close(start)
	wg.Wait()
	if pinfo != "" {
		return s.NewFailure("no-panic", "conc:panic", c, pinfo, "no panic"), mixed
	}
	for g, v := range c.VMs {
		for _, o := range results[g] {
			in := v.Inputs[o.i]
			want := alone[key{v.Lang, in}]
			if o.text == want {
				continue
			}
			// another VM's language: every line of the text is a line of this input's text in some language
			// (the setting can change between the header and the position lines of one message)
			lines := map[string]bool{}
			for lang := 0; lang < 3; lang++ {
				for _, ln := range strings.Split(alone[key{lang, in}], "\n") {
					lines[ln] = true
				}
			}
			sig := "conc:foreign-language"
			for _, ln := range strings.Split(o.text, "\n") {
				if !lines[ln] {
					sig = "conc:text-differs"
				}
			}
			return s.NewFailure("alone-vs-concurrent", sig, c,
				fmt.Sprintf("VM %d (language %s) round %d input %q got %q", g, langName(v.Lang), o.round, in, o.text),
				fmt.Sprintf("%q (its text when no other VM runs)", want)), mixed
		}
	}
	return nil, mixed
}

func drawConcCase(t *rapid.T) ConcCase {
	c := ConcCase{}
	g := rapid.IntRange(2, 4).Draw(t, "vms")
	for i := 0; i < g; i++ {
		v := ConcVM{Lang: rapid.IntRange(0, 2).Draw(t, "lang"), Rounds: rapid.IntRange(1, 6).Draw(t, "rounds"), Yield: rapid.IntRange(0, 40).Draw(t, "yield")}
		n := rapid.IntRange(1, 5).Draw(t, "n")
		for j := 0; j < n; j++ {
			v.Inputs = append(v.Inputs, rapid.SampledFrom(concInputs).Draw(t, "in"))
		}
		c.VMs = append(c.VMs, v)
	}
	return c
}

func concProp(t *rapid.T, s *rt.Section, underDetector bool) {
	c := drawConcCase(t)
	s.Eval()
	b, _ := json.Marshal(c)
	h := rt.HashBytes(b)
	s.Crumb(c)
	serial := underDetector && s.Avoid("parallel_parse")
	f, mixed := checkConc(c, s, serial)
	if mixed {
		s.NonTrivial(h)
		s.Class("mixed-languages")
	} else {
		s.Class("one-language")
	}
	s.Sample(h, c)
	s.Report(t, f)
}

// ---------------------------------------------------------------------------

const genRule = "host dimension (both gen and mut): one case in three after SetParseErrorLanguage(bilingual|Chinese|English) was called (the VM's own setting must decide), one case in four on a VM with custom dice whose match takes blanks and line breaks with it (regex E(\\d+)\\s* or a stream parser) and one or two integer literals rewritten into such operands; generated rejected inputs: 0..5 blank or valid preceding lines (CJK identifiers, strings, comments, CRLF) + one damaged fragment (illegal first character, unclosed bracket/string possibly spanning lines, damaged template hole, keyword as name, malformed if/while/func, break/continue outside a loop, ^st and & forms, dangling operator, junk inside brackets, mutated valid line; long ASCII/2-/3-/4-byte fillers before or after the error) + optional tail, x 3 languages; accepted inputs are discarded and counted; non-trivial = some reported error is not at byte 0 (line 1 column 1); distinct by (language, input)"

const mutRule = "GUIDE/test-suite programs damaged by 1..3 rune-boundary edits (cut, insert token, delete, replace, drop last closer, insert long run; half of the edits aimed at the first statement) x 3 languages; accepted inputs discarded and counted; non-trivial = some reported error is not at byte 0; distinct by (language, input)"

const concRule = "2..4 VMs with drawn languages, each parsing 1..5 inputs (rejected and accepted) for 1..6 rounds in its own goroutine after a common start; every error text compared with the text the same configuration produces alone; non-trivial = at least two different languages in the plan; distinct by plan"

func TestProp(t *testing.T) {
	run := rt.Begin(t, "C19")
	defer run.Finish()

	L := 4
	if run.Env.Thorough() {
		L = 5
	}
	run.Enum("enum", fmt.Sprintf("every concatenation of 0..%d tokens from %q parsed; each rejected one checked in all three languages; non-trivial = some reported error is not at byte 0; distinct by (language, input)", L, enumTokens),
		func(s *rt.Section) {
			s.Exhaustive = true
			s.Bounds = fmt.Sprintf("16 tokens, all sequences of length 0..%d, 3 languages", L)
			enumerate(s, run, L)
		})

	run.Check("gen", 36000, 500000, genRule, func(t *rapid.T, s *rt.Section) {
		c, kind := drawGenCase(t)
		judge(t, s, c, kind)
	})

	run.Check("mut", 24000, 300000, mutRule, func(t *rapid.T, s *rt.Section) {
		c, kind := drawMutCase(t)
		judge(t, s, c, kind)
	})

	run.Check("conc", 500, 10000, concRule, func(t *rapid.T, s *rt.Section) { concProp(t, s, false) })
	run.Check("race", 200, 2000, concRule+"; built with the race detector (while finding C19-F07 is open its avoid switch parallel_parse makes the VMs of a plan run one after the other)",
		func(t *rapid.T, s *rt.Section) { concProp(t, s, true) })
}

// replayWanted returns the signature recorded in the file being replayed.
func replayWanted() string {
	b, err := os.ReadFile(os.Getenv("VERIF_REPLAY"))
	if err != nil {
		return ""
	}
	var f rt.Failure
	if json.Unmarshal(b, &f) != nil {
		return ""
	}
	return f.Signature
}

func TestReplay(t *testing.T) {
	one := func(b []byte, s *rt.Section) *rt.Failure {
		var c Case
		if err := json.Unmarshal(b, &c); err != nil {
			return s.NewFailure("replay", "replay:bad-case", nil, err.Error(), "")
		}
		fails, _, _ := checkCase(c, s)
		// the recorded signature first, so that a case with several disagreements replays as what it was saved for
		want := replayWanted()
		for _, f := range fails {
			if f.Signature == want {
				return f
			}
		}
		if len(fails) > 0 {
			return fails[0]
		}
		return nil
	}
	conc := func(b []byte, s *rt.Section) *rt.Failure {
		var c ConcCase
		if err := json.Unmarshal(b, &c); err != nil {
			return s.NewFailure("replay", "replay:bad-case", nil, err.Error(), "")
		}
		attempts := 300 // the oracle's verdict is schedule dependent
		if s.Name == "race" {
			attempts = 10 // the detector judges by happens-before, not by luck
		}
		for i := 0; i < attempts; i++ {
			if f, _ := checkConc(c, s, false); f != nil {
				return f
			}
		}
		return nil
	}
	rt.Replay(t, "C19", map[string]rt.ReplayFunc{"enum": one, "gen": one, "mut": one, "conc": conc, "race": conc})
}
