package c19

import (
	"testing"
	"unicode/utf8"

	"verif/harness/rt"
)

// FuzzC19 (thorough tier): coverage-guided search over raw input bytes; every rejected input's error text is
// judged by the oracles of the gen section (position recomputed, quote, caret, language purity, Parse vs Run).
// The first byte selects the language (mod 3) and whether Run is observed too; the rest is the input.
func FuzzC19(f *testing.F) {
	for i, p := range corpus {
		f.Add(append([]byte{byte(i)}, p...))
	}
	f.Add([]byte("\x011 +\n 2 *"))
	f.Add([]byte("\x02力量 = (3 + \n\n  [1, 2"))
	f.Add([]byte("\x05"))
	_, s := rt.FuzzRun("C19", "gen")
	f.Fuzz(func(t *testing.T, data []byte) {
		if len(data) < 1 || len(data) > 400 {
			return
		}
		c := Case{Lang: int(data[0] % 3), ViaRun: data[0]&4 != 0, Input: string(data[1:])}
		if !utf8.ValidString(c.Input) {
			return
		}
		fails, _, _ := checkCase(c, s)
		for _, fl := range fails {
			if s.FuzzReport(fl) {
				t.Fatalf("C19 %s\nobserved: %s\nexpected: %s\ncase: %s", fl.Signature, fl.Observed, fl.Expected, fl.Case)
			}
		}
	})
}
